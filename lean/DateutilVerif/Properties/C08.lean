/-
  Properties/C08.lean — tzstr / tzrange implement POSIX TZ rule semantics.

  The model (`Model/TzStr.lean`) mirrors `_tzparser.parse`, `tzstr.__init__/_delta`,
  `tzrange.__init__/transitions`; the spec (`Spec/Posix.lean`) is written from POSIX.

  Full-strength statement of the transition part of C08:
      for every rule triple, every year: transitions y = (POSIX start, POSIX end) on the
      standard-time side.
  What is proved (`…_partial`): exactly that, for ALL years 2..9998, ALL valid rules of the three
  forms and ALL offsets, under `InRangeTime`: for an `Mm.w.d` rule the time of day added before the
  weekday search (start: the rule time; end: rule time − saving) lies in [0, 24 h).
  The complement is the known finding D-C08 (the negation is exhibited below by `decide`).
  Years 1 and 9999 are excluded only because the weekday search may leave datetime's range there.
-/
import DateutilVerif.Proofs.TzStr
import DateutilVerif.Proofs.TzStrTableM
import DateutilVerif.Proofs.TzStrTableJ
import DateutilVerif.Proofs.TzStrTableN
import DateutilVerif.Proofs.TzStrTableH
import DateutilVerif.Proofs.TzStrRange
import DateutilVerif.Proofs.TzStrRender
import DateutilVerif.Proofs.TzStrBounds
import DateutilVerif.Model.TzRange

namespace C08
open TzStr Posix

/-- rule numbers in POSIX range (`n = 365` of the zero-based form is at the year boundary and
    excluded by the property's own quantifier) -/
def ValidRule : Rule → Prop
  | .M m w d => 1 ≤ m ∧ m ≤ 12 ∧ 1 ≤ w ∧ w ≤ 5 ∧ 0 ≤ d ∧ d ≤ 6
  | .J n => 1 ≤ n ∧ n ≤ 365
  | .N n => 0 ≤ n ∧ n ≤ 364

/-- seconds added to the rule date before the weekday search -/
def InRangeTime : Rule → Int → Prop
  | .M _ _ _, secs => 0 ≤ secs ∧ secs < 86400
  | _, secs => -86400 * 300 ≤ secs ∧ secs < 86400 * 300

/-- the heart: `datetime(y,1,1) + _delta(rule)` is the POSIX rule date plus the seconds -/
theorem rule_instant (y : Int) (r : Rule) (time : Int) (isend : Bool) (std dst : Int)
    (hy1 : 2 ≤ y) (hy2 : y ≤ 9998) (hr : ValidRule r)
    (ht : InRangeTime r (time - (if isend then dst - std else 0))) :
    ∃ D, delta (attrOf r (some time)) isend std dst = .ok D ∧
      applyDelta y D = .ok (ruleOrdinal y r * 86400 + (time - (if isend then dst - std else 0))) := by
  cases r with
  | M m w d =>
    obtain ⟨m1, m12, w1, w5, d0, d6⟩ := hr
    obtain ⟨t0, t1⟩ := ht
    refine ⟨_, rfl, ?_⟩
    simp only [attrOf, Option.getD]
    exact apply_M y m w d _ hy1 hy2 m1 m12 w1 w5 d0 d6 t0 t1
  | J n =>
    obtain ⟨n1, n2⟩ := hr
    obtain ⟨t0, t1⟩ := ht
    obtain ⟨m, dd, he, ha⟩ := apply_J y n (time - (if isend then dst - std else 0)) hy1 hy2 n1 n2 t0 t1
    have hn0 : (n == 0) = false := by simp; omega
    refine ⟨{ month := some m, day := some dd, seconds := time - (if isend then dst - std else 0) }, ?_, ha⟩
    simp [delta, attrOf, hn0, he, bind, Except.bind, pure, Except.pure]
  | N n =>
    obtain ⟨n1, n2⟩ := hr
    obtain ⟨t0, t1⟩ := ht
    obtain ⟨m, dd, he, ha⟩ := apply_N y n (time - (if isend then dst - std else 0)) hy1 hy2 n1 n2 t0 t1
    have hn0 : (n + 1 == 0) = false := by simp; omega
    refine ⟨{ month := some m, day := some dd, leapdays := (if 59 < n + 1 ∧ n + 1 < 366 then -1 else 0),
              seconds := time - (if isend then dst - std else 0) }, ?_, ha⟩
    simp [delta, attrOf, hn0, he, bind, Except.bind, pure, Except.pure]

/-- a POSIX spec as the parser result that its canonical spelling produces -/
def resOf (s : Spec) : Res :=
  { stdabbr := some "AAA", stdoffset := some s.stdOff, dstabbr := some "BBB", dstoffset := some s.dstOff,
    start := attrOf s.startRule (some s.startTime), «end» := attrOf s.endRule (some s.endTime) }

def InRangeTimes (s : Spec) : Prop :=
  InRangeTime s.startRule s.startTime ∧ InRangeTime s.endRule (s.endTime - (s.dstOff - s.stdOff))

/-- **C08 (transitions), partial.** For every spec with valid rules and in-range times, every year
    2..9998: the zone's yearly transitions are the POSIX start and end instants, both on the
    standard-time side (`startUtc = dston − std`, `endUtc = dstoff − std`, which is how
    `tzrangebase.fromutc` converts them). Missing for full strength: M-rules with out-of-range
    times (known finding D-C08) and years 1 / 9999. -/
theorem transitions_eq_posix_partial (s : Spec) (y : Int) (hy1 : 2 ≤ y) (hy2 : y ≤ 9998)
    (hs : ValidRule s.startRule) (he : ValidRule s.endRule) (ht : InRangeTimes s) :
    ∃ sd ed, delta (resOf s).start false s.stdOff s.dstOff = .ok sd ∧
             delta (resOf s).«end» true s.stdOff s.dstOff = .ok ed ∧
      ∃ a b, applyDelta y sd = .ok a ∧ applyDelta y ed = .ok b ∧
        a - s.stdOff = startUtc s y ∧ b - s.stdOff = endUtc s y := by
  obtain ⟨sd, hsd, hsa⟩ := rule_instant y s.startRule s.startTime false s.stdOff s.dstOff hy1 hy2 hs (by simpa using ht.1)
  obtain ⟨ed, hed, hea⟩ := rule_instant y s.endRule s.endTime true s.stdOff s.dstOff hy1 hy2 he (by simpa using ht.2)
  refine ⟨sd, ed, hsd, hed, _, _, hsa, hea, ?_, ?_⟩
  · unfold startUtc; simp
  · unfold endUtc; simp; omega

/-- the zone object `tzstr.__init__` builds for the canonical spelling of `s` -/
def IsZoneOf (s : Spec) (z : Zone) : Prop :=
  z.hasdst = true ∧ z.stdOff = s.stdOff ∧ z.dstOff = s.dstOff ∧
  ∃ sd ed, z.start = some sd ∧ z.«end» = some ed ∧
    delta (resOf s).start false s.stdOff s.dstOff = .ok sd ∧
    delta (resOf s).«end» true s.stdOff s.dstOff = .ok ed

/-- the model's yearly transitions of such a zone, in the `RangeZone` (epoch) convention -/
theorem range_transitions (s : Spec) (z : Zone) (hz : IsZoneOf s z) (y : Int) (hy1 : 2 ≤ y) (hy2 : y ≤ 9998)
    (hs : ValidRule s.startRule) (he : ValidRule s.endRule) (ht : InRangeTimes s) :
    (TZ.ofTzStr z).transitions y =
      some (startUtc s y + s.stdOff - TZ.epochShift, endUtc s y + s.stdOff - TZ.epochShift) := by
  obtain ⟨h1, h2, h3, sd, ed, h4, h5, h6, h7⟩ := hz
  obtain ⟨sd', ed', e1, e2, a, b, e3, e4, e5, e6⟩ := transitions_eq_posix_partial s y hy1 hy2 hs he ht
  rw [h6] at e1; rw [h7] at e2
  cases Except.ok.inj e1; cases Except.ok.inj e2
  have : TzStr.transitions z y = .ok (some (a, b)) := by
    unfold TzStr.transitions
    simp only [h1, h4, h5, e3, e4, bind, Except.bind]
  simp only [TZ.ofTzStr, this]
  congr 2 <;> omega

/-- **C08 (main statement), mid-year form** (no margin needed, but the instant must not be within an offset of New Year).
    `z` is the zone of the spec `s` (positive saving), viewed as a `tzrangebase`
    (`TZ.ofTzStr z`, whose `transitions` are the model's `TzStr.transitions`).  `t` is a UTC instant
    (seconds since the epoch) of a year `Y` in 3..9997 such that
    * in `Y−1`, `Y`, `Y+1` both transitions lie inside their own UTC year and come in the same order
      (either hemisphere), and
    * the wall-clock year of `t` under either offset is `Y` (the instant is not within an offset of
      New Year — `tzrangebase` looks the rule up by the UTC year in `fromutc` and by the wall-clock
      year in `utcoffset`; where the two differ is D-C04y's class).
    Then the converted datetime reports POSIX's offset, `dst() = saving` exactly when POSIX says
    daylight time, and the matching abbreviation. -/
theorem tzstr_posix_midyear_partial (s : Spec) (z : Zone) (hz : IsZoneOf s z)
    (hs : ValidRule s.startRule) (he : ValidRule s.endRule) (ht : InRangeTimes s)
    (hsav : s.stdOff < s.dstOff) (t Y : Int) (hY : TZ.yearOf t = Y) (hY1 : 3 ≤ Y) (hY2 : Y ≤ 9997)
    (i0 : TZ.Inside s (Y - 1)) (i1 : TZ.Inside s Y) (i2 : TZ.Inside s (Y + 1))
    (o0 : startUtc s (Y - 1) < endUtc s (Y - 1) ↔ startUtc s Y < endUtc s Y)
    (o2 : startUtc s (Y + 1) < endUtc s (Y + 1) ↔ startUtc s Y < endUtc s Y)
    (hw1 : TZ.yearOf (t + s.stdOff) = Y) (hw2 : TZ.yearOf (t + s.dstOff) = Y) :
    ∃ w, (TZ.ofTzStr z).fromutc t = .ok w ∧
      (TZ.ofTzStr z).utcoffset w = .ok (Posix.offsetAt s (t + TZ.epochShift)) ∧
      (TZ.ofTzStr z).dst w = .ok (if Posix.isDstAt s (t + TZ.epochShift) then s.dstOff - s.stdOff else 0) ∧
      (TZ.ofTzStr z).tzname w = .ok (if Posix.isDstAt s (t + TZ.epochShift)
        then TZ.abbrBytes z.dstAbbr else TZ.abbrBytes z.stdAbbr) := by
  have htr := range_transitions s z hz Y (by omega) (by omega) hs he ht
  obtain ⟨z1, z2, z3, _⟩ := hz
  have hstd : (TZ.ofTzStr z).stdOff = s.stdOff := z2
  have hdst : (TZ.ofTzStr z).dstOff = s.dstOff := z3
  have hsv : (TZ.ofTzStr z).saving = s.dstOff - s.stdOff := by unfold TZ.RangeZone.saving; rw [hstd, hdst]
  obtain ⟨w, hf, _, hi⟩ := TZ.RangeZone.isdst_fromutc (TZ.ofTzStr z) t _ _ _ _ _ _
    (by rw [hsv]; omega) z1 (by rw [hY]; exact htr) (by rw [hstd, hw1]; exact htr) (by rw [hdst, hw2]; exact htr)
    rfl rfl rfl rfl
  -- the pair's decision is POSIX's
  have hyT : 86400 ≤ t + TZ.epochShift := by
    have := (TZ.yearOf_shift t)
    by_cases c : 86400 ≤ t + TZ.epochShift
    · exact c
    · exfalso
      have hdiv : (t + TZ.epochShift) / 86400 ≤ 0 := by omega
      have h1 := TZ.fromOrdinal_year_nonpos _ hdiv
      rw [← TZ.yearOf_shift] at h1
      omega
  obtain ⟨b1, b2⟩ := (TZ.yearOf_iff t Y hyT).mp hY
  have hposix := TZ.naive_eq_posix s Y (t + TZ.epochShift) b1 b2 (by rw [← TZ.yearOf_shift]; exact hY)
    i0 i1 i2 o0 o2
  have hd : TZ.RangeZone.naiveIsdst t
      (startUtc s Y + s.stdOff - TZ.epochShift - (TZ.ofTzStr z).stdOff,
       endUtc s Y + s.stdOff - TZ.epochShift - (TZ.ofTzStr z).stdOff) = Posix.isDstAt s (t + TZ.epochShift) := by
    rw [← hposix, hstd]
    unfold TZ.RangeZone.naiveIsdst
    simp only
    rw [Bool.eq_iff_iff]
    by_cases c : startUtc s Y < endUtc s Y
    · have c' : startUtc s Y + s.stdOff - TZ.epochShift - s.stdOff < endUtc s Y + s.stdOff - TZ.epochShift - s.stdOff := by omega
      simp only [c, c', if_true, Bool.and_eq_true, decide_eq_true_eq]; omega
    · have c' : ¬ (startUtc s Y + s.stdOff - TZ.epochShift - s.stdOff < endUtc s Y + s.stdOff - TZ.epochShift - s.stdOff) := by omega
      simp only [c, c', if_false, ← Bool.decide_and, Bool.not_eq_true', decide_eq_false_iff_not]; omega
  rw [hd] at hi
  obtain ⟨r1, r2, r3⟩ := TZ.RangeZone.answers_of_isdst _ w _ hi
  refine ⟨w, hf, ?_, ?_, ?_⟩
  · rw [r1, hstd, hdst]; rfl
  · rw [r2, hsv]
  · rw [r3]; rfl

/-- **C08 (main statement), partial: string → transitions → lookup = POSIX.**
    `z` is the zone of the spec `s` (positive saving) viewed as a `tzrangebase` (`TZ.ofTzStr z`,
    whose `transitions` are the model's `TzStr.transitions`).  For EVERY UTC instant `t` (seconds
    since the epoch) of a year `Y` in 3..9997 such that the rule pair is away from the year
    boundary — in `Y−1`, `Y`, `Y+1` both transitions keep a margin `m` from both ends of their own
    UTC year, where `m` bounds `|stdOff|`, `|dstOff|` and the saving, and come in the same order
    (either hemisphere) — the converted datetime reports POSIX's offset, `dst() = saving` exactly
    when POSIX says daylight time, and the matching abbreviation.  Instants next to New Year are
    included: there `fromutc` and `utcoffset` consult different years' pairs, which the margin
    makes agree (`TZ.decisions_cohere`); without the margin that is D-C04y. -/
theorem tzstr_posix_partial (s : Spec) (z : Zone) (hz : IsZoneOf s z)
    (hs : ValidRule s.startRule) (he : ValidRule s.endRule) (ht : InRangeTimes s)
    (hsav : s.stdOff < s.dstOff) (t Y m : Int) (hY : TZ.yearOf t = Y) (hY1 : 3 ≤ Y) (hY2 : Y ≤ 9997)
    (m1 : -m ≤ s.stdOff) (m2 : s.stdOff ≤ m) (m3 : -m ≤ s.dstOff) (m4 : s.dstOff ≤ m)
    (m5 : s.dstOff - s.stdOff ≤ m)
    (i0 : TZ.InsideM s (Y - 1) m) (i1 : TZ.InsideM s Y m) (i2 : TZ.InsideM s (Y + 1) m)
    (o0 : startUtc s (Y - 1) < endUtc s (Y - 1) ↔ startUtc s Y < endUtc s Y)
    (o2 : startUtc s (Y + 1) < endUtc s (Y + 1) ↔ startUtc s Y < endUtc s Y) :
    ∃ w, (TZ.ofTzStr z).fromutc t = .ok w ∧
      (TZ.ofTzStr z).utcoffset w = .ok (Posix.offsetAt s (t + TZ.epochShift)) ∧
      (TZ.ofTzStr z).dst w = .ok (if Posix.isDstAt s (t + TZ.epochShift) then s.dstOff - s.stdOff else 0) ∧
      (TZ.ofTzStr z).tzname w = .ok (if Posix.isDstAt s (t + TZ.epochShift)
        then TZ.abbrBytes z.dstAbbr else TZ.abbrBytes z.stdAbbr) := by
  have hm : 0 < m := by omega
  have htr := range_transitions s z hz Y (by omega) (by omega) hs he ht
  have z1 := hz.1
  have hstd : (TZ.ofTzStr z).stdOff = s.stdOff := hz.2.1
  have hdst : (TZ.ofTzStr z).dstOff = s.dstOff := hz.2.2.1
  have hsv : (TZ.ofTzStr z).saving = s.dstOff - s.stdOff := by unfold TZ.RangeZone.saving; rw [hstd, hdst]
  have hyT : 86400 ≤ t + TZ.epochShift := by
    by_cases c : 86400 ≤ t + TZ.epochShift
    · exact c
    · exfalso
      have hdiv : (t + TZ.epochShift) / 86400 ≤ 0 := by omega
      have h1 := TZ.fromOrdinal_year_nonpos _ hdiv
      rw [← TZ.yearOf_shift] at h1
      omega
  obtain ⟨b1, b2⟩ := (TZ.yearOf_iff t Y hyT).mp hY
  -- the wall-clock years' pairs
  have wall : ∀ o, (o = s.stdOff ∨ o = s.dstOff) → ∃ on' off',
      (TZ.ofTzStr z).transitions (TZ.yearOf (t + o)) = some (on', off') ∧
      TZ.RangeZone.naiveIsdst (t + o) (on', off') = TZ.RangeZone.naiveIsdst (t + o)
        (startUtc s Y + s.stdOff - TZ.epochShift, endUtc s Y + s.stdOff - TZ.epochShift) ∧
      (decide (off' ≤ t + o) && decide (t + o < off' + (s.dstOff - s.stdOff))) =
      (decide (endUtc s Y + s.stdOff - TZ.epochShift ≤ t + o) &&
        decide (t + o < endUtc s Y + s.stdOff - TZ.epochShift + (s.dstOff - s.stdOff))) := by
    intro o ho
    obtain ⟨y', ⟨p1, p2⟩, hy', hn, ha⟩ := TZ.decisions_cohere s m Y (t + TZ.epochShift) o b1 b2 hsav ho
      m1 m2 m3 m4 m5 i0 i1 i2 o0 o2
    have hy'1 : 2 ≤ y' := by omega
    have hy'2 : y' ≤ 9998 := by omega
    have hge := TZ.ys_ge y' (by omega)
    have hyo : TZ.yearOf (t + o) = y' := by
      rw [TZ.yearOf_iff (t + o) y' (by omega)]
      exact ⟨by omega, by omega⟩
    refine ⟨_, _, by rw [hyo]; exact range_transitions s z hz y' hy'1 hy'2 hs he ht, ?_, ?_⟩
    · have e : t + o = (t + TZ.epochShift + o) - TZ.epochShift := by omega
      rw [e, TZ.naiveIsdst_shift, TZ.naiveIsdst_shift]; exact hn
    · have e : t + o = (t + TZ.epochShift + o) - TZ.epochShift := by omega
      rw [e, TZ.amb_shift, TZ.amb_shift]; exact ha
  obtain ⟨on₁, off₁, t₁, n₁, a₁⟩ := wall s.stdOff (Or.inl rfl)
  obtain ⟨on₂, off₂, t₂, n₂, a₂⟩ := wall s.dstOff (Or.inr rfl)
  obtain ⟨w, hf, _, hi⟩ := TZ.RangeZone.isdst_fromutc (TZ.ofTzStr z) t _ _ on₁ off₁ on₂ off₂
    (by rw [hsv]; omega) z1 (by rw [hY]; exact htr) (by rw [hstd]; exact t₁) (by rw [hdst]; exact t₂)
    (by rw [hstd]; exact n₁) (by rw [hstd, hsv]; exact a₁) (by rw [hdst]; exact n₂) (by rw [hdst, hsv]; exact a₂)
  have hposix := TZ.naive_eq_posix s Y (t + TZ.epochShift) b1 b2 (by rw [← TZ.yearOf_shift]; exact hY)
    (i0.inside hm) (i1.inside hm) (i2.inside hm) o0 o2
  have hd : TZ.RangeZone.naiveIsdst t
      (startUtc s Y + s.stdOff - TZ.epochShift - (TZ.ofTzStr z).stdOff,
       endUtc s Y + s.stdOff - TZ.epochShift - (TZ.ofTzStr z).stdOff) = Posix.isDstAt s (t + TZ.epochShift) := by
    rw [← hposix, hstd]
    have e : t = (t + TZ.epochShift) - TZ.epochShift := by omega
    have e1 : startUtc s Y + s.stdOff - TZ.epochShift - s.stdOff = startUtc s Y - TZ.epochShift := by omega
    have e2 : endUtc s Y + s.stdOff - TZ.epochShift - s.stdOff = endUtc s Y - TZ.epochShift := by omega
    rw [e1, e2]
    conv => lhs; rw [e]
    exact TZ.naiveIsdst_shift _ _ _ _
  rw [hd] at hi
  obtain ⟨r1, r2, r3⟩ := TZ.RangeZone.answers_of_isdst _ w _ hi
  refine ⟨w, hf, ?_, ?_, ?_⟩
  · rw [r1, hstd, hdst]; rfl
  · rw [r2, hsv]
  · rw [r3]; rfl

/-- **tzrange_eq_tzstr.** A `tzrange` built from a daylight-saving tzstr zone's abbreviations,
    offsets and the two relativedeltas (`tzrange.__init__`, Model/TzRange.lean) is the same zone
    record — hence equal under `tzrange.__eq__` (six fields), the same `tzrangebase` view and the
    same answers to every query.  (`tdCheck`: the offsets are representable timedeltas, which
    `tzstr.__init__` has already required; `truthy`: `hasdst = bool(start_delta)`.) -/
theorem tzrange_eq_tzstr (z : Zone) (sd ed : Delta) (hd : z.hasdst = true)
    (h1 : z.start = some sd) (h2 : z.«end» = some ed) (ht : sd.truthy = true)
    (hc1 : tdCheck z.stdOff = .ok ()) (hc2 : tdCheck z.dstOff = .ok ()) :
    tzrange z.stdAbbr (some z.stdOff) z.dstAbbr (some z.dstOff) z.start z.«end» = .ok z ∧
    zoneEq z z = true ∧
    ∀ z', tzrange z.stdAbbr (some z.stdOff) z.dstAbbr (some z.dstOff) z.start z.«end» = .ok z' →
      zoneEq z' z = true ∧ TZ.ofTzStr z' = TZ.ofTzStr z := by
  have hb : tzrange z.stdAbbr (some z.stdOff) z.dstAbbr (some z.dstOff) z.start z.«end» = .ok z := by
    unfold tzrange
    simp only [hc1, hc2, h1, h2, bind, Except.bind, pure, Except.pure, Option.isNone_some,
      Bool.and_false, Bool.false_eq_true, if_false, ht]
    cases z; simp_all
  have hrefl : zoneEq z z = true := by
    unfold zoneEq optDeltaEq deltaEq
    rw [h1, h2]; simp
  refine ⟨hb, hrefl, ?_⟩
  intro z' hz'
  rw [hb] at hz'
  cases Except.ok.inj hz'
  exact ⟨hrefl, rfl⟩

/-- **tzstr_render (partial): from the STRING to the zone.**  `render sp` is the TZ string of the
    spelling `sp`: arbitrary non-empty ASCII-letter abbreviations, optional sign, the standard and
    the optional daylight offset each in any of the spellings `h`/`hh`, `hhmm`, `hh:mm`, both rules in
    any of the forms `Mm.w.d` / `Jn` / `n` with ARBITRARY digit tokens (values through `pyInt`),
    optional `/time` as `h`, `hhmm`, `hh:mm` or `hh:mm:ss`.  Then `tzstr (render sp) posix` succeeds
    and its zone is the zone of the POSIX spec `specOf sp posix` (GMT/UTC sign flip included) with the
    given abbreviations.  Proved through: the tokenizer on class-homogeneous chunks
    (`tokens_render`), compositional specifications of `parseOffset`, `ruleTime`, `stdRule`, the
    abbreviation loop and the gate conditions over an abstract token array (`parse_render`).
    Partial in that the `_delta` constructions are hypotheses (`hsd`, `htr`, `hed`; discharged for
    `Mm.w.d` rules by `TzStr.delta_M`, for `Jn`/`n` they require the day number to pass the `ydayidx`
    scan) and the offsets must be representable timedeltas (`hb1`, `hb2`). -/
theorem tzstr_render_partial (sp : Spelling) (posix : Bool) (wf : WellFormed sp)
    (hb1 : tdCheck (sp.stdVal posix) = .ok ()) (hb2 : tdCheck (sp.dstVal posix) = .ok ())
    (sd ed : Delta)
    (hsd : delta (sp.startRule.attr (sp.startTime.map TimeSp.val)) false (sp.stdVal posix) (sp.dstVal posix) = .ok sd)
    (htr : sd.truthy = true)
    (hed : delta (sp.endRule.attr (sp.endTime.map TimeSp.val)) true (sp.stdVal posix) (sp.dstVal posix) = .ok ed) :
    ∃ z, tzstr (render sp) posix = .ok z ∧ IsZoneOf (specOf sp posix) z ∧
      z.stdAbbr = some sp.std ∧ z.dstAbbr = some sp.dst := by
  obtain ⟨z, h1, h2, h3, h4, h5, h6, h7, h8, h9, h10⟩ := TzStr.tzstr_render_partial sp posix wf hb1 hb2 sd ed hsd htr hed
  exact ⟨z, h1, ⟨h2, h3, h4, sd, ed, h5, h6, h7, h8⟩, h9, h10⟩

/-- **tzstr_string_posix_partial: string → transitions → lookup = POSIX.**  The composition of
    `tzstr_render_partial` with `tzstr_posix_partial`: the statement starts from the string. -/
theorem tzstr_string_posix_partial (sp : Spelling) (posix : Bool) (wf : WellFormed sp)
    (hb1 : tdCheck (sp.stdVal posix) = .ok ()) (hb2 : tdCheck (sp.dstVal posix) = .ok ())
    (sd ed : Delta)
    (hsd : delta (sp.startRule.attr (sp.startTime.map TimeSp.val)) false (sp.stdVal posix) (sp.dstVal posix) = .ok sd)
    (htr : sd.truthy = true)
    (hed : delta (sp.endRule.attr (sp.endTime.map TimeSp.val)) true (sp.stdVal posix) (sp.dstVal posix) = .ok ed)
    (hs : ValidRule (specOf sp posix).startRule) (he : ValidRule (specOf sp posix).endRule)
    (ht : InRangeTimes (specOf sp posix)) (hsav : (specOf sp posix).stdOff < (specOf sp posix).dstOff)
    (t Y m : Int) (hY : TZ.yearOf t = Y) (hY1 : 3 ≤ Y) (hY2 : Y ≤ 9997)
    (m1 : -m ≤ (specOf sp posix).stdOff) (m2 : (specOf sp posix).stdOff ≤ m)
    (m3 : -m ≤ (specOf sp posix).dstOff) (m4 : (specOf sp posix).dstOff ≤ m)
    (m5 : (specOf sp posix).dstOff - (specOf sp posix).stdOff ≤ m)
    (i0 : TZ.InsideM (specOf sp posix) (Y - 1) m) (i1 : TZ.InsideM (specOf sp posix) Y m)
    (i2 : TZ.InsideM (specOf sp posix) (Y + 1) m)
    (o0 : startUtc (specOf sp posix) (Y - 1) < endUtc (specOf sp posix) (Y - 1) ↔
          startUtc (specOf sp posix) Y < endUtc (specOf sp posix) Y)
    (o2 : startUtc (specOf sp posix) (Y + 1) < endUtc (specOf sp posix) (Y + 1) ↔
          startUtc (specOf sp posix) Y < endUtc (specOf sp posix) Y) :
    ∃ z w, tzstr (render sp) posix = .ok z ∧ (TZ.ofTzStr z).fromutc t = .ok w ∧
      (TZ.ofTzStr z).utcoffset w = .ok (Posix.offsetAt (specOf sp posix) (t + TZ.epochShift)) ∧
      (TZ.ofTzStr z).dst w = .ok (if Posix.isDstAt (specOf sp posix) (t + TZ.epochShift)
        then (specOf sp posix).dstOff - (specOf sp posix).stdOff else 0) ∧
      (TZ.ofTzStr z).tzname w = .ok (if Posix.isDstAt (specOf sp posix) (t + TZ.epochShift)
        then TZ.abbrBytes (some sp.dst) else TZ.abbrBytes (some sp.std)) := by
  obtain ⟨z, hz1, hz2, hz3, hz4⟩ := tzstr_render_partial sp posix wf hb1 hb2 sd ed hsd htr hed
  obtain ⟨w, w1, w2, w3, w4⟩ := tzstr_posix_partial (specOf sp posix) z hz2 hs he ht hsav t Y m hY hY1 hY2
    m1 m2 m3 m4 m5 i0 i1 i2 o0 o2
  rw [hz3, hz4] at w4
  exact ⟨z, w, hz1, w1, w2, w3, w4⟩

/-- **tzstr_render: from the STRING to the zone, no residual hypotheses.**  For every well-formed
    spelling (`WellFormed`: letter abbreviations; offsets as `h`/`hh`, `hhmm` or `hh:mm` with optional
    sign; rules `Mm.w.d` with arbitrary digit tokens, `Jn` with 1 ≤ n ≤ 366, `n` with n ≤ 365; optional
    `/time` in its four spellings), `tzstr (render sp) posix` succeeds and its zone is the zone of the
    POSIX spec `specOf sp posix` with the given abbreviations.  (`tdCheck` follows from the values of
    ≤ 2-digit tokens, the `_delta` constructions from the whole `ydayidx` table 1..366.) -/
theorem tzstr_render (sp : Spelling) (posix : Bool) (wf : WellFormed sp) :
    ∃ z, tzstr (render sp) posix = .ok z ∧ IsZoneOf (specOf sp posix) z ∧
      z.stdAbbr = some sp.std ∧ z.dstAbbr = some sp.dst := by
  obtain ⟨z, sd, ed, h1, h2, h3, h4, h5, h6, h7, h8, h9, h10⟩ := TzStr.tzstr_render_full sp posix wf
  exact ⟨z, h1, ⟨h2, h3, h4, sd, ed, h5, h6, h7, h8⟩, h9, h10⟩

/-- **tzstr_string_posix: string → transitions → lookup = POSIX**, with exactly the residual
    hypotheses of `tzstr_posix_partial`: rule numbers in POSIX range and `Mm.w.d` times inside the day
    (the complement is D-C08), positive saving, and the New-Year margin (the complement is D-C04y). -/
theorem tzstr_string_posix (sp : Spelling) (posix : Bool) (wf : WellFormed sp)
    (hs : ValidRule (specOf sp posix).startRule) (he : ValidRule (specOf sp posix).endRule)
    (ht : InRangeTimes (specOf sp posix)) (hsav : (specOf sp posix).stdOff < (specOf sp posix).dstOff)
    (t Y m : Int) (hY : TZ.yearOf t = Y) (hY1 : 3 ≤ Y) (hY2 : Y ≤ 9997)
    (m1 : -m ≤ (specOf sp posix).stdOff) (m2 : (specOf sp posix).stdOff ≤ m)
    (m3 : -m ≤ (specOf sp posix).dstOff) (m4 : (specOf sp posix).dstOff ≤ m)
    (m5 : (specOf sp posix).dstOff - (specOf sp posix).stdOff ≤ m)
    (i0 : TZ.InsideM (specOf sp posix) (Y - 1) m) (i1 : TZ.InsideM (specOf sp posix) Y m)
    (i2 : TZ.InsideM (specOf sp posix) (Y + 1) m)
    (o0 : startUtc (specOf sp posix) (Y - 1) < endUtc (specOf sp posix) (Y - 1) ↔
          startUtc (specOf sp posix) Y < endUtc (specOf sp posix) Y)
    (o2 : startUtc (specOf sp posix) (Y + 1) < endUtc (specOf sp posix) (Y + 1) ↔
          startUtc (specOf sp posix) Y < endUtc (specOf sp posix) Y) :
    ∃ z w, tzstr (render sp) posix = .ok z ∧ (TZ.ofTzStr z).fromutc t = .ok w ∧
      (TZ.ofTzStr z).utcoffset w = .ok (Posix.offsetAt (specOf sp posix) (t + TZ.epochShift)) ∧
      (TZ.ofTzStr z).dst w = .ok (if Posix.isDstAt (specOf sp posix) (t + TZ.epochShift)
        then (specOf sp posix).dstOff - (specOf sp posix).stdOff else 0) ∧
      (TZ.ofTzStr z).tzname w = .ok (if Posix.isDstAt (specOf sp posix) (t + TZ.epochShift)
        then TZ.abbrBytes (some sp.dst) else TZ.abbrBytes (some sp.std)) := by
  obtain ⟨z, hz1, hz2, hz3, hz4⟩ := tzstr_render sp posix wf
  obtain ⟨w, w1, w2, w3, w4⟩ := tzstr_posix_partial (specOf sp posix) z hz2 hs he ht hsav t Y m hY hY1 hY2
    m1 m2 m3 m4 m5 i0 i1 i2 o0 o2
  rw [hz3, hz4] at w4
  exact ⟨z, w, hz1, w1, w2, w3, w4⟩

/-- **C08 (no daylight part).** A string without a daylight abbreviation is a fixed-offset zone:
    no DST, no transitions in any year — for every string and either `posix_offset` setting. -/
theorem no_dst_part_is_fixed (s : String) (posix : Bool) (z : Zone) (h : tzstr s posix = .ok z)
    (hd : z.dstAbbr = none) : z.hasdst = false ∧ ∀ y, transitions z y = .ok none := by
  unfold tzstr at h
  simp only [bind, Except.bind, pure, Except.pure] at h
  repeat' split at h
  all_goals (try (cases h; done))
  all_goals (injection h with h; subst h)
  all_goals simp_all [transitions]


/-- **C08 (tokenizer).** `re.split` with the TZ pattern loses nothing and yields no empty token:
    for every string the tokens concatenate back to the input. -/
theorem tokens_partition (s : String) :
    ((tokens s).map String.toList).flatten = s.toList ∧ ∀ t ∈ tokens s, t ≠ "" :=
  ⟨tokens_flatten s, tokens_nonempty s⟩

/-- one row of the `GMT+h` / `UTC+h` table -/
def gmtRow (utc plus posix : Bool) (h : Nat) : Bool :=
  match tzstr ((if utc then "UTC" else "GMT") ++ (if plus then "+" else "-") ++ toString h) posix with
  | .ok z => !z.hasdst && z.stdOff == (if plus == posix then -1 else 1) * (h : Int) * 3600 && z.dstAbbr.isNone
  | .error _ => false

/-- **C08 (GMT+h).** `GMT+h` / `UTC+h` (h = 0..24, either sign) are fixed zones h hours AHEAD of UTC,
    and h hours BEHIND when POSIX interpretation is requested — the whole table, by kernel evaluation. -/
theorem gmt_plus_h : ∀ utc plus posix : Bool, ∀ h : Fin 25, gmtRow utc plus posix h.val = true := by
  decide +kernel


/-! ### the string level: canonical spellings parse to the attributes `attrOf` names
    (whole finite tables, by kernel evaluation of the model on the actual strings; the tables are
    in `Proofs/TzStrTable*.lean`, one per file so that they build in parallel) -/

/-- every `Mm.w.d` start rule (12 × 5 × 7 spellings) -/
theorem parse_M_rule : ∀ m : Fin 12, ∀ w : Fin 5, ∀ d : Fin 7,
    parsesTo ("AAA5BBB,M" ++ toString (m.val + 1) ++ "." ++ toString (w.val + 1) ++ "." ++ toString d.val ++ ",M10.5.0")
      (attrOf (.M (m.val + 1) (w.val + 1) d.val) none) = true := tableM

/-- every `Jn` start rule, n = 1..365 -/
theorem parse_J_rule : ∀ n : Fin 365,
    parsesTo ("AAA5BBB,J" ++ toString (n.val + 1) ++ ",M10.5.0") (attrOf (.J (n.val + 1)) none) = true := tableJ

/-- every zero-based `n` start rule, n = 0..365 -/
theorem parse_N_rule : ∀ n : Fin 366,
    parsesTo ("AAA5BBB," ++ toString n.val ++ ",M10.5.0") (attrOf (.N n.val) none) = true := tableN

/-- every whole-hour `/h` and `/hh` time of day, h = 0..24 -/
theorem parse_rule_hour : ∀ h : Fin 25,
    parsesTo ("AAA5BBB,M3.2.0/" ++ toString h.val ++ ",M10.5.0") (attrOf (.M 3 2 0) (some (h.val * 3600))) = true ∧
    parsesTo ("AAA5BBB,M3.2.0/" ++ (if h.val < 10 then "0" else "") ++ toString h.val ++ ",M10.5.0")
      (attrOf (.M 3 2 0) (some (h.val * 3600))) = true := tableH

/-- the weekday search never moves by more than six days per step -/
theorem weekdayJump_first_bounds (cur wd : Int) (hc : 0 ≤ cur ∧ cur < 7) (hw : 0 ≤ wd ∧ wd < 7) :
    0 ≤ weekdayJump cur wd 1 ∧ weekdayJump cur wd 1 ≤ 6 ∧
    Cal.weekdayOfOrd (0 + cur + weekdayJump cur wd 1 + 1) = Cal.weekdayOfOrd (0 + wd + 1) := by
  rw [weekdayJump_pos cur wd 1 (by omega) hc hw]
  unfold Cal.weekdayOfOrd
  omega

/-! ### D-C08: the excluded class really fails (model and POSIX disagree), so the hypothesis of
    `transitions_eq_posix_partial` cannot be dropped -/

/-- `AAA10BBB,M5.4.1/24,M10.5.2` in 2019: POSIX starts DST on Monday 2019-05-27 + 24 h; the code
    adds the 24 h first and then searches the 4th Monday from May 2nd. -/
example :
    (do let D ← delta (attrOf (.M 5 4 1) (some 86400)) false (-36000) (-32400); applyDelta 2019 D)
      ≠ .ok (ruleOrdinal 2019 (.M 5 4 1) * 86400 + 86400) := by decide

-- non-vacuity: a concrete spec satisfying every hypothesis
example : ValidRule (.M 3 2 0) ∧ ValidRule (.M 11 1 0) ∧
    InRangeTimes { stdOff := -18000, dstOff := -14400, startRule := .M 3 2 0, endRule := .M 11 1 0 } := by
  simp [ValidRule, InRangeTimes, InRangeTime]

/-- US rules 2024: DST from 2024-03-10 02:00 EST (07:00Z) to 2024-11-03 02:00 EDT (06:00Z) -/
example : startUtc { stdOff := -18000, dstOff := -14400, startRule := .M 3 2 0, endRule := .M 11 1 0 } 2024
    = Cal.toOrdinal 2024 3 10 * 86400 + 7 * 3600 := by decide
example : endUtc { stdOff := -18000, dstOff := -14400, startRule := .M 3 2 0, endRule := .M 11 1 0 } 2024
    = Cal.toOrdinal 2024 11 3 * 86400 + 6 * 3600 := by decide

/-! non-vacuity of `tzstr_posix_partial`: US rules (EST5EDT,M3.2.0,M11.1.0), 2024-07-01T12:00Z -/
def usSpec : Spec := { stdOff := -18000, dstOff := -14400, startRule := .M 3 2 0, endRule := .M 11 1 0 }
def usZone : Zone :=
  match delta (resOf usSpec).start false usSpec.stdOff usSpec.dstOff,
        delta (resOf usSpec).«end» true usSpec.stdOff usSpec.dstOff with
  | .ok a, .ok b => { stdAbbr := some "EST", dstAbbr := some "EDT", stdOff := -18000, dstOff := -14400,
                      start := some a, «end» := some b, hasdst := true }
  | _, _ => default
example : IsZoneOf usSpec usZone := ⟨rfl, rfl, rfl, _, _, rfl, rfl, rfl, rfl⟩
example : TZ.InsideM usSpec 2023 18000 ∧ TZ.InsideM usSpec 2024 18000 ∧ TZ.InsideM usSpec 2025 18000 := by
  unfold TZ.InsideM TZ.ys; decide
/-- an instant next to New Year (2024-12-31T22:00Z: UTC year 2024, both wall readings still 2024) and
    one whose UTC year and wall year differ (2025-01-01T02:00Z reads 2024-12-31 21:00 EST) -/
example : TZ.yearOf 1735696800 = 2025 ∧ TZ.yearOf (1735696800 + usSpec.stdOff) = 2024 := by decide
example : TZ.yearOf 1719835200 = 2024 ∧ TZ.yearOf (1719835200 + usSpec.stdOff) = 2024 ∧
    TZ.yearOf (1719835200 + usSpec.dstOff) = 2024 := by decide
example : Posix.isDstAt usSpec (1719835200 + TZ.epochShift) = true := by decide
example : (TZ.ofTzStr usZone).fromutc 1719835200 = .ok ⟨1719835200 - 14400, false⟩ := by decide

example : ∃ sd ed, usZone.start = some sd ∧ usZone.«end» = some ed ∧ sd.truthy = true ∧
    tdCheck usZone.stdOff = .ok () ∧ tdCheck usZone.dstOff = .ok () := ⟨_, _, rfl, rfl, by decide, by decide, by decide⟩

/-! non-vacuity of `tzstr_render_partial`: three spellings -/
def n (t : String) (v : Int) : Num := ⟨t, v⟩
def spUS : Spelling :=
  { std := "EST", stdOff := ⟨none, .h (n "5" 5)⟩, dst := "EDT", dstOff := none,
    startRule := .M (n "3" 3) (n "2" 2) (n "0" 0), startTime := none,
    endRule := .M (n "11" 11) (n "1" 1) (n "0" 0), endTime := none }
def spCET : Spelling :=
  { std := "CET", stdOff := ⟨some false, .h (n "1" 1)⟩, dst := "CEST", dstOff := none,
    startRule := .M (n "3" 3) (n "5" 5) (n "0" 0), startTime := none,
    endRule := .M (n "10" 10) (n "5" 5) (n "0" 0), endTime := some (.h (n "3" 3)) }
def spNST : Spelling :=
  { std := "NST", stdOff := ⟨none, .colon (n "3" 3) (n "30" 30)⟩, dst := "NDT", dstOff := none,
    startRule := .M (n "3" 3) (n "2" 2) (n "0" 0), startTime := some (.hm (n "0" 0) (n "01" 1)),
    endRule := .M (n "11" 11) (n "1" 1) (n "0" 0), endTime := some (.hm (n "0" 0) (n "01" 1)) }
example : render spUS = "EST5EDT,M3.2.0,M11.1.0" ∧ render spCET = "CET-1CEST,M3.5.0,M10.5.0/3" ∧
    render spNST = "NST3:30NDT,M3.2.0/0:01,M11.1.0/0:01" := by decide
example : (specOf spUS false).stdOff = -18000 ∧ (specOf spUS false).dstOff = -14400 ∧
    (specOf spCET false).stdOff = 3600 ∧ (specOf spNST false).stdOff = -12600 ∧
    (specOf spNST false).startTime = 60 := by decide
example : parse (render spNST) = .ok (some spNST.res) := by decide

/-- the three named spellings are well-formed, so `tzstr_render` applies to them -/
theorem nOk (t : String) (v : Int) (h : pyInt t = some v) : (n t v).Ok := h
theorem wf_spUS : WellFormed spUS :=
  ⟨⟨by decide, by decide⟩, ⟨by decide, by decide⟩, ⟨nOk _ _ (by decide), by decide⟩, trivial,
   ⟨nOk _ _ (by decide), nOk _ _ (by decide), nOk _ _ (by decide)⟩, trivial,
   ⟨nOk _ _ (by decide), nOk _ _ (by decide), nOk _ _ (by decide)⟩, trivial⟩
theorem wf_spCET : WellFormed spCET :=
  ⟨⟨by decide, by decide⟩, ⟨by decide, by decide⟩, ⟨nOk _ _ (by decide), by decide⟩, trivial,
   ⟨nOk _ _ (by decide), nOk _ _ (by decide), nOk _ _ (by decide)⟩, trivial,
   ⟨nOk _ _ (by decide), nOk _ _ (by decide), nOk _ _ (by decide)⟩, ⟨nOk _ _ (by decide), by decide⟩⟩
theorem wf_spNST : WellFormed spNST :=
  ⟨⟨by decide, by decide⟩, ⟨by decide, by decide⟩,
   ⟨nOk _ _ (by decide), nOk _ _ (by decide), by decide, by decide, by decide⟩, trivial,
   ⟨nOk _ _ (by decide), nOk _ _ (by decide), nOk _ _ (by decide)⟩,
   ⟨nOk _ _ (by decide), nOk _ _ (by decide), by decide⟩,
   ⟨nOk _ _ (by decide), nOk _ _ (by decide), nOk _ _ (by decide)⟩,
   ⟨nOk _ _ (by decide), nOk _ _ (by decide), by decide⟩⟩
example : ∃ z, tzstr "EST5EDT,M3.2.0,M11.1.0" false = .ok z ∧ IsZoneOf (specOf spUS false) z ∧
    z.stdAbbr = some "EST" ∧ z.dstAbbr = some "EDT" := tzstr_render spUS false wf_spUS
example : ∃ z, tzstr "CET-1CEST,M3.5.0,M10.5.0/3" false = .ok z ∧ IsZoneOf (specOf spCET false) z ∧
    z.stdAbbr = some "CET" ∧ z.dstAbbr = some "CEST" := tzstr_render spCET false wf_spCET
example : ∃ z, tzstr "NST3:30NDT,M3.2.0/0:01,M11.1.0/0:01" true = .ok z ∧ IsZoneOf (specOf spNST true) z ∧
    z.stdAbbr = some "NST" ∧ z.dstAbbr = some "NDT" := tzstr_render spNST true wf_spNST

end C08
