/- Properties/C08.lean — placeholder; theorems follow. -/
import DateutilVerif.Model.TzStr
import DateutilVerif.Spec.Posix

namespace C08

theorem placeholder : True := trivial

end C08
