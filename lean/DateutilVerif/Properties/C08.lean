/-
  Properties/C08.lean — tzstr / tzrange implement POSIX TZ rule semantics.

  The model (`Model/TzStr.lean`) mirrors `_tzparser.parse`, `tzstr.__init__/_delta`,
  `tzrange.__init__/transitions`; the spec (`Spec/Posix.lean`) is written from POSIX.

  Full-strength statement of the transition part of C08:
      for every rule triple, every year: transitions y = (POSIX start, POSIX end) on the
      standard-time side.
  What is proved (`…_partial`): exactly that, for ALL years 2..9998, ALL valid rules of the three
  forms and ALL offsets, under `InRangeTime`: for an `Mm.w.d` rule the time of day added before the
  weekday search (start: the rule time; end: rule time − saving) lies in [0, 24 h).
  The complement is the known finding D-C08 (the negation is exhibited below by `decide`).
  Years 1 and 9999 are excluded only because the weekday search may leave datetime's range there.
-/
import DateutilVerif.Proofs.TzStr
import DateutilVerif.Proofs.TzStrTableM
import DateutilVerif.Proofs.TzStrTableJ
import DateutilVerif.Proofs.TzStrTableN
import DateutilVerif.Proofs.TzStrTableH

namespace C08
open TzStr Posix

/-- rule numbers in POSIX range (`n = 365` of the zero-based form is at the year boundary and
    excluded by the property's own quantifier) -/
def ValidRule : Rule → Prop
  | .M m w d => 1 ≤ m ∧ m ≤ 12 ∧ 1 ≤ w ∧ w ≤ 5 ∧ 0 ≤ d ∧ d ≤ 6
  | .J n => 1 ≤ n ∧ n ≤ 365
  | .N n => 0 ≤ n ∧ n ≤ 364

/-- seconds added to the rule date before the weekday search -/
def InRangeTime : Rule → Int → Prop
  | .M _ _ _, secs => 0 ≤ secs ∧ secs < 86400
  | _, secs => -86400 * 300 ≤ secs ∧ secs < 86400 * 300

/-- the heart: `datetime(y,1,1) + _delta(rule)` is the POSIX rule date plus the seconds -/
theorem rule_instant (y : Int) (r : Rule) (time : Int) (isend : Bool) (std dst : Int)
    (hy1 : 2 ≤ y) (hy2 : y ≤ 9998) (hr : ValidRule r)
    (ht : InRangeTime r (time - (if isend then dst - std else 0))) :
    ∃ D, delta (attrOf r (some time)) isend std dst = .ok D ∧
      applyDelta y D = .ok (ruleOrdinal y r * 86400 + (time - (if isend then dst - std else 0))) := by
  cases r with
  | M m w d =>
    obtain ⟨m1, m12, w1, w5, d0, d6⟩ := hr
    obtain ⟨t0, t1⟩ := ht
    refine ⟨_, rfl, ?_⟩
    simp only [attrOf, Option.getD]
    exact apply_M y m w d _ hy1 hy2 m1 m12 w1 w5 d0 d6 t0 t1
  | J n =>
    obtain ⟨n1, n2⟩ := hr
    obtain ⟨t0, t1⟩ := ht
    obtain ⟨m, dd, he, ha⟩ := apply_J y n (time - (if isend then dst - std else 0)) hy1 hy2 n1 n2 t0 t1
    have hn0 : (n == 0) = false := by simp; omega
    refine ⟨{ month := some m, day := some dd, seconds := time - (if isend then dst - std else 0) }, ?_, ha⟩
    simp [delta, attrOf, hn0, he, bind, Except.bind, pure, Except.pure]
  | N n =>
    obtain ⟨n1, n2⟩ := hr
    obtain ⟨t0, t1⟩ := ht
    obtain ⟨m, dd, he, ha⟩ := apply_N y n (time - (if isend then dst - std else 0)) hy1 hy2 n1 n2 t0 t1
    have hn0 : (n + 1 == 0) = false := by simp; omega
    refine ⟨{ month := some m, day := some dd, leapdays := (if n + 1 > 59 then -1 else 0),
              seconds := time - (if isend then dst - std else 0) }, ?_, ha⟩
    simp [delta, attrOf, hn0, he, bind, Except.bind, pure, Except.pure]

/-- a POSIX spec as the parser result that its canonical spelling produces -/
def resOf (s : Spec) : Res :=
  { stdabbr := some "AAA", stdoffset := some s.stdOff, dstabbr := some "BBB", dstoffset := some s.dstOff,
    start := attrOf s.startRule (some s.startTime), «end» := attrOf s.endRule (some s.endTime) }

def InRangeTimes (s : Spec) : Prop :=
  InRangeTime s.startRule s.startTime ∧ InRangeTime s.endRule (s.endTime - (s.dstOff - s.stdOff))

/-- **C08 (transitions), partial.** For every spec with valid rules and in-range times, every year
    2..9998: the zone's yearly transitions are the POSIX start and end instants, both on the
    standard-time side (`startUtc = dston − std`, `endUtc = dstoff − std`, which is how
    `tzrangebase.fromutc` converts them). Missing for full strength: M-rules with out-of-range
    times (known finding D-C08) and years 1 / 9999. -/
theorem transitions_eq_posix_partial (s : Spec) (y : Int) (hy1 : 2 ≤ y) (hy2 : y ≤ 9998)
    (hs : ValidRule s.startRule) (he : ValidRule s.endRule) (ht : InRangeTimes s) :
    ∃ sd ed, delta (resOf s).start false s.stdOff s.dstOff = .ok sd ∧
             delta (resOf s).«end» true s.stdOff s.dstOff = .ok ed ∧
      ∃ a b, applyDelta y sd = .ok a ∧ applyDelta y ed = .ok b ∧
        a - s.stdOff = startUtc s y ∧ b - s.stdOff = endUtc s y := by
  obtain ⟨sd, hsd, hsa⟩ := rule_instant y s.startRule s.startTime false s.stdOff s.dstOff hy1 hy2 hs (by simpa using ht.1)
  obtain ⟨ed, hed, hea⟩ := rule_instant y s.endRule s.endTime true s.stdOff s.dstOff hy1 hy2 he (by simpa using ht.2)
  refine ⟨sd, ed, hsd, hed, _, _, hsa, hea, ?_, ?_⟩
  · unfold startUtc; simp
  · unfold endUtc; simp; omega

/-- **C08 (no daylight part).** A string without a daylight abbreviation is a fixed-offset zone:
    no DST, no transitions in any year — for every string and either `posix_offset` setting. -/
theorem no_dst_part_is_fixed (s : String) (posix : Bool) (z : Zone) (h : tzstr s posix = .ok z)
    (hd : z.dstAbbr = none) : z.hasdst = false ∧ ∀ y, transitions z y = .ok none := by
  unfold tzstr at h
  simp only [bind, Except.bind, pure, Except.pure] at h
  repeat' split at h
  all_goals (try (cases h; done))
  all_goals (injection h with h; subst h)
  all_goals simp_all [transitions]


/-- **C08 (tokenizer).** `re.split` with the TZ pattern loses nothing and yields no empty token:
    for every string the tokens concatenate back to the input. -/
theorem tokens_partition (s : String) :
    ((tokens s).map String.toList).flatten = s.toList ∧ ∀ t ∈ tokens s, t ≠ "" :=
  ⟨tokens_flatten s, tokens_nonempty s⟩

/-- one row of the `GMT+h` / `UTC+h` table -/
def gmtRow (utc plus posix : Bool) (h : Nat) : Bool :=
  match tzstr ((if utc then "UTC" else "GMT") ++ (if plus then "+" else "-") ++ toString h) posix with
  | .ok z => !z.hasdst && z.stdOff == (if plus == posix then -1 else 1) * (h : Int) * 3600 && z.dstAbbr.isNone
  | .error _ => false

/-- **C08 (GMT+h).** `GMT+h` / `UTC+h` (h = 0..24, either sign) are fixed zones h hours AHEAD of UTC,
    and h hours BEHIND when POSIX interpretation is requested — the whole table, by kernel evaluation. -/
theorem gmt_plus_h : ∀ utc plus posix : Bool, ∀ h : Fin 25, gmtRow utc plus posix h.val = true := by
  decide +kernel


/-! ### the string level: canonical spellings parse to the attributes `attrOf` names
    (whole finite tables, by kernel evaluation of the model on the actual strings; the tables are
    in `Proofs/TzStrTable*.lean`, one per file so that they build in parallel) -/

/-- every `Mm.w.d` start rule (12 × 5 × 7 spellings) -/
theorem parse_M_rule : ∀ m : Fin 12, ∀ w : Fin 5, ∀ d : Fin 7,
    parsesTo ("AAA5BBB,M" ++ toString (m.val + 1) ++ "." ++ toString (w.val + 1) ++ "." ++ toString d.val ++ ",M10.5.0")
      (attrOf (.M (m.val + 1) (w.val + 1) d.val) none) = true := tableM

/-- every `Jn` start rule, n = 1..365 -/
theorem parse_J_rule : ∀ n : Fin 365,
    parsesTo ("AAA5BBB,J" ++ toString (n.val + 1) ++ ",M10.5.0") (attrOf (.J (n.val + 1)) none) = true := tableJ

/-- every zero-based `n` start rule, n = 0..365 -/
theorem parse_N_rule : ∀ n : Fin 366,
    parsesTo ("AAA5BBB," ++ toString n.val ++ ",M10.5.0") (attrOf (.N n.val) none) = true := tableN

/-- every whole-hour `/h` and `/hh` time of day, h = 0..24 -/
theorem parse_rule_hour : ∀ h : Fin 25,
    parsesTo ("AAA5BBB,M3.2.0/" ++ toString h.val ++ ",M10.5.0") (attrOf (.M 3 2 0) (some (h.val * 3600))) = true ∧
    parsesTo ("AAA5BBB,M3.2.0/" ++ (if h.val < 10 then "0" else "") ++ toString h.val ++ ",M10.5.0")
      (attrOf (.M 3 2 0) (some (h.val * 3600))) = true := tableH

/-- the weekday search never moves by more than six days per step -/
theorem weekdayJump_first_bounds (cur wd : Int) (hc : 0 ≤ cur ∧ cur < 7) (hw : 0 ≤ wd ∧ wd < 7) :
    0 ≤ weekdayJump cur wd 1 ∧ weekdayJump cur wd 1 ≤ 6 ∧
    Cal.weekdayOfOrd (0 + cur + weekdayJump cur wd 1 + 1) = Cal.weekdayOfOrd (0 + wd + 1) := by
  rw [weekdayJump_pos cur wd 1 (by omega) hc hw]
  unfold Cal.weekdayOfOrd
  omega

/-! ### D-C08: the excluded class really fails (model and POSIX disagree), so the hypothesis of
    `transitions_eq_posix_partial` cannot be dropped -/

/-- `AAA10BBB,M5.4.1/24,M10.5.2` in 2019: POSIX starts DST on Monday 2019-05-27 + 24 h; the code
    adds the 24 h first and then searches the 4th Monday from May 2nd. -/
example :
    (do let D ← delta (attrOf (.M 5 4 1) (some 86400)) false (-36000) (-32400); applyDelta 2019 D)
      ≠ .ok (ruleOrdinal 2019 (.M 5 4 1) * 86400 + 86400) := by decide

-- non-vacuity: a concrete spec satisfying every hypothesis
example : ValidRule (.M 3 2 0) ∧ ValidRule (.M 11 1 0) ∧
    InRangeTimes { stdOff := -18000, dstOff := -14400, startRule := .M 3 2 0, endRule := .M 11 1 0 } := by
  simp [ValidRule, InRangeTimes, InRangeTime]

/-- US rules 2024: DST from 2024-03-10 02:00 EST (07:00Z) to 2024-11-03 02:00 EDT (06:00Z) -/
example : startUtc { stdOff := -18000, dstOff := -14400, startRule := .M 3 2 0, endRule := .M 11 1 0 } 2024
    = Cal.toOrdinal 2024 3 10 * 86400 + 7 * 3600 := by decide
example : endUtc { stdOff := -18000, dstOff := -14400, startRule := .M 3 2 0, endRule := .M 11 1 0 } 2024
    = Cal.toOrdinal 2024 11 3 * 86400 + 6 * 3600 := by decide

end C08
