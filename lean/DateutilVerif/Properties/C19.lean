/-
  Properties/C19.lean — easter() returns the canonical Easter Sunday for each method.

  `Gen.easter` is the translation of /repo's `easter.easter` made on this run
  (harness/gen.py); the statements are about that translation.
  Ranged statements are `decide +kernel` over the *complete* documented range,
  lifted to the integer interval by `allRange_lift`; no sampling is involved.
-/
import DateutilVerif.Proofs.EasterDefs
import DateutilVerif.Proofs.EasterTableW
import DateutilVerif.Proofs.EasterTableO
import DateutilVerif.Proofs.EasterTableJ1
import DateutilVerif.Proofs.EasterTableJ2
import DateutilVerif.Proofs.EasterTableJ3
import DateutilVerif.Proofs.EasterTableJ4
import DateutilVerif.Proofs.EasterTableJ5
import DateutilVerif.Proofs.Range

namespace C19
open Gen Spec

/-- **C19 (western).** For every year of the documented range 1583..4099: `easter y 3` is a valid
    Gregorian date equal to the Meeus/Jones/Butcher computation, a Sunday, in 22 March..25 April. -/
theorem western_eq_mjb (y : Int) (h1 : 1583 ≤ y) (h2 : y ≤ 4099) : westernOK y = true :=
  allRange_lift 1583 2517 westernOK tableW y h1 (by omega)

/-- **C19 (julian).** For every year of the documented range 326..9999: `easter y 1` equals Meeus'
    Julian Easter and is a Sunday of the Julian calendar. -/
theorem julian_eq_meeus (y : Int) (h1 : 326 ≤ y) (h2 : y ≤ 9999) : julianOK y = true := by
  by_cases c1 : y < 2326
  · exact allRange_lift 326 2000 julianOK tableJ1 y h1 (by omega)
  by_cases c2 : y < 4326
  · exact allRange_lift 2326 2000 julianOK tableJ2 y (by omega) (by omega)
  by_cases c3 : y < 6326
  · exact allRange_lift 4326 2000 julianOK tableJ3 y (by omega) (by omega)
  by_cases c4 : y < 8326
  · exact allRange_lift 6326 2000 julianOK tableJ4 y (by omega) (by omega)
  · exact allRange_lift 8326 1674 julianOK tableJ5 y (by omega) (by omega)

/-- **C19 (orthodox).** For every year of the documented range 1583..4099: `easter y 2` is a valid
    Gregorian date, the same day as Meeus' Julian Easter, and a Sunday. -/
theorem orthodox_eq (y : Int) (h1 : 1583 ≤ y) (h2 : y ≤ 4099) : orthodoxOK y = true :=
  allRange_lift 1583 2517 orthodoxOK tableO y h1 (by omega)

/-- **C19 (bad method).** Any integer method other than 1, 2, 3 raises ValueError — all years, all
    integer methods.  (Non-integer method values — 2.5, None, '3' — are outside the integer model; since the
    fix of the membership test they also raise ValueError, which the oracle checks on the implementation.) -/
theorem bad_method (y m : Int) (h : ¬ (m = 1 ∨ m = 2 ∨ m = 3)) : easter y m = .error .ValueError := by
  unfold easter
  rw [if_pos h]

/-- and methods 1..3 never raise — all years -/
theorem good_method_ok (y m : Int) (h : m = 1 ∨ m = 2 ∨ m = 3) : ∃ r, easter y m = .ok r := by
  unfold easter
  rw [if_neg (fun hn => hn h)]
  exact ⟨_, rfl⟩

-- non-vacuity / sanity: concrete values
example : easter 2024 3 = .ok (2024, 3, 31) := by decide
example : easter 2024 2 = .ok (2024, 5, 5) := by decide
example : easter 2024 1 = .ok (2024, 4, 22) := by decide
example : julianToGregorian 1582 10 5 = (1582, 10, 15) := by decide

end C19
