/-
  Properties/ParserGen.lean — obligations that tie C02 / C14 / C15 to the CURRENT source of parser/_parser.py: every
  function listed here is re-translated from /repo on every run (harness/translate_parser.py → Generated/ParserOps.lean,
  `Gen.P.*`, primitives Model/ParserPy.lean) and proved EQUAL to the function of the hand model Model/Parser.lean that
  the property theorems are stated about (`gen_eq_model_<function>`), for ALL arguments.  A behaviour-changing edit of one
  of these functions breaks the translation (a named construct) or the obligation named after it; the driver ops
  `pgen.*` (Ops/ParserGen.lean, harness/pgenlib.py) run the translated functions against the implementation on every run.
-/
import DateutilVerif.Proofs.ParserGenYmd
import DateutilVerif.Proofs.ParserGenStrids

namespace ParserGen
open PM Py

/-! ### `_ymd` -/

/-- `_ymd.append(str, label)`: the century rule (a digit string longer than two characters is a year, whatever label
    was passed — except that a label other than None/'Y' is then a ValueError), `int(val)`, the three label slots -/
theorem gen_eq_model_ymd_append_str (cls : Char → CClass) (self : Ymd) (val : Token) (label : Label) :
    Gen.P.ymd_appendTok cls self val label = self.appendTok cls val label := PGen.appendTok_eq cls self val label

/-- `_ymd.append(Decimal, label)`: a value above 100 is a year -/
theorem gen_eq_model_ymd_append_decimal (cls : Char → CClass) (self : Ymd) (val : Dec) (label : Label) :
    Gen.P.ymd_appendDec cls self val label = self.appendDec val label := PGen.appendDec_eq cls self val label

/-- `_ymd.append(int, label)` -/
theorem gen_eq_model_ymd_append_int (cls : Char → CClass) (self : Ymd) (val : Nat) (label : Label) :
    Gen.P.ymd_appendNat cls self val label = self.appendNat val label := PGen.appendNat_eq cls self val label

/-- `_ymd.could_be_day(value)` with the three properties `has_day / has_month / has_year` inlined -/
theorem gen_eq_model_ymd_could_be_day (self : Ymd) (value : Dec) :
    Gen.P.ymd_couldBeDay self value = self.couldBeDay value := PGen.couldBeDay_eq self value

/-- `_ymd._resolve_from_stridxs(strids)` on the dict `resolve_ymd` builds from the three label slots -/
theorem gen_eq_model_ymd_resolve_from_stridxs (self : Ymd) :
    Gen.P.ymd_resolveFromStridxs self self.strids = self.resolveFromStridxs := PGen.resolveFromStridxs_eq self

/-- `_ymd.resolve_ymd(yearfirst, dayfirst)`: every branch (1, 2, 3 members × position of the month string × flags) -/
theorem gen_eq_model_ymd_resolve_ymd (self : Ymd) (yearfirst dayfirst : Bool) :
    Gen.P.ymd_resolveYmd self yearfirst dayfirst = self.resolve yearfirst dayfirst :=
  PGen.resolveYmd_eq_of self yearfirst dayfirst (PGen.resolveFromStridxs_eq self)

-- non-vacuity: the translated functions compute on concrete inputs
example : Gen.P.ymd_appendTok asciiCls {} (tk "2003") .none = .ok { vals := [2003], century := true, yIdx := some 0 } := by
  decide
example : Gen.P.ymd_appendNat asciiCls { vals := [25] } 9 .M = .ok { vals := [25, 9], mIdx := some 1 } := by decide
example : Gen.P.ymd_couldBeDay { vals := [2], mIdx := some 0 } ⟨30, 0⟩ = .ok false := by decide
example : Gen.P.ymd_resolveYmd { vals := [10, 11, 12] } false true = .ok (some 12, some 11, some 10) := by decide
example : Gen.P.ymd_resolveYmd { vals := [13, 12] } false true = .ok (none, some 12, some 13) := by decide
example : Gen.P.ymd_resolveYmd { vals := [1, 2, 3, 4] } false false = .error .ValueError := by decide
example : Gen.P.ymd_resolveFromStridxs { vals := [5, 2003, 7], yIdx := some 1, mIdx := some 2 } [('y', 1), ('m', 2)]
    = .ok (some 2003, some 7, some 5) := by decide

end ParserGen
