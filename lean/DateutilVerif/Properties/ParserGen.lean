/-
  Properties/ParserGen.lean — obligations that tie C02 / C14 / C15 to the CURRENT source of parser/_parser.py: every
  function listed here is re-translated from /repo on every run (harness/translate_parser.py → Generated/ParserOps.lean,
  `Gen.P.*`, primitives Model/ParserPy.lean) and proved EQUAL to the function of the hand model Model/Parser.lean that
  the property theorems are stated about (`gen_eq_model_<function>`), for ALL arguments.  A behaviour-changing edit of one
  of these functions breaks the translation (a named construct) or the obligation named after it; the driver ops
  `pgen.*` (Ops/ParserGen.lean, harness/pgenlib.py) run the translated functions against the implementation on every run.
-/
import DateutilVerif.Proofs.ParserGenYmd
import DateutilVerif.Proofs.ParserGenStrids
import DateutilVerif.Proofs.ParserGenSmall
import DateutilVerif.Proofs.ParserGenHms
import DateutilVerif.Proofs.ParserGenNum
import DateutilVerif.Proofs.ParserGenStep
import DateutilVerif.Proofs.ParserGenNaive
import DateutilVerif.Proofs.ParserGenLoop
import DateutilVerif.Proofs.ParserGenParse
import DateutilVerif.Proofs.ParserGenTail
import DateutilVerif.Proofs.ParserGenInit
import DateutilVerif.Proofs.ParserGenTzinfo

namespace ParserGen
open PM Py

/-! ### `_ymd` -/

/-- `_ymd.append(str, label)`: the century rule (a digit string longer than two characters is a year, whatever label
    was passed — except that a label other than None/'Y' is then a ValueError), `int(val)`, the three label slots -/
theorem gen_eq_model_ymd_append_str (cls : Char → CClass) (self : Ymd) (val : Token) (label : Label) :
    Gen.P.ymd_appendTok cls self val label = self.appendTok cls val label := PGen.appendTok_eq cls self val label

/-- `_ymd.append(Decimal, label)`: a value above 100 is a year -/
theorem gen_eq_model_ymd_append_decimal (cls : Char → CClass) (self : Ymd) (val : Dec) (label : Label) :
    Gen.P.ymd_appendDec cls self val label = self.appendDec val label := PGen.appendDec_eq cls self val label

/-- `_ymd.append(int, label)` -/
theorem gen_eq_model_ymd_append_int (cls : Char → CClass) (self : Ymd) (val : Nat) (label : Label) :
    Gen.P.ymd_appendNat cls self val label = self.appendNat val label := PGen.appendNat_eq cls self val label

/-- `_ymd.append(str(n), label)` for the text of a non-negative int (what `_parse` appends for `Jan of 01`): the century
    rule looks at the length of the decimal text -/
theorem gen_eq_model_ymd_append_intstr (cls : Char → CClass) (self : Ymd) (n : Int) (label : Label) (hn : 0 ≤ n) :
    Gen.P.ymd_appendIntStr cls self n label = self.appendCore (PPy.intStrLen n > 2) (.ok n.toNat) label :=
  PGen.appendIntStr_eq cls self n label hn

/-- `_ymd.could_be_day(value)` with the three properties `has_day / has_month / has_year` inlined -/
theorem gen_eq_model_ymd_could_be_day (self : Ymd) (value : Dec) :
    Gen.P.ymd_couldBeDay self value = self.couldBeDay value := PGen.couldBeDay_eq self value

/-- `_ymd._resolve_from_stridxs(strids)` on the dict `resolve_ymd` builds from the three label slots -/
theorem gen_eq_model_ymd_resolve_from_stridxs (self : Ymd) :
    Gen.P.ymd_resolveFromStridxs self self.strids = self.resolveFromStridxs := PGen.resolveFromStridxs_eq self

/-- `_ymd.resolve_ymd(yearfirst, dayfirst)`: every branch (1, 2, 3 members × position of the month string × flags) -/
theorem gen_eq_model_ymd_resolve_ymd (self : Ymd) (yearfirst dayfirst : Bool) :
    Gen.P.ymd_resolveYmd self yearfirst dayfirst = self.resolve yearfirst dayfirst :=
  PGen.resolveYmd_eq_of self yearfirst dayfirst (PGen.resolveFromStridxs_eq self)

-- non-vacuity: the translated functions compute on concrete inputs
example : Gen.P.ymd_appendTok asciiCls {} (tk "2003") .none = .ok { vals := [2003], century := true, yIdx := some 0 } := by
  decide
example : Gen.P.ymd_appendNat asciiCls { vals := [25] } 9 .M = .ok { vals := [25, 9], mIdx := some 1 } := by decide
example : Gen.P.ymd_couldBeDay { vals := [2], mIdx := some 0 } ⟨30, 0⟩ = .ok false := by decide
example : Gen.P.ymd_resolveYmd { vals := [10, 11, 12] } false true = .ok (some 12, some 11, some 10) := by decide
example : Gen.P.ymd_resolveYmd { vals := [13, 12] } false true = .ok (none, some 12, some 13) := by decide
example : Gen.P.ymd_resolveYmd { vals := [1, 2, 3, 4] } false false = .error .ValueError := by decide
example : Gen.P.ymd_resolveFromStridxs { vals := [5, 2003, 7], yIdx := some 1, mIdx := some 2 } [('y', 1), ('m', 2)]
    = .ok (some 2003, some 7, some 5) := by decide

/-! ### `parserinfo` -/

theorem gen_eq_model_info_jump (i : Info) (t : Token) : Gen.P.info_jump i t = .ok (i.isJump t) := PGen.info_jump_eq i t
theorem gen_eq_model_info_weekday (i : Info) (t : Token) : Gen.P.info_weekday i t = .ok (i.weekdayOf t) :=
  PGen.info_weekday_eq i t
theorem gen_eq_model_info_month (i : Info) (t : Token) : Gen.P.info_month i t = .ok (i.monthOf t) := PGen.info_month_eq i t
theorem gen_eq_model_info_hms (i : Info) (t : Token) : Gen.P.info_hms i t = .ok (i.hmsOf t) := PGen.info_hms_eq i t
theorem gen_eq_model_info_ampm (i : Info) (t : Token) : Gen.P.info_ampm i t = .ok (i.ampmOf t) := PGen.info_ampm_eq i t
theorem gen_eq_model_info_pertain (i : Info) (t : Token) : Gen.P.info_pertain i t = .ok (i.isPertain t) :=
  PGen.info_pertain_eq i t
theorem gen_eq_model_info_utczone (i : Info) (t : Token) : Gen.P.info_utczone i t = .ok (i.isUtczone t) :=
  PGen.info_utczone_eq i t
/-- `parserinfo.tzoffset(name)`: `name in self._utczone` is tested WITHOUT lower-casing, then `TZOFFSET.get(name)` -/
theorem gen_eq_model_info_tzoffset (i : Info) (t : Token) : Gen.P.info_tzoffset i t = .ok (i.tzoffsetOf t) :=
  PGen.info_tzoffset_eq i t

/- Full statement: `∀ i res, Gen.P.info_validate i res = PM.validate i res`.  It is FALSE for a parserinfo whose `_century`
   is below 100: there `convertyear` can return a negative year (`_year = 30`, year 90 ↦ −10), which Python stores and the
   model clamps to 0 (`Int.toNat`); the translation says NotImplemented for it.  Proved for every parserinfo with
   `_century ≥ 100`, i.e. every `_year = time.localtime().tm_year ≥ 100`. -/
/-- `parserinfo.validate(res)`: the year conversion and the three UTC rewrites of `tzname` / `tzoffset` -/
theorem gen_eq_model_info_validate_partial (i : Info) (res : Res) (hc : 100 ≤ i.century) :
    Gen.P.info_validate i res = PM.validate i res := PGen.validate_eq i res hc

/-! ### the small methods of `parser` -/

theorem gen_eq_model_could_be_tzname (i : Info) (hour : Option Nat) (tzname : Option Token) (tzoffset : Option Int)
    (t : Token) : Gen.P.couldBeTzname i hour tzname tzoffset t = .ok (PM.couldBeTzname i hour tzname tzoffset t) :=
  PGen.couldBeTzname_eq i hour tzname tzoffset t

/-- `_ampm_valid`: True exactly where the model hands back the hour to adjust; the same two ValueErrors -/
theorem gen_eq_model_ampm_valid (i : Info) (hour ampm : Option Nat) (fuzzy : Bool) :
    Gen.P.ampmValid i hour ampm fuzzy = (PM.ampmValid hour ampm fuzzy).map Option.isSome :=
  PGen.ampmValid_eq i hour ampm fuzzy

/-- `_to_decimal`: `Decimal(val)` (a named primitive: the value of a lexer token, or one of the specials, or
    InvalidOperation), `is_finite()`, every exception re-raised as ValueError -/
theorem gen_eq_model_to_decimal (cls : Char → CClass) (i : Info) (t : Token) :
    Gen.P.toDecimal cls i t = PM.toDecimal cls t := PGen.toDecimal_eq cls i t

/-- `_parse_min_sec`: `int(value)`, `value % 1` and `60 * r` in the 28-digit context (named primitives) -/
theorem gen_eq_model_parse_min_sec (i : Info) (v : Dec) : Gen.P.parseMinSec i v = PM.parseMinSec v :=
  PGen.parseMinSec_eq i v

/-- `_parsems`: the `.` test, the two-piece split, the `ljust(6, "0")[:6]` padding -/
theorem gen_eq_model_parsems (cls : Char → CClass) (i : Info) (t : Token) : Gen.P.parsems cls i t = PM.parsems cls t :=
  PGen.parsems_eq cls i t

/-- `_assign_hms`: hour (+ minutes from the fraction) / minute+second / second+microsecond by the unit index -/
theorem gen_eq_model_assign_hms (cls : Char → CClass) (i : Info) (res : Res) (t : Token) (hms : Nat) :
    Gen.P.assignHms cls i res t hms = PM.assignHms cls res t hms := PGen.assignHms_eq cls i res t hms

/-- `_find_hms_idx`, for a token index inside the list (where `_parse_numeric_token` calls it): the four look-arounds
    in order (next; next-but-one over a blank when jumps are allowed; previous; previous-but-one over a blank when
    the token is the last one) -/
theorem gen_eq_model_find_hms_idx (i : Info) (idx : Nat) (l : List Token) (aj : Bool) (hidx : idx < l.length) :
    Gen.P.findHmsIdx i idx l aj = .ok ((PM.findHmsIdx i idx l aj).map (·.1)) := PGen.findHmsIdx_eq i idx l aj hidx

/-- `_parse_hms` on what `_find_hms_idx` found: the new index and the unit the model's `numHms` uses (a label BEHIND
    the number means the next unit) -/
theorem gen_eq_model_parse_hms (i : Info) (idx : Nat) (l : List Token) (aj : Bool) (j h0 : Nat)
    (h : PM.findHmsIdx i idx l aj = some (j, h0)) :
    Gen.P.parseHms i idx l (some j) = .ok (if j > idx then j else idx, some (if j > idx then h0 else h0 + 1)) ∧
    Gen.P.parseHms i idx l none = .ok (idx, none) :=
  PGen.parseHms_eq i idx l j h0 (PGen.findHmsIdx_spec i idx l aj j h0 h)

/-- `_assign_tzname` on a fold-0 datetime whose zone is called `n0` / `n1` at fold 0 / 1 -/
theorem gen_eq_model_assign_tzname (i : Info) (n0 n1 tzname : Option Token) :
    Gen.P.assignTzname i { n0 := n0, n1 := n1, fold := 0 } tzname =
      .ok { n0 := n0, n1 := n1, fold := PM.assignFold n0 n1 tzname } := PGen.assignTzname_eq i n0 n1 tzname

/-! ### `_parse_numeric_token` -/

/-- `parser._parse_numeric_token(tokens, idx, info, ymd, res, fuzzy)`: all eleven arms — `19990101T23[59]`, `YYMMDD` /
    `HHMMSS[.ss]`, `YYYYMMDD[hhmm[ss]]`, `HH[ ]h`, `HH:MM[:SS[.ss]]`, `01-01[-01]` / `01-Jan[-01]`, a number before a jump
    word (incl. `12 am`), `12am`, a possible day, the non-fuzzy ValueError, the fuzzy skip — for every token list, every
    index (inside the list or not), every `_ymd` state and result record.  The model returns how far `idx` moved. -/
theorem gen_eq_model_parse_numeric_token (cls : Char → CClass) (info : Info) (fuzzy : Bool) (tokens : List Token)
    (idx : Nat) (ymd : Ymd) (res : Res) :
    Gen.P.parseNumericToken cls info tokens idx ymd res fuzzy =
      (PM.parseNumericToken cls info fuzzy tokens idx ymd res).map (fun r => (idx + r.1, r.2.1, r.2.2)) :=
  PGen.parseNumericToken_eq cls info fuzzy tokens idx ymd res

/-! ### `_build_naive` -/

/-- `parser._build_naive(res, default)`: the `repl` dict (loop over the seven field names), the default's day clipped to
    the length of the resulting month when the text has no day, `default.replace(**repl)`, and the forward shift to a bare
    weekday (`res.weekday is not None and not res.day`) — for every result record and default.  `datetime.replace` and
    `+ relativedelta(weekday=k)` are named primitives (`PM.dtReplace`, `PM.weekdayShift`; the latter is C03's subject). -/
theorem gen_eq_model_build_naive (info : Info) (res : Res) (dflt : DT) :
    Gen.P.buildNaive info res dflt = PM.buildNaive res dflt := PGen.buildNaive_eq info res dflt

example : Gen.P.buildNaive (Info.default false false 2026 2000) { month := some 2 } ⟨2003, 1, 31, 0, 0, 0, 0⟩
    = .ok ⟨2003, 2, 28, 0, 0, 0, 0⟩ := by decide
example : Gen.P.buildNaive (Info.default false false 2026 2000) { weekday := some 0 } ⟨2003, 9, 25, 0, 0, 0, 0⟩
    = .ok ⟨2003, 9, 29, 0, 0, 0, 0⟩ := by decide

/-! ### the token loop of `parser._parse` -/

/- Full statement: the same without `hc`.  It is FALSE for a parserinfo whose `_century` is below 100 (see
   `gen_eq_model_info_validate_partial`): in the `Jan of 01` arm `str(info.convertyear(value))` can then be the text of a
   negative number, which Python appends (`int('-10')`) and the model clamps. -/
/-- one iteration of `while i < len_l:` in `parser._parse` — the number arm (→ `_parse_numeric_token`), weekday name, month
    name (`Jan-01[-99]`, `Jan of 01`, bare), AM/PM word (valid / fuzzy skip / ValueError), time-zone name with the
    `GMT+3` sign flip written into the token list, numeric offset `-0300` / `-03:00` / `-3` with the parenthesised name,
    jump word / fuzzy skip / ValueError — for every token list, index, result record, `_ymd` state and skip list.
    The model returns how many FURTHER tokens were consumed (`i` ends at `i + adv + 1`). -/
theorem gen_eq_model_parse_step_partial (cls : Char → CClass) (info : Info) (fuzzy : Bool) (l : List Token) (i : Nat)
    (res : Res) (ymd : Ymd) (skipped : List Nat) (hc : 100 ≤ info.century) :
    Gen.P.parseStep cls info l i l.length res ymd skipped fuzzy =
      (PM.parseStep cls info fuzzy l.length i { l := l, res := res, ymd := ymd, skipped := skipped }).map
        (fun r => (r.2.l, i + r.1 + 1, r.2.res, r.2.ymd, r.2.skipped)) :=
  PGen.parseStep_eq cls info fuzzy l i res ymd skipped hc

/-- the `while i < len_l:` loop of `parser._parse` as written now (a fuel-bounded recursion over the translated body), started
    the way `_parse` starts it (`i = 0`, empty result, empty `_ymd`, no skipped tokens) with at least as much fuel as there
    are tokens: never out of fuel, and the token list / result record / `_ymd` / skip list (or the exception) are those of the
    model's loop `PM.parseLoop` as `parseTry` calls it.  Same `_century ≥ 100` hypothesis as the body. -/
theorem gen_eq_model_parse_loop_partial (cls : Char → CClass) (info : Info) (fuzzy : Bool) (l : List Token) (fuel : Nat)
    (hc : 100 ≤ info.century) (hf : l.length ≤ fuel) :
    (Gen.P.parseLoop fuel cls info l 0 l.length {} {} [] fuzzy).map PGen.loopOut =
      PM.parseLoop cls info fuzzy l.length l.length 0 0 { l := l } :=
  PGen.parseLoop_eq cls info fuzzy hc fuel { l := l } 0 (by simpa using hf)

/-- `parser._recombine_skipped(tokens, skipped_idxs)`: the loop over `enumerate(sorted(skipped_idxs))` gluing neighbouring
    skipped tokens — for every token list and every index list (any order, repeats, out of range) -/
theorem gen_eq_model_recombine_skipped (info : Info) (tokens : List Token) (skipped : List Nat) :
    Gen.P.recombineSkipped info tokens skipped = PM.recombineSkipped tokens skipped :=
  PGen.recombineSkipped_eq info tokens skipped

example : Gen.P.recombineSkipped_loop (Info.default false false 2026 2000) [0, 1, 2, 5]
    [tk "foo", tk " ", tk "bar", tk " ", tk "19", tk "baz"] [0, 1, 2, 5] 0 [] = .ok [tk "foo bar", tk "baz"] := by decide

/-- the whole of `parser._parse(timestr, dayfirst, yearfirst, fuzzy, fuzzy_with_tokens)` as written now: the flag defaults,
    lexing, the token loop, `resolve_ymd` and the result fields, the `except (IndexError, ValueError, InvalidOperation)`
    boundary, `info.validate(res)` (whose AST is checked at translation time to return True only), the fuzzy token
    recombination — equal to the model's `parseTokens` on the lexed text, for every text and flag combination, given at
    least as much fuel as there are tokens.  One named primitive on both sides: the lexer (`_timelex.split` ↦ `PM.lex`);
    `_recombine_skipped` is the translated one; same `_century ≥ 100` hypothesis as `validate`. -/
theorem gen_eq_model_parse_partial (cls : Char → CClass) (info : Info) (fuel : Nat) (timestr : List Char)
    (dayfirst yearfirst : Option Bool) (fuzzy fuzzyWithTokens : Bool) (hc : 100 ≤ info.century)
    (hf : (PM.lex cls timestr).length ≤ fuel) :
    Gen.P.parse fuel cls info timestr dayfirst yearfirst fuzzy fuzzyWithTokens =
      PM.parseTokens cls info { dayfirst := dayfirst, yearfirst := yearfirst, fuzzy := fuzzy,
                                fuzzyWithTokens := fuzzyWithTokens } (PM.lex cls timestr) :=
  PGen.parse_eq cls info fuel timestr dayfirst yearfirst fuzzy fuzzyWithTokens hc hf

/-- `parser.parse(timestr, default, ignoretz, tzinfos, **kwargs)` from the `_parse` call to the return, as written now (with the
    two repairs ce40246 / fef6cad in place): "Unknown string format" / "String does not contain a date" ParserErrors,
    `_build_naive` and `_build_tzaware` each inside `except ValueError → ParserError`, `ret.replace(tzinfo=None)` for
    `ignoretz`, the `fuzzy_with_tokens` return — equal to the model's `parseA` (any default: its tzinfo kept / dropped as
    `FinalTz` says).  `_build_tzaware` itself is a named stand-in for the hand model's cascade (not translated);
    same `_century ≥ 100` and fuel hypotheses as `_parse`. -/
theorem gen_eq_model_parse_tail_partial (cls : Char → CClass) (info : Info) (fuel : Nat) (tznames : List Token)
    (timestr : List Char) (dflt : DT) (ignoretz : Bool) (tzi : TzInfos) (dayfirst yearfirst : Option Bool)
    (fuzzy fuzzyWithTokens : Bool) (hc : 100 ≤ info.century) (hf : (PM.lex cls timestr).length ≤ fuel) :
    Gen.P.parseTail fuel cls tznames info timestr dflt ignoretz tzi dayfirst yearfirst fuzzy fuzzyWithTokens =
      PM.parseA cls info { dayfirst := dayfirst, yearfirst := yearfirst, fuzzy := fuzzy, fuzzyWithTokens := fuzzyWithTokens,
                           ignoretz := ignoretz } tznames tzi dflt timestr :=
  PGen.parseTail_eq cls info fuel tznames timestr dflt ignoretz tzi dayfirst yearfirst fuzzy fuzzyWithTokens hc hf

-- the hypotheses are satisfiable (the stock parserinfo of any year from 100 on; fuel = number of tokens)
example : (100 : Int) ≤ (Info.default false false 2026 2000).century ∧ ([tk "10", tk " ", tk "pm"] : List Token).length ≤ 3 := by
  decide

example : Gen.P.parseStep asciiCls (Info.default false false 2026 2000) [tk "GMT", tk "+", tk "3"] 0 3 { hour := some 10 } {} [] false
    = .ok ([tk "GMT", tk "-", tk "3"], 1, { hour := some 10 }, {}, []) := by decide
set_option maxRecDepth 8192 in
example : Gen.P.parseStep asciiCls (Info.default false false 2026 2000) [tk "-", tk "0300", tk " ", tk "(", tk "BRST", tk ")"] 0 6
    { hour := some 10 } {} [] false
    = .ok ([tk "-", tk "0300", tk " ", tk "(", tk "BRST", tk ")"], 6,
           { hour := some 10, tzoffset := some (-10800), tzname := some (tk "BRST") }, {}, []) := by decide

example : Gen.P.parseNumericToken asciiCls (Info.default false false 2026 2000)
    [tk "10", tk ":", tk "41", tk ":", tk "59.5"] 0 {} {} false
    = .ok (4, {}, { hour := some 10, minute := some 41, second := some 59, microsecond := some 500000 }) := by decide
example : Gen.P.parseNumericToken asciiCls (Info.default false false 2026 2000)
    [tk "2003", tk "-", tk "09", tk "-", tk "25"] 0 {} {} false
    = .ok (4, { vals := [2003, 9, 25], century := true, yIdx := some 0 }, {}) := by decide

example : Gen.P.info_month (Info.default false false 2026 2000) (tk "SEPT") = .ok (some 9) := by decide
example : Gen.P.info_validate (Info.default false false 2026 2000) { year := some 99, tzname := some (tk "z") }
    = .ok { year := some 1999, tzname := some (tk "UTC"), tzoffset := some 0 } := by decide
example : (100 : Int) ≤ (Info.default false false 2026 2000).century := by decide
example : Gen.P.ampmValid (Info.default false false 2026 2000) (some 13) none false = .error .ValueError := by decide
example : Gen.P.parsems asciiCls (Info.default false false 2026 2000) (tk "59.5") = .ok (59, 500000) := by decide
example : Gen.P.findHmsIdx (Info.default false false 2026 2000) 0 [tk "12", tk " ", tk "h"] true = .ok (some 2) := by
  decide
example : PM.findHmsIdx (Info.default false false 2026 2000) 2 [tk "h", tk "04"] true = none := by decide
example : PM.findHmsIdx (Info.default false false 2026 2000) 1 [tk "h", tk "04"] true = some (0, 0) := by decide
example : Gen.P.assignTzname (Info.default false false 2026 2000) { n0 := some (tk "EDT"), n1 := some (tk "EST") }
    (some (tk "EST")) = .ok { n0 := some (tk "EDT"), n1 := some (tk "EST"), fold := 1 } := by decide

/-! ### `_build_tzinfo` -/

/-- `parser._build_tzinfo(tzinfos, tzname, tzoffset)` as written now, for a `tzinfos` that is a callable or a mapping (the only
    way `_build_tzaware` calls it): callable → its answer, else `.get(tzname)`; then tzinfo-instance-or-None kept / text →
    `tz.tzstr` (may raise) / int → `tz.tzoffset(tzname, n)` (OverflowError beyond timedelta) / anything else TypeError.
    The zone descriptor of `naive.replace(tzinfo=<that object>)`, or the exception, is the model's `PM.buildTzinfo`.
    Named primitives: the user's `tzinfos` (`PPy.tziCall/tziGet`), the isinstance tests, the two constructors. -/
theorem gen_eq_model_build_tzinfo (info : Info) (tzi : TzInfos) (name : Option Token) (off : Option Int) (h : tzi ≠ .absent) :
    (Gen.P.buildTzinfo info tzi name off).map (PPy.descrOf name) = PM.buildTzinfo tzi name off :=
  PGen.buildTzinfo_eq info tzi name off h

example : Gen.P.buildTzinfo (Info.default false false 2026 2000) (.mapping [(some (tk "BRST"), .int (-10800))]) (some (tk "BRST")) none
    = .ok (.fixed (some (tk "BRST")) (-10800)) := by decide

/-! ### `parserinfo.__init__`: where `_century ≥ 100` comes from -/

/-- `parserinfo.__init__(dayfirst, yearfirst)` as written now, for ANY class tables (a subclass's word lists) and current year
    `now_year = time.localtime().tm_year`: `_year = now_year`, `_century = now_year // 100 * 100`, the flags, the converted
    tables (`_convert` is the named primitive `PM.convertGroups`) -/
theorem gen_eq_model_info_init (t : PPy.InfoTables) (y : Int) (df yf : Bool) :
    ∃ I, Gen.P.info_init t y df yf = .ok I ∧ I.year = y ∧ I.century = y / 100 * 100 ∧ I.dayfirst = df ∧ I.yearfirst = yf ∧
      I.weekdays = PM.convertGroups t.WEEKDAYS ∧ I.months = PM.convertGroups t.MONTHS ∧ I.hms = PM.convertGroups t.HMS ∧
      I.ampm = PM.convertGroups t.AMPM ∧ I.tzoffsets = t.TZOFFSET := PGen.info_init_ok t y df yf

/-- for the stock class it is the model's `Info.default` -/
theorem gen_eq_model_info_init_stock (y : Int) (df yf : Bool) :
    Gen.P.info_init PPy.stockTables y df yf = .ok (Info.default df yf y (y / 100 * 100)) := PGen.info_init_stock y df yf

/-- the hypothesis of the `…_partial` obligations, discharged: an instance built by `__init__` in any year from 100 on has
    `_century ≥ 100` (what remains assumed is that the clock says a year ≥ 100 and that nobody overwrites `_century`) -/
theorem century_ge_100_of_init (t : PPy.InfoTables) (y : Int) (df yf : Bool) (I : Info)
    (h : Gen.P.info_init t y df yf = .ok I) (hy : 100 ≤ y) : 100 ≤ I.century := PGen.info_init_century t y df yf I h hy

/-- `parse()` (from the `_parse` call on) for an instance built by `__init__`: no hypothesis on `_century` left -/
theorem gen_eq_model_parse_tail_of_init (cls : Char → CClass) (t : PPy.InfoTables) (y : Int) (df0 yf0 : Bool) (info : Info)
    (hi : Gen.P.info_init t y df0 yf0 = .ok info) (hy : 100 ≤ y) (fuel : Nat) (tznames : List Token)
    (timestr : List Char) (dflt : DT) (ignoretz : Bool) (tzi : TzInfos) (dayfirst yearfirst : Option Bool)
    (fuzzy fuzzyWithTokens : Bool) (hf : (PM.lex cls timestr).length ≤ fuel) :
    Gen.P.parseTail fuel cls tznames info timestr dflt ignoretz tzi dayfirst yearfirst fuzzy fuzzyWithTokens =
      PM.parseA cls info { dayfirst := dayfirst, yearfirst := yearfirst, fuzzy := fuzzy, fuzzyWithTokens := fuzzyWithTokens,
                           ignoretz := ignoretz } tznames tzi dflt timestr :=
  gen_eq_model_parse_tail_partial cls info fuel tznames timestr dflt ignoretz tzi dayfirst yearfirst fuzzy fuzzyWithTokens
    (century_ge_100_of_init t y df0 yf0 info hi hy) hf

/-- likewise `validate`, the loop body, the loop and `_parse` -/
theorem gen_eq_model_info_validate_of_init (t : PPy.InfoTables) (y : Int) (df0 yf0 : Bool) (info : Info)
    (hi : Gen.P.info_init t y df0 yf0 = .ok info) (hy : 100 ≤ y) (res : Res) :
    Gen.P.info_validate info res = PM.validate info res :=
  gen_eq_model_info_validate_partial info res (century_ge_100_of_init t y df0 yf0 info hi hy)

theorem gen_eq_model_parse_of_init (cls : Char → CClass) (t : PPy.InfoTables) (y : Int) (df0 yf0 : Bool) (info : Info)
    (hi : Gen.P.info_init t y df0 yf0 = .ok info) (hy : 100 ≤ y) (fuel : Nat) (timestr : List Char)
    (dayfirst yearfirst : Option Bool) (fuzzy fuzzyWithTokens : Bool) (hf : (PM.lex cls timestr).length ≤ fuel) :
    Gen.P.parse fuel cls info timestr dayfirst yearfirst fuzzy fuzzyWithTokens =
      PM.parseTokens cls info { dayfirst := dayfirst, yearfirst := yearfirst, fuzzy := fuzzy,
                                fuzzyWithTokens := fuzzyWithTokens } (PM.lex cls timestr) :=
  gen_eq_model_parse_partial cls info fuel timestr dayfirst yearfirst fuzzy fuzzyWithTokens
    (century_ge_100_of_init t y df0 yf0 info hi hy) hf

example : ∃ I, Gen.P.info_init PPy.stockTables 2026 false false = .ok I ∧ (100 : Int) ≤ I.century :=
  ⟨_, gen_eq_model_info_init_stock 2026 false false, by decide⟩

end ParserGen
