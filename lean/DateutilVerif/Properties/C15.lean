/-
  C15 — parse() options: default fill-in, time-zone resolution and fuzzy modes.
  Statements about the model of `_build_naive`, `_build_tzaware`, `_assign_tzname`, the
  `GMT+3` arm, `ignoretz` and the fuzzy modes (Model/Parser.lean), for ALL inputs.
-/
import DateutilVerif.Proofs.ParserTotal
import DateutilVerif.Properties.C14
import DateutilVerif.Proofs.ParserFuzzy
import DateutilVerif.Proofs.ParserFuzzySyn
import DateutilVerif.Proofs.Calendar
import DateutilVerif.Proofs.Time
import DateutilVerif.Proofs.RenderGenA
import DateutilVerif.Proofs.RenderGenB
import DateutilVerif.Proofs.RenderGenC
import DateutilVerif.Proofs.RenderGenD
import DateutilVerif.Proofs.RenderGenE
import DateutilVerif.Proofs.RenderGenG
import DateutilVerif.Proofs.RenderGenF

namespace C15
open PM Py

/-! ### default fill-in -/

theorem dtReplace_ok (dflt : DT) (y m d hh mm ss us : Option Nat) (b : DT)
    (h : dtReplace dflt y m d hh mm ss us = .ok b) :
    b = DT.mk (fieldOr y dflt.y) (fieldOr m dflt.m) (fieldOr d dflt.d) (fieldOr hh dflt.hh)
          (fieldOr mm dflt.mm) (fieldOr ss dflt.ss) (fieldOr us dflt.us) ∧ b.Valid := by
  unfold dtReplace at h
  split at h
  · cases h
  · split at h
    · rename_i hv
      injection h with h
      subst h
      exact ⟨rfl, of_decide_eq_true hv⟩
    · cases h

/-- the day handed to `replace`: the parsed one, else the default's clipped to the resulting month -/
theorem clipDay_ok (res : Res) (dflt : DT) (day : Option Nat) (h : clipDay res dflt = .ok day) :
    fieldOr day dflt.d =
      (match res.day with
       | some d => (d : Int)
       | none =>
         if dflt.d > Cal.daysInMonth (fieldOr res.year dflt.y) (fieldOr res.month dflt.m)
         then Cal.daysInMonth (fieldOr res.year dflt.y) (fieldOr res.month dflt.m) else dflt.d) := by
  unfold clipDay at h
  cases hd : res.day with
  | some d =>
    simp only [hd] at h
    injection h with h; subst h; rfl
  | none =>
    simp only [hd, bind, Except.bind] at h
    unfold monthrange at h
    by_cases hm : 1 ≤ fieldOr res.month dflt.m ∧ fieldOr res.month dflt.m ≤ 12
    · simp only [hm, and_self, if_true] at h
      by_cases hgt : dflt.d > Cal.daysInMonth (fieldOr res.year dflt.y) (fieldOr res.month dflt.m)
      · have hb := (Cal.daysInMonth_bounds (fieldOr res.year dflt.y) (fieldOr res.month dflt.m)).1
        generalize Cal.daysInMonth (fieldOr res.year dflt.y) (fieldOr res.month dflt.m) = dim at *
        simp only [hgt, if_true, pure, Except.pure] at h ⊢
        injection h with h; subst h
        simp only [fieldOr]
        omega
      · simp only [hgt, if_false, pure, Except.pure] at h ⊢
        injection h with h; subst h; rfl
    · simp only [hm, if_false] at h
      cases h

/-- **default fill-in**: when `_build_naive` returns, every field is the parsed one if there is one and
    the default's otherwise; the day, when none was parsed, is the default's day clipped to the length of
    the RESULTING year/month; and a bare weekday (no day parsed) moves that date forward by `k` days,
    `0 ≤ k < 7`, onto the named weekday — zero days if it already is that weekday. -/
theorem build_naive_spec (res : Res) (dflt naive : DT) (h : buildNaive res dflt = .ok naive) :
    ∃ base : DT,
      base.y = fieldOr res.year dflt.y ∧ base.m = fieldOr res.month dflt.m ∧
      base.hh = fieldOr res.hour dflt.hh ∧ base.mm = fieldOr res.minute dflt.mm ∧
      base.ss = fieldOr res.second dflt.ss ∧ base.us = fieldOr res.microsecond dflt.us ∧
      base.d = (match res.day with
                | some d => (d : Int)
                | none => if dflt.d > Cal.daysInMonth base.y base.m then Cal.daysInMonth base.y base.m else dflt.d) ∧
      base.Valid ∧
      (match res.weekday with
       | some wd =>
         if res.day.isNone ∨ res.day = some 0 then
           ∃ k : Int, 0 ≤ k ∧ k < 7 ∧ (base.weekday + k) % 7 = wd ∧ base.addDays k = .ok naive
         else naive = base
       | none => naive = base) := by
  unfold buildNaive at h
  cases hc : clipDay res dflt with
  | error e => simp [hc, bind, Except.bind] at h
  | ok day =>
    simp only [hc, bind, Except.bind] at h
    cases hr : dtReplace dflt res.year res.month day res.hour res.minute res.second res.microsecond with
    | error e => simp [hr] at h
    | ok base =>
      simp only [hr] at h
      obtain ⟨hb, hv⟩ := dtReplace_ok _ _ _ _ _ _ _ _ _ hr
      have hday := clipDay_ok res dflt day hc
      refine ⟨base, by rw [hb], by rw [hb], by rw [hb], by rw [hb], by rw [hb], by rw [hb], ?_, hv, ?_⟩
      · rw [hb]; exact hday
      · unfold shiftBareWeekday at h
        cases hw : res.weekday with
        | none =>
          simp only [hw] at h ⊢
          injection h with h; exact h.symm
        | some wd =>
          simp only [hw] at h ⊢
          by_cases hdd : res.day.isNone = true ∨ res.day = some 0
          · simp only [hdd, if_true] at h ⊢
            unfold weekdayShift at h
            by_cases hlt : wd ≥ 7
            · simp [hlt] at h
            · simp only [hlt, if_false] at h
              have hrg := Cal.weekdayOfOrd_range base.ordinal
              refine ⟨_, Int.emod_nonneg _ (by omega), Int.emod_lt_of_pos _ (by omega), ?_, h⟩
              unfold DT.weekday
              omega
          · simp only [hdd, if_false] at h ⊢
            injection h with h; exact h.symm

/-- moving a valid datetime forward by `k ≥ 0` days moves its weekday by `k` (mod 7): together with
    `build_naive_spec` (`(base.weekday + k) % 7 = wd`), the result of a bare weekday IS on that weekday -/
theorem shift_lands_on_weekday (base naive : DT) (k : Int) (hv : base.Valid) (hk : 0 ≤ k)
    (h : base.addDays k = .ok naive) : naive.weekday = (base.weekday + k) % 7 := by
  unfold DT.addDays DT.addMicros at h
  dsimp only at h
  split at h
  · cases h
  · rename_i hrange
    injection h with h
    have hb := DT.timeMicros_range base hv
    have hord : 1 ≤ base.ordinal := Cal.toOrdinal_pos base.y base.m base.d hv.1.1 hv.1.2.2
    have hx1 : DT.minMicros ≤ base.toMicros + k * DT.usPerDay := by omega
    have hx2 : base.toMicros + k * DT.usPerDay ≤ DT.maxMicros := by omega
    have hnv := DT.ofMicros_valid _ hx1 hx2
    have hn := DT.timeMicros_range _ hnv
    have hge : DT.usPerDay ≤ base.toMicros + k * DT.usPerDay := by
      unfold DT.minMicros at hx1; omega
    have hto := DT.toMicros_ofMicros _ hge
    rw [h] at hnv hn hto
    have hordn : naive.ordinal = base.ordinal + k := by
      unfold DT.toMicros DT.usPerDay at *
      omega
    unfold DT.weekday
    rw [hordn, Cal.weekdayOfOrd_add]

/-! ### the zone cascade, row by row, in priority order

  (definitional) Every `tz_row_*` theorem below is `unfold buildTzaware / buildTzinfo; simp` with the earlier rows' conditions
  negated in the hypotheses: the rows RESTATE the model's if-chain in the order of the property text.  They document
  that the model's cascade is the documented one; they prove nothing the definition does not say.  All the force of
  the zone-resolution clause is in the correspondence of `buildTzaware` with `_build_tzaware` (parser.tzcascade /
  parser.parse ops on every run).  Theorems with content in this file: `build_naive_spec`, `shift_lands_on_weekday`,
  `assign_fold_spec` / `local_utc_replacement`, `gmt_sign_flip`, `fuzzy_extends_strict_partial`,
  `atMostOneAmPm_of_count`, `fuzzy_tokens_in_order`. -/

/-- row 1: a callable `tzinfos`, or a mapping that has the name, decides — whatever else the text said -/
theorem tz_row_tzinfos (tznames : List Token) (tzi : TzInfos) (res : Res) (h : tzi.applies res.tzname = true) :
    buildTzaware tznames tzi res = buildTzinfo tzi res.tzname res.tzoffset := by
  unfold buildTzaware; simp [h]

/-- row 1, what the value may be: a tzinfo object is used as is -/
theorem tz_row_tzinfos_object (es : List (Option Token × TzData)) (n : Option Token) (off : Option Int) (k : Nat)
    (h : lookupKey es n = some (.obj k)) : buildTzinfo (.mapping es) n off = .ok (.viaTzinfos (.obj k) n) := by
  unfold buildTzinfo; simp [h, pure, Except.pure, bind, Except.bind]
/-- … a string becomes `tz.tzstr(text)` — when `tz.tzstr` accepts it (C08's model of the TZ-string parser) -/
theorem tz_row_tzinfos_string (es : List (Option Token × TzData)) (n : Option Token) (off : Option Int) (s : Token)
    (h : lookupKey es n = some (.str s)) (hs : tzstrCtor s = .ok ()) :
    buildTzinfo (.mapping es) n off = .ok (.viaTzinfos (.str s) n) := by
  unfold buildTzinfo; simp [h, hs, pure, Except.pure, bind, Except.bind]
/-- … and `tz.tzstr`'s own exception (ValueError for a malformed TZ string) leaves `_build_tzinfo` as it is; `parse` wraps a
    ValueError of `_build_tzaware` as ParserError since /repo 950345d (`parseResult`) -/
theorem tz_row_tzinfos_bad_string (es : List (Option Token × TzData)) (n : Option Token) (off : Option Int) (s : Token)
    (e : PyErr) (h : lookupKey es n = some (.str s)) (hs : tzstrCtor s = .error e) :
    buildTzinfo (.mapping es) n off = .error e := by
  unfold buildTzinfo; simp [h, hs, bind, Except.bind]
/-- … an integer becomes `tz.tzoffset(name, seconds)` -/
theorem tz_row_tzinfos_int (es : List (Option Token × TzData)) (n : Option Token) (off : Option Int) (k : Int)
    (h : lookupKey es n = some (.int k)) (hk : offsetOk k = true) :
    buildTzinfo (.mapping es) n off = .ok (.fixed n k) := by
  unfold buildTzinfo; simp [h, fixedZone, hk, bind, Except.bind]
/-- … None gives a naive result -/
theorem tz_row_tzinfos_none (es : List (Option Token × TzData)) (n : Option Token) (off : Option Int)
    (h : lookupKey es n = some .noneVal) : buildTzinfo (.mapping es) n off = .ok (.viaTzinfos .noneVal n) := by
  unfold buildTzinfo; simp [h, pure, Except.pure, bind, Except.bind]
/-- … anything else is the documented TypeError -/
theorem tz_row_tzinfos_bad (es : List (Option Token × TzData)) (n : Option Token) (off : Option Int)
    (h : lookupKey es n = some .bad) : buildTzinfo (.mapping es) n off = .error .TypeError := by
  unfold buildTzinfo; simp [h, bind, Except.bind, throw, throwThe, MonadExceptOf.throw]
/-- … a callable decides for EVERY name, also one the text does not carry (`tzinfos(None, None)`), with the same value
    kinds; `es` = the names it answers specially, `d` = its answer for all others -/
theorem tz_row_callable_always (tznames : List Token) (es : List (Option Token × TzData)) (d : TzDflt) (res : Res) :
    buildTzaware tznames (.callable es d) res = buildTzinfo (.callable es d) res.tzname res.tzoffset := by
  unfold buildTzaware; simp [TzInfos.applies]
theorem tz_row_callable_object (es : List (Option Token × TzData)) (d : TzDflt) (n : Option Token) (off : Option Int) (k : Nat)
    (h : lookupKey es n = some (.obj k)) : buildTzinfo (.callable es d) n off = .ok (.viaTzinfos (.obj k) n) := by
  unfold buildTzinfo; simp [h, pure, Except.pure, bind, Except.bind]
theorem tz_row_callable_default_none (es : List (Option Token × TzData)) (n : Option Token) (off : Option Int)
    (h : lookupKey es n = none) : buildTzinfo (.callable es (.data .noneVal)) n off = .ok (.viaTzinfos .noneVal n) := by
  unfold buildTzinfo; simp [h, pure, Except.pure, bind, Except.bind]
theorem tz_row_callable_default_int (es : List (Option Token × TzData)) (n : Option Token) (off : Option Int) (k : Int)
    (h : lookupKey es n = none) (hk : offsetOk k = true) :
    buildTzinfo (.callable es (.data (.int k))) n off = .ok (.fixed n k) := by
  unfold buildTzinfo; simp [h, fixedZone, hk, bind, Except.bind]
theorem tz_row_callable_bad (es : List (Option Token × TzData)) (n : Option Token) (off : Option Int)
    (h : lookupKey es n = none) : buildTzinfo (.callable es (.data .bad)) n off = .error .TypeError := by
  unfold buildTzinfo; simp [h, bind, Except.bind, throw, throwThe, MonadExceptOf.throw]
/-- … a callable that raises ValueError: `_build_tzinfo` propagates it (and `parse` reports ParserError since /repo 950345d) -/
theorem tz_row_callable_raises (es : List (Option Token × TzData)) (d : TzDflt) (n : Option Token) (off : Option Int)
    (h : lookupKey es n = some .raises) : buildTzinfo (.callable es d) n off = .error .ValueError := by
  unfold buildTzinfo; simp [h, bind, Except.bind, throw, throwThe, MonadExceptOf.throw]
/-- … and a callable is asked with `(tzname, tzoffset)` -/
theorem tz_row_tzinfos_callable_offset (n : Option Token) (k : Int) (hk : offsetOk k = true) :
    buildTzinfo (.callable [] .echoOffset) n (some k) = .ok (.fixed n k) := by
  unfold buildTzinfo; simp [lookupKey, fixedZone, hk, bind, Except.bind]

/-- row 2: otherwise a name of the process-local zone (`time.tzname`) gives the process-zone row, which carries the parsed offset -/
theorem tz_row_local (tznames : List Token) (tzi : TzInfos) (res : Res) (n : Token)
    (h1 : tzi.applies res.tzname = false) (hn : res.tzname = some n) (hne : n ≠ []) (hmem : n ∈ tznames) :
    buildTzaware tznames tzi res = .ok (.localZone n res.tzoffset) := by
  unfold buildTzaware
  have : nameTruthy (some n) = true := by cases n <;> simp_all [nameTruthy]
  rw [hn] at h1
  simp [h1, hn, this, hmem]

/-- row 2, `_assign_tzname`: the fold is 1 exactly when the zone calls the wall time by that name only on
    its second occurrence -/
theorem assign_fold_spec (n0 n1 name : Option Token) :
    assignFold n0 n1 name = (if n0 ≠ name ∧ n1 = name then 1 else 0) := by
  unfold assignFold; by_cases h : n0 = name <;> by_cases h' : n1 = name <;> simp [h, h']

/-- row 2, the UTC replacement: `GMT`/`UTC`/`Z` parsed while the local zone currently calls itself
    something else (winter GMT parsed in the UK during BST) is `tz.UTC`, not the local zone -/
theorem local_utc_replacement (info : Info) (n0 n1 : Option Token) (o0 o1 : Int) (name : Token) (off : Option Int)
    (h0 : n0 ≠ some name) (h1 : n1 ≠ some name) (hu : name ∈ info.UTCZONE) :
    localFinal info n0 n1 o0 o1 name off = .utc := by
  unfold localFinal assignFold; simp [h0, h1, hu]

/-- row 2, the documented local-zone-name rule: the name the local zone currently uses, at the offset the local zone has —
    a non-zero-offset name (`EST`, `BST`: `res.tzoffset` is None) always, a UTC designator when the zone IS at offset zero
    (`GMT` under Europe/London in winter, anything under `TZ=UTC`) — stays `tzlocal()` -/
theorem local_stays_local (info : Info) (n0 n1 : Option Token) (o0 o1 : Int) (name : Token) (off : Option Int)
    (h0 : n0 = some name) (hz : off = some 0 → o0 = 0) :
    localFinal info n0 n1 o0 o1 name off = .localFold 0 := by
  unfold localFinal assignFold
  by_cases ho : off = some 0
  · simp [h0, ho, hz ho]
  · simp [h0, ho]

/-- row 2, **a zone merely CALLED UTC / GMT** (repair of D-C15-local-zone-named-utc): the text means offset zero
    (`Z`, `UTC`, `GMT`, `+0000`, `-00:00`, `GMT+0`: `res.tzoffset == 0`) but `tzlocal()` is NOT at offset zero for that wall
    time (at the fold `_assign_tzname` picked) ⇒ `tz.UTC`, whatever the zone calls itself -/
theorem local_zero_offset_is_utc (info : Info) (n0 n1 : Option Token) (o0 o1 : Int) (name : Token)
    (hoff : (if assignFold n0 n1 (some name) = 1 then o1 else o0) ≠ 0) :
    localFinal info n0 n1 o0 o1 name (some 0) = .utc := by
  unfold localFinal
  simp only [true_and]
  generalize assignFold n0 n1 (some name) = f at hoff ⊢
  by_cases hc : (if f = 1 then n1 else n0) ≠ some name ∧ info.UTCZONE.contains name = true
  · rw [if_pos hc]
  · rw [if_neg hc, if_pos hoff]

/-- row 2, **a UTC designator / zero offset is at offset zero** — for every local zone, whatever it is called and wherever it
    is: the result of the process-zone row has UTC offset 0 at its wall time (no hypothesis on names or offsets) -/
theorem local_zero_offset_at_zero (info : Info) (n0 n1 : Option Token) (o0 o1 : Int) (name : Token) :
    (localFinal info n0 n1 o0 o1 name (some 0)).offset o0 o1 = 0 := by
  unfold localFinal
  simp only [true_and]
  generalize assignFold n0 n1 (some name) = f
  by_cases hc : (if f = 1 then n1 else n0) ≠ some name ∧ info.UTCZONE.contains name = true
  · rw [if_pos hc]; rfl
  · rw [if_neg hc]
    by_cases h : (if f = 1 then o1 else o0) ≠ 0
    · rw [if_pos h]; rfl
    · rw [if_neg h]; simp only [LocalFinal.offset]; exact Decidable.of_not_not h

/-- `TZ=UTC+3` (a zone called UTC, three hours west), `TZ=GMT-2`, and `XXX0UTC,M3.5.0,M10.5.0` in summer: all `tz.UTC`;
    Europe/London in winter keeps `tzlocal()` for `GMT` -/
example : localFinal (Info.default false false 2024 2000) (some "UTC".toList) (some "UTC".toList) (-10800) (-10800) "UTC".toList (some 0) = .utc
    ∧ localFinal (Info.default false false 2024 2000) (some "GMT".toList) (some "GMT".toList) 7200 7200 "GMT".toList (some 0) = .utc
    ∧ localFinal (Info.default false false 2024 2000) (some "UTC".toList) (some "UTC".toList) 3600 3600 "UTC".toList (some 0) = .utc
    ∧ localFinal (Info.default false false 2024 2000) (some "GMT".toList) (some "GMT".toList) 0 0 "GMT".toList (some 0) = .localFold 0
    ∧ localFinal (Info.default false false 2024 2000) (some "EST".toList) (some "EST".toList) (-18000) (-18000) "EST".toList none = .localFold 0 := by
  decide

/-- row 3: otherwise offset zero (`Z`, `UTC`, `+00:00` after `validate`) is `tz.UTC` -/
theorem tz_row_utc (tznames : List Token) (tzi : TzInfos) (res : Res)
    (h1 : tzi.applies res.tzname = false) (h2 : (nameTruthy res.tzname && res.tzname.any tznames.contains) = false)
    (h3 : res.tzoffset = some 0) : buildTzaware tznames tzi res = .ok .utc := by
  unfold buildTzaware; simp [h1, h2, h3]

/-- row 4: otherwise a non-zero offset is a fixed-offset zone carrying the parsed name -/
theorem tz_row_fixed (tznames : List Token) (tzi : TzInfos) (res : Res) (n : Int)
    (h1 : tzi.applies res.tzname = false) (h2 : (nameTruthy res.tzname && res.tzname.any tznames.contains) = false)
    (h3 : res.tzoffset = some n) (hn : n ≠ 0) (hok : offsetOk n = true) :
    buildTzaware tznames tzi res = .ok (.fixed res.tzname n) := by
  unfold buildTzaware; simp [h1, h2, h3, hn, fixedZone, hok]

/-- row 5: nothing about a zone in the text: naive -/
theorem tz_row_naive (tznames : List Token) (tzi : TzInfos) (res : Res)
    (h1 : tzi.applies res.tzname = false) (h3 : res.tzoffset = none) (h4 : nameTruthy res.tzname = false) :
    buildTzaware tznames tzi res = .ok .naive := by
  unfold buildTzaware; simp [h1, h3, h4]

/-- row 6: a name nobody knows: naive, with the UnknownTimezoneWarning -/
theorem tz_row_unknown (tznames : List Token) (tzi : TzInfos) (res : Res) (n : Token)
    (h1 : tzi.applies res.tzname = false) (hn : res.tzname = some n) (hne : n ≠ [])
    (hmem : n ∉ tznames) (h3 : res.tzoffset = none) :
    buildTzaware tznames tzi res = .ok (.naiveWarn n) := by
  unfold buildTzaware
  have : nameTruthy (some n) = true := by cases n <;> simp_all [nameTruthy]
  rw [hn] at h1
  simp [h1, hn, this, hmem, h3]

/-! ### `GMT+h` -/

/-- **`GMT+3` is three hours BEHIND**: a zone name followed by `+` / `-` reverses the sign token in place
    and forgets the name's own offset (and the name itself if it is a UTC alias) … -/
theorem gmt_sign_flip (info : Info) (lenL i : Nat) (st : PState) (name : Token) (sign : Token)
    (h1 : i + 1 < lenL) (hs : st.l[i + 1]? = some sign) (hsign : sign = ['+'] ∨ sign = ['-']) :
    (stepTzname info lenL i st name).2.l = st.l.set (i + 1) (if sign = ['+'] then ['-'] else ['+']) ∧
    (stepTzname info lenL i st name).2.res.tzoffset = none ∧
    (stepTzname info lenL i st name).2.res.tzname = (if info.isUtczone name then none else some name) := by
  unfold stepTzname
  simp only [h1, if_true, hs]
  rcases hsign with rfl | rfl <;> simp

/-- … and the offset arm then reads the reversed sign: after `GMT` the text `+h[h]` yields `-h` hours -/
theorem gmt_plus_h_behind (cls : Char → CClass) (info : Info) (lenL i : Nat) (st : PState) (hTok : Token) (h : Nat)
    (hl : st.l[i + 1]? = some hTok) (hlen : hTok.length ≤ 2) (hint : pyInt cls (sl hTok 0 2) = .ok h)
    (hnocolon : tokIs st.l (i + 2) [':'] = false) (hnoparen : tzParenName info st.l lenL i
        { st.res with tzoffset := some (-1 * ((h : Int) * 3600 + ((0 : Nat) : Int) * 60)) } = none) :
    ∃ st', stepTzoffset cls info lenL i st ['-'] = .ok (1, st') ∧ st'.res.tzoffset = some (-((h : Int) * 3600)) := by
  unfold stepTzoffset tzOffsetDigits
  have h4 : ¬ hTok.length = 4 := by omega
  have ht : tokAt st.l (i + 1) = .ok hTok := by unfold tokAt; simp [hl]
  simp only [ht, bind, Except.bind, h4, if_false, hnocolon, hlen, if_true, hint, pure, Except.pure]
  have hne : ((['-'] : Token) = ['+']) = False := by decide
  simp only [Bool.false_eq_true, and_false, if_false, hne, Nat.add_zero] at hnoparen ⊢
  simp only [hnoparen]
  refine ⟨_, rfl, ?_⟩
  simp

/-- the whole text, once: `10:00 GMT+3` is 10:00 at UTC-3, `10:00 GMT-3` at UTC+3, and `BRST+3` keeps the name -/
example : parse asciiCls (Info.default false false 2024 2000) {} [] .absent ⟨2003, 9, 25, 0, 0, 0, 0⟩
    "10:00 GMT+3".toList = .ok ⟨⟨2003, 9, 25, 10, 0, 0, 0⟩, .fixed none (-10800), none⟩ := by decide +kernel
example : parse asciiCls (Info.default false false 2024 2000) {} [] .absent ⟨2003, 9, 25, 0, 0, 0, 0⟩
    "10:00 GMT-3".toList = .ok ⟨⟨2003, 9, 25, 10, 0, 0, 0⟩, .fixed none 10800, none⟩ := by decide +kernel
example : parse asciiCls (Info.default false false 2024 2000) {} [] .absent ⟨2003, 9, 25, 0, 0, 0, 0⟩
    "10:00 BRST+3".toList = .ok ⟨⟨2003, 9, 25, 10, 0, 0, 0⟩, .fixed (some "BRST".toList) (-10800), none⟩ := by
  decide +kernel

/-! ### ignoretz -/

/-- **ignoretz**: the same wall time, no zone — and it never turns a result into a failure -/
theorem ignoretz_same_wall (cls : Char → CClass) (info : Info) (o : Opts) (tznames : List Token) (tzi : TzInfos)
    (dflt : DT) (s : List Char) (r : Result)
    (h : parse cls info { o with ignoretz := false } tznames tzi dflt s = .ok r) :
    parse cls info { o with ignoretz := true } tznames tzi dflt s = .ok { r with tz := .naive } := by
  unfold parse parseResult at *
  have hp : parseTokens cls info { o with ignoretz := true } (lex cls s) =
            parseTokens cls info { o with ignoretz := false } (lex cls s) := rfl
  rw [hp]
  cases hpt : parseTokens cls info { o with ignoretz := false } (lex cls s) with
  | error e => simp [hpt, bind, Except.bind] at h
  | ok ro =>
    simp only [hpt, bind, Except.bind] at h ⊢
    cases ro with
    | none => simp at h
    | some p =>
      obtain ⟨res, sk⟩ := p
      dsimp only at h ⊢
      split at h
      · simp at h
      · rename_i hlen
        simp only [hlen, if_false] at ⊢
        cases hb : buildNaive res dflt with
        | error e => cases e <;> simp [hb] at h
        | ok naive =>
          simp only [hb, pure, Except.pure] at h ⊢
          cases hz : buildTzaware tznames tzi res with
          | error e => cases e <;> simp [hz] at h
          | ok z =>
            simp only [hz] at h
            injection h with h
            subst h
            rfl

/-! ### an AWARE `default=`: which results keep its tzinfo (repair of D-C15-aware-default-kept) -/

/-- `parseResultA` (any default) read for a naive default is `parseResult`: the two models differ only in separating
    "tzinfo None" from "the default's tzinfo" -/
theorem parseResultA_forget (cls : Char → CClass) (info : Info) (o : Opts) (tznames : List Token) (tzi : TzInfos)
    (dflt : DT) (l : List Token) :
    (parseResultA cls info o tznames tzi dflt l).map (fun r => ({ dt := r.dt, tz := r.tz.forget, tokens := r.tokens } : Result)) =
      parseResult cls info o tznames tzi dflt l := by
  unfold parseResultA parseResult finalTz
  cases hpt : parseTokens cls info o l with
  | error e => simp [bind, Except.bind, Except.map]
  | ok ro =>
    simp only [bind, Except.bind]
    cases ro with
    | none => simp [Except.map, throw, throwThe, MonadExceptOf.throw]
    | some p =>
      obtain ⟨res, sk⟩ := p
      dsimp only
      split
      · simp [Except.map, throw, throwThe, MonadExceptOf.throw]
      · cases hb : buildNaive res dflt with
        | error e => cases e <;> simp [Except.map, throw, throwThe, MonadExceptOf.throw, pure, Except.pure]
        | ok naive =>
          simp only [pure, Except.pure]
          by_cases hig : o.ignoretz = true
          · simp [hig, Except.map, FinalTz.forget]
          · simp only [hig, if_false, Bool.false_eq_true]
            cases hz : buildTzaware tznames tzi res with
            | error e => cases e <;> simp [Except.map, throw, throwThe, MonadExceptOf.throw]
            | ok z => cases z <;> simp [Except.map, FinalTz.forget]

/-- **`ignoretz=True` ⇒ a naive datetime, for EVERY default** (aware or not): the tzinfo of the result is None — never the
    default's (`FinalTz.ofDefault`), never a zone — and the wall time and tokens are those of the call without `ignoretz` -/
theorem ignoretz_naive_every_default (cls : Char → CClass) (info : Info) (o : Opts) (tznames : List Token) (tzi : TzInfos)
    (dflt : DT) (s : List Char) (r : ResultA) (hig : o.ignoretz = true)
    (h : parseA cls info o tznames tzi dflt s = .ok r) : r.tz = .none := by
  unfold parseA parseResultA finalTz at h
  cases hpt : parseTokens cls info o (lex cls s) with
  | error e => simp [hpt, bind, Except.bind] at h
  | ok ro =>
    simp only [hpt, bind, Except.bind] at h
    cases ro with
    | none => simp [throw, throwThe, MonadExceptOf.throw] at h
    | some p =>
      obtain ⟨res, sk⟩ := p
      dsimp only at h
      split at h
      · simp [throw, throwThe, MonadExceptOf.throw] at h
      · cases hb : buildNaive res dflt with
        | error e => cases e <;> simp [hb, throw, throwThe, MonadExceptOf.throw] at h
        | ok naive =>
          simp only [hb, pure, Except.pure, hig, if_true] at h
          injection h with h
          subst h
          rfl

/-- the last lines of `parse`, row by row, for every default.  Row 5 (no zone information in the text): the default's
    tzinfo is KEPT … -/
theorem final_row_no_zone_keeps_default (o : Opts) (tznames : List Token) (tzi : TzInfos) (res : Res) (hig : o.ignoretz = false)
    (h1 : tzi.applies res.tzname = false) (h3 : res.tzoffset = none) (h4 : nameTruthy res.tzname = false) :
    finalTz o tznames tzi res = .ok .ofDefault := by
  unfold finalTz; rw [tz_row_naive tznames tzi res h1 h3 h4]; simp [hig]

/-- … row 6, **an unknown abbreviation ⇒ naive + UnknownTimezoneWarning, for EVERY default** (the tzinfo is None, not the
    default's) … -/
theorem unknown_abbreviation_naive_every_default (o : Opts) (tznames : List Token) (tzi : TzInfos) (res : Res) (n : Token)
    (hig : o.ignoretz = false) (h1 : tzi.applies res.tzname = false) (hn : res.tzname = some n) (hne : n ≠ [])
    (hmem : n ∉ tznames) (h3 : res.tzoffset = none) :
    finalTz o tznames tzi res = .ok (.noneWarn n) := by
  unfold finalTz; rw [tz_row_unknown tznames tzi res n h1 hn hne hmem h3]; simp [hig]

/-- … `ignoretz` ⇒ None before anything else is looked at (tzinfos is never consulted, so it cannot raise) … -/
theorem final_ignoretz (o : Opts) (tznames : List Token) (tzi : TzInfos) (res : Res) (hig : o.ignoretz = true) :
    finalTz o tznames tzi res = .ok .none := by
  unfold finalTz; simp [hig]

/-- … and the default's tzinfo survives ONLY through row 5: whenever the result carries it, the text had no zone name and
    no offset, `ignoretz` was off and `tzinfos` did not apply -/
theorem default_kept_only_without_zone (o : Opts) (tznames : List Token) (tzi : TzInfos) (res : Res)
    (h : finalTz o tznames tzi res = .ok .ofDefault) :
    o.ignoretz = false ∧ buildTzaware tznames tzi res = .ok .naive := by
  unfold finalTz at h
  by_cases hig : o.ignoretz = true
  · simp [hig] at h
  · refine ⟨by simpa using hig, ?_⟩
    simp only [hig, if_false, Bool.false_eq_true] at h
    cases hz : buildTzaware tznames tzi res with
    | error e => cases e <;> simp [hz] at h
    | ok z => cases z <;> simp_all

/-- the witnesses of D-C15-aware-default-kept on the model: `10:00 +0300` with `ignoretz`, `10:00 FOO`, and `10:00` alone -/
example : (parseA asciiCls (Info.default false false 2024 2000) { ignoretz := true } [] .absent ⟨2003, 9, 25, 0, 0, 0, 0⟩ "10:00 +0300".toList).map (·.tz) = .ok .none
    ∧ (parseA asciiCls (Info.default false false 2024 2000) {} [] .absent ⟨2003, 9, 25, 0, 0, 0, 0⟩ "10:00 FOO".toList).map (·.tz) = .ok (.noneWarn "FOO".toList)
    ∧ (parseA asciiCls (Info.default false false 2024 2000) {} [] .absent ⟨2003, 9, 25, 0, 0, 0, 0⟩ "10:00".toList).map (·.tz) = .ok .ofDefault
    ∧ (parseA asciiCls (Info.default false false 2024 2000) {} [] .absent ⟨2003, 9, 25, 0, 0, 0, 0⟩ "10:00 +0300".toList).map (·.tz) = .ok (.zone (.fixed none 10800)) := by
  decide +kernel

/-! ### fuzzy -/

/-- `_recombine_skipped`'s loop: whatever the merging of adjacent tokens does, the characters that come back are the
    tokens at the given indices, in the order given, nothing lost and nothing added -/
theorem go_flatten (tokens : List Token) (skipped : List Nat) :
    ∀ (rest : List Nat) (i : Nat) (acc r : List Token),
      recombineSkipped.go tokens skipped rest i acc = .ok r →
      r.flatten = acc.flatten ++ (rest.filterMap (tokens[·]?)).flatten := by
  intro rest
  induction rest with
  | nil =>
    intro i acc r h
    simp only [recombineSkipped.go] at h
    injection h with h
    simp [h]
  | cons idx rest ih =>
    intro i acc r h
    simp only [recombineSkipped.go, bind, Except.bind] at h
    cases ht : tokAt tokens idx with
    | error e => simp [ht] at h
    | ok t =>
      have hget : tokens[idx]? = some t := by
        unfold tokAt at ht
        cases hg : tokens[idx]? with
        | none => simp [hg] at ht
        | some x => simp [hg] at ht; rw [ht]
      simp only [ht] at h
      split at h
      · split at h
        · rename_i last revInit hrev
          have := ih _ _ _ h
          rw [this]
          have hacc : acc = revInit.reverse ++ [last] := by
            have := congrArg List.reverse hrev
            simpa using this
          simp [hacc, hget, List.flatten_append]
        · simp at h
      · have := ih _ _ _ h
        rw [this]
        simp [hget, List.flatten_append]

/-- **fuzzy_with_tokens returns the skipped text in order**: the returned strings, read one after the other, are exactly
    the skipped tokens in ASCENDING token index (= text order: `_recombine_skipped` sorts the indices), each once —
    adjacent skipped tokens are only glued together, never reordered, dropped or repeated -/
theorem fuzzy_tokens_in_order (tokens : List Token) (skipped : List Nat) (r : List Token)
    (h : recombineSkipped tokens skipped = .ok r) :
    r.flatten = ((skipped.mergeSort (· ≤ ·)).filterMap (tokens[·]?)).flatten ∧
    (skipped.mergeSort (· ≤ ·)).Pairwise (· ≤ ·) := by
  refine ⟨?_, ?_⟩
  · unfold recombineSkipped at h
    simpa using go_flatten tokens skipped _ 0 [] r h
  · have := List.pairwise_mergeSort (le := fun a b : Nat => decide (a ≤ b))
      (by intro a b c; simp; omega) (by intro a b; simp; omega) skipped
    simpa using this

/-- **fuzzy_with_tokens returns the same datetime as fuzzy** (and the same zone) -/
theorem fuzzy_tokens_same_dt (cls : Char → CClass) (info : Info) (o : Opts) (tznames : List Token) (tzi : TzInfos)
    (dflt : DT) (s : List Char) (r : Result)
    (h : parse cls info { o with fuzzyWithTokens := true } tznames tzi dflt s = .ok r) :
    parse cls info { o with fuzzy := true, fuzzyWithTokens := false } tznames tzi dflt s = .ok { r with tokens := none } := by
  unfold parse parseResult at *
  have hp : parseTry cls info { o with fuzzy := true, fuzzyWithTokens := false } (lex cls s) =
            parseTry cls info { o with fuzzyWithTokens := true } (lex cls s) := by
    unfold parseTry; simp
  unfold parseTokens at *
  rw [hp]
  cases hpt : parseTry cls info { o with fuzzyWithTokens := true } (lex cls s) with
  | error e =>
    simp only [hpt] at h ⊢
    split at h
    · simp [bind, Except.bind] at h
    · simp [bind, Except.bind] at h
  | ok st =>
    simp only [hpt, bind, Except.bind] at h ⊢
    cases hv : validate info st.res with
    | error e => simp [hv] at h
    | ok res =>
      simp only [hv, if_true, Bool.false_eq_true, if_false, pure, Except.pure] at h ⊢
      cases hrs : recombineSkipped st.l st.skipped with
      | error e => simp [hrs] at h
      | ok toks =>
        simp only [hrs] at h
        split at h
        · simp at h
        · rename_i hlen
          simp only [hlen, if_false]
          cases hb : buildNaive res dflt with
          | error e => cases e <;> simp [hb] at h
          | ok naive =>
            simp only [hb] at h ⊢
            split at h
            · rename_i hig
              simp only [hig, if_true] at ⊢
              injection h with h; subst h; rfl
            · rename_i hig
              simp only [hig, if_false] at ⊢
              cases hz : buildTzaware tznames tzi res with
              | error e => cases e <;> simp [hz] at h
              | ok z =>
                simp only [hz] at h ⊢
                injection h with h; subst h; rfl

/-- the strict scan of `s` never meets an AM/PM word while an AM/PM flag is already set
    (decidable; implied by "at most one AM/PM word in the text") -/
def AtMostOneAmPm (cls : Char → CClass) (info : Info) (s : List Char) : Prop :=
  SingleMarkerRun cls info (lex cls s).length (lex cls s).length 0 0 { l := lex cls s }

/-
  Full-strength statement of the property ("any text accepted without fuzzy yields the same result with
  fuzzy"):
      parse strict s = ok r  →  parse fuzzy s = ok r          for ALL s.
  It is FALSE for the code as it is (D-C15): `_ampm_valid` rejects a second AM/PM marker only in fuzzy
  mode.  The model fails at the witness exactly like the implementation:
-/
example : parse asciiCls (Info.default false false 2024 2000) {} [] .absent ⟨2003, 9, 25, 0, 0, 0, 0⟩
    "10:30 am pm".toList = .ok ⟨⟨2003, 9, 25, 22, 30, 0, 0⟩, .naive, none⟩ := by decide +kernel
example : parse asciiCls (Info.default false false 2024 2000) { fuzzy := true } [] .absent ⟨2003, 9, 25, 0, 0, 0, 0⟩
    "10:30 am pm".toList = .ok ⟨⟨2003, 9, 25, 10, 30, 0, 0⟩, .naive, none⟩ := by decide +kernel

/-- **strict ⊆ fuzzy**, proved for every text outside the D-C15 class: if the strict scan never meets a
    second AM/PM marker, whatever `parse` returns without fuzzy it returns with `fuzzy=True`
    (`_partial`: the hypothesis `AtMostOneAmPm` excludes exactly the known finding). -/
theorem fuzzy_extends_strict_partial (cls : Char → CClass) (info : Info) (o : Opts) (tznames : List Token)
    (tzi : TzInfos) (dflt : DT) (s : List Char) (r : Result)
    (hone : AtMostOneAmPm cls info s)
    (h : parse cls info { o with fuzzy := false, fuzzyWithTokens := false } tznames tzi dflt s = .ok r) :
    parse cls info { o with fuzzy := true, fuzzyWithTokens := false } tznames tzi dflt s = .ok r := by
  unfold parse parseResult parseTokens at *
  cases hpt : parseTry cls info { o with fuzzy := false, fuzzyWithTokens := false } (lex cls s) with
  | error e =>
    simp only [hpt] at h
    split at h <;> simp [bind, Except.bind] at h
  | ok st =>
    have hpt' : parseTry cls info { o with fuzzy := true, fuzzyWithTokens := false } (lex cls s) = .ok st := by
      unfold parseTry at hpt ⊢
      simp only [Bool.or_false, bind, Except.bind] at hpt ⊢
      cases hl : parseLoop cls info false (lex cls s).length (lex cls s).length 0 0 { l := lex cls s } with
      | error e => simp [hl] at hpt
      | ok st1 =>
        rw [parseLoop_fuzzy cls info _ _ _ _ _ _ hone hl]
        simpa [hl] using hpt
    simp only [hpt, hpt'] at h ⊢
    exact h

/-- the hypothesis is met by ordinary texts (one marker) and is exactly what fails at the witness -/
example : AtMostOneAmPm asciiCls (Info.default false false 2024 2000) "Sep 25 2003 10:30 pm".toList := by
  unfold AtMostOneAmPm; decide +kernel
example : ¬ AtMostOneAmPm asciiCls (Info.default false false 2024 2000) "10:30 am pm".toList := by
  unfold AtMostOneAmPm; decide +kernel

/-- **the hypothesis as a condition on the text**: at most one token of the lexed text is an AM/PM word
    (`am`, `pm`, `a`, `p` in any case for the stock parserinfo) ⇒ `AtMostOneAmPm`.  For a parserinfo subclass the
    words `+` and `-` must not be AM/PM words (they are rewritten in place by the `GMT+3` arm). -/
theorem atMostOneAmPm_of_count (cls : Char → CClass) (info : Info) (hinfo : info.WF)
    (hplus : info.ampmOf ['+'] = none) (hminus : info.ampmOf ['-'] = none) (s : List Char)
    (hc : ampmCount info (lex cls s) ≤ 1) : AtMostOneAmPm cls info s :=
  singleMarkerRun_of_count cls info hinfo hplus hminus (lex cls s) hc

/-- **strict ⊆ fuzzy for every text with at most one AM/PM word** (stock parserinfo): a hypothesis the user can
    check by counting words.  Still `_partial`: texts with two or more AM/PM words are the known finding D-C15. -/
theorem fuzzy_extends_strict_one_marker_partial (cls : Char → CClass) (df yf : Bool) (year century : Int) (o : Opts)
    (tznames : List Token) (tzi : TzInfos) (dflt : DT) (s : List Char) (r : Result)
    (hc : ampmCount (Info.default df yf year century) (lex cls s) ≤ 1)
    (h : parse cls (Info.default df yf year century) { o with fuzzy := false, fuzzyWithTokens := false } tznames tzi dflt s = .ok r) :
    parse cls (Info.default df yf year century) { o with fuzzy := true, fuzzyWithTokens := false } tznames tzi dflt s = .ok r :=
  fuzzy_extends_strict_partial cls _ o tznames tzi dflt s r
    (atMostOneAmPm_of_count cls _ (C14.default_info_wf df yf year century)
      (by simp only [Info.ampmOf, Info.default]; decide) (by simp only [Info.ampmOf, Info.default]; decide) s hc) h

/-- the count is 1 for an ordinary 12-hour text and 2 at the D-C15 witness -/
example : ampmCount (Info.default false false 2024 2000) (lex asciiCls "Sep 25 2003 10:30 pm".toList) = 1 := by decide +kernel
example : ampmCount (Info.default false false 2024 2000) (lex asciiCls "10:30 am pm".toList) = 2 := by decide +kernel

/-! ### a sentence containing one date

  The class of sentences is DECIDABLE: any number of filler words (`PM.fillerWord`: ASCII letters; not `inf`/`nan`/`infinity`; in no
  stock parserinfo table; not shaped like a zone abbreviation), each followed by a space; one rendering from the C02 schema templates
  (`PT.sentenceTemplates`: 23 ids — the 19 schema templates with a time of day and the ISO forms `YYYY-MM-DD[T ]HH:MM[:SS]` —, every valid datetime); any number of filler words, each after a space.  `PM.SentenceAnswer`
  (Proofs/RenderSentence.lean) says: `parse(…, fuzzy=True)` and `parse(…, fuzzy_with_tokens=True)` return the datetime the rendering
  alone parses to (naive), and the token tuple is `_recombine_skipped` of a list of skipped indices that contains every token of the
  words in front and behind.  Proof: the scan over ANY number of filler tokens is an induction (`PM.inert_seg`); the scan over the
  rendering at ANY position of the token list is the symbolic run of C02 with a symbolic prefix (`PM.runp_*`). -/

open PT in
/-- what `SentenceAnswer` says about the TEXT that comes back: the tokens' characters, read one after the other, are the skipped
    tokens in ascending token index, nothing lost or added — and every filler token is among them -/
theorem sentence_tokens_text (cls : Char → CClass) (info : Info) (o : Opts) (tznames : List Token) (tzi : TzInfos) (dflt : DT)
    (text : List Char) (dt : DT) (a b : Nat) (h : SentenceAnswer cls info o tznames tzi dflt text dt a b) :
    ∃ (toks : List Token) (sk : List Nat),
      parse cls info o tznames tzi dflt text = .ok { dt := dt, tz := .naive, tokens := if o.fuzzyWithTokens then some toks else none } ∧
      toks.flatten = ((sk.mergeSort (· ≤ ·)).filterMap ((lex cls text)[·]?)).flatten ∧
      (sk.mergeSort (· ≤ ·)).Pairwise (· ≤ ·) ∧
      (∀ i, (i < a ∨ (b ≤ i ∧ i < (lex cls text).length)) → i ∈ sk) := by
  obtain ⟨toks, sk, hre, hall, hp⟩ := h
  have := fuzzy_tokens_in_order (lex cls text) sk toks hre
  exact ⟨toks, sk, hp, this.1, this.2, hall⟩

/-- non-vacuity: `Today is 2003-09-25 10h49m41s sharp` -/
example : fillerWord "Today".toList = true ∧ fillerWord "is".toList = true ∧ fillerWord "sharp".toList = true ∧
    fillerWord "at".toList = true ∧ fillerWord "EST".toList = false ∧ fillerWord "nan".toList = false ∧ fillerWord "Monday".toList = false := by
  decide +kernel
example : parse asciiCls (Info.default false false 2024 2000) { fuzzy := true } [] .absent ⟨2001, 1, 1, 0, 0, 0, 0⟩
    (leadChars ["Today".toList, "is".toList] ++ PT.str_hms_letters ⟨2003, 9, 25, 10, 49, 41, 0⟩ (fillerChars ["sharp".toList])) =
      .ok ⟨⟨2003, 9, 25, 10, 49, 41, 0⟩, .naive, none⟩ := by decide +kernel
example : leadChars ["Today".toList, "is".toList] ++ PT.str_hms_letters ⟨2003, 9, 25, 10, 49, 41, 0⟩ (fillerChars ["sharp".toList]) =
    "Today is 2003-09-25 10h49m41s sharp".toList := by decide +kernel

-- BEGIN GENERATED SENTENCE INDEX (tools_local/gen_templates.py)
/-- the sentence theorem a template id stands for (`False` for an id without one) -/
def SentenceThm (id : String) : Prop :=
  if id = "us_slash" then
    (∀ (cls : Char → CClass) [AsciiOK cls] (yf : Bool) (year century : Int) (o : Opts) (tznames : List Token) (tzi : TzInfos)
      (hf : (o.fuzzy || o.fuzzyWithTokens) = true) (htz1 : tzi.applies none = false) (htz2 : tzi.applies (some ['U', 'T', 'C']) = false)
      (hdf : o.dayfirst.getD false = false) (hyf : o.yearfirst.getD yf = false) (t dflt : DT) (ht : t.Valid) (hdv : dflt.Valid) (lead ws : List Token) (hlead : ∀ w ∈ lead, fillerWord w = true) (hws : ∀ w ∈ ws, fillerWord w = true),
      SentenceAnswer cls (Info.default false yf year century) o tznames tzi dflt (leadChars lead ++ PT.str_us_slash t (fillerChars ws)) ({ t with us := 0 })
        (leadToks lead).length ((leadToks lead).length + 11))
  else if id = "eu_slash" then
    (∀ (cls : Char → CClass) [AsciiOK cls] (yf : Bool) (year century : Int) (o : Opts) (tznames : List Token) (tzi : TzInfos)
      (hf : (o.fuzzy || o.fuzzyWithTokens) = true) (htz1 : tzi.applies none = false) (htz2 : tzi.applies (some ['U', 'T', 'C']) = false)
      (hdf : o.dayfirst.getD false = true) (hyf : o.yearfirst.getD yf = false) (t dflt : DT) (ht : t.Valid) (hdv : dflt.Valid) (lead ws : List Token) (hlead : ∀ w ∈ lead, fillerWord w = true) (hws : ∀ w ∈ ws, fillerWord w = true),
      SentenceAnswer cls (Info.default false yf year century) o tznames tzi dflt (leadChars lead ++ PT.str_eu_slash t (fillerChars ws)) ({ t with us := 0 })
        (leadToks lead).length ((leadToks lead).length + 11))
  else if id = "yf_slash" then
    (∀ (cls : Char → CClass) [AsciiOK cls] (yf : Bool) (year century : Int) (o : Opts) (tznames : List Token) (tzi : TzInfos)
      (hf : (o.fuzzy || o.fuzzyWithTokens) = true) (htz1 : tzi.applies none = false) (htz2 : tzi.applies (some ['U', 'T', 'C']) = false)
      (hdf : o.dayfirst.getD false = false) (t dflt : DT) (ht : t.Valid) (hdv : dflt.Valid) (lead ws : List Token) (hlead : ∀ w ∈ lead, fillerWord w = true) (hws : ∀ w ∈ ws, fillerWord w = true),
      SentenceAnswer cls (Info.default false yf year century) o tznames tzi dflt (leadChars lead ++ PT.str_yf_slash t (fillerChars ws)) ({ t with us := 0 })
        (leadToks lead).length ((leadToks lead).length + 11))
  else if id = "eu_yy" then
    (∀ (cls : Char → CClass) [AsciiOK cls] (yf : Bool) (year century : Int) (o : Opts) (tznames : List Token) (tzi : TzInfos)
      (hf : (o.fuzzy || o.fuzzyWithTokens) = true) (htz1 : tzi.applies none = false) (htz2 : tzi.applies (some ['U', 'T', 'C']) = false)
      (hdf : o.dayfirst.getD false = true) (hyf : o.yearfirst.getD yf = false) (t dflt : DT) (ht : t.Valid) (hdv : dflt.Valid) (hwin : Gen.convertyear ⟨century, year⟩ (t.y % 100) false = .ok t.y) (lead ws : List Token) (hlead : ∀ w ∈ lead, fillerWord w = true) (hws : ∀ w ∈ ws, fillerWord w = true),
      SentenceAnswer cls (Info.default false yf year century) o tznames tzi dflt (leadChars lead ++ PT.str_eu_yy t (fillerChars ws)) ({ t with ss := dflt.ss, us := dflt.us })
        (leadToks lead).length ((leadToks lead).length + 9))
  else if id = "hms_letters" then
    (∀ (cls : Char → CClass) [AsciiOK cls] (yf : Bool) (year century : Int) (o : Opts) (tznames : List Token) (tzi : TzInfos)
      (hf : (o.fuzzy || o.fuzzyWithTokens) = true) (htz1 : tzi.applies none = false) (htz2 : tzi.applies (some ['U', 'T', 'C']) = false)
      (hdf : o.dayfirst.getD false = false) (t dflt : DT) (ht : t.Valid) (hdv : dflt.Valid) (lead ws : List Token) (hlead : ∀ w ∈ lead, fillerWord w = true) (hws : ∀ w ∈ ws, fillerWord w = true),
      SentenceAnswer cls (Info.default false yf year century) o tznames tzi dflt (leadChars lead ++ PT.str_hms_letters t (fillerChars ws)) ({ t with us := 0 })
        (leadToks lead).length ((leadToks lead).length + 12))
  else if id = "hm_letters" then
    (∀ (cls : Char → CClass) [AsciiOK cls] (yf : Bool) (year century : Int) (o : Opts) (tznames : List Token) (tzi : TzInfos)
      (hf : (o.fuzzy || o.fuzzyWithTokens) = true) (htz1 : tzi.applies none = false) (htz2 : tzi.applies (some ['U', 'T', 'C']) = false)
      (hdf : o.dayfirst.getD false = false) (t dflt : DT) (ht : t.Valid) (hdv : dflt.Valid) (lead ws : List Token) (hlead : ∀ w ∈ lead, fillerWord w = true) (hws : ∀ w ∈ ws, fillerWord w = true),
      SentenceAnswer cls (Info.default false yf year century) o tznames tzi dflt (leadChars lead ++ PT.str_hm_letters t (fillerChars ws)) ({ t with ss := dflt.ss, us := dflt.us })
        (leadToks lead).length ((leadToks lead).length + 10))
  else if id = "ampm_short" then
    (∀ (cls : Char → CClass) [AsciiOK cls] (yf : Bool) (year century : Int) (o : Opts) (tznames : List Token) (tzi : TzInfos)
      (hf : (o.fuzzy || o.fuzzyWithTokens) = true) (htz1 : tzi.applies none = false) (htz2 : tzi.applies (some ['U', 'T', 'C']) = false)
      (hdf : o.dayfirst.getD false = false) (t dflt : DT) (ht : t.Valid) (hdv : dflt.Valid) (lead ws : List Token) (hlead : ∀ w ∈ lead, fillerWord w = true) (hws : ∀ w ∈ ws, fillerWord w = true),
      SentenceAnswer cls (Info.default false yf year century) o tznames tzi dflt (leadChars lead ++ PT.str_ampm_short t (fillerChars ws)) ({ t with ss := dflt.ss, us := dflt.us })
        (leadToks lead).length ((leadToks lead).length + 10))
  else if id = "ampm_hour" then
    (∀ (cls : Char → CClass) [AsciiOK cls] (yf : Bool) (year century : Int) (o : Opts) (tznames : List Token) (tzi : TzInfos)
      (hf : (o.fuzzy || o.fuzzyWithTokens) = true) (htz1 : tzi.applies none = false) (htz2 : tzi.applies (some ['U', 'T', 'C']) = false)
      (hdf : o.dayfirst.getD false = false) (t dflt : DT) (ht : t.Valid) (hdv : dflt.Valid) (lead ws : List Token) (hlead : ∀ w ∈ lead, fillerWord w = true) (hws : ∀ w ∈ ws, fillerWord w = true),
      SentenceAnswer cls (Info.default false yf year century) o tznames tzi dflt (leadChars lead ++ PT.str_ampm_hour t (fillerChars ws)) ({ t with mm := dflt.mm, ss := dflt.ss, us := dflt.us })
        (leadToks lead).length ((leadToks lead).length + 9))
  else if id = "ampm_hour_tight" then
    (∀ (cls : Char → CClass) [AsciiOK cls] (yf : Bool) (year century : Int) (o : Opts) (tznames : List Token) (tzi : TzInfos)
      (hf : (o.fuzzy || o.fuzzyWithTokens) = true) (htz1 : tzi.applies none = false) (htz2 : tzi.applies (some ['U', 'T', 'C']) = false)
      (hdf : o.dayfirst.getD false = false) (t dflt : DT) (ht : t.Valid) (hdv : dflt.Valid) (lead ws : List Token) (hlead : ∀ w ∈ lead, fillerWord w = true) (hws : ∀ w ∈ ws, fillerWord w = true),
      SentenceAnswer cls (Info.default false yf year century) o tznames tzi dflt (leadChars lead ++ PT.str_ampm_hour_tight t (fillerChars ws)) ({ t with mm := dflt.mm, ss := dflt.ss, us := dflt.us })
        (leadToks lead).length ((leadToks lead).length + 8))
  else if id = "ampm_hms_sp" then
    (∀ (cls : Char → CClass) [AsciiOK cls] (yf : Bool) (year century : Int) (o : Opts) (tznames : List Token) (tzi : TzInfos)
      (hf : (o.fuzzy || o.fuzzyWithTokens) = true) (htz1 : tzi.applies none = false) (htz2 : tzi.applies (some ['U', 'T', 'C']) = false)
      (hdf : o.dayfirst.getD false = false) (t dflt : DT) (ht : t.Valid) (hdv : dflt.Valid) (lead ws : List Token) (hlead : ∀ w ∈ lead, fillerWord w = true) (hws : ∀ w ∈ ws, fillerWord w = true),
      SentenceAnswer cls (Info.default false yf year century) o tznames tzi dflt (leadChars lead ++ PT.str_ampm_hms_sp t (fillerChars ws)) ({ t with us := 0 })
        (leadToks lead).length ((leadToks lead).length + 13))
  else if id = "dd-Mon-Y_hm" then
    (∀ (cls : Char → CClass) [AsciiOK cls] (yf : Bool) (year century : Int) (o : Opts) (tznames : List Token) (tzi : TzInfos)
      (hf : (o.fuzzy || o.fuzzyWithTokens) = true) (htz1 : tzi.applies none = false) (htz2 : tzi.applies (some ['U', 'T', 'C']) = false)
       (t dflt : DT) (ht : t.Valid) (hdv : dflt.Valid) (lead ws : List Token) (hlead : ∀ w ∈ lead, fillerWord w = true) (hws : ∀ w ∈ ws, fillerWord w = true),
      SentenceAnswer cls (Info.default false yf year century) o tznames tzi dflt (leadChars lead ++ PT.str_dd_Mon_Y_hm t (fillerChars ws)) ({ t with ss := dflt.ss, us := dflt.us })
        (leadToks lead).length ((leadToks lead).length + 9))
  else if id = "d_Month_Y_hm" then
    (∀ (cls : Char → CClass) [AsciiOK cls] (yf : Bool) (year century : Int) (o : Opts) (tznames : List Token) (tzi : TzInfos)
      (hf : (o.fuzzy || o.fuzzyWithTokens) = true) (htz1 : tzi.applies none = false) (htz2 : tzi.applies (some ['U', 'T', 'C']) = false)
      (hyf : o.yearfirst.getD yf = false) (t dflt : DT) (ht : t.Valid) (hdv : dflt.Valid) (hy : 100 ≤ t.y) (lead ws : List Token) (hlead : ∀ w ∈ lead, fillerWord w = true) (hws : ∀ w ∈ ws, fillerWord w = true),
      SentenceAnswer cls (Info.default false yf year century) o tznames tzi dflt (leadChars lead ++ PT.str_d_Month_Y_hm t (fillerChars ws)) ({ t with ss := dflt.ss, us := dflt.us })
        (leadToks lead).length ((leadToks lead).length + 9))
  else if id = "Mon_d_Y_hms" then
    (∀ (cls : Char → CClass) [AsciiOK cls] (yf : Bool) (year century : Int) (o : Opts) (tznames : List Token) (tzi : TzInfos)
      (hf : (o.fuzzy || o.fuzzyWithTokens) = true) (htz1 : tzi.applies none = false) (htz2 : tzi.applies (some ['U', 'T', 'C']) = false)
       (t dflt : DT) (ht : t.Valid) (hdv : dflt.Valid) (hy : 100 ≤ t.y) (lead ws : List Token) (hlead : ∀ w ∈ lead, fillerWord w = true) (hws : ∀ w ∈ ws, fillerWord w = true),
      SentenceAnswer cls (Info.default false yf year century) o tznames tzi dflt (leadChars lead ++ PT.str_Mon_d_Y_hms t (fillerChars ws)) ({ t with us := 0 })
        (leadToks lead).length ((leadToks lead).length + 11))
  else if id = "compact_T_s" then
    (∀ (cls : Char → CClass) [AsciiOK cls] (yf : Bool) (year century : Int) (o : Opts) (tznames : List Token) (tzi : TzInfos)
      (hf : (o.fuzzy || o.fuzzyWithTokens) = true) (htz1 : tzi.applies none = false) (htz2 : tzi.applies (some ['U', 'T', 'C']) = false)
      (hdf : o.dayfirst.getD false = false) (t dflt : DT) (ht : t.Valid) (hdv : dflt.Valid) (lead ws : List Token) (hlead : ∀ w ∈ lead, fillerWord w = true) (hws : ∀ w ∈ ws, fillerWord w = true),
      SentenceAnswer cls (Info.default false yf year century) o tznames tzi dflt (leadChars lead ++ PT.str_compact_T_s t (fillerChars ws)) ({ t with us := 0 })
        (leadToks lead).length ((leadToks lead).length + 3))
  else if id = "compact_nosep_s" then
    (∀ (cls : Char → CClass) [AsciiOK cls] (yf : Bool) (year century : Int) (o : Opts) (tznames : List Token) (tzi : TzInfos)
      (hf : (o.fuzzy || o.fuzzyWithTokens) = true) (htz1 : tzi.applies none = false) (htz2 : tzi.applies (some ['U', 'T', 'C']) = false)
      (hdf : o.dayfirst.getD false = false) (t dflt : DT) (ht : t.Valid) (hdv : dflt.Valid) (lead ws : List Token) (hlead : ∀ w ∈ lead, fillerWord w = true) (hws : ∀ w ∈ ws, fillerWord w = true),
      SentenceAnswer cls (Info.default false yf year century) o tznames tzi dflt (leadChars lead ++ PT.str_compact_nosep_s t (fillerChars ws)) ({ t with us := dflt.us })
        (leadToks lead).length ((leadToks lead).length + 1))
  else if id = "compact_T_min" then
    (∀ (cls : Char → CClass) [AsciiOK cls] (yf : Bool) (year century : Int) (o : Opts) (tznames : List Token) (tzi : TzInfos)
      (hf : (o.fuzzy || o.fuzzyWithTokens) = true) (htz1 : tzi.applies none = false) (htz2 : tzi.applies (some ['U', 'T', 'C']) = false)
      (hdf : o.dayfirst.getD false = false) (t dflt : DT) (ht : t.Valid) (hdv : dflt.Valid) (lead ws : List Token) (hlead : ∀ w ∈ lead, fillerWord w = true) (hws : ∀ w ∈ ws, fillerWord w = true),
      SentenceAnswer cls (Info.default false yf year century) o tznames tzi dflt (leadChars lead ++ PT.str_compact_T_min t (fillerChars ws)) ({ t with ss := dflt.ss, us := dflt.us })
        (leadToks lead).length ((leadToks lead).length + 3))
  else if id = "compact_nosep_min" then
    (∀ (cls : Char → CClass) [AsciiOK cls] (yf : Bool) (year century : Int) (o : Opts) (tznames : List Token) (tzi : TzInfos)
      (hf : (o.fuzzy || o.fuzzyWithTokens) = true) (htz1 : tzi.applies none = false) (htz2 : tzi.applies (some ['U', 'T', 'C']) = false)
      (hdf : o.dayfirst.getD false = false) (t dflt : DT) (ht : t.Valid) (hdv : dflt.Valid) (lead ws : List Token) (hlead : ∀ w ∈ lead, fillerWord w = true) (hws : ∀ w ∈ ws, fillerWord w = true),
      SentenceAnswer cls (Info.default false yf year century) o tznames tzi dflt (leadChars lead ++ PT.str_compact_nosep_min t (fillerChars ws)) ({ t with ss := dflt.ss, us := dflt.us })
        (leadToks lead).length ((leadToks lead).length + 1))
  else if id = "eu_dot" then
    (∀ (cls : Char → CClass) [AsciiOK cls] (yf : Bool) (year century : Int) (o : Opts) (tznames : List Token) (tzi : TzInfos)
      (hf : (o.fuzzy || o.fuzzyWithTokens) = true) (htz1 : tzi.applies none = false) (htz2 : tzi.applies (some ['U', 'T', 'C']) = false)
      (hdf : o.dayfirst.getD false = true) (hyf : o.yearfirst.getD yf = false) (t dflt : DT) (ht : t.Valid) (hdv : dflt.Valid) (lead ws : List Token) (hlead : ∀ w ∈ lead, fillerWord w = true) (hws : ∀ w ∈ ws, fillerWord w = true),
      SentenceAnswer cls (Info.default false yf year century) o tznames tzi dflt (leadChars lead ++ PT.str_eu_dot t (fillerChars ws)) ({ t with ss := dflt.ss, us := dflt.us })
        (leadToks lead).length ((leadToks lead).length + 9))
  else if id = "long_ampm" then
    (∀ (cls : Char → CClass) [AsciiOK cls] (yf : Bool) (year century : Int) (o : Opts) (tznames : List Token) (tzi : TzInfos)
      (hf : (o.fuzzy || o.fuzzyWithTokens) = true) (htz1 : tzi.applies none = false) (htz2 : tzi.applies (some ['U', 'T', 'C']) = false)
       (t dflt : DT) (ht : t.Valid) (hdv : dflt.Valid) (hy : 100 ≤ t.y) (lead ws : List Token) (hlead : ∀ w ∈ lead, fillerWord w = true) (hws : ∀ w ∈ ws, fillerWord w = true),
      SentenceAnswer cls (Info.default false yf year century) o tznames tzi dflt (leadChars lead ++ PT.str_long_ampm t (fillerChars ws)) ({ t with us := 0 })
        (leadToks lead).length ((leadToks lead).length + 14))
  else if id = "iso_sp_s" then
    (∀ (cls : Char → CClass) [AsciiOK cls] (yf : Bool) (year century : Int) (o : Opts) (tznames : List Token) (tzi : TzInfos)
      (hf : (o.fuzzy || o.fuzzyWithTokens) = true) (htz1 : tzi.applies none = false) (htz2 : tzi.applies (some ['U', 'T', 'C']) = false)
      (hdf : o.dayfirst.getD false = false) (t dflt : DT) (ht : t.Valid) (hdv : dflt.Valid) (lead ws : List Token) (hlead : ∀ w ∈ lead, fillerWord w = true) (hws : ∀ w ∈ ws, fillerWord w = true),
      SentenceAnswer cls (Info.default false yf year century) o tznames tzi dflt (leadChars lead ++ PT.str_iso_sp_s t (fillerChars ws)) ({ t with us := 0 })
        (leadToks lead).length ((leadToks lead).length + 11))
  else if id = "iso_T_s" then
    (∀ (cls : Char → CClass) [AsciiOK cls] (yf : Bool) (year century : Int) (o : Opts) (tznames : List Token) (tzi : TzInfos)
      (hf : (o.fuzzy || o.fuzzyWithTokens) = true) (htz1 : tzi.applies none = false) (htz2 : tzi.applies (some ['U', 'T', 'C']) = false)
      (hdf : o.dayfirst.getD false = false) (t dflt : DT) (ht : t.Valid) (hdv : dflt.Valid) (lead ws : List Token) (hlead : ∀ w ∈ lead, fillerWord w = true) (hws : ∀ w ∈ ws, fillerWord w = true),
      SentenceAnswer cls (Info.default false yf year century) o tznames tzi dflt (leadChars lead ++ PT.str_iso_T_s t (fillerChars ws)) ({ t with us := 0 })
        (leadToks lead).length ((leadToks lead).length + 11))
  else if id = "iso_sp_min" then
    (∀ (cls : Char → CClass) [AsciiOK cls] (yf : Bool) (year century : Int) (o : Opts) (tznames : List Token) (tzi : TzInfos)
      (hf : (o.fuzzy || o.fuzzyWithTokens) = true) (htz1 : tzi.applies none = false) (htz2 : tzi.applies (some ['U', 'T', 'C']) = false)
      (hdf : o.dayfirst.getD false = false) (t dflt : DT) (ht : t.Valid) (hdv : dflt.Valid) (lead ws : List Token) (hlead : ∀ w ∈ lead, fillerWord w = true) (hws : ∀ w ∈ ws, fillerWord w = true),
      SentenceAnswer cls (Info.default false yf year century) o tznames tzi dflt (leadChars lead ++ PT.str_iso_sp_min t (fillerChars ws)) ({ t with ss := dflt.ss, us := dflt.us })
        (leadToks lead).length ((leadToks lead).length + 9))
  else if id = "iso_T_min" then
    (∀ (cls : Char → CClass) [AsciiOK cls] (yf : Bool) (year century : Int) (o : Opts) (tznames : List Token) (tzi : TzInfos)
      (hf : (o.fuzzy || o.fuzzyWithTokens) = true) (htz1 : tzi.applies none = false) (htz2 : tzi.applies (some ['U', 'T', 'C']) = false)
      (hdf : o.dayfirst.getD false = false) (t dflt : DT) (ht : t.Valid) (hdv : dflt.Valid) (lead ws : List Token) (hlead : ∀ w ∈ lead, fillerWord w = true) (hws : ∀ w ∈ ws, fillerWord w = true),
      SentenceAnswer cls (Info.default false yf year century) o tznames tzi dflt (leadChars lead ++ PT.str_iso_T_min t (fillerChars ws)) ({ t with ss := dflt.ss, us := dflt.us })
        (leadToks lead).length ((leadToks lead).length + 9))
  else False

set_option maxHeartbeats 4000000 in
/-- **every id in `PT.sentenceTemplates` (printed into the evidence through the `parser.sentences` op) has its sentence theorem**:
    for any number of filler words in front of and behind the rendering, `fuzzy` / `fuzzy_with_tokens` return the datetime of the
    rendering alone, and the token tuple is `_recombine_skipped` of indices containing every filler token. -/
theorem sentence_templates_have_theorems : ∀ p ∈ PT.sentenceTemplates, SentenceThm p := by
  intro p hp
  simp only [PT.sentenceTemplates, List.mem_cons, List.mem_nil_iff, or_false] at hp
  rcases hp with rfl | rfl | rfl | rfl | rfl | rfl | rfl | rfl | rfl | rfl | rfl | rfl | rfl | rfl | rfl | rfl | rfl | rfl | rfl | rfl | rfl | rfl | rfl
  · show SentenceThm "us_slash"
    simp only [SentenceThm]
    exact fun cls _ yf year century o tznames tzi hf htz1 htz2 hdf hyf t dflt ht hdv lead ws hlead hws =>
      sentence_us_slash cls yf year century o tznames tzi hf htz1 htz2 hdf hyf t dflt ht hdv lead ws hlead hws
  · show SentenceThm "eu_slash"
    simp only [SentenceThm]
    exact fun cls _ yf year century o tznames tzi hf htz1 htz2 hdf hyf t dflt ht hdv lead ws hlead hws =>
      sentence_eu_slash cls yf year century o tznames tzi hf htz1 htz2 hdf hyf t dflt ht hdv lead ws hlead hws
  · show SentenceThm "yf_slash"
    simp only [SentenceThm]
    exact fun cls _ yf year century o tznames tzi hf htz1 htz2 hdf t dflt ht hdv lead ws hlead hws =>
      sentence_yf_slash cls yf year century o tznames tzi hf htz1 htz2 hdf t dflt ht hdv lead ws hlead hws
  · show SentenceThm "eu_yy"
    simp only [SentenceThm]
    exact fun cls _ yf year century o tznames tzi hf htz1 htz2 hdf hyf t dflt ht hdv hwin lead ws hlead hws =>
      sentence_eu_yy cls yf year century o tznames tzi hf htz1 htz2 hdf hyf t dflt ht hdv hwin lead ws hlead hws
  · show SentenceThm "hms_letters"
    simp only [SentenceThm]
    exact fun cls _ yf year century o tznames tzi hf htz1 htz2 hdf t dflt ht hdv lead ws hlead hws =>
      sentence_hms_letters cls yf year century o tznames tzi hf htz1 htz2 hdf t dflt ht hdv lead ws hlead hws
  · show SentenceThm "hm_letters"
    simp only [SentenceThm]
    exact fun cls _ yf year century o tznames tzi hf htz1 htz2 hdf t dflt ht hdv lead ws hlead hws =>
      sentence_hm_letters cls yf year century o tznames tzi hf htz1 htz2 hdf t dflt ht hdv lead ws hlead hws
  · show SentenceThm "ampm_short"
    simp only [SentenceThm]
    exact fun cls _ yf year century o tznames tzi hf htz1 htz2 hdf t dflt ht hdv lead ws hlead hws =>
      sentence_ampm_short cls yf year century o tznames tzi hf htz1 htz2 hdf t dflt ht hdv lead ws hlead hws
  · show SentenceThm "ampm_hour"
    simp only [SentenceThm]
    exact fun cls _ yf year century o tznames tzi hf htz1 htz2 hdf t dflt ht hdv lead ws hlead hws =>
      sentence_ampm_hour cls yf year century o tznames tzi hf htz1 htz2 hdf t dflt ht hdv lead ws hlead hws
  · show SentenceThm "ampm_hour_tight"
    simp only [SentenceThm]
    exact fun cls _ yf year century o tznames tzi hf htz1 htz2 hdf t dflt ht hdv lead ws hlead hws =>
      sentence_ampm_hour_tight cls yf year century o tznames tzi hf htz1 htz2 hdf t dflt ht hdv lead ws hlead hws
  · show SentenceThm "ampm_hms_sp"
    simp only [SentenceThm]
    exact fun cls _ yf year century o tznames tzi hf htz1 htz2 hdf t dflt ht hdv lead ws hlead hws =>
      sentence_ampm_hms_sp cls yf year century o tznames tzi hf htz1 htz2 hdf t dflt ht hdv lead ws hlead hws
  · show SentenceThm "dd-Mon-Y_hm"
    simp only [SentenceThm]
    exact fun cls _ yf year century o tznames tzi hf htz1 htz2  t dflt ht hdv lead ws hlead hws =>
      sentence_dd_Mon_Y_hm cls yf year century o tznames tzi hf htz1 htz2  t dflt ht hdv lead ws hlead hws
  · show SentenceThm "d_Month_Y_hm"
    simp only [SentenceThm]
    exact fun cls _ yf year century o tznames tzi hf htz1 htz2 hyf t dflt ht hdv hy lead ws hlead hws =>
      sentence_d_Month_Y_hm cls yf year century o tznames tzi hf htz1 htz2 hyf t dflt ht hdv hy lead ws hlead hws
  · show SentenceThm "Mon_d_Y_hms"
    simp only [SentenceThm]
    exact fun cls _ yf year century o tznames tzi hf htz1 htz2  t dflt ht hdv hy lead ws hlead hws =>
      sentence_Mon_d_Y_hms cls yf year century o tznames tzi hf htz1 htz2  t dflt ht hdv hy lead ws hlead hws
  · show SentenceThm "compact_T_s"
    simp only [SentenceThm]
    exact fun cls _ yf year century o tznames tzi hf htz1 htz2 hdf t dflt ht hdv lead ws hlead hws =>
      sentence_compact_T_s cls yf year century o tznames tzi hf htz1 htz2 hdf t dflt ht hdv lead ws hlead hws
  · show SentenceThm "compact_nosep_s"
    simp only [SentenceThm]
    exact fun cls _ yf year century o tznames tzi hf htz1 htz2 hdf t dflt ht hdv lead ws hlead hws =>
      sentence_compact_nosep_s cls yf year century o tznames tzi hf htz1 htz2 hdf t dflt ht hdv lead ws hlead hws
  · show SentenceThm "compact_T_min"
    simp only [SentenceThm]
    exact fun cls _ yf year century o tznames tzi hf htz1 htz2 hdf t dflt ht hdv lead ws hlead hws =>
      sentence_compact_T_min cls yf year century o tznames tzi hf htz1 htz2 hdf t dflt ht hdv lead ws hlead hws
  · show SentenceThm "compact_nosep_min"
    simp only [SentenceThm]
    exact fun cls _ yf year century o tznames tzi hf htz1 htz2 hdf t dflt ht hdv lead ws hlead hws =>
      sentence_compact_nosep_min cls yf year century o tznames tzi hf htz1 htz2 hdf t dflt ht hdv lead ws hlead hws
  · show SentenceThm "eu_dot"
    simp only [SentenceThm]
    exact fun cls _ yf year century o tznames tzi hf htz1 htz2 hdf hyf t dflt ht hdv lead ws hlead hws =>
      sentence_eu_dot cls yf year century o tznames tzi hf htz1 htz2 hdf hyf t dflt ht hdv lead ws hlead hws
  · show SentenceThm "long_ampm"
    simp only [SentenceThm]
    exact fun cls _ yf year century o tznames tzi hf htz1 htz2  t dflt ht hdv hy lead ws hlead hws =>
      sentence_long_ampm cls yf year century o tznames tzi hf htz1 htz2  t dflt ht hdv hy lead ws hlead hws
  · show SentenceThm "iso_sp_s"
    simp only [SentenceThm]
    exact fun cls _ yf year century o tznames tzi hf htz1 htz2 hdf t dflt ht hdv lead ws hlead hws =>
      sentence_iso_sp_s cls yf year century o tznames tzi hf htz1 htz2 hdf t dflt ht hdv lead ws hlead hws
  · show SentenceThm "iso_T_s"
    simp only [SentenceThm]
    exact fun cls _ yf year century o tznames tzi hf htz1 htz2 hdf t dflt ht hdv lead ws hlead hws =>
      sentence_iso_T_s cls yf year century o tznames tzi hf htz1 htz2 hdf t dflt ht hdv lead ws hlead hws
  · show SentenceThm "iso_sp_min"
    simp only [SentenceThm]
    exact fun cls _ yf year century o tznames tzi hf htz1 htz2 hdf t dflt ht hdv lead ws hlead hws =>
      sentence_iso_sp_min cls yf year century o tznames tzi hf htz1 htz2 hdf t dflt ht hdv lead ws hlead hws
  · show SentenceThm "iso_T_min"
    simp only [SentenceThm]
    exact fun cls _ yf year century o tznames tzi hf htz1 htz2 hdf t dflt ht hdv lead ws hlead hws =>
      sentence_iso_T_min cls yf year century o tznames tzi hf htz1 htz2 hdf t dflt ht hdv lead ws hlead hws
-- END GENERATED SENTENCE INDEX

end C15
