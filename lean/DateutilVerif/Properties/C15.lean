/- C15 — placeholder, replaced below -/
import DateutilVerif.Model.Parser
namespace C15
theorem placeholder : True := trivial
end C15
