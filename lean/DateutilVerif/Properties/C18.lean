/-
  Properties/C18.lean — zone factories: one shared object per key, safely under threads; zone
  equality, copies and pickles.  (Theorems only; lemmas in Proofs/Factory*.lean.)
-/
import DateutilVerif.Model.Factory

namespace C18
open Fact

/-! ### Zone equality (the cross-type `__eq__` table with Python's NotImplemented / reflected rule) -/

theorem eqMethod_refl (z : Zone) : eqMethod z z = .t := by
  cases z <;> simp [eqMethod, Tri.ofBool, Zone.rangeP?]

/-- `z == z` for every zone, and a *distinct* object with the same recorded state (`same = false`)
is equal too: no zone falls back to identity for itself. -/
theorem eq_refl (z : Zone) (same : Bool) : pyEq z z same = true := by
  cases z <;> simp [pyEq, eqMethod, properSubclass, Tri.ofBool, Zone.rangeP?]

/-- `(a == b) = (b == a)` for all zones of the six kinds (identity is symmetric, so `same` is shared) -/
theorem eq_symm (a b : Zone) (same : Bool) : pyEq a b same = pyEq b a same := by
  cases a <;> cases b <;>
    simp [pyEq, eqMethod, properSubclass, Tri.ofBool, Zone.rangeP?] <;>
    (repeat' split) <;> simp_all [eq_comm]

example : pyEq .utc (.offset "X" 0) false = true ∧ pyEq (.offset "X" 0) .utc false = true := by decide
example : pyEq (.loc 0 0 false "UTC") .utc false = true ∧ pyEq .utc (.loc 0 0 false "UTC") false = true := by decide
example : pyEq (.file 1) .utc false = false ∧ pyEq (.file 1) (.file 1) false = true := by decide

/-- copies and unpickled zones (rebuilt from the recorded state) are equal to the original -/
theorem copy_equal (z : Zone) : pyEq (reconstruct z) z false = true ∧ pyEq z (reconstruct z) false = true := by
  simp [reconstruct, eq_refl]

/-- equal fixed-offset zones (tzutc, tzoffset, tzlocal without DST) have the same UTC offset.
Full statement `pyEq a b s → ∀ t, utcoffset a t = utcoffset b t` for tzfile / tzrange / tzstr needs the
C04/C06/C08 zone models (not in this property's files); it is checked on the implementation by the oracle. -/
theorem eq_same_offsets_fixed_partial (a b : Zone) (oa ob : Int)
    (ha : fixedOffset? a = some oa) (hb : fixedOffset? b = some ob) (h : pyEq a b false = true) : oa = ob := by
  cases a <;> cases b <;> simp_all [fixedOffset?, pyEq, eqMethod, properSubclass, Tri.ofBool] <;>
    (repeat' split at h) <;> simp_all <;> omega

end C18
