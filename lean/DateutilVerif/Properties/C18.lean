/-
  Properties/C18.lean — zone factories: one shared object per key, safely under threads; zone
  equality, copies and pickles.  (Theorems only; lemmas in Proofs/Factory*.lean.)
-/
import DateutilVerif.Model.Factory
import DateutilVerif.Proofs.FactoryLive
import DateutilVerif.Proofs.FactorySingle
import DateutilVerif.Proofs.FactoryRank
import DateutilVerif.Proofs.FactoryTerm
import DateutilVerif.Proofs.GettzResolve
import DateutilVerif.Proofs.FactorySim
import DateutilVerif.Model.Reduce

namespace C18
open Fact

/-! ### Zone equality (the cross-type `__eq__` table with Python's NotImplemented / reflected rule) -/

theorem eqMethod_refl (z : Zone) : eqMethod z z = .t := by
  cases z <;> simp [eqMethod, Tri.ofBool, Zone.rangeP?]

/-- `z == z` for every zone, and a *distinct* object with the same recorded state (`same = false`)
is equal too: no zone falls back to identity for itself. -/
theorem eq_refl (z : Zone) (same : Bool) : pyEq z z same = true := by
  cases z <;> simp [pyEq, eqMethod, properSubclass, Tri.ofBool, Zone.rangeP?]

/-- `(a == b) = (b == a)` for all zones of the six kinds (identity is symmetric, so `same` is shared) -/
theorem eq_symm (a b : Zone) (same : Bool) : pyEq a b same = pyEq b a same := by
  cases a <;> cases b <;>
    simp [pyEq, eqMethod, properSubclass, Tri.ofBool, Zone.rangeP?] <;>
    (repeat' split) <;> simp_all [eq_comm]

example : pyEq .utc (.offset "X" 0) false = true ∧ pyEq (.offset "X" 0) .utc false = true := by decide
example : pyEq (.loc 0 0 false "UTC") .utc false = true ∧ pyEq .utc (.loc 0 0 false "UTC") false = true := by decide
example : pyEq (.file 1) .utc false = false ∧ pyEq (.file 1) (.file 1) false = true := by decide

/- Copies and pickles (`copy.copy`, `copy.deepcopy`, `pickle` protocols 0..5) are NOT modelled: there is
no model of `__reduce__` / `__reduce_ex__` / copyreg here, hence no theorem about them.  That part of
the property is checked on the implementation only (oracle `zone_laws`: every zone kind, equal to the
original and identical utcoffset/dst/tzname/fromutc on a grid).  What the equality table does give is
`eq_refl … false`: a DISTINCT object whose compared attributes are equal is `==` to the original. -/

/-- equal fixed-offset zones (tzutc, tzoffset, tzlocal without DST) have the same UTC offset.
Full statement `pyEq a b s → ∀ t, utcoffset a t = utcoffset b t` for tzfile / tzrange / tzstr needs the
C04/C06/C08 zone models (not in this property's files); it is checked on the implementation by the oracle. -/
theorem eq_same_offsets_fixed_partial (a b : Zone) (oa ob : Int)
    (ha : fixedOffset? a = some oa) (hb : fixedOffset? b = some ob) (h : pyEq a b false = true) : oa = ob := by
  cases a <;> cases b <;> simp_all [fixedOffset?, pyEq, eqMethod, properSubclass, Tri.ofBool] <;>
    (repeat' split at h) <;> simp_all <;> omega


/-! ### The factories: arbitrary schedules, any number of threads, keys and scripts

`Reachable kd res (initState cap scripts) s`: `s` is reached from the empty factory of kind `kd`
(lru = tzoffset/tzstr, gettz) with ANY strong-cache size, ANY list of thread scripts, by ANY
sequence of steps — one statement of some thread, a caller dropping a reference, or the
collection of an unreferenced weak entry.  `res` (how gettz.nocache resolves each name) is arbitrary.

What is trusted about the standard library in these theorems: one read or one write of the weak
dictionary is a step (`WeakValueDictionary.setdefault` is NOT assumed atomic: it is the two steps
lSdRead / lSdWrite, and another thread may run between them), a dead entry disappears in one
step, and the lock gives mutual exclusion.  The OrderedDict is only touched under the lock
(`lock_discipline`), so nothing is assumed about the atomicity of its methods. -/

variable {kd : Kind} {res : Key → Res} {cap : Nat} {scripts : List (List Op)} {s : State}

/-- FULL STATEMENT (fails on the code, D-C18-clear): among the references callers hold, one key
has one object.  PROVED: … within one epoch (= between two `gettz.cache_clear()`s; tzoffset/tzstr
have no `cache_clear`, their epoch is always 0). -/
theorem unique_live_partial (hk : kd ≠ .single) (h : Reachable kd res (initState cap scripts) s)
    {r r' : Ref} (hr : r ∈ s.g.held) (hr' : r' ∈ s.g.held) (hkey : r.key = r'.key) (hep : r.ep = r'.ep) :
    r.id = r'.id :=
  (reachable_inv (init_inv cap scripts) h).gi.heldUniq hk r hr r' hr' hkey hep

/-- full strength for the factories that have no `cache_clear` (tzoffset, tzstr): among ALL the
references callers hold, whenever they were handed out, one key has one object -/
theorem unique_live_lru (h : Reachable .lru res (initState cap scripts) s)
    {r r' : Ref} (hr : r ∈ s.g.held) (hr' : r' ∈ s.g.held) (hkey : r.key = r'.key) : r.id = r'.id := by
  have hI := reachable_inv (init_inv (kd := .lru) (res := res) cap scripts) h
  have h0 := epoch_zero (kd := .lru) (by decide) h
  have e1 := hI.gi.heldEp r hr
  have e2 := hI.gi.heldEp r' hr'
  rw [h0] at e1 e2
  exact hI.gi.heldUniq (by decide) r hr r' hr' hkey (by omega)

/-- non-vacuity: a reachable state (two threads, one key, drops and a collection in between) in
which two references to one key are held — and they are the same id -/
example :
    let ls : List Label := [.thr 0, .thr 0, .thr 0, .thr 0, .thr 0, .thr 1, .thr 0, .thr 0, .thr 0, .thr 0, .thr 0, .thr 0,
                            .thr 1, .thr 1, .thr 1, .thr 1, .thr 1, .thr 1, .thr 1, .thr 1]
    let s := ls.foldl (fun s l => (step .lru (fun _ => .zone) s l).getD s) (initState 1 [[.call 7], [.call 7]])
    s.g.held.map (fun r => (r.key, r.id, r.owner)) = [(7, 0, 0), (7, 0, 1)] ∧ s.g.strong = [(7, 0)] := by decide

/-- the negation at the excluded class, in the model: `a = gettz(k0); cache_clear(); b = gettz(k0)`
with `a` still held gives two live ids for `k0` -/
example :
    let s := (List.replicate 3 (0 : Nat)).foldl
      (fun s _ => (runOp .gettz (fun _ => .zone) 0 100 s).getD s) (initState 8 [[.call 0, .clear, .call 0]])
    s.g.held.map (fun r => (r.key, r.id, r.ep)) = [(0, 0, 0), (0, 1, 1)] := by decide

/-- identity while referenced: when a call for `th.key` is about to hand out its result `i`
(the `with` exit after the LRU touch), every reference to that key a caller still holds from this
epoch is to the very same object -/
theorem identity_while_referenced (hk : kd ≠ .single) (h : Reachable kd res (initState cap scripts) s)
    {t : Tid} {th : Thread} (hth : s.ths[t]? = some th) (hpc : th.pc = .xRel)
    {r : Ref} (hr : r ∈ s.g.held) (hkey : r.key = th.key) (hep : r.ep = s.g.epoch) :
    th.inst = some r.id := by
  have hI := reachable_inv (init_inv (kd := kd) (res := res) cap scripts) h
  have hp := (hI.ti t th hth).pc
  simp only [pcInv, hpc] at hp
  obtain ⟨⟨i, hi, hw⟩, _⟩ := hp
  have := hI.gi.heldWeak hk r hr hep
  rw [hkey, hw] at this
  cases this
  exact hi

/-- nothing half-built is ever visible: an id is in the weak map only after its construction finished -/
theorem no_half_built (h : Reachable kd res (initState cap scripts) s) {k : Key} {i : Id}
    (hw : s.g.weak k = some i) : i ∈ s.g.inited :=
  (reachable_inv (init_inv cap scripts) h).gi.weakInited k i hw

/-- FULL STATEMENT (false on the code for two classes of gettz names, see `shared_constructor`):
`instance` / `nocache` always return a new object.
PROVED: they never touch the weak map, the strong cache, its size, the lock, callers' references,
the epoch or the singleton slot — for every key; and for every key that does not resolve to a
shared object (all tzoffset / tzstr keys; gettz names resolving to a file, a TZ string, tzlocal)
the object they build is new: its id is none of the ids in the weak map, the strong cache, callers'
hands, or any thread's local variables. -/
theorem fresh_constructors_partial (h : Reachable kd res (initState cap scripts) s)
    {t : Tid} {th th' : Thread} {g' : Glob} (hth : s.ths[t]? = some th)
    (hpc : th.pc = .fAlloc ∨ th.pc = .fInit ∨ th.pc = .fRet) (hs : tstep kd res t s.g th = some (g', th')) :
    (g'.weak = s.g.weak ∧ g'.strong = s.g.strong ∧ g'.cap = s.g.cap ∧ g'.lock = s.g.lock ∧
      g'.held = s.g.held ∧ g'.epoch = s.g.epoch ∧ g'.single = s.g.single) ∧
    (th.pc = .fAlloc → (kd = .gettz → (res th.key).slot? = none) → ∀ i, th'.tmp = some i →
      (∀ k, s.g.weak k ≠ some i) ∧ (∀ e ∈ s.g.strong, e.2 ≠ i) ∧ (∀ r ∈ s.g.held, r.id ≠ i) ∧
      (∀ (t2 : Tid) (th2 : Thread), s.ths[t2]? = some th2 → th2.inst ≠ some i ∧ th2.tmp ≠ some i ∧ th2.seen ≠ some i)) := by
  have hI := reachable_inv (init_inv (kd := kd) (res := res) cap scripts) h
  refine ⟨fresh_frame hpc hs, ?_⟩
  intro hA hns i hi
  rcases fresh_alloc hA hns hs with h0 | h0
  · rw [h0] at hi; cases hi
  · rw [h0] at hi; cases hi
    refine ⟨?_, ?_, ?_, ?_⟩
    · intro k hk; exact Nat.lt_irrefl _ (hI.gi.weakLt k _ hk)
    · intro e he hk; have := hI.gi.strongLt e he; rw [hk] at this; exact Nat.lt_irrefl _ this
    · intro r hr hk; have := hI.gi.heldLt r hr; rw [hk] at this; exact Nat.lt_irrefl _ this
    · intro t2 th2 h2
      exact ⟨fun hk => Nat.lt_irrefl _ ((hI.ti t2 th2 h2).instLt _ hk),
             fun hk => Nat.lt_irrefl _ ((hI.ti t2 th2 h2).tmpLt _ hk),
             fun hk => Nat.lt_irrefl _ ((hI.ti t2 th2 h2).seenLt _ hk)⟩

/-- the excluded classes, stated positively: for a gettz name that resolves to an existing shared
object — slot 0 = the module constant `tz.UTC` (`GMT` / `UTC` without a file: tzutc() IS one object by
the property itself), the other slots = the entries of the vendored ZoneInfoFile — `nocache` returns
that very object (the same for every name of the slot, e.g. `nocache('UTC') is nocache('GMT')`) and
changes nothing; the shared object is constructed and immortal (a GC root) -/
theorem shared_constructor (h : Reachable .gettz res (initState cap scripts) s)
    {t : Tid} {th th' : Thread} {g' : Glob} {sl : Nat} {i : Id} (hpc : th.pc = .fAlloc)
    (hsl : res th.key = .shared sl) (hl : s.g.shared.lookup sl = some i)
    (hs : tstep .gettz res t s.g th = some (g', th')) :
    th'.tmp = some i ∧ g' = s.g ∧ i ∈ s.g.inited := by
  have hI := reachable_inv (init_inv (kd := .gettz) (res := res) cap scripts) h
  obtain ⟨h1, _, h3⟩ := shared_alloc hpc hsl hl hs
  exact ⟨h1, h3, hI.gi.sharedInited _ (lookup_mem hl)⟩

/-- in the model: `nocache('UTC')`, then `nocache('GMT')` (both slot 0) return the same id; `nocache`
of a file name returns a new one each time -/
example :
    let res : Key → Res := fun k => if k < 2 then .shared 0 else .zone
    let s := (List.replicate 4 (0 : Nat)).foldl (fun s _ => (runOp .gettz res 0 100 s).getD s)
              (initState 8 [[.fresh 0, .fresh 1, .fresh 2, .fresh 2]])
    s.g.log.map (fun e => e.val) = [some 0, some 0, some 1, some 2] := by decide

/-- `set_cache_size` only affects retention: every statement of it leaves the weak map, callers'
references, the epoch and the set of objects unchanged (it changes the strong cache, its size, the lock) -/
theorem set_size_only_retention {t : Tid} {g g' : Glob} {th th' : Thread}
    (hpc : th.pc = .sAcq ∨ th.pc = .sSet ∨ th.pc = .sLoop ∨ th.pc = .sPop ∨ th.pc = .sRel)
    (hs : tstep kd res t g th = some (g', th')) :
    g'.weak = g.weak ∧ g'.held = g.held ∧ g'.epoch = g.epoch ∧ g'.single = g.single ∧ g'.next = g.next ∧
    g'.inited = g.inited := setsize_frame hpc hs

/-- FULL STATEMENT (fails on the code, D-C18-clear): `cache_clear` leaves the weak map unchanged.
PROVED: it keeps every reference callers hold, creates and destroys no object and keeps the cache
size; every statement of it other than `self.__instances = WeakValueDictionary()` keeps the weak
map and the epoch. -/
theorem clear_only_retention_partial {t : Tid} {g g' : Glob} {th th' : Thread}
    (hpc : th.pc = .cAcq ∨ th.pc = .cWeak ∨ th.pc = .cStrong ∨ th.pc = .cRel)
    (hs : tstep kd res t g th = some (g', th')) :
    g'.held = g.held ∧ g'.single = g.single ∧ g'.next = g.next ∧ g'.inited = g.inited ∧ g'.cap = g.cap ∧
    (th.pc ≠ .cWeak → g'.weak = g.weak ∧ g'.epoch = g.epoch) := clear_frame hpc hs

/-- the strong cache never exceeds its size while the lock is free (inside the critical section
it is at most one over, between the insertion and the eviction — `pcInv` at xLen / xEvict) -/
theorem strong_within_capacity (h : Reachable kd res (initState cap scripts) s) (hl : s.g.lock = none) :
    s.g.strong.length ≤ s.g.cap :=
  (reachable_inv (init_inv cap scripts) h).gi.lenFree hl

/-- retention is of the right object: whenever the lock is free, every entry `(k, i)` of the strong
cache is the live object of its key — `weak k = some i` — so the next request for `k` finds `i`
even if no caller references it any more (the strong reference also keeps the GC step away from it) -/
theorem strong_retains (h : Reachable kd res (initState cap scripts) s) (hl : s.g.lock = none) :
    ∀ e ∈ s.g.strong, s.g.weak e.1 = some e.2 :=
  (reachable_inv (init_inv cap scripts) h).swFree hl

/-- lock discipline: the lock is held exactly by a thread that is inside a `with` block
(acquire / release balanced on every path); in particular nobody holds it once all have finished -/
theorem lock_discipline (h : Reachable kd res (initState cap scripts) s) :
    (∀ t th, s.ths[t]? = some th → (inLocked th.pc = true ↔ s.g.lock = some t)) ∧
    (∀ t, s.g.lock = some t → ∃ th, s.ths[t]? = some th ∧ inLocked th.pc = true) := by
  have hI := reachable_inv (init_inv (kd := kd) (res := res) cap scripts) h
  refine ⟨fun t th hth => (hI.ti t th hth).lockIff, ?_⟩
  intro t hl
  have hlt := hI.owner t hl
  refine ⟨s.ths[t], by simp [hlt], ?_⟩
  exact ((hI.ti t s.ths[t] (by simp [hlt])).lockIff).mpr hl

/-- no statement of the model gets stuck: in every reachable state, every thread that has not finished
its script can execute its next statement, unless that statement is a lock acquisition and the lock
is taken.  In the model a statement whose Python original would raise an exception the code does not
expect (`popitem` on an empty OrderedDict: KeyError; a local that must be bound being None) is a
DISABLED step, so this is the audited form of "no modelled statement raises"; the exceptions the code
does let through — a constructor raising under the lock (`Res.raises`) — are ordinary steps
(`exception_releases_lock`). -/
theorem no_raising_statement (h : Reachable kd res (initState cap scripts) s)
    {t : Tid} {th : Thread} (hth : s.ths[t]? = some th) (hf : th.finished = false) :
    (isAcq th.pc = true ∧ s.g.lock ≠ none) ∨ (tstep kd res t s.g th).isSome = true :=
  tstep_enabled ((reachable_inv (init_inv (kd := kd) (res := res) cap scripts) h).ti t th hth) hf

/-- exceptional exit of the critical section: when the constructor raises under the lock
(`tzoffset('A', 'x')`, `tzstr('1')`, `gettz(b'x')`), the next statement of that thread is the `with`
exit: it releases the lock, records the exception as the outcome of the call, touches neither map
nor callers' references, and the thread is back at the top of its script — so `lock_discipline`,
`no_deadlock` and `always_returns` cover the raising paths too -/
theorem exception_releases_lock {t : Tid} {g g' : Glob} {th th' : Thread} (hpc : th.pc = .xRelX)
    (hs : tstep kd res t g th = some (g', th')) :
    g'.lock = none ∧ th'.pc = .idle ∧ g'.weak = g.weak ∧ g'.strong = g.strong ∧ g'.held = g.held ∧
    g'.log = g.log ++ [{ tid := t, key := th.key, val := none, cached := false, exc := true }] := by
  simp only [tstep, hpc, Option.some.injEq, Prod.mk.injEq] at hs
  obtain ⟨rfl, rfl⟩ := hs
  simp

/-- in the model: thread 0's constructor raises under the lock while thread 1 waits; thread 1 then
gets the lock and its call returns -/
example :
    let res : Key → Res := fun k => if k = 0 then .raises else .zone
    let sched : List Tid := [0, 0, 0, 0, 0, 1, 1, 0, 1, 1, 1, 1, 1, 1, 1, 1, 1, 1, 1]
    let s := sched.foldl (fun s t => (step .lru res s (.thr t)).getD s) (initState 8 [[.call 0], [.call 1]])
    s.g.log.map (fun e => (e.tid, e.exc, e.val)) = [(0, true, none), (1, false, some 0)] ∧ s.g.lock = none := by decide

/-- no deadlock: in every reachable state either every thread has finished its script or some
thread can execute its next statement -/
theorem no_deadlock (h : Reachable kd res (initState cap scripts) s) :
    (∀ th ∈ s.ths, th.finished = true) ∨ ∃ t, (step kd res s (.thr t)).isSome = true := by
  have hI := reachable_inv (init_inv (kd := kd) (res := res) cap scripts) h
  by_cases hall : ∀ th ∈ s.ths, th.finished = true
  · exact .inl hall
  · right
    have hall' : ∃ th, th ∈ s.ths ∧ th.finished ≠ true := by
      apply Classical.byContradiction
      intro hc
      apply hall
      intro th hm
      apply Classical.byContradiction
      intro hf
      exact hc ⟨th, hm, hf⟩
    obtain ⟨th, hm, hf⟩ := hall'
    obtain ⟨t, hlt, rfl⟩ := List.getElem_of_mem hm
    have hth : s.ths[t]? = some s.ths[t] := by simp [hlt]
    have run : ∀ t2 th2, s.ths[t2]? = some th2 → (tstep kd res t2 s.g th2).isSome = true →
        (step kd res s (.thr t2)).isSome = true := by
      intro t2 th2 h2 hsome
      simp only [step, h2]
      cases hts : tstep kd res t2 s.g th2 with
      | none => rw [hts] at hsome; cases hsome
      | some p => simp
    rcases tstep_enabled (hI.ti t _ hth) (by simpa using hf) with ⟨_, hlk⟩ | hen
    · -- blocked on the lock: its holder is inside a critical section and can move
      cases hl : s.g.lock with
      | none => exact absurd hl hlk
      | some t2 =>
        have hlt2 := hI.owner t2 hl
        have h2 : s.ths[t2]? = some s.ths[t2] := by simp [hlt2]
        have hT2 := hI.ti t2 _ h2
        have hin : inLocked (s.ths[t2]).pc = true := hT2.lockIff.mpr hl
        have hnf : (s.ths[t2]).finished = false := by
          cases hp : (s.ths[t2]).pc <;> simp_all [inLocked, Thread.finished]
        rcases tstep_enabled hT2 hnf with ⟨ha, _⟩ | hen2
        · cases hp : (s.ths[t2]).pc <;> simp_all [inLocked, isAcq]
        · exact ⟨t2, run t2 _ h2 hen2⟩
    · exact ⟨t, run t _ hth hen⟩


/-- every call returns, under ANY schedule: from a reachable state, any continuation (thread
statements, reference drops and collections in any order, every label enabled when chosen) executes
at most `measure s` thread statements (`measure` = 2·|strong cache| + Σ over threads of a pc rank
plus a fixed cost per remaining script operation) — so a scheduler that keeps choosing enabled
threads must stop — and when it stops because no thread is enabled, every thread has finished its
script, i.e. every call has returned (no thread is left waiting for the lock or stuck at a statement
that would raise). -/
theorem always_returns (h : Reachable kd res (initState cap scripts) s) {ls : List Label} {s' : State}
    (hrun : runLabels kd res s ls = some s') :
    (ls.filter isThr).length ≤ measure s ∧
    ((∀ t, step kd res s' (.thr t) = none) → ∀ th ∈ s'.ths, th.finished = true) := by
  refine ⟨by have := run_bounded hrun; omega, ?_⟩
  intro hnone
  rcases no_deadlock (run_reachable h hrun) with hall | ⟨t, ht⟩
  · exact hall
  · rw [hnone t] at ht; cases ht

/-- each thread statement strictly decreases the measure (the lemma behind `always_returns`), and the
per-call variant `rank` decreases with every statement of that call and is untouched by other
threads while the call holds the lock (so a critical section lasts at most `rank` steps of its owner) -/
theorem variant_decreases :
    (∀ {s s' : State} {t : Tid}, step kd res s (.thr t) = some s' → measure s' < measure s) ∧
    (∀ (t : Tid) (g g' : Glob) (th th' : Thread), th.pc ≠ .idle → tstep kd res t g th = some (g', th') →
        rank g' th' < rank g th) ∧
    (∀ {s s' : State} {t t' : Tid} {th2 : Thread}, Reachable kd res (initState cap scripts) s →
        step kd res s (.thr t) = some s' → t ≠ t' → s.g.lock = some t' → rank s'.g th2 = rank s.g th2) := by
  refine ⟨fun h => step_thr_decreases h, fun t g g' th th' hpc h => rank_decreases hpc h, ?_⟩
  intro s s' t t' th2 hr hs hne hl
  have hI := reachable_inv (init_inv (kd := kd) (res := res) cap scripts) hr
  simp only [step] at hs
  split at hs
  · cases hs
  · rename_i th hth
    split at hs
    · cases hs
    · rename_i g' th' hstep
      cases hs
      exact rank_stable hne hl (tstep_guar (hI.ti t th hth) hstep)

example : measure (initState 8 [[.call 0, .setSize 2], [.call 0, .clear]]) = 45 := by decide

example : rank { strong := [(0, 0), (1, 1)] } { pc := .sLoop } = 7 := by decide

/-! ### The state machine is what the source says

`harness/translate_factory.py` translates, on every run, the bodies of `_TzSingleton.__call__`,
`_TzFactory.instance`, `_TzOffsetFactory.__call__`, `_TzStrFactory.__call__`, `GettzFunc.__call__`,
`GettzFunc.set_cache_size` and `GettzFunc.cache_clear` from /repo's working tree into the statement IR of
Model/FactoryIR.lean (Generated/FactoryPrograms.lean).  `stepIR` flattens a program into instructions with
program counters and executes the instruction at the thread's pc. -/

/-- for the GENERATED programs (tzoffset and tzstr flavours), interpreting the translated source is the
hand-written `tstep`, at every pc, for every factory kind, on every state — so every theorem above, stated
about `tstep` / `step` / `Reachable`, is a theorem about what the source says now.  An edit of a translated
method makes the translation fail (`Untranslatable`) or makes this theorem (or the `code_*` layout lemmas it
uses internally) fail to check. -/
theorem program_sim (kd : Kind) (res : Key → Res) (t : Tid) (g : Glob) (th : Thread) :
    IR.stepIR Gen.offsetPrograms kd res t g th = tstep kd res t g th ∧
    IR.stepIR Gen.strPrograms kd res t g th = tstep kd res t g th :=
  ⟨IR.program_sim_offset kd res t g th, IR.program_sim_str kd res t g th⟩

/-- the same for the whole machine (thread statements, drops, collections) -/
theorem program_sim_machine (kd : Kind) (res : Key → Res) (s : State) (l : Label) :
    IR.stepState Gen.offsetPrograms kd res s l = step kd res s l ∧
    IR.stepState Gen.strPrograms kd res s l = step kd res s l :=
  ⟨IR.stepState_offset kd res s l, IR.stepState_str kd res s l⟩

/-- the reachable states of the machine that runs the translated programs are exactly the `Reachable`
states the theorems quantify over -/
theorem reachable_translated {s0 : State} :
    (IR.ReachableIR Gen.offsetPrograms kd res s0 s ↔ Reachable kd res s0 s) ∧
    (IR.ReachableIR Gen.strPrograms kd res s0 s ↔ Reachable kd res s0 s) :=
  ⟨IR.reachableIR_offset, IR.reachableIR_str⟩

/-- the headline property restated directly over the translated source: in every state the tzstr (resp.
tzoffset) factory, as its source reads now, can reach — any threads, scripts, schedule, drops, collections —
one key has one object among all the references callers hold -/
theorem unique_live_lru_source
    (h : IR.ReachableIR Gen.strPrograms .lru res (initState cap scripts) s ∨
         IR.ReachableIR Gen.offsetPrograms .lru res (initState cap scripts) s)
    {r r' : Ref} (hr : r ∈ s.g.held) (hr' : r' ∈ s.g.held) (hkey : r.key = r'.key) : r.id = r'.id := by
  rcases h with h | h
  · exact unique_live_lru (IR.reachableIR_str.mp h) hr hr' hkey
  · exact unique_live_lru (IR.reachableIR_offset.mp h) hr hr' hkey

/-- non-vacuity: the generated tzoffset program has 14 instructions, its 4th constructs the object and
jumps to the exceptional `with` exit (index 13) if the constructor raises -/
example : (IR.code Gen.offsetPrograms .lruCall).length = 14 ∧
    (IR.code Gen.offsetPrograms .lruCall)[3]? = some ⟨.alloc, 4, 13⟩ := by decide

/-! ### tzutc(): `_TzSingleton.__call__` -/

/-- FULL STATEMENT (fails for a `_TzSingleton` class whose slot is still empty when threads start:
the unlocked test-then-store can build two objects — see the example below): every `tzutc()` returns
one object.  PROVED for the initial state tz.py creates: `UTC = tzutc()` runs while the module is
imported (the oracle checks `tzutc._TzSingleton__instance is tz.UTC`), after which, for arbitrary
schedules / threads / scripts, the slot never changes and every reference handed out is that object. -/
theorem singleton_unique_partial {scripts : List (List Op)} {s : State}
    (h : Reachable .single res (initSingleton scripts) s) :
    s.g.single = some 0 ∧ ∀ r ∈ s.g.held, r.id = 0 :=
  ⟨(sinv_reachable h).slot, (sinv_reachable h).held⟩

/-- the latent race of an un-initialised `_TzSingleton` class at statement granularity: both threads
pass `if cls.__instance is None`, thread 0 stores and returns object 0, thread 1 stores and returns object 1 -/
example :
    let sched : List Tid := [0, 0, 1, 1, 0, 0, 0, 0, 1, 1, 1, 1]
    let s := sched.foldl (fun s t => (step .single (fun _ => .zone) s (.thr t)).getD s)
              (initState 8 [[.call 0], [.call 0]])
    s.g.held.map (fun r => r.id) = [0, 1] := by decide

example : (initSingleton [[.call 0], [.call 0]]).ths.length = 2 := by decide

/-! ### Name resolution order of `gettz` (`GettzFunc.nocache`), for every environment

`Gettz.resolve e name` mirrors `nocache` statement by statement over an abstract environment `e`
(TZ variable, TZFILES, TZPATHS, `os.path.isfile`, the outcome of `tzfile(path)`, `time.tzname`, the
vendored database, whether `tzstr` accepts a string).  The theorems state the decision logic outright. -/

section Resolve
open Gettz

variable {e : Env}

/-- (definitional: an unfolding of `Gettz.resolve`; a readable restatement of the model, tied to the code
by `gettz.resolve`, not a deep fact) no name, `''` or `':'` (after `TZ` has been substituted for a missing / empty name): the local
zone — the unnamed loop over TZFILES; neither TZ strings, nor the vendored database, nor the
search for a key are consulted -/
theorem resolve_unnamed {name : Option String}
    (h : effectiveName e name = none ∨ effectiveName e name = some "" ∨ effectiveName e name = some ":") :
    resolve e name = localLoop e e.tzfiles := by
  rcases h with h | h | h <;> simp [resolve, h]

/-- (definitional: an unfolding of `Gettz.resolve`; a readable restatement of the model, tied to the code
by `gettz.resolve`, not a deep fact) `gettz()` / `gettz('')` read the TZ variable first: with `TZ` set to a non-empty value other
than `:` they resolve exactly like `gettz(TZ)` -/
theorem resolve_uses_TZ {v : String} (hv : e.tzVar = some v) (h1 : v ≠ "") :
    resolve e none = resolve e (some v) ∧ resolve e (some "") = resolve e (some v) := by
  have hne : v.isEmpty = false := by
    cases hb : v.isEmpty
    · rfl
    · exact absurd (by simpa using hb) h1
  constructor <;> simp [resolve, effectiveName, hv, hne]

/-- the local zone is the first TZFILES entry that exists and loads; entries standing for no
existing file, or for a file tzfile rejects with IOError/OSError/ValueError, are passed over -/
theorem resolve_local_first_wins {pre post : List String} {fp p : String}
    (hpre : ∀ q ∈ pre, LocalSkip e q) (hc : localCand e fp = some p) (hf : e.isfile p = true)
    (hl : e.load p = .ok) : localLoop e (pre ++ fp :: post) = .ok (.file p) :=
  localLoop_first_wins hpre hc hf hl

/-- … and when no entry does: `tzlocal()` — the unnamed branch never yields `None`, a TZ string,
the UTC constant or a vendored zone -/
theorem resolve_local_fallback {l : List String} (h : ∀ q ∈ l, LocalSkip e q) : localLoop e l = .ok .localZone :=
  localLoop_all_skipped h

theorem resolve_local_results {l : List String} {r : Resolution} (h : localLoop e l = .ok r) :
    r = .localZone ∨ ∃ p, r = .file p ∧ e.isfile p = true ∧ e.load p = .ok :=
  localLoop_ok_cases h

/-- (definitional: an unfolding of `Gettz.resolve`; a readable restatement of the model, tied to the code
by `gettz.resolve`, not a deep fact) a named request (anything else; one leading `:` is dropped) -/
theorem resolve_named {name : Option String} {s : String} (h : effectiveName e name = some s)
    (h1 : s ≠ "") (h2 : s ≠ ":") : resolve e name = resolveNamed e s := by
  simp [resolve, h, h1, h2]

/-- (definitional: an unfolding of `Gettz.resolve`; a readable restatement of the model, tied to the code
by `gettz.resolve`, not a deep fact) an absolute path is only ever that file: a loadable file gives `tzfile(path)`, anything that
is not a regular file gives `None` — TZPATHS, the vendored database, TZ strings and tzname are not consulted -/
theorem resolve_absolute {s : String} (ha : isabs (stripColon s) = true) :
    (e.isfile (stripColon s) = true → e.load (stripColon s) = .ok → resolveNamed e s = .ok (.file (stripColon s))) ∧
    (e.isfile (stripColon s) = false → resolveNamed e s = .ok .none) := by
  constructor
  · intro hf hl; simp [resolveNamed, ha, hf, hl]
  · intro hf; simp [resolveNamed, ha, hf]

/-- search-path priority: the first TZPATHS entry whose candidate (`join(path, name)`, or its
spelling with `_` for spaces when that does not exist) loads wins — over every later entry, the
vendored database, the TZ-string reading, the GMT/UTC constants and tzname; earlier entries that
offer nothing, or only a file tzfile rejects with a handled exception, are passed over -/
theorem resolve_search_path_wins {s p c : String} {pre post : List String}
    (hrel : isabs (stripColon s) = false) (hpaths : e.tzpaths = pre ++ p :: post)
    (hpre : ∀ q ∈ pre, SearchSkip e (stripColon s) q)
    (hc : candidate e p (stripColon s) = some c) (hl : e.load c = .ok) :
    resolveNamed e s = .ok (.file c) := by
  simp [resolveNamed, hrel, hpaths, searchLoop_first_wins hpre hc hl]

/-- (definitional: an unfolding of `Gettz.resolve`; a readable restatement of the model, tied to the code
by `gettz.resolve`, not a deep fact) (definitional: an unfolding of `Gettz.resolve`; a readable restatement of the model, tied to the code
by `gettz.resolve`, not a deep fact) the candidate of a search directory: the joined path when it is a file, else its underscore spelling -/
theorem candidate_direct {path name : String} (h : e.isfile (join path name) = true) :
    candidate e path name = some (join path name) := by simp [candidate, h]

theorem candidate_underscore {path name : String} (h : e.isfile (join path name) = false)
    (h2 : e.isfile (underscore (join path name)) = true) :
    candidate e path name = some (underscore (join path name)) := by simp [candidate, h, h2]

/-- (definitional: an unfolding of `Gettz.resolve`; a readable restatement of the model, tied to the code
by `gettz.resolve`, not a deep fact) when no search directory yields a loadable file, the fall-back chain decides -/
theorem resolve_fallthrough {s : String} (hrel : isabs (stripColon s) = false)
    (hall : ∀ q ∈ e.tzpaths, SearchSkip e (stripColon s) q) :
    resolveNamed e s = .ok (fallback e (stripColon s)) := by
  simp [resolveNamed, hrel, searchLoop_all_skipped hall]

/-- (definitional: an unfolding of `Gettz.resolve`; a readable restatement of the model, tied to the code
by `gettz.resolve`, not a deep fact) the fall-back chain, in order: vendored database; else, for a name containing an ASCII digit,
`tzstr` if it parses and `None` if it raises ValueError (never GMT/UTC/tzname); else the constant
UTC for `GMT` / `UTC`; else `tzlocal()` for a name in `time.tzname`; else `None` -/
theorem fallback_order (n : String) :
    (e.vendored n = true → fallback e n = .vendored n) ∧
    (e.vendored n = false → hasDigit n = true → e.tzstrOk n = true → fallback e n = .tzstr n) ∧
    (e.vendored n = false → hasDigit n = true → e.tzstrOk n = false → fallback e n = .none) ∧
    (e.vendored n = false → hasDigit n = false → (n = "GMT" ∨ n = "UTC") → fallback e n = .utc) ∧
    (e.vendored n = false → hasDigit n = false → n ≠ "GMT" → n ≠ "UTC" → n ∈ e.tzname → fallback e n = .localZone) ∧
    (e.vendored n = false → hasDigit n = false → n ≠ "GMT" → n ≠ "UTC" → n ∉ e.tzname → fallback e n = .none) := by
  refine ⟨?_, ?_, ?_, ?_, ?_, ?_⟩ <;> intros <;> simp_all [fallback]

/-- a name with a digit that is no loadable file under any search directory, is not in the vendored
database and parses as a TZ string gives `tzstr(name)` -/
theorem resolve_tzstr {name : Option String} {s : String} (h : effectiveName e name = some s)
    (h1 : s ≠ "") (h2 : s ≠ ":") (hrel : isabs (stripColon s) = false)
    (hall : ∀ q ∈ e.tzpaths, SearchSkip e (stripColon s) q) (hv : e.vendored (stripColon s) = false)
    (hd : hasDigit (stripColon s) = true) (hok : e.tzstrOk (stripColon s) = true) :
    resolve e name = .ok (.tzstr (stripColon s)) := by
  rw [resolve_named h h1 h2, resolve_fallthrough hrel hall, (fallback_order (stripColon s)).2.1 hv hd hok]

/-- `GMT` / `UTC` without a loadable file of that name and without a vendored entry give the constant `tz.UTC` -/
theorem resolve_utc_constant {name : Option String} {s : String} (h : effectiveName e name = some s)
    (h1 : s ≠ "") (h2 : s ≠ ":") (hn : stripColon s = "GMT" ∨ stripColon s = "UTC")
    (hall : ∀ q ∈ e.tzpaths, SearchSkip e (stripColon s) q) (hv : e.vendored (stripColon s) = false) :
    resolve e name = .ok .utc := by
  have hrel : isabs (stripColon s) = false := by rcases hn with hn | hn <;> rw [hn] <;> decide
  have hd : hasDigit (stripColon s) = false := by rcases hn with hn | hn <;> rw [hn] <;> decide
  rw [resolve_named h h1 h2, resolve_fallthrough hrel hall, (fallback_order (stripColon s)).2.2.2.1 hv hd hn]

/-- what yields `None`: an absolute path that is not a file; or a relative name found (loadable)
under no search directory, not vendored, and either containing a digit but not a valid TZ string,
or containing none and being neither GMT/UTC nor in `time.tzname` -/
theorem resolve_none_iff {s : String} (h : ∃ r, resolveNamed e s = .ok r) :
    resolveNamed e s = .ok .none ↔
      (isabs (stripColon s) = true ∧ e.isfile (stripColon s) = false) ∨
      (isabs (stripColon s) = false ∧ searchLoop e (stripColon s) e.tzpaths = .ok none ∧
        fallback e (stripColon s) = .none) := by
  obtain ⟨r, hr⟩ := h
  simp only [resolveNamed] at hr ⊢
  cases ha : isabs (stripColon s) <;> simp only [ha, if_true, if_false, Bool.false_eq_true] at hr ⊢
  · cases hs : searchLoop e (stripColon s) e.tzpaths with
    | error err => simp [hs] at hr
    | ok o => cases o <;> simp
  · cases hf : e.isfile (stripColon s) <;> simp only [hf, if_true, if_false, Bool.false_eq_true] at hr ⊢
    · simp
    · cases hl : e.load (stripColon s) <;> simp

/-- when `nocache` raises for a `str` name.  (The property does not demand that gettz never raises on an
unreadable file, so this is a description of the code, not a finding; the statement "never raises for
any name" is false on the code: `gettz('/etc/hostname')` raises ValueError.)
PROVED: it raises only in two situations, both about an unreadable FILE, never about the name:
(1) some file handed to `tzfile` raises `struct.error` (TZif magic but truncated / corrupt data: not
in the handler list `(IOError, OSError, ValueError)`), or (2) the name is an absolute path to an
existing file that `tzfile` rejects (that call site has no handler at all).  In every other
environment, for every name — empty, `:`-prefixed, with spaces, `..`, of any length — a result comes back. -/
theorem resolve_raises_only_on_unreadable_file (name : Option String)
    (hS : ∀ p, e.load p ≠ .structError)
    (hA : ∀ s, effectiveName e name = some s → isabs (stripColon s) = true → e.isfile (stripColon s) = true →
            e.load (stripColon s) = .ok) :
    ∃ r, resolve e name = .ok r := by
  have hloc : ∃ r, localLoop e e.tzfiles = .ok r := by
    cases h : localLoop e e.tzfiles with
    | ok r => exact ⟨r, rfl⟩
    | error err => obtain ⟨_, p, _, hp⟩ := localLoop_error h; exact absurd hp (hS p)
  simp only [resolve]
  cases hn : effectiveName e name with
  | none => exact hloc
  | some s =>
    simp only []
    split
    · exact hloc
    · simp only [resolveNamed]
      cases ha : isabs (stripColon s)
      · simp only [Bool.false_eq_true, if_false]
        cases hs : searchLoop e (stripColon s) e.tzpaths with
        | error err => obtain ⟨_, c, _, hc⟩ := searchLoop_error hs; exact absurd hc (hS c)
        | ok o => cases o <;> exact ⟨_, rfl⟩
      · simp only [if_true]
        cases hf : e.isfile (stripColon s)
        · refine ⟨.none, ?_⟩; simp
        · simp only [if_true, hA s hn ha hf]; exact ⟨_, rfl⟩

/-- the two excluded classes, in the model: an absolute path to a non-TZif file raises ValueError,
and a truncated TZif file found on the search path raises struct.error through the handlers -/
example :
    let e : Env := { tzVar := none, tzfiles := [], tzpaths := ["/zi"], isfile := fun p => p == "/etc/hostname" || p == "/zi/Cut",
                     load := fun p => if p == "/zi/Cut" then .structError else .valueError,
                     tzname := [], vendored := fun _ => false, tzstrOk := fun _ => false }
    resolve e (some "/etc/hostname") = .error .valueError ∧ resolve e (some "Cut") = .error .structError := by decide

/-- non-vacuity of the priority theorems: `Europe/Paris` under the second directory, the first
offering only a non-TZif file; `New York` found as `New_York`; `UTC+3` falling through to tzstr;
`UTC` without a file giving the constant; `TZ=XYZ3QRS` making `XYZ` local; an unknown name `None` -/
example :
    let e : Env := { tzVar := some "Europe/Paris", tzfiles := ["/etc/localtime"], tzpaths := ["/a", "/b"],
                     isfile := fun p => p == "/a/Europe/Paris" || p == "/b/Europe/Paris" || p == "/b/New_York",
                     load := fun p => if p == "/a/Europe/Paris" then .valueError else .ok,
                     tzname := ["XYZ", "QRS"], vendored := fun n => n == "Vend", tzstrOk := fun s => s == "UTC+3" }
    resolve e none = .ok (.file "/b/Europe/Paris") ∧ resolve e (some "New York") = .ok (.file "/b/New_York") ∧
    resolve e (some "UTC+3") = .ok (.tzstr "UTC+3") ∧ resolve e (some "UTC") = .ok .utc ∧
    resolve e (some "XYZ") = .ok .localZone ∧ resolve e (some "Nowhere") = .ok .none ∧
    resolve e (some "A1") = .ok .none ∧ resolve e (some "Vend") = .ok (.vendored "Vend") ∧
    resolve e (some ":") = .ok .localZone := by decide

/-- (definitional: an unfolding of `Gettz.resolve`; a readable restatement of the model, tied to the code
by `gettz.resolve`, not a deep fact) link to the factory model: `GettzFunc.__call__` stores a result in its maps exactly when a name was
given and the resolution is neither `None` nor a tzlocal (class 0 = `Res.zone` of Model/Factory.lean,
1 = `Res.uncached`, 2 = `Res.none`; the factory theorems hold for every assignment of classes to keys) -/
theorem gettz_caches_exactly (name : Option String) (r : Resolution) :
    (cacheClass name r = 0 ↔ name ≠ none ∧ r ≠ .none ∧ r ≠ .localZone) ∧
    (cacheClass name r = 2 ↔ r = .none) := by
  cases r <;> cases name <;> simp [cacheClass]

end Resolve


/-! ### copies and pickles (Model/Reduce.lean) -/
section ReduceModel
open Reduce

/-- **reduce_roundtrip_dict.** What pickle (any protocol 0..5), copy.copy and copy.deepcopy rebuild has, for EVERY attribute
    name, the value the original has: the state travels whole (`__dict__`), nothing is re-derived from the environment
    (no `__init__`, no factory call) except `tzfile._filename`, which the state then overrides with the same value. -/
theorem reduce_roundtrip_dict (p : Nat) (o : Obj) (r : Reduced) (h : reduce p o = some r) (k : String) :
    lookup k (rebuild r).dict = lookup k o.dict := by
  unfold reduce at h
  cases hc : o.cls <;> simp only [hc] at h
  case tzfile =>
    cases hf : lookup "_filename" o.dict with
    | none => simp [hf] at h
    | some fn =>
        simp only [hf, Option.map_some, Option.some.injEq] at h
        subst h
        simp only [rebuild, update, lookup_append, lookup]
        by_cases hk : "_filename" = k
        · subst hk; simp [hf]
        · simp [hk]
  all_goals
    simp only [Option.some.injEq] at h
    subst h
    split <;> simp [rebuild, update, lookup_append, lookup]

/-- **reduce_roundtrip_eq.** Copies and pickles have the class of the original and compare equal to it
    (`__eq__` reads only attributes, and every attribute survives). -/
theorem reduce_roundtrip_eq (p : Nat) (o : Obj) (r : Reduced) (h : reduce p o = some r) :
    (rebuild r).cls = o.cls ∧ objEq (rebuild r) o = true := by
  have hd := reduce_roundtrip_dict p o r h
  have hcls : (rebuild r).cls = o.cls := by
    unfold reduce at h
    cases hc : o.cls <;> simp only [hc] at h
    case tzfile =>
      cases hf : lookup "_filename" o.dict with
      | none => simp [hf] at h
      | some fn => simp only [hf, Option.map_some, Option.some.injEq] at h; subst h; rfl
    all_goals
      simp only [Option.some.injEq] at h
      subst h
      split <;> rfl
  refine ⟨hcls, ?_⟩
  simp only [objEq, hcls, beq_self_eq_true, Bool.true_and, List.all_eq_true, beq_iff_eq]
  intro k _
  exact hd k

/-- reduction fails only for a tzfile object without `_filename` (AttributeError) -/
theorem reduce_total (p : Nat) (o : Obj) (h : o.cls = .tzfile → (lookup "_filename" o.dict).isSome = true) :
    (reduce p o).isSome = true := by
  unfold reduce
  cases hc : o.cls <;> simp
  have := h hc
  cases hf : lookup "_filename" o.dict <;> simp_all

/-! non-vacuity: a tzfile object (three compared attributes + `_filename` + an attribute `__eq__` ignores) and a tzrange -/
def exF : Obj := ⟨.tzfile, [("_filename", 7), ("_trans_list", 1), ("_trans_idx", 2), ("_ttinfo_list", 3), ("_ttinfo_std", 4)]⟩
example : (reduce 2 exF).map (fun r => (rebuild r).dict) =
    some [("_filename", 7), ("_trans_list", 1), ("_trans_idx", 2), ("_ttinfo_list", 3), ("_ttinfo_std", 4), ("_filename", 7)] := by decide
example : (reduce 0 ⟨.tzoffset, [("_name", 1), ("_offset", 3600)]⟩).map (fun r => objEq (rebuild r) ⟨.tzoffset, [("_name", 1), ("_offset", 3600)]⟩) = some true := by decide
example : objEq ⟨.tzoffset, [("_offset", 1)]⟩ ⟨.tzoffset, [("_offset", 2)]⟩ = false := by decide


end ReduceModel

end C18
