/-
  Properties/C04.lean — every tzinfo converts UTC → local → UTC without loss.

  tzfile: for ALL well-formed tables `r` (`Spec.wf`: valid indices, ≥ 1 type, strictly increasing
  transitions whose wall-clock set-backs do not overlap) and ALL instants before the last recorded
  transition — or any instant when the zone's `ttinfo_std` is the last transition's type
  (`LastStd`; the code answers `ttinfo_std` from the last transition on).
  Fixed zones: all offsets, all instants.  Range zones (`tzrangebase`): `roundtrip_range_general`
  (both hemispheres; the wall-year lookups must make the same two decisions as the UTC-year lookup),
  its same-pair / same-year special cases `roundtrip_range`, `roundtrip_range_partial`, and
  `roundtrip_range_norule`.  tzfile tables without transitions: `roundtrip_notrans`.  `_tzinfo`
  machinery (tzlocal, tzical): `roundtrip_generic` over abstract utcoffset/dst with a two-offset
  cycle structure, instantiated for C17's iCalendar model in `roundtrip_tzical_cycle`.

  Full-strength statement that is NOT true of the code and therefore not proved:
    ∀ z : RangeZone, ∀ t, roundtrip z t
  excluded classes (known findings, shown failing on the implementation by the check):
    D-C05r  saving < 0;   D-C04y  the wall-clock year's rule pair differs from the UTC year's.
-/
import DateutilVerif.Proofs.ZonesBuild
import DateutilVerif.Proofs.RangeZone
import DateutilVerif.Proofs.GenericICal
import DateutilVerif.Proofs.LocalZone

namespace C04
open TZ Spec

/-- **roundtrip (tzfile).** `w = fromutc t` reports `utcoffset = wall − t` and converts back to `t`. -/
theorem roundtrip (r : Raw) (hwf : Spec.wf r = true) (hne : r.trans ≠ []) (t : Int)
    (hcov : (∃ u, lastTime r = some u ∧ t < u) ∨ LastStd (build r)) :
    ∃ w, fromutc (build r) t = .ok w ∧ utcoffset (build r) w = .ok (w.wall - t) ∧
      toUtc (build r) w = .ok t := by
  obtain ⟨b, s, f, hf, hfb, hc, hw⟩ := build_coherent r hwf hne
  obtain ⟨w, hw1, hw2, hw3⟩ := hc.findTtinfo_fromutc hw t (covered_of r hc hw t hcov)
  have ho := hc.utcoffset_eq w _ hw3
  refine ⟨w, hw1, ?_, ?_⟩
  · rw [ho, hw2]; congr 1; omega
  · unfold toUtc; rw [ho, hw2]
    show Except.ok _ = _
    congr 1; omega

/-- **inj (tzfile).** Two instants with the same (wall time, fold) are the same instant. -/
theorem inj (r : Raw) (hwf : Spec.wf r = true) (hne : r.trans ≠ []) (t₁ t₂ : Int)
    (h₁ : (∃ u, lastTime r = some u ∧ t₁ < u) ∨ LastStd (build r))
    (h₂ : (∃ u, lastTime r = some u ∧ t₂ < u) ∨ LastStd (build r))
    (h : fromutc (build r) t₁ = fromutc (build r) t₂) : t₁ = t₂ := by
  obtain ⟨w1, a1, _, c1⟩ := roundtrip r hwf hne t₁ h₁
  obtain ⟨w2, a2, _, c2⟩ := roundtrip r hwf hne t₂ h₂
  rw [a1, a2] at h
  cases Except.ok.inj h
  rw [c1] at c2
  exact Except.ok.inj c2

/-- **offset_in_force (tzfile).** The offset and abbreviation reported for a converted instant are
    those of the data's type in force at that instant. -/
theorem offset_in_force (r : Raw) (hwf : Spec.wf r = true) (t u : Int)
    (hlast : lastTime r = some u) (h2 : t < u) :
    ∃ w, fromutc (build r) t = .ok w ∧ (utcoffset (build r) w).toOption = offsetAt r t ∧
      (tzname (build r) w).toOption = some (nameAt r t) := by
  have hne : r.trans ≠ [] := by intro h; simp [lastTime, h] at hlast
  obtain ⟨b, s, f, hf, hfb, hc, hw⟩ := build_coherent r hwf hne
  have hlt := bisect_lt_of_lt_last r hc hw t u hlast h2
  obtain ⟨w, hw1, _, hw3⟩ := hc.findTtinfo_fromutc hw t (Or.inl hlt)
  obtain ⟨ty, hty, hrel⟩ := typeAt_rel r hwf hf hfb hc hw t hlt
  refine ⟨w, hw1, ?_, ?_⟩
  · rw [hc.utcoffset_eq w _ hw3]; simp [offsetAt, hty, hrel.1, Except.toOption]
  · rw [hc.tzname_eq w _ hw3]; simp [nameAt, hty, hrel.2.2.1, Except.toOption]

/-- **roundtrip_notrans (tzfile without transitions).** 32 of the 447 real files (UTC, Etc/GMT±N,
    EST, HST, …) have an empty version-1 transition list: `_find_last_transition` returns `None`,
    `is_ambiguous` returns early, and the zone is the fixed offset of the file's type 0 — for every
    such table with at least one type and every instant. -/
theorem roundtrip_notrans (r : Raw) (t0 : TType) (rest : List TType) (hn : r.trans = [])
    (hty : r.types = t0 :: rest) (t : Int) :
    fromutc (build r) t = .ok ⟨t + t0.off, false⟩ ∧
    utcoffset (build r) ⟨t + t0.off, false⟩ = .ok t0.off ∧ toUtc (build r) ⟨t + t0.off, false⟩ = .ok t ∧
    tzname (build r) ⟨t + t0.off, false⟩ = .ok (some t0.abbr) ∧ isAmbiguous (build r) (t + t0.off) = false := by
  have hb : build r = assemble [] [] (t0 :: rest) := by
    simp [build, finalTypes, hn, hty, applyAssign, dstLoop]
  rw [hb]
  refine ⟨by simp [fromutc, findLastUtc, getTtinfo, assemble, dstLoop, isAmbiguousIdx],
          by simp [utcoffset, findTtinfo, findLastWall, getTtinfo, assemble, dstLoop], ?_,
          by simp [tzname, findTtinfo, findLastWall, getTtinfo, assemble, dstLoop],
          by simp [isAmbiguous, isAmbiguousIdx, assemble, dstLoop]⟩
  have : utcoffset (assemble [] [] (t0 :: rest)) ⟨t + t0.off, false⟩ = .ok t0.off := by
    simp [utcoffset, findTtinfo, findLastWall, getTtinfo, assemble, dstLoop]
  unfold toUtc; rw [this]; show Except.ok _ = _; congr 1; show t + t0.off - t0.off = t; omega

/-! ### fixed zones (tzutc, tzoffset incl. sub-minute offsets): all offsets, all instants -/

theorem roundtrip_fixed (z : FixedZone) (t : Int) :
    z.utcoffset (z.fromutc t) = (z.fromutc t).wall - t ∧ z.toUtc (z.fromutc t) = t := by
  simp only [FixedZone.utcoffset, FixedZone.fromutc, FixedZone.toUtc]; omega

theorem inj_fixed (z : FixedZone) (t₁ t₂ : Int) (h : z.fromutc t₁ = z.fromutc t₂) : t₁ = t₂ := by
  simp only [FixedZone.fromutc, Wall.mk.injEq, and_true] at h; omega

theorem offset_in_force_fixed (z : FixedZone) (t : Int) :
    z.utcoffset (z.fromutc t) = z.off ∧ z.dst (z.fromutc t) = 0 := ⟨rfl, rfl⟩

/-! ### range zones -/

/-- **roundtrip_range_general.** `tzrangebase` with a positive saving, in either hemisphere
    (`on < off` or `off ≤ on`), wherever the two yearly transitions lie.  `(on, off)` is the pair
    `fromutc` finds by the UTC year; `(on₁, off₁)` / `(on₂, off₂)` are the pairs `utcoffset` and
    `is_ambiguous` find by the wall-clock years of the standard and the daylight reading.  The round
    trip holds whenever each of those pairs makes, at that reading, the same naive decision and the
    same repeated-interval decision as the UTC year's pair — this is the condition the code needs;
    where it fails is D-C04y.  `C08.tzstr_posix_partial` discharges it for tzstr zones whose
    transitions keep a margin from New Year (`TZ.decisions_cohere`). -/
theorem roundtrip_range_general (z : RangeZone) (t on off on₁ off₁ on₂ off₂ : Int)
    (hsav : 0 < z.saving) (hd : z.hasdst = true)
    (htr : z.transitions (yearOf t) = some (on, off))
    (h₁ : z.transitions (yearOf (t + z.stdOff)) = some (on₁, off₁))
    (h₂ : z.transitions (yearOf (t + z.dstOff)) = some (on₂, off₂))
    (n₁ : RangeZone.naiveIsdst (t + z.stdOff) (on₁, off₁) = RangeZone.naiveIsdst (t + z.stdOff) (on, off))
    (a₁ : (decide (off₁ ≤ t + z.stdOff) && decide (t + z.stdOff < off₁ + z.saving)) =
          (decide (off ≤ t + z.stdOff) && decide (t + z.stdOff < off + z.saving)))
    (n₂ : RangeZone.naiveIsdst (t + z.dstOff) (on₂, off₂) = RangeZone.naiveIsdst (t + z.dstOff) (on, off))
    (a₂ : (decide (off₂ ≤ t + z.dstOff) && decide (t + z.dstOff < off₂ + z.saving)) =
          (decide (off ≤ t + z.dstOff) && decide (t + z.dstOff < off + z.saving))) :
    ∃ w, z.fromutc t = .ok w ∧ z.utcoffset w = .ok (w.wall - t) ∧ z.toUtc w = .ok t := by
  obtain ⟨w, hf, hwall, hi⟩ := RangeZone.isdst_fromutc z t on off on₁ off₁ on₂ off₂ hsav hd htr h₁ h₂ n₁ a₁ n₂ a₂
  obtain ⟨r1, _, _⟩ := RangeZone.answers_of_isdst z w _ hi
  have e : (if RangeZone.naiveIsdst t (on - z.stdOff, off - z.stdOff) then z.dstOff else z.stdOff) = w.wall - t := by
    rw [hwall]; omega
  refine ⟨w, hf, by rw [r1, e], ?_⟩
  unfold RangeZone.toUtc; rw [r1, e]
  show Except.ok _ = _; congr 1; omega

/-- **roundtrip_range** (same-pair form).  Hypotheses `hy1 / hy2` ask that the lookups by the
    wall-clock years return the SAME pair of instants as the lookup by the UTC year.  A real
    `transitions(year)` returns datetimes of that year, so for tzrange / tzstr zones this holds
    exactly when the wall-clock year equals the UTC year: there the theorem coincides with
    `roundtrip_range_partial` and excludes the |offset| hours around every New Year (covered by
    `roundtrip_range_general` + `C08.tzstr_posix_partial`, and by the oracle's year-edge probes).
    It is strictly more general only for abstract `transitions` functions that repeat a pair. -/
theorem roundtrip_range (z : RangeZone) (t on off : Int)
    (hsav : 0 < z.saving) (hd : z.hasdst = true)
    (htr : z.transitions (yearOf t) = some (on, off))
    (hy1 : z.transitions (yearOf (t + z.stdOff)) = some (on, off))
    (hy2 : z.transitions (yearOf (t + z.dstOff)) = some (on, off)) :
    ∃ w, z.fromutc t = .ok w ∧ z.utcoffset w = .ok (w.wall - t) ∧ z.toUtc w = .ok t := by
  have hs : z.dstOff = z.stdOff + z.saving := by unfold RangeZone.saving; omega
  cases hdv : RangeZone.naiveIsdst t (on - z.stdOff, off - z.stdOff) with
  | true =>
      have hf : z.fromutc t = .ok ⟨t + z.dstOff, false⟩ := by
        unfold RangeZone.fromutc; simp only [htr, hdv, if_true]
      have hoff : z.utcoffset ⟨t + z.dstOff, false⟩ = .ok z.dstOff := by
        rw [RangeZone.utcoffset_eq z ⟨t + z.dstOff, false⟩ on off hd hy2]
        rw [RangeZone.naiveIsdst_iff] at hdv
        cases hn : RangeZone.naiveIsdst (t + z.dstOff) (on, off) with
        | true => simp
        | false =>
            rw [RangeZone.naiveIsdst_false_iff] at hn
            have : (decide (off ≤ t + z.dstOff) && decide (t + z.dstOff < off + z.saving)) = true := by
              simp only [Bool.and_eq_true, decide_eq_true_eq]; omega
            simp [this]
      refine ⟨_, hf, ?_, ?_⟩
      · rw [hoff]; congr 1; show z.dstOff = t + z.dstOff - t; omega
      · unfold RangeZone.toUtc; rw [hoff]; show Except.ok _ = _; congr 1; show t + z.dstOff - z.dstOff = t; omega
  | false =>
      have hamb : z.isAmbiguous (t + z.stdOff) = .ok (decide (off ≤ t + z.stdOff) && decide (t + z.stdOff < off + z.saving)) := by
        unfold RangeZone.isAmbiguous; simp only [hd, hy1, Bool.not_true, Bool.false_eq_true, if_false]
      have hf : z.fromutc t = .ok ⟨t + z.stdOff, (decide (off ≤ t + z.stdOff) && decide (t + z.stdOff < off + z.saving))⟩ := by
        unfold RangeZone.fromutc
        simp only [htr, hdv, Bool.false_eq_true, if_false, hamb]
        rfl
      have hoff : z.utcoffset ⟨t + z.stdOff, (decide (off ≤ t + z.stdOff) && decide (t + z.stdOff < off + z.saving))⟩ = .ok z.stdOff := by
        rw [RangeZone.utcoffset_eq z ⟨t + z.stdOff, (decide (off ≤ t + z.stdOff) && decide (t + z.stdOff < off + z.saving))⟩ on off hd hy1]
        rw [RangeZone.naiveIsdst_false_iff] at hdv
        have hn : RangeZone.naiveIsdst (t + z.stdOff) (on, off) = false := by
          rw [RangeZone.naiveIsdst_false_iff]; omega
        simp only [hn, Bool.false_eq_true, if_false]
        cases h2 : (decide (off ≤ t + z.stdOff) && decide (t + z.stdOff < off + z.saving)) <;> simp
      refine ⟨_, hf, ?_, ?_⟩
      · rw [hoff]; congr 1; show z.stdOff = t + z.stdOff - t; omega
      · unfold RangeZone.toUtc; rw [hoff]; show Except.ok _ = _; congr 1; show t + z.stdOff - z.stdOff = t; omega

/-- **roundtrip_range_partial** (the earlier, coarser form): wall-clock year = UTC year. -/
theorem roundtrip_range_partial (z : RangeZone) (t on off : Int)
    (hsav : 0 < z.saving) (hd : z.hasdst = true)
    (htr : z.transitions (yearOf t) = some (on, off))
    (hy1 : yearOf (t + z.stdOff) = yearOf t) (hy2 : yearOf (t + z.dstOff) = yearOf t) :
    ∃ w, z.fromutc t = .ok w ∧ z.utcoffset w = .ok (w.wall - t) ∧ z.toUtc w = .ok t :=
  roundtrip_range z t on off hsav hd htr (by rw [hy1]; exact htr) (by rw [hy2]; exact htr)

/-- no rule for the UTC year (`transitions` is `None`): standard time, when the wall-clock year
    has no rule either -/
theorem roundtrip_range_norule (z : RangeZone) (t : Int)
    (htr : z.transitions (yearOf t) = none) (hy1 : z.transitions (yearOf (t + z.stdOff)) = none) :
    ∃ w, z.fromutc t = .ok w ∧ z.utcoffset w = .ok (w.wall - t) ∧ z.toUtc w = .ok t := by
  have h0 : z.utcoffset ⟨t, false⟩ = .ok z.stdOff := by
    unfold RangeZone.utcoffset RangeZone.isdst
    cases z.hasdst <;> simp [htr, bind, Except.bind, pure, Except.pure]
  have h1 : z.utcoffset ⟨t + z.stdOff, false⟩ = .ok z.stdOff := by
    unfold RangeZone.utcoffset RangeZone.isdst
    cases z.hasdst <;> simp [hy1, bind, Except.bind, pure, Except.pure]
  refine ⟨⟨t + z.stdOff, false⟩, ?_, ?_, ?_⟩
  · unfold RangeZone.fromutc; simp only [htr, h0, bind, Except.bind, pure, Except.pure]
  · rw [h1]; congr 1; show z.stdOff = t + z.stdOff - t; omega
  · unfold RangeZone.toUtc; rw [h1]; show Except.ok _ = _; congr 1; show t + z.stdOff - z.stdOff = t; omega

/-! ### `_tzinfo` machinery (tzlocal, tzical) -/

/-- **roundtrip_generic.** `_tzinfo._fromutc/_fold_status/is_ambiguous` over abstract
    `utcoffset/dst`: if these follow the two-offset interval semantics of a cycle on a wall window
    (`GenericZone.CycleSem`: standard offset everywhere, daylight below `off` and, for fold=0, on the
    repeated interval) and `is_ambiguous` is the repeated interval, then every instant whose
    standard-time reading lies in the window (and, while daylight time is in force, also its daylight
    reading) round-trips; fold=1 is set exactly on the standard side of the repeated interval.
    Windows `[on, nextOn)` with `off + saving ≤ nextOn` tile the timeline. -/
theorem roundtrip_generic (g : GenericZone) (stdOff saving off lo hi t : Int) (hs : 0 < saving)
    (hsem : GenericZone.CycleSem g stdOff saving off lo hi)
    (hamb : ∀ w, lo ≤ w → w < hi → g.isAmbiguous w = (decide (off ≤ w) && decide (w < off + saving)))
    (h0 : g.utcoffset ⟨t, false⟩ - g.dst ⟨t, false⟩ = stdOff)
    (hx1 : lo ≤ t + stdOff) (hx2 : t + stdOff < hi) (hx3 : t + stdOff < off → t + stdOff + saving < hi) :
    g.utcoffset (g.fromutc t) = (g.fromutc t).wall - t ∧ g.toUtc (g.fromutc t) = t ∧
    (g.fromutc t).wall = (if t + stdOff < off then t + stdOff + saving else t + stdOff) ∧
    (g.fromutc t).fold = (decide (off ≤ t + stdOff) && decide (t + stdOff < off + saving)) :=
  GenericZone.roundtrip g stdOff saving off lo hi t hs hsem hamb h0 hx1 hx2 hx3

/-- for zones using the generic `is_ambiguous` (tzical) the ambiguity hypothesis follows -/
theorem generic_ambiguous (g : GenericZone) (stdOff saving off lo hi : Int) (hs : 0 < saving)
    (hno : g.ambiguousOverride = none) (hsem : GenericZone.CycleSem g stdOff saving off lo hi)
    (w : Int) (h1 : lo ≤ w) (h2 : w < hi) :
    g.isAmbiguous w = (decide (off ≤ w) && decide (w < off + saving)) :=
  GenericZone.isAmbiguous_of_sem g stdOff saving off lo hi hs hno hsem w h1 h2

/-- **roundtrip_tzical_cycle.** The iCalendar zone model of C17 (`ICal.generic`, STANDARD + DAYLIGHT
    component) inside a cycle `[on, nextOn)`: its `fromutc` (the same `_tzinfo` machinery,
    `ICal.Generic.fromutc_eq`) reports `utcoffset = wall − utc` and adds the daylight offset exactly
    when the instant's standard reading is below `off`. -/
theorem roundtrip_tzical_cycle (S D : List Int) (stdOff dstOff on off nextOn t : Int)
    (hsav : stdOff < dstOff) (h1 : on < off) (h2 : off + (dstOff - stdOff) ≤ nextOn)
    (H1 : ∀ x, on ≤ x → x < nextOn → ICal.lastLE D x = some on)
    (H2 : ∀ x, on ≤ x → x < off + (dstOff - stdOff) → ∀ p, ICal.lastLE S x = some p → p < on)
    (H3 : ∀ x, off + (dstOff - stdOff) ≤ x → x < nextOn + (dstOff - stdOff) →
      ICal.lastLE S x = some (off + (dstOff - stdOff)))
    (hx1 : on ≤ t + stdOff) (hx2 : t + stdOff < nextOn) :
    let g := (ICal.generic [{ tzoffsetfrom := dstOff, tzoffsetto := stdOff, isdst := false, onsets := S : ICal.ZComp },
                            { tzoffsetfrom := stdOff, tzoffsetto := dstOff, isdst := true, onsets := D : ICal.ZComp }])
    g.utcoffset (g.fromutc t).1 (g.fromutc t).2 = (g.fromutc t).1 - t ∧
    (g.fromutc t).1 = (if t + stdOff < off then t + dstOff else t + stdOff) :=
  ICal.roundtrip_two_comp S D stdOff dstOff on off nextOn t hsav h1 h2 H1 H2 H3 hx1 hx2

/-- **roundtrip_tzlocal.** `tzlocal` at the model level (`localZone z`: `time.localtime().tm_isdst`
    follows the yearly rule table `z`; glibc itself is assumed): on a wall window where the naive
    decision is "`w < off`" (`local_naive_north`: inside one rule year with `on < off`;
    `local_naive_south`: from this year's `on` across New Year to next year's `off`), `fromutc`
    round-trips with tzlocal's own `is_ambiguous`, and fold=1 marks the second pass. -/
theorem roundtrip_tzlocal (z : RangeZone) (off lo hi t : Int) (hd : z.hasdst = true) (hs : 0 < z.saving)
    (hN : ∀ w, lo - z.saving ≤ w → w < hi → localNaiveIsdst z w = decide (w < off))
    (hx1 : lo ≤ t + z.stdOff) (hx2 : t + z.stdOff < hi) (hx3 : t + z.stdOff < off → t + z.stdOff + z.saving < hi) :
    (localZone z).utcoffset ((localZone z).fromutc t) = ((localZone z).fromutc t).wall - t ∧
    (localZone z).toUtc ((localZone z).fromutc t) = t ∧
    ((localZone z).fromutc t).wall = (if t + z.stdOff < off then t + z.stdOff + z.saving else t + z.stdOff) ∧
    ((localZone z).fromutc t).fold = (decide (off ≤ t + z.stdOff) && decide (t + z.stdOff < off + z.saving)) :=
  roundtrip_local z off lo hi t hd hs hN hx1 hx2 hx3

/-- the window hypothesis of `roundtrip_tzlocal` inside one northern rule year … -/
theorem tzlocal_window_north (z : RangeZone) (on off lo hi : Int) (h : on < off) (hlo : on ≤ lo - z.saving)
    (htr : ∀ w, lo - z.saving ≤ w → w < hi → z.transitions (yearOf w) = some (on, off)) :
    ∀ w, lo - z.saving ≤ w → w < hi → localNaiveIsdst z w = decide (w < off) :=
  local_naive_north z on off lo hi h hlo htr

/-- … and across New Year in the southern order -/
theorem tzlocal_window_south (z : RangeZone) (on off₀ on' off ny lo hi : Int)
    (h0 : off₀ ≤ on) (h1' : off ≤ on') (hlo : on ≤ lo - z.saving) (hhi : hi ≤ on') (hny : ny ≤ off)
    (htr0 : ∀ w, lo - z.saving ≤ w → w < ny → z.transitions (yearOf w) = some (on, off₀))
    (htr1 : ∀ w, ny ≤ w → w < hi → z.transitions (yearOf w) = some (on', off)) :
    ∀ w, lo - z.saving ≤ w → w < hi → localNaiveIsdst z w = decide (w < off) :=
  local_naive_south z on off₀ on' off ny lo hi h0 h1' hlo hhi hny htr0 htr1

/-! non-vacuity -/
def exR : Raw := { trans := [(1000000, 1), (2000000, 0), (3000000, 1)],
                   types := [⟨0, 0, [65], false, false, 0⟩, ⟨3600, 1, [66], false, false, 0⟩] }
example : Spec.wf exR = true := by decide
example : fromutc (build exR) 2000100 = .ok ⟨2000100, true⟩ ∧ fromutc (build exR) 1996500 = .ok ⟨2000100, false⟩ := by decide
/-- a southern-hemisphere rule (AEST-10AEDT, `off < on`): ALL hypotheses of `roundtrip_range` are
    discharged for 2020-07-01T00:00Z (mid-year: UTC year = wall-clock years = 2020) -/
def aestZone : RangeZone :=
  RangeZone.ofTable 36000 39600 true [(2019, 1570327200, 1554602400), (2020, 1601776800, 1586052000)]
example : ∃ w, aestZone.fromutc 1593561600 = .ok w ∧ aestZone.utcoffset w = .ok (w.wall - 1593561600) ∧
    aestZone.toUtc w = .ok 1593561600 :=
  roundtrip_range aestZone 1593561600 1601776800 1586052000 (by decide) (by decide) (by decide) (by decide) (by decide)
/-- on 1 January (2019-12-31T13:46:40Z, DST in force across New Year) the wall-clock year is 2020 and
    the same-pair hypothesis `hy2` FAILS — such instants need `roundtrip_range_general`: the 2020
    pair makes the same decisions at that reading as the 2019 pair -/
example : yearOf 1577800000 = 2019 ∧ yearOf (1577800000 + 39600) = 2020 ∧
    aestZone.transitions 2020 ≠ aestZone.transitions 2019 := by decide
example : ∃ w, aestZone.fromutc 1577800000 = .ok w ∧ aestZone.utcoffset w = .ok (w.wall - 1577800000) ∧
    aestZone.toUtc w = .ok 1577800000 :=
  roundtrip_range_general aestZone 1577800000 1570327200 1554602400 1570327200 1554602400 1601776800 1586052000
    (by decide) (by decide) (by decide) (by decide) (by decide) (by decide) (by decide) (by decide) (by decide)
/-- a northern-hemisphere rule in 2020 (EST5EDT): hypotheses of `roundtrip_range_partial` are satisfiable -/
def estZone : RangeZone := RangeZone.ofTable (-18000) (-14400) true [(2020, 1583632800, 1604192400)]
example : yearOf 1604210000 = 2020 ∧ estZone.transitions (yearOf 1604210000) = some (1583632800, 1604192400) ∧
    0 < estZone.saving := by decide
/-- D-C05r in the model (tzstr('IST-1GMT0,M10.5.0,M3.5.0/1'), negative saving): the instant
    2020-10-25T01:00Z reads 01:00 with fold=0, whose utcoffset is +1:00 although wall − utc = 0 -/
def negZone : RangeZone := RangeZone.ofTable 3600 0 true [(2020, 1603591200, 1585447200)]
example : negZone.fromutc 1603587600 = .ok ⟨1603587600, false⟩ ∧
    negZone.utcoffset ⟨1603587600, false⟩ = .ok 3600 := by decide

/-- tzlocal under EST5EDT in 2020: the second 01:30 of 2020-11-01 (06:30Z) gets fold=1 -/
example : (localZone estZone).fromutc 1604212200 = ⟨1604212200 - 18000, true⟩ ∧
    (localZone estZone).fromutc 1604208600 = ⟨1604208600 - 14400, false⟩ := by decide

/-- the `LastStd` branch is inhabited: a table ending on its standard type; after the last transition
    the code answers `ttinfo_std`, which is that type (the situation of 433 of the 447 real files) -/
def exStd : Raw := { trans := [(1000000, 1), (2000000, 0)],
                     types := [⟨0, 0, [65], false, false, 0⟩, ⟨3600, 1, [66], false, false, 0⟩] }
example : Spec.wf exStd = true ∧ LastStd (build exStd) ∧ fromutc (build exStd) 5000000 = .ok ⟨5000000, false⟩ := by
  unfold LastStd; decide
/-- a table without transitions (`roundtrip_notrans`) -/
example : fromutc (build { trans := [], types := [⟨-36000, 0, [72, 83, 84], false, false, 0⟩] }) 0 = .ok ⟨-36000, false⟩ := by
  decide

end C04
