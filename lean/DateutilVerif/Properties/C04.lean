import DateutilVerif.Model.Zones
import DateutilVerif.Spec.Zones
namespace C04
theorem placeholder : True := trivial
end C04
