/-
  Properties/C09.lean — relativedelta(dt1, dt2) is the calendar difference that carries dt2 onto dt1.

  `RDM.diffN fuel a b` is the model of the two-argument constructor (lines 112-169 + `_fix`), with the
  overshoot loop as a recursion with explicit fuel (`none` = fuel exhausted); `Gen.fix`/`Gen.setMonths`
  are the translations of `_fix`/`_set_months` made on this run; `dtm = dt2 + self` is the C03 model
  `applyTo`.  Domain: `a.Valid`, `b.Valid` (any date / naive / aware datetime of years 1..9999, a
  date has no time of day) and `RDP.Compatible a b` (after the date→datetime coercion: both dates,
  both naive, or both aware with the SAME tzinfo object (zone id and object id equal) — naive vs aware is a
  TypeError in code and model; two aware operands with distinct tzinfo objects are modelled too (UTC
  comparison through `off`), see the last section).

  "dt2 + relativedelta(dt1, dt2) equals dt1 exactly" is proved as: the sum has exactly dt1's fields,
  and is *equal to dt1 as an object* whenever both operands have the same kind (both dates, both
  naive, both aware in the zone).  With one date and one datetime Python's own `==` is False by
  type; what holds (and is proved) is equality of the fields, i.e. the same calendar instant.
-/
import DateutilVerif.Proofs.RDDiff
import DateutilVerif.Proofs.RDGenEq

namespace C09
open RDM RDP

/-- **diff_loop_terminates.** For every valid comparable pair the overshoot loop needs at most ONE
    iteration: with fuel 1 the constructor already returns a value, and every larger fuel returns
    the same value (so `diff = diffN 2` never runs out of fuel and termination is a theorem). -/
theorem diff_loop_terminates (off : Nat → DT → Int) (a b : Temporal) (ha : a.Valid) (hb : b.Valid) (hc : Compatible a b) :
    ∃ r, diffN off 1 a b = some (.ok r) ∧ ∀ n, diffN off (n + 1) a b = some (.ok r) := by
  obtain ⟨k, hk, _, hord⟩ := diff_main off 0 a b ha hb hc
  refine ⟨_, hk, fun n => ?_⟩
  obtain ⟨k', hk', _, hord'⟩ := diff_main off n a b ha hb hc
  have v := validNoYear_of_valid _ hb.1
  -- the month count is determined by the ordering facts: both k and k' are "the largest shift"
  have hkk : k' = k := by
    have mono : ∀ i j : Int, i < j → ∀ t : DT, ValidNoYear t → (shiftDT t i).toMicros < (shiftDT t j).toMicros := by
      intro i j hij t ht
      exact toMicros_lt_of_month_lt _ _ (shiftDT_facts t i ht).1 (shiftDT_facts t j ht).1
        (by have := (shiftDT_facts t i ht).2; have := (shiftDT_facts t j ht).2; omega)
    apply Classical.byContradiction
    intro hne
    rcases hord with ⟨h0, h1, h2, h3⟩ | ⟨h0, h1, h2, h3⟩ <;> rcases hord' with ⟨g0, g1, g2, g3⟩ | ⟨g0, g1, g2, g3⟩
    · by_cases hlt : k' < k
      · have := mono k' (k' + 1) (by omega) b.t v
        by_cases he : k' + 1 = k
        · rw [he] at g3; omega
        · have := mono (k' + 1) k (by omega) b.t v; omega
      · by_cases he : k + 1 = k'
        · rw [he] at h3; omega
        · have := mono (k + 1) k' (by omega) b.t v; omega
    · exact absurd g0 h0
    · exact absurd h0 g0
    · by_cases hlt : k' < k
      · by_cases he : k' = k - 1
        · rw [← he] at h3; omega
        · have := mono k' (k - 1) (by omega) b.t v; omega
      · by_cases he : k = k' - 1
        · rw [← he] at g3; omega
        · have := mono k (k' - 1) (by omega) b.t v; omega
  rw [hk', hkk]

/-- **diff_inverse.** `b + relativedelta(a, b)` has exactly `a`'s fields, for every valid comparable pair
    in either order; it IS `a` (same kind, same zone tag) whenever the operands are of one kind. -/
theorem diff_inverse (off : Nat → DT → Int) (a b : Temporal) (ha : a.Valid) (hb : b.Valid) (hc : Compatible a b) :
    ∃ r res, diff off a b = some (.ok r) ∧ applyTo r b = .ok res ∧ res.t = a.t ∧
      (a.kind = b.kind → res = a) := by
  obtain ⟨k, hk, hv, _⟩ := diff_main off 1 a b ha hb hc
  have happ := diffValue_apply a b k ha hb hv
  refine ⟨_, _, hk, happ, rfl, ?_⟩
  intro hkind
  by_cases hd : b.kind = .date
  · have := diffValue_dates_noTime a b k ha hb (by rw [hkind, hd]) hd
    simp only [this, Bool.false_eq_true, and_false, ↓reduceIte]
    rw [← hkind]
  · simp only [hd, false_and, ↓reduceIte]
    rw [← hkind]

/-- **diff_only_relative.** The result carries no absolute field, no weekday and no leapdays. -/
theorem diff_only_relative (off : Nat → DT → Int) (n : Nat) (a b : Temporal) (r : RD) (h : diffN off n a b = some (.ok r)) :
    r.year = none ∧ r.month = none ∧ r.day = none ∧ r.weekday = none ∧ r.hour = none ∧
    r.minute = none ∧ r.second = none ∧ r.microsecond = none ∧ r.leapdays = 0 := by
  unfold diffN at h
  simp only [] at h
  repeat' split at h
  all_goals first
    | contradiction
    | (injection h with h; contradiction)
    | (injection h with h; injection h with h; rw [← h]
       rw [fix_year, fix_month, fix_day, fix_weekday, fix_hour, fix_minute, fix_second, fix_microsecond, fix_leapdays]
       rename_i k' _ _
       have := (setMonths_monthsOnly k').1
       obtain ⟨h1, h2, h3, h4, h5, h6, h7, h8, h9, h10, h11, h12, h13, h14, _⟩ := this
       exact ⟨h7, h8, h9, h10, h11, h12, h13, h14, h2⟩)

/-- **diff_normalised.** Whatever is returned is in normal form: |months| ≤ 11, |hours| ≤ 23,
    |minutes| ≤ 59, |seconds| ≤ 59, |microseconds| ≤ 999999 (and `_has_time` consistent). -/
theorem diff_normalised (off : Nat → DT → Int) (n : Nat) (a b : Temporal) (r : RD) (h : diffN off n a b = some (.ok r)) :
    Normalised r := by
  unfold diffN at h
  simp only [] at h
  repeat' split at h
  all_goals first
    | contradiction
    | (injection h with h; contradiction)
    | (injection h with h; injection h with h; rw [← h]
       unfold Normalised
       rw [fix_us, fix_s, fix_m, fix_h, fix_mo]
       exact ⟨(carry_facts _ _ _ (by simp) (by decide)).1, (carry_facts _ _ _ (by simp) (by decide)).1,
         (carry_facts _ _ _ (by simp) (by decide)).1, (carry_facts _ _ _ (by simp) (by decide)).1,
         (carry_facts _ _ _ (by simp) (by decide)).1, fix_hasTime _⟩)

/-- **diff_largest_shift.** With `M = 12·years + months` of the result: for `a ≥ b`, `M ≥ 0` and
    `shift b M ≤ a < shift b (M+1)`; for `a < b`, `M ≤ 0` and `shift b (M−1) < a ≤ shift b M`
    (`shift` = the documented clipped month shift, instants compared in µs). -/
theorem diff_largest_shift (off : Nat → DT → Int) (a b : Temporal) (ha : a.Valid) (hb : b.Valid) (hc : Compatible a b) :
    ∃ r, diff off a b = some (.ok r) ∧
      ((¬ a.t.toMicros < b.t.toMicros ∧ 0 ≤ monthTotal r ∧
          (shiftDT b.t (monthTotal r)).toMicros ≤ a.t.toMicros ∧
          a.t.toMicros < (shiftDT b.t (monthTotal r + 1)).toMicros) ∨
       (a.t.toMicros < b.t.toMicros ∧ monthTotal r ≤ 0 ∧
          a.t.toMicros ≤ (shiftDT b.t (monthTotal r)).toMicros ∧
          (shiftDT b.t (monthTotal r - 1)).toMicros < a.t.toMicros)) := by
  obtain ⟨k, hk, _, hord⟩ := diff_main off 1 a b ha hb hc
  refine ⟨_, hk, ?_⟩
  have hm : monthTotal (diffValue a b k) = k := by
    have := (diffValue_fields a b k).2.2.2.2.2.2.2.2.2.2.1
    unfold monthTotal; omega
  rw [hm]; exact hord

/-- **diff_self_empty.** `relativedelta(x, x)` has every field 0 / None, i.e. `bool` is False. -/
theorem diff_self_empty (off : Nat → DT → Int) (x : Temporal) (hx : x.Valid) (hc : Compatible x x) :
    ∃ r, diff off x x = some (.ok r) ∧ RDM.bool r = false := by
  obtain ⟨k, hk, hv, hord⟩ := diff_main off 1 x x hx hx hc
  refine ⟨_, hk, ?_⟩
  have v := validNoYear_of_valid _ hx.1
  have hk0 : k = 0 := by
    rcases hord with ⟨_, h1, h2, h3⟩ | ⟨h0, _⟩
    · apply Classical.byContradiction; intro hne
      have := toMicros_lt_of_month_lt _ _ v (shiftDT_facts x.t k v).1
        (by have := (shiftDT_facts x.t k v).2; omega)
      omega
    · omega
  subst hk0
  obtain ⟨hn, f1, f2, f3, f4, f5, f6, f7, f8, f9, f10, f11⟩ := diffValue_fields x x 0
  rw [shiftDT_zero _ v] at f11
  generalize diffValue x x 0 = R at *
  obtain ⟨⟨u1, u2⟩, ⟨s1, s2⟩, ⟨m1, m2⟩, ⟨h1, h2⟩, ⟨mo1, mo2⟩, _⟩ := hn
  have hz : R.years = 0 ∧ R.months = 0 ∧ R.days = 0 ∧ R.hours = 0 ∧ R.minutes = 0 ∧ R.seconds = 0 ∧
      R.microseconds = 0 := by
    unfold usTotal at f11
    omega
  obtain ⟨z1, z2, z3, z4, z5, z6, z7⟩ := hz
  unfold RDM.bool
  rw [z1, z2, z3, z4, z5, z6, z7, f1, f2, f3, f4, f5, f6, f7, f8, f9]
  rfl

/-! ## aware operands held by two distinct tzinfo objects

CPython compares and subtracts two aware datetimes on the wall clock only when their tzinfo is the SAME
OBJECT; for two objects (even of one zone: two `tz.tzlocal()`, two `tz.tzfile(path)`) it works in UTC,
while `dt2 + delta` is always wall-clock arithmetic.  `diffN` mirrors that (`comparable`, `cmpKey`,
`off z wall` = the zone's utcoffset).  FULL STATEMENT for "aware datetimes of a common zone":
`diff_inverse` without the same-object hypothesis — it is FALSE (known finding
D-C09-distinct-tzinfo-objects, `diff_inverse_distinct_objects_counterexample`); what holds is the
partial theorem below, whose hypothesis excludes exactly the offset changing over the span. -/

/-- **diff_inverse_distinct_objects_partial.** Two aware operands with DISTINCT tzinfo objects: if the
    utcoffset at `a` equals the utcoffset at every whole-month shift of `b`'s wall time (in particular at
    `b` itself — "the offset is constant over the span"), the constructor computes exactly what it
    computes for one shared object, and `b + relativedelta(a, b)` has `a`'s fields (in `b`'s tzinfo). -/
theorem diff_inverse_distinct_objects_partial (off : Nat → DT → Int) (a b : Temporal)
    (ha : a.Valid) (hb : b.Valid) (z1 o1 z2 o2 : Nat)
    (hka : a.kind = .aware z1 o1) (hkb : b.kind = .aware z2 o2) (hne : ¬ (z1 = z2 ∧ o1 = o2))
    (c : Int) (hca : off z1 a.t = c) (hcb : ∀ k, off z2 (shiftDT b.t k) = c) :
    ∃ r res, diff off a b = some (.ok r) ∧ applyTo r b = .ok res ∧ res.t = a.t ∧ res.kind = b.kind ∧
      diff off a b = diff off { a with kind := b.kind } b := by
  have hd := diff_main_distinct off 1 a b hb z1 o1 z2 o2 hka hkb hne c hca hcb
  have ha' : ({ a with kind := b.kind } : Temporal).Valid := by
    refine ⟨ha.1, ?_⟩
    intro h; simp only [hkb] at h; cases h
  have hc' : Compatible { a with kind := b.kind } b := by
    unfold Compatible coerce comparable; simp [hkb]
  obtain ⟨r, res, h1, h2, h3, h4⟩ := diff_inverse off { a with kind := b.kind } b ha' hb hc'
  have hres := h4 rfl
  refine ⟨r, res, ?_, h2, h3, by rw [hres], hd⟩
  unfold diff at h1 ⊢
  rw [hd]; exact h1

/-- a zone with one transition (New York, 8 March 2020: −5 h before 02:00 wall time, −4 h after), in µs -/
def nyOff : Nat → DT → Int := fun _ t =>
  if t.toMicros < ({ y := 2020, m := 3, d := 8, hh := 2 } : DT).toMicros then -18000000000 else -14400000000

/-- **diff_inverse_distinct_objects_counterexample (D-C09-distinct-tzinfo-objects).** Across the change of
    offset the inverse law fails for two tzinfo objects of the same zone: noon 7 March → noon 8 March is
    `hours=+23` (UTC difference), and adding 23 wall-clock hours to noon 7 March gives 11:00, not 12:00.
    With one shared object the same pair gives `days=+1` and the law holds. -/
theorem diff_inverse_distinct_objects_counterexample :
    diff nyOff ⟨.aware 0 1, { y := 2020, m := 3, d := 8, hh := 12 }⟩ ⟨.aware 0 2, { y := 2020, m := 3, d := 7, hh := 12 }⟩
      = some (.ok { hours := 23, hasTime := 1 }) ∧
    applyTo { hours := 23, hasTime := 1 } ⟨.aware 0 2, { y := 2020, m := 3, d := 7, hh := 12 }⟩
      = .ok ⟨.aware 0 2, { y := 2020, m := 3, d := 8, hh := 11 }⟩ ∧
    diff nyOff ⟨.aware 0 1, { y := 2020, m := 3, d := 8, hh := 12 }⟩ ⟨.aware 0 1, { y := 2020, m := 3, d := 7, hh := 12 }⟩
      = some (.ok { days := 1 }) := by
  decide +kernel

/-! ## `_gen` twins: the two-argument constructor RE-TRANSLATED from /repo on this run

`Gen.initDiff off fuel a b` (Generated/RDOps.lean) is the translation of the `if dt1 and dt2:` branch of `__init__`
(coercion, estimate, `_set_months`, `self.__radd__(dt2)`, the `while compare(dt1, dtm)` loop as `Gen.initDiff_loop`,
the residual, `_fix`); out of fuel is the distinguished error NotImplemented.  `RDG.initDiff_eq` proves it equal to
the model `diffN`, so the theorems above hold of the translated code. -/

/-- **gen_initDiff_eq_model.** -/
theorem gen_initDiff_eq_model (off : Nat → DT → Int) (fuel : Nat) (a b : Temporal) :
    Gen.initDiff off fuel a b = RDG.ofOption (diffN off fuel a b) := RDG.initDiff_eq off fuel a b

/-- **diff_loop_terminates_gen.** The translated loop needs at most one iteration: fuel 1 gives a value, and every
    larger fuel the same one (never the out-of-fuel error). -/
theorem diff_loop_terminates_gen (off : Nat → DT → Int) (a b : Temporal) (ha : a.Valid) (hb : b.Valid)
    (hc : Compatible a b) : ∃ r, ∀ n, Gen.initDiff off (n + 1) a b = .ok r := by
  obtain ⟨r, _, h⟩ := diff_loop_terminates off a b ha hb hc
  exact ⟨r, fun n => by rw [RDG.initDiff_eq, h n]; rfl⟩

/-- **diff_inverse_gen.** With the translated constructor and the translated `__add__`:
    `dt2 + relativedelta(dt1, dt2)` has exactly `dt1`'s fields, and is `dt1` for operands of one kind. -/
theorem diff_inverse_gen (off : Nat → DT → Int) (a b : Temporal) (ha : a.Valid) (hb : b.Valid) (hc : Compatible a b) :
    ∃ r res, Gen.initDiff off 2 a b = .ok r ∧ Gen.addDt r b = .ok res ∧ res.t = a.t ∧ (a.kind = b.kind → res = a) := by
  obtain ⟨r, res, h1, h2, h3, h4⟩ := diff_inverse off a b ha hb hc
  refine ⟨r, res, ?_, by rw [RDG.addDt_eq]; exact h2, h3, h4⟩
  rw [RDG.initDiff_eq]; unfold diff at h1; rw [h1]; rfl

theorem diff_normalised_gen (off : Nat → DT → Int) (n : Nat) (a b : Temporal) (r : RD)
    (h : Gen.initDiff off n a b = .ok r) : Normalised r ∧ r.year = none ∧ r.month = none ∧ r.day = none ∧
      r.weekday = none ∧ r.hour = none ∧ r.minute = none ∧ r.second = none ∧ r.microsecond = none ∧ r.leapdays = 0 := by
  rw [RDG.initDiff_eq] at h
  cases hd : diffN off n a b with
  | none => rw [hd] at h; cases h
  | some q =>
    rw [hd] at h
    have hq : q = .ok r := h
    rw [hq] at hd
    exact ⟨diff_normalised off n a b r hd, diff_only_relative off n a b r hd⟩

theorem diff_largest_shift_gen (off : Nat → DT → Int) (a b : Temporal) (ha : a.Valid) (hb : b.Valid) (hc : Compatible a b) :
    ∃ r, Gen.initDiff off 2 a b = .ok r ∧
      ((¬ a.t.toMicros < b.t.toMicros ∧ 0 ≤ monthTotal r ∧
          (shiftDT b.t (monthTotal r)).toMicros ≤ a.t.toMicros ∧
          a.t.toMicros < (shiftDT b.t (monthTotal r + 1)).toMicros) ∨
       (a.t.toMicros < b.t.toMicros ∧ monthTotal r ≤ 0 ∧
          a.t.toMicros ≤ (shiftDT b.t (monthTotal r)).toMicros ∧
          (shiftDT b.t (monthTotal r - 1)).toMicros < a.t.toMicros)) := by
  obtain ⟨r, h1, h2⟩ := diff_largest_shift off a b ha hb hc
  refine ⟨r, ?_, h2⟩
  rw [RDG.initDiff_eq]; unfold diff at h1; rw [h1]; rfl

-- non-vacuity / sanity
example : diff (fun _ _ => 0) ⟨.date, { y := 2024, m := 3, d := 31 }⟩ ⟨.date, { y := 2024, m := 2, d := 29 }⟩
    = some (.ok { months := 1, days := 2 }) := by decide +kernel
example : Compatible ⟨.date, { y := 2024, m := 3, d := 31 }⟩ ⟨.naive, { y := 2024, m := 2, d := 29, hh := 7 }⟩ := by
  unfold Compatible; decide
example : diff (fun _ _ => 0) ⟨.naive, { y := 2023, m := 1, d := 31 }⟩ ⟨.naive, { y := 2024, m := 3, d := 30, hh := 1 }⟩
    = some (.ok { years := -1, months := -1, days := -28, hours := -1, hasTime := 1 }) := by decide +kernel
example : diff (fun _ _ => 0) ⟨.naive, { y := 2023, m := 1, d := 31 }⟩ ⟨.aware 0 0, { y := 2024, m := 3, d := 30 }⟩
    = some (.error .TypeError) := by decide +kernel

end C09
