/-
  Properties/C20.lean — isoparse never misreads.  Theorems about the model `Iso.*` of the current
  isoparser.py (after fixes 6121d7a, 17b546f, b75c1b5, 4bf5835), for ALL byte strings, ALL
  separator configurations, ALL input kinds.  `IsoSpec.render / WFields / denote` are the printer,
  field validity (strict ISO weeks) and meaning of the supported ISO-8601 forms (Spec/IsoForms.lean).

    * `isoparse_sound` (FULL STRENGTH): whenever `isoparse` returns a value, the input IS
      `render f x` for some form `f` and well-formed fields `x` — every numeric field exactly the
      required number of ASCII digits, separators consistent, fields in calendar/clock range,
      week ≤ number of ISO weeks of the year — read with the configured separator, and the value
      IS `denote f x`.  Proved by inverting every accepting path of `_parse_isodate_common`,
      `_parse_isodate_uncommon`, `_calculate_weekdate`, the `_parse_isotime` loop and
      `_parse_tzstr`.
    * `isoparse_accepts_iff`: with a configured separator, accepted strings are EXACTLY the
      renderings (soundness + C07's inverse law).
    * `parse_isodate_sound`, `parse_isotime_sound`, `parse_tzstr_sound`: the same for the three
      auxiliary entry points (complete).
    * `*_errors_ValueError`: every other input is rejected with ValueError and nothing else.
    * `sep_exact`, `non_ascii_rejected`, `fields_are_digits`.
-/
import DateutilVerif.Proofs.IsoErrors
import DateutilVerif.Proofs.IsoTzSound
import DateutilVerif.Proofs.IsoSound
import DateutilVerif.Proofs.IsoGenEq
import DateutilVerif.Proofs.IsoGenLoop
namespace C20
open Iso Py

/-- SOUNDNESS (full strength): accepted ⇒ the input is the rendering of well-formed fields in a
    supported form, with the configured separator, and the value is its denotation -/
theorem isoparse_sound (cfg : Option Nat) (s : Bytes) (v : Result) (h : isoparse cfg s = .ok v) :
    ∃ f x, IsoSpec.WFields f x ∧ (f.time ≠ .none → (cfg = none ∨ cfg = some f.sep)) ∧
      s = IsoSpec.render f x ∧ v = IsoSpec.denote f x :=
  isoparse_sound_core cfg s v h

/-- the same through the public entry (`sep` constructor check, ASCII gate, str or bytes) -/
theorem isoparse_entry_sound (sep : Option (List Nat)) (isStr : Bool) (s : Bytes) (v : Result)
    (h : isoparseFull sep isStr s = .ok v) :
    ∃ f x, IsoSpec.WFields f x ∧ s = IsoSpec.render f x ∧ v = IsoSpec.denote f x ∧
      (f.time ≠ .none → (sep = none ∨ sep = some [f.sep])) ∧
      (isStr = true → ∀ b ∈ s, b < 128) := by
  unfold isoparseFull at h
  cases hs : mkSep sep with
  | error e => simp [hs, bind, Except.bind] at h
  | ok sp =>
    simp only [hs, bind, Except.bind, asciiGate] at h
    have hsp : sp = none → sep = none := by
      intro e; subst e
      unfold mkSep at hs
      split at hs
      · rfl
      · split at hs <;> cases hs
      · cases hs
    have hsp' : ∀ c, sp = some c → sep = some [c] := by
      intro c e; subst e
      unfold mkSep at hs
      split at hs
      · cases hs
      · rename_i c'
        split at hs
        · cases hs
        · cases hs; rfl
      · cases hs
    split at h
    · cases h
    · rename_i hg
      obtain ⟨f, x, hW, hcf, er, ev⟩ := isoparse_sound_core sp s v h
      refine ⟨f, x, hW, er, ev, ?_, fun hstr b hb => ?_⟩
      · intro ht
        rcases hcf ht with h0 | h0
        · exact Or.inl (hsp h0)
        · exact Or.inr (hsp' _ h0)
      · by_cases hlt : b < 128
        · exact hlt
        · exact absurd ⟨hstr, List.any_eq_true.mpr ⟨b, hb, by simpa using hlt⟩⟩ hg

/-- with a configured separator the accepted strings are EXACTLY the renderings of well-formed
    fields with that separator (C20 soundness + C07 inverse law) -/
theorem isoparse_accepts_iff (c : Nat) (hc : isDigit c = false) (s : Bytes) (v : Result) :
    isoparse (some c) s = .ok v ↔
      ∃ f x, IsoSpec.WFields f x ∧ f.sep = c ∧ s = IsoSpec.render f x ∧ v = IsoSpec.denote f x :=
  Iso.isoparse_accepts_iff c hc s v

/-- COMPLETE soundness of `parse_isodate` -/
theorem parse_isodate_sound (s : Bytes) (y m d : Int) (h : parseIsodateEntry s = .ok (y, m, d)) :
    ∃ df x, s = IsoSpec.renderDate df x ∧ IsoSpec.dateWF true df x = true ∧
      1 ≤ IsoSpec.dateOrdinal df x ∧ IsoSpec.dateOrdinal df x ≤ Cal.maxOrdinal ∧
      (y, m, d) = Cal.fromOrdinal (IsoSpec.dateOrdinal df x) :=
  parseIsodateEntry_sound s y m d h

/-- COMPLETE soundness of `parse_isotime` (hour 24 is returned as 0) -/
theorem parse_isotime_sound (s : Bytes) (c : TComps) (h : parseIsotimeEntry s = .ok c) :
    ∃ (tf : IsoSpec.TimeForm) (o : IsoSpec.OffForm) (x : IsoSpec.Fields), tf ≠ .none ∧
      IsoSpec.timeWF tf x = true ∧ IsoSpec.offWF o x = true ∧
      s = IsoSpec.renderTime tf x ++ IsoSpec.renderOff o x ∧
      c = { h := if (IsoSpec.timeShown tf x).1 = 24 then 0 else ((IsoSpec.timeShown tf x).1 : Int),
            m := (IsoSpec.timeShown tf x).2.1, s := (IsoSpec.timeShown tf x).2.2.1,
            us := (IsoSpec.timeShown tf x).2.2.2, tz := IsoSpec.offDenote o x } :=
  parseIsotimeEntry_sound s c h

/-- COMPLETE soundness of `parse_tzstr` -/
theorem parse_tzstr_sound (s : Bytes) (z : Bool) (v : Off) (h : parseTzstr s z = .ok v) :
    ∃ o x, o ≠ IsoSpec.OffForm.naive ∧ IsoSpec.offWF o x = true ∧ s = IsoSpec.renderOff o x ∧
      v = offValue z o x :=
  parseTzstr_sound s z v h

/-- the only exception `isoparse` can raise is ValueError (all strings, all separator configs) -/
theorem isoparse_errors_ValueError (cfg : Option Nat) (s : Bytes) (e : PyErr)
    (h : isoparse cfg s = .error e) : e = .ValueError :=
  onlyVE_isoparse cfg s e h

/-- the same through `isoparser(sep).isoparse(x)`: invalid `sep`, non-ASCII text at the gate,
    str or bytes input -/
theorem isoparse_entry_errors_ValueError (sep : Option (List Nat)) (isStr : Bool) (s : Bytes) (e : PyErr)
    (h : isoparseFull sep isStr s = .error e) : e = .ValueError :=
  onlyVE_isoparseFull sep isStr s e h

/-- non-ASCII text is rejected (with ValueError) before any parsing -/
theorem non_ascii_rejected (sep : Option (List Nat)) (s : Bytes) (b : Nat) (hb : b ∈ s) (h128 : b ≥ 128) :
    ∃ e, isoparseFull sep true s = .error e ∧ e = .ValueError := by
  have hany : s.any (fun b => decide (b ≥ 128)) = true := by
    simp only [List.any_eq_true, decide_eq_true_eq]; exact ⟨b, hb, h128⟩
  unfold isoparseFull
  cases hs : mkSep sep with
  | error e => exact ⟨e, by simp [bind, Except.bind], onlyVE_mkSep sep e hs⟩
  | ok sp => exact ⟨.ValueError, by simp [bind, Except.bind, asciiGate, hany], rfl⟩

theorem parse_isodate_errors_ValueError (s : Bytes) (e : PyErr)
    (h : parseIsodateEntry s = .error e) : e = .ValueError := onlyVE_parseIsodateEntry s e h

theorem parse_isotime_errors_ValueError (s : Bytes) (e : PyErr)
    (h : parseIsotimeEntry s = .error e) : e = .ValueError := onlyVE_parseIsotimeEntry s e h

theorem parse_tzstr_errors_ValueError (s : Bytes) (z : Bool) (e : PyErr)
    (h : parseTzstr s z = .error e) : e = .ValueError := onlyVE_parseTzstr s z e h

/-- with a configured separator no other byte is accepted between date and time -/
theorem sep_exact (c : Nat) (s : Bytes) (v : Result) (h : isoparse (some c) s = .ok v) :
    ∃ ymd rest, parseIsodate s = .ok (ymd, rest) ∧ (rest = [] ∨ ∃ r, rest = c :: r) :=
  sep_exact_core c s v h

/-- every numeric field converted by `_parse_digits` is exactly `width` ASCII digits, read in
    decimal — no sign, space or underscore can be part of an accepted field -/
theorem fields_are_digits (f : Bytes) (w : Nat) (v : Int) (hw : 0 < w) :
    parseDigits f w = .ok v ↔ (f.length = w ∧ f.all isDigit = true ∧ v = (digitsVal f : Nat)) :=
  parseDigits_ok_iff f w v hw

/-! ### the same facts about the functions TRANSLATED from isoparser.py on every run
(`Gen.*`, Generated/IsoKernels.lean, produced by harness/translate_bytes.py): an edit to the source that
changes the behaviour of `_parse_digits`, `_parse_tzstr`, `_calculate_weekdate`, `_parse_isodate_common`,
`_parse_isodate_uncommon` or `_parse_isodate` breaks the equality lemmas of Proofs/IsoGenEq.lean and with them
these obligations. -/

/-- the translated `_parse_digits` accepts exactly `width` ASCII digits, read in decimal -/
theorem fields_are_digits_gen (f : Bytes) (w : Nat) (v : Int) (hw : 0 < w) :
    Gen.parseDigits f (w : Int) = .ok v ↔ (f.length = w ∧ f.all isDigit = true ∧ v = (digitsVal f : Nat)) := by
  rw [IsoGen.parseDigits_eq]; exact parseDigits_ok_iff f w v hw

/-- complete soundness of the translated `_parse_tzstr` -/
theorem parse_tzstr_sound_gen (s : Bytes) (z : Bool) (v : Off) (h : Gen.parseTzstr s z = .ok v) :
    ∃ o x, o ≠ IsoSpec.OffForm.naive ∧ IsoSpec.offWF o x = true ∧ s = IsoSpec.renderOff o x ∧
      v = offValue z o x := by
  rw [IsoGen.parseTzstr_eq] at h; exact parseTzstr_sound s z v h

theorem parse_tzstr_errors_ValueError_gen (s : Bytes) (z : Bool) (e : PyErr)
    (h : Gen.parseTzstr s z = .error e) : e = .ValueError := by
  rw [IsoGen.parseTzstr_eq] at h; exact onlyVE_parseTzstr s z e h

/-- soundness of the translated date scanner `_parse_isodate` (common, falling back to uncommon): what it accepts
    is the rendering of a date form followed by the unread suffix, the returned position is the length of that
    rendering, and the components are the ones the form denotes -/
theorem parse_isodate_scan_sound_gen (s : Bytes) (comps : List BytesPy.Comp) (pos : Int)
    (h : Gen.parseIsodate s = .ok (comps, pos)) :
    ∃ df x y m d rest, s = IsoSpec.renderDate df x ++ rest ∧ pos = ((IsoSpec.renderDate df x).length : Int) ∧
      comps = [.int y, .int m, .int d] ∧ DateScan df x (y, m, d) rest := by
  rw [IsoGen.parseIsodate_eq] at h
  cases hp : parseIsodate s with
  | error e => rw [hp] at h; cases h
  | ok p =>
    obtain ⟨⟨y, m, d⟩, rest⟩ := p
    rw [hp] at h
    simp only [Except.map, IsoGen.dateOut, Except.ok.injEq, Prod.mk.injEq] at h
    obtain ⟨df, x, es, hsc⟩ := parseIsodate_inv s _ _ hp
    refine ⟨df, x, y, m, d, rest, es, ?_, h.1.symm, hsc⟩
    rw [← h.2, es]; simp

theorem parse_isodate_scan_errors_ValueError_gen (s : Bytes) (e : PyErr)
    (h : Gen.parseIsodate s = .error e) : e = .ValueError := by
  rw [IsoGen.parseIsodate_eq] at h
  cases hp : parseIsodate s with
  | error e' => rw [hp] at h; cases h; exact onlyVE_parseIsodate s _ hp
  | ok p => rw [hp] at h; cases h

/-- SOUNDNESS of the TRANSLATED `isoparse` (full strength) -/
theorem isoparse_sound_gen (cfg : Option Nat) (s : Bytes) (v : Result)
    (h : Gen.isoparse (cfg.map fun c => [c]) s = .ok v) :
    ∃ f x, IsoSpec.WFields f x ∧ (f.time ≠ .none → (cfg = none ∨ cfg = some f.sep)) ∧
      s = IsoSpec.render f x ∧ v = IsoSpec.denote f x := by
  rw [IsoGen.isoparse_eq] at h; exact isoparse_sound_core cfg s v h

/-- the translated `isoparse` with a configured separator accepts EXACTLY the renderings -/
theorem isoparse_accepts_iff_gen (c : Nat) (hc : isDigit c = false) (s : Bytes) (v : Result) :
    Gen.isoparse (some [c]) s = .ok v ↔
      ∃ f x, IsoSpec.WFields f x ∧ f.sep = c ∧ s = IsoSpec.render f x ∧ v = IsoSpec.denote f x := by
  have := IsoGen.isoparse_eq (some c) s
  simp only [Option.map_some] at this
  rw [this]; exact Iso.isoparse_accepts_iff c hc s v

/-- the only exception kind of the translated `isoparse` is ValueError — in particular the loop never runs out of
    fuel (`NotImplemented`) and no `OverflowError`/`TypeError` of the primitives escapes -/
theorem isoparse_errors_ValueError_gen (cfg : Option Nat) (s : Bytes) (e : PyErr)
    (h : Gen.isoparse (cfg.map fun c => [c]) s = .error e) : e = .ValueError := by
  rw [IsoGen.isoparse_eq] at h; exact onlyVE_isoparse cfg s e h

theorem sep_exact_gen (c : Nat) (s : Bytes) (v : Result) (h : Gen.isoparse (some [c]) s = .ok v) :
    ∃ ymd rest, parseIsodate s = .ok (ymd, rest) ∧ (rest = [] ∨ ∃ r, rest = c :: r) := by
  have := IsoGen.isoparse_eq (some c) s
  simp only [Option.map_some] at this
  rw [this] at h; exact sep_exact_core c s v h

/-- soundness of the translated `_parse_isotime`: what it accepts is the rendering of a time form followed by an
    offset form, and the raw components are the ones the rendering shows -/
theorem parse_isotime_scan_sound_gen (s : Bytes) (comps : List BytesPy.Comp) (h : Gen.parseIsotime s = .ok comps) :
    ∃ (tf : IsoSpec.TimeForm) (xt : IsoSpec.Fields) (o : IsoSpec.OffForm) (xo : IsoSpec.Fields),
      TimeScan tf xt ∧ IsoSpec.offWF o xo = true ∧
      s = IsoSpec.renderTime tf xt ++ IsoSpec.renderOff o xo ∧
      comps = IsoGen.compsOf { shownComps tf xt with tz := IsoSpec.offDenote o xo } := by
  rw [IsoGen.parseIsotime_eq] at h
  cases hp : parseIsotime s with
  | error e => rw [hp] at h; cases h
  | ok c =>
    rw [hp] at h; simp only [Except.map, Except.ok.injEq] at h
    obtain ⟨tf, xt, o, xo, hscan, how, es, hc, _⟩ := parseIsotime_inv s c hp
    exact ⟨tf, xt, o, xo, hscan, how, es, by rw [← h, hc]⟩

theorem parse_isotime_scan_errors_ValueError_gen (s : Bytes) (e : PyErr)
    (h : Gen.parseIsotime s = .error e) : e = .ValueError := by
  rw [IsoGen.parseIsotime_eq] at h
  cases hp : parseIsotime s with
  | error e' => rw [hp] at h; cases h; exact onlyVE_parseIsotime s _ hp
  | ok c => rw [hp] at h; cases h

/-- COMPLETE soundness of the translated body of `parse_isodate` (the value is the date's ordinal) -/
theorem parse_isodate_sound_gen (s : Bytes) (o : Int) (h : Gen.parseIsodateEntry s = .ok o) :
    ∃ df x, s = IsoSpec.renderDate df x ∧ IsoSpec.dateWF true df x = true ∧
      1 ≤ IsoSpec.dateOrdinal df x ∧ IsoSpec.dateOrdinal df x ≤ Cal.maxOrdinal ∧ o = IsoSpec.dateOrdinal df x := by
  rw [IsoGen.parseIsodateEntry_eq] at h
  cases hp : parseIsodateEntry s with
  | error e => rw [hp] at h; cases h
  | ok ymd =>
    obtain ⟨y, m, d⟩ := ymd
    rw [hp] at h; simp only [Except.map, Except.ok.injEq] at h
    obtain ⟨df, x, es, hwf, h1, h2, he⟩ := parseIsodateEntry_sound s y m d hp
    refine ⟨df, x, es, hwf, h1, h2, ?_⟩
    have := (Cal.toOrdinal_fromOrdinal _ h1).1
    rw [← he] at this; rw [← h]; exact this

theorem parse_isodate_errors_ValueError_gen (s : Bytes) (e : PyErr)
    (h : Gen.parseIsodateEntry s = .error e) : e = .ValueError := by
  rw [IsoGen.parseIsodateEntry_eq] at h
  cases hp : parseIsodateEntry s with
  | error e' => rw [hp] at h; cases h; exact onlyVE_parseIsodateEntry s _ hp
  | ok c => rw [hp] at h; cases h

/-- COMPLETE soundness of the translated body of `parse_isotime` (hour 24 is returned as 0) -/
theorem parse_isotime_sound_gen (s : Bytes) (comps : List BytesPy.Comp) (h : Gen.parseIsotimeEntry s = .ok comps) :
    ∃ (tf : IsoSpec.TimeForm) (o : IsoSpec.OffForm) (x : IsoSpec.Fields), tf ≠ .none ∧
      IsoSpec.timeWF tf x = true ∧ IsoSpec.offWF o x = true ∧
      s = IsoSpec.renderTime tf x ++ IsoSpec.renderOff o x ∧
      comps = IsoGen.compsOf
        { h := if (IsoSpec.timeShown tf x).1 = 24 then 0 else ((IsoSpec.timeShown tf x).1 : Int),
          m := (IsoSpec.timeShown tf x).2.1, s := (IsoSpec.timeShown tf x).2.2.1,
          us := (IsoSpec.timeShown tf x).2.2.2, tz := IsoSpec.offDenote o x } := by
  rw [IsoGen.parseIsotimeEntry_eq] at h
  cases hp : parseIsotimeEntry s with
  | error e => rw [hp] at h; cases h
  | ok c =>
    rw [hp] at h; simp only [Except.map, Except.ok.injEq] at h
    obtain ⟨tf, o, x, h1, h2, h3, h4, h5⟩ := parseIsotimeEntry_sound s c hp
    exact ⟨tf, o, x, h1, h2, h3, h4, by rw [← h, h5]⟩

theorem parse_isotime_errors_ValueError_gen (s : Bytes) (e : PyErr)
    (h : Gen.parseIsotimeEntry s = .error e) : e = .ValueError := by
  rw [IsoGen.parseIsotimeEntry_eq] at h
  cases hp : parseIsotimeEntry s with
  | error e' => rw [hp] at h; cases h; exact onlyVE_parseIsotimeEntry s _ hp
  | ok c => rw [hp] at h; cases h

/-- the translated body of `parse_tzstr` is the translated `_parse_tzstr` (sound and ValueError-only, above) -/
theorem parse_tzstr_entry_sound_gen (s : Bytes) (z : Bool) (v : Off) (h : Gen.parseTzstrEntry s z = .ok v) :
    ∃ o x, o ≠ IsoSpec.OffForm.naive ∧ IsoSpec.offWF o x = true ∧ s = IsoSpec.renderOff o x ∧
      v = offValue z o x := by
  rw [IsoGen.parseTzstrEntry_eq] at h; exact parseTzstr_sound s z v h

/-- the translated `_takes_ascii` rejects non-ASCII TEXT (str or text stream) with ValueError before the wrapped
    method runs, and adds no exception kind of its own -/
theorem non_ascii_rejected_gen {α} (f : Bytes → R α) (t : List Nat) (b : Nat) (hb : b ∈ t) (h128 : b ≥ 128) :
    Gen.takesAscii f (.str t) = .error .ValueError ∧ Gen.takesAscii f (.streamStr t) = .error .ValueError := by
  have hany : t.any (fun c => decide (c ≥ 128)) = true := by
    simp only [List.any_eq_true, decide_eq_true_eq]; exact ⟨b, hb, h128⟩
  have e1 := IsoGen.takesAscii_eq f (.str t)
  have e2 := IsoGen.takesAscii_eq f (.streamStr t)
  simp only [IsoGen.toVal] at e1 e2
  rw [e1, e2]; simp [takesAscii, hany]

theorem takes_ascii_errors_ValueError_gen {α} (f : Bytes → R α) (hf : ∀ s, OnlyVE (f s)) (i : PyInput) (e : PyErr)
    (h : Gen.takesAscii f (IsoGen.toVal i) = .error e) : e = .ValueError := by
  rw [IsoGen.takesAscii_eq] at h
  cases i <;> simp only [takesAscii] at h
  · split at h
    · cases h; rfl
    · exact hf _ e h
  · exact hf _ e h
  · split at h
    · cases h; rfl
    · exact hf _ e h
  · exact hf _ e h

/-! non-vacuity -/
example : isoparse none [50,48,49,52,45,48,49,45,48,49,84,50,53] = .error .ValueError := by decide +kernel
example : parseTzstr [43,48,49,58,51,48] true = .ok (.fixed 5400) := by decide +kernel
example : isoparse (some 84) [50,48,49,52,45,48,49,45,48,49,32,49,48] = .error .ValueError := by decide +kernel
-- an accepted string (hypothesis of `isoparse_sound` is satisfiable): 2020-W53-4T24:00:00,000-00:00
example : isoparse none (("2020-W53-4T24:00:00,000-00:00".toList.map Char.toNat))
    = .ok ⟨{ y := 2021, m := 1, d := 1 }, some .utc⟩ := by decide +kernel
-- D-C20b/c/d/e (fixed): the model rejects all four witnesses with ValueError
example : isoparse none (("9999-12-31T24:00".toList.map Char.toNat)) = .error .ValueError := by decide +kernel
example : isoparse none (("2014-W53-1".toList.map Char.toNat)) = .error .ValueError := by decide +kernel
example : isoparse none (("9999-W52-6".toList.map Char.toNat)) = .error .ValueError := by decide +kernel
example : isoparse none (("2014-01-01T+01:00".toList.map Char.toNat)) = .error .ValueError := by decide +kernel

end C20
