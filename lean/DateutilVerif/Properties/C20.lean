import DateutilVerif.Model.IsoParser
import DateutilVerif.Spec.IsoForms
namespace C20
theorem placeholder : Iso.isDigit 48 = true := by decide
end C20
