/-
  Properties/C20.lean — isoparse never misreads: what is proved about the model `Iso.*` of the
  current isoparser.py (after fixes 6121d7a, 17b546f, b75c1b5, 4bf5835).

  PROVED, for ALL byte strings, ALL separator configurations, ALL input kinds:
    * `isoparse_errors_ValueError` (+ the three auxiliary entry points and the public entry with
      the constructor check and the ASCII gate): the ONLY exception kind is ValueError — at full
      strength, no OverflowError exception class is left (D-C20b / D-C20d are fixed in /repo).
    * `sep_exact`: with a configured separator, the byte between date and time is that byte.
    * `parse_tzstr_sound`: COMPLETE soundness of the offset entry point — an accepted string is
      exactly the rendering of an offset form (Z, z, ±HH, ±HHMM, ±HH:MM) with in-range two-digit
      fields, and the value is its denotation (zero_as_utc respected), for ALL byte strings.
    * `fields_are_digits`: every numeric field the parser converts is exactly `width` ASCII
      digits and its value is the decimal reading (what D-C20 broke before the repair).

  NOT PROVED HERE (kept visible; covered on every run by the recogniser oracle of
  harness/props/c20.py on the implementation and by the model/implementation correspondence):

    theorem isoparse_sound (cfg) (s : Bytes) (v) :
      isoparse cfg s = .ok v → ∃ f x, WFields f x ∧ (cfg = none ∨ cfg = some f.sep) ∧
                                  s = render f x ∧ v = denote f x

  i.e. the "parse then print gives back the input" direction for `_parse_isodate` and the
  `_parse_isotime` loop on ARBITRARY input.  The converse direction (C07.isoparse_render) is
  proved for all forms, and `parse_tzstr_sound` below is the complete instance for the offset
  grammar; `parse_isodate_sound` is not proved.
-/
import DateutilVerif.Proofs.IsoErrors
import DateutilVerif.Proofs.IsoTzSound
namespace C20
open Iso Py

/-- the only exception `isoparse` can raise is ValueError (all strings, all separator configs) -/
theorem isoparse_errors_ValueError (cfg : Option Nat) (s : Bytes) (e : PyErr)
    (h : isoparse cfg s = .error e) : e = .ValueError :=
  onlyVE_isoparse cfg s e h

/-- the same through `isoparser(sep).isoparse(x)`: invalid `sep`, non-ASCII text at the gate,
    str or bytes input -/
theorem isoparse_entry_errors_ValueError (sep : Option (List Nat)) (isStr : Bool) (s : Bytes) (e : PyErr)
    (h : isoparseFull sep isStr s = .error e) : e = .ValueError :=
  onlyVE_isoparseFull sep isStr s e h

/-- non-ASCII text is rejected (with ValueError) before any parsing -/
theorem non_ascii_rejected (sep : Option (List Nat)) (s : Bytes) (b : Nat) (hb : b ∈ s) (h128 : b ≥ 128) :
    ∃ e, isoparseFull sep true s = .error e ∧ e = .ValueError := by
  have hany : s.any (fun b => decide (b ≥ 128)) = true := by
    simp only [List.any_eq_true, decide_eq_true_eq]; exact ⟨b, hb, h128⟩
  unfold isoparseFull
  cases hs : mkSep sep with
  | error e => exact ⟨e, by simp [bind, Except.bind], onlyVE_mkSep sep e hs⟩
  | ok sp => exact ⟨.ValueError, by simp [bind, Except.bind, asciiGate, hany], rfl⟩

theorem parse_isodate_errors_ValueError (s : Bytes) (e : PyErr)
    (h : parseIsodateEntry s = .error e) : e = .ValueError := onlyVE_parseIsodateEntry s e h

theorem parse_isotime_errors_ValueError (s : Bytes) (e : PyErr)
    (h : parseIsotimeEntry s = .error e) : e = .ValueError := onlyVE_parseIsotimeEntry s e h

theorem parse_tzstr_errors_ValueError (s : Bytes) (z : Bool) (e : PyErr)
    (h : parseTzstr s z = .error e) : e = .ValueError := onlyVE_parseTzstr s z e h

/-- with a configured separator no other byte is accepted between date and time -/
theorem sep_exact (c : Nat) (s : Bytes) (v : Result) (h : isoparse (some c) s = .ok v) :
    ∃ ymd rest, parseIsodate s = .ok (ymd, rest) ∧ (rest = [] ∨ ∃ r, rest = c :: r) :=
  sep_exact_core c s v h

/-- every numeric field converted by `_parse_digits` is exactly `width` ASCII digits, read in
    decimal — no sign, space or underscore can be part of an accepted field -/
theorem fields_are_digits (f : Bytes) (w : Nat) (v : Int) (hw : 0 < w) :
    parseDigits f w = .ok v ↔ (f.length = w ∧ f.all isDigit = true ∧ v = (digitsVal f : Nat)) :=
  parseDigits_ok_iff f w v hw

/-- COMPLETE soundness of `parse_tzstr`: accepted ⇒ the string is the rendering of an offset form
    with in-range fields and the value is its denotation -/
theorem parse_tzstr_sound (s : Bytes) (z : Bool) (v : Off) (h : parseTzstr s z = .ok v) :
    ∃ o x, o ≠ IsoSpec.OffForm.naive ∧ IsoSpec.offWF o x = true ∧ s = IsoSpec.renderOff o x ∧
      v = offValue z o x :=
  parseTzstr_sound s z v h

/-! non-vacuity -/
example : isoparse none [50,48,49,52,45,48,49,45,48,49,84,50,53] = .error .ValueError := by decide +kernel
example : parseTzstr [43,48,49,58,51,48] true = .ok (.fixed 5400) := by decide +kernel
example : isoparse (some 84) [50,48,49,52,45,48,49,45,48,49,32,49,48] = .error .ValueError := by decide +kernel
-- D-C20b/c/d/e (fixed): the model rejects all four witnesses with ValueError
example : isoparse none (("9999-12-31T24:00".toList.map Char.toNat)) = .error .ValueError := by decide +kernel
example : isoparse none (("2014-W53-1".toList.map Char.toNat)) = .error .ValueError := by decide +kernel
example : isoparse none (("9999-W52-6".toList.map Char.toNat)) = .error .ValueError := by decide +kernel
example : isoparse none (("2014-01-01T+01:00".toList.map Char.toNat)) = .error .ValueError := by decide +kernel

end C20
