/-
  Properties/C06.lean — tzfile reports exactly what the TZif data says.

  `r : Raw` is any decoded version-1 block (any number of transitions and types), `build r` the
  zone object `_read_tzfile` makes of it, `Spec.typeAt r t` the type of the last transition ≤ t
  (first standard type, else type 0, before the first).  `Spec.wf r`: valid type indices, at least
  one type, strictly increasing transitions whose wall-clock set-backs do not overlap.

  Proved for ALL well-formed tables with at least one transition and ALL instants before the last
  recorded transition (instants at or after it are outside the property: the code answers
  `ttinfo_std` there; C04 covers them when that is the last transition's type).

  `decode_encode`: the model decoder inverts the tzfile(5) encoder of the spec on every table
  within the format's ranges (`RawWF`).  `eq_of_same_data`: `tzfile.__eq__` (which compares
  trans_list, trans_idx and ttinfo_list only) holds exactly when the two built objects are equal in
  every component, so equal zones answer every query identically.
-/
import DateutilVerif.Proofs.ZonesBuild
import DateutilVerif.Proofs.DecodeEncode
import DateutilVerif.Proofs.EqData

namespace C06
open TZ Spec

/-- **lookup_exact.** Before the last transition `u`, converting the UTC instant `t` adds the
    offset of the data's type in force, and the converted datetime reports exactly that type's
    offset and abbreviation. (`t < first` is included: `typeAt` is then the first standard type.) -/
theorem lookup_exact (r : Raw) (hwf : Spec.wf r = true) (t u : Int)
    (hlast : lastTime r = some u) (h2 : t < u) :
    ∃ w ty, fromutc (build r) t = .ok w ∧ typeAt r t = some ty ∧ w.wall = t + ty.off ∧
      utcoffset (build r) w = .ok ty.off ∧ tzname (build r) w = .ok (some ty.abbr) := by
  have hne : r.trans ≠ [] := by
    intro h; simp [lastTime, h] at hlast
  obtain ⟨b, s, f, hf, hfb, hc, hw⟩ := build_coherent r hwf hne
  have hlt := bisect_lt_of_lt_last r hc hw t u hlast h2
  obtain ⟨w, hw1, hw2, hw3⟩ := hc.findTtinfo_fromutc hw t (Or.inl hlt)
  obtain ⟨ty, hty, hrel⟩ := typeAt_rel r hwf hf hfb hc hw t hlt
  refine ⟨w, ty, hw1, hty, ?_, ?_, ?_⟩
  · rw [hw2, hrel.1]
  · rw [hc.utcoffset_eq w _ hw3, hrel.1]
  · rw [hc.tzname_eq w _ hw3, hrel.2.2.1]

/-- **before_first.** Before the first transition the data's first standard type (else type 0)
    is the type in force … -/
theorem typeAt_before_first (r : Raw) (t u0 : Int) (hwf : Spec.wf r = true)
    (hfirst : firstTime r = some u0) (h : t < u0) : typeAt r t = firstType r := by
  have hne : r.trans ≠ [] := by intro h; simp [firstTime, h] at hfirst
  obtain ⟨b, s, f, hf, hfb, hc, hw⟩ := build_coherent r hwf hne
  have hb := bisectRight_spec t (hc.utc_sorted hw)
  have hutc : (build r).utc = r.trans.map (fun p => p.1) := rfl
  have h0 : bisectRight (build r).utc t = 0 := by
    apply bisectRight_eq (hc.utc_sorted hw)
    refine ⟨by omega, by intro i hi; omega, ?_⟩
    intro i _ hi
    have hs := hc.utc_sorted hw
    have e0 : (build r).utc.getD 0 0 = u0 := by
      rw [hutc]; unfold firstTime at hfirst
      cases hl : r.trans with
      | nil => exact absurd hl hne
      | cons p q => rw [hl] at hfirst; simp at hfirst; simp [hfirst]
    by_cases e : i = 0
    · subst e; omega
    · have := hs 0 i (by omega) hi; omega
  unfold typeAt
  rw [filter_le_eq_take r.trans t 0 (by rw [← hutc, ← h0]; exact hb)]
  simp

/-- … and the zone reports it (offset and abbreviation), cf. `lookup_exact`. -/
theorem before_first (r : Raw) (hwf : Spec.wf r = true) (t u0 u : Int)
    (hfirst : firstTime r = some u0) (h : t < u0) (hlast : lastTime r = some u) (h2 : t < u) :
    ∃ w ty, fromutc (build r) t = .ok w ∧ firstType r = some ty ∧ w.wall = t + ty.off ∧
      utcoffset (build r) w = .ok ty.off ∧ tzname (build r) w = .ok (some ty.abbr) := by
  obtain ⟨w, ty, h1, h3, h4, h5, h6⟩ := lookup_exact r hwf t u hlast h2
  rw [typeAt_before_first r t u0 hwf hfirst h] at h3
  exact ⟨w, ty, h1, h3, h4, h5, h6⟩

/-- **dst_zero_on_standard.** Wherever the data marks standard time, `dst()` is zero. -/
theorem dst_zero_on_standard (r : Raw) (hwf : Spec.wf r = true) (t u : Int)
    (hlast : lastTime r = some u) (h2 : t < u) (ty : TType) (hty : typeAt r t = some ty)
    (hstd : ty.isdst = 0) :
    ∃ w, fromutc (build r) t = .ok w ∧ dst (build r) w = .ok 0 := by
  have hne : r.trans ≠ [] := by intro h; simp [lastTime, h] at hlast
  obtain ⟨b, s, f, hf, hfb, hc, hw⟩ := build_coherent r hwf hne
  have hlt := bisect_lt_of_lt_last r hc hw t u hlast h2
  obtain ⟨w, hw1, _, hw3⟩ := hc.findTtinfo_fromutc hw t (Or.inl hlt)
  obtain ⟨ty', hty', hrel⟩ := typeAt_rel r hwf hf hfb hc hw t hlt
  rw [hty] at hty'
  cases Option.some.inj hty'
  refine ⟨w, hw1, ?_⟩
  unfold dst
  cases (build r).dst with
  | none => rfl
  | some d =>
      simp only [hw3]
      have : (ttOf (build r) b s (bisectRight (build r).utc t)).isdst = 0 := by rw [← hrel.2.1]; exact hstd
      simp [this]

/-- **decode_encode.** For every raw table within the ranges of the format (32-bit instants and
    offsets, byte-sized isdst and type indices, NUL-free ASCII abbreviations whose table has at
    most 256 bytes so that every start index fits the UNSIGNED `tt_abbrind` byte), decoding the
    canonical version-1 stream written from tzfile(5) (no leap records, one private NUL-terminated
    abbreviation per type, full isstd/isgmt arrays, no trailer) gives the table back.  Shared /
    suffix abbreviation indices, leap records, short flag arrays and v2+ trailers are outside the
    encoder's image; for them `decode` is tied by the per-run differential dump only. -/
theorem decode_encode (r : Raw) (h : RawWF r) : decode (encode r) = .ok r :=
  TZ.decode_encode r h

/-- **eq_of_same_data.** `tzfile.__eq__` ⇔ the two objects agree in every component
    (UTC list, both wall lists, std/dst/before included). -/
theorem eq_of_same_data (r r' : Raw) : tzEq (build r) (build r') = true ↔ build r = build r' := by
  constructor
  · intro h
    simp only [tzEq, Bool.and_eq_true, beq_iff_eq] at h
    obtain ⟨⟨h1, h2⟩, h3⟩ := h
    obtain ⟨l1, t1⟩ := build_lengths r
    obtain ⟨l2, t2⟩ := build_lengths r'
    have hutc : (build r).utc = (build r').utc := by
      rw [t1, t2, ← h2] at h1
      apply zipWith_add_inj _ _ _ _ _ h1
      · simp [dstLoop_length, l1]
      · simp [dstLoop_length, l2, h2]
    rw [build_eq_assemble r, build_eq_assemble r', hutc, h2, h3]
  · intro h; rw [h]; simp [tzEq]

/-- equal zones answer identically (corollary, spelled out for the three observations) -/
theorem eq_same_answers (r r' : Raw) (h : tzEq (build r) (build r') = true) (t : Int) (w : Wall) :
    fromutc (build r) t = fromutc (build r') t ∧ utcoffset (build r) w = utcoffset (build r') w ∧
    tzname (build r) w = tzname (build r') w ∧ dst (build r) w = dst (build r') w := by
  rw [(eq_of_same_data r r').mp h]; exact ⟨rfl, rfl, rfl, rfl⟩

/-! non-vacuity: a two-type table (standard +0 "A", daylight +3600 "B") with three transitions -/
def exR : Raw :=
  { trans := [(1000000, 1), (2000000, 0), (3000000, 1)],
    types := [⟨0, 0, [65], false, false, 0⟩, ⟨3600, 1, [66], false, false, 0⟩] }
example : Spec.wf exR = true := by decide
example : lastTime exR = some 3000000 := by decide
example : fromutc (build exR) 1500000 = .ok ⟨1503600, false⟩ := by decide
example : fromutc (build exR) 2000100 = .ok ⟨2000100, true⟩ := by decide
example : typeAt exR 1500000 = some ⟨3600, 1, [66], false, false, 0⟩ := by decide

example : RawWF exR := by
  refine ⟨by decide, ?_, ?_, by decide⟩
  · intro p hp; simp only [exR, List.mem_cons, List.not_mem_nil, or_false] at hp
    rcases hp with e | e | e <;> subst e <;> simp [In32, exR]
  · intro t ht; simp only [exR, List.mem_cons, List.not_mem_nil, or_false] at ht
    rcases ht with e | e <;> subst e <;> simp [TypeOK, In32]
example : (encode exR).length = 44 + 12 + 3 + 12 + 4 + 2 + 2 := by decide

end C06
