import DateutilVerif.Model.Zones
import DateutilVerif.Spec.Zones
namespace C06
theorem placeholder : True := trivial
end C06
