/- Properties/C17.lean — placeholder; theorems follow. -/
import DateutilVerif.Model.ICal

namespace C17
theorem placeholder : True := trivial
end C17
