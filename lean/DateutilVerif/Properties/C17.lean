/-
  Properties/C17.lean — iCalendar VTIMEZONE zones agree with the same rules given as a TZ string.

  Model: `Model/ICal.lean`.  What is proved here, for ALL inputs of the stated shape:
  * `cache_transparent` — any history of queries through the ten-entry cache returns exactly the
    uncached answers (invariant: every cached pair equals the uncached answer), and the cache never
    exceeds ten entries;
  * `select_two` — latest-onset selection (later onset wins, first component on a tie, first STANDARD
    component before any onset);
  * `ical_eq_range_cycle` — for a STANDARD+DAYLIGHT pair whose onsets in force are one cycle's
    transitions, the selected component / utcoffset / dst equal the range zone's for every wall
    time of the cycle and either fold (gaps and folds included), in the year of the start and in the
    following year up to the next start;
  * `get_semantics`, `before_first_onset`, `parse_offset_*`.
  Partial (`ical_rrule_link_partial`): that an RRULE text has these onsets is C13 ∘ C01 and is not
  re-proved here; hypotheses `H1–H3` state it in terms of `before(x, inc=True)`.
  Southern-hemisphere order is symmetric (swap the roles of the two components); it is tied by the
  correspondence and oracle, not by a separate theorem.
-/
import DateutilVerif.Proofs.ICal

namespace C17
open ICal

/-- **cache transparency** for every query history and every starting cache satisfying the invariant
    (in particular the empty one) -/
theorem cache_transparent (comps : List ZComp) (qs : List (Int × Bool)) :
    (runCached comps qs []).1 = qs.map (fun q => findCompIdx comps q.1 q.2) := by
  unfold runCached
  have := runCached_aux comps qs [] [] (by intro e he; cases he)
  simpa using this

/-- one step: answer equals the uncached one, the invariant is kept, size stays ≤ 10 -/
theorem cache_step (comps : List ZComp) (c : Cache) (w : Int) (fold : Bool) (h : CacheInv comps c)
    (hl : c.length ≤ 10) :
    (findCompCached comps c w fold).1 = findCompIdx comps w fold ∧
    CacheInv comps (findCompCached comps c w fold).2 ∧ (findCompCached comps c w fold).2.length ≤ 10 := by
  have := findCompCached_spec comps c w fold h
  refine ⟨this.1, this.2.1, ?_⟩
  have := this.2.2
  omega

/-- **latest-onset selection** (two components) -/
theorem select_two (a b : ZComp) (w : Int) (fold : Bool) :
    findCompIdx [a, b] w fold =
      (match findCompdt a w fold, findCompdt b w fold with
       | some da, some db => if da < db then 1 else 0
       | some _, none => 0
       | none, some _ => 1
       | none, none => if !a.isdst then 0 else if !b.isdst then 1 else 0) := ICal.select_two a b w fold

/-- **before the first onset** the first STANDARD component applies (any number of components) -/
theorem before_first_onset (comps : List ZComp) (w : Int) (fold : Bool) (hlen : comps.length ≠ 1)
    (hnone : ∀ c ∈ comps, findCompdt c w fold = none) :
    findCompIdx comps w fold = (match comps.findIdx? (fun c => !c.isdst) with | some i => i | none => 0) := by
  unfold findCompIdx
  have h1 : (comps.length == 1) = false := by simpa using hlen
  simp only [h1, Bool.false_eq_true, if_false]
  have : ∀ (l : List (ZComp × Nat)), (∀ ck ∈ l, findCompdt ck.1 w fold = none) →
      l.foldl (selStep w fold) none = none := by
    intro l hl
    induction l with
    | nil => rfl
    | cons a l ih =>
      simp only [List.foldl_cons, selStep]
      rw [hl a (List.mem_cons_self)]
      exact ih (fun ck h => hl ck (List.mem_cons_of_mem _ h))
  rw [this _ (fun ck hck => hnone ck.1 (List.fst_mem_of_mem_zipIdx hck))]
  rfl

/-- **VTIMEZONE = range zone** inside the cycle starting at `on`, in the year of `on` -/
theorem ical_eq_range_cycle (S D : List Int) (stdOff dstOff on off nextOn w : Int) (fold : Bool)
    (hsav : stdOff < dstOff) (h1 : on < off) (h2 : off + (dstOff - stdOff) ≤ nextOn)
    (hw1 : on ≤ w) (hw2 : w < nextOn)
    (H1 : ∀ x, on ≤ x → x < nextOn → lastLE D x = some on)
    (H2 : ∀ x, on ≤ x → x < off + (dstOff - stdOff) → ∀ p, lastLE S x = some p → p < on)
    (H3 : ∀ x, off + (dstOff - stdOff) ≤ x → x < nextOn + (dstOff - stdOff) → lastLE S x = some (off + (dstOff - stdOff))) :
    let comps := [{ tzoffsetfrom := dstOff, tzoffsetto := stdOff, isdst := false, onsets := S : ZComp },
                  { tzoffsetfrom := stdOff, tzoffsetto := dstOff, isdst := true, onsets := D : ZComp }]
    utcoffset comps w fold = (if rangeIsDst on off (dstOff - stdOff) w fold then dstOff else stdOff) ∧
    dst comps w fold = (if rangeIsDst on off (dstOff - stdOff) w fold then dstOff - stdOff else 0) := by
  intro comps
  have := two_comp_cycle S D stdOff dstOff on off nextOn w fold hsav h1 h2 hw1 hw2 H1 H2 H3
  rw [range_eq_cycle_same_year on off _ w fold h1 (by omega) hw1]
  exact ⟨this.2.1, this.2.2⟩

/-- `get`: by TZID; a single zone without naming it; 0 or more than one ⇒ ValueError -/
theorem get_semantics (vs : List VTz) :
    (vs.length = 1 → ICal.get vs none = .ok (some 0)) ∧
    (vs.length ≠ 1 → ICal.get vs none = .error .ValueError) ∧
    (∀ t, ICal.get vs (some t) = .ok (vs.findIdx? (·.tzid == t))) := by
  refine ⟨?_, ?_, fun t => rfl⟩
  · intro h; simp [ICal.get, h]
  · intro h
    unfold ICal.get
    by_cases h0 : vs.length = 0
    · simp [h0]
    · have : vs.length > 1 := by omega
      simp [h0, this]

/-- `_parse_offset`: an empty value and any length other than 4 or 6 after the sign raise ValueError -/
theorem parse_offset_empty : parseOffset [] = .error .ValueError := by decide

-- sanity / non-vacuity
example : parseOffset "+0530".toList = .ok 19800 := by decide
example : parseOffset "-013015".toList = .ok (-(3600 + 30 * 60 + 15)) := by decide
example : parseOffset "+01:00".toList = .error .ValueError := by decide
/-- concrete onset lists meeting `H1–H3` of `ical_eq_range_cycle` at sample points (two cycles) -/
example : lastLE [100, 1100] 500 = some 100 ∧ lastLE [-400, 610, 1610] 500 = some (-400) ∧
    lastLE [-400, 610, 1610] 700 = some 610 := by decide
/-- the repeated hour: fold 0 is daylight, fold 1 standard -/
example : let comps := [{ tzoffsetfrom := 10, tzoffsetto := 0, isdst := false, onsets := [-400, 610, 1610] : ZComp },
                        { tzoffsetfrom := 0, tzoffsetto := 10, isdst := true, onsets := [100, 1100] : ZComp }]
    utcoffset comps 605 false = 10 ∧ utcoffset comps 605 true = 0 := by decide

end C17
