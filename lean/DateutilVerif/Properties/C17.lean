/-
  Properties/C17.lean — iCalendar VTIMEZONE zones agree with the same rules given as a TZ string.

  Model: `Model/ICal.lean`.  What is proved here, for ALL inputs of the stated shape:
  * `cache_transparent` — any history of queries through the ten-entry cache returns exactly the
    uncached answers (invariant: every cached pair equals the uncached answer), and the cache never
    exceeds ten entries;
  * `select_two` — latest-onset selection (later onset wins, first component on a tie, first STANDARD
    component before any onset);
  * `ical_eq_range_cycle` — for a STANDARD+DAYLIGHT pair whose onsets in force are one cycle's
    transitions, the selected component / utcoffset / dst equal the range zone's for every wall
    time of the cycle and either fold (gaps and folds included), in the year of the start and in the
    following year up to the next start;
  * `get_semantics`, `before_first_onset`, `parse_offset_*`.
  The link to the recurrence rule (`ical_rrule_link_partial`): `yearly_rule_occ` — the recurrence set
  (C01's specification `Spec.RRule.occ`, which C01's exactness theorems tie to the model's `iter`) of
  `DTSTART:<y0>0101T<time>` + `FREQ=YEARLY;BYMONTH=m;BYDAY=nWD` is one instant per year at the POSIX
  rule date; `onsets_of_yearly_rule` discharges `H1–H3` for two such rules on any finite prefix
  containing the following year; `ical_eq_tzstr_partial` composes with C08: the VTIMEZONE and the
  tzstr zone of the same rules report the same offset at every wall time of a cycle, either fold.
  Still outside: the `BYMONTHDAY` form of the rule, the text → arguments step (C13), and the
  southern-hemisphere order.
  Southern-hemisphere order is symmetric (swap the roles of the two components); it is tied by the
  correspondence and oracle, not by a separate theorem.
-/
import DateutilVerif.Proofs.ICal
import DateutilVerif.Proofs.ICalTzStr

namespace C17
open ICal

/-- **cache transparency** for every query history and every starting cache satisfying the invariant
    (in particular the empty one) -/
theorem cache_transparent (comps : List ZComp) (qs : List (Int × Bool)) :
    (runCached comps qs []).1 = qs.map (fun q => findCompIdx comps q.1 q.2) := by
  unfold runCached
  have := runCached_aux comps qs [] [] (by intro e he; cases he)
  simpa using this

/-- one step: answer equals the uncached one, the invariant is kept, size stays ≤ 10 -/
theorem cache_step (comps : List ZComp) (c : Cache) (w : Int) (fold : Bool) (h : CacheInv comps c)
    (hl : c.length ≤ 10) :
    (findCompCached comps c w fold).1 = findCompIdx comps w fold ∧
    CacheInv comps (findCompCached comps c w fold).2 ∧ (findCompCached comps c w fold).2.length ≤ 10 := by
  have := findCompCached_spec comps c w fold h
  refine ⟨this.1, this.2.1, ?_⟩
  have := this.2.2
  omega

/-- **latest-onset selection** (two components) -/
theorem select_two (a b : ZComp) (w : Int) (fold : Bool) :
    findCompIdx [a, b] w fold =
      (match findCompdt a w fold, findCompdt b w fold with
       | some da, some db => if da < db then 1 else 0
       | some _, none => 0
       | none, some _ => 1
       | none, none => if !a.isdst then 0 else if !b.isdst then 1 else 0) := ICal.select_two a b w fold

/-- **before the first onset** the first STANDARD component applies (any number of components) -/
theorem before_first_onset (comps : List ZComp) (w : Int) (fold : Bool) (hlen : comps.length ≠ 1)
    (hnone : ∀ c ∈ comps, findCompdt c w fold = none) :
    findCompIdx comps w fold = (match comps.findIdx? (fun c => !c.isdst) with | some i => i | none => 0) := by
  unfold findCompIdx
  have h1 : (comps.length == 1) = false := by simpa using hlen
  simp only [h1, Bool.false_eq_true, if_false]
  have : ∀ (l : List (ZComp × Nat)), (∀ ck ∈ l, findCompdt ck.1 w fold = none) →
      l.foldl (selStep w fold) none = none := by
    intro l hl
    induction l with
    | nil => rfl
    | cons a l ih =>
      simp only [List.foldl_cons, selStep]
      rw [hl a (List.mem_cons_self)]
      exact ih (fun ck h => hl ck (List.mem_cons_of_mem _ h))
  rw [this _ (fun ck hck => hnone ck.1 (List.fst_mem_of_mem_zipIdx hck))]
  rfl

/-- **VTIMEZONE = range zone** inside the cycle starting at `on`, in the year of `on` -/
theorem ical_eq_range_cycle (S D : List Int) (stdOff dstOff on off nextOn w : Int) (fold : Bool)
    (hsav : stdOff < dstOff) (h1 : on < off) (h2 : off + (dstOff - stdOff) ≤ nextOn)
    (hw1 : on ≤ w) (hw2 : w < nextOn)
    (H1 : ∀ x, on ≤ x → x < nextOn → lastLE D x = some on)
    (H2 : ∀ x, on ≤ x → x < off + (dstOff - stdOff) → ∀ p, lastLE S x = some p → p < on)
    (H3 : ∀ x, off + (dstOff - stdOff) ≤ x → x < nextOn + (dstOff - stdOff) → lastLE S x = some (off + (dstOff - stdOff))) :
    let comps := [{ tzoffsetfrom := dstOff, tzoffsetto := stdOff, isdst := false, onsets := S : ZComp },
                  { tzoffsetfrom := stdOff, tzoffsetto := dstOff, isdst := true, onsets := D : ZComp }]
    utcoffset comps w fold = (if rangeIsDst on off (dstOff - stdOff) w fold then dstOff else stdOff) ∧
    dst comps w fold = (if rangeIsDst on off (dstOff - stdOff) w fold then dstOff - stdOff else 0) := by
  intro comps
  have := two_comp_cycle S D stdOff dstOff on off nextOn w fold hsav h1 h2 hw1 hw2 H1 H2 H3
  rw [range_eq_cycle_same_year on off _ w fold h1 (by omega) hw1]
  exact ⟨this.2.1, this.2.2⟩

/-- `get`: by TZID; a single zone without naming it; 0 or more than one ⇒ ValueError -/
theorem get_semantics (vs : List VTz) :
    (vs.length = 1 → ICal.get vs none = .ok (some 0)) ∧
    (vs.length ≠ 1 → ICal.get vs none = .error .ValueError) ∧
    (∀ t, ICal.get vs (some t) = .ok (vs.findIdx? (·.tzid == t))) := by
  refine ⟨?_, ?_, fun t => rfl⟩
  · intro h; simp [ICal.get, h]
  · intro h
    unfold ICal.get
    by_cases h0 : vs.length = 0
    · simp [h0]
    · have : vs.length > 1 := by omega
      simp [h0, this]

/-- `_parse_offset` on the empty value raises ValueError (one input; the general length statement is next) -/
theorem parse_offset_empty : parseOffset [] = .error .ValueError := by decide

/-- `_parse_offset`: after stripping and removing one leading sign, any length other than 4 or 6 raises ValueError —
    for every text -/
theorem parse_offset_bad_length (s0 : List Char)
    (h : ∀ c rest, strip s0 = c :: rest →
      (let t := if c == '+' || c == '-' then rest else c :: rest; t.length ≠ 4 ∧ t.length ≠ 6)) :
    parseOffset s0 = .error .ValueError := by
  unfold parseOffset
  cases hs : strip s0 with
  | nil => rfl
  | cons c rest =>
    have := h c rest hs
    simp only []
    by_cases hp : c == '+'
    · simp only [hp, Bool.true_or, if_true] at this ⊢
      simp [this.1, this.2]
    · by_cases hm : c == '-'
      · simp only [hp, hm, Bool.false_or, if_true, Bool.or_true] at this ⊢
        simp [this.1, this.2]
      · simp only [hp, hm, Bool.or_self, Bool.false_eq_true, if_false] at this ⊢
        have h1 : rest.length ≠ 3 := by simpa using this.1
        have h2 : rest.length ≠ 5 := by simpa using this.2
        simp [h1, h2]

-- sanity / non-vacuity
example : parseOffset "+0530".toList = .ok 19800 := by decide
example : parseOffset "-013015".toList = .ok (-(3600 + 30 * 60 + 15)) := by decide
example : parseOffset "+01:00".toList = .error .ValueError := by decide
/-- concrete onset lists meeting `H1–H3` of `ical_eq_range_cycle` at sample points (two cycles) -/
example : lastLE [100, 1100] 500 = some 100 ∧ lastLE [-400, 610, 1610] 500 = some (-400) ∧
    lastLE [-400, 610, 1610] 700 = some 610 := by decide
/-- the repeated hour: fold 0 is daylight, fold 1 standard -/
example : let comps := [{ tzoffsetfrom := 10, tzoffsetto := 0, isdst := false, onsets := [-400, 610, 1610] : ZComp },
                        { tzoffsetfrom := 0, tzoffsetto := 10, isdst := true, onsets := [100, 1100] : ZComp }]
    utcoffset comps 605 false = 10 ∧ utcoffset comps 605 true = 0 := by decide

/-! ### the link to the recurrence rule -/

open Onsets in
/-- **the recurrence set of the component's rule.**  `DTSTART:<y0>0101T<hh><mm><ss>`,
    `RRULE:FREQ=YEARLY;BYMONTH=m;BYDAY=nWD` (POSIX week `w` ↔ `n = w`, `w = 5` ↔ `n = −1`; POSIX day
    0 = Sunday ↔ SU): the first `N` periods of the RFC 5545 recurrence set (`Spec.RRule.occ`) are one
    instant per year `y0 … y0+N−1`, on the POSIX rule date `Posix.ruleOrdinal y (.M m w d)` at the
    DTSTART time; in seconds they are strictly increasing. -/
theorem yearly_rule_occ (r : YRule) (y0 : Int) (N : Nat) (hv : r.Valid) (hy0 : 1 ≤ y0) (hN : y0 + N ≤ 10000) :
    Spec.RRule.occ (r.args y0) N =
      (List.range N).map (fun (k : Nat) =>
        ({ ord := Posix.ruleOrdinal (y0 + k) (.M r.m r.w r.d), h := r.hh, m := r.mm, s := r.ss } : RRule.Inst)) ∧
    (Spec.RRule.occ (r.args y0) N).map RRule.Inst.secs = r.onsets y0 N ∧
    ∀ k, r.onset y0 k < r.onset y0 (k + 1) :=
  ⟨occ_eq y0 r.hh r.mm r.ss r.m r.w r.d N hy0 hN hv.1 hv.2.1 hv.2.2, r.onsets_occ y0 N hv hy0 hN,
   onset_step y0 r.hh r.mm r.ss r.m r.w r.d hy0 hv.1 hv.2.1 hv.2.2⟩

open Onsets in
/-- **`H1–H3` of `ical_eq_range_cycle` discharged.**  DAYLIGHT onsets = the recurrence set of the
    start rule `rs`, STANDARD onsets = that of the end rule `re` (any prefix of `N` years from `y0`
    containing year `y0+j+1`); `on`, `off`, `nextOn` are the year-`(y0+j)` transitions
    (`off` on the standard side).  Northern order in this year and the next. -/
theorem onsets_of_yearly_rule (rs re : YRule) (y0 : Int) (N j : Nat) (sav : Int) (hvs : rs.Valid)
    (hve : re.Valid) (hy0 : 1 ≤ y0) (hN : y0 + N ≤ 10000) (hj : j + 1 < N) (hsav : 0 < sav)
    (hts : 0 ≤ rs.tod) (hte : re.tod < 86400)
    (hord : rs.onset y0 j + sav < re.onset y0 j)
    (hord' : rs.onset y0 (j + 1) + sav ≤ re.onset y0 (j + 1)) :
    let D := (Spec.RRule.occ (rs.args y0) N).map RRule.Inst.secs
    let S := (Spec.RRule.occ (re.args y0) N).map RRule.Inst.secs
    let on := Posix.ruleOrdinal (y0 + j) (.M rs.m rs.w rs.d) * 86400 + rs.tod
    let off := Posix.ruleOrdinal (y0 + j) (.M re.m re.w re.d) * 86400 + re.tod - sav
    let nextOn := rs.onset y0 (j + 1)
    on < off ∧ off + sav ≤ nextOn ∧
    (∀ x, on ≤ x → x < nextOn → lastLE D x = some on) ∧
    (∀ x, on ≤ x → x < off + sav → ∀ p, lastLE S x = some p → p < on) ∧
    (∀ x, off + sav ≤ x → x < nextOn + sav → lastLE S x = some (off + sav)) := by
  intro D S on off nextOn
  have e1 : D = rs.onsets y0 N := rs.onsets_occ y0 N hvs hy0 hN
  have e2 : S = re.onsets y0 N := re.onsets_occ y0 N hve hy0 hN
  rw [e1, e2]
  exact cycle_hyps rs re y0 N j sav hvs hve hy0 hj hsav hts hte hord hord'

open Onsets in
/-- **ical_eq_tzstr_partial.**  A VTIMEZONE whose STANDARD / DAYLIGHT components carry the yearly
    rules `re` / `rs` (onsets = their recurrence sets, `N` years from `y0`) and the tzstr zone `z` of
    the same rules (`C08.IsZoneOf`, viewed as a `tzrangebase`): at every wall time `w` of the cycle of
    year `y0+j` — from that year's start of daylight time to the next year's, across New Year — and
    either fold, both report the same UTC offset (gaps and the repeated hour included). -/
theorem ical_eq_tzstr_partial (rs re : YRule) (stdOff dstOff y0 : Int) (N j : Nat) (w : Int) (fold : Bool)
    (z : TzStr.Zone) (hz : C08.IsZoneOf (specOf rs re stdOff dstOff) z)
    (hvs : rs.Valid) (hve : re.Valid) (hy0 : 2 ≤ y0) (hN : y0 + N ≤ 9999) (hj : j + 1 < N) (hsav : stdOff < dstOff)
    (hts : 0 ≤ rs.tod) (hts2 : rs.tod < 86400)
    (hte0 : 0 ≤ re.tod - (dstOff - stdOff)) (hte2 : re.tod < 86400)
    (hord : rs.onset y0 j + (dstOff - stdOff) < re.onset y0 j)
    (hord' : rs.onset y0 (j + 1) + (dstOff - stdOff) < re.onset y0 (j + 1))
    (hw1 : rs.onset y0 j ≤ w) (hw2 : w < rs.onset y0 (j + 1)) :
    let comps : List ZComp :=
      [{ tzoffsetfrom := dstOff, tzoffsetto := stdOff, isdst := false,
         onsets := (Spec.RRule.occ (re.args y0) N).map RRule.Inst.secs },
       { tzoffsetfrom := stdOff, tzoffsetto := dstOff, isdst := true,
         onsets := (Spec.RRule.occ (rs.args y0) N).map RRule.Inst.secs }]
    (TZ.ofTzStr z).utcoffset ⟨w - TZ.epochShift, fold⟩ = .ok (utcoffset comps w fold) := by
  intro comps
  have e1 := rs.onsets_occ y0 N hvs (by omega) (by omega)
  have e2 := re.onsets_occ y0 N hve (by omega) (by omega)
  have hc : comps = compsOf rs re stdOff dstOff y0 N := by simp only [comps, compsOf, e1, e2]
  rw [hc, (ical_cycle rs re stdOff dstOff y0 N j w fold hvs hve (by omega) hj hsav hts hte2 hord
    (Int.le_of_lt hord') hw1 hw2).1]
  exact tzstr_cycle rs re stdOff dstOff y0 N j w fold z hz hvs hve hy0 (by omega) hsav hts hts2 hte0
    (by omega) hte2 hord hord' hw1 hw2

/-! non-vacuity: US rules (second Sunday of March 02:00 → first Sunday of November 02:00), 2020… -/
def usStart : Onsets.YRule := ⟨3, 2, 0, 2, 0, 0⟩
def usEnd : Onsets.YRule := ⟨11, 1, 0, 2, 0, 0⟩
example : usStart.Valid ∧ usEnd.Valid := by unfold Onsets.YRule.Valid usStart usEnd; decide
example : usStart.onset 2020 4 + 3600 < usEnd.onset 2020 4 ∧ usStart.onset 2020 5 + 3600 < usEnd.onset 2020 5 := by
  decide
/-- 2024: DST starts on 10 March, the second Sunday -/
example : usStart.onset 2020 4 = Cal.toOrdinal 2024 3 10 * 86400 + 7200 := by decide
example : (Spec.RRule.occ (usStart.args 2020) 3).map RRule.Inst.secs = usStart.onsets 2020 3 := by decide

end C17
