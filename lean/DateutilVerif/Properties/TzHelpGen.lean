/-
  Properties/TzHelpGen.lean — obligations that tie C05 to the CURRENT source of the module-level PEP 495 helpers:
  `datetime_exists`, `datetime_ambiguous` (all argument forms: aware dt; naive dt + tz; aware dt + tz) and `resolve_imaginary`
  (the text after the D-C05g repair) are re-translated from tz/tz.py on every run (harness/translate_tzhelp.py →
  Generated/TzHelpKernels.lean) and proved EQUAL to the helper models of Model/Zones.lean (`datetimeExistsArgs`,
  `datetimeAmbiguousArgs`, `resolveImaginaryArgs`), for every zone object other than the constant `UTC` itself (for which
  `astimezone` short-cuts by identity; separate lemma).  `exists_iff`, `ambiguous_iff`, `resolve_imaginary_of_exists` and
  `resolve_imaginary_gap` are restated about the translated helpers.
-/
import DateutilVerif.Properties.C05
import DateutilVerif.Generated.TzHelpKernels

set_option linter.unusedSimpArgs false
set_option linter.unusedVariables false

open TZ Spec Py HelpPy

namespace C05

/-- the datetime the helpers receive: wall reading, fold, tzinfo -/
def hdt (w : Wall) (dz : Option HelpPy.Zone) : HDt := { wall := w.wall, fold := w.fold, tz := dz }

/-- a zone object that is not the constant `UTC` -/
def NotUTC (z : Option HelpPy.Zone) : Prop := ∀ x, z = some x → x.id ≠ 0

theorem beq_comm_int (a b : Int) : (a == b) = (b == a) := by
  by_cases h : a = b
  · subst h; rfl
  · have h' : ¬ b = a := fun x => h x.symm
    rw [beq_eq_false_iff_ne.mpr h, beq_eq_false_iff_ne.mpr h']

theorem roundtrip_eq (Z : HelpPy.Zone) (hz : Z.id ≠ 0) (w : Wall) :
    (do let t1 ← astimezone (replaceTz (replaceTz (hdt w none) none) (some Z)) HelpPy.UTC
        let t3 ← astimezone t1 Z
        pure t3 : R HDt) =
    (do let o ← Z.ops.utcoffset w
        let rt ← Z.ops.fromutc (w.wall - o)
        pure ({ wall := rt.wall, fold := rt.fold, tz := some Z } : HDt)) := by
  have h0 : ¬ (0 = Z.id) := fun h => hz h.symm
  simp only [astimezone, replaceTz, hdt, HelpPy.UTC, hz, h0, ↓reduceIte, bind, Except.bind, pure, Except.pure]
  cases ho : Z.ops.utcoffset w with
  | error e => simp [ho]
  | ok o =>
      have : Z.ops.utcoffset { wall := w.wall, fold := w.fold } = .ok o := ho
      simp only [this, h0, ↓reduceIte, Int.sub_zero]
      cases Z.ops.fromutc (w.wall - o) <;> rfl

/-- **gen_datetime_exists_eq_model.** The translated `datetime_exists(dt, tz)` is the helper model, for every argument form:
    an explicit `tz` wins over the datetime's own zone, a naive datetime without `tz` is a ValueError. -/
theorem gen_datetime_exists_eq_model (w : Wall) (dz tz : Option HelpPy.Zone) (hd : NotUTC dz) (ht : NotUTC tz) :
    Gen.datetimeExists (hdt w dz) tz = datetimeExistsArgs (dz.map (·.ops)) (tz.map (·.ops)) w := by
  have key : ∀ Z : HelpPy.Zone, Z.id ≠ 0 → ∀ d0 : Option HelpPy.Zone,
      (do let t1 ← astimezone (replaceTz (replaceTz (hdt w d0) none) (some Z)) HelpPy.UTC
          let t2 ← (pure Z : R HelpPy.Zone)
          let t3 ← astimezone t1 t2
          pure ((replaceTz (hdt w d0) none).wall == (replaceTz t3 none).wall) : R Bool) = datetimeExists Z.ops w := by
    intro Z hz d0
    have h0 : ¬ (0 = Z.id) := fun h => hz h.symm
    have hw : ({ wall := w.wall, fold := w.fold } : Wall) = w := rfl
    unfold datetimeExists
    simp only [astimezone, replaceTz, hdt, HelpPy.UTC, hz, h0, ↓reduceIte, bind, Except.bind, pure, Except.pure, hw]
    cases ho : Z.ops.utcoffset w with
    | error e => rfl
    | ok o =>
        simp only [h0, ↓reduceIte, Int.sub_zero]
        cases hf : Z.ops.fromutc (w.wall - o) with
        | error e => rfl
        | ok rt =>
            simp only [Except.ok.injEq]
            exact beq_comm_int _ _
  unfold Gen.datetimeExists
  cases tz with
  | some Z =>
      have hz := ht Z rfl
      simp only [Option.isNone_some, Bool.false_eq_true, ↓reduceIte, datetimeExistsArgs, resolveZoneArg, Option.map_some,
        bind, Except.bind]
      have := key Z hz dz
      simp only [bind, Except.bind, pure, Except.pure] at this ⊢
      exact this
  | none =>
      cases dz with
      | none => simp [hdt, datetimeExistsArgs, resolveZoneArg, bind, Except.bind, throw, throwThe, MonadExceptOf.throw]
      | some Z =>
          have hz := hd Z rfl
          simp only [Option.isNone_none, ↓reduceIte, hdt, Option.isNone_some, Bool.false_eq_true, datetimeExistsArgs,
            resolveZoneArg, Option.map_some, Option.map_none, bind, Except.bind]
          have := key Z hz (some Z)
          simp only [hdt, bind, Except.bind, pure, Except.pure] at this ⊢
          exact this

/-- **gen_datetime_ambiguous_eq_model.** The translated `datetime_ambiguous(dt, tz)` is the helper model for every argument
    form, for zones that define `is_ambiguous` and whose `is_ambiguous` does not raise at this wall time (all dateutil zones). -/
theorem gen_datetime_ambiguous_eq_model (w : Wall) (dz tz : Option HelpPy.Zone)
    (hZ : ∀ Z, (tz.or dz) = some Z → Z.hasIsAmbiguous = true ∧ ∃ b, Z.ops.isAmbiguous w.wall = .ok b) :
    Gen.datetimeAmbiguous (hdt w dz) tz = datetimeAmbiguousArgs (dz.map (·.ops)) (tz.map (·.ops)) w := by
  unfold Gen.datetimeAmbiguous
  cases tz with
  | some Z =>
      obtain ⟨h1, b, h2⟩ := hZ Z (by simp)
      simp [hdt, datetimeAmbiguousArgs, datetimeAmbiguous, resolveZoneArg, HelpPy.hasIsAmbiguous, callIsAmbiguous, h1, h2,
        bind, Except.bind, pure, Except.pure]
  | none =>
      cases dz with
      | none => simp [hdt, datetimeAmbiguousArgs, resolveZoneArg, bind, Except.bind, throw, throwThe, MonadExceptOf.throw]
      | some Z =>
          obtain ⟨h1, b, h2⟩ := hZ Z (by simp)
          simp [hdt, datetimeAmbiguousArgs, datetimeAmbiguous, resolveZoneArg, HelpPy.hasIsAmbiguous, callIsAmbiguous, h1, h2,
            bind, Except.bind, pure, Except.pure]

/-- the fallback of `datetime_ambiguous` for a tzinfo WITHOUT `is_ambiguous`: fold changes the offset or the dst -/
theorem gen_datetime_ambiguous_fallback (w : Wall) (Z : HelpPy.Zone) (h : Z.hasIsAmbiguous = false) :
    Gen.datetimeAmbiguous (hdt w none) (some Z) =
      (do let o0 ← Z.ops.utcoffset ⟨w.wall, false⟩
          let o1 ← Z.ops.utcoffset ⟨w.wall, true⟩
          let d0 ← Z.dst ⟨w.wall, false⟩
          let d1 ← Z.dst ⟨w.wall, true⟩
          pure (!(o0 == o1 && d0 == d1))) := by
  unfold Gen.datetimeAmbiguous
  simp only [hdt, HelpPy.hasIsAmbiguous, h, replaceTz, enfold, HelpPy.utcoffset, HelpPy.dst, bind, Except.bind, pure,
    Except.pure, Option.isNone_some, Bool.false_eq_true, ↓reduceIte, Except.map]
  have f0 : decide ((0 : Int) ≠ 0) = false := by decide
  have f1 : decide ((1 : Int) ≠ 0) = true := by decide
  simp only [f0, f1]
  cases Z.ops.utcoffset ⟨w.wall, false⟩ with
  | error e => rfl
  | ok o0 =>
    cases Z.ops.utcoffset ⟨w.wall, true⟩ with
    | error e => rfl
    | ok o1 =>
      cases Z.dst ⟨w.wall, false⟩ with
      | error e => rfl
      | ok d0 =>
        cases Z.dst ⟨w.wall, true⟩ with
        | error e => rfl
        | ok d1 => simp

/-- **gen_resolve_imaginary_eq_model.** The translated `resolve_imaginary(dt)` (repaired text) is the helper model:
    a naive datetime and an existing time come back unchanged, a skipped time is moved by the UTC round trip's distance,
    fold reset, tzinfo kept. -/
theorem gen_resolve_imaginary_eq_model (w : Wall) (dz : Option HelpPy.Zone) (hd : NotUTC dz) :
    Gen.resolveImaginary (hdt w dz) =
      (resolveImaginaryArgs (dz.map (·.ops)) w).map (fun r => ({ wall := r.wall, fold := r.fold, tz := dz } : HDt)) := by
  unfold Gen.resolveImaginary
  cases dz with
  | none => simp [hdt, resolveImaginaryArgs, Except.map, bind, Except.bind, pure, Except.pure]
  | some Z =>
      have hz := hd Z rfl
      have hex := gen_datetime_exists_eq_model w (some Z) none hd (by intro x hx; cases hx)
      simp only [datetimeExistsArgs, resolveZoneArg, Option.map_some, Option.map_none, bind, Except.bind] at hex
      simp only [hdt, Option.isSome_some, ↓reduceIte, bind, Except.bind, pure, Except.pure, resolveImaginaryArgs,
        Option.map_some, TZ.resolveImaginary] at hex ⊢
      rw [hex]
      cases he : datetimeExists Z.ops w with
      | error e => simp [Except.map]
      | ok b =>
          cases b with
          | true => simp [Except.map]
          | false =>
              have h0 : ¬ (0 = Z.id) := fun h => hz h.symm
              have hw : ({ wall := w.wall, fold := w.fold } : Wall) = w := rfl
              simp only [Bool.not_false, ↓reduceIte, Bool.false_eq_true, astimezone, HelpPy.UTC, hz, h0, hw, addTd, replaceTz,
                Except.map]
              cases ho : Z.ops.utcoffset w with
              | error e => rfl
              | ok o =>
                  simp only [h0, ↓reduceIte, Int.sub_zero]
                  cases hf : Z.ops.fromutc (w.wall - o) with
                  | error e => rfl
                  | ok rt => rfl

/-! ### the C05 theorems about the helpers AS WRITTEN, on tzfile zones -/

/-- a tzfile zone object built from the table `r`, with identity `id` -/
def fileZone (r : Raw) (id : Nat) : HelpPy.Zone :=
  { id := id, ops := (build r).ops, dst := fun w => TZ.dst (build r) w, hasIsAmbiguous := true }

/-- **exists_iff_helper.** `datetime_exists(dt, tz)` as written, `tz` a tzfile zone, `dt` naive or attached to any zone:
    true exactly when the wall time has a pre-image. -/
theorem exists_iff_helper (r : Raw) (hwf : Spec.wf r = true) (hne : r.trans ≠ []) (w : Int) (f : Bool) (hcov : CovWall r w)
    (id : Nat) (hid : id ≠ 0) (dz : Option HelpPy.Zone) (hd : NotUTC dz) :
    Gen.datetimeExists (hdt ⟨w, f⟩ dz) (some (fileZone r id)) = .ok (decide (pre r w ≠ [])) := by
  rw [gen_datetime_exists_eq_model ⟨w, f⟩ dz _ hd (by intro x hx; cases hx; exact hid)]
  simp only [datetimeExistsArgs, resolveZoneArg, Option.map_some, bind, Except.bind]
  exact exists_iff r hwf hne w f hcov

/-- the same for the one-argument form `datetime_exists(aware_dt)` -/
theorem exists_iff_helper_aware (r : Raw) (hwf : Spec.wf r = true) (hne : r.trans ≠ []) (w : Int) (f : Bool) (hcov : CovWall r w)
    (id : Nat) (hid : id ≠ 0) :
    Gen.datetimeExists (hdt ⟨w, f⟩ (some (fileZone r id))) none = .ok (decide (pre r w ≠ [])) := by
  rw [gen_datetime_exists_eq_model ⟨w, f⟩ _ none (by intro x hx; cases hx; exact hid) (by intro x hx; cases hx)]
  simp only [datetimeExistsArgs, resolveZoneArg, Option.map_some, Option.map_none, bind, Except.bind]
  exact exists_iff r hwf hne w f hcov

/-- **ambiguous_iff_helper.** `datetime_ambiguous(dt, tz)` as written answers true exactly when two instants read `w`. -/
theorem ambiguous_iff_helper (r : Raw) (hwf : Spec.wf r = true) (hne : r.trans ≠ []) (w : Int) (f : Bool)
    (id : Nat) (dz : Option HelpPy.Zone) :
    ∃ b, Gen.datetimeAmbiguous (hdt ⟨w, f⟩ dz) (some (fileZone r id)) = .ok b ∧ (b = true ↔ (pre r w).length = 2) := by
  refine ⟨isAmbiguous (build r) w, ?_, ambiguous_iff r hwf hne w⟩
  rw [gen_datetime_ambiguous_eq_model ⟨w, f⟩ dz (some (fileZone r id))
    (by intro Z hZ; simp at hZ; subst hZ; exact ⟨rfl, _, rfl⟩)]
  rfl

/-- **resolve_imaginary_gap_helper.** `resolve_imaginary(dt)` as written (repaired text), `dt` attached to a tzfile zone
    and inside a gap of ANY width whose neighbouring transitions are at least one gap width away: moved forward by exactly
    the gap width, fold 0, same tzinfo, and the result exists. -/
theorem resolve_imaginary_gap_helper (r : Raw) (hwf : Spec.wf r = true) (w : Int) (f : Bool) (u ob oa : Int)
    (hu : u ∈ r.trans.map (fun p => p.1))
    (hob : offsetAt r (u - 1) = some ob) (hoa : offsetAt r u = some oa)
    (hgap : u + ob ≤ w ∧ w < u + oa)
    (hnext : ∀ u' ∈ r.trans.map (fun p => p.1), u < u' → u + (oa - ob) ≤ u')
    (hprev : ∀ u' ∈ r.trans.map (fun p => p.1), u' < u → u' + (oa - ob) ≤ u)
    (hcov : LastStd (build r) ∨ ∃ u' ∈ r.trans.map (fun p => p.1), u < u')
    (id : Nat) (hid : id ≠ 0) :
    Gen.resolveImaginary (hdt ⟨w, f⟩ (some (fileZone r id))) =
      .ok { wall := w + (oa - ob), fold := false, tz := some (fileZone r id) } ∧ pre r (w + (oa - ob)) ≠ [] := by
  obtain ⟨_, h2, h3⟩ := resolve_imaginary_gap r hwf w f u ob oa hu hob hoa hgap hnext hprev hcov
  refine ⟨?_, h3⟩
  rw [gen_resolve_imaginary_eq_model ⟨w, f⟩ _ (by intro x hx; cases hx; exact hid)]
  simp only [resolveImaginaryArgs, Option.map_some]
  have : (fileZone r id).ops = (build r).ops := rfl
  rw [this, h2]; rfl

/-- existing times come back unchanged (`resolve_imaginary_of_exists` about the helper as written) -/
theorem resolve_imaginary_of_exists_helper (w : Wall) (Z : HelpPy.Zone) (hz : Z.id ≠ 0)
    (h : datetimeExists Z.ops w = .ok true) :
    Gen.resolveImaginary (hdt w (some Z)) = .ok (hdt w (some Z)) := by
  rw [gen_resolve_imaginary_eq_model w _ (by intro x hx; cases hx; exact hz)]
  simp only [resolveImaginaryArgs, Option.map_some, resolve_imaginary_of_exists Z.ops w h]
  rfl

/-- `datetime_exists(dt, UTC)` with the constant `UTC` itself: `astimezone` short-cuts by identity and the answer is True -/
theorem gen_datetime_exists_utc (w : Wall) (dz : Option HelpPy.Zone) :
    Gen.datetimeExists (hdt w dz) (some HelpPy.UTC) = .ok true := by
  unfold Gen.datetimeExists
  simp [hdt, astimezone, replaceTz, HelpPy.UTC, bind, Except.bind, pure, Except.pure]

/-! non-vacuity on `exR` (+0 / +1 h): 1001800 is skipped, 2000100 is read twice -/
example : Gen.datetimeExists (hdt ⟨1001800, false⟩ none) (some (fileZone exR 1)) = .ok false := by decide
example : Gen.datetimeExists (hdt ⟨1001800, true⟩ (some (fileZone exR 1))) none = .ok false := by decide
example : Gen.datetimeAmbiguous (hdt ⟨2000100, false⟩ (some (fileZone exR 2))) (some (fileZone exR 1)) = .ok true := by decide
example : (Gen.resolveImaginary (hdt ⟨1001800, true⟩ (some (fileZone exR 1)))).map (fun d => (d.wall, d.fold)) = .ok (1005400, false) := by
  decide
example : (Gen.datetimeExists (hdt ⟨5, false⟩ none) none) = .error .ValueError := by decide

end C05
