/-
  Properties/C01.lean — rrule yields exactly the RFC 5545 recurrence set, in order.

  Model: `Model/RRule.lean` (`construct`, `rebuild`, `dayset`, `dayFiltered`, `emit`, `advance`, `iter`);
  specification: `Spec/RRule.lean` (`periodIndex`, `byOk`, `cand`, `sel`, `occ`).  The tables the
  model indexes are the ones dumped from /repo's module on this run (`Gen.*`).

  The full-strength statement (DESIGN §4 C01) is

      theorem iter_eq_spec (a : Args) (r : Rule) (h : construct a = .ok r) (hs : Supported a) (n : Nat)
          (hn : the first n periods lie inside 0001..9999) : (iter r n).1 = Spec.RRule.occ a n

  with `Supported` = the negation of the known defect classes D-C01a/c/d/e.  What is proved of it
  here is `iter_eq_spec_daily_partial`, `iter_eq_spec_weekly_partial` and
  `iter_eq_spec_yearly_monthly_partial`: the four calendar frequencies DAILY, WEEKLY, MONTHLY, YEARLY
  with any INTERVAL ≥ 1, BYMONTH, BYMONTHDAY, BYYEARDAY, plain BYDAY (any BYDAY for DAILY / WEEKLY,
  where nth members are demoted), BYHOUR, BYMINUTE, BYSECOND, BYSETPOS (DAILY / MONTHLY / YEARLY; WEEKLY
  only when the start is on the week start, see D-C01e), the defaults taken from the start, COUNT, UNTIL (for WEEKLY: UNTIL not before
  the start), plus `iter_eq_spec_monthly_nth_partial` / `iter_eq_spec_yearly_nth_partial` /
  `iter_eq_spec_yearly_bymonth_nth_partial`: nth weekdays counted inside the month (MONTHLY, or YEARLY
  with BYMONTH) or the year (YEARLY without BYMONTH).  And `iter_eq_spec_yearly_easter_partial`: YEARLY with BYEASTER
  offsets −80..250 in 1583..4099, and `iter_eq_spec_yearly_weekno_partial`: YEARLY with BYWEEKNO on the
  complement of D-C01c (any week start, plain BYDAY and BYMONTHDAY allowed).  And `iter_eq_spec_hourly_partial` /
  `iter_eq_spec_hourly_byhour_partial` / `iter_eq_spec_minutely_partial` / `iter_eq_spec_secondly_partial`: HOURLY
  with or without BYHOUR (`mod_distance_least`: `__mod_distance` is exact), MINUTELY without BYHOUR (with or without BYMINUTE),
  SECONDLY without BYHOUR / BYMINUTE / BYSECOND, through a refinement with skipping (one turn of the loop may
  pass over several periods of the specification; `n` turns = the first `m` periods, `n ≤ m ≤ 24·n` resp.
  `48·n`, `1440·n`, `86400·n`).  All of these are assembled in `iter_eq_spec_supported_partial` over the
  decidable predicate `SupportedBy` (Spec/RRuleSupported.lean; driver op `rrule.supported`).
  And `iter_eq_spec_secondly_byhour_byminute_partial` / `iter_eq_spec_secondly_bysecond_partial`: SECONDLY with any
  combination of BYHOUR / BYMINUTE / BYSECOND under the decidable reachability hypotheses `reachableS` / `reachableSS`
  (the multi-pass loop `secondlyLoop`, with `__mod_distance` as its inner step when BYSECOND is given, stops at the
  least grid second whose hour, minute and second are listed).
  And `iter_eq_spec_minutely_byhour_byminute_partial`: MINUTELY with BYMINUTE and optional BYHOUR (in particular both
  together) under `reachableMM`.
  And `iter_eq_spec_byeaster_below_yearly_partial`: BYEASTER (−80..250, 1583..4099) under DAILY and every sub-daily family.
  And `iter_eq_spec_monthly_easter_partial` / `iter_eq_spec_weekly_easter_partial` (WEEKLY: offsets −74..250, the exact class).
  And `iter_eq_spec_nth_weekno_partial`: nth BYDAY together with BYWEEKNO (MONTHLY, YEARLY with / without BYMONTH).
  And `iter_eq_spec_easter_mixed_partial`: BYEASTER with nth BYDAY (MONTHLY / YEARLY) and YEARLY BYWEEKNO + BYEASTER.
  Missing: BYEASTER together with BYWEEKNO below YEARLY, nth BYDAY + BYWEEKNO + BYEASTER all three, nth BYDAY with plain BYDAY
  (all of it inside D-C01a).  Everything else below — including
  `iter_strictMono` for all seven frequencies — is proved for ALL rules / all argument sets, with no
  `Supported` hypothesis (so also inside the known-defect classes).
-/
import DateutilVerif.Proofs.RRuleDaily
import DateutilVerif.Proofs.RRuleMonoAll
import DateutilVerif.Proofs.RRuleYM
import DateutilVerif.Proofs.RRuleWeekly
import DateutilVerif.Proofs.RRuleEaster
import DateutilVerif.Proofs.RRuleNth
import DateutilVerif.Proofs.RRuleValid
import DateutilVerif.Proofs.RRuleNthMonthly
import DateutilVerif.Proofs.RRuleNthYearly
import DateutilVerif.Proofs.RRuleNthYM
import DateutilVerif.Proofs.RRuleEasterYearly
import DateutilVerif.Proofs.RRuleWeeknoYearly
import DateutilVerif.Proofs.RRuleOrig
import DateutilVerif.Proofs.RRuleSecondly
import DateutilVerif.Proofs.RRuleSupported
import DateutilVerif.Proofs.RRuleAmbient
import DateutilVerif.Proofs.RRuleDailyW
import DateutilVerif.Proofs.RRuleMonthlyW
import DateutilVerif.Proofs.RRuleMinutelyBH
import DateutilVerif.Proofs.RRuleSecondlyBS
import DateutilVerif.Proofs.RRuleMinutelyBHM
import DateutilVerif.Proofs.RRuleWeeklyW
import DateutilVerif.Proofs.RRuleInterleave
import DateutilVerif.Proofs.RRuleDropInterval
import DateutilVerif.Proofs.RRuleNthWYearly
import DateutilVerif.Proofs.RRuleNthWYM
import DateutilVerif.Proofs.RRuleNthEYearly
import DateutilVerif.Proofs.RRuleNthEYM
import DateutilVerif.Proofs.RRuleWeeknoEYearly
import DateutilVerif.Proofs.RRuleConstructSetIter

namespace C01
open RRule Cal RRule.Tables

/-! ### 1. the dumped tables, every entry, against the calendar -/

/-- **month mask** — all 373 + 372 entries: `M36xMASK[i]` is the month of the `i`-th day of a
    (leap / common) year; the 7 extra entries are January of the next year. -/
theorem mmask_table (leap : Bool) (i : Int) (h0 : 0 ≤ i) (h1 : i < (if leap then 366 else 365) + 7) :
    Py.getIdx (if leap then Gen.M366MASK else Gen.M365MASK) i =
      .ok (if i < (if leap then 366 else 365) then monthOfYday leap i else 1) :=
  mmask_spec leap i h0 h1

/-- **month-day mask** — all entries: the day of the month (1..7 for the tail). -/
theorem mdaymask_table (leap : Bool) (i : Int) (h0 : 0 ≤ i) (h1 : i < (if leap then 366 else 365) + 7) :
    Py.getIdx (if leap then Gen.MDAY366MASK else Gen.MDAY365MASK) i =
      .ok (if i < (if leap then 366 else 365) then (monthDayOfYday leap i).2
           else i - (if leap then 366 else 365) + 1) :=
  mdaymask_spec leap i h0 h1

/-- **negative month-day mask** — all entries: the day counted from the end of its month. -/
theorem nmdaymask_table (leap : Bool) (i : Int) (h0 : 0 ≤ i) (h1 : i < (if leap then 366 else 365) + 7) :
    Py.getIdx (if leap then Gen.NMDAY366MASK else Gen.NMDAY365MASK) i =
      .ok (if i < (if leap then 366 else 365)
           then (monthDayOfYday leap i).2 - dimL leap (monthOfYday leap i) - 1
           else i - (if leap then 366 else 365) + 1 - 31 - 1) :=
  nmdaymask_spec leap i h0 h1

/-- **weekday mask** — all 385 entries: `WDAYMASK[i] = i mod 7`. -/
theorem wdaymask_table (i : Int) (h0 : 0 ≤ i) (h1 : i < 385) : Py.getIdx Gen.WDAYMASK i = .ok (i % 7) :=
  wdaymask_spec i h0 h1

/-- **month ranges** — all 13 entries of `M366RANGE` / `M365RANGE`: days before month `m+1`. -/
theorem mrange_table (leap : Bool) (m : Int) (h0 : 0 ≤ m) (h1 : m ≤ 12) :
    Py.getIdx (if leap then Gen.M366RANGE else Gen.M365RANGE) m =
      .ok (dbmTable (m + 1) + (if m + 1 > 2 && leap then 1 else 0)) :=
  mrange_spec leap m h0 h1

/-- the masks of a rebuilt year, read as dates: index `i` of year `y` is the date with ordinal
    `toOrdinal y 1 1 + i`, and the four table-backed masks hold that date's month, day, day from
    the month's end and weekday — all `yearlen + 7` indices, every year 1..9999. -/
theorem masks_are_dates (r : Rule) (y m : Int) (info : Info) (h : rebuild r y m = .ok info) (i : Int)
    (h0 : 0 ≤ i) (h1 : i < info.yearlen + 7) :
    info.yearordinal = toOrdinal y 1 1 ∧ info.yearlen = daysInYear y ∧
    Py.getIdx info.mmask i = .ok (fromOrdinal (info.yearordinal + i)).2.1 ∧
    Py.getIdx info.mdaymask i = .ok (fromOrdinal (info.yearordinal + i)).2.2 ∧
    Py.getIdx info.nmdaymask i = .ok ((fromOrdinal (info.yearordinal + i)).2.2 -
        daysInMonth (fromOrdinal (info.yearordinal + i)).1 (fromOrdinal (info.yearordinal + i)).2.1 - 1) ∧
    Py.getIdx info.wdaymask i = .ok (weekdayOfOrd (info.yearordinal + i)) := by
  have f := rebuild_facts r y m info h
  have hlen : info.yearlen ≤ 366 := by rw [f.yearlen]; unfold daysInYear; split <;> omega
  exact ⟨f.yearordinal, f.yearlen, mmask_date f i h0 h1, mdaymask_date f i h0 h1,
         nmdaymask_date f i h0 h1, wdaymask_date f i h0 (by omega)⟩

/-- **the Easter mask on the supported class** (the complement of D-C01d): for every year 1583..4099
    (where C19 ties `easter.easter` to Meeus/Jones/Butcher) and offsets −80..250, building the mask
    raises nothing, no index wraps around, and index `j` is marked exactly when the date at `j` is
    Easter Sunday of that year plus one of the offsets — all `yearlen + 7` indices.  (Mask lemma only:
    BYEASTER is not yet part of the proved portion of `iter_eq_spec`.) -/
theorem eastermask_marks_easter_offsets (byeaster : List Int) (y : Int) (hy1 : 1583 ≤ y) (hy2 : y ≤ 4099)
    (hoff : ∀ o ∈ byeaster, -80 ≤ o ∧ o ≤ 250) :
    ∃ mask, buildEastermask byeaster y (daysInYear y) (toOrdinal y 1 1) = .ok mask ∧
      ∀ j, 0 ≤ j → j < daysInYear y + 7 →
        Py.getIdx mask j = .ok (if (toOrdinal y 1 1 + j - Spec.RRule.easterOrd y) ∈ byeaster then 1 else 0) :=
  eastermask_spec byeaster y hy1 hy2 hoff

/-- **the nth-weekday mask of a MONTHLY rule** (with the range guard of the D-C01b fix): for every
    year, month and list of `(weekday, n)` pairs (`n ≠ 0`, any magnitude — e.g. `MO(8)`), building the
    mask raises nothing, and index `j` is marked exactly when its date lies in the cursor's month, has
    the weekday of one of the pairs and is the `n`-th such weekday of the month counted from the start
    (`n > 0`) or from the end (`n < 0`).  (Mask lemma only: nth BYDAY is not yet part of the proved
    portion of `iter_eq_spec`.) -/
theorem nwdaymask_marks_nth_weekdays (r : Rule) (y m : Int) (info : Info) (h : rebuild r y m = .ok info)
    (hf : r.freq = 1) (nwl : List (Int × Int)) (hne : nwl ≠ []) (hnw : r.bynweekday = some nwl)
    (hok : ∀ wn ∈ nwl, (0 ≤ wn.1 ∧ wn.1 ≤ 6) ∧ wn.2 ≠ 0) (month : Int) (hm1 : 1 ≤ month) (hm12 : month ≤ 12) :
    ∃ mask, buildNwdaymask r info.yearlen info.mrange info.wdaymask month = .ok (some mask) ∧
      (mask.length : Int) = info.yearlen ∧
      ∀ j : Int, 0 ≤ j → j < info.yearlen →
        Py.getIdx mask j = .ok (if ∃ wn ∈ nwl, marks info (daysBeforeMonth y month)
            (daysBeforeMonth y month + daysInMonth y month - 1) j wn then 1 else 0) :=
  nwdaymask_monthly (rebuild_facts r y m info h) hf nwl hne hnw hok month hm1 hm12

/-- **the week-number mask** (lines 1157-1222, after the fix of D-C01f), on the complement of D-C01c
    (`WnoOk`: a listed 52/53 comes with −1, a listed −52/−53 comes with 1): for every year 1..9999, every
    week start and every such BYWEEKNO list the mask is built without raising, and inside the year an
    index is marked iff the date's week number (weeks of ≥ 4 days, `Spec.RRule.weekOf`), or that number
    counted from the end of its week-year, is listed — including the days of early January that belong to
    last year's last week and the days of late December that belong to next year's week 1. -/
theorem wnomask_marks_listed_weeks (r : Rule) (y m : Int) (info : Info) (h : rebuild r y m = .ok info)
    (wkst : Int) (hw : 0 ≤ wkst ∧ wkst ≤ 6) (bw : List Int) (hc : WnoOk bw) :
    ∃ mask, buildWnomask wkst bw y info.yearlen info.yearweekday info.wdaymask = .ok mask ∧
      (mask.length : Int) = info.yearlen + 7 ∧
      ∀ j : Int, 0 ≤ j → j < info.yearlen →
        Py.getIdx mask j = .ok (if weekClause wkst bw (info.yearordinal + j) = true then 1 else 0) :=
  buildWnomask_spec (rebuild_facts r y m info h) wkst hw bw hc

/-- week arithmetic behind it: week 1 starts within three days of Jan 1 on the week start, and every
    week-year has 52 or 53 weeks -/
theorem week_years (w y : Int) (hw : 0 ≤ w ∧ w ≤ 6) :
    weekdayOfOrd (Spec.RRule.week1Start w y) = w ∧
    toOrdinal y 1 1 - 3 ≤ Spec.RRule.week1Start w y ∧ Spec.RRule.week1Start w y ≤ toOrdinal y 1 1 + 3 ∧
    ∃ q, Spec.RRule.week1Start w (y + 1) - Spec.RRule.week1Start w y = 7 * q ∧ (q = 52 ∨ q = 53) := by
  have e := week1Start_eq w y
  have r := w1off_range w (weekdayOfOrd (toOrdinal y 1 1))
  exact ⟨week1Start_weekday w y hw, by omega, by omega, weeks_in_year w y hw⟩

/-! ### 2. the constructor -/

/-- what `__init__` copies, and that the start loses its microseconds -/
theorem construct_copies (a : Args) (r : Rule) (h : construct a = .ok r) :
    r.freq = a.freq ∧ r.interval = a.interval ∧ r.wkst = a.wkst.getD 0 ∧ r.tz = a.tz ∧
    r.count = a.count ∧ r.untilDT = a.untilDT ∧ r.dtstart = { a.dtstart with us := 0 } := by
  have := construct_fields a r h
  exact ⟨this.1, this.2.1, this.2.2.1, this.2.2.2.1, this.2.2.2.2.1, this.2.2.2.2.2.1, this.2.2.2.2.2.2.1⟩

/-- **defaults from the start** (no BYWEEKNO/BYYEARDAY/BYMONTHDAY/BYDAY/BYEASTER given):
    YEARLY → the start's month (unless BYMONTH) and month day; MONTHLY → month day; WEEKLY → weekday -/
theorem construct_defaults (a : Args) (r : Rule) (h : construct a = .ok r) (hn : noDayParts a = true)
    (hd : 0 < a.dtstart.d) :
    (a.freq = 0 → a.bymonth = none → r.bymonth = some [a.dtstart.m] ∧ r.bymonthday = [a.dtstart.d] ∧
        r.bynmonthday = [] ∧ r.byweekday = none ∧ r.bynweekday = none) ∧
    (a.freq = 1 → r.bymonthday = [a.dtstart.d] ∧ r.bynmonthday = []) ∧
    (a.freq = 2 → r.byweekday = some [a.dtstart.weekday] ∧ r.bynweekday = none ∧
        r.bymonthday = [] ∧ r.bynmonthday = []) :=
  ⟨fun hf hm => construct_default_yearly a r h hn hf hm hd,
   fun hf => (construct_default_monthly a r h hn hf hd).2,
   fun hf => construct_default_weekly a r h hn hf⟩

/-- nth weekdays are demoted to plain weekdays above MONTHLY -/
theorem construct_nth_only_yearly_monthly (a : Args) (r : Rule) (h : construct a = .ok r) (hf : a.freq > 1) :
    r.bynweekday = none ∨ r.bynweekday = some [] := construct_nth_demoted a r h hf

/-- **ValueError classes of the constructor**: a BYSETPOS member 0 or outside ±366; HOURLY with a
    BYHOUR none of whose members is reachable from the start's hour in steps of INTERVAL mod 24 -/
theorem construct_ValueError (a : Args) :
    (∀ l p, a.bysetpos = some l → p ∈ l → (p = 0 ∨ p < -366 ∨ 366 < p) → construct a = .error .ValueError) ∧
    (∀ l, a.freq = 4 → a.byhour = some l → (∃ sp, normBysetpos a = .ok sp) →
      (∀ x ∈ l, ¬ ((Int.gcd a.interval 24 : Int) = 1 ∨
                    Py.fmod (x - a.dtstart.hh) (Int.gcd a.interval 24 : Int) = 0)) →
      construct a = .error .ValueError) :=
  ⟨fun l p hl hp hb => construct_bysetpos_ValueError a l p hl hp hb,
   fun l hf hl hsp hx => construct_byhour_unreachable a l hf hl hsp hx⟩

/-- **the constructor is idempotent on what it records**: `origArgs a r` is the model of
    `self._original_rule` plus the scalar attributes that `replace()` and `__str__` read (checked
    against the real object by the `rrule.orig` op); constructing from it gives the same rule, field
    for field, time set included.  C12 (`replace`) and C13 (`str` round trip) lean on this.  The one
    excluded input is the literal `bysetpos=()`: stored as `()`, not recorded, rebuilt as `None`. -/
theorem construct_origArgs (a : Args) (r : Rule) (h : construct a = .ok r) (hsp : a.bysetpos ≠ some []) :
    construct (origArgs a r) = .ok r := RRule.construct_origArgs a r h hsp

/-- … and that exclusion is real: `bysetpos=()` is not reproduced -/
example : (do let r ← construct { freq := 3, dtstart := ⟨2000, 1, 1, 0, 0, 0, 0⟩, bysetpos := some [] }
              let r' ← construct (origArgs { freq := 3, dtstart := ⟨2000, 1, 1, 0, 0, 0, 0⟩, bysetpos := some [] } r)
              pure (r.bysetpos, r'.bysetpos)) = .ok (some [], none) := by decide +kernel

/-- **the constructed rule depends only on the SET of members of each BY list** — `set(bymonth)`, `set(byhour)`, … in
    `__init__`: repeated members, any order, any container spelling of BYMONTH / BYMONTHDAY / BYYEARDAY / BYWEEKNO / BYDAY /
    BYHOUR / BYMINUTE / BYSECOND give the SAME rule object state (normalised tuples, positive / negative month-day split,
    plain / nth weekday split, reachability filter of the own unit, time set) or the same ValueError — for every frequency.
    BYSETPOS is kept as given (`tuple(bysetpos)`: equal here) and BYEASTER as `tuple(sorted(byeaster))` (equal up to order
    here; with repetitions the rule differs in that field only and iterates identically: `byeaster_repetitions_invisible`).
    The harness feeds repeated / unsorted members for every BY part x every frequency to constructor and iteration. -/
theorem construct_perm_dup_invariant (a a' : Args) (h : SetEquiv a a') : construct a = construct a' :=
  RRule.construct_perm_dup_invariant a a' h

/-- … and repeated BYEASTER members change nothing that is iterated: same values, same terminal status, all fuels -/
theorem byeaster_repetitions_invisible (a : Args) (el el' : List Int) (ha : a.byeaster = some el)
    (hm : ∀ x, x ∈ el ↔ x ∈ el') (r r' : Rule) (h : construct a = .ok r)
    (h' : construct { a with byeaster := some el' } = .ok r') (n : Nat) : iter r' n = iter r n :=
  construct_easter_dup_iter a el el' ha hm r r' h h' n

-- BYHOUR 20,8,20 / BYSECOND 5,5 against 8,20 / 5: the same rule
example : SetEquiv { freq := 3, dtstart := ⟨2024, 2, 28, 9, 30, 0, 0⟩, byhour := some [20, 8, 20], bysecond := some [5, 5] }
                   { freq := 3, dtstart := ⟨2024, 2, 28, 9, 30, 0, 0⟩, byhour := some [8, 20], bysecond := some [5] } :=
  { freq := rfl, dtstart := rfl, tz := rfl, interval := rfl, wkst := rfl, count := rfl, untilDT := rfl, bysetpos := rfl,
    byeaster := Or.inl ⟨rfl, rfl⟩, bymonth := Or.inl ⟨rfl, rfl⟩, bymonthday := Or.inl ⟨rfl, rfl⟩,
    byyearday := Or.inl ⟨rfl, rfl⟩, byweekno := Or.inl ⟨rfl, rfl⟩, byweekday := Or.inl ⟨rfl, rfl⟩,
    byhour := Or.inr ⟨_, _, rfl, rfl, by intro x; simp; omega⟩, byminute := Or.inl ⟨rfl, rfl⟩,
    bysecond := Or.inr ⟨_, _, rfl, rfl, by intro x; simp⟩ }

/-- **the ambient first weekday is an input only when `wkst` is not supplied.**  `constructW k a` is
    `rrule.__init__` while `calendar.firstweekday()` is `k` (process-wide, `calendar.setfirstweekday`);
    `construct` is the case `k = 0`, the interpreter's default.  With an explicit `wkst` — including `wkst=MO`
    / `wkst=0` — the built rule, hence everything iterated from it, does not depend on `k`; without `wkst` the
    week start is `k`.  (The per-run correspondence and oracle streams build rules under every `k = 0..6`.) -/
theorem explicit_wkst_ignores_ambient (k : Int) (a : Args) :
    (∀ w, a.wkst = some w → constructW k a = construct a) ∧
    (a.wkst = none → constructW k a = construct { a with wkst := some k }) ∧
    constructW 0 a = construct a :=
  ⟨fun w h => constructW_explicit k a w h, constructW_none k a, constructW_zero a⟩

/-- … and the exactness theorems hold under every ambient first weekday, read on the resolved arguments -/
theorem iter_eq_spec_supported_ambient_partial (k : Int) (a : Args) (r : Rule) (h : constructW k a = .ok r) (f : Family)
    (hs : SupportedBy (resolveW k a) f) (n : Nat) (hr : inRange (resolveW k a) f n) :
    ∃ m, n ≤ m ∧ m ≤ f.periodsPerTurn * n ∧ (iter r n).1 = Spec.RRule.occ (resolveW k a) m :=
  iter_eq_spec_supported_ambient k a r h f hs n hr

/-- the integrator's example: WEEKLY, interval 2, TU+SU from Tue 1997-08-05, explicit `wkst=MO`, built while the
    ambient first weekday is Sunday: the weeks still start on Monday -/
example : (match constructW 6 { freq := 2, interval := 2, count := some 4, wkst := some 0,
                                dtstart := ⟨1997, 8, 5, 9, 0, 0, 0⟩, byweekday := some [(1, 0), (6, 0)] } with
           | .ok r => (iterDT r 4).1.map (fun (t : DT) => (t.m, t.d)) | .error _ => []) =
    [(8, 5), (8, 10), (8, 19), (8, 24)] := by decide +kernel
/-- … and without `wkst` they start on Sunday -/
example : (match constructW 6 { freq := 2, interval := 2, count := some 4,
                                dtstart := ⟨1997, 8, 5, 9, 0, 0, 0⟩, byweekday := some [(1, 0), (6, 0)] } with
           | .ok r => (iterDT r 4).1.map (fun (t : DT) => (t.m, t.d)) | .error _ => []) =
    [(8, 5), (8, 17), (8, 19), (8, 31)] := by decide +kernel

/-! ### 3. every rule, every fuel: start / until / count, whole seconds -/

/-- **never before the start** — every rule (not only constructed ones), every number of periods -/
theorem iter_ge_dtstart (r : Rule) (n : Nat) : ∀ x ∈ (iter r n).1, r.dtstart.toMicros ≤ x.micros := by
  unfold iter; split
  · intro x hx; simp at hx
  · exact run_forall r _ (step_ge_start r) n _

/-- **never after UNTIL** -/
theorem iter_le_until (r : Rule) (n : Nat) (u : DT) (hu : r.untilDT = some u) :
    ∀ x ∈ (iter r n).1, x.micros ≤ u.toMicros := by
  have : ∀ x ∈ (iter r n).1, afterUntil r x = false := by
    unfold iter; split
    · intro x hx; simp at hx
    · exact run_forall r _ (step_not_after_until r) n _
  intro x hx
  have := this x hx
  unfold afterUntil at this; rw [hu] at this
  simpa using this

/-- **at most COUNT values** -/
theorem iter_count (r : Rule) (n : Nat) (c : Int) (hc : r.count = some c) :
    ((iter r n).1.length : Int) ≤ max c 0 := by
  unfold iter; split
  · simp; omega
  · rename_i st hinit
    exact run_count r n st c ((init_count r st hinit).trans hc)

/-- **strictly increasing, no duplicates** — every rule the constructor accepts (valid start,
    week start 0..6; INTERVAL ≥ 1 is now implied by `construct a = .ok r`, see `construct_interval_positive`), all seven frequencies, every combination of BY parts including
    BYSETPOS and the known-defect classes, any COUNT / UNTIL, every number of periods: the yielded
    instants are strictly increasing.  (Invariants: the cursor is a valid date with rebuilt year
    facts; `__mod_distance` and the MINUTELY / SECONDLY reachability loops advance by a positive
    multiple of INTERVAL; consecutive periods occupy disjoint increasing windows; inside a period the
    candidates are `sorted days × strictly sorted time set`, or the sorted duplicate-free BYSETPOS list.) -/
theorem iter_strictMono (a : Args) (r : Rule) (h : construct a = .ok r)
    (hw : 0 ≤ a.wkst.getD 0 ∧ a.wkst.getD 0 ≤ 6) (hv : a.dtstart.Valid)
    (hf : 0 ≤ a.freq ∧ a.freq ≤ 6) (n : Nat) :
    (iter r n).1.Pairwise (fun x y => x.secs < y.secs) :=
  iter_strictMono_all' a r h hw hv hf n

/-- **real datetimes, strictly increasing at the `datetime` level** — all seven frequencies, every
    constructed rule: every yielded value went through a successful `date.fromordinal` (ordinal in
    1..3652059) and carries a valid wall time of the period's time set, so it is a valid `datetime`
    with whole seconds; and the `datetime`s themselves are strictly increasing. -/
theorem iterDT_strictMono_valid (a : Args) (r : Rule) (h : construct a = .ok r)
    (hw : 0 ≤ a.wkst.getD 0 ∧ a.wkst.getD 0 ≤ 6) (hv : a.dtstart.Valid)
    (hf : 0 ≤ a.freq ∧ a.freq ≤ 6) (n : Nat) :
    (iterDT r n).1.Pairwise (fun s t => s.toMicros < t.toMicros) ∧ ∀ t ∈ (iterDT r n).1, t.Valid ∧ t.us = 0 :=
  RRule.iterDT_strictMono_valid' a r h hw hv hf n

/-- **whole seconds**: every yielded datetime has `microsecond = 0` (the tzinfo is the rule's
    opaque tag `r.tz`, attached to every value by construction) -/
theorem iter_whole_seconds (r : Rule) (n : Nat) : ∀ t ∈ (iterDT r n).1, t.us = 0 := by
  intro t ht
  unfold iterDT at ht
  simp only [List.mem_map] at ht
  obtain ⟨x, _, rfl⟩ := ht
  rfl

/-! ### 3b. one rule object, several live iterators -/

/-- **interleaved iterators of one rule object do not interfere.**  The object is the immutable normalised `Rule` plus the one
    attribute an iteration writes, `_len` (`Obj`); every live iterator has its own generator state (`IterSlot`: `State`, what it
    has yielded, how it ended); an event creates an iterator in a slot (`iter(obj)`) or runs one turn of a slot's `while True`
    loop.  For EVERY event list — any interleaving of any number of iterators, which also covers `between` / `after` /
    `count` / indexing running in between, each being a fresh iterator advanced some turns —
    (i) the rule is never changed, (ii) what slot `j` holds after the history is what it holds after ITS OWN events alone, and
    (iii) an iterator created and advanced `n` turns holds exactly `(iter rule n).1`, the sequence a fresh iterator over a
    fresh object sees: the iteration state is a function of the rule and of the number of turns of THAT iterator.  (`init` and
    `step` take the `Rule`, not the `Obj`: `_len` is never read.  The tie to the code is the shared-state audit of
    `rrule._iter` / `_iterinfo` — the only attribute of the rule object they write is `_len`, `_iterinfo` is a local — and the
    interleaved-history stream of the harness.) -/
theorem interleaved_iterators_independent (o : Obj) (m : Slots) (es : List Ev) (j : Nat) :
    (exec o m es).1.rule = o.rule ∧
    (exec o m es).2 j = (exec o m (es.filter (fun e => e.slot == j))).2 j ∧
    (∀ (n : Nat) (pre : List Ev) (st0 : State), init o.rule = .ok st0 →
      es.filter (fun e => e.slot == j) = pre ++ Ev.create j :: List.replicate n (Ev.turn j) →
      ∃ s, (exec o m es).2 j = some s ∧ s.out = (iter o.rule n).1) :=
  ⟨interleave_rule_const o m es, interleave_noninterference o m es j,
   fun n pre st0 hinit hes => by
     obtain ⟨s, h1, _, h3⟩ := interleave_eq_run o m es j n pre st0 hinit hes
     exact ⟨s, h1, h3⟩⟩

-- two iterators over one DAILY rule (COUNT=3), interleaved, slot 0 re-created at the end; the turn that meets COUNT writes `_len`
example : (match construct { freq := 3, dtstart := ⟨2024, 2, 28, 9, 0, 0, 0⟩, count := some 3 } with
    | .ok r =>
      let p := exec { rule := r, len := none } (fun _ => none)
        [.create 0, .turn 0, .create 1, .turn 0, .turn 1, .turn 1, .turn 0, .turn 1, .turn 1, .create 0, .turn 0]
      (slotDates p 0, slotDates p 1, p.1.len)
    | .error _ => ([], [], none)) =
    ([(2024, 2, 28)], [(2024, 2, 28), (2024, 2, 29), (2024, 3, 1)], some 3) := by decide +kernel

/-! ### 4. periods: day sets and the advance of the calendar frequencies -/

/-- **YEARLY / MONTHLY / DAILY day sets cover exactly the period's days** (WEEKLY: `dayset_weekly_covers`) -/
theorem dayset_covers (r : Rule) (info : Info) (c : Cursor) (f : YearFacts r c.year info) :
    (r.freq = 0 → dayset r info c = .ok (intRange 0 info.yearlen)) ∧
    (r.freq = 1 → 1 ≤ c.month → c.month ≤ 12 →
      dayset r info c = .ok (intRange (daysBeforeMonth c.year c.month)
                                      (daysBeforeMonth c.year c.month + daysInMonth c.year c.month))) ∧
    (3 ≤ r.freq → ValidYMD c.year c.month c.day → dayset r info c = .ok [curOrd c - info.yearordinal]) :=
  ⟨fun hf => dayset_yearly c hf, fun hf h1 h12 => dayset_monthly c hf f h1 h12,
   fun hf hv => dayset_daily c hf f hv⟩

/-- **WEEKLY day set**: from the cursor's day up to (excluding) the next day whose weekday is WKST,
    at most 7 days, across the year end if necessary -/
theorem dayset_weekly_covers (r : Rule) (info : Info) (c : Cursor) (hf : r.freq = 2)
    (f : YearFacts r c.year info) (hv : ValidYMD c.year c.month c.day) :
    ∃ e, dayset r info c = .ok (intRange (curOrd c - info.yearordinal) e) ∧
      curOrd c - info.yearordinal < e ∧ e ≤ curOrd c - info.yearordinal + 7 ∧
      (∀ j, curOrd c - info.yearordinal < j → j < e → weekdayOfOrd (info.yearordinal + j) ≠ r.wkst) ∧
      (e = curOrd c - info.yearordinal + 7 ∨ weekdayOfOrd (info.yearordinal + e) = r.wkst) :=
  dayset_weekly hf f hv

/-- **advance maps the cursor of period k to the cursor of period k+1** — YEARLY: year + interval;
    MONTHLY: month index + interval (month kept in 1..12 across the `mod == 0` edge) -/
theorem advance_year_month (r : Rule) (st st' : State) (b : Bool) (h : advance r st b = .ok st') :
    (r.freq = 0 → st'.cur = { st.cur with year := st.cur.year + r.interval }) ∧
    (r.freq = 1 → 1 ≤ r.interval → 1 ≤ st.cur.month → st.cur.month ≤ 12 →
      st'.cur.year * 12 + (st'.cur.month - 1) = st.cur.year * 12 + (st.cur.month - 1) + r.interval ∧
      1 ≤ st'.cur.month ∧ st'.cur.month ≤ 12 ∧ st'.cur.day = st.cur.day) :=
  ⟨fun hf => (advance_yearly r st st' b hf h).1,
   fun hf hi h1 h12 => by
     have := advance_monthly r st st' b hf hi h1 h12 h
     exact ⟨this.1, this.2.1, this.2.2.1, this.2.2.2.1⟩⟩

/-- DAILY: day number + interval; WEEKLY: start of the week `interval` weeks later; in both cases
    the cursor is again a valid date (the `day > 28` month roll) with rebuilt year facts -/
theorem advance_day_week (r : Rule) (st st' : State) (b : Bool) (h : advance r st b = .ok st')
    (hi : 1 ≤ r.interval) (hv : ValidYMD st.cur.year st.cur.month st.cur.day)
    (f : YearFacts r st.cur.year st.info) :
    (r.freq = 3 → curOrd st'.cur = curOrd st.cur + r.interval ∧
        ValidYMD st'.cur.year st'.cur.month st'.cur.day ∧ YearFacts r st'.cur.year st'.info) ∧
    (r.freq = 2 → 0 ≤ r.wkst ∧ r.wkst ≤ 6 → 0 ≤ st.cur.weekday ∧ st.cur.weekday ≤ 6 →
        curOrd st'.cur = curOrd st.cur - (st.cur.weekday - r.wkst) % 7 + 7 * r.interval ∧
        ValidYMD st'.cur.year st'.cur.month st'.cur.day ∧ st'.cur.weekday = r.wkst ∧
        YearFacts r st'.cur.year st'.info) :=
  ⟨fun hf => by
     have := advance_daily r st st' b hf hi hv f h
     exact ⟨this.1, this.2.1, this.2.2.1⟩,
   fun hf hw hcw => by
     have := advance_weekly r st st' b hf hi hv hw hcw f h
     exact ⟨this.1, this.2.1, this.2.2.1, this.2.2.2.1⟩⟩

/-! ### 5. the BY-filter and exactness -/

/-- **the BY-filter in calendar terms** (rules without the three computed masks): the day at index
    `i` is removed exactly when its date fails BYMONTH / BYDAY / BYMONTHDAY (±) / BYYEARDAY (±) -/
theorem filter_is_calendar (r : Rule) (hs : SimpleRule r) (y m : Int) (info : Info)
    (h : rebuild r y m = .ok info) (i : Int) (h0 : 0 ≤ i) (h1 : i < info.yearlen + 7) :
    dayFiltered r info i = .ok (!simpleOk r (info.yearordinal + i)) := by
  have f := rebuild_facts r y m info h
  obtain ⟨info', h', hn, _, _⟩ := rebuild_simple r hs y m f.year_lo f.year_hi
  rw [h] at h'; injection h' with h'; subst h'
  exact dayFiltered_simple hs f hn i h0 h1

/-- **`iter_eq_spec`, proved portion** (see the header for the full statement and what is missing):
    FREQ=DAILY, INTERVAL ≥ 1, valid start, any BYMONTH / BYMONTHDAY (members ≠ 0) / BYYEARDAY / BYDAY /
    BYHOUR / BYMINUTE / BYSECOND / BYSETPOS, any COUNT / UNTIL — the model yields exactly the specification's recurrence set, for every number
    of periods inside datetime's range. -/
theorem iter_eq_spec_daily_partial (a : Args) (r : Rule) (da : DailyArgs a) (h : construct a = .ok r)
    (n : Nat) (hn : Spec.RRule.startOrd a + n * a.interval ≤ maxOrdinal) :
    (iter r n).1 = Spec.RRule.occ a n :=
  iter_eq_spec_daily da h n hn

/-- **`iter_eq_spec`, proved portion, YEARLY / MONTHLY**: INTERVAL ≥ 1, valid start, any BYMONTH /
    BYMONTHDAY (members ≠ 0) / BYYEARDAY / plain BYDAY — or none, in which case the month and month
    day come from the start —, any BYHOUR / BYMINUTE / BYSECOND / BYSETPOS (1-based positions, negative
    from the end, in the period's sorted candidate list), any COUNT / UNTIL: exactly the specification's recurrence set, for every
    number of periods ending by year 9999. -/
theorem iter_eq_spec_yearly_monthly_partial (a : Args) (r : Rule) (ya : YMArgs a) (h : construct a = .ok r)
    (n : Nat) (hy : a.freq = 0 → a.dtstart.y + n * a.interval ≤ 9999)
    (hm : a.freq = 1 → (a.dtstart.y * 12 + (a.dtstart.m - 1) + n * a.interval) / 12 ≤ 9999) :
    (iter r n).1 = Spec.RRule.occ a n :=
  iter_eq_spec_ym ya h n hy hm

/-- **`iter_eq_spec`, proved portion, WEEKLY**: INTERVAL ≥ 1, week start 0..6, valid start, UNTIL (if
    any) not before the start, any BYMONTH / BYMONTHDAY (members ≠ 0) / BYYEARDAY / BYDAY — or none, in
    which case the weekday is the start's —, any BYHOUR / BYMINUTE / BYSECOND, BYSETPOS when the start
    falls on the week start (exactly the complement of the defect class D-C01e), any COUNT: exactly the
    specification's recurrence set (whole weeks from the week start; the model's first period starts
    at the start's own day, and the days it leaves out lie before the start). -/
theorem iter_eq_spec_weekly_partial (a : Args) (r : Rule) (wa : WeeklyArgs a) (h : construct a = .ok r)
    (n : Nat) (hn : W0 a + 7 * (n * a.interval) + 7 ≤ maxOrdinal + 1) :
    (iter r n).1 = Spec.RRule.occ a n :=
  iter_eq_spec_weekly wa h n hn

/-- **`iter_eq_spec`, proved portion, MONTHLY with nth weekdays** ("the last Friday of every month",
    "the 2nd Tuesday every 3 months"): INTERVAL ≥ 1, valid start, BYDAY made of nth weekdays only (any
    magnitude, positive from the month's start, negative from its end), any BYMONTH / BYYEARDAY / BYHOUR /
    BYMINUTE / BYSECOND / BYSETPOS, any COUNT / UNTIL, no BYWEEKNO / BYEASTER (BYMONTHDAY without zeros allowed): exactly the
    specification's recurrence set.  (The nth-weekday mask with the D-C01b range guard, the filter with
    that mask, and `rebuild` succeeding for every month 0001-01 .. 9999-12 are part of the proof.) -/
theorem iter_eq_spec_monthly_nth_partial (a : Args) (r : Rule) (na : NthMArgs a) (h : construct a = .ok r)
    (n : Nat) (hm : (a.dtstart.y * 12 + (a.dtstart.m - 1) + n * a.interval) / 12 ≤ 9999) :
    (iter r n).1 = Spec.RRule.occ a n :=
  iter_eq_spec_monthly_nth na h n hm

/-- **`iter_eq_spec`, proved portion, YEARLY with nth weekdays counted inside the year** ("the 20th
    Monday of the year", "the last Sunday of the year"): INTERVAL ≥ 1, valid start, no BYMONTH, BYDAY made
    of nth weekdays only (any magnitude), any BYYEARDAY / BYHOUR / BYMINUTE / BYSECOND / BYSETPOS, any COUNT /
    UNTIL, no BYWEEKNO / BYEASTER (BYMONTHDAY without zeros allowed): exactly the specification's recurrence set. -/
theorem iter_eq_spec_yearly_nth_partial (a : Args) (r : Rule) (na : NthYArgs a) (h : construct a = .ok r)
    (n : Nat) (hy : a.dtstart.y + n * a.interval ≤ 9999) :
    (iter r n).1 = Spec.RRule.occ a n :=
  iter_eq_spec_yearly_nth na h n hy

/-- **`iter_eq_spec`, proved portion, YEARLY with BYMONTH and nth weekdays counted inside each listed
    month** ("the 4th Thursday of November", "the last Monday of May"): INTERVAL ≥ 1, valid start, BYMONTH
    with members 1..12, BYDAY made of nth weekdays only, any BYYEARDAY / BYHOUR / BYMINUTE / BYSECOND /
    BYSETPOS, any COUNT / UNTIL, no BYWEEKNO / BYEASTER (BYMONTHDAY without zeros allowed): exactly the specification's set. -/
theorem iter_eq_spec_yearly_bymonth_nth_partial (a : Args) (r : Rule) (na : NthYMArgs a) (h : construct a = .ok r)
    (n : Nat) (hy : a.dtstart.y + n * a.interval ≤ 9999) :
    (iter r n).1 = Spec.RRule.occ a n :=
  iter_eq_spec_yearly_bymonth_nth na h n hy

/-- **`iter_eq_spec`, proved portion, YEARLY with BYEASTER** on the supported class = the complement of
    D-C01d (offsets −80..250) inside the years 1583..4099 where C19 proves `easter.easter` canonical:
    INTERVAL ≥ 1, valid start, any BYMONTH / BYMONTHDAY (non-zero) / BYYEARDAY / plain BYDAY / BYHOUR / BYMINUTE /
    BYSECOND / BYSETPOS, any COUNT / UNTIL, no nth BYDAY / BYWEEKNO: exactly the specification's recurrence
    set (Easter by Meeus/Jones/Butcher). -/
theorem iter_eq_spec_yearly_easter_partial (a : Args) (r : Rule) (ea : EasterYArgs a) (h : construct a = .ok r)
    (n : Nat) (hlo : 1583 ≤ a.dtstart.y) (hy : a.dtstart.y + n * a.interval ≤ 4099) :
    (iter r n).1 = Spec.RRule.occ a n :=
  iter_eq_spec_yearly_easter ea h n hlo hy

/-- **`iter_eq_spec`, proved portion, YEARLY with BYWEEKNO** on the complement of D-C01c (a listed 52/53
    comes with −1, a listed −52/−53 comes with 1): INTERVAL ≥ 1, valid start, any week start, any BYMONTH /
    BYMONTHDAY (non-zero) / BYYEARDAY / plain BYDAY / BYHOUR / BYMINUTE / BYSECOND / BYSETPOS, any COUNT /
    UNTIL, no nth BYDAY / BYEASTER: exactly the specification's recurrence set, every year up to 9999. -/
theorem iter_eq_spec_yearly_weekno_partial (a : Args) (r : Rule) (wa : WeeknoYArgs a) (h : construct a = .ok r)
    (n : Nat) (hy : a.dtstart.y + n * a.interval ≤ 9999) :
    (iter r n).1 = Spec.RRule.occ a n :=
  iter_eq_spec_yearly_weekno wa h n hy

/-- **`iter_eq_spec`, proved portion, MONTHLY with BYWEEKNO** on the complement of D-C01c: INTERVAL ≥ 1, valid start,
    week start 0..6, any BYMONTH / BYMONTHDAY (non-zero) / BYYEARDAY / plain BYDAY / time parts / BYSETPOS, any COUNT /
    UNTIL, no nth BYDAY / BYEASTER. -/
theorem iter_eq_spec_monthly_weekno_partial (a : Args) (r : Rule) (wa : WeeknoMArgs a) (h : construct a = .ok r)
    (n : Nat) (hm : (a.dtstart.y * 12 + (a.dtstart.m - 1) + n * a.interval) / 12 ≤ 9999) :
    (iter r n).1 = Spec.RRule.occ a n :=
  iter_eq_spec_monthly_weekno wa h n hm

/-- **`iter_eq_spec`, proved portion, WEEKLY with BYWEEKNO** on the complement of D-C01c: INTERVAL ≥ 1, valid start, week
    start 0..6, UNTIL not before the start, BYSETPOS only with the start on the week start (outside D-C01e), any BYMONTH /
    BYMONTHDAY (non-zero) / BYYEARDAY / BYDAY / time parts, any COUNT, no BYEASTER.  A week that begins in late December reads
    the 7-day tail of the week-number mask; `buildWnomask_tail` shows that the part of the tail such a week can read is right:
    the old year's last week running over the year end (marked by the main loop) and the new year's week 1 begun in the old
    year (the `if 1 in byweekno` block). -/
theorem iter_eq_spec_weekly_weekno_partial (a : Args) (r : Rule) (wa : WeeklyWArgs a) (h : construct a = .ok r)
    (n : Nat) (hn : W0 a + 7 * (n * a.interval) + 7 ≤ maxOrdinal + 1) :
    (iter r n).1 = Spec.RRule.occ a n :=
  iter_eq_spec_weekly_weekno wa h n hn

/-- **`iter_eq_spec`, proved portion, nth BYDAY together with BYWEEKNO** (nth members only = outside D-C01a; BYWEEKNO on the
    complement of D-C01c; week start 0..6; no BYEASTER): MONTHLY, YEARLY without BYMONTH (ordinals counted inside the year) and
    YEARLY with BYMONTH (inside each listed month).  With BYDAY given, neither the constructor nor the specification's date
    predicate looks at BYWEEKNO anywhere else, so the argument side is the nth family on the arguments without BYWEEKNO ∧ the
    week clause; the model side carries both masks. -/
theorem iter_eq_spec_nth_weekno_partial (a : Args) (r : Rule) (h : construct a = .ok r) (n : Nat) :
    (NthWMArgs a → (a.dtstart.y * 12 + (a.dtstart.m - 1) + n * a.interval) / 12 ≤ 9999 → (iter r n).1 = Spec.RRule.occ a n) ∧
    (NthWYArgs a → a.dtstart.y + n * a.interval ≤ 9999 → (iter r n).1 = Spec.RRule.occ a n) ∧
    (NthWYMArgs a → a.dtstart.y + n * a.interval ≤ 9999 → (iter r n).1 = Spec.RRule.occ a n) :=
  ⟨fun na hm => iter_eq_spec_monthly_nth_weekno na h n hm, fun na hy => iter_eq_spec_yearly_nth_weekno na h n hy,
   fun na hy => iter_eq_spec_yearly_bymonth_nth_weekno na h n hy⟩

-- the last Friday of the month when it lies in week 4, 13 or the last week of the year
example : NthWMArgs { freq := 1, dtstart := ⟨2024, 1, 1, 18, 0, 0, 0⟩, byweekday := some [(4, -1)], byweekno := some [4, 13, -1] } :=
  ⟨rfl, by decide, by decide, by decide, rfl, by intro x hx; simp at hx, ⟨[(4, -1)], rfl, by decide, by decide⟩,
   ⟨[4, 13, -1], rfl, by decide, ⟨by decide, by decide⟩⟩⟩

/-- **`iter_eq_spec`, proved portion, BYEASTER together with nth BYDAY or with BYWEEKNO** (offsets −80..250, years 1583..4099):
    MONTHLY / YEARLY / YEARLY+BYMONTH with nth BYDAY (nth members only) and BYEASTER, no BYWEEKNO; YEARLY with BYWEEKNO (complement
    of D-C01c, week start 0..6) and BYEASTER, plain BYDAY allowed. -/
theorem iter_eq_spec_easter_mixed_partial (a : Args) (r : Rule) (h : construct a = .ok r) (n : Nat) (hlo : 1583 ≤ a.dtstart.y) :
    (NthEMArgs a → (a.dtstart.y * 12 + (a.dtstart.m - 1) + n * a.interval) / 12 ≤ 4099 → (iter r n).1 = Spec.RRule.occ a n) ∧
    (NthEYArgs a → a.dtstart.y + n * a.interval ≤ 4099 → (iter r n).1 = Spec.RRule.occ a n) ∧
    (NthEYMArgs a → a.dtstart.y + n * a.interval ≤ 4099 → (iter r n).1 = Spec.RRule.occ a n) ∧
    (WeeknoEYArgs a → a.dtstart.y + n * a.interval ≤ 4099 → (iter r n).1 = Spec.RRule.occ a n) :=
  ⟨fun na hm => iter_eq_spec_monthly_nth_easter na h n hlo hm, fun na hy => iter_eq_spec_yearly_nth_easter na h n hlo hy,
   fun na hy => iter_eq_spec_yearly_bymonth_nth_easter na h n hlo hy,
   fun wa hy => iter_eq_spec_yearly_weekno_easter wa h n hlo hy⟩

-- Easter Sundays and Mondays that fall in week 14 or 15
example : WeeknoEYArgs { freq := 0, dtstart := ⟨2024, 1, 1, 10, 0, 0, 0⟩, byweekno := some [14, 15], byeaster := some [0, 1] } :=
  ⟨rfl, by decide, by decide, by decide, by intro x hx; simp at hx, by intro w hw; simp at hw,
   ⟨[14, 15], rfl, by decide, ⟨by decide, by decide⟩⟩, ⟨[0, 1], rfl, by decide, by decide⟩⟩

/-- **`iter_eq_spec`, proved portion, DAILY with BYWEEKNO** — and the same extension holds in the five sub-daily
    theorems below: their argument classes (`HourlyArgs`, `HourlyByArgs`, `MinutelyArgs`, `MinutelyByArgs`,
    `SecondlyArgs`) take `WArg a`: BYWEEKNO absent, or a non-empty list on the complement of D-C01c (a listed
    52/53 comes with −1, a listed −52/−53 with 1) with a week start 0..6.  The BY-filter of these families is
    treated through one abstraction (Proofs/RRuleWFilter.lean): `rebuild` keeps an invariant under which the
    filter of a day is `simpleOk ∧ week clause`, which is the specification's `dateOk`. -/
theorem iter_eq_spec_daily_weekno_partial (a : Args) (r : Rule) (da : DailyWArgs a) (h : construct a = .ok r)
    (n : Nat) (hn : Spec.RRule.startOrd a + n * a.interval ≤ maxOrdinal) :
    (iter r n).1 = Spec.RRule.occ a n :=
  iter_eq_spec_daily_w da h n hn

/-- **`iter_eq_spec`, proved portion, HOURLY** (no BYHOUR): INTERVAL ≥ 1, valid start, any BYMONTH /
    BYMONTHDAY (non-zero) / BYYEARDAY / BYDAY / BYMINUTE / BYSECOND (members 0..59; outside, the generator
    raises while iterating) / BYSETPOS, any COUNT / UNTIL, no BYWEEKNO / BYEASTER.  The generator does not
    visit every hour of the grid: after a day removed by the BY-filter it jumps to that day's last
    on-grid hour.  So `n` turns of its loop correspond to `m` periods of the specification, `n ≤ m ≤ 24·n`
    (the hours passed over are proved to select nothing), and what has been yielded after `n` turns is
    exactly the specification's recurrence set of the first `m` periods — in particular the two
    sequences are the same. -/
theorem iter_eq_spec_hourly_partial (a : Args) (r : Rule) (ha : HourlyArgs a) (h : construct a = .ok r) (n : Nat)
    (hle : Spec.RRule.startOrd a * 24 + a.dtstart.hh + (24 * n + 1) * a.interval + 23 < (maxOrdinal + 1) * 24) :
    ∃ m, n ≤ m ∧ m ≤ 24 * n ∧ (iter r n).1 = Spec.RRule.occ a m :=
  iter_eq_spec_hourly ha h n hle

/-- **`iter_eq_spec`, proved portion, MINUTELY** (no BYHOUR, no BYMINUTE; BYSECOND members 0..59): as
    `iter_eq_spec_hourly_partial`, one turn passing over at most 1440 periods. -/
theorem iter_eq_spec_minutely_partial (a : Args) (r : Rule) (ma : MinutelyArgs a) (h : construct a = .ok r) (n : Nat)
    (hle : (Spec.RRule.startOrd a * 24 + a.dtstart.hh) * 60 + a.dtstart.mm + (1440 * n + 1) * a.interval + 1439 <
      (maxOrdinal + 1) * 1440) :
    ∃ m, n ≤ m ∧ m ≤ 1440 * n ∧ (iter r n).1 = Spec.RRule.occ a m :=
  iter_eq_spec_minutely ma h n hle

/-- **`iter_eq_spec`, proved portion, SECONDLY** (no BYHOUR / BYMINUTE / BYSECOND): as
    `iter_eq_spec_hourly_partial`, one turn passing over at most 86400 periods. -/
theorem iter_eq_spec_secondly_partial (a : Args) (r : Rule) (sa : SecondlyArgs a) (h : construct a = .ok r) (n : Nat)
    (hle : ((Spec.RRule.startOrd a * 24 + a.dtstart.hh) * 60 + a.dtstart.mm) * 60 + a.dtstart.ss +
      (86400 * n + 1) * a.interval + 86399 < (maxOrdinal + 1) * 86400) :
    ∃ m, n ≤ m ∧ m ≤ 86400 * n ∧ (iter r n).1 = Spec.RRule.occ a m :=
  iter_eq_spec_secondly sa h n hle

/-- **`__mod_distance`, exactly**: from `v` the loop visits `(v + t·interval) mod base` for `t = 1, 2, …, n` and
    returns at the LEAST `t` whose value is listed, with the carry `(v + t·interval) div base`; it falls off the
    loop (Python `None`, a `TypeError` at the unpacking) iff none of the `n` values is listed. -/
theorem mod_distance_least (interval : Int) (byxxx : List Int) (base : Int) (hb : 0 < base) (n : Nat) (acc v : Int) :
    (∃ s : Nat, 1 ≤ s ∧ s ≤ n ∧ byxxx.contains ((v + s * interval) % base) = true ∧
      (∀ t : Nat, 1 ≤ t → t < s → byxxx.contains ((v + t * interval) % base) = false) ∧
      modDistance interval byxxx base n acc v =
        some (acc + (v + s * interval) / base, (v + s * interval) % base)) ∨
    ((∀ t : Nat, 1 ≤ t → t ≤ n → byxxx.contains ((v + t * interval) % base) = false) ∧
      modDistance interval byxxx base n acc v = none) :=
  modDistance_exact interval byxxx base hb n acc v

/-- … and for hours that passed `__construct_byset` there always is one: from any `W`, a target `x ∈ 0..23`
    congruent to `W` modulo gcd(interval, 24) is reached within 24 steps -/
theorem mod_distance_reaches_hour (interval W x : Int) (hx : 0 ≤ x ∧ x ≤ 23)
    (hg : (x - W) % ((Int.gcd interval 24 : Nat) : Int) = 0) :
    ∃ s : Nat, 1 ≤ s ∧ s ≤ 24 ∧ (W + (s : Int) * interval) % 24 = x :=
  reach24 interval W x hx hg

/-- **`iter_eq_spec`, proved portion, HOURLY with BYHOUR** (members 0..23): as `iter_eq_spec_hourly_partial`;
    a turn moves to the least listed hour of the grid (`mod_distance_least`, at most 24 steps) after the optional
    jump over a removed day, so `n` turns correspond to `m` periods with `n ≤ m ≤ 48·n`; the grid hours
    passed over are unlisted or lie on the removed day and select nothing. -/
theorem iter_eq_spec_hourly_byhour_partial (a : Args) (r : Rule) (ha : HourlyByArgs a) (h : construct a = .ok r) (n : Nat)
    (hle : Spec.RRule.startOrd a * 24 + a.dtstart.hh + (48 * n + 24) * a.interval + 23 < (maxOrdinal + 1) * 24) :
    ∃ m, n ≤ m ∧ m ≤ 48 * n ∧ (iter r n).1 = Spec.RRule.occ a m :=
  iter_eq_spec_hourly_byhour ha h n hle

/-- **`iter_eq_spec`, proved portion, MINUTELY with BYMINUTE** (members 0..59, no BYHOUR): as
    `iter_eq_spec_hourly_byhour_partial` one unit down (`minutelyLoop` succeeds on its first pass, at the least
    listed minute of the grid, at most 60 steps); `n ≤ m ≤ 1500·n`. -/
theorem iter_eq_spec_minutely_byminute_partial (a : Args) (r : Rule) (ma : MinutelyByArgs a) (h : construct a = .ok r)
    (n : Nat)
    (hle : (Spec.RRule.startOrd a * 24 + a.dtstart.hh) * 60 + a.dtstart.mm + (1500 * n + 60) * a.interval + 1439 <
      (maxOrdinal + 1) * 1440) :
    ∃ m, n ≤ m ∧ m ≤ 1500 * n ∧ (iter r n).1 = Spec.RRule.occ a m :=
  iter_eq_spec_minutely_byminute ma h n hle

/-- **the MINUTELY reachability loop beyond its first pass** (BYHOUR, no BYMINUTE): it stops at the LEAST grid minute
    whose hour is listed, if one occurs within the fuel … -/
theorem minutely_loop_least (r : Rule) (hi : 1 ≤ r.interval) (bh : List Int) (hbm : r.byminute = none)
    (hbh : r.byhour = some bh) (htr : truthy (some bh) = true) (n : Nat) (W hour day : Int) (fx : Bool)
    (hW : 0 ≤ W) (h0 : 0 ≤ hour) (h23 : hour ≤ 23)
    (hex : ∃ t : Nat, 1 ≤ t ∧ t ≤ n ∧ bh.contains ((hour * 60 + W + t * r.interval) / 60 % 24) = true) :
    ∃ t : Nat, 1 ≤ t ∧ t ≤ n ∧ bh.contains ((hour * 60 + W + t * r.interval) / 60 % 24) = true ∧
      (∀ t' : Nat, 1 ≤ t' → t' < t → bh.contains ((hour * 60 + W + t' * r.interval) / 60 % 24) = false) ∧
      minutelyLoop r n W hour day fx =
        .ok ((hour * 60 + W + t * r.interval) % 60, (hour * 60 + W + t * r.interval) / 60 % 24,
             day + (hour * 60 + W + t * r.interval) / 1440,
             fx || decide ((hour * 60 + W + t * r.interval) / 1440 ≠ 0)) :=
  minutelyLoop_bh r hi bh hbm hbh htr n W hour day fx hW h0 h23 hex

/-- … and the loop's own bound suffices: in the step index, the orbit of `+interval` modulo `base` repeats after
    `base / gcd(interval, base)` steps, so every window of that many consecutive steps meets every point of the orbit -/
theorem orbit_period_window (interval base : Int) (hb : 0 < base) (k j : Nat) :
    ∃ t : Nat, 1 ≤ t ∧ (t : Int) ≤ base / ((Int.gcd interval base : Nat) : Int) ∧
      ∃ z : Int, ((k + t : Nat) : Int) * interval = (j : Int) * interval + base * z :=
  orbit_window interval base hb k j

/-- **`iter_eq_spec`, proved portion, MINUTELY with BYHOUR** (non-empty, no BYMINUTE; BYWEEKNO as in the other sub-daily
    theorems) under the explicit, decidable reachability hypothesis `reachableHourM a`: some minute of the grid — the
    orbit of the start under `+INTERVAL`, which repeats after at most 1440 steps — falls in a listed hour.  Then the
    multi-pass loop never exhausts its bound and `n` turns correspond to `m` periods, `n ≤ m ≤ 2880·n`.
    ON THE COMPLEMENT (`¬ reachableHourM a`) the recurrence set is EMPTY and the generator does not stop but raises
    `ValueError("Invalid combination of interval and byhour resulting in empty rule.")` at the first `next()`:
    which the property allows ("raises ValueError when first iterated"; former finding D-C01g, withdrawn) (`rrule(MINUTELY, interval=120, byhour=[1], dtstart=datetime(2024,1,1,0,0))`); the model
    reproduces it (`minutelyLoop` returns the same ValueError). -/
theorem iter_eq_spec_minutely_byhour_partial (a : Args) (r : Rule) (ma : MinutelyBHArgs a) (h : construct a = .ok r)
    (n : Nat)
    (hle : (Spec.RRule.startOrd a * 24 + a.dtstart.hh) * 60 + a.dtstart.mm + (2880 * n + 1440) * a.interval + 1439 <
      (maxOrdinal + 1) * 1440) :
    ∃ m, n ≤ m ∧ m ≤ 2880 * n ∧ (iter r n).1 = Spec.RRule.occ a m :=
  iter_eq_spec_minutely_byhour ma h n hle

/-- **`iter_eq_spec`, proved portion, MINUTELY with BYMINUTE and optional BYHOUR — in particular BYHOUR and BYMINUTE
    together** (BYMINUTE with any members, BYHOUR absent or non-empty, BYSECOND members 0..59) under the decidable
    reachability hypothesis `reachableMM a`: some minute of the grid has a listed hour and a listed minute.  The inner step
    of `minutelyLoop` is `__mod_distance` over the minutes (exact; it cannot fall off its loop), a pass moves over grid
    minutes whose minute is unlisted, and the loop stops at the LEAST grid minute with both parts listed
    (`minutelyLoop_bm`); `n ≤ m ≤ 2880·n`. -/
theorem iter_eq_spec_minutely_byhour_byminute_partial (a : Args) (r : Rule) (ma : MinutelyBHMArgs a)
    (h : construct a = .ok r) (n : Nat)
    (hle : (Spec.RRule.startOrd a * 24 + a.dtstart.hh) * 60 + a.dtstart.mm + (2880 * n + 1440) * a.interval + 1439 <
      (maxOrdinal + 1) * 1440) :
    ∃ m, n ≤ m ∧ m ≤ 2880 * n ∧ (iter r n).1 = Spec.RRule.occ a m :=
  iter_eq_spec_minutely_bhm ma h n hle

/-- **`iter_eq_spec`, proved portion, SECONDLY with BYHOUR and / or BYMINUTE** (each absent or non-empty, no BYSECOND;
    BYWEEKNO as in the other sub-daily theorems) under the explicit, decidable reachability hypothesis `reachableS a`: some
    second of the grid — the orbit of the start under `+INTERVAL`, which repeats after at most 86400 steps — lies in a
    listed hour and a listed minute.  `secondlyLoop` then stops at the LEAST such grid second within its own bound
    86400 / gcd(INTERVAL, 86400) (`secondlyLoop_bhm`, `orbit_period_window`), and `n` turns correspond to `m` periods,
    `n ≤ m ≤ 172800·n`.  On the complement the recurrence set is empty and the generator raises ValueError at the first
    `next()` (allowed by the property: "raises ValueError when first iterated"). -/
theorem iter_eq_spec_secondly_byhour_byminute_partial (a : Args) (r : Rule) (sa : SecondlyBHMArgs a)
    (h : construct a = .ok r) (n : Nat)
    (hle : ((Spec.RRule.startOrd a * 24 + a.dtstart.hh) * 60 + a.dtstart.mm) * 60 + a.dtstart.ss +
      (172800 * n + 86400) * a.interval + 86399 < (maxOrdinal + 1) * 86400) :
    ∃ m, n ≤ m ∧ m ≤ 172800 * n ∧ (iter r n).1 = Spec.RRule.occ a m :=
  iter_eq_spec_secondly_bhm sa h n hle

/-- **`iter_eq_spec`, proved portion, SECONDLY with BYSECOND** (any members — those outside 0..59 or off the grid are inert on
    both sides —, BYHOUR / BYMINUTE absent or non-empty) under `reachableSS a`: some second of the grid has a listed hour,
    minute and second.  The inner step of `secondlyLoop` is then `__mod_distance` (exact by `mod_distance_least`; it cannot
    fall off its loop because the second-of-minute repeats with period dividing 60 and a listed one exists), a pass moves over
    grid seconds whose second is unlisted, and the loop stops at the LEAST grid second with all three parts listed. -/
theorem iter_eq_spec_secondly_bysecond_partial (a : Args) (r : Rule) (sa : SecondlyBSArgs a)
    (h : construct a = .ok r) (n : Nat)
    (hle : ((Spec.RRule.startOrd a * 24 + a.dtstart.hh) * 60 + a.dtstart.mm) * 60 + a.dtstart.ss +
      (172800 * n + 86400) * a.interval + 86399 < (maxOrdinal + 1) * 86400) :
    ∃ m, n ≤ m ∧ m ≤ 172800 * n ∧ (iter r n).1 = Spec.RRule.occ a m :=
  iter_eq_spec_secondly_bysecond sa h n hle

/-- **INTERVAL must be a positive integer** (fix D-C01-interval): `rrule.__init__` raises ValueError for `interval < 1`
    whatever the other arguments are, so every constructed rule has `interval ≥ 1` — the hypothesis `1 ≤ a.interval` of the
    theorems above is implied by `construct a = .ok r`.  (Before the fix `interval=0` yielded the start for ever — duplicates,
    `list(rule)` with UNTIL never returned — and `interval < 0` yielded the start and then raised from `date.fromordinal`.) -/
theorem construct_interval_positive (a : Args) :
    (a.interval < 1 → construct a = .error .ValueError) ∧ (∀ r, construct a = .ok r → 1 ≤ a.interval) :=
  ⟨construct_interval_ValueError a, fun r h => construct_interval_pos a r h⟩

example : construct { freq := 3, dtstart := ⟨2024, 1, 1, 9, 0, 0, 0⟩, interval := 0 } = .error .ValueError := by decide +kernel
example : construct { freq := 0, dtstart := ⟨2024, 1, 1, 9, 0, 0, 0⟩, interval := -1, count := some 3 } = .error .ValueError := by
  decide +kernel

/-- **`iter_eq_spec`, proved portion, MONTHLY with BYEASTER** (−80..250, plain BYDAY only, no BYWEEKNO, months inside 1583..4099) -/
theorem iter_eq_spec_monthly_easter_partial (a : Args) (r : Rule) (ea : EasterMArgs a) (h : construct a = .ok r) (n : Nat)
    (hlo : 1583 ≤ a.dtstart.y) (hm : (a.dtstart.y * 12 + (a.dtstart.m - 1) + n * a.interval) / 12 ≤ 4099) :
    (iter r n).1 = Spec.RRule.occ a n :=
  iter_eq_spec_monthly_easter ea h n hlo hm

/-- **`iter_eq_spec`, proved portion, WEEKLY with BYEASTER** on the EXACT class −74..250: a week begun in late December reads the
    7-day tail of the Easter mask of the OLD year, which is never marked for offsets ≤ 250 (`easter_yday_range`: Easter falls on
    22 March .. 25 April), while the specification accepts Jan 1..6 of the new year exactly for offsets −115..−75 of the NEW
    year's Easter — so the model is right precisely when no offset below −74 is listed (offsets −80..−75 under WEEKLY are part
    of D-C01d: e.g. `rrule(WEEKLY, wkst=WE, dtstart=1817-12-31, byeaster=-75)` misses 1818-01-06).  No BYWEEKNO, BYSETPOS only with
    the start on the week start, UNTIL not before the start, every week inside 1583..4099. -/
theorem iter_eq_spec_weekly_easter_partial (a : Args) (r : Rule) (wa : WeeklyEArgs a) (h : construct a = .ok r) (n : Nat)
    (hlo : 1583 ≤ a.dtstart.y) (hn : W0 a + 7 * (n * a.interval) + 7 ≤ Cal.toOrdinal 4099 12 31 + 1) :
    (iter r n).1 = Spec.RRule.occ a n :=
  iter_eq_spec_weekly_easter wa h n hlo hn

/-- **`iter_eq_spec`, proved portion, BYEASTER below YEARLY**: DAILY, HOURLY (with or without BYHOUR), MINUTELY (plain, BYMINUTE,
    BYHOUR, both) and SECONDLY (plain, BYHOUR / BYMINUTE, BYSECOND) with BYEASTER offsets −80..250 (the complement of D-C01d),
    no BYWEEKNO, every visited day inside 1583-01-01 .. 4099-12-31 (where C19 proves `easter.easter` canonical), everything else as
    in the corresponding family without BYEASTER (any BYMONTH / BYMONTHDAY non-zero / BYYEARDAY / BYDAY / time parts / BYSETPOS /
    COUNT / UNTIL; the same reachability hypotheses and the same `periodsPerTurn`).  One abstraction (Proofs/RRuleEFilter.lean):
    `rebuild` keeps an invariant under which the BY-filter of a day is `simpleOk ∧ (date − Easter of its year ∈ BYEASTER)`, which
    is the specification's `dateOk`; the family proofs are the ones without BYEASTER with that filter lemma.
    (`Family.isEasterSub f`: `f` is one of dailyE … secondlyBysecondE; `SupportedBy` / `inRange` spell the hypotheses out.) -/
theorem iter_eq_spec_byeaster_below_yearly_partial (a : Args) (r : Rule) (h : construct a = .ok r) (f : Family)
    (_hf : f.isEasterSub = true) (hs : SupportedBy a f) (n : Nat) (hr : inRange a f n) :
    ∃ m, n ≤ m ∧ m ≤ f.periodsPerTurn * n ∧ (iter r n).1 = Spec.RRule.occ a m :=
  iter_eq_spec_supported a r h f hs n hr

/-- … its DAILY instance spelled out: exactly the specification's recurrence set, period by period -/
theorem iter_eq_spec_daily_easter_partial (a : Args) (r : Rule) (ea : DailyEArgs a) (h : construct a = .ok r) (n : Nat)
    (hlo : 1583 ≤ a.dtstart.y) (hn : Spec.RRule.startOrd a + n * a.interval ≤ Cal.toOrdinal 4099 12 31) :
    (iter r n).1 = Spec.RRule.occ a n :=
  iter_eq_spec_daily_easter ea h n hlo hn

/-- **`iter_eq_spec` for every supported argument set** — the summary of the family theorems above.
    `SupportedBy a f` (Spec/RRuleSupported.lean) is a decidable condition on the arguments alone, the union of
    the proved families: DAILY, WEEKLY (BYSETPOS only with the start on the week start = outside D-C01e),
    YEARLY / MONTHLY with plain BYDAY, MONTHLY / YEARLY / YEARLY+BYMONTH with nth BYDAY only (= outside D-C01a),
    YEARLY with BYEASTER −80..250 (outside D-C01d), YEARLY with BYWEEKNO outside D-C01c, HOURLY with or
    without BYHOUR, MINUTELY without BYHOUR (with or without BYMINUTE) or with BYHOUR alone, SECONDLY with any combination of
    BYHOUR / BYMINUTE / BYSECOND (reachability of a listed grid second as a decidable hypothesis); always
    INTERVAL ≥ 1, a valid start, no zero in BYMONTHDAY.  `inRange` keeps the first `n` turns inside
    datetime's range.  `m = n` for the calendar frequencies.  The driver op `rrule.supported` evaluates
    `family`, so each run of the check records which share of its sampled rules is covered by this theorem
    (`rules_under_exactness_theorem` in the evidence). -/
theorem iter_eq_spec_supported_partial (a : Args) (r : Rule) (h : construct a = .ok r) (f : Family)
    (hs : SupportedBy a f) (n : Nat) (hr : inRange a f n) :
    ∃ m, n ≤ m ∧ m ≤ f.periodsPerTurn * n ∧ (iter r n).1 = Spec.RRule.occ a m :=
  iter_eq_spec_supported a r h f hs n hr

/-- the executable classifier is sound for it -/
theorem family_is_supported (a : Args) (f : Family) (h : family a = some f) : SupportedBy a f :=
  family_sound f h

/-! ### non-vacuity and the known-finding witnesses reproduced by the model -/

def dt (y m d : Int) (hh : Int := 0) (mm : Int := 0) (ss : Int := 0) : DT := { y, m, d, hh, mm, ss, us := 0 }

/-- shape of the output lists compared below -/
def dates (x : Py.R Rule) (n : Nat) : List (Int × Int × Int) :=
  match x with
  | .ok r => (iterDT r n).1.map (fun t => (t.y, t.m, t.d))
  | .error _ => []

-- a DailyArgs instance: every 3rd day, Fridays the 13th … (hypotheses of iter_eq_spec_daily_partial are satisfiable)
example : DailyArgs { freq := 3, dtstart := dt 2024 2 28 9 30, interval := 3, bymonth := some [2, 3],
                      byweekday := some [(4, 0), (5, 0)], byhour := some [8, 20], count := some 4 } :=
  ⟨⟨Or.inr rfl, by decide, by decide, rfl, rfl, by intro x hx; simp at hx⟩, rfl⟩
-- a WeeklyArgs instance: every 2nd week on Tuesday and Thursday, weeks starting on Sunday
example : WeeklyArgs { freq := 2, dtstart := dt 2024 2 28 9 30, interval := 2, wkst := some 6,
                       byweekday := some [(1, 0), (3, 0)], count := some 5 } :=
  ⟨⟨Or.inl rfl, by decide, by decide, rfl, rfl, by intro x hx; simp at hx⟩, rfl, Or.inl rfl, by decide,
   by intro u hu; simp at hu⟩
-- … and with BYSETPOS when the start (Mon 2024-02-26) is the week start: the last of TU/TH of every week
example : WeeklyArgs { freq := 2, dtstart := dt 2024 2 26 9 30, byweekday := some [(1, 0), (3, 0)], bysetpos := some [-1] } :=
  ⟨⟨Or.inl rfl, by decide, by decide, rfl, rfl, by intro x hx; simp at hx⟩, rfl, Or.inr (by decide), by decide,
   by intro u hu; simp at hu⟩
-- a YMArgs instance: the 31st of every 2nd month from 2024-01-31 (months without a 31st are skipped, never coerced)
example : YMArgs { freq := 1, dtstart := dt 2024 1 31 8, interval := 2, count := some 3 } :=
  ⟨Or.inr rfl, by decide, by decide, rfl, rfl, by intro x hx; simp at hx, by intro w hw; simp at hw⟩
-- … and with BYSETPOS: the last weekday (MO..FR) of every month
example : YMArgs { freq := 1, dtstart := dt 2024 1 1 9, byweekday := some [(0, 0), (1, 0), (2, 0), (3, 0), (4, 0)],
                   bysetpos := some [-1] } :=
  ⟨Or.inr rfl, by decide, by decide, rfl, rfl, by intro x hx; simp at hx, by decide⟩
example : dates (construct { freq := 1, dtstart := dt 2024 1 1 9, byweekday := some [(0, 0), (1, 0), (2, 0), (3, 0), (4, 0)],
                             bysetpos := some [-1] }) 3 = [(2024, 1, 31), (2024, 2, 29), (2024, 3, 29)] := by decide +kernel
example : (construct { freq := 3, dtstart := dt 2024 2 28 9 30, byhour := some [20, 8], byminute := some [0] }).map (·.timeset)
    = .ok (some [(8, 0, 0), (20, 0, 0)]) := by decide +kernel
example : dates (construct { freq := 1, dtstart := dt 2024 1 31 8, interval := 2, count := some 3 }) 6
    = [(2024, 1, 31), (2024, 3, 31), (2024, 5, 31)] := by decide +kernel
example : dates (construct { freq := 3, dtstart := dt 2024 2 28 9 30, interval := 1, bymonthday := some [-1], count := some 3 }) 70
    = [(2024, 2, 29), (2024, 3, 31), (2024, 4, 30)] := by decide +kernel

-- an NthMArgs instance: the last Friday of every month
example : NthMArgs { freq := 1, dtstart := dt 2024 1 1 18, byweekday := some [(4, -1)] } :=
  ⟨rfl, by decide, by decide, rfl, rfl, by intro x hx; simp at hx, ⟨[(4, -1)], rfl, by decide, by decide⟩⟩
-- … with BYMONTHDAY: a Friday the 13th that is also the 2nd Friday of its month
example : NthMArgs { freq := 1, dtstart := dt 2024 1 1 18, byweekday := some [(4, 2)], bymonthday := some [13] } :=
  ⟨rfl, by decide, by decide, rfl, rfl, by decide, ⟨[(4, 2)], rfl, by decide, by decide⟩⟩
example : dates (construct { freq := 1, dtstart := dt 2024 1 1 18, byweekday := some [(4, -1)] }) 3
    = [(2024, 1, 26), (2024, 2, 23), (2024, 3, 29)] := by decide +kernel

-- an NthYArgs instance: the 20th Monday of every year (RFC 5545 example)
example : NthYArgs { freq := 0, dtstart := dt 1997 5 19 9, byweekday := some [(0, 20)] } :=
  ⟨rfl, by decide, by decide, rfl, rfl, by intro x hx; simp at hx, rfl, ⟨[(0, 20)], rfl, by decide, by decide⟩⟩
example : dates (construct { freq := 0, dtstart := dt 1997 5 19 9, byweekday := some [(0, 20)] }) 3
    = [(1997, 5, 19), (1998, 5, 18), (1999, 5, 17)] := by decide +kernel

-- an NthYMArgs instance: the 4th Thursday of November (US Thanksgiving)
example : NthYMArgs { freq := 0, dtstart := dt 2024 1 1 12, bymonth := some [11], byweekday := some [(3, 4)] } :=
  ⟨rfl, by decide, by decide, rfl, rfl, by intro x hx; simp at hx, ⟨[11], rfl, by decide, by decide⟩,
   ⟨[(3, 4)], rfl, by decide, by decide⟩⟩
example : dates (construct { freq := 0, dtstart := dt 2024 1 1 12, bymonth := some [11], byweekday := some [(3, 4)] }) 3
    = [(2024, 11, 28), (2025, 11, 27), (2026, 11, 26)] := by decide +kernel

-- an EasterYArgs instance: Easter Monday and Ascension Day every year
example : EasterYArgs { freq := 0, dtstart := dt 2024 1 1 10, byeaster := some [1, 39] } :=
  ⟨rfl, by decide, by decide, rfl, by intro x hx; simp at hx, by intro w hw; simp at hw,
   ⟨[1, 39], rfl, by decide, by decide⟩⟩
-- … and mixed with plain BYDAY / BYMONTHDAY: Easter Sundays falling on the 31st of March
example : EasterYArgs { freq := 0, dtstart := dt 2024 1 1 10, byeaster := some [0], byweekday := some [(6, 0)],
                        bymonthday := some [31] } :=
  ⟨rfl, by decide, by decide, rfl, by decide, by decide, ⟨[0], rfl, by decide, by decide⟩⟩
example : dates (construct { freq := 0, dtstart := dt 2024 1 1 10, byeaster := some [1, 39] }) 2
    = [(2024, 4, 1), (2024, 5, 9), (2025, 4, 21), (2025, 5, 29)] := by decide +kernel

-- a WeeknoYArgs instance (RFC 5545: "Monday of week number 20"), and one with the last week and week 53 / −1
example : WeeknoYArgs { freq := 0, dtstart := dt 1997 5 12 9, byweekno := some [20], byweekday := some [(0, 0)] } :=
  ⟨rfl, by decide, by decide, by decide, by intro x hx; simp at hx, rfl, by decide,
   ⟨[20], rfl, by decide, ⟨by decide, by decide⟩⟩⟩
example : dates (construct { freq := 0, dtstart := dt 1997 5 12 9, byweekno := some [20], byweekday := some [(0, 0)] }) 3
    = [(1997, 5, 12), (1998, 5, 11), (1999, 5, 17)] := by decide +kernel
example : WeeknoYArgs { freq := 0, dtstart := dt 2020 1 1, wkst := some 6, byweekno := some [53, -1, 1],
                        bymonthday := some [1, -1] } :=
  ⟨rfl, by decide, by decide, by decide, by decide, rfl, by intro w hw; simp at hw,
   ⟨[53, -1, 1], rfl, by decide, ⟨by decide, by decide⟩⟩⟩

-- an HourlyArgs instance: every 5 hours on Mondays at :00 and :30 — one turn per removed day (Tue..Sun)
example : HourlyArgs { freq := 4, dtstart := dt 2024 1 1 7, interval := 5, byweekday := some [(0, 0)],
                       byminute := some [0, 30] } :=
  ⟨rfl, by decide, by decide, Or.inl rfl, rfl, by intro x hx; simp at hx, rfl, by decide, by intro x hx; simp at hx⟩
example : ((match construct { freq := 4, dtstart := dt 2024 1 1 7, interval := 5, byweekday := some [(0, 0)],
                               byminute := some [0, 30] } with
            | .ok r => (iterDT r 12).1 | .error _ => []).map (fun (t : DT) => (t.d, t.hh, t.mm))) =
    [(1, 7, 0), (1, 7, 30), (1, 12, 0), (1, 12, 30), (1, 17, 0), (1, 17, 30), (1, 22, 0), (1, 22, 30),
     (8, 4, 0), (8, 4, 30), (8, 9, 0), (8, 9, 30)] := by decide +kernel   -- 12 turns reach period 34 of the grid (170 h after the start)

-- a MinutelyArgs and a SecondlyArgs instance: every 90 minutes in March; every 45 s on the 1st of the month
example : MinutelyArgs { freq := 5, dtstart := dt 2024 2 28 23 30, interval := 90, bymonth := some [3] } :=
  ⟨rfl, by decide, by decide, Or.inl rfl, rfl, by intro x hx; simp at hx, rfl, rfl, by intro x hx; simp at hx⟩
example : SecondlyArgs { freq := 6, dtstart := dt 2024 2 29 23 59 30, interval := 45, bymonthday := some [1] } :=
  ⟨rfl, by decide, by decide, Or.inl rfl, rfl, by decide, rfl, rfl, rfl⟩

-- an HourlyByArgs instance: every 7 hours, only at 9:00 and 17:00 (interval coprime to 24: every hour is reachable)
example : HourlyByArgs { freq := 4, dtstart := dt 2024 1 1 9, interval := 7, byhour := some [9, 17] } :=
  ⟨rfl, by decide, by decide, Or.inl rfl, rfl, by intro x hx; simp at hx, ⟨[9, 17], rfl, by decide⟩,
   by intro x hx; simp at hx, by intro x hx; simp at hx⟩
example : ((match construct { freq := 4, dtstart := dt 2024 1 1 9, interval := 7, byhour := some [9, 17] } with
            | .ok r => (iterDT r 4).1 | .error _ => []).map (fun (t : DT) => (t.d, t.hh))) =
    [(1, 9), (3, 17), (8, 9), (10, 17)] := by decide +kernel
-- a MinutelyByArgs instance: every 25 minutes, only at :00 and :30 (gcd(25, 60) = 5: both are reachable from :00)
example : MinutelyByArgs { freq := 5, dtstart := dt 2024 1 1 9, interval := 25, byminute := some [0, 30] } :=
  ⟨rfl, by decide, by decide, Or.inl rfl, rfl, by intro x hx; simp at hx, rfl, ⟨[0, 30], rfl, by decide⟩,
   by intro x hx; simp at hx⟩
-- a MinutelyBHMArgs instance: every 25 minutes, only at 9h / 17h and :00 / :30 (the start itself is listed)
example : MinutelyBHMArgs { freq := 5, dtstart := dt 2024 1 1 9, interval := 25, byhour := some [9, 17], byminute := some [0, 30] } :=
  ⟨rfl, by decide, by decide, Or.inl rfl, rfl, by intro x hx; simp at hx, Or.inr ⟨[9, 17], rfl, by decide⟩, ⟨[0, 30], rfl⟩,
   by intro x hx; simp at hx, List.any_eq_true.mpr ⟨0, List.mem_range.mpr (by omega), by decide⟩⟩
-- a SecondlyBHMArgs instance: every 45 s, only in minutes :00 and :30 (the start itself is listed: witness j = 0)
example : SecondlyBHMArgs { freq := 6, dtstart := dt 2024 1 1 9, interval := 45, byminute := some [0, 30] } :=
  ⟨rfl, by decide, by decide, Or.inl rfl, rfl, by intro x hx; simp at hx, Or.inl rfl, Or.inr ⟨[0, 30], rfl, by decide⟩, rfl,
   List.any_eq_true.mpr ⟨0, List.mem_range.mpr (by omega), by decide⟩⟩
example : ((match construct { freq := 6, dtstart := dt 2024 1 1 9, interval := 45, byminute := some [0, 30] } with
            | .ok r => (iterDT r 4).1 | .error _ => []).map (fun (t : DT) => (t.hh, t.mm, t.ss))) =
    [(9, 0, 0), (9, 0, 45), (9, 30, 0), (9, 30, 45)] := by decide +kernel
-- a SecondlyBSArgs instance: every 7 s, only at second 21 (first met after 3 steps)
example : SecondlyBSArgs { freq := 6, dtstart := dt 2024 1 1 9, interval := 7, bysecond := some [21] } :=
  ⟨rfl, by decide, by decide, Or.inl rfl, rfl, by intro x hx; simp at hx, Or.inl rfl, Or.inl rfl, ⟨[21], rfl⟩,
   List.any_eq_true.mpr ⟨3, List.mem_range.mpr (by omega), by decide⟩⟩
-- a WeeknoMArgs instance: the Mondays of weeks 10 and 20, scanned month by month
example : WeeknoMArgs { freq := 1, dtstart := dt 2024 1 1 9, byweekno := some [10, 20], byweekday := some [(0, 0)] } :=
  ⟨rfl, by decide, by decide, by decide, by intro x hx; simp at hx, rfl, by decide,
   ⟨[10, 20], rfl, by decide, ⟨by decide, by decide⟩⟩⟩
-- EasterMArgs / WeeklyEArgs instances
example : EasterMArgs { freq := 1, dtstart := dt 2024 1 1 9, byeaster := some [-2, 1] } :=
  ⟨rfl, by decide, by decide, rfl, by intro x hx; simp at hx, by intro w hw; simp at hw, ⟨[-2, 1], rfl, by decide, by decide⟩⟩
example : WeeklyEArgs { freq := 2, dtstart := dt 2024 12 30 9, byeaster := some [-74, -46, 1, 250] } :=
  ⟨rfl, by decide, by decide, rfl, by intro x hx; simp at hx, ⟨[-74, -46, 1, 250], rfl, by decide, by decide⟩,
   Or.inl rfl, by decide, by intro u hu; simp at hu⟩
-- a DailyEArgs instance: Good Friday and Easter Monday, scanned day by day; and the classifier on sub-daily BYEASTER rules
example : DailyEArgs { freq := 3, dtstart := dt 2024 1 1 10, byeaster := some [-2, 1] } :=
  ⟨rfl, by decide, by decide, rfl, by intro x hx; simp at hx, ⟨[-2, 1], rfl, by decide, by decide⟩⟩
example : dates (construct { freq := 3, dtstart := dt 2024 1 1 10, byeaster := some [-2, 1] }) 500
    = [(2024, 3, 29), (2024, 4, 1), (2025, 4, 18), (2025, 4, 21)] := by decide +kernel
example : family { freq := 3, dtstart := dt 2024 1 1 10, byeaster := some [-2, 1] } = some .dailyE := by decide +kernel
example : family { freq := 4, dtstart := dt 2024 1 1 10, interval := 6, byeaster := some [0], byminute := some [0, 30] }
    = some .hourlyE := by decide +kernel
example : Family.isEasterSub .hourlyE = true := rfl
-- a WeeklyWArgs instance: weeks 1, 52 and the last week, from a week that straddles New Year (Mon 2024-12-30)
example : WeeklyWArgs { freq := 2, dtstart := dt 2024 12 30 9, byweekno := some [1, 52, -1] } :=
  ⟨rfl, by decide, by decide, rfl, by intro x hx; simp at hx, ⟨[1, 52, -1], rfl, by decide, ⟨by decide, by decide⟩⟩,
   Or.inl rfl, by decide, by intro u hu; simp at hu⟩
-- a DailyWArgs instance: every day of ISO week 1 and of the last week of the year
example : DailyWArgs { freq := 3, dtstart := dt 2024 12 1 9, byweekno := some [1, -1] } :=
  ⟨rfl, by decide, by decide, Or.inr ⟨[1, -1], rfl, by decide, ⟨by decide, by decide⟩, by decide, by decide⟩, rfl,
   by intro x hx; simp at hx⟩
example : dates (construct { freq := 3, dtstart := dt 2024 12 1 9, byweekno := some [1, -1] }) 40
    = [(2024, 12, 23), (2024, 12, 24), (2024, 12, 25), (2024, 12, 26), (2024, 12, 27), (2024, 12, 28), (2024, 12, 29),
       (2024, 12, 30), (2024, 12, 31), (2025, 1, 1), (2025, 1, 2), (2025, 1, 3), (2025, 1, 4), (2025, 1, 5)] := by
  decide +kernel
-- the classifier on three argument sets: a supported one, one inside D-C01a, one with BYHOUR under MINUTELY
example : family { freq := 0, dtstart := dt 1997 5 12 9, byweekno := some [20], byweekday := some [(0, 0)] }
    = some .yearlyWeekno := by decide +kernel
example : family { freq := 1, dtstart := dt 2020 1 1 9, byweekday := some [(0, 0), (1, 1)] } = none := by decide +kernel
example : family { freq := 5, dtstart := dt 2020 1 1 9, byhour := some [9] } = some .minutelyByhour := by decide +kernel
-- former D-C01g (withdrawn, allowed by the property): MINUTELY every 120 minutes from 00:00 never meets hour 1: not supported, and the model raises ValueError
example : family { freq := 5, interval := 120, dtstart := dt 2024 1 1, byhour := some [1] } = none := by decide +kernel
example : (match construct { freq := 5, interval := 120, dtstart := dt 2024 1 1, byhour := some [1] } with
           | .ok r => (iter r 1).2 | .error e => .error e) = .error .ValueError := by decide +kernel
example : Spec.RRule.occ { freq := 5, interval := 120, dtstart := dt 2024 1 1, byhour := some [1] } 30 = [] := by
  decide +kernel

-- D-C01a: MONTHLY with plain MO and nth TU(1): nothing in a whole year although the set has every Monday
example : dates (construct { freq := 1, dtstart := dt 2020 1 1 9, byweekday := some [(0, 0), (1, 1)] }) 12 = [] := by
  decide +kernel
example : (Spec.RRule.occ { freq := 1, dtstart := dt 2020 1 1 9, byweekday := some [(0, 0), (1, 1)] } 1).length = 5 := by
  decide +kernel

-- D-C01c: YEARLY, wkst=TU, BYWEEKNO=52, BYDAY=SU from 2033-12-01: the model (as the code) skips 2034-01-01
example : dates (construct { freq := 0, dtstart := dt 2033 12 1, wkst := some 1, byweekno := some [52],
                             byweekday := some [(6, 0)] }) 2 = [(2034, 12, 31)] := by decide +kernel
example : (Spec.RRule.occ { freq := 0, dtstart := dt 2033 12 1, wkst := some 1, byweekno := some [52],
                            byweekday := some [(6, 0)] } 2).map (fun t => t.toDT.m) = [1, 12] := by decide +kernel

-- D-C01d: BYEASTER=-100 wraps around the mask: 2032-12-26 is yielded (a wrong instant); 300 → IndexError
example : (dates (construct { freq := 0, dtstart := dt 2032 1 1, byeaster := some [-100] }) 1) = [(2032, 12, 26)] := by
  decide +kernel
example : (match construct { freq := 0, dtstart := dt 2032 1 1, byeaster := some [300] } with
           | .ok r => (iter r 1).2 | .error e => .error e) = .error .IndexError := by decide +kernel

-- D-C01e: WEEKLY + BYSETPOS=1 from Wed 2020-01-01 with BYDAY=MO,FR: Fri 2020-01-03 is yielded; the
-- first candidate of that week is Mon 2019-12-30 (before the start), so the set starts at 2020-01-06
example : dates (construct { freq := 2, dtstart := dt 2020 1 1, byweekday := some [(0, 0), (4, 0)],
                             bysetpos := some [1] }) 2 = [(2020, 1, 3), (2020, 1, 6)] := by decide +kernel
example : (Spec.RRule.occ { freq := 2, dtstart := dt 2020 1 1, byweekday := some [(0, 0), (4, 0)],
                            bysetpos := some [1] } 2).map (fun t => t.toDT.d) = [6] := by decide +kernel

-- former D-C01f (fixed in /repo): BYWEEKNO with a start in year 1 (wkst=WE) no longer raises
example : dates (construct { freq := 0, dtstart := dt 1 12 31, wkst := some 2, byweekno := some [26], count := some 1 }) 2
    = [(2, 6, 26)] := by decide +kernel

end C01
