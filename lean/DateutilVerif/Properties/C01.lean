/-
  Properties/C01.lean — rrule yields exactly the RFC 5545 recurrence set, in order.
-/
import DateutilVerif.Model.RRule
import DateutilVerif.Spec.RRule

namespace C01
open RRule

/-- placeholder while the harness is brought up -/
theorem emit_nil (r : Rule) (c : Option Int) : emit r [] c = ([], none, c) := rfl

end C01
