/- Properties/RRuleGen.lean — the translator tie for the integer helpers of src/dateutil/rrule.py (wt-trrule):
   `gen_*_eq_model` obligations stating that the functions RE-TRANSLATED from the source on every run
   (Generated/RRuleKernels.lean, harness/translate_rr.py) equal the hand model of Model/RRule.lean, so that every
   C01 theorem about `RRule.constructByset`, `RRule.modDistance`, `RRule.rebuild`, `RRule.htimeset` … speaks about
   the code as written NOW.  Listed in Audit/C01.lean. -/
import DateutilVerif.Proofs.RRuleGenHelpers
import DateutilVerif.Proofs.RRuleGenRebuild
import DateutilVerif.Proofs.RRuleGenDaysets
import DateutilVerif.Proofs.RRuleGenCached
import DateutilVerif.Proofs.RRuleGenUse
import DateutilVerif.Proofs.RRuleGenInit
import DateutilVerif.Proofs.RRuleGenInitAll
import DateutilVerif.Proofs.RRuleGenInitWhole
import DateutilVerif.Properties.C01

namespace C01
open RRule RrPy RRule.Tables

/-- `rrule.__construct_byset(start, byxxx, base)` (every `base ≠ 0`; the constructor calls it with 24 and 60) -/
theorem gen_constructByset_eq_model (r : Rule) (start : Int) (byxxx : List Int) (base : Int) (hb : base ≠ 0) :
    Gen.constructByset r start byxxx base = RRule.constructByset r.interval start byxxx base :=
  RRuleGen.gen_constructByset_eq_model r start byxxx base hb

example : Gen.constructByset { (default : Rule) with interval := 4 } 17 [21, 2, 1, 5, 21] 24 = .ok [21, 1, 5] := by decide
example : Gen.constructByset { (default : Rule) with interval := 4 } 17 [2, 3] 24 = .error .ValueError := by decide

/-- `rrule.__mod_distance(value, byxxx, base)`: the model's search with the loop's own bound `base`; `none` = the
    function falls off its loop and returns `None` (every `base ≠ 0`; `_iter` calls it with 24 and 60) -/
theorem gen_modDistance_eq_model (r : Rule) (value : Int) (byxxx : List Int) (base : Int) (hb : base ≠ 0) :
    Gen.modDistance r value byxxx base = .ok (RRule.modDistance r.interval byxxx base base.toNat 0 value) :=
  RRuleGen.gen_modDistance_eq_model r value byxxx base hb

example : Gen.modDistance { (default : Rule) with interval := 7 } 20 [3, 9] 24 = .ok (some (1, 3)) := by decide
example : Gen.modDistance { (default : Rule) with interval := 4 } 17 [2, 3] 24 = .ok none := by decide

/-- `_iterinfo.htimeset(hour, minute, second)` (HOURLY rules carry BYMINUTE and BYSECOND tuples: `construct` fills them
    from dtstart; on `None` Python raises TypeError where the model reads `()`) -/
theorem gen_htimeset_eq_model (r : Rule) (self : RrPy.II) (hour minute second : Int)
    (hm : r.byminute.isSome) (hs : r.bysecond.isSome) :
    Gen.htimeset r self hour minute second = RRule.htimeset r hour :=
  RRuleGen.gen_htimeset_eq_model r self hour minute second hm hs

example : Gen.htimeset { (default : Rule) with byminute := some [30, 0], bysecond := some [5] } {} 9 0 0
    = .ok [(9, 0, 5), (9, 30, 5)] := by decide

/-- `_iterinfo.mtimeset(hour, minute, second)` (MINUTELY rules carry a BYSECOND tuple) -/
theorem gen_mtimeset_eq_model (r : Rule) (self : RrPy.II) (hour minute second : Int) (hs : r.bysecond.isSome) :
    Gen.mtimeset r self hour minute second = RRule.mtimeset r hour minute :=
  RRuleGen.gen_mtimeset_eq_model r self hour minute second hs

example : Gen.mtimeset { (default : Rule) with bysecond := some [61] } {} 9 0 0 = .error .ValueError := by decide

/-- `_iterinfo.stimeset(hour, minute, second)` -/
theorem gen_stimeset_eq_model (r : Rule) (self : RrPy.II) (hour minute second : Int) :
    Gen.stimeset r self hour minute second = RRule.stimeset hour minute second :=
  RRuleGen.gen_stimeset_eq_model r self hour minute second

/-- **`_iterinfo.rebuild(year, month)` as written now, on a fresh `_iterinfo` (every slot `None`), is the model's
    `rebuild`**: the same exception, or the same twelve slots (year length, ordinal and weekday of January 1st, the five
    tables, the week-number / nth-weekday / easter masks) with `lastyear = year` and `lastmonth = month` — for YEARLY
    rules with BYMONTH and nth weekdays `lastmonth` is the LAST BYMONTH MEMBER, because the loop variable of
    `for month in rr._bymonth` rebinds the parameter (`RRuleGen.nwMonth`). -/
theorem gen_rebuild_eq_model (r : Rule) (year month : Int) :
    Gen.rebuild r {} year month =
      (RRule.rebuild r year month).bind fun info =>
        .ok (RrPy.II.ofInfo info (some year)
              (some (if truthy r.bynweekday = true then RRuleGen.nwMonth r month else month))) :=
  RRuleGen.gen_rebuild_fresh r year month

-- 2024 (leap, starts on a Monday), BYWEEKNO=1 with Monday weeks: days 0..6 are marked, `lastyear` is recorded
example : ((Gen.rebuild { (default : Rule) with byweekno := some [1], wkst := 0 } {} 2024 3).toOption.map
    fun s => (s.yearlen, s.lastyear, s.lastmonth, s.wnomask.map (·.take 9))) =
    some (366, some 2024, some 3, some [1, 1, 1, 1, 1, 1, 1, 0, 0]) := by decide +kernel
-- `date(0, 1, 1)` does not exist
example : Gen.rebuild (default : Rule) {} 0 1 = .error .ValueError := by decide +kernel

/-- the slots the model keeps -/
theorem gen_rebuild_toInfo (r : Rule) (year month : Int) :
    (Gen.rebuild r {} year month).map RrPy.II.toInfo = RRule.rebuild r year month := by
  rw [gen_rebuild_eq_model]
  cases RRule.rebuild r year month <;> rfl

/-- **`rebuild` on an `_iterinfo` that has been rebuilt before** (`RRuleGen.Coherent`: the slots are the model's `rebuild`
    of the recorded `lastyear`, and of the recorded `lastmonth` where the nth-weekday mask depends on it): the
    `lastyear` / `lastmonth` caching of the code returns exactly what recomputing everything (the model) returns. -/
theorem gen_rebuild_cached_eq_model (r : Rule) (st : RrPy.II) (hst : RRuleGen.Coherent r st) (year month : Int) :
    Gen.rebuild r st year month =
      (RRule.rebuild r year month).bind fun info =>
        .ok (RrPy.II.ofInfo info (some year) (some (RRuleGen.newMonth r st year month))) :=
  RRuleGen.gen_rebuild_cached r st hst year month

/-- **every call history**: after ANY sequence of successful `rebuild(y, m)` calls on one `_iterinfo` (`RRuleGen.history`:
    the translated function folded over the calls from the fresh object), the next call raises what the model's pure
    `rebuild(year, month)` raises or leaves exactly its twelve slots — the caching is unobservable. -/
theorem gen_rebuild_any_history (r : Rule) (calls : List (Int × Int)) (st : RrPy.II)
    (h : RRuleGen.history r calls = .ok st) (year month : Int) :
    (Gen.rebuild r st year month).map RrPy.II.toInfo = RRule.rebuild r year month :=
  RRuleGen.rebuild_after_history r calls st h year month

-- a history that exercises the cache: same year / other month, then another year
example : (RRuleGen.history { (default : Rule) with freq := 1, bynweekday := some [(0, 1)] } [(2024, 1), (2024, 2), (2025, 2)]).toOption.map
    (fun s => (s.lastyear, s.lastmonth, s.yearlen)) = some (some 2025, some 2, 365) := by decide +kernel

/-! ### the day sets

The methods return `(dset, start, end)`; `rrule._iter` reads `dset[start:end]`; the model's `dayset` is `range(start, end)`.
`RRuleGen.DaysetAgrees x m`: `x` raises what `m` raises, or `x = (dset, start, end)`, `m = range(start, end)` and
`dset[k] == k` for every `start ≤ k < end`. -/

/-- `_iterinfo.ydayset`: `(list(range(yearlen)), 0, yearlen)`, the model's YEARLY day set, entry `k` is `k` -/
theorem gen_ydayset_eq_model (r : Rule) (self : RrPy.II) (c : Cursor) (hf : r.freq = 0) :
    Gen.ydayset r self c.year c.month c.day = .ok (intRange 0 self.yearlen, 0, self.yearlen) ∧
    dayset r self.toInfo c = .ok (intRange 0 self.yearlen) ∧
    ∀ k, 0 ≤ k → k < self.yearlen → Py.getIdx (intRange 0 self.yearlen) k = .ok k :=
  RRuleGen.gen_ydayset_agrees r self c hf

/-- `_iterinfo.mdayset` on the slots a `rebuild` leaves (tables of a leap / common year), month 1..12 -/
theorem gen_mdayset_eq_model (r : Rule) (self : RrPy.II) (c : Cursor) (hf : r.freq = 1) (leap : Bool)
    (hyl : self.yearlen = Tables.ylen leap) (hmr : self.mrange = Tables.mrangeOf leap)
    (hm : 1 ≤ c.month ∧ c.month ≤ 12) :
    RRuleGen.DaysetAgrees (Gen.mdayset r self c.year c.month c.day) (dayset r self.toInfo c) :=
  RRuleGen.gen_mdayset_agrees r self c hf leap hyl hmr hm

/-- `_iterinfo.wdayset` (the date is not before January 1st of the rebuilt year: earlier, Python's negative index wraps
    around where the model raises IndexError — `_iter` rebuilds for the cursor's year before asking for the day set) -/
theorem gen_wdayset_eq_model (r : Rule) (self : RrPy.II) (c : Cursor) (hf : r.freq = 2) (hyl : 0 ≤ self.yearlen + 7)
    (hi : Cal.validDate c.year c.month c.day = true → 0 ≤ Cal.toOrdinal c.year c.month c.day - self.yearordinal) :
    RRuleGen.DaysetAgrees (Gen.wdayset r self c.year c.month c.day) (dayset r self.toInfo c) :=
  RRuleGen.gen_wdayset_agrees r self c hf hyl hi

/-- `_iterinfo.ddayset` (DAILY and the sub-daily frequencies; same proviso on the date) -/
theorem gen_ddayset_eq_model (r : Rule) (self : RrPy.II) (c : Cursor) (hf : r.freq ≠ 0 ∧ r.freq ≠ 1 ∧ r.freq ≠ 2)
    (hi : Cal.validDate c.year c.month c.day = true → 0 ≤ Cal.toOrdinal c.year c.month c.day - self.yearordinal) :
    RRuleGen.DaysetAgrees (Gen.ddayset r self c.year c.month c.day) (dayset r self.toInfo c) :=
  RRuleGen.gen_ddayset_agrees r self c hf hi

-- 1997-09-02 in the (common) year rebuilt for 1997: day 244, week Tue..Sun with Monday weeks
example : ((Gen.rebuild { (default : Rule) with freq := 2 } {} 1997 9).bind fun s =>
      (Gen.wdayset { (default : Rule) with freq := 2 } s 1997 9 2).map fun t => (t.2.1, t.2.2, t.1.drop 243 |>.take 8)) =
    .ok (244, 250, [none, some 244, some 245, some 246, some 247, some 248, some 249, none]) := by decide +kernel
example : ((Gen.rebuild { (default : Rule) with freq := 1 } {} 2024 2).bind fun s =>
      (Gen.mdayset { (default : Rule) with freq := 1 } s 2024 2 1).map fun t => (t.2.1, t.2.2)) = .ok (31, 60) := by decide +kernel

/-! ### a C01 theorem carried over to the code as written now -/

/-- `C01.masks_are_dates` read on the TRANSLATED `rebuild`: after any history of successful calls, the slots the code
    leaves for year `y` hold, at every index `i < yearlen + 7`, the month / day / day-from-month-end / weekday of the date
    with ordinal `toOrdinal y 1 1 + i` (every year 1..9999). -/
theorem gen_rebuild_masks_are_dates (r : Rule) (calls : List (Int × Int)) (st0 : RrPy.II)
    (hh : RRuleGen.history r calls = .ok st0) (y m : Int) (st : RrPy.II) (hst : Gen.rebuild r st0 y m = .ok st)
    (i : Int) (h0 : 0 ≤ i) (h1 : i < st.yearlen + 7) :
    st.yearordinal = Cal.toOrdinal y 1 1 ∧ st.yearlen = Cal.daysInYear y ∧
    Py.getIdx st.mmask i = .ok (Cal.fromOrdinal (st.yearordinal + i)).2.1 ∧
    Py.getIdx st.mdaymask i = .ok (Cal.fromOrdinal (st.yearordinal + i)).2.2 ∧
    Py.getIdx st.nmdaymask i = .ok ((Cal.fromOrdinal (st.yearordinal + i)).2.2 -
        Cal.daysInMonth (Cal.fromOrdinal (st.yearordinal + i)).1 (Cal.fromOrdinal (st.yearordinal + i)).2.1 - 1) ∧
    Py.getIdx st.wdaymask i = .ok (Cal.weekdayOfOrd (st.yearordinal + i)) := by
  have hmodel : RRule.rebuild r y m = .ok st.toInfo := by
    have := gen_rebuild_any_history r calls st0 hh y m
    rw [hst] at this
    exact this.symm
  exact C01.masks_are_dates r y m st.toInfo hmodel i h0 h1

/-! ### as `rrule._iter` uses them: no side condition left -/

/-- for EVERY rule the constructor returns (any ambient first weekday `k`), the time-set method `_iter` selects by frequency
    (`RRuleGen.genTimeset`: htimeset / mtimeset / stimeset) is the model's `gettimeset` -/
theorem gen_gettimeset_of_construct (k : Int) (a : Args) (r : Rule) (h : constructW k a = .ok r) (self : RrPy.II)
    (hour minute second : Int) :
    RRuleGen.genTimeset r self hour minute second = gettimeset r hour minute second :=
  RRuleGen.gen_gettimeset_of_construct k a r h self hour minute second

/-- after ANY history of successful `rebuild` calls, rebuild for the cursor's year and ask for the day set of the cursor's
    date (month 1..12): the method `_iter` selects by frequency (`RRuleGen.genDayset`: mdayset / wdayset / ddayset; YEARLY is
    `gen_ydayset_eq_model`) raises what the model's `dayset` raises, or returns `(dset, start, end)` with the model's day set
    `range(start, end)` and `dset[k] == k` on it -/
theorem gen_dayset_after_rebuild (r : Rule) (hf : r.freq ≠ 0) (calls : List (Int × Int)) (st0 : RrPy.II)
    (hh : RRuleGen.history r calls = .ok st0) (c : Cursor) (marg : Int) (st : RrPy.II)
    (hst : Gen.rebuild r st0 c.year marg = .ok st) (hm : 1 ≤ c.month ∧ c.month ≤ 12) :
    RRuleGen.DaysetAgrees (RRuleGen.genDayset r st c) (dayset r st.toInfo c) :=
  RRuleGen.gen_dayset_after_rebuild r hf calls st0 hh c marg st hst hm

-- a rule out of the constructor (HOURLY, start 09:30:15): the hour's time set
example : (constructW 0 { freq := 4, dtstart := { y := 1997, m := 9, d := 2, hh := 9, mm := 30, ss := 15, us := 0 } }).toOption.map
    (fun r => RRuleGen.genTimeset r {} 11 0 0) = some (.ok [(11, 30, 15)]) := by decide +kernel

/-! ### sections of `rrule.__init__` (one top-level statement of the constructor each, re-translated from source;
the `_original_rule` bookkeeping inside them is not part of the translation — hand model `origArgs`) -/

/-- `# bymonth`: `None` kept, otherwise `tuple(sorted(set(bymonth)))` — the `.map sortedSet` of `bymonthOf` -/
theorem gen_init_bymonth_eq_model (x : Option (List Int)) : Gen.init_bymonth x = .ok (x.map sortedSet) :=
  RRuleGen.init_bymonth_eq x
/-- `# byyearday` — the `byyearday` field of `construct` -/
theorem gen_init_byyearday_eq_model (a : Args) : Gen.init_byyearday a.byyearday = .ok (a.byyearday.map sortedSet) :=
  RRuleGen.init_byyearday_eq _
/-- `# byweekno` — the `byweekno` field of `construct` -/
theorem gen_init_byweekno_eq_model (a : Args) : Gen.init_byweekno a.byweekno = .ok (a.byweekno.map sortedSet) :=
  RRuleGen.init_byweekno_eq _
/-- `# byeaster`: `tuple(sorted(byeaster))`, repetitions kept — the `byeaster` field of `construct` -/
theorem gen_init_byeaster_eq_model (a : Args) : Gen.init_byeaster a.byeaster = .ok (a.byeaster.map (sortBy ltInt)) :=
  RRuleGen.init_byeaster_eq _
/-- `# bymonthday`: the split into positive and negative members, applied to the argument after the defaults block
    (`monthdayArg`) — the fields `bymonthday` / `bynmonthday` of `construct` -/
theorem gen_init_bymonthday_eq_model (a : Args) :
    Gen.init_bymonthday (monthdayArg a) = .ok (bymonthdayOf a, bynmonthdayOf a) := by
  rw [RRuleGen.init_bymonthday_eq]
  unfold bymonthdayOf bynmonthdayOf
  cases monthdayArg a <;> rfl
/-- the BYSETPOS block: ValueError for a position 0 or outside −366..366 — `normBysetpos` -/
theorem gen_init_bysetpos_eq_model (a : Args) : Gen.init_bysetpos a.bysetpos = normBysetpos a :=
  RRuleGen.init_bysetpos_eq a
/-- `# byhour`: default from dtstart below HOURLY, `__construct_byset` (translated) at HOURLY, sorted set otherwise — `normUnit … 4 … 24` -/
theorem gen_init_byhour_eq_model (a : Args) :
    Gen.init_byhour a.freq a.dtstart a.interval a.byhour = normUnit a.freq 4 a.interval a.dtstart.hh a.byhour 24 :=
  RRuleGen.init_byhour_eq _ _ _ _
/-- `# byminute` — `normUnit … 5 … 60` -/
theorem gen_init_byminute_eq_model (a : Args) :
    Gen.init_byminute a.freq a.dtstart a.interval a.byminute = normUnit a.freq 5 a.interval a.dtstart.mm a.byminute 60 :=
  RRuleGen.init_byminute_eq _ _ _ _
/-- `# bysecond` (after the repair: one read of the argument) — `normUnit … 6 … 60` -/
theorem gen_init_bysecond_eq_model (a : Args) :
    Gen.init_bysecond a.freq a.dtstart a.interval a.bysecond = normUnit a.freq 6 a.interval a.dtstart.ss a.bysecond 60 :=
  RRuleGen.init_bysecond_eq _ _ _ _

/-- `if interval < 1: raise ValueError` — the guard of `construct` -/
theorem gen_init_interval_eq_model (i : Int) : Gen.init_interval i = if i < 1 then .error .ValueError else .ok () :=
  RRuleGen.init_interval_eq i
/-- the week start: `calendar.firstweekday()` (the explicit input `fwd` of `constructW`) exactly when `wkst` is None — `resolveW` -/
theorem gen_init_wkst_eq_model (fwd : Int) (a : Args) : Gen.init_wkst fwd a.wkst = .ok ((resolveW fwd a).wkst.getD 0) := by
  rw [RRuleGen.init_wkst_eq]; rfl
/-- the defaults block (no BYWEEKNO / BYYEARDAY / BYMONTHDAY / BYDAY / BYEASTER: BYMONTH+BYMONTHDAY, BYMONTHDAY or BYDAY from
    dtstart by frequency) — the arguments `bymonthOf` / `monthdayArg` / `weekdayArg` normalise -/
theorem gen_init_defaults_eq_model (a : Args) :
    Gen.init_defaults a.freq a.dtstart a.bymonth a.bymonthday a.byyearday a.byeaster a.byweekno a.byweekday =
      .ok (if noDayParts a && a.freq == 0 && a.bymonth.isNone then some [a.dtstart.m] else a.bymonth,
           monthdayArg a, weekdayArg a) :=
  RRuleGen.init_defaults_eq a
/-- the timeset block — `timesetOf` (below HOURLY all three tuples are set, as `normUnit` guarantees) -/
theorem gen_init_timeset_eq_model (a : Args) (bh bm bs : Option (List Int))
    (h : a.freq < 4 → bh.isSome = true ∧ bm.isSome = true ∧ bs.isSome = true) :
    Gen.init_timeset a.freq bh bm bs = timesetOf a bh bm bs :=
  RRuleGen.init_timeset_eq a bh bm bs h

/-- the BYDAY block: plain members (ints, `MO`, every `MO(n)` above MONTHLY) and nth members as sorted sets, `None` for an
    empty part, on the argument after the defaults block — the fields `byweekday` / `bynweekday` of `construct` -/
theorem gen_init_byweekday_eq_model (a : Args) :
    Gen.init_byweekday a.freq (weekdayArg a) = .ok (byweekdayOf a, bynweekdayOf a) :=
  RRuleGen.init_byweekday_eq a

/-- **the constructor, from its translated sections**: the sixteen blocks of `rrule.__init__` re-translated from source,
    sequenced in source order (`RRuleGen.initSections`), are the model's `constructW fwd` — the same ValueError or the same
    normalised rule, field for field, for every argument set and every ambient first weekday.
    `_partial`: the sequencing (which variable feeds which block) and the plain attribute copies (`self._freq = freq`,
    `self._count`, `self._until`, `dtstart.replace(microsecond=0)`, `self._tzinfo`) are written by hand in `initSections`, not
    translated; the `_original_rule` bookkeeping (hand model `origArgs`), the `until` / `dtstart` conversions from `date`
    and the UNTIL-vs-DTSTART awareness check are not covered (the `Args` type carries one zone tag and datetimes only).
    Full statement wanted: `Gen.init fwd a = (constructW fwd a, origArgs a ·)` for a translation of the whole function. -/
theorem gen_construct_eq_model_partial (fwd : Int) (a : Args) : RRuleGen.initSections fwd a = constructW fwd a :=
  RRuleGen.initSections_eq fwd a

/-- **`rrule.__init__` as written now = the model's constructor**: `Gen.init` — every statement of the function translated in
    sequence (Generated/RRuleKernels.lean) — returns, for every argument set `a` and every ambient first weekday `fwd`, the same
    ValueError or the same normalised rule as `constructW fwd a`, field for field (`cache` is irrelevant).
    What the translation leaves out of the function text (each a documented rule of `translate_rr.clean_init` / the `Args`
    conventions, not a proof gap): the `_original_rule` bookkeeping (hand model `origArgs`), `warn(...)`, the UNTIL / DTSTART
    awareness check (`Args` carries one zone tag), and the branches for `dtstart` / `until` given as `date` or omitted and for BY
    arguments given as scalars / weekday objects (`Args` holds datetimes, 1-tuples and `(weekday, n)` pairs). -/
theorem gen_construct_eq_model (fwd : Int) (a : Args) (cache : Bool) :
    Gen.init fwd a.tz a.freq a.dtstart a.interval a.wkst a.count a.untilDT a.bysetpos a.bymonth a.bymonthday a.byyearday
      a.byeaster a.byweekno a.byweekday a.byhour a.byminute a.bysecond cache = constructW fwd a := by
  rw [RRuleGen.init_eq_sections, RRuleGen.initSections_eq]

example : (RRuleGen.initSections 0 { freq := 1, byweekday := some [(4, 1), (0, 0)], dtstart := { y := 1997, m := 9, d := 2, hh := 9, mm := 0, ss := 0, us := 5 } }).toOption.map (fun r => r.bynweekday) =
    some (some [(4, 1)]) := by decide +kernel
example : RRuleGen.initSections 0 { freq := 1, interval := 0, dtstart := default } = .error .ValueError := by decide +kernel

example : Gen.init_bymonthday (some [3, -1, 3, 15, -2]) = .ok ([3, 15], [-2, -1]) := by decide
example : Gen.init_bysetpos (some [1, 367]) = .error .ValueError := by decide
example : Gen.init_byhour 4 { y := 1997, m := 9, d := 2, hh := 17, mm := 0, ss := 0, us := 0 } 4 (some [2, 21, 1]) = .ok (some [1, 21]) := by decide

end C01
