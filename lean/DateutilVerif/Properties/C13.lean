/-
  Properties/C13.lean — rrulestr and str(rrule) are inverse; RFC text means the same as keywords.

  Everything is about the model `Model/RRuleStr.lean` (tied to the code by the `rrs.str` / `rrs.parse`
  correspondence): `toStr` = `rrule.__str__`, `parseRfc` = `_rrulestr._parse_rfc` up to the keyword
  arguments `RArgs` handed to `rrule()` / the members handed to `rruleset`.  All theorems quantify over
  ALL inputs (every text, every Int, every rule in printable normal form).

  Not covered here (oracle / correspondence only): TZID / tzids / tzinfos / ignoretz plumbing
  (`str_variants_partial` of the design is not a theorem), date values in spellings other than the compact
  form `__str__` emits (they go through `parser.parse`, C02), and `rrule(**kwargs)` itself (C01).
-/
import DateutilVerif.Proofs.RRuleStrMalformed
import DateutilVerif.Proofs.RRuleStrOrder
import DateutilVerif.Proofs.RRuleStrSet
import DateutilVerif.Proofs.RRuleStrSpell
import DateutilVerif.Proofs.RRuleStrOpts
import DateutilVerif.Proofs.RRuleStrRule
import DateutilVerif.Proofs.RRuleStrFold
import DateutilVerif.Proofs.RRuleStrTzid
import DateutilVerif.Proofs.RRuleStrDate
import DateutilVerif.Proofs.RRuleStrGenStr
import DateutilVerif.Proofs.RRuleStrGenRule

namespace C13
open RRuleStr
open ICal (upper splitOnChar pyInt isDigit)

variable {po : ParseOpts}

/-! ## 1. decimal numbers -/

/-- reading the decimal print of a natural number gives it back -/
theorem showNat_roundtrip (n : Nat) : nat? (showNat n) = some n := nat?_showNat n

/-- `str(n)` consists of digits only — in particular none of the separators `, ; = :` -/
theorem showNat_digits_only (n : Nat) :
    ∀ c ∈ showNat n, isDigit c = true ∧ c ≠ ',' ∧ c ≠ ';' ∧ c ≠ '=' ∧ c ≠ ':' := by
  intro c hc
  have h := showNat_digits n c hc
  refine ⟨h, ?_, ?_, ?_, ?_⟩ <;> (rintro rfl; revert h; decide)

/-- `int(str(i)) == i` -/
theorem pyInt_showInt (i : Int) : pyInt (showInt i) = some i := RRuleStr.pyInt_showInt i

/-- `int('%+d' % i) == i` -/
theorem pyInt_showIntSigned (i : Int) : pyInt (showIntSigned i) = some i := RRuleStr.pyInt_showIntSigned i

example : showNat_roundtrip 1997 = nat?_showNat 1997 := rfl
example : (-366 : Int) < 0 ∧ pyInt (showInt (-366)) = some (-366) := ⟨by decide, pyInt_showInt _⟩

/-! ## 2. every failure is a ValueError -/

/-- whatever the text and the options, the only exception kind `rrulestr` (as modelled: line splitting, property and
    parameter dispatch, part handlers, the FREQ and no-RRULE checks) ends in is ValueError -/
theorem errors_are_ValueError (s : List Char) (o : Opts) (kw : Bool) (e : Py.PyErr)
    (h : parseRfc s o kw = .error e) : e = .ValueError := parseRfc_onlyVE s o kw e h

/-- a part `NAME=VALUE` whose upper-cased name has no `_handle_NAME` method (the sixteen handled names are INTERVAL, COUNT,
    BYSETPOS, BYMONTH, BYMONTHDAY, BYYEARDAY, BYEASTER, BYWEEKNO, BYHOUR, BYMINUTE, BYSECOND, FREQ, UNTIL, WKST,
    BYWEEKDAY, BYDAY) makes `_parse_rfc_rrule` fail with ValueError, wherever it stands in the line -/
theorem unknown_part_ValueError {line value p name v : List Char} (hv : lineValue line = .ok value)
    (hp : p ∈ splitOnChar ';' value) (hs : splitOnChar '=' p = [name, v]) (hn : upper name ∉ handledNames) :
    parseRRuleLine po line = .error .ValueError :=
  parseRRuleLine_fails hv hp (badPart_fails (.unknown p name v hs hn))

/-- a malformed part (`BadPart`: not exactly one `=`; a non-integer for INTERVAL / COUNT; a non-integer or empty item in an
    integer list; an unknown FREQ or WKST name; a BYDAY / BYWEEKDAY item that `parseWDay` rejects) makes
    `_parse_rfc_rrule` fail with ValueError, wherever it stands in the line -/
theorem malformed_value_ValueError {line value p : List Char} (hv : lineValue line = .ok value)
    (hp : p ∈ splitOnChar ';' value) (hbad : BadPart p) : parseRRuleLine po line = .error .ValueError :=
  parseRRuleLine_fails hv hp (badPart_fails hbad)

/-- the BYDAY items that are rejected: the empty item, `n = 0` in either spelling (any weekday, any spelling of zero),
    a name that is not a weekday -/
theorem malformed_byday_items :
    parseWDay [] = .error .ValueError ∧
    (∀ (pre w : List Char) (k : Int), IsWD w k → pre ≠ [] → (∀ c ∈ pre, isSignDigit c = true) → pyInt pre = some 0 →
      parseWDay (pre ++ w) = .error .ValueError) ∧
    (∀ (inner w : List Char) (k : Int) (last : Char), IsWD w k → '(' ∉ inner → last ≠ '(' → pyInt inner = some 0 →
      parseWDay (w ++ '(' :: (inner ++ [last])) = .error .ValueError) ∧
    (∀ w : List Char, w ≠ [] → '(' ∉ w → (∀ c ∈ w, isSignDigit c = false) → lookup weekdayMap w = none →
      parseWDay w = .error .KeyError) :=
  ⟨parseWDay_empty, fun _ _ _ hw hne hp hn => parseWDay_zero_prefix hw hne hp hn,
   fun _ _ _ last hw hin hl hn => parseWDay_zero_paren last hw hin hl hn,
   fun _ hne hp hsd hl => parseWDay_unknown_name hne hp hsd hl⟩

-- non-vacuity: an unknown name, a bad integer, a pair without `=`, in the middle of a line
example : parseRRuleLine po (lit "RRULE:FREQ=DAILY;FOO=1;COUNT=2") = .error .ValueError :=
  unknown_part_ValueError (value := lit "FREQ=DAILY;FOO=1;COUNT=2") (p := lit "FOO=1") (name := lit "FOO") (v := lit "1")
    (by decide) (by decide) (by decide) (by decide)
example : parseRRuleLine po (lit "FREQ=DAILY;interval=x") = .error .ValueError :=
  malformed_value_ValueError (value := lit "FREQ=DAILY;interval=x") (p := lit "interval=x") (by decide) (by decide)
    (.badInt _ (lit "interval") (lit "x") (by decide) (by decide) (by decide))
example : parseRRuleLine po (lit "FREQ=DAILY;COUNT") = .error .ValueError :=
  malformed_value_ValueError (value := lit "FREQ=DAILY;COUNT") (p := lit "COUNT") (by decide) (by decide)
    (.notPair _ (by decide))
example : parseRRuleLine po (lit "FREQ=DAILY;BYDAY=MO,,TU") = .error .ValueError :=
  malformed_value_ValueError (value := lit "FREQ=DAILY;BYDAY=MO,,TU") (p := lit "BYDAY=MO,,TU") (by decide) (by decide)
    (.badDay _ (lit "BYDAY") (lit "MO,,TU") [] .ValueError (by decide) (by decide) (by decide) (by decide))
example : parseRfc (lit "DTSTART:19970902T090000") {} = .error .ValueError := by decide   -- no RRULE at all (fixed)
example : parseRfc (lit "INTERVAL=2") {} = .error .ValueError := by decide                 -- missing FREQ (fixed)

/-! ## 3. letter case -/

/-- the text is upper-cased as a whole before anything else: for everything `parseRfc` returns — the RRULE / EXRULE parts,
    the property names, the parameters and the date texts — the letter case of the input is irrelevant.
    Scope, honestly: this covers the RRULE parts and the line dispatch ONLY.  (1) The UNTIL / DTSTART / RDATE / EXDATE date
    texts and TZID parameter values reach `parser.parse` / the parameter loop upper-cased.  (2) The zone NAME handed to the
    `tzids` lookup is NOT part of `parseRfc`'s result: it is `tzidOf text opts parms` (`Model/RRuleStr.lean`), taken from the
    text AS WRITTEN through the case-insensitive name table, so `dtstart;tzid=Foo/Bar:` looks up `Foo/Bar` while the
    upper-cased text looks up `FOO/BAR` — the same name only up to letter case.  No theorem is stated about `tzidOf`; it is
    tied to `TZID_NAMES` / `_parse_date_value` by the correspondence (every spelling, folded too) and by the oracle. -/
theorem case_irrelevant (s : List Char) (o : Opts) (kw : Bool) : parseRfc (upper s) o kw = parseRfc s o kw := by
  unfold parseRfc; rw [upper_idem]

example : upper (lit "rrule:freq=Daily;byday=+1mo") = lit "RRULE:FREQ=DAILY;BYDAY=+1MO" := by decide

/-! ## 4. BYDAY spellings -/

/-- for every weekday and every n ≠ 0 the spellings `+nWD` (`-nWD`), `nWD`, `WD(+n)`, `WD(n)` of a BYDAY item all parse to
    `weekday(wd, n)`, and the bare `WD` to `weekday(wd)` — for ALL n, not a sample (for n > 0 `showIntSigned n` is `+n`
    and `showInt n` is `n`; for n < 0 both are `-n`) -/
theorem byday_spellings (k : Int) (h0 : 0 ≤ k) (h6 : k ≤ 6) (n : Int) (hn : n ≠ 0) :
    parseWDay (showIntSigned n ++ wdName k) = .ok (k, some n) ∧
    parseWDay (showInt n ++ wdName k) = .ok (k, some n) ∧
    parseWDay (wdName k ++ '(' :: (showIntSigned n ++ [')'])) = .ok (k, some n) ∧
    parseWDay (wdName k ++ '(' :: (showInt n ++ [')'])) = .ok (k, some n) ∧
    parseWDay (wdName k) = .ok (k, none) := by
  have hw := isWD_wdName k h0 h6
  refine ⟨?_, ?_, ?_, ?_, parseWDay_bare hw⟩
  · exact parseWDay_prefix hw (showIntSigned_ne_nil n) (showIntSigned_signDigit n) (RRuleStr.pyInt_showIntSigned n) hn
  · exact parseWDay_prefix hw (showInt_ne_nil n) (showInt_signDigit n) (RRuleStr.pyInt_showInt n) hn
  · exact parseWDay_paren ')' hw (isSignDigit_not_paren (showIntSigned_signDigit n)) (by decide)
      (RRuleStr.pyInt_showIntSigned n) hn
  · exact parseWDay_paren ')' hw (isSignDigit_not_paren (showInt_signDigit n)) (by decide) (RRuleStr.pyInt_showInt n) hn

/-- `BYDAY=` and `BYWEEKDAY=` are the same handler -/
theorem byday_eq_byweekday (value : List Char) : handleU po (lit "BYDAY") value = handleU po (lit "BYWEEKDAY") value :=
  handleU_byday_eq_byweekday value

example : parseWDay (lit "+1MO") = .ok (0, some 1) ∧ parseWDay (lit "1MO") = .ok (0, some 1) ∧
    parseWDay (lit "MO(+1)") = .ok (0, some 1) ∧ parseWDay (lit "-2FR") = .ok (4, some (-2)) := by decide

/-! ## 5. order of the parts -/

/-- for `NAME=VALUE` parts that set pairwise different keywords (judged by their names; BYDAY and BYWEEKDAY are the same
    keyword), the loop of `_parse_rfc_rrule` gives the same result over any permutation: the same arguments when all
    parts parse, and (with `errors_are_ValueError`) ValueError in every order otherwise -/
theorem parts_order_irrelevant {ps qs : List (List Char)} (hperm : ps.Perm qs) (hd : ps.Pairwise Distinct) (a : RArgs) :
    ps.foldlM (stepPair po) a = qs.foldlM (stepPair po) a := foldlM_stepPair_perm hperm hd a

/-- the same at the level of the RRULE value -/
theorem parts_order_irrelevant_line {v1 v2 : List Char} (h1 : ':' ∉ v1) (h2 : ':' ∉ v2)
    (hperm : (splitOnChar ';' v1).Perm (splitOnChar ';' v2)) (hd : (splitOnChar ';' v1).Pairwise Distinct) :
    parseRRuleLine po v1 = parseRRuleLine po v2 := by
  rw [parseRRuleLine_of_lineValue (lineValue_noColon h1), parseRRuleLine_of_lineValue (lineValue_noColon h2)]
  exact foldlM_stepPair_perm hperm hd {}

example : parseRRuleLine po (lit "COUNT=3;BYDAY=MO;FREQ=WEEKLY") = parseRRuleLine po (lit "FREQ=WEEKLY;COUNT=3;BYDAY=MO") :=
  parts_order_irrelevant_line (by decide) (by decide) (by decide) (by decide)

/-! ## 6. str / rrulestr round trip -/

/-- the `RRULE:` line of `str(rule)` parses back to exactly the printed arguments `argsOf x`, for EVERY rule in printable
    form (`Printable`: freq < 7, wkst in 0..6, recorded weekday numbers 0..6 with n ≠ 0 when present; interval, count, all
    BY-lists and their members arbitrary — BY-lists may be empty).
    NOTE (known finding D-C13-empty-by-list): `argsOf x` holds the NON-EMPTY recorded BY-lists only (`normL`).  A rule
    built with an empty BY sequence, e.g. `rrule(YEARLY, bymonthday=())`, records `()`, prints nothing for it, and the
    reparsed rule gets the argument as ABSENT, so `rrule()` re-derives the default from the start: the text round trip
    below holds, "same occurrences" does not (see `empty_by_list_is_lost`). -/
theorem str_roundtrip_line (x : StrIn) (hx : Printable x) : parseRRuleLine po (rruleLineOf x) = .ok (argsOf po x) :=
  parseRRuleLine_rruleLineOf x hx

/-- the compact date form `YYYYMMDDTHHMMSS` that `__str__` emits for DTSTART and UNTIL reads back field by field with
    `parseCompact`.  NOTE: `parseCompact` is the DISPLAY helper the driver uses to print date values in the correspondence
    (`Ops/RRuleStr.lean`), not a model of `parser.parse`; the real reader of these texts is `parser.parse` (C02), and that
    it reads this form as these fields is tied by the correspondence and the oracle only. -/
theorem compact_roundtrip (y m d hh mm ss : Nat) (hy : y < 10000) (hm : m < 100) (hd : d < 100) (hh' : hh < 100)
    (hmm : mm < 100) (hss : ss < 100) : parseCompact (showDT (y, m, d, hh, mm, ss)) = .compact y m d hh mm ss false :=
  parseCompact_showDT y m d hh mm ss hy hm hd hh' hmm hss

/-- `rrulestr(str(rule), ignoretz=…, tzinfos=…, cache=…)` (no unfold / forceset / compatible) for every printable rule with a
    start: a single rule with exactly the printed arguments and the printed DTSTART text, the UNTIL and DTSTART values
    carrying the options that were passed, the rule built with `cache`.  "Same occurrences" follows with C01 (`rrule()` is
    a function of these arguments and the start) and `compact_roundtrip` for the two date texts. -/
theorem str_roundtrip (x : StrIn) (hx : Printable x) (t : Nat × Nat × Nat × Nat × Nat × Nat) (ht : x.dtstart = some t)
    (o : Opts) (hu : o.unfold = false) (hf : o.forceset = false) (hc : o.compatible = false) (kw : Bool) :
    parseRfc (toStr x) o kw = .ok (.rule (argsOf o.po x) (some (showDT t, [], o.po)) o.cache) :=
  parseRfc_toStr x hx t ht o hu hf hc kw

/-- a rule printed without a DTSTART line (cannot happen for a constructed rule): the single-line fast path -/
theorem str_roundtrip_nostart (x : StrIn) (hx : Printable x) (ht : x.dtstart = none)
    (o : Opts) (hu : o.unfold = false) (hf : o.forceset = false) (hc : o.compatible = false) (kw : Bool) :
    parseRfc (toStr x) o kw = .ok (.rule (argsOf o.po x) none o.cache) := parseRfc_toStr_none x hx ht o hu hf hc kw

/-- items 3, 5 and 6 together — "every spelling": take the parts of `str(rule)` in ANY order (`List.Perm`), join them with
    `;`, write the text in ANY letter case: the RRULE value still parses to exactly the printed arguments.  (The parts of
    `str(rule)` set pairwise different keywords: `partsOf_distinct`.) -/
theorem str_roundtrip_any_order_any_case (x : StrIn) (hx : Printable x) (qs : List (List Char))
    (hperm : (partsOf x).Perm qs) (txt : List Char) (hcase : upper txt = intercalate [';'] qs) :
    parseRRuleLine po (upper txt) = .ok (argsOf po x) ∧
    parseRfc txt {} = parseRfc (intercalate [';'] qs) {} := by
  refine ⟨by rw [hcase]; exact parseRRuleLine_perm x hx qs hperm, ?_⟩
  rw [← case_irrelevant txt, hcase]

/-- what D-C13-empty-by-list looks like in the model: an empty recorded BY-list is not printed and comes back as absent
    (`none`), whatever the rest of the rule; the original arguments had `some []` there -/
theorem empty_by_list_is_lost (x : StrIn) (h : x.orig.bymonthday = some []) :
    (argsOf po x).bymonthday = none ∧ x.orig.bymonthday ≠ none := by
  constructor
  · simp [argsOf, normL, h]
  · rw [h]; simp

/-- **the printed arguments lead back to the rule** (C13 ∘ C01): for a rule `r = rrule(**a)`, `rrulestr(str(r))` hands the
    constructor arguments that build exactly `r` again, hence the same occurrences.  All hypotheses are explicit; the
    first is the class of the known finding D-C13-empty-by-list (there the statement is false on the real code), and the
    date values are taken over unchanged (`backArgs`): that `parser.parse` reads the compact text back is C02, tied here
    by the correspondence and the oracle only.  (`strInOf 0`: `calendar.firstweekday()` is 0, the interpreter's default;
    `str_roundtrip_rule_ambient` is the statement for every ambient value.) -/
theorem str_roundtrip_rule (a : RRule.Args) (r : RRule.Rule) (h : RRule.construct a = .ok r) (hsp : a.bysetpos ≠ some [])
    (hne : NoEmptyBy (RRule.origArgs a r)) (hpr : Printable (strInOf 0 (RRule.origArgs a r)))
    (hf : 0 ≤ (RRule.origArgs a r).freq)
    (o : Opts) (hu : o.unfold = false) (hfs : o.forceset = false) (hc : o.compatible = false) (kw : Bool) :
    ∃ pa dt, parseRfc (toStr (strInOf 0 (RRule.origArgs a r))) o kw = .ok (.rule pa (some dt) o.cache) ∧
      RRule.construct (backArgs (RRule.origArgs a r) pa) = .ok r :=
  parse_toStr_constructs_same_rule a r h hsp hne hpr hf o hu hfs hc kw

/-- **the same with the process-wide `calendar.firstweekday()` as an explicit input** (`constructW k`, C01; `strInOf k`:
    `__str__` reads it too since the repair of D-C13-ambient-wkst: `if self._wkst or calendar.firstweekday():`).
    `str_roundtrip*` and `str_roundtrip_rule` above are the case `k = 0` (the interpreter's default).  Under
    `calendar.setfirstweekday(k)` the rule comes back for EVERY `k` and every week start — the former hypothesis
    `r.wkst ≠ 0 ∨ k = 0` (known finding D-C13-ambient-wkst: `__str__` omitted WKST whenever `_wkst == 0`, so a Monday-week
    rule was rebuilt with the ambient week start) is gone. -/
theorem str_roundtrip_rule_ambient (k : Int) (a : RRule.Args) (r : RRule.Rule) (h : RRule.constructW k a = .ok r)
    (hsp : a.bysetpos ≠ some [])
    (hne : NoEmptyBy (RRule.origArgs (RRule.resolveW k a) r)) (hpr : Printable (strInOf k (RRule.origArgs (RRule.resolveW k a) r)))
    (hf : 0 ≤ (RRule.origArgs (RRule.resolveW k a) r).freq)
    (o : Opts) (hu : o.unfold = false) (hfs : o.forceset = false) (hc : o.compatible = false) (kw : Bool) :
    ∃ pa dt, parseRfc (toStr (strInOf k (RRule.origArgs (RRule.resolveW k a) r))) o kw = .ok (.rule pa (some dt) o.cache) ∧
      RRule.constructW k (backArgs (RRule.origArgs (RRule.resolveW k a) r) pa) = .ok r :=
  parse_toStr_constructs_same_rule_ambient k a r h hsp hne hpr hf o hu hfs hc kw

/-- **written under ambient `k`, read under ambient `k'`**: the rule comes back whenever the text carries WKST
    (`r.wkst ≠ 0 ∨ k ≠ 0`: then the reader's `calendar.firstweekday()` is irrelevant) or the reader's week starts on Monday
    (`k' = 0`).  The remaining case — a Monday-week rule printed under the default first weekday and read under another one —
    is `cross_ambient_counterexample`: there the text has no WKST (RFC 5545's default is MO; `rrule()` documents
    `calendar.firstweekday()` as its default), and the property's "rrulestr(str(rule))" is read as one process state. -/
theorem str_roundtrip_rule_cross_ambient (k k' : Int) (a : RRule.Args) (r : RRule.Rule) (h : RRule.constructW k a = .ok r)
    (hsp : a.bysetpos ≠ some [])
    (hne : NoEmptyBy (RRule.origArgs (RRule.resolveW k a) r)) (hpr : Printable (strInOf k (RRule.origArgs (RRule.resolveW k a) r)))
    (hf : 0 ≤ (RRule.origArgs (RRule.resolveW k a) r).freq) (hw : r.wkst ≠ 0 ∨ k ≠ 0 ∨ k' = 0)
    (o : Opts) (hu : o.unfold = false) (hfs : o.forceset = false) (hc : o.compatible = false) (kw : Bool) :
    ∃ pa dt, parseRfc (toStr (strInOf k (RRule.origArgs (RRule.resolveW k a) r))) o kw = .ok (.rule pa (some dt) o.cache) ∧
      RRule.constructW k' (backArgs (RRule.origArgs (RRule.resolveW k a) r) pa) = .ok r :=
  parse_toStr_constructs_same_rule_cross k k' a r h hsp hne hpr hf hw o hu hfs hc kw

/-- **the property's first sentence at the level of occurrences** (C13 ∘ C01's iteration model): for every rule with a NAIVE
    start (`a.tz = 0`), built under any ambient first weekday `k`, `rrulestr(str(rule))` is a single rule whose DTSTART value
    is the printed start WITHOUT any zone parameter, and the arguments it hands to the constructor (`backArgsNaive`: naive
    start) build a rule whose iteration equals the rule's for EVERY fuel — the same occurrences, in the same order, ending
    the same way (`RRule.iter`: the values yielded during the first `fuel` periods and the generator's status).
    Hypotheses as in `str_roundtrip_rule_ambient` (NoEmptyBy = the known finding D-C13-empty-by-list; the two date texts are
    read back by `parser.parse`: C02's `parse_render_compact` for the form `YYYYMMDDTHHMMSS`, tied here by the correspondence). -/
theorem str_roundtrip_occurrences (k : Int) (a : RRule.Args) (r : RRule.Rule) (h : RRule.constructW k a = .ok r) (hnaive : a.tz = 0)
    (hsp : a.bysetpos ≠ some [])
    (hne : NoEmptyBy (RRule.origArgs (RRule.resolveW k a) r)) (hpr : Printable (strInOf k (RRule.origArgs (RRule.resolveW k a) r)))
    (hf : 0 ≤ (RRule.origArgs (RRule.resolveW k a) r).freq)
    (o : Opts) (hu : o.unfold = false) (hfs : o.forceset = false) (hc : o.compatible = false) (kw : Bool) :
    ∃ pa r', parseRfc (toStr (strInOf k (RRule.origArgs (RRule.resolveW k a) r))) o kw =
        .ok (.rule pa (some (showDT (sixOf r.dtstart), [], o.po)) o.cache) ∧
      RRule.constructW k (backArgsNaive (RRule.origArgs (RRule.resolveW k a) r) pa) = .ok r' ∧
      ∀ fuel, RRule.iter r' fuel = RRule.iter r fuel ∧ RRule.iterDT r' fuel = RRule.iterDT r fuel :=
  same_occurrences_ambient k a r h hnaive hsp hne hpr hf o hu hfs hc kw

-- non-vacuity: the witness rule (naive start) under ambient 6 really yields its four occurrences Aug 5, 10, 19, 24 1997
example : ambientWitness.tz = 0 ∧
    (do let r ← RRule.constructW 6 ambientWitness
        pure ((RRule.iterDT r 6).1.map (fun (d : DT) => (d.m, d.d)))) = .ok [(8, 5), (8, 10), (8, 19), (8, 24)] := by
  decide +kernel

/-- the former counterexample of D-C13-ambient-wkst as a regression fact: WEEKLY, interval 2, BYDAY=TU,SU, explicit wkst=MO,
    ambient 6: the text now carries `WKST=MO` (`some 0`), the rebuilt rule has week start 0 and is the same rule
    (before the repair: `(0, 6, …, false)`) -/
theorem ambient_wkst_witness_roundtrips :
    (do let r ← RRule.constructW 6 ambientWitness
        let o := RRule.origArgs (RRule.resolveW 6 ambientWitness) r
        let r' ← RRule.constructW 6 (backArgs o (argsOf {} (strInOf 6 o)))
        pure (r.wkst, r'.wkst, (argsOf {} (strInOf 6 o)).wkst, decide (r' = r))) = .ok (0, 0, some 0, true) :=
  RRuleStr.ambient_wkst_witness_roundtrips

/-- the case `str_roundtrip_rule_cross_ambient` excludes is real: the same rule printed under ambient 0 and read under ambient 6 -/
theorem cross_ambient_counterexample :
    (do let r ← RRule.constructW 0 ambientWitness
        let o := RRule.origArgs (RRule.resolveW 0 ambientWitness) r
        let r' ← RRule.constructW 6 (backArgs o (argsOf {} (strInOf 0 o)))
        pure (r.wkst, r'.wkst, decide (r' = r))) = .ok (0, 6, false) := RRuleStr.cross_ambient_counterexample

-- non-vacuity of the ambient statement in the formerly excluded case: `_wkst = 0`, `k = 6`, every hypothesis holds
example : ∃ r, RRule.constructW 6 ambientWitness = .ok r ∧ r.wkst = 0 ∧
    NoEmptyBy (RRule.origArgs (RRule.resolveW 6 ambientWitness) r) ∧
    0 ≤ (RRule.origArgs (RRule.resolveW 6 ambientWitness) r).freq := by
  refine ⟨_, rfl, by decide +kernel, ?_, by decide +kernel⟩
  constructor <;> decide +kernel

/-- a rule with most things in it: nth weekdays of both signs, negative list members, WKST, INTERVAL, UNTIL, year < 1000 -/
def sample : StrIn :=
  { dtstart := some (999, 1, 2, 3, 4, 5), freq := 1, interval := 2, wkst := 6, count := none,
    untilV := some (2000, 12, 31, 23, 59, 59),
    orig := { bymonthday := some [-1, 15], byweekday := some [(0, some 1), (4, some (-2)), (6, none)], byeaster := some [0, -2],
              byyearday := some [] } }

example : Printable sample := by
  constructor <;> first | decide | (intro l h; cases h; decide)
example : (argsOf {} sample).byweekday = some [(0, some 1), (4, some (-2)), (6, none)] ∧ (argsOf {} sample).wkst = some 6 := by decide

example : (partsOf sample).Perm (partsOf sample).reverse ∧ upper (lit "byeaster=0,-2") = lit "BYEASTER=0,-2" :=
  ⟨(List.reverse_perm _).symm, by decide⟩

/-! ## 7. sets, forceset, compatible -/

/-- structured lines (no parameters) joined by newlines: with two or more RRULE lines, or any RDATE / EXRULE / EXDATE
    line, or `forceset`, the result is the set with exactly those members in order — every RRULE and every EXRULE value
    parsed (`ruleOf`; the first failure is the result), RDATE values split at `,`, EXDATE values, the last DTSTART -/
theorem multi_line_builds_set (ls : List Line) (hok : ∀ l ∈ ls, l.ok)
    (htext : ∀ l ∈ ls, ∀ c ∈ l.render, isLower c = false ∧ ICal.isSpace c = false)
    (o : Opts) (hu : o.unfold = false) (hc : o.compatible = false) (kw : Bool)
    (hne : ls ≠ []) (hmany : 2 ≤ ls.length ∨ o.forceset = true)
    (hset : o.forceset = true ∨ 2 ≤ (rruleVals ls).length ∨ rdateVals ls ≠ [] ∨ exruleVals ls ≠ [] ∨ exdateVals o.po ls ≠ []) :
    parseRfc (intercalate ['\n'] (ls.map Line.render)) o kw = setOf o.po ls false kw o.cache := by
  rw [parseRfc_lines ls hne htext o hu hc kw]
  refine parseLines_builds_set _ ls hok _ _ _ _ ?_ hset
  rcases hmany with h | h
  · exact shortcut_two _ _ _ (by simp; omega)
  · rw [h]; rfl

/-- the same lines without a reason for a set: one RRULE, DTSTART lines besides it — a single rule with the last DTSTART -/
theorem multi_line_single_rule (ls : List Line) (hok : ∀ l ∈ ls, l.ok)
    (htext : ∀ l ∈ ls, ∀ c ∈ l.render, isLower c = false ∧ ICal.isSpace c = false)
    (o : Opts) (hu : o.unfold = false) (hc : o.compatible = false) (hf : o.forceset = false) (kw : Bool) (v : List Char)
    (hmany : 2 ≤ ls.length) (hr : rruleVals ls = [v]) (h1 : rdateVals ls = []) (h2 : exruleVals ls = [])
    (h3 : exdateVals o.po ls = []) :
    parseRfc (intercalate ['\n'] (ls.map Line.render)) o kw = buildRule o.po v (dtstartOf o.po ls) o.cache := by
  have hne : ls ≠ [] := by rintro rfl; simp at hmany
  rw [parseRfc_lines ls hne htext o hu hc kw, hf]
  exact parseLines_builds_rule _ ls hok _ _ _ v (shortcut_two _ _ _ (by simp; omega)) hr h1 h2 h3

/-- `forceset=True` (or `compatible=True`) never yields a bare rule: every successful result is a set, and its DTSTART-as-RDATE
    flag is `compatible ∧ (a DTSTART line was seen ∨ dtstart= was passed)` -/
theorem forceset {s : List Char} {o : Opts} {kw : Bool} {r : Parsed} (ho : o.forceset = true ∨ o.compatible = true)
    (h : parseRfc s o kw = .ok r) :
    ∃ rr ex rd exd dt, r = .set rr ex rd exd dt (o.compatible && (dt.isSome || kw)) o.cache := parseRfc_forceset ho h

/-- `compatible=True` is `forceset=True` and `unfold=True` … -/
theorem compatible (s : List Char) (o : Opts) (kw : Bool) (hc : o.compatible = true) :
    parseRfc s o kw = parseRfc s { o with unfold := true, forceset := true } kw := parseRfc_compatible s o kw hc

/-- … and sets the flag that adds DTSTART as an RDATE exactly when a start is known (on the collected lines) -/
theorem compatible_adds_dtstart (s : List Char) (ls : List Line) (hok : ∀ l ∈ ls, l.ok) (kw cache : Bool) :
    parseLines po cache s (ls.map Line.render) true true kw = (do
      let rr ← (rruleVals ls).mapM (ruleOf po)
      let ex ← (exruleVals ls).mapM (ruleOf po)
      .ok (.set rr ex (((rdateVals ls).map (splitOnChar ',')).flatten.map (fun d => (d, po))) (exdateVals po ls) (dtstartOf po ls)
            ((dtstartOf po ls).isSome || kw) cache)) :=
  parseLines_compatible_flag s ls hok kw cache

/-! ## 8. option plumbing -/

/-- `options_reach_every_path`: on ALL paths of `_parse_rfc` — the single-line fast path, several lines with one rule, and
    the set path (forceset / compatible / two RRULEs / RDATE / EXRULE / EXDATE) — every date value in a successful result
    (UNTIL of every rule and exrule, every RDATE and EXDATE value, DTSTART) was handed to `parser.parse` with exactly the
    `ignoretz` / `tzinfos` the caller passed, and the rule or the set was built with exactly the caller's `cache`
    (`Parsed.optsOK`).  The per-path statements are `buildRule_optsOK` (both single-rule paths) and `buildSet_optsOK`.
    The model hands the options on at each call site separately, as the code does; the `rrs.parse` correspondence records
    the keyword arguments of every `parser.parse`, `rrule()` and `rruleset()` call of the implementation against it. -/
theorem options_reach_every_path {s : List Char} {o : Opts} {kw : Bool} {r : Parsed} (h : parseRfc s o kw = .ok r) :
    r.optsOK o.po o.cache := parseRfc_optsOK h

-- non-vacuity: the seeded-fault input, through the fast path, carries ignoretz to the UNTIL value
example : parseRfc (lit "RRULE:FREQ=DAILY;UNTIL=19970905T090000Z") { ignoretz := true, cache := true } true =
    .ok (.rule { freq := some 3, untilV := some (lit "19970905T090000Z", { ignoretz := true }) } none true) := by decide

def sampleLines : List Line :=
  [.dtstart (lit "19970902T090000"), .rrule (lit "FREQ=DAILY;COUNT=3"), .rdate (lit "19970910T090000,19970911T090000"),
   .exrule (lit "FREQ=WEEKLY;COUNT=2"), .exdate (lit "19970902T090000")]

example : (∀ l ∈ sampleLines, l.ok) ∧ 2 ≤ sampleLines.length ∧ rdateVals sampleLines ≠ [] := by decide
example : ∃ rr ex, setOf {} sampleLines false false false =
    .ok (.set rr ex [(lit "19970910T090000", {}), (lit "19970911T090000", {})] [(lit "19970902T090000", [], {})]
          (some (lit "19970902T090000", [], {})) false false) :=
  ⟨_, _, rfl⟩
example : ∃ r, parseRfc (lit "FREQ=DAILY;COUNT=2") { forceset := true } = .ok r := ⟨_, rfl⟩

/-! ## 9. the source translation: prefix of `_parse_rfc`, unfold loop, parameter loop (`Generated/RRuleStrKernels.lean`)

`harness/translate_str.py` re-translates, on every run, every statement of `_rrulestr._parse_rfc` up to and including
`if unfold: … else: lines = s.split()` (`Gen.rrsPrefix`, with the `while` loop as `Gen.rrsPrefixLoop`), every statement of
`_parse_date_value` up to and including `for parm in parms:` (`Gen.rrsDateParms`) and the statement that attaches the
looked-up zone to a parsed date (`Gen.rrsAttach`).  The obligations below tie them to the hand model, so a behavioural
edit of those statements breaks a named obligation (or the translation) on the next run. -/

/-- the translated `while i < len(lines):` loop, given `len(lines) + 1` units of fuel, never runs out of fuel and leaves
    exactly `ICal.unfold lines` — for EVERY list of lines -/
theorem gen_unfold_loop_eq_model (lines : List (List Char)) :
    ∃ n, Gen.rrsPrefixLoop (lines.length + 1) 0 lines = .ok (n, ICal.unfold lines) := loop_eq_unfold lines

/-- the translated prefix of `_parse_rfc` = the model's: flags, name table of the text as written, upper-cased text,
    ValueError for a blank text, `lines` = `linesOf` — for every text and all flags -/
theorem gen_prefix_eq_model (s0 : List Char) (u f c : Bool) :
    Gen.rrsPrefix s0 u f c =
      if (ICal.strip (upper s0)).isEmpty then .error .ValueError
      else .ok (f || c, u || c, tzidTable s0 (u || c), upper s0, linesOf (upper s0) (u || c)) :=
  RRuleStr.gen_prefix_eq_model s0 u f c

/-- the translated parameter loop of `_parse_date_value` = the model's `dateParmsOk` / `resolveTzid`, for every parameter
    list, every name table and `tzids` None / callable / mapping (`lk` = which function does the lookup) -/
theorem gen_dateParms_eq_model (parms : List (List Char)) (t : StrPy.Dict) (k : StrPy.TzidsKind) (lk : StrPy.Lookup)
    (hk : lookupOf k = some lk) :
    Gen.rrsDateParms parms t k =
      match dateParmsOk parms with
      | .error _ => .error .ValueError
      | .ok _ => .ok ((resolveTzid t parms).map (StrPy.Zone.looked lk), !(restParms parms).isEmpty) :=
  RRuleStr.gen_dateParms_eq_model parms t k lk hk

/-- a `tzids` argument that is neither None, callable nor a mapping is a ValueError at the first TZID parameter found in the table -/
example : Gen.rrsDateParms [lit "TZID=X"] [(lit "X", lit "x")] .other = .error .ValueError := by decide
example : Gen.rrsDateParms [lit "VALUE=DATE-TIME", lit "TZID=X"] [(lit "X", lit "x")] .callable =
    .ok (some (.looked .call (lit "x")), true) := by decide

/-! ## 10. folding: unfold ∘ fold = id -/

/-- **`unfold (fold s) = s`.**  Take any logical lines, cut each into a first piece and ANY number of continuation pieces at
    ANY positions (`Folded`: pieces may be empty or one character long, so consecutive continuation lines, folds right
    after `;` `,` `=` `:`, inside `TZID=`, inside a name, and right after a space at the end of the FIRST piece are all
    covered), write every piece on its own physical line (continuations behind one space), end every physical line with
    `\n` or `\r\n` chosen line by line: `linesOf text true` — `splitlines()` followed by the unfold loop — gives exactly the
    logical lines back.  Hypotheses (`Folded.ok`): the first piece has a visible character and does not begin with a space;
    NO CONTINUATION PIECE ENDS IN WHITESPACE.  That last restriction is the code's, not the proof's: see
    `fold_after_space_in_continuation_loses_it` (known finding D-C13-fold-after-space). -/
theorem unfold_fold (fs : List Folded) (hok : ∀ f ∈ fs, f.ok) (ph : List (List Char × Bool))
    (hph : ph.map (·.1) = (fs.map Folded.physical).flatten)
    (hnb : ∀ p ∈ ph, ∀ c ∈ p.1, ICal.isLineBreak c = false) :
    linesOf (ph.map (fun p => p.1 ++ brk p.2)).flatten true = fs.map Folded.logical := by
  unfold linesOf unfoldLines ICal.splitLines
  simp only [if_true]
  rw [splitLines_terminated ph hnb, List.reverse_nil, List.nil_append, hph, unfold_physical fs hok]

/-- the same about the SOURCE translation: on a text whose upper-cased form is such a folded text, with `unfold` or
    `compatible` set, the translated prefix of `_parse_rfc` ends with `lines` = the (upper-cased) logical lines -/
theorem unfold_fold_source (s0 : List Char) (fs : List Folded) (hok : ∀ f ∈ fs, f.ok) (ph : List (List Char × Bool))
    (hph : ph.map (·.1) = (fs.map Folded.physical).flatten)
    (hnb : ∀ p ∈ ph, ∀ c ∈ p.1, ICal.isLineBreak c = false)
    (hs : upper s0 = (ph.map (fun p => p.1 ++ brk p.2)).flatten) (hne : (ICal.strip (upper s0)).isEmpty = false)
    (u f c : Bool) (hu : (u || c) = true) :
    Gen.rrsPrefix s0 u f c = .ok (f || c, true, tzidTable s0 true, upper s0, fs.map Folded.logical) := by
  rw [RRuleStr.gen_prefix_eq_model, hne, hu, hs, unfold_fold fs hok ph hph hnb]
  simp

/-- a DTSTART line folded three times: after `;`, inside `TZID=`, right after the space that ends the first piece … -/
def foldedSample : Folded := { first := lit "DTSTART ", conts := [lit ";TZ", lit "ID=A", lit "", lit "B:19970902T090000"] }

example : foldedSample.ok := ⟨⟨'D', lit "TSTART", by decide, by decide⟩, by decide⟩
example : linesOf (lit "DTSTART \n ;TZ\r\n ID=A\n \n B:19970902T090000\nRRULE:FREQ=DAILY\n") true =
    [lit "DTSTART ;TZID=AB:19970902T090000", lit "RRULE:FREQ=DAILY"] := by decide

/-- **the excluded case is real** (known finding D-C13-fold-after-space): a fold right after a space that ENDS A CONTINUATION
    piece loses the space — the loop appends the `rstrip()`ped continuation line.  `DTSTART;` / ` TZID=EASTERN ` /
    ` STANDARD TIME:…` unfolds to `…TZID=EASTERNSTANDARD TIME…`, while the TZID pre-scan (which uses `re.sub`) records
    `EASTERN STANDARD TIME`: the parameter is not found in the table and the zone is silently dropped. -/
theorem fold_after_space_in_continuation_loses_it :
    ICal.unfold [lit "DTSTART;", lit " TZID=EASTERN ", lit " STANDARD TIME:19970902T090000"] =
      [lit "DTSTART;TZID=EASTERNSTANDARD TIME:19970902T090000"] ∧
    stripFolds (lit "DTSTART;\n TZID=EASTERN \n STANDARD TIME:19970902T090000") =
      lit "DTSTART;TZID=EASTERN STANDARD TIME:19970902T090000" ∧
    tzidOf (lit "DTSTART;\n TZID=Eastern \n Standard Time:19970902T090000") { unfold := true }
      [lit "TZID=EASTERNSTANDARD TIME"] = none := by decide

/-! ## 11. TZID: the name handed to the lookup, the zone of the start -/

/-- **the TZID found is the parameter value as written, regardless of letter case and parameter order.**
    The text searched (`s0`, or `re.sub(r'\r?\n ', '', s0)` when unfolding — so the parameter may be folded anywhere, inside
    `TZID=` too) has the form `pre ++ kw ++ name ++ d :: post`: `kw` is `TZID=` in ANY letter case, `name` is non-empty and
    free of `:` `;` (ANY letter case), `d` is `:` or `;`, no earlier occurrence of the pattern starts inside `pre`, and every
    later occurrence of the same name up to letter case is spelled the same way (a later table entry overwrites an earlier
    one).  The line's (upper-cased) parameters are ANY list `l1 ++ [TZID=NAME] ++ l2` in which no other parameter begins with
    `TZID=` — the TZID parameter may stand before or after `VALUE=…`.  Then the name handed to the `tzids` lookup is `name`,
    exactly as written.  (`hafter`: the upper-cased name does not itself contain `TZID=`.) -/
theorem tzid_found (s0 pre kw name post : List Char) (d : Char) (o : Opts)
    (htxt : (if o.unfold || o.compatible then stripFolds s0 else s0) = pre ++ (kw ++ name ++ d :: post))
    (hkw : upper kw = lit "TZID=") (hne : name ≠ []) (hname : ∀ c ∈ name, c ≠ ':' ∧ c ≠ ';') (hd : d = ':' ∨ d = ';')
    (hpre : NoMatchBefore pre.length (pre ++ (kw ++ name ++ d :: post)))
    (hlater : ∀ n ∈ findTzids post, upper n = upper name → n = name)
    (l1 l2 : List (List Char)) (h1 : ∀ q ∈ l1, startsWith q (lit "TZID=") = false)
    (h2 : ∀ q ∈ l2, startsWith q (lit "TZID=") = false)
    (hafter : afterLastTzid (lit "TZID=" ++ upper name) = upper name) :
    tzidOf s0 o (l1 ++ (lit "TZID=" ++ upper name) :: l2) = some name := by
  unfold tzidOf tzidTable
  rw [htxt, findTzids_found pre kw name post d hkw hne hname hd hpre,
    resolveTzid_one _ l1 l2 _ h1 h2 (by simp [startsWith, lit]), hafter]
  exact tzidLookup_first name _ hlater

/-- … and on the SOURCE translation: with that table, the translated parameter loop ends with the zone
    `<lookup>(name)` — `tz.gettz(name)`, `tzids(name)` or `tzids.get(name)` — when the other parameters are acceptable -/
theorem tzid_found_source (s0 pre kw name post : List Char) (d : Char) (o : Opts)
    (htxt : (if o.unfold || o.compatible then stripFolds s0 else s0) = pre ++ (kw ++ name ++ d :: post))
    (hkw : upper kw = lit "TZID=") (hne : name ≠ []) (hname : ∀ c ∈ name, c ≠ ':' ∧ c ≠ ';') (hd : d = ':' ∨ d = ';')
    (hpre : NoMatchBefore pre.length (pre ++ (kw ++ name ++ d :: post)))
    (hlater : ∀ n ∈ findTzids post, upper n = upper name → n = name)
    (l1 l2 : List (List Char)) (h1 : ∀ q ∈ l1, startsWith q (lit "TZID=") = false)
    (h2 : ∀ q ∈ l2, startsWith q (lit "TZID=") = false)
    (hafter : afterLastTzid (lit "TZID=" ++ upper name) = upper name)
    (hparms : dateParmsOk (l1 ++ (lit "TZID=" ++ upper name) :: l2) = .ok ())
    (k : StrPy.TzidsKind) (lk : StrPy.Lookup) (hk : lookupOf k = some lk) :
    ∃ vf, Gen.rrsDateParms (l1 ++ (lit "TZID=" ++ upper name) :: l2) (tzidTable s0 (o.unfold || o.compatible)) k =
      .ok (some (.looked lk name), vf) := by
  have h := tzid_found s0 pre kw name post d o htxt hkw hne hname hd hpre hlater l1 l2 h1 h2 hafter
  unfold tzidOf at h
  rw [RRuleStr.gen_dateParms_eq_model _ _ k lk hk, hparms, h]
  exact ⟨_, rfl⟩

-- non-vacuity: lower-case `tzid=`, mixed-case name, TZID after VALUE, folded inside `TZID=` and inside the name
example : tzidOf (lit "dtstart;value=date-time;tz\n id=America/New\r\n _York:19970902T090000\nrrule:freq=daily") { unfold := true }
    [lit "VALUE=DATE-TIME", lit "TZID=AMERICA/NEW_YORK"] = some (lit "America/New_York") :=
  tzid_found _ (lit "dtstart;value=date-time;") (lit "tzid=") (lit "America/New_York") (lit "19970902T090000\nrrule:freq=daily") ':'
    _ (by decide) (by decide) (by decide) (by decide) (Or.inl rfl) (by decide) (by decide) [lit "VALUE=DATE-TIME"] []
    (by decide) (by decide) (by decide)

/-- **the zone of a date value** (the statement translated into `Gen.rrsAttach`, for DTSTART and EXDATE alike):
    * a `TZID` zone and a date text WITHOUT a zone of its own (the naive compact form): the date gets the looked-up zone —
      for `DTSTART;TZID=name:…` that is `tzids(name)`, the zone `rrule(dtstart=datetime(…, tzinfo=tzids(name)))` has;
    * no `TZID`: the zone is whatever `parser.parse` gave the text — none for the naive form (the keyword construction with a
      naive start), the text's own zone for `…Z` (UTC; what `ignoretz` / `tzinfos` do inside `parser.parse` is C02/C15);
    * a `TZID` zone AND a zone in the text: ValueError ("DTSTART/EXDATE specifies multiple timezone"). -/
theorem date_zone (z z' : StrPy.Zone) (dz : Option StrPy.Zone) :
    Gen.rrsAttach (some z) none = .ok (some z) ∧
    Gen.rrsAttach none dz = .ok dz ∧
    Gen.rrsAttach (some z) (some z') = .error .ValueError := ⟨rfl, by cases dz <;> rfl, rfl⟩

/-- `DTSTART;TZID=name:<naive>` end to end on the source translation: the parameter loop hands `name` as written to the lookup
    and the attach statement puts that zone on the naive date -/
theorem dtstart_tzid_zone (parms : List (List Char)) (t : StrPy.Dict) (k : StrPy.TzidsKind) (lk : StrPy.Lookup) (name : List Char)
    (vf : Bool) (h : Gen.rrsDateParms parms t k = .ok (some (.looked lk name), vf)) :
    (Gen.rrsDateParms parms t k >>= fun r => Gen.rrsAttach r.1 none) = .ok (some (.looked lk name)) := by
  rw [h]; rfl

example : Gen.rrsAttach none (some .fromText) = .ok (some .fromText) := (date_zone .fromText .fromText _).2.1

/-! ## 12. the date texts of `str(rule)` are read back (C13 ∘ C02) -/

/-- **`parser.parse` reads the DTSTART / UNTIL text of `str(rule)` back as the naive datetime it was printed from.**
    `showDT (sixOf t)` — what `__str__` prints, `'%04d' % year + strftime('%m%dT%H%M%S')` — IS C02's compact template
    `YYYYMMDDTHHMMSS` (`showDT_eq_renderCompact`, every valid datetime, years 1..9999 zero-padded), and C02's `parse_compact`
    (the parser model, any character classifier / two-digit-year pivot / default / `ignoretz` / plain `tzinfos`) gives that
    datetime with microsecond 0 and NO zone.  This discharges, on the models, the assumption `backArgs` / `backArgsNaive`
    make about the two date values in `str_roundtrip_rule*` and `str_roundtrip_occurrences` (a rule's `dtstart` and `until`
    have microsecond 0: C01's constructor). -/
theorem date_text_read_back (cls : Char → PM.CClass) [PM.AsciiOK cls] (yf : Bool) (year century : Int) (o : PM.Opts)
    (tznames : List PM.Token) (tzi : PM.TzInfos) (ho : PM.PlainOpts o tzi) (dflt : DT) (hdv : dflt.Valid)
    (t : DT) (ht : t.Valid) :
    PM.parse cls (PM.Info.default false yf year century) o tznames tzi dflt (showDT (sixOf t)) =
      .ok { dt := { t with us := 0 }, tz := .naive, tokens := none } := by
  rw [showDT_eq_renderCompact t ht]
  exact PM.parse_compact cls yf year century o tznames tzi ho dflt hdv t ht .tHMS

example : showDT (sixOf ⟨999, 1, 2, 3, 4, 5, 0⟩) = lit "09990102T030405" := by
  rw [showDT_eq_renderCompact _ (by decide)]; decide

/-! ## 13. the printer as written: `rrule.__str__` translated from source -/

/-- **`Gen.rruleStr` — the WHOLE method `rrule.__str__` re-translated from source on every run (DTSTART with the zero-padded year,
    FREQ from the dumped `FREQNAMES`, INTERVAL unless 1, WKST under the repaired condition `self._wkst or calendar.firstweekday()`,
    COUNT, the zero-padded UNTIL, the weekday conversion loop, the BY parts of `_original_rule` in the order of the method's table)
    — equals the model's `toStr`** on every rule in printable form. -/
theorem gen_str_eq_model (x : StrIn) (hx : Printable x) : Gen.rruleStr x = toStr x := gen_rruleStr_eq_toStr x hx

/-- hence the round trip holds of the printer AS WRITTEN: `str_roundtrip` with the source translation in place of `toStr` -/
theorem str_roundtrip_source (x : StrIn) (hx : Printable x) (t : Nat × Nat × Nat × Nat × Nat × Nat) (ht : x.dtstart = some t)
    (o : Opts) (hu : o.unfold = false) (hf : o.forceset = false) (hc : o.compatible = false) (kw : Bool) :
    parseRfc (Gen.rruleStr x) o kw = .ok (.rule (argsOf o.po x) (some (showDT t, [], o.po)) o.cache) := by
  rw [gen_str_eq_model x hx]; exact str_roundtrip x hx t ht o hu hf hc kw

example : Gen.rruleStr sample = toStr sample := gen_str_eq_model sample (by
  constructor <;> first | decide | (intro l h; cases h; decide))

/-! ## 14. the part parser as written: `_parse_rfc_rrule` and the `_handle_*` dispatch translated from source -/

/-- the item splitter of `_handle_BYWEEKDAY` as translated from source — `if '(' in wday:` (`splt = wday.split('(')`, `splt[0]`,
    `int(splt[1][:-1])`), `elif len(wday):` with the scan `for i in range(len(wday)): if wday[i] not in '+-0123456789': break`,
    `n = wday[:i] or None`, `w = wday[i:]`, `if n: n = int(n)`, else ValueError; then `weekdays[self._weekday_map[w]](n)` — equals the
    model's `parseWDay` on EVERY text (so `byday_spellings` and `malformed_byday_items` hold of the code as written) -/
theorem gen_wday_eq_model (w : List Char) : Gen.rrsWDay w = parseWDay w := gen_wday_eq w

example : Gen.rrsWDay (lit "MO(+1)") = .ok (0, some 1) ∧ Gen.rrsWDay (lit "-2FR") = .ok (4, some (-2)) ∧
    Gen.rrsWDay (lit "12") = .error .KeyError ∧ Gen.rrsWDay (lit "0MO") = .error .ValueError := by decide

/-- `getattr(self, "_handle_" + name)(…)` resolved against the class body as written — `_handle_int` (INTERVAL, COUNT),
    `_handle_int_list` (the nine integer BY parts), `_handle_FREQ` / `_handle_WKST` with the dumped `_freq_map` / `_weekday_map`,
    `_handle_UNTIL` (text and options kept for `parser.parse`), `_handle_BYWEEKDAY` = BYDAY with its translated item splitter
    (`gen_wday_eq_model`) — equals the model's `handleU`, for every name and value. -/
theorem gen_handle_eq_model (name value : List Char) : Gen.rrsHandle po name value = handleU po name value :=
  gen_handle_eq po name value

/-- **the WHOLE method `_parse_rfc_rrule` as translated from source** (optional `RRULE:` head, the loop over the `;` parts with
    `split('=')`, upper-casing, the handler call and the `try` statement's exception mapping, the FREQ check) **equals the model's
    `ruleOf`**: the keyword arguments handed to `rrule()`, or ValueError — for every line and all options.  The `try` statement maps
    only AttributeError / KeyError / ValueError to ValueError; that this is "every failure" is `handleU_errIn`. -/
theorem gen_parse_rfc_rrule_eq_model (line : List Char) : Gen.rrsParseRule po line = ruleOf po line := gen_parseRule_eq po line

/-- the text round trip through the two translated methods: `_parse_rfc_rrule(RRULE line of __str__)` gives the printed arguments -/
theorem str_roundtrip_line_source (x : StrIn) (hx : Printable x) :
    Gen.rrsParseRule po (rruleLineOf x) = .ok (argsOf po x) := by
  rw [gen_parse_rfc_rrule_eq_model]
  unfold ruleOf
  rw [str_roundtrip_line x hx]
  rfl

example : Gen.rrsParseRule {} (lit "RRULE:FREQ=WEEKLY;COUNT=3;BYDAY=+1MO,TU") =
    .ok { freq := some 2, count := some 3, byweekday := some [(0, some 1), (1, none)] } := by decide
example : Gen.rrsParseRule {} (lit "FREQ=DAILY;FOO=1") = .error .ValueError := by decide

/-- `_rrulestr.__call__` as translated from source is a pure delegation: `rrulestr(s, **kwargs)` IS `_parse_rfc(s, **kwargs)` (any edit of
    that one-line method — a cache, a changed default, a dropped keyword — makes the translation fail or this obligation break) -/
theorem gen_call_eq_model (s : List Char) (o : Opts) (kw : Bool) : Gen.rrsCall s o kw = parseRfc s o kw := gen_parseRfc_eq s o kw

/-- **the WHOLE of `_parse_date_value` as translated from source** (`Gen.rrsParseDateValue`: the parameter loop, then for every
    `,`-separated value `parser.parse` — a given function, C02 — with OverflowError turned into ValueError, the attach statement, the
    append): ValueError exactly when `dateParmsOk` fails, otherwise every value parsed and given the zone `<lookup>(resolveTzid …)` -/
theorem gen_parse_date_value_eq_model {D : Type} (parse : List Char → Py.R (D × Option StrPy.Zone)) (value : List Char)
    (parms : List (List Char)) (t : StrPy.Dict) (k : StrPy.TzidsKind) (lk : StrPy.Lookup) (hk : lookupOf k = some lk) :
    Gen.rrsParseDateValue parse value parms t k =
      match dateParmsOk parms with
      | .error _ => .error .ValueError
      | .ok _ => (splitOnChar ',' value).mapM (fun d =>
          (match parse d with | .error .OverflowError => .error .ValueError | r => r) >>= fun date =>
          (Gen.rrsAttach ((resolveTzid t parms).map (StrPy.Zone.looked lk)) date.2) >>= fun z => .ok (date.1, z)) :=
  gen_parseDateValue_eq parse value parms t k lk hk

/-- for values `parser.parse` reads as naive datetimes (`date_text_read_back`: the texts `__str__` prints), every value of the line gets the
    zone of the line's TZID parameter, none without one — what the model's `stepLine` records as `(value, parms)` and `tzidOf` resolves -/
theorem gen_parse_date_value_naive {D : Type} (f : List Char → D) (value : List Char) (parms : List (List Char))
    (t : StrPy.Dict) (k : StrPy.TzidsKind) (lk : StrPy.Lookup) (hk : lookupOf k = some lk) (hp : dateParmsOk parms = .ok ()) :
    Gen.rrsParseDateValue (fun d => .ok (f d, none)) value parms t k =
      .ok ((splitOnChar ',' value).map (fun d => (f d, (resolveTzid t parms).map (StrPy.Zone.looked lk)))) :=
  gen_parseDateValue_naive f value parms t k lk hk hp

/-- **the line dispatch of `_parse_rfc` as translated from source** (`Gen.rrsStepLine`: the body of `for line in lines:` — empty lines
    skipped, `name[;parms]:value` split, RRULE / EXRULE without parameters, RDATE with `VALUE=DATE-TIME` only, EXDATE / DTSTART through the
    parameter check of `_parse_date_value`, exactly one DTSTART value, anything else ValueError) **equals the model's `stepLine`**, hence
    the whole loop: `multi_line_builds_set` / `multi_line_single_rule` / `options_reach_every_path` speak of the dispatch as written -/
theorem gen_dispatch_eq_model (acc : Acc) (line : List Char) : Gen.rrsStepLine po acc line = stepLine po acc line :=
  gen_stepLine_eq po acc line

theorem gen_dispatch_loop_eq_model (lines : List (List Char)) (acc : Acc) :
    lines.foldlM (Gen.rrsStepLine po) acc = lines.foldlM (stepLine po) acc := by
  have : Gen.rrsStepLine po = stepLine po := by funext a l; exact gen_stepLine_eq po a l
  rw [this]

/-- **the WHOLE of `_rrulestr._parse_rfc` as translated from source** — the prefix (`Gen.rrsPrefix`), the single-line fast path, the line
    dispatch loop (`Gen.rrsStepLine`), the decision for a set, the set building with its four member kinds and the `compatible` DTSTART,
    the single-rule exit; rule lines through the translated `_parse_rfc_rrule` — **equals the model's `parseRfc`** for every text and all
    options: every theorem of this file about `parseRfc` (`errors_are_ValueError`, `case_irrelevant`, `str_roundtrip*`,
    `multi_line_builds_set`, `forceset`, `compatible*`, `options_reach_every_path`) holds of the parser AS WRITTEN -/
theorem gen_parse_rfc_eq_model (s0 : List Char) (o : Opts) (kw : Bool) : Gen.rrsParseRfc s0 o kw = parseRfc s0 o kw :=
  gen_parseRfc_eq s0 o kw

/-- the round trip through the two translated functions: `rrulestr(str(rule))`, both as written -/
theorem str_roundtrip_source_both (x : StrIn) (hx : Printable x) (t : Nat × Nat × Nat × Nat × Nat × Nat) (ht : x.dtstart = some t)
    (o : Opts) (hu : o.unfold = false) (hf : o.forceset = false) (hc : o.compatible = false) (kw : Bool) :
    Gen.rrsCall (Gen.rruleStr x) o kw = .ok (.rule (argsOf o.po x) (some (showDT t, [], o.po)) o.cache) := by
  rw [gen_call_eq_model]; exact str_roundtrip_source x hx t ht o hu hf hc kw

end C13
