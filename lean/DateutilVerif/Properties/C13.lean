/- Properties/C13.lean — placeholder; theorems follow. -/
import DateutilVerif.Model.RRuleStr

namespace C13
theorem placeholder : True := trivial
end C13
