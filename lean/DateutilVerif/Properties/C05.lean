/-
  Properties/C05.lean — wall times are classified as normal, ambiguous or imaginary per PEP 495.

  A UTC instant `t` is a pre-image of the wall time `w` when `Spec.fromutcSpec r t = some w`
  ("add the offset in force at t"); `Spec.pre r w` lists them.  `Cov r t`: the instant lies before
  the last recorded transition, or the zone's `ttinfo_std` is the last transition's type.
  All statements hold for ALL well-formed tables (`Spec.wf`), all wall times, both folds.

  Proved: exists_iff (both directions, per fold), fold_selects (earlier ↦ fold 0, later ↦ fold 1,
  and the folds lead back to exactly those instants), fold_distinguishes, resolve_imaginary on
  existing times.
  Stated in DESIGN but NOT proved here (evaluated on the implementation by the oracle sweep against
  `Spec.pre` on every run): pre_card_le_two, ambiguous_iff (is_ambiguous ↔ |pre| = 2),
  fold_irrelevant (|pre| = 1 → both folds give one offset), and the gap half of
  resolve_imaginary_spec (result = w + gap width, under "no other change within 24 h").
-/
import DateutilVerif.Proofs.ZonesBuild
import DateutilVerif.Proofs.ZonesFold
import DateutilVerif.Proofs.SpecPre

namespace C05
open TZ Spec

/-- the finite list `Spec.pre r w` (what the oracle enumerates) is exactly the pre-image set -/
theorem mem_pre_iff (r : Raw) (w t : Int) : t ∈ pre r w ↔ fromutcSpec r t = some w :=
  Spec.mem_pre_iff r w t

/-- instants the tzfile theorems cover -/
def Cov (r : Raw) (t : Int) : Prop := (∃ u, lastTime r = some u ∧ t < u) ∨ LastStd (build r)

/-- conversion of a covered instant, tied to the spec: the wall reading is the spec's, and the
    (wall, fold) pair leads back to the instant -/
theorem fromutc_spec (r : Raw) (hwf : Spec.wf r = true) (hne : r.trans ≠ []) (t : Int)
    (hcov : Cov r t) (w : Int) (hpre : fromutcSpec r t = some w) :
    ∃ f, fromutc (build r) t = .ok ⟨w, f⟩ ∧ utcoffset (build r) ⟨w, f⟩ = .ok (w - t) := by
  obtain ⟨b, s, f0, hf, hfb, hc, hw⟩ := build_coherent r hwf hne
  have hcv := covered_of r hc hw t hcov
  obtain ⟨x, hx1, hx2, hx3⟩ := hc.findTtinfo_fromutc hw t hcv
  -- the spec offset equals the selected object's offset
  have hoff : w = t + (ttOf (build r) b s (bisectRight (build r).utc t)).off := by
    rcases hcov with ⟨u, h1, h2⟩ | hls
    · have hlt := bisect_lt_of_lt_last r hc hw t u h1 h2
      obtain ⟨ty, hty, hrel⟩ := typeAt_rel r hwf hf hfb hc hw t hlt
      simp only [fromutcSpec, offsetAt, hty, Option.map_some, Option.some.injEq] at hpre
      rw [← hrel.1]; omega
    · by_cases hlt : bisectRight (build r).utc t < (build r).utc.length
      · obtain ⟨ty, hty, hrel⟩ := typeAt_rel r hwf hf hfb hc hw t hlt
        simp only [fromutcSpec, offsetAt, hty, Option.map_some, Option.some.injEq] at hpre
        rw [← hrel.1]; omega
      · -- at or after the last transition: ttinfo_std is the last transition's object
        have hle := bisectRight_le (build r).utc t
        have heq : bisectRight (build r).utc t = (build r).utc.length := by omega
        have hpos := hc.npos
        have hb := bisectRight_spec t (hc.utc_sorted hw)
        have hutc : (build r).utc = r.trans.map (fun p => p.1) := rfl
        have hn : (build r).utc.length = r.trans.length := by simp [hutc]
        have hty : typeAt r t = r.types[(r.trans.getD (r.trans.length - 1) default).2]? := by
          unfold typeAt
          rw [filter_le_eq_take r.trans t _ (by rw [← hutc]; exact hb), heq, hn,
            getLast?_take _ _ (by omega) (Nat.le_refl _),
            getElem?_eq_some_getD (by omega) default]
        have hok : (r.trans.getD (r.trans.length - 1) default).2 < r.types.length := by
          simp only [Spec.wf, Bool.and_eq_true] at hwf
          have hall := hwf.1.1
          simp only [Raw.ok, List.all_eq_true, decide_eq_true_eq] at hall
          apply hall
          rw [List.getD_eq_getElem?_getD, List.getElem?_eq_getElem (by omega)]
          simp
        rw [getElem?_eq_some_getD hok default] at hty
        simp only [fromutcSpec, offsetAt, hty, Option.map_some, Option.some.injEq] at hpre
        have hs' : s = (build r).tts.getD ((build r).utc.length - 1) default := by
          unfold LastStd at hls; rw [hc.hs] at hls; exact Option.some.inj hls
        have htt : (build r).tts.getD ((build r).utc.length - 1) default
            = (finalTypes r).getD (r.trans.getD (r.trans.length - 1) default).2 default := by
          show (r.trans.map _).getD _ _ = _
          rw [hn, getD_map_lt _ _ _ (by omega) default default]
        have : (ttOf (build r) b s (bisectRight (build r).utc t)).off
            = (r.types.getD (r.trans.getD (r.trans.length - 1) default).2 default).off := by
          unfold ttOf; rw [if_pos (by omega), hs', htt]
          exact ((relL_final r).getD _).1.symm
        rw [this]; omega
  have hxw : x = ⟨w, x.fold⟩ := by cases x; simp only [Wall.mk.injEq, and_true]; simp only at hx2; omega
  refine ⟨x.fold, by rw [← hxw]; exact hx1, ?_⟩
  rw [← hxw, hc.utcoffset_eq x _ hx3]; congr 1; omega

/-- **exists_iff (⇐).** A wall time with a pre-image exists: with the fold conversion assigns,
    `datetime_exists` is true. -/
theorem exists_of_preimage (r : Raw) (hwf : Spec.wf r = true) (hne : r.trans ≠ []) (t w : Int)
    (hcov : Cov r t) (hpre : fromutcSpec r t = some w) :
    ∃ f, datetimeExists (build r).ops ⟨w, f⟩ = .ok true := by
  obtain ⟨f, h1, h2⟩ := fromutc_spec r hwf hne t hcov w hpre
  refine ⟨f, ?_⟩
  unfold datetimeExists TzFile.ops
  simp only [h2, bind, Except.bind]
  have : w - (w - t) = t := by omega
  rw [this, h1]
  simp [pure, Except.pure]

/-- **exists_iff (⇒).** If `datetime_exists` holds for `(w, f)`, the instant `w − utcoffset(w, f)`
    is a pre-image of `w`. -/
theorem preimage_of_exists (r : Raw) (hwf : Spec.wf r = true) (hne : r.trans ≠ []) (w : Int) (f : Bool)
    (o : Int) (ho : utcoffset (build r) ⟨w, f⟩ = .ok o) (hcov : Cov r (w - o))
    (hex : datetimeExists (build r).ops ⟨w, f⟩ = .ok true) :
    fromutcSpec r (w - o) = some w := by
  obtain ⟨b, s, f0, hf, hfb, hc, hw⟩ := build_coherent r hwf hne
  unfold datetimeExists TzFile.ops at hex
  simp only [ho, bind, Except.bind] at hex
  -- the spec is defined at every instant of a table with types
  cases hsp : fromutcSpec r (w - o) with
  | none =>
      exfalso
      have hcv := covered_of r hc hw (w - o) hcov
      unfold fromutcSpec offsetAt at hsp
      simp only [Option.map_eq_none_iff] at hsp
      by_cases hlt : bisectRight (build r).utc (w - o) < (build r).utc.length
      · obtain ⟨ty, hty, _⟩ := typeAt_rel r hwf hf hfb hc hw (w - o) hlt
        rw [hsp] at hty; cases hty
      · have hle := bisectRight_le (build r).utc (w - o)
        have hpos := hc.npos
        have hb := bisectRight_spec (w - o) (hc.utc_sorted hw)
        have hutc : (build r).utc = r.trans.map (fun p => p.1) := rfl
        have hn : (build r).utc.length = r.trans.length := by simp [hutc]
        unfold typeAt at hsp
        rw [filter_le_eq_take r.trans (w - o) _ (by rw [← hutc]; exact hb),
          (by omega : bisectRight (build r).utc (w - o) = r.trans.length),
          getLast?_take _ _ (by omega) (Nat.le_refl _),
          getElem?_eq_some_getD (by omega) default] at hsp
        simp only at hsp
        have hok : (r.trans.getD (r.trans.length - 1) default).2 < r.types.length := by
          simp only [Spec.wf, Bool.and_eq_true] at hwf
          have hall := hwf.1.1
          simp only [Raw.ok, List.all_eq_true, decide_eq_true_eq] at hall
          apply hall
          rw [List.getD_eq_getElem?_getD, List.getElem?_eq_getElem (by omega)]
          simp
        rw [getElem?_eq_some_getD hok default] at hsp
        cases hsp
  | some w' =>
      obtain ⟨f', h1, _⟩ := fromutc_spec r hwf hne (w - o) hcov w' hsp
      rw [h1] at hex
      simp only [pure, Except.pure, Except.ok.injEq, beq_iff_eq] at hex
      rw [hex]

/-- **fold_distinguishes.** Two different pre-images of one wall time get different folds. -/
theorem fold_distinguishes (r : Raw) (hwf : Spec.wf r = true) (hne : r.trans ≠ []) (t₁ t₂ w : Int)
    (h₁ : Cov r t₁) (h₂ : Cov r t₂) (p₁ : fromutcSpec r t₁ = some w) (p₂ : fromutcSpec r t₂ = some w)
    (hd : t₁ ≠ t₂) :
    ∃ f₁ f₂, fromutc (build r) t₁ = .ok ⟨w, f₁⟩ ∧ fromutc (build r) t₂ = .ok ⟨w, f₂⟩ ∧ f₁ ≠ f₂ := by
  obtain ⟨f1, a1, b1⟩ := fromutc_spec r hwf hne t₁ h₁ w p₁
  obtain ⟨f2, a2, b2⟩ := fromutc_spec r hwf hne t₂ h₂ w p₂
  refine ⟨f1, f2, a1, a2, ?_⟩
  intro e; subst e
  rw [b1] at b2
  have := Except.ok.inj b2
  omega

/-- **fold_selects.** Of two pre-images `t₁ < t₂` of one wall time, conversion from UTC marks the
    earlier with fold=0 and the later with fold=1, and `(w, fold=0)`, `(w, fold=1)` denote exactly
    those two instants. -/
theorem fold_selects (r : Raw) (hwf : Spec.wf r = true) (hne : r.trans ≠ []) (t₁ t₂ w : Int)
    (h₁ : Cov r t₁) (h₂ : Cov r t₂) (p₁ : fromutcSpec r t₁ = some w) (p₂ : fromutcSpec r t₂ = some w)
    (hlt : t₁ < t₂) :
    fromutc (build r) t₁ = .ok ⟨w, false⟩ ∧ fromutc (build r) t₂ = .ok ⟨w, true⟩ ∧
    toUtc (build r) ⟨w, false⟩ = .ok t₁ ∧ toUtc (build r) ⟨w, true⟩ = .ok t₂ := by
  obtain ⟨f1, a1, b1⟩ := fromutc_spec r hwf hne t₁ h₁ w p₁
  obtain ⟨f2, a2, b2⟩ := fromutc_spec r hwf hne t₂ h₂ w p₂
  obtain ⟨b, s, f0, hf, hfb, hc, hw⟩ := build_coherent r hwf hne
  have c1 := hc.fromutc_eq t₁
  have c2 := hc.fromutc_eq t₂
  rw [a1] at c1; rw [a2] at c2
  have e1 := Except.ok.inj c1
  have e2 := Except.ok.inj c2
  simp only [Wall.mk.injEq] at e1 e2
  have hne' : f1 ≠ f2 := by
    intro e; subst e; rw [b1] at b2; have := Except.ok.inj b2; omega
  have hf1 : f1 = false := by
    cases hf1 : f1 with
    | false => rfl
    | true =>
        exfalso
        have hf2 : f2 = false := by cases h : f2 with
          | false => rfl
          | true => exact absurd (hf1.trans h.symm) hne'
        exact hc.fold_order hw t₁ t₂ hlt (covered_of r hc hw t₁ h₁) (covered_of r hc hw t₂ h₂)
          (by rw [← e1.1, ← e2.1]) (by rw [← e1.2]; exact hf1) (by rw [← e2.2]; exact hf2)
  have hf2 : f2 = true := by
    cases h : f2 with
    | true => rfl
    | false => exact absurd (hf1.trans h.symm) hne'
  subst hf1; subst hf2
  refine ⟨a1, a2, ?_, ?_⟩
  · unfold toUtc; rw [b1]; show Except.ok _ = _; congr 1; show w - (w - t₁) = t₁; omega
  · unfold toUtc; rw [b2]; show Except.ok _ = _; congr 1; show w - (w - t₂) = t₂; omega

/-- **resolve_imaginary on existing times**: the argument is returned unchanged. -/
theorem resolve_imaginary_of_exists (z : ZoneOps) (w : Wall) (h : datetimeExists z w = .ok true) :
    resolveImaginary z w = .ok w := by
  unfold resolveImaginary
  simp [h, bind, Except.bind, pure, Except.pure]

/-! non-vacuity: 2000100 is read twice in `exR` (set back one hour at 2000000) -/
def exR : Raw := { trans := [(1000000, 1), (2000000, 0), (3000000, 1)],
                   types := [⟨0, 0, [65], false, false, 0⟩, ⟨3600, 1, [66], false, false, 0⟩] }
example : Spec.wf exR = true ∧ pre exR 2000100 = [2000100, 1996500] ∧ pre exR 1001800 = [] := by decide
example : fromutcSpec exR 1996500 = some 2000100 ∧ fromutcSpec exR 2000100 = some 2000100 := by decide
example : datetimeExists (build exR).ops ⟨1001800, false⟩ = .ok false := by decide
example : Cov exR 1996500 ∧ Cov exR 2000100 := ⟨Or.inl ⟨3000000, by decide, by decide⟩, Or.inl ⟨3000000, by decide, by decide⟩⟩

end C05
