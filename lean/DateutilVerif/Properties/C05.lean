import DateutilVerif.Model.Zones
import DateutilVerif.Spec.Zones
namespace C05
theorem placeholder : True := trivial
end C05
