/-
  Properties/C05.lean — wall times are classified as normal, ambiguous or imaginary per PEP 495.

  A UTC instant `t` is a pre-image of the wall time `w` when `Spec.fromutcSpec r t = some w`
  ("add the offset in force at t"); `Spec.pre r w` lists them.  `Cov r t`: the instant lies before
  the last recorded transition, or the zone's `ttinfo_std` is the last transition's type.
  All statements hold for ALL well-formed tables (`Spec.wf`), all wall times, both folds.

  Proved: pre_card_le_two, ambiguous_iff (is_ambiguous ↔ |pre| = 2), fold_irrelevant (|pre| ≠ 2 →
  both folds give one offset / abbreviation / dst), exists_iff (datetime_exists = (pre ≠ ∅), either
  fold), fold_selects (earlier ↦ fold 0, later ↦ fold 1, and the folds lead back to exactly those
  instants), fold_distinguishes, resolve_imaginary on existing times and inside a gap
  (resolve_imaginary_gap: any gap width, neighbouring transitions at least one gap width away).
  `CovWall r w`: the wall time lies below the reading at which the last recorded transition takes
  effect, or `ttinfo_std` is the last transition's type.
-/
import DateutilVerif.Proofs.ZonesBuild
import DateutilVerif.Proofs.ZonesFold
import DateutilVerif.Proofs.SpecPre
import DateutilVerif.Proofs.ZonesRaw

namespace C05
open TZ Spec

/-- the finite list `Spec.pre r w` (what the oracle enumerates) is exactly the pre-image set -/
theorem mem_pre_iff (r : Raw) (w t : Int) : t ∈ pre r w ↔ fromutcSpec r t = some w :=
  Spec.mem_pre_iff r w t

/-- instants the tzfile theorems cover -/
def Cov (r : Raw) (t : Int) : Prop := (∃ u, lastTime r = some u ∧ t < u) ∨ LastStd (build r)

/-- conversion of a covered instant, tied to the spec: the wall reading is the spec's, and the
    (wall, fold) pair leads back to the instant -/
theorem fromutc_spec (r : Raw) (hwf : Spec.wf r = true) (hne : r.trans ≠ []) (t : Int)
    (hcov : Cov r t) (w : Int) (hpre : fromutcSpec r t = some w) :
    ∃ f, fromutc (build r) t = .ok ⟨w, f⟩ ∧ utcoffset (build r) ⟨w, f⟩ = .ok (w - t) := by
  obtain ⟨b, s, f0, hf, hfb, hc, hw⟩ := build_coherent r hwf hne
  have hcv := covered_of r hc hw t hcov
  obtain ⟨x, hx1, hx2, hx3⟩ := hc.findTtinfo_fromutc hw t hcv
  -- the spec offset equals the selected object's offset
  have hoff : w = t + (ttOf (build r) b s (bisectRight (build r).utc t)).off := by
    rcases hcov with ⟨u, h1, h2⟩ | hls
    · have hlt := bisect_lt_of_lt_last r hc hw t u h1 h2
      obtain ⟨ty, hty, hrel⟩ := typeAt_rel r hwf hf hfb hc hw t hlt
      simp only [fromutcSpec, offsetAt, hty, Option.map_some, Option.some.injEq] at hpre
      rw [← hrel.1]; omega
    · by_cases hlt : bisectRight (build r).utc t < (build r).utc.length
      · obtain ⟨ty, hty, hrel⟩ := typeAt_rel r hwf hf hfb hc hw t hlt
        simp only [fromutcSpec, offsetAt, hty, Option.map_some, Option.some.injEq] at hpre
        rw [← hrel.1]; omega
      · -- at or after the last transition: ttinfo_std is the last transition's object
        have hle := bisectRight_le (build r).utc t
        have heq : bisectRight (build r).utc t = (build r).utc.length := by omega
        have hpos := hc.npos
        have hb := bisectRight_spec t (hc.utc_sorted hw)
        have hutc : (build r).utc = r.trans.map (fun p => p.1) := rfl
        have hn : (build r).utc.length = r.trans.length := by simp [hutc]
        have hty : typeAt r t = r.types[(r.trans.getD (r.trans.length - 1) default).2]? := by
          unfold typeAt
          rw [filter_le_eq_take r.trans t _ (by rw [← hutc]; exact hb), heq, hn,
            getLast?_take _ _ (by omega) (Nat.le_refl _),
            getElem?_eq_some_getD (by omega) default]
        have hok : (r.trans.getD (r.trans.length - 1) default).2 < r.types.length := by
          simp only [Spec.wf, Bool.and_eq_true] at hwf
          have hall := hwf.1.1
          simp only [Raw.ok, List.all_eq_true, decide_eq_true_eq] at hall
          apply hall
          rw [List.getD_eq_getElem?_getD, List.getElem?_eq_getElem (by omega)]
          simp
        rw [getElem?_eq_some_getD hok default] at hty
        simp only [fromutcSpec, offsetAt, hty, Option.map_some, Option.some.injEq] at hpre
        have hs' : s = (build r).tts.getD ((build r).utc.length - 1) default := by
          unfold LastStd at hls; rw [hc.hs] at hls; exact Option.some.inj hls
        have htt : (build r).tts.getD ((build r).utc.length - 1) default
            = (finalTypes r).getD (r.trans.getD (r.trans.length - 1) default).2 default := by
          show (r.trans.map _).getD _ _ = _
          rw [hn, getD_map_lt _ _ _ (by omega) default default]
        have : (ttOf (build r) b s (bisectRight (build r).utc t)).off
            = (r.types.getD (r.trans.getD (r.trans.length - 1) default).2 default).off := by
          unfold ttOf; rw [if_pos (by omega), hs', htt]
          exact ((relL_final r).getD _).1.symm
        rw [this]; omega
  have hxw : x = ⟨w, x.fold⟩ := by cases x; simp only [Wall.mk.injEq, and_true]; simp only at hx2; omega
  refine ⟨x.fold, by rw [← hxw]; exact hx1, ?_⟩
  rw [← hxw, hc.utcoffset_eq x _ hx3]; congr 1; omega

/-- **exists_iff (⇐).** A wall time with a pre-image exists: with the fold conversion assigns,
    `datetime_exists` is true. -/
theorem exists_of_preimage (r : Raw) (hwf : Spec.wf r = true) (hne : r.trans ≠ []) (t w : Int)
    (hcov : Cov r t) (hpre : fromutcSpec r t = some w) :
    ∃ f, datetimeExists (build r).ops ⟨w, f⟩ = .ok true := by
  obtain ⟨f, h1, h2⟩ := fromutc_spec r hwf hne t hcov w hpre
  refine ⟨f, ?_⟩
  unfold datetimeExists TzFile.ops
  simp only [h2, bind, Except.bind]
  have : w - (w - t) = t := by omega
  rw [this, h1]
  simp [pure, Except.pure]

/-- **exists_iff (⇒).** If `datetime_exists` holds for `(w, f)`, the instant `w − utcoffset(w, f)`
    is a pre-image of `w`. -/
theorem preimage_of_exists (r : Raw) (hwf : Spec.wf r = true) (hne : r.trans ≠ []) (w : Int) (f : Bool)
    (o : Int) (ho : utcoffset (build r) ⟨w, f⟩ = .ok o) (hcov : Cov r (w - o))
    (hex : datetimeExists (build r).ops ⟨w, f⟩ = .ok true) :
    fromutcSpec r (w - o) = some w := by
  obtain ⟨b, s, f0, hf, hfb, hc, hw⟩ := build_coherent r hwf hne
  unfold datetimeExists TzFile.ops at hex
  simp only [ho, bind, Except.bind] at hex
  -- the spec is defined at every instant of a table with types
  cases hsp : fromutcSpec r (w - o) with
  | none =>
      exfalso
      have hcv := covered_of r hc hw (w - o) hcov
      unfold fromutcSpec offsetAt at hsp
      simp only [Option.map_eq_none_iff] at hsp
      by_cases hlt : bisectRight (build r).utc (w - o) < (build r).utc.length
      · obtain ⟨ty, hty, _⟩ := typeAt_rel r hwf hf hfb hc hw (w - o) hlt
        rw [hsp] at hty; cases hty
      · have hle := bisectRight_le (build r).utc (w - o)
        have hpos := hc.npos
        have hb := bisectRight_spec (w - o) (hc.utc_sorted hw)
        have hutc : (build r).utc = r.trans.map (fun p => p.1) := rfl
        have hn : (build r).utc.length = r.trans.length := by simp [hutc]
        unfold typeAt at hsp
        rw [filter_le_eq_take r.trans (w - o) _ (by rw [← hutc]; exact hb),
          (by omega : bisectRight (build r).utc (w - o) = r.trans.length),
          getLast?_take _ _ (by omega) (Nat.le_refl _),
          getElem?_eq_some_getD (by omega) default] at hsp
        simp only at hsp
        have hok : (r.trans.getD (r.trans.length - 1) default).2 < r.types.length := by
          simp only [Spec.wf, Bool.and_eq_true] at hwf
          have hall := hwf.1.1
          simp only [Raw.ok, List.all_eq_true, decide_eq_true_eq] at hall
          apply hall
          rw [List.getD_eq_getElem?_getD, List.getElem?_eq_getElem (by omega)]
          simp
        rw [getElem?_eq_some_getD hok default] at hsp
        cases hsp
  | some w' =>
      obtain ⟨f', h1, _⟩ := fromutc_spec r hwf hne (w - o) hcov w' hsp
      rw [h1] at hex
      simp only [pure, Except.pure, Except.ok.injEq, beq_iff_eq] at hex
      rw [hex]

/-- **fold_distinguishes.** Two different pre-images of one wall time get different folds. -/
theorem fold_distinguishes (r : Raw) (hwf : Spec.wf r = true) (hne : r.trans ≠ []) (t₁ t₂ w : Int)
    (h₁ : Cov r t₁) (h₂ : Cov r t₂) (p₁ : fromutcSpec r t₁ = some w) (p₂ : fromutcSpec r t₂ = some w)
    (hd : t₁ ≠ t₂) :
    ∃ f₁ f₂, fromutc (build r) t₁ = .ok ⟨w, f₁⟩ ∧ fromutc (build r) t₂ = .ok ⟨w, f₂⟩ ∧ f₁ ≠ f₂ := by
  obtain ⟨f1, a1, b1⟩ := fromutc_spec r hwf hne t₁ h₁ w p₁
  obtain ⟨f2, a2, b2⟩ := fromutc_spec r hwf hne t₂ h₂ w p₂
  refine ⟨f1, f2, a1, a2, ?_⟩
  intro e; subst e
  rw [b1] at b2
  have := Except.ok.inj b2
  omega

/-- **fold_selects.** Of two pre-images `t₁ < t₂` of one wall time, conversion from UTC marks the
    earlier with fold=0 and the later with fold=1, and `(w, fold=0)`, `(w, fold=1)` denote exactly
    those two instants. -/
theorem fold_selects (r : Raw) (hwf : Spec.wf r = true) (hne : r.trans ≠ []) (t₁ t₂ w : Int)
    (h₁ : Cov r t₁) (h₂ : Cov r t₂) (p₁ : fromutcSpec r t₁ = some w) (p₂ : fromutcSpec r t₂ = some w)
    (hlt : t₁ < t₂) :
    fromutc (build r) t₁ = .ok ⟨w, false⟩ ∧ fromutc (build r) t₂ = .ok ⟨w, true⟩ ∧
    toUtc (build r) ⟨w, false⟩ = .ok t₁ ∧ toUtc (build r) ⟨w, true⟩ = .ok t₂ := by
  obtain ⟨f1, a1, b1⟩ := fromutc_spec r hwf hne t₁ h₁ w p₁
  obtain ⟨f2, a2, b2⟩ := fromutc_spec r hwf hne t₂ h₂ w p₂
  obtain ⟨b, s, f0, hf, hfb, hc, hw⟩ := build_coherent r hwf hne
  have c1 := hc.fromutc_eq t₁
  have c2 := hc.fromutc_eq t₂
  rw [a1] at c1; rw [a2] at c2
  have e1 := Except.ok.inj c1
  have e2 := Except.ok.inj c2
  simp only [Wall.mk.injEq] at e1 e2
  have hne' : f1 ≠ f2 := by
    intro e; subst e; rw [b1] at b2; have := Except.ok.inj b2; omega
  have hf1 : f1 = false := by
    cases hf1 : f1 with
    | false => rfl
    | true =>
        exfalso
        have hf2 : f2 = false := by cases h : f2 with
          | false => rfl
          | true => exact absurd (hf1.trans h.symm) hne'
        exact hc.fold_order hw t₁ t₂ hlt (covered_of r hc hw t₁ h₁) (covered_of r hc hw t₂ h₂)
          (by rw [← e1.1, ← e2.1]) (by rw [← e1.2]; exact hf1) (by rw [← e2.2]; exact hf2)
  have hf2 : f2 = true := by
    cases h : f2 with
    | true => rfl
    | false => exact absurd (hf1.trans h.symm) hne'
  subst hf1; subst hf2
  refine ⟨a1, a2, ?_, ?_⟩
  · unfold toUtc; rw [b1]; show Except.ok _ = _; congr 1; show w - (w - t₁) = t₁; omega
  · unfold toUtc; rw [b2]; show Except.ok _ = _; congr 1; show w - (w - t₂) = t₂; omega

/-- **resolve_imaginary on existing times**: the argument is returned unchanged. -/
theorem resolve_imaginary_of_exists (z : ZoneOps) (w : Wall) (h : datetimeExists z w = .ok true) :
    resolveImaginary z w = .ok w := by
  unfold resolveImaginary
  simp [h, bind, Except.bind, pure, Except.pure]

/-! ### counting pre-images -/

/-- **pre_card_le_two.** Under `Spec.wf` every wall time is read by at most two UTC instants. -/
theorem pre_card_le_two (r : Raw) (hwf : Spec.wf r = true) (w : Int) : (pre r w).length ≤ 2 := by
  apply length_le_two_of (pre_nodup r w)
  intro t₁ h₁ t₂ h₂ t₃ h₃
  rw [Spec.mem_pre_iff] at h₁ h₂ h₃
  by_cases hne : r.trans = []
  · -- no transition: one offset for all instants
    left
    simp only [fromutcSpec, offsetAt, typeAt, hne, List.filter_nil, List.getLast?_nil] at h₁ h₂
    cases hft : firstType r with
    | none => rw [hft] at h₁; simp at h₁
    | some ty => rw [hft] at h₁ h₂; simp at h₁ h₂; omega
  · obtain ⟨b, s, f, hf, hfb, hc, hw⟩ := build_coherent r hwf hne
    rw [fromutcSpec_iff r hwf hf hfb hc hw] at h₁ h₂ h₃
    have s₁ := hc.pre_seg hw w t₁ h₁
    have s₂ := hc.pre_seg hw w t₂ h₂
    have s₃ := hc.pre_seg hw w t₃ h₃
    -- two of the three lie in the same segment, hence coincide
    have key : ∀ a c : Int, w = a + Bo (build r) b (bisectRight (build r).utc a) →
        w = c + Bo (build r) b (bisectRight (build r).utc c) →
        bisectRight (build r).utc a = bisectRight (build r).utc c → a = c := by
      intro a c ha hc' e; rw [e] at ha; omega
    rcases s₁ with e₁ | e₁ <;> rcases s₂ with e₂ | e₂ <;> rcases s₃ with e₃ | e₃
    all_goals first
      | exact Or.inl (key _ _ h₁ h₂ (by omega))
      | exact Or.inr (Or.inl (key _ _ h₁ h₃ (by omega)))
      | exact Or.inr (Or.inr (key _ _ h₂ h₃ (by omega)))

/-- two pre-images ⇔ the two folds select different segments -/
theorem two_pre_iff (r : Raw) (hwf : Spec.wf r = true) (hne : r.trans ≠ []) (w : Int) :
    (pre r w).length = 2 ↔ bisectRight (build r).wall1 w ≠ bisectRight (build r).wall0 w := by
  obtain ⟨b, s, f, hf, hfb, hc, hw⟩ := build_coherent r hwf hne
  rw [length_eq_two_iff (pre_nodup r w) (pre_card_le_two r hwf w)]
  have hkn : bisectRight (build r).wall0 w ≤ (build r).utc.length := by
    rw [← hc.w0_len]; exact bisectRight_le _ _
  have hk1 := hc.k1_eq hw w
  obtain ⟨k1, k2⟩ := (hc.count_w0 hw w _ hkn).mp rfl
  constructor
  · intro ⟨t₁, t₂, hd, h₁, h₂⟩
    rw [Spec.mem_pre_iff, fromutcSpec_iff r hwf hf hfb hc hw] at h₁ h₂
    have s₁ := hc.pre_seg hw w t₁ h₁
    have s₂ := hc.pre_seg hw w t₂ h₂
    have hdiff : bisectRight (build r).utc t₁ ≠ bisectRight (build r).utc t₂ := by
      intro e; rw [e] at h₁; omega
    -- one of them lies in segment k0+1, which therefore reads w
    have hP : bisectRight (build r).wall0 w < (build r).utc.length ∧
        Lo (build r) b (bisectRight (build r).wall0 w) ≤ w := by
      have aux : ∀ t, w = t + Bo (build r) b (bisectRight (build r).utc t) →
          bisectRight (build r).utc t = bisectRight (build r).wall0 w + 1 →
          bisectRight (build r).wall0 w < (build r).utc.length ∧
            Lo (build r) b (bisectRight (build r).wall0 w) ≤ w := by
        intro t ht e
        have hle := bisectRight_le (build r).utc t
        have r1 := (hc.pre_reads hw w t ht).1
        rw [e] at r1 hle
        exact ⟨by omega, by simpa using r1 (by omega)⟩
      rcases s₁ with e₁ | e₁
      · rcases s₂ with e₂ | e₂
        · exact absurd (e₁.trans e₂.symm) hdiff
        · exact aux t₂ h₂ e₂
      · exact aux t₁ h₁ e₁
    rw [if_pos hP] at hk1; omega
  · intro hdk
    by_cases hP : bisectRight (build r).wall0 w < (build r).utc.length ∧
        Lo (build r) b (bisectRight (build r).wall0 w) ≤ w
    · have hlo : 0 < bisectRight (build r).wall0 w →
          Lo (build r) b (bisectRight (build r).wall0 w - 1) ≤ w := by
        intro h0
        have := hc.lo_mono hw (bisectRight (build r).wall0 w - 1) (bisectRight (build r).wall0 w) (by omega) hP.1
        omega
      have c0 := hc.seg_pre hw w _ hkn hlo k2
      have c1 := hc.seg_pre hw w (bisectRight (build r).wall0 w + 1) (by omega)
        (fun _ => by simpa using hP.2)
        (fun hn => by have := hc.hi_step hw _ hn; have := k2 hP.1; omega)
      refine ⟨w - Bo (build r) b (bisectRight (build r).wall0 w),
              w - Bo (build r) b (bisectRight (build r).wall0 w + 1), ?_, ?_, ?_⟩
      · have h2 := k2 hP.1
        have h3 := hP.2
        simp only [Hi, Lo] at h2 h3
        omega
      · rw [Spec.mem_pre_iff, fromutcSpec_iff r hwf hf hfb hc hw, c0]; omega
      · rw [Spec.mem_pre_iff, fromutcSpec_iff r hwf hf hfb hc hw, c1]; omega
    · rw [if_neg hP] at hk1; exact absurd hk1 hdk

/-- **ambiguous_iff.** `is_ambiguous` holds exactly for the wall times with two pre-images. -/
theorem ambiguous_iff (r : Raw) (hwf : Spec.wf r = true) (hne : r.trans ≠ []) (w : Int) :
    isAmbiguous (build r) w = true ↔ (pre r w).length = 2 := by
  obtain ⟨b, s, f, hf, hfb, hc, hw⟩ := build_coherent r hwf hne
  rw [hc.isAmbiguous_eq hw w, two_pre_iff r hwf hne w]
  simp

/-- **fold_irrelevant.** Unless there are two pre-images, fold has no effect on the offset
    (in particular when there is exactly one). -/
theorem fold_irrelevant (r : Raw) (hwf : Spec.wf r = true) (hne : r.trans ≠ []) (w : Int)
    (h : (pre r w).length ≠ 2) :
    utcoffset (build r) ⟨w, false⟩ = utcoffset (build r) ⟨w, true⟩ ∧
    tzname (build r) ⟨w, false⟩ = tzname (build r) ⟨w, true⟩ ∧
    dst (build r) ⟨w, false⟩ = dst (build r) ⟨w, true⟩ := by
  rw [Ne, two_pre_iff r hwf hne w, Decidable.not_not] at h
  have e : findTtinfo (build r) ⟨w, false⟩ = findTtinfo (build r) ⟨w, true⟩ := by
    simp only [findTtinfo, findLastWall, wallOf, h, Bool.false_eq_true, if_false, if_true]
  simp only [utcoffset, tzname, dst, e, and_self]

/-- **exists_iff.** For either fold, `datetime_exists` is true exactly when the wall time has a
    pre-image. -/
theorem exists_iff (r : Raw) (hwf : Spec.wf r = true) (hne : r.trans ≠ []) (w : Int) (f : Bool)
    (hcov : CovWall r w) :
    datetimeExists (build r).ops ⟨w, f⟩ = .ok (decide (pre r w ≠ [])) := by
  obtain ⟨b, s, f0, hf, hfb, hc, hw⟩ := build_coherent r hwf hne
  rw [hc.exists_eq hw w f (covWall_covered r hwf hf hfb hc hw w hcov w (Int.le_refl _) false)
        (covWall_covered r hwf hf hfb hc hw w hcov w (Int.le_refl _) true)]
  congr 1
  rw [decide_eq_decide, ← hc.hasPre_iff hw w]
  constructor
  · intro ⟨t, ht⟩ hnil
    have : t ∈ pre r w := by rw [Spec.mem_pre_iff, fromutcSpec_iff r hwf hf hfb hc hw]; exact ht
    rw [hnil] at this; simp at this
  · intro hnn
    cases hl : pre r w with
    | nil => exact absurd hl hnn
    | cons t rest =>
        have : t ∈ pre r w := by rw [hl]; simp
        rw [Spec.mem_pre_iff, fromutcSpec_iff r hwf hf hfb hc hw] at this
        exact ⟨t, this⟩

/-- **resolve_imaginary_spec (gap half).** `w` lies in the gap of the change at `u` (offset
    `ob` before, `oa` after: `u + ob ≤ w < u + oa`, so it has no pre-image), of ANY width; the
    neighbouring transitions are at least one gap width away (`u' + (oa - ob) ≤ u` for earlier,
    `u + (oa - ob) ≤ u'` for later ones).  Then `resolve_imaginary` moves `w` forward by exactly
    the gap width, and the result exists.  (Since the D-C05g repair the gap is measured by a UTC
    round trip: the former hypotheses "gap ≤ 24 h" and "no other change within 24 h" are gone;
    two transitions closer than one gap width make "forward by the gap width AND existing"
    unsatisfiable in general — e.g. two one-hour gaps 30 min apart.) -/
theorem resolve_imaginary_gap (r : Raw) (hwf : Spec.wf r = true) (w : Int) (f : Bool) (u ob oa : Int)
    (hu : u ∈ r.trans.map (fun p => p.1))
    (hob : offsetAt r (u - 1) = some ob) (hoa : offsetAt r u = some oa)
    (hgap : u + ob ≤ w ∧ w < u + oa)
    (hnext : ∀ u' ∈ r.trans.map (fun p => p.1), u < u' → u + (oa - ob) ≤ u')
    (hprev : ∀ u' ∈ r.trans.map (fun p => p.1), u' < u → u' + (oa - ob) ≤ u)
    (hcov : LastStd (build r) ∨ ∃ u' ∈ r.trans.map (fun p => p.1), u < u') :
    pre r w = [] ∧
    resolveImaginary (build r).ops ⟨w, f⟩ = .ok ⟨w + (oa - ob), false⟩ ∧
    pre r (w + (oa - ob)) ≠ [] := by
  have hne : r.trans ≠ [] := by intro h; rw [h] at hu; simp at hu
  obtain ⟨b, s, f0, hf, hfb, hc, hw⟩ := build_coherent r hwf hne
  have hutc : (build r).utc = r.trans.map (fun p => p.1) := rfl
  rw [← hutc] at hu hnext hprev hcov
  obtain ⟨i, hi, hUi⟩ := mem_U hu
  subst hUi
  -- the offsets around transition i
  have e1 := offsetAt_eq r hwf hf hfb hc hw (U (build r) i)
  have e2 := offsetAt_eq r hwf hf hfb hc hw (U (build r) i - 1)
  rw [hc.count_at hw i hi, hoa] at e1
  rw [hc.count_before hw i hi, hob] at e2
  have eoa := Option.some.inj e1
  have eob := Option.some.inj e2
  -- the fold=0 count of w is i+1
  have hk : bisectRight (build r).wall0 w = i + 1 := by
    rw [hc.count_w0 hw w (i + 1) (by omega)]
    refine ⟨fun _ => by simp only [Nat.add_sub_cancel, Hi]; omega, fun hn => ?_⟩
    have := hc.utc_lt hw i (i + 1) (by omega) hn
    simp only [Hi]; omega
  have hlo : Lo (build r) b i = U (build r) i + oa := by simp only [Lo]; omega
  have hhi : Hi (build r) b i = U (build r) i + ob := by simp only [Hi]; omega
  have hcovd : Covered (build r) s (i + 1) := by
    rcases hcov with h | ⟨u', hu', hlt⟩
    · right; unfold LastStd at h; rw [hc.hs] at h; exact Option.some.inj h
    · left
      obtain ⟨j, hj, hUj⟩ := mem_U hu'
      subst hUj
      by_cases hji : j ≤ i
      · exfalso
        by_cases e : j = i
        · subst e; omega
        · have := hc.utc_lt hw j i (by omega) hi; omega
      · omega
  have main := hc.resolve_gap hw w f (by omega)
    (by rw [hk]; simp only [Nat.add_sub_cancel]; omega)
    (by rw [hk]; intro hn
        simp only [Nat.add_sub_cancel]
        have := hnext _ (U_mem (i + 1) hn) (hc.utc_lt hw i (i + 1) (by omega) hn)
        have e3 := offsetAt_eq r hwf hf hfb hc hw (U (build r) i)
        simp only [Hi, Lo]; omega)
    (by rw [hk]; intro h1
        have e : i + 1 - 2 = i - 1 := by omega
        simp only [Nat.add_sub_cancel, e]
        have hi1 : i - 1 < (build r).utc.length := by omega
        have := hprev _ (U_mem (i - 1) hi1) (hc.utc_lt hw (i - 1) i (by omega) hi)
        simp only [Hi, Lo]; omega)
    (by rw [hk]; exact hcovd)
  rw [hk] at main
  simp only [Nat.add_sub_cancel] at main
  rw [← eoa, ← eob] at main
  obtain ⟨m1, t, m2⟩ := main
  refine ⟨?_, m1, ?_⟩
  · -- no pre-image
    cases hl : pre r w with
    | nil => rfl
    | cons t' rest =>
        exfalso
        have : t' ∈ pre r w := by rw [hl]; simp
        rw [Spec.mem_pre_iff, fromutcSpec_iff r hwf hf hfb hc hw] at this
        have := (hc.hasPre_iff hw w).mp ⟨t', this⟩
        rw [hk] at this
        simp only [Nat.add_sub_cancel] at this
        omega
  · intro hnil
    have : t ∈ pre r (w + (oa - ob)) := by
      rw [Spec.mem_pre_iff, fromutcSpec_iff r hwf hf hfb hc hw]; exact m2
    rw [hnil] at this; simp at this

/-- **explicit_tz_wins.** The public helpers with both arguments: an explicit `tz` decides, whatever
    zone (or none) the datetime carries; without it the datetime's own zone is used; a naive datetime
    without `tz` is a `ValueError`; `resolve_imaginary` leaves a naive datetime alone.  So every
    theorem above about `datetimeExists z w` / `isAmbiguous` is a statement about each call form. -/
theorem explicit_tz_wins (z : ZoneOps) (other : Option ZoneOps) (w : Wall) :
    datetimeExistsArgs other (some z) w = datetimeExists z w ∧
    datetimeAmbiguousArgs other (some z) w = datetimeAmbiguous z w ∧
    datetimeExistsArgs (some z) none w = datetimeExists z w ∧
    datetimeAmbiguousArgs (some z) none w = datetimeAmbiguous z w ∧
    datetimeExistsArgs none none w = .error .ValueError ∧
    datetimeAmbiguousArgs none none w = .error .ValueError ∧
    resolveImaginaryArgs none w = .ok w := ⟨rfl, rfl, rfl, rfl, rfl, rfl, rfl⟩

/-! non-vacuity: 2000100 is read twice in `exR` (set back one hour at 2000000) -/
def exR : Raw := { trans := [(1000000, 1), (2000000, 0), (3000000, 1)],
                   types := [⟨0, 0, [65], false, false, 0⟩, ⟨3600, 1, [66], false, false, 0⟩] }
example : Spec.wf exR = true ∧ pre exR 2000100 = [2000100, 1996500] ∧ pre exR 1001800 = [] := by decide
example : fromutcSpec exR 1996500 = some 2000100 ∧ fromutcSpec exR 2000100 = some 2000100 := by decide
example : datetimeExists (build exR).ops ⟨1001800, false⟩ = .ok false := by decide
example : Cov exR 1996500 ∧ Cov exR 2000100 := ⟨Or.inl ⟨3000000, by decide, by decide⟩, Or.inl ⟨3000000, by decide, by decide⟩⟩

/-- the gap of `exR` at 1000000 (+0 → +1 h): 1001800 is imaginary and resolves to 1005400;
    the hypotheses of `resolve_imaginary_gap` are satisfiable -/
example : offsetAt exR (1000000 - 1) = some 0 ∧ offsetAt exR 1000000 = some 3600 ∧
    (1000000 : Int) ∈ exR.trans.map (fun p => p.1) ∧
    resolveImaginary (build exR).ops ⟨1001800, false⟩ = .ok ⟨1005400, false⟩ ∧
    pre exR 1005400 = [1001800] := by decide
example : isAmbiguous (build exR) 2000100 = true ∧ (pre exR 2000100).length = 2 := by decide

/-- a gap WIDER than 24 h (−12 h → +13 h at 1000000, the next change 10^6 s later): every skipped wall time is moved
    forward by exactly 90000 s and then exists — the case the 24 h probes of the code before the D-C05g repair missed -/
def exWide : Raw := { trans := [(1000000, 1), (2000000, 0)],
                      types := [⟨-43200, 0, [65], false, false, 0⟩, ⟨46800, 1, [66], false, false, 0⟩] }
example : Spec.wf exWide = true ∧ pre exWide 1000000 = [] ∧
    resolveImaginary (build exWide).ops ⟨1000000, false⟩ = .ok ⟨1090000, false⟩ ∧
    resolveImaginary (build exWide).ops ⟨956800, true⟩ = .ok ⟨1046800, false⟩ ∧
    pre exWide 1090000 = [1043200] := by decide
example : CovWall exR 2000100 := Or.inr ⟨3000000, 0, 3600, by decide, by decide, by decide, by decide⟩

end C05
