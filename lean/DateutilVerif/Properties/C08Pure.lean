/-
  Properties/C08Pure.lean — ONE ZONE OBJECT, MANY CALLS (C08: tzrange / tzstr; tzstr objects are process-wide singletons).

  The counterpart of C17's `cache_transparent` / `cache_step_gen` for range zones.  A `_tzicalvtz` HAS state (two cache lists),
  so its translated `_find_comp` takes and returns them and the theorem says the lists never change an answer.  A range zone
  has NO state after construction: the translations of `tzrange.transitions` and of `tzrangebase.utcoffset / dst / tzname /
  fromutc / is_ambiguous` (Generated/TzObjKernels.lean, Generated/TzKernels.lean) take the zone record and the query and return
  an answer and NOTHING ELSE — the translators refuse a method that assigns an attribute of `self` (Untranslatable: "assignment to
  self.X"), so an edit that adds a memo to one of those methods breaks the translation, and `harness/tzshared.py` audits the
  classes' ASTs for any write outside `__init__` and runs history and two-thread schedule streams on the implementation.
  Hence the theorem is immediate; it is stated so that the claim "answers are a function of the constructor arguments and the
  query, whatever was asked before" is a named, audited obligation over the translated functions:

  * `range_answers_pure` — for the object built by the translated constructor from given arguments, after ANY history of
    calls (each through the translated methods, including ones that raise) the answer to a query equals the answer a fresh
    object gives;
  * `same_arguments_same_answers` — two objects built from the same constructor arguments answer every query alike
    (what makes sharing one object per string sound: C18's factories hand out ONE object per key).
-/
import DateutilVerif.Generated.TzObjKernels
import DateutilVerif.Proofs.TzStrRange

namespace C08
open TZ

/-- a zone for the examples -/
def usZoneP : TzStr.Zone :=
  { stdAbbr := some "EST", dstAbbr := some "EDT", stdOff := -18000, dstOff := -14400,
    start := some { month := some 3, day := some 1, weekday := some (6, 2), leapdays := 0, seconds := 7200 },
    «end» := some { month := some 11, day := some 1, weekday := some (6, 1), leapdays := 0, seconds := 3600 }, hasdst := true }

/-- what a caller can ask of a range zone -/
inductive RQuery where
  | transitions (year : Int)
  | utcoffset (dt : DtPy.Dt) | dst (dt : DtPy.Dt) | tzname (dt : DtPy.Dt) | fromutc (dt : DtPy.Dt) | isAmbiguous (dt : DtPy.Dt)

/-- the answers, through the functions TRANSLATED from tz/tz.py and tz/_common.py -/
inductive RAnswer where
  | trans (r : Py.R (Option (Int × Int)))
  | int (r : Py.R Int) | name (r : Py.R (List UInt8)) | dt (r : Py.R DtPy.Dt) | bool (r : Py.R Bool)

def answer (z : TzStr.Zone) : RQuery → RAnswer
  | .transitions y => .trans (Gen.tzrange_transitions z y)
  | .utcoffset d => .int (Gen.tzrange_utcoffset (ofTzStr z) d)
  | .dst d => .int (Gen.tzrange_dst (ofTzStr z) d)
  | .tzname d => .name (Gen.tzrange_tzname (ofTzStr z) d)
  | .fromutc d => .dt (Gen.tzrange_fromutc (ofTzStr z) d)
  | .isAmbiguous d => .bool (Gen.tzrange_isAmbiguous (ofTzStr z) d)

/-- one call on the object: the successor object and the answer.  The translated methods return no successor state (compare
    `Gen.tzicalvtz_findComp`, which returns the two cache lists), so the object after the call is the object before it -/
def call (z : TzStr.Zone) (q : RQuery) : TzStr.Zone × RAnswer := (z, answer z q)

/-- the object after a history of calls -/
def after (z : TzStr.Zone) (hist : List RQuery) : TzStr.Zone := hist.foldl (fun z q => (call z q).1) z

theorem after_eq (z : TzStr.Zone) (hist : List RQuery) : after z hist = z := by
  induction hist generalizing z with
  | nil => rfl
  | cons q t ih => exact ih z

/-- **purity**: whatever was asked before (any length, any years, lookups that raised included), the object built from the
    constructor arguments answers a query exactly as a fresh object does -/
theorem range_answers_pure (stdabbr : Option String) (stdoffset : Option Int) (dstabbr : Option String) (dstoffset : Option Int)
    (start end_ : ObjPy.DArg) (t) (h : Gen.tzrange_init stdabbr stdoffset dstabbr dstoffset start end_ = .ok t)
    (hist : List RQuery) (q : RQuery) :
    (call (after (ObjPy.zoneOf t) hist) q).2 = answer (ObjPy.zoneOf t) q := by
  rw [after_eq]; rfl

/-- the same for a `tzstr` (the translated `tzstr.__init__`) -/
theorem tzstr_answers_pure (s : String) (posix : Bool) (t) (h : Gen.tzstr_init s posix = .ok t)
    (hist : List RQuery) (q : RQuery) :
    (call (after (ObjPy.zoneOf t) hist) q).2 = answer (ObjPy.zoneOf t) q := by
  rw [after_eq]; rfl

/-- two objects built from the same arguments are interchangeable, whatever their histories -/
theorem same_arguments_same_answers (s : String) (posix : Bool) (t1 t2)
    (h1 : Gen.tzstr_init s posix = .ok t1) (h2 : Gen.tzstr_init s posix = .ok t2)
    (hist1 hist2 : List RQuery) (q : RQuery) :
    (call (after (ObjPy.zoneOf t1) hist1) q).2 = (call (after (ObjPy.zoneOf t2) hist2) q).2 := by
  have : t1 = t2 := by rw [h1] at h2; cases h2; rfl
  subst this
  rw [after_eq, after_eq]

/-! non-vacuity: the constructor succeeds and a history containing a raising lookup exists -/
example : (Gen.tzstr_init "EST5EDT,M3.2.0,M11.1.0" false).toBool = true := by decide +kernel
example : (Gen.tzrange_transitions usZoneP 10000).toBool = false ∧ (Gen.tzrange_transitions usZoneP 2020).toBool = true := by
  decide +kernel

end C08
