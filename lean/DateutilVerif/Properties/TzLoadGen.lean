/-
  Properties/TzLoadGen.lean — the LOAD PATHS of C06 ("zones loaded through a path, a stream or an archive incl. link entries are
  equal"), about the CURRENT source: `tz.tzfile.__init__` and `zoneinfo.ZoneInfoFile.__init__` / `get` are re-translated on
  every run (harness/translate_load.py → Generated/TzLoadKernels.lean) and call the TRANSLATED reader `Gen.readTzfile`.
  `load_paths_equal`: every load path hands the same bytes to `_read_tzfile` and therefore builds the same zone data — a file
  name, an open stream (whatever its name / the `filename=` argument), a regular member of an archive that loads, and a link
  member (hard or symbolic) pointing to it.
-/
import DateutilVerif.Properties.TzifGen
import DateutilVerif.Generated.TzLoadKernels

set_option linter.unusedSimpArgs false
set_option linter.unusedVariables false

open Py LoadPy

namespace C06

/-- the zone a tzfile object carries, read through its references (None when no file was read) -/
def zoneOf (x : R TzObj) : R (Option TZ.TzFile) := x.map fun o => o.data.map TzifPy.Out.view

/-- **gen_tzfile_init_stream.** An open stream: its bytes go to the reader; `_filename` is the `filename=` argument, else the
    stream's `.name`, else its repr. -/
theorem gen_tzfile_init_stream (fs : FS) (d : Bytes) (nm : Option String) (rp : String) (fn : Option String) :
    Gen.tzfile_init fs (.stream d nm rp) fn =
      (Gen.readTzfile d).map fun o => { filename := fn.getD (nm.getD rp), data := some o } := by
  unfold Gen.tzfile_init
  cases fn <;> cases nm <;>
    simp [isStr, LoadPy.isNone, hasName, nameOf, reprOf, streamBytes, bind, Except.bind, pure, Except.pure, Except.map] <;>
    cases Gen.readTzfile d <;> rfl

/-- **gen_tzfile_init_path.** A file name: `open(name, 'rb')`, the bytes go to the reader, `_filename` is the name. -/
theorem gen_tzfile_init_path (fs : FS) (p : String) (d : Bytes) (h : fs p = some d) (fn : Option String) :
    Gen.tzfile_init fs (.path p) fn = (Gen.readTzfile d).map fun o => { filename := p, data := some o } := by
  unfold Gen.tzfile_init
  simp [isStr, strOf, openRb, h, LoadPy.isNone, streamBytes, bind, Except.bind, pure, Except.pure, Except.map]
  cases Gen.readTzfile d <;> rfl

/-- `tzfile(None, filename)` (the reconstruction path of `tzfile.__reduce_ex__`, Model/Reduce.lean): nothing is read -/
theorem gen_tzfile_init_none (fs : FS) (fn : Option String) :
    Gen.tzfile_init fs .none_ fn = .ok { filename := fn.getD "None", data := none } := by
  unfold Gen.tzfile_init
  cases fn <;> simp [isStr, LoadPy.isNone, hasName, reprOf, bind, Except.bind, pure, Except.pure]

/-! ### dictionaries -/

theorem dget_of_mem (L : Dict) (k : String) (v : TzObj) (hm : (k, v) ∈ L)
    (hu : ∀ p ∈ L, p.1 = k → p.2 = v) : dget L k = some v := by
  unfold dget
  cases hf : L.reverse.find? (fun p => p.1 == k) with
  | none =>
      have := List.find?_eq_none.mp hf (k, v) (by simpa using hm)
      simp at this
  | some p =>
      have hp := List.mem_of_find?_eq_some hf
      have hk := List.find?_some hf
      simp only [beq_iff_eq] at hk
      simp [hu p (by simpa using hp) hk]

theorem dget_append_left (A B : Dict) (k : String) (h : ∀ p ∈ B, p.1 ≠ k) : dget (A ++ B) k = dget A k := by
  unfold dget
  rw [List.reverse_append, List.find?_append]
  have : B.reverse.find? (fun p => p.1 == k) = none := by
    apply List.find?_eq_none.mpr
    intro p hp
    simpa using h p (by simpa using hp)
  simp [this]

theorem dget_append_right (A B : Dict) (k : String) (v : TzObj) (h : dget B k = some v) : dget (A ++ B) k = some v := by
  unfold dget at h ⊢
  rw [List.reverse_append, List.find?_append]
  cases hf : B.reverse.find? (fun p => p.1 == k) with
  | none => simp [hf] at h
  | some p => simpa [hf] using h

/-- the value a comprehension computed for an element (meaningful where the computation succeeded) -/
def okOr {α} (val : α → R TzObj) (x : α) : TzObj :=
  match val x with
  | .ok o => o
  | .error _ => { filename := "", data := none }

/-- a comprehension that succeeds: every selected element's value was computed, and the dictionary lists them in order -/
theorem dictCompM_ok {α} (cond : α → Bool) (key : α → String) (val : α → R TzObj) :
    ∀ (xs : List α) (acc D : Dict),
      xs.foldlM (fun acc x => if cond x then (val x).map (fun v => acc ++ [(key x, v)]) else .ok acc) acc = .ok D →
      (∀ x ∈ xs, cond x = true → val x = .ok (okOr val x)) ∧
        D = acc ++ (xs.filter cond).map (fun x => (key x, okOr val x))
  | [], acc, D, h => by
      simp [List.foldlM, pure, Except.pure] at h
      exact ⟨by simp, by simp [h]⟩
  | x :: xs, acc, D, h => by
      simp only [List.foldlM, bind, Except.bind] at h
      by_cases hc : cond x = true
      · simp only [hc, ↓reduceIte] at h
        cases hv : val x with
        | error e => simp [hv, Except.map] at h
        | ok v =>
            simp only [hv, Except.map] at h
            obtain ⟨h1, h2⟩ := dictCompM_ok cond key val xs _ D h
            have hx : okOr val x = v := by simp [okOr, hv]
            refine ⟨?_, ?_⟩
            · intro y hy hcy
              rcases List.mem_cons.mp hy with e | e
              · subst e; rw [hx, hv]
              · exact h1 y e hcy
            · rw [h2]; simp [List.filter_cons, hc, hx]
      · simp only [hc, Bool.false_eq_true, ↓reduceIte] at h
        obtain ⟨h1, h2⟩ := dictCompM_ok cond key val xs _ D h
        refine ⟨?_, ?_⟩
        · intro y hy hcy
          rcases List.mem_cons.mp hy with e | e
          · subst e; exact absurd hcy hc
          · exact h1 y e hcy
        · rw [h2]; simp [List.filter_cons, hc]

theorem dictCompM_eq {α} (xs : List α) (cond : α → Bool) (key : α → String) (val : α → R TzObj) (D : Dict)
    (h : dictCompM xs cond key val = .ok D) :
    (∀ x ∈ xs, cond x = true → val x = .ok (okOr val x)) ∧ D = (xs.filter cond).map (fun x => (key x, okOr val x)) := by
  have := dictCompM_ok cond key val xs [] D h
  simpa using this

theorem except_eta {α} (x : R α) : (match x with | .error e => .error e | .ok v => .ok v) = x := by cases x <;> rfl

/-- an archive that loads: its zone dictionary is the regular members (except METADATA) read by `tzfile(stream, filename=name)`,
    followed by the link members bound to their targets' objects -/
theorem archive_zones (fs : FS) (ms : List Member) (z : ZIF) (hinit : Gen.zoneInfoFile_init fs (some ms) = .ok z) :
    ∃ Z1 L, z.zones = Z1 ++ L ∧
      dictCompM ms (fun zf => zf.isfile && (zf.name != "METADATA")) (fun zf => zf.name)
        (fun zf => Gen.tzfile_init fs (extractfile zf) (some zf.name)) = .ok Z1 ∧
      dictCompM ms (fun zl => zl.islnk || zl.issym) (fun zl => zl.name) (fun zl => dgetR Z1 zl.linkname) = .ok L := by
  unfold Gen.zoneInfoFile_init at hinit
  simp only [Option.isNone_some, Bool.not_false, ↓reduceIte, tarOpen, bind, Except.bind, pure, Except.pure, except_eta] at hinit
  cases h1 : dictCompM ms (fun zf => zf.isfile && (zf.name != "METADATA")) (fun zf => zf.name)
      (fun zf => Gen.tzfile_init fs (extractfile zf) (some zf.name)) with
  | error e =>
      exfalso
      simp [h1] at hinit
  | ok Z1 =>
      simp only [h1] at hinit
      cases h2 : dictCompM ms (fun zl => zl.islnk || zl.issym) (fun zl => zl.name) (fun zl => dgetR Z1 zl.linkname) with
      | error e =>
          exfalso
          simp [h2] at hinit
      | ok L =>
          simp only [h2] at hinit
          refine ⟨Z1, L, ?_, rfl, h2⟩
          split at hinit
          · cases hinit
          · rename_i v hv
            split at hv
            · cases hv
            · simp only [Except.ok.injEq] at hv hinit
              rw [← hinit, ← hv]

/-- the object an archive holds for a regular member, and for a link member pointing to it -/
theorem archive_members (fs : FS) (ms : List Member) (z : ZIF) (hinit : Gen.zoneInfoFile_init fs (some ms) = .ok z)
    (m : Member) (hm : m ∈ ms) (d : Bytes) (hk : m.kind = .file d) (hmeta : m.name ≠ "METADATA")
    (hsame : ∀ m' ∈ ms, m'.isfile = true → m'.name = m.name → m'.kind = .file d)
    (hnolink : ∀ l ∈ ms, (l.islnk || l.issym) = true → l.name ≠ m.name) :
    ∃ o, Gen.readTzfile d = .ok o ∧
      Gen.zoneInfoFile_get z m.name none = .ok (some { filename := m.name, data := some o }) ∧
      ∀ l ∈ ms, (l.islnk || l.issym) = true → l.linkname = m.name →
        (∀ l' ∈ ms, (l'.islnk || l'.issym) = true → l'.name = l.name → l'.linkname = m.name) →
        Gen.zoneInfoFile_get z l.name none = .ok (some { filename := m.name, data := some o }) := by
  obtain ⟨Z1, L, hz, h1, h2⟩ := archive_zones fs ms z hinit
  obtain ⟨hv1, hZ1⟩ := dictCompM_eq _ _ _ _ _ h1
  obtain ⟨hv2, hL⟩ := dictCompM_eq _ _ _ _ _ h2
  have hc1 : (m.isfile && (m.name != "METADATA")) = true := by simp [Member.isfile, hk, hmeta]
  have hext : ∀ x : Member, x.kind = .file d → x.name = m.name →
      Gen.tzfile_init fs (extractfile x) (some x.name) =
        (Gen.readTzfile d).map fun o => { filename := m.name, data := some o } := by
    intro x hx hn
    simp only [extractfile, hx, gen_tzfile_init_stream, hn, Option.getD_some]
  have hvm := hv1 m hm hc1
  rw [hext m hk rfl] at hvm
  cases hr : Gen.readTzfile d with
  | error e => rw [hr] at hvm; simp [Except.map] at hvm
  | ok o =>
    have hval : ∀ x ∈ ms, (x.isfile && (x.name != "METADATA")) = true → x.name = m.name →
        okOr (fun zf => Gen.tzfile_init fs (extractfile zf) (some zf.name)) x = { filename := m.name, data := some o } := by
      intro x hx hcx hn
      have hxf : x.isfile = true := by simp only [Bool.and_eq_true] at hcx; exact hcx.1
      simp only [okOr, hext x (hsame x hx hxf hn) hn, hr, Except.map]
    have hg1 : dget Z1 m.name = some { filename := m.name, data := some o } := by
      apply dget_of_mem
      · rw [hZ1]; simp only [List.mem_map, List.mem_filter]
        exact ⟨m, ⟨hm, hc1⟩, by rw [hval m hm hc1 rfl]⟩
      · intro p hp hpk
        rw [hZ1] at hp; simp only [List.mem_map, List.mem_filter] at hp
        obtain ⟨x, ⟨hx, hcx⟩, rfl⟩ := hp
        exact hval x hx hcx hpk
    have hLkeys : ∀ p ∈ L, ∃ x ∈ ms, (x.islnk || x.issym) = true ∧ p = (x.name, okOr (fun zl => dgetR Z1 zl.linkname) x) := by
      intro p hp
      rw [hL] at hp; simp only [List.mem_map, List.mem_filter] at hp
      obtain ⟨x, ⟨hx, hcx⟩, rfl⟩ := hp
      exact ⟨x, hx, hcx, rfl⟩
    refine ⟨o, rfl, ?_, ?_⟩
    · unfold Gen.zoneInfoFile_get
      simp only [pure, Except.pure, hz, Option.or_none]
      rw [dget_append_left _ _ _ (by
        intro p hp; obtain ⟨x, hx, hcx, rfl⟩ := hLkeys p hp; exact hnolink x hx hcx), hg1]
    · intro l hl hcl hln huniq
      unfold Gen.zoneInfoFile_get
      simp only [pure, Except.pure, hz, Option.or_none]
      have hlval : ∀ x : Member, x.linkname = m.name →
          okOr (fun zl => dgetR Z1 zl.linkname) x = { filename := m.name, data := some o } := by
        intro x hx; simp only [okOr, dgetR, hx, hg1]
      rw [dget_append_right _ _ _ { filename := m.name, data := some o }]
      apply dget_of_mem
      · rw [hL]; simp only [List.mem_map, List.mem_filter]
        exact ⟨l, ⟨hl, hcl⟩, by rw [hlval l hln]⟩
      · intro p hp hpk
        obtain ⟨x, hx, hcx, rfl⟩ := hLkeys p hp
        exact hlval x (huniq x hx hcx hpk)

/-- **load_paths_equal.** Whatever the load path — a file name, an open stream (any name, any `filename=` argument), a regular
    member of an archive that loads, a hard or symbolic link member pointing to it — the bytes `d` reach `_read_tzfile`
    unchanged and the zone object carries the SAME data: the model's `build r` whenever `decode d = r`. -/
theorem load_paths_equal (fs : FS) (d : Bytes) (r : TZ.Raw) (hd : TZ.decode d = .ok r)
    (p : String) (hp : fs p = some d) (nm fn fn' : Option String) (rp : String)
    (ms : List Member) (z : ZIF) (hinit : Gen.zoneInfoFile_init fs (some ms) = .ok z)
    (m : Member) (hm : m ∈ ms) (hk : m.kind = .file d) (hmeta : m.name ≠ "METADATA")
    (hsame : ∀ m' ∈ ms, m'.isfile = true → m'.name = m.name → m'.kind = .file d)
    (hnolink : ∀ l ∈ ms, (l.islnk || l.issym) = true → l.name ≠ m.name)
    (l : Member) (hl : l ∈ ms) (hcl : (l.islnk || l.issym) = true) (hln : l.linkname = m.name)
    (hluniq : ∀ l' ∈ ms, (l'.islnk || l'.issym) = true → l'.name = l.name → l'.linkname = m.name) :
    zoneOf (Gen.tzfile_init fs (.path p) fn) = .ok (some (TZ.build r)) ∧
    zoneOf (Gen.tzfile_init fs (.stream d nm rp) fn') = .ok (some (TZ.build r)) ∧
    zoneOf ((Gen.zoneInfoFile_get z m.name none).map (·.getD { filename := "", data := none })) = .ok (some (TZ.build r)) ∧
    zoneOf ((Gen.zoneInfoFile_get z l.name none).map (·.getD { filename := "", data := none })) = .ok (some (TZ.build r)) := by
  obtain ⟨o, ho, hv, _⟩ := read_tzfile_ok d r hd
  obtain ⟨o', ho', hg, hlk⟩ := archive_members fs ms z hinit m hm d hk hmeta hsame hnolink
  have : o' = o := by rw [ho] at ho'; exact (Except.ok.inj ho').symm
  subst this
  refine ⟨?_, ?_, ?_, ?_⟩
  · rw [gen_tzfile_init_path fs p d hp, ho]; simp [zoneOf, Except.map, hv]
  · rw [gen_tzfile_init_stream, ho]; simp [zoneOf, Except.map, hv]
  · rw [hg]; simp [zoneOf, Except.map, hv]
  · rw [hlk l hl hcl hln hluniq]; simp [zoneOf, Except.map, hv]

end C06
