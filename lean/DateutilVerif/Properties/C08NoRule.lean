/-
  Properties/C08NoRule.lean — C08 for TZ strings WITHOUT a rule part (`EST5EDT`, `EST5EDT3`, `LHST-10:30LHDT-11`).

  `tzstr._delta` has its own default-rule branch (`if not kwargs:`): daylight time starts on the first Sunday of April at 02:00
  standard time and ends on the last Sunday of October at 02:00 DAYLIGHT time — the end is converted to standard time with the
  zone's REAL saving (`seconds -= dst - std`), not with a fixed hour as `tzrange.__init__`'s own default (`hours=+1`) does.  The
  two agree only when the saving is one hour.  `Spelling` (C08.tzstr_render / tzstr_string_posix) always carries a rule part, so
  this branch is covered here:

  * `default_rule_delta` — for every pair of offsets the rule-less `_delta` equals the `_delta` of `M4.1.0/2` (start) and of
    `M10.5.0/2` (end), saving included;
  * `tzstr_norule_zone` — every string whose parse result has a daylight abbreviation and no rule part builds the zone of the
    POSIX specification `AAA<std>BBB<dst>,M4.1.0/2,M10.5.0/2`;
  * `tzstr_norule_posix` — hence (by `tzstr_posix_partial`) utcoffset / dst / tzname of such a zone are POSIX's for that
    specification at every instant, for every saving in (0, 2 h] (beyond 2 h the end time minus the saving leaves the day:
    D-C08-time-before-weekday's class).
  * `tzstr_norule_hours` — from the STRING for two whole tables: `AAA<h>BBB<h>` and `AAA-<h>BBB-<h>`, all hours 0..12 on both sides
    (338 strings: kernel evaluation of the parser, `norule_parse_table_uu/_mm`, then `tzstr_norule_zone`).
  For other rule-less spellings (minutes, four-digit offsets, other abbreviations) the step "this string parses to this result" is
  kernel evaluation for the sample strings below and the `tz.parse` / `tz.zone` correspondence on generated rule-less strings
  (harness/props/c08.py: gen_norule_spec); a `tzstr_render` for rule-less spellings with arbitrary digit tokens is not proved.
-/
import DateutilVerif.Properties.C08
import DateutilVerif.Proofs.TzStrTableNR1
import DateutilVerif.Proofs.TzStrTableNR2

namespace C08
open TzStr Posix

/-- the specification dateutil documents for a string without a rule part -/
def defaultSpec (std dst : Int) : Spec :=
  { stdOff := std, dstOff := dst, startRule := .M 4 1 0, startTime := 7200, endRule := .M 10 5 0, endTime := 7200 }

/-- **the default-rule branch of `tzstr._delta`**: no rule attributes at all ↦ the deltas of `M4.1.0/2` and `M10.5.0/2`, the
    end one shifted by the zone's real saving -/
theorem default_rule_delta (isend : Bool) (std dst : Int) :
    delta {} isend std dst = delta (attrOf (if isend then .M 10 5 0 else .M 4 1 0) (some 7200)) isend std dst := by
  cases isend <;> rfl

/-- the end delta is 02:00 DAYLIGHT time: `7200 - (dst - std)` seconds after midnight standard time on the last Sunday of
    October — not `tzrange`'s fixed `hours=+1` -/
theorem default_end_seconds (std dst : Int) :
    delta {} true std dst = .ok { month := some 10, day := some 31, weekday := some (6, -1), seconds := 7200 - (dst - std) } := rfl

/-- **string → zone for rule-less strings**: whatever the string, if its parse result carries both abbreviations, a standard
    offset and no rule attributes, `tzstr` builds the zone of `defaultSpec` (GMT/UTC sign flip and the default `std + 1 h`
    daylight offset included) -/
theorem tzstr_norule_zone_let (s : String) (posix : Bool) (res : Res) (sa da : String) (so : Int)
    (hp : parse s = .ok (some res)) (hu : res.anyUnused = false)
    (h1 : res.stdabbr = some sa) (h2 : res.dstabbr = some da) (hda : da.isEmpty = false) (h3 : res.stdoffset = some so)
    (hs : res.start = {}) (he : res.«end» = {}) :
    let stdV := if (sa == "GMT" || sa == "UTC") && !posix then so * (-1) else so
    let dstV := res.dstoffset.getD (stdV + 3600)
    tdCheck stdV = .ok () → tdCheck dstV = .ok () →
    ∃ z, tzstr s posix = .ok z ∧ IsZoneOf (defaultSpec stdV dstV) z ∧ z.stdAbbr = some sa ∧ z.dstAbbr = some da := by
  intro stdV dstV hb1 hb2
  have hsd := default_rule_delta false stdV dstV
  have hed := default_rule_delta true stdV dstV
  unfold tzstr
  simp only [hp, bind, Except.bind, hu, Bool.false_eq_true, if_false, h1, h2, h3, hda, Bool.not_false, hs, he]
  have hflip : ((some sa == some "GMT" || some sa == some "UTC") && !posix) = ((sa == "GMT" || sa == "UTC") && !posix) := by
    simp
  simp only [hflip]
  by_cases hf : ((sa == "GMT" || sa == "UTC") && !posix) = true
  · have e1 : stdV = so * (-1) := by simp only [stdV, hf, if_true]
    simp only [hf, if_true, Option.map_some, Option.getD_some, ← e1, hb1]
    cases hd : res.dstoffset with
    | some v =>
      have e2 : dstV = v := by simp [dstV, hd]
      rw [← e2]
      simp only [hb2, pure, Except.pure, Bool.not_true, Bool.false_eq_true, if_false]
      refine ⟨_, rfl, ⟨rfl, rfl, rfl, _, _, rfl, rfl, ?_, ?_⟩, rfl, rfl⟩
      · exact hsd.symm ▸ rfl
      · exact hed.symm ▸ rfl
    | none =>
      have e2 : dstV = stdV + 3600 := by simp [dstV, hd]
      simp only [Option.isSome_some, Bool.and_self, if_true, pure, Except.pure, Bool.not_true, Bool.false_eq_true, if_false]
      rw [← e2]
      refine ⟨_, rfl, ⟨rfl, rfl, rfl, _, _, rfl, rfl, ?_, ?_⟩, rfl, rfl⟩
      · exact hsd.symm ▸ rfl
      · exact hed.symm ▸ rfl
  · have hf' : ((sa == "GMT" || sa == "UTC") && !posix) = false := by simpa using hf
    have e1 : stdV = so := by simp only [stdV, hf', Bool.false_eq_true, if_false]
    simp only [hf', Bool.false_eq_true, if_false, Option.getD_some, ← e1, hb1]
    cases hd : res.dstoffset with
    | some v =>
      have e2 : dstV = v := by simp [dstV, hd]
      rw [← e2]
      simp only [hb2, pure, Except.pure, Bool.not_true, Bool.false_eq_true, if_false]
      refine ⟨_, rfl, ⟨rfl, rfl, rfl, _, _, rfl, rfl, ?_, ?_⟩, rfl, rfl⟩
      · exact hsd.symm ▸ rfl
      · exact hed.symm ▸ rfl
    | none =>
      have e2 : dstV = stdV + 3600 := by simp [dstV, hd]
      simp only [Option.isSome_some, Bool.and_self, if_true, pure, Except.pure, Bool.not_true, Bool.false_eq_true, if_false]
      rw [← e2]
      refine ⟨_, rfl, ⟨rfl, rfl, rfl, _, _, rfl, rfl, ?_, ?_⟩, rfl, rfl⟩
      · exact hsd.symm ▸ rfl
      · exact hed.symm ▸ rfl

/-- the same with the two offsets named -/
theorem tzstr_norule_zone (s : String) (posix : Bool) (res : Res) (sa da : String) (so : Int)
    (hp : parse s = .ok (some res)) (hu : res.anyUnused = false)
    (h1 : res.stdabbr = some sa) (h2 : res.dstabbr = some da) (hda : da.isEmpty = false) (h3 : res.stdoffset = some so)
    (hs : res.start = {}) (he : res.«end» = {})
    (stdV dstV : Int) (hstd : stdV = if (sa == "GMT" || sa == "UTC") && !posix then so * (-1) else so)
    (hdst : dstV = res.dstoffset.getD (stdV + 3600))
    (hb1 : tdCheck stdV = .ok ()) (hb2 : tdCheck dstV = .ok ()) :
    ∃ z, tzstr s posix = .ok z ∧ IsZoneOf (defaultSpec stdV dstV) z ∧ z.stdAbbr = some sa ∧ z.dstAbbr = some da := by
  subst hstd
  subst hdst
  exact tzstr_norule_zone_let s posix res sa da so hp hu h1 h2 hda h3 hs he hb1 hb2

/-- **rule-less string → lookup = POSIX default rule.**  With `tzstr_posix_partial`: for a rule-less string the converted
    datetime reports the offset / saving / abbreviation POSIX gives for `AAA<std>BBB<dst>,M4.1.0/2,M10.5.0/2`, for every saving
    in (0, 2 h] (the residual hypotheses are `tzstr_posix_partial`'s New-Year margin, D-C04y) -/
theorem tzstr_norule_posix (s : String) (posix : Bool) (res : Res) (sa da : String) (so : Int)
    (hp : parse s = .ok (some res)) (hu : res.anyUnused = false)
    (h1 : res.stdabbr = some sa) (h2 : res.dstabbr = some da) (hda : da.isEmpty = false) (h3 : res.stdoffset = some so)
    (hs : res.start = {}) (he : res.«end» = {})
    (stdV dstV : Int) (hstd : stdV = if (sa == "GMT" || sa == "UTC") && !posix then so * (-1) else so)
    (hdst : dstV = res.dstoffset.getD (stdV + 3600))
    (hb1 : tdCheck stdV = .ok ()) (hb2 : tdCheck dstV = .ok ())
    (hsav0 : stdV < dstV) (hsav2 : dstV - stdV ≤ 7200)
    (t Y m : Int) (hY : TZ.yearOf t = Y) (hY1 : 3 ≤ Y) (hY2 : Y ≤ 9997)
    (m1 : -m ≤ stdV) (m2 : stdV ≤ m) (m3 : -m ≤ dstV) (m4 : dstV ≤ m) (m5 : dstV - stdV ≤ m)
    (i0 : TZ.InsideM (defaultSpec stdV dstV) (Y - 1) m) (i1 : TZ.InsideM (defaultSpec stdV dstV) Y m)
    (i2 : TZ.InsideM (defaultSpec stdV dstV) (Y + 1) m)
    (o0 : startUtc (defaultSpec stdV dstV) (Y - 1) < endUtc (defaultSpec stdV dstV) (Y - 1) ↔
          startUtc (defaultSpec stdV dstV) Y < endUtc (defaultSpec stdV dstV) Y)
    (o2 : startUtc (defaultSpec stdV dstV) (Y + 1) < endUtc (defaultSpec stdV dstV) (Y + 1) ↔
          startUtc (defaultSpec stdV dstV) Y < endUtc (defaultSpec stdV dstV) Y) :
    ∃ z w, tzstr s posix = .ok z ∧ (TZ.ofTzStr z).fromutc t = .ok w ∧
      (TZ.ofTzStr z).utcoffset w = .ok (Posix.offsetAt (defaultSpec stdV dstV) (t + TZ.epochShift)) ∧
      (TZ.ofTzStr z).dst w = .ok (if Posix.isDstAt (defaultSpec stdV dstV) (t + TZ.epochShift) then dstV - stdV else 0) ∧
      (TZ.ofTzStr z).tzname w = .ok (if Posix.isDstAt (defaultSpec stdV dstV) (t + TZ.epochShift)
        then TZ.abbrBytes (some da) else TZ.abbrBytes (some sa)) := by
  obtain ⟨z, hz1, hz2, hz3, hz4⟩ := tzstr_norule_zone s posix res sa da so hp hu h1 h2 hda h3 hs he stdV dstV hstd hdst hb1 hb2
  have hvs : ValidRule (defaultSpec stdV dstV).startRule := by simp [defaultSpec, ValidRule]
  have hve : ValidRule (defaultSpec stdV dstV).endRule := by simp [defaultSpec, ValidRule]
  have ht : InRangeTimes (defaultSpec stdV dstV) := by
    simp only [InRangeTimes, defaultSpec, InRangeTime]
    omega
  obtain ⟨w, w1, w2, w3, w4⟩ := tzstr_posix_partial (defaultSpec stdV dstV) z hz2 hvs hve ht hsav0 t Y m hY hY1 hY2
    m1 m2 m3 m4 m5 i0 i1 i2 o0 o2
  rw [hz3, hz4] at w4
  exact ⟨z, w, hz1, w1, w2, w3, w4⟩

/-- from the table predicate to the hypotheses of `tzstr_norule_zone` -/
theorem noRuleRes_spec {s sa da : String} {so : Int} {d : Option Int} (h : noRuleRes s sa da so d = true) :
    ∃ res, parse s = .ok (some res) ∧ res.anyUnused = false ∧ res.stdabbr = some sa ∧ res.dstabbr = some da ∧
      res.stdoffset = some so ∧ res.dstoffset = d ∧ res.start = {} ∧ res.«end» = {} := by
  unfold noRuleRes at h
  split at h
  · rename_i r hp
    simp only [Bool.and_eq_true, beq_iff_eq, Bool.not_eq_true'] at h
    obtain ⟨⟨⟨⟨⟨⟨h1, h2⟩, h3⟩, h4⟩, h5⟩, h6⟩, h7⟩ := h
    exact ⟨r, hp, h7, h1, h2, h3, h4, h5, h6⟩
  · cases h

/-- **whole tables, string → zone**: for all hours 0..12 on both sides, unsigned (`AAA5BBB3`, west of Greenwich) or with `-`
    (`AAA-2BBB-4`, east), `tzstr` of the rule-less STRING builds the zone of `AAA<std>BBB<dst>,M4.1.0/2,M10.5.0/2` (338 strings
    by kernel evaluation of the parser, then `tzstr_norule_zone`) -/
theorem tzstr_norule_hours (east : Bool) (a b : Fin 13) :
    let sg := if east then "-" else ""
    ∃ z, tzstr (nrString sg a.val sg b.val) false = .ok z ∧ IsZoneOf (defaultSpec (nrVal sg a.val) (nrVal sg b.val)) z := by
  intro sg
  have hb : ∀ h : Fin 13, tdCheck (nrVal sg h.val) = .ok () := by
    intro h; cases east <;> (revert h; decide +kernel)
  have key : noRuleRes (nrString sg a.val sg b.val) "AAA" "BBB" (nrVal sg a.val) (some (nrVal sg b.val)) = true := by
    cases east
    · exact norule_parse_table_uu a b
    · exact norule_parse_table_mm a b
  obtain ⟨res, hp, hu, h1, h2, h3, h4, hs, he⟩ := noRuleRes_spec key
  obtain ⟨z, hz1, hz2, _, _⟩ := tzstr_norule_zone _ false res "AAA" "BBB" (nrVal sg a.val) hp hu h1 h2 (by decide) h3 hs he
    (nrVal sg a.val) (nrVal sg b.val)
    (by have : (("AAA" == "GMT" || "AAA" == "UTC") && !false) = false := by decide
        simp only [this, Bool.false_eq_true, if_false])
    (by rw [h4]; rfl) (hb a) (hb b)
  exact ⟨z, hz1, hz2⟩

/-! non-vacuity: rule-less strings with a saving other than one hour parse to rule-less results (kernel evaluation) -/
example : noRuleRes "EST5EDT3" "EST" "EDT" (-18000) (some (-10800)) = true := by decide +kernel
example : noRuleRes "LHST-10:30LHDT-11" "LHST" "LHDT" 37800 (some 39600) = true := by decide +kernel
example : noRuleRes "AAA-2BBB-2:20" "AAA" "BBB" 7200 (some 8400) = true := by decide +kernel
example : noRuleRes "EST5EDT" "EST" "EDT" (-18000) none = true := by decide +kernel
/-- `EST5EDT3`: daylight time ends at 02:00 EDT = 00:00 EST (7200 − 7200 s after midnight standard time), not at 01:00 EST -/
example : (tzstr "EST5EDT3" false).map (fun z => z.«end».map (·.seconds)) = .ok (some 0) := by decide +kernel
example : (tzstr "LHST-10:30LHDT-11" false).map (fun z => z.«end».map (·.seconds)) = .ok (some 5400) := by decide +kernel

end C08
