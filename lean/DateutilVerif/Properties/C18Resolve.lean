/-
  Properties/C18Resolve.lean — the name-resolution cascade of `tz.gettz` is tied to the SOURCE: `Gen.nocache`
  (Generated/GettzNocache.lean) is re-translated from `GettzFunc.nocache` (src/dateutil/tz/tz.py, 62 statements, four `for`
  loops with break / continue / else, five try blocks) by harness/translate_gettz.py on every run, as a function of the
  abstract environment `Gettz.Env` (TZ variable, TZFILES, TZPATHS, `os.path.isfile`, the outcome of `tzfile(path)`,
  `time.tzname`, the vendored database, whether `tzstr.instance` accepts the string).  It is proved EQUAL to the model
  `Gettz.resolve` that C18's theorems (`resolve_*`, `gettz_caches_exactly`, the factory machine's `res`) are about.
-/
import DateutilVerif.Proofs.GettzGenEq

namespace C18
open Gettz

/-- **gen_nocache_eq_resolve.** For every environment and every name (None or any str) the translated `nocache` returns what the
    resolution model returns: the same zone description, None, or the same escaping exception kind. -/
theorem gen_nocache_eq_resolve (e : Env) (name : Option String) : Gen.nocache e name = resolve e name :=
  GzG.nocache_eq e name

/-- the four translated loops are the model's loops (what the equality rests on) -/
theorem gen_nocache_loops (e : Env) (name : String) (l : List String) (cs : List Char) (tz0 : Resolution) :
    Gen.nocache_loop2 e l tz0 = GzG.wrapLocal tz0 (localLoop e l) ∧
    Gen.nocache_loop3 e name l tz0 =
      (match searchLoop e name l with
       | .ok (some p) => .ok (true, .file p)
       | .ok none => .ok (false, tz0)
       | .error x => .error x) ∧
    Gen.nocache_loop4 e name cs tz0 =
      (if cs.any GzPy.isDigit = true then .ok (true, (GzPy.tzstrInstance e name).getD tz0) else .ok (false, tz0)) :=
  ⟨GzG.loop2_eq e l tz0, GzG.loop3_eq e name l tz0, GzG.loop4_eq e name cs tz0⟩

/-- hence every resolution fact of C18 holds of the translated cascade, e.g.: with `TZ` set to a non-empty value other than
    ':' the translated `gettz()` / `gettz('')` resolve exactly like `gettz(TZ)` -/
theorem gen_nocache_uses_TZ (e : Env) (v : String) (hv : e.tzVar = some v) (h1 : v ≠ "") :
    Gen.nocache e none = Gen.nocache e (some v) ∧ Gen.nocache e (some "") = Gen.nocache e (some v) := by
  simp only [gen_nocache_eq_resolve]
  have hne : v.isEmpty = false := by
    cases hh : v.isEmpty
    · rfl
    · exact absurd ((GzG.isEmpty_iff v).1 hh) h1
  constructor <;> simp [resolve, effectiveName, hv, hne]

-- non-vacuity: a concrete environment (one zone file under the second search path, spelt with an underscore)
example :
    Gen.nocache { tzVar := none, tzfiles := ["/etc/localtime"], tzpaths := ["/a", "/b"],
                  isfile := fun p => p == "/b/New_York", load := fun _ => .ok, tzname := ["UTC"],
                  vendored := fun _ => false, tzstrOk := fun _ => true } (some ":New York")
      = .ok (.file "/b/New_York") := by decide +kernel
example :
    Gen.nocache { tzVar := some "EST5EDT", tzfiles := [], tzpaths := [], isfile := fun _ => false, load := fun _ => .ok,
                  tzname := [], vendored := fun _ => false, tzstrOk := fun _ => true } none
      = .ok (.tzstr "EST5EDT") := by decide +kernel

end C18
