/- Properties/TzObjGen.lean — the translator tie for the zone-construction / component-selection code of tz/tz.py
   (wt-iso): `gen_eq_model_*` obligations stating that the functions RE-TRANSLATED from the source on every run
   (Generated/TzObjKernels.lean, harness/translate_obj.py) equal the hand models of Model/ICal.lean (C17) and
   Model/TzStr.lean / Model/TzRange.lean (C08).  Listed in Audit/C17.lean and Audit/C08.lean. -/
import DateutilVerif.Proofs.TzObjEqICal
import DateutilVerif.Proofs.TzObjEqStr
import DateutilVerif.Proofs.TzStrWk
import DateutilVerif.Proofs.TzObjEqLocal
import DateutilVerif.Properties.TzGen

open Py DtPy ObjPy TzGen

namespace C17
open ICal

/-- `tzical._parse_offset` -/
theorem gen_eq_model_parse_offset (s : List Char) : Gen.tzical_parseOffset s = ICal.parseOffset s :=
  parseOffset_eq s

/-- `_tzicalvtz._find_compdt` (datetimes with microseconds; the result is the onset as a naive datetime) -/
theorem gen_eq_model_find_compdt (comps : List ZComp) (c : ZComp) (w f : Int) (fold att : Bool) (h0 : 0 ≤ f) (h1 : f < M) :
    Gen.tzicalvtz_findCompdt comps c (D w f fold att) = .ok ((ICal.findCompdt c w fold).map Dn0) :=
  findCompdt_eq comps c w f fold att h0 h1

/-- `_tzicalvtz._find_comp`, result AND both cache lists: from the images `cdOf/ccOf` of any model cache the
    translated function returns the component `findCompCached` selects and leaves the images of its new cache
    (`_cachedate` / `_cachecomp` entry by entry, most recent first, at most ten).  `f` is the microsecond part
    shared by the query and the cached keys (0 for the model's whole-second domain). -/
theorem gen_eq_model_find_comp (comps : List ZComp) (hne : comps ≠ []) (cache : Cache) (w f : Int) (fold att : Bool)
    (h0 : 0 ≤ f) (h1 : f < M) :
    Gen.tzicalvtz_findComp comps (cdOf f cache) (ccOf comps cache) (D w f fold att) =
      .ok (some (comps.getD (findCompCached comps cache w fold).1 default),
           cdOf f (findCompCached comps cache w fold).2, ccOf comps (findCompCached comps cache w fold).2) :=
  findComp_eq comps hne cache w f fold att h0 h1

/-- the uncached selection (`findCompIdx` = `selStep` fold + first-STANDARD fallback) is what the translated
    function computes from empty cache lists -/
theorem gen_eq_model_find_comp_idx (comps : List ZComp) (hne : comps ≠ []) (w f : Int) (fold att : Bool)
    (h0 : 0 ≤ f) (h1 : f < M) :
    (Gen.tzicalvtz_findComp comps [] [] (D w f fold att)).map (·.1) =
      .ok (some (comps.getD (findCompIdx comps w fold) default)) := by
  have h := findComp_eq comps hne [] w f fold att h0 h1
  have hs := (findCompCached_spec comps [] w fold (by intro e he; cases he)).1
  simp only [cdOf, ccOf, List.map_nil] at h
  rw [h, hs]; rfl

/-- `_tzicalvtz.utcoffset` / `dst` through a cache satisfying the model's invariant -/
theorem gen_eq_model_utcoffset (comps : List ZComp) (hne : comps ≠ []) (cache : Cache) (hinv : CacheInv comps cache)
    (w f : Int) (fold att : Bool) (h0 : 0 ≤ f) (h1 : f < M) :
    Gen.tzicalvtz_utcoffset comps (cdOf f cache) (ccOf comps cache) (D w f fold att) =
      .ok (tdSeconds (ICal.utcoffset comps w fold),
           cdOf f (findCompCached comps cache w fold).2, ccOf comps (findCompCached comps cache w fold).2) :=
  ical_utcoffset_eq comps hne cache hinv w f fold att h0 h1

theorem gen_eq_model_dst (comps : List ZComp) (hne : comps ≠ []) (cache : Cache) (hinv : CacheInv comps cache)
    (w f : Int) (fold att : Bool) (h0 : 0 ≤ f) (h1 : f < M) :
    Gen.tzicalvtz_dst comps (cdOf f cache) (ccOf comps cache) (D w f fold att) =
      .ok (tdSeconds (ICal.dst comps w fold),
           cdOf f (findCompCached comps cache w fold).2, ccOf comps (findCompCached comps cache w fold).2) :=
  ical_dst_eq comps hne cache hinv w f fold att h0 h1

/-- `_tzicalvtz.tzname`: tzname is the selected component's TZNAME (`names`: the TZNAME field of the component objects,
    which `ICal.ZComp` does not carry); the selection is `findCompIdx` -/
theorem gen_eq_model_tzname (comps : List ZComp) (names : ZComp → Option (List Char)) (hne : comps ≠ []) (cache : Cache)
    (hinv : CacheInv comps cache) (w f : Int) (fold att : Bool) (h0 : 0 ≤ f) (h1 : f < M) :
    Gen.tzicalvtz_tzname comps names (cdOf f cache) (ccOf comps cache) (D w f fold att) =
      .ok (names (comps.getD (findCompIdx comps w fold) default),
           cdOf f (findCompCached comps cache w fold).2, ccOf comps (findCompCached comps cache w fold).2) :=
  ical_tzname_eq comps names hne cache hinv w f fold att h0 h1

/-- C17.cache_transparent's step about the TRANSLATED function: with the model's invariant the translated `_find_comp`
    answers like the uncached selection -/
theorem cache_step_gen (comps : List ZComp) (hne : comps ≠ []) (cache : Cache) (hinv : CacheInv comps cache)
    (w f : Int) (fold att : Bool) (h0 : 0 ≤ f) (h1 : f < M) :
    (Gen.tzicalvtz_findComp comps (cdOf f cache) (ccOf comps cache) (D w f fold att)).map (·.1) =
      .ok (some (comps.getD (findCompIdx comps w fold) default)) := by
  rw [findComp_eq comps hne cache w f fold att h0 h1, (findCompCached_spec comps cache w fold hinv).1]; rfl

end C17

namespace C08
open TzStr

/-- `tzrange.__init__` (int-or-None offsets, relativedelta-or-None rules); the object is read by `ObjPy.zoneOf` -/
theorem gen_eq_model_tzrange_init (sa : Option String) (so : Option Int) (da : Option String) (d : Option Int)
    (st en : Option Delta) :
    (Gen.tzrange_init sa so da d (DArg.ofOpt st) (DArg.ofOpt en)).map zoneOf = TzStr.tzrange sa so da d st en :=
  tzrange_init_eq sa so da d st en

/-- `tzstr._delta` (kwargs dictionary and `relativedelta(**kwargs)`); `hwk`: a rule with a weekday has a week, as
    the parser guarantees (otherwise the implementation raises TypeError on `None > 0`, the model does not) -/
theorem gen_eq_model_tzstr_delta (x : Attr) (isend : Bool) (stdOff dstOff : Int)
    (hwk : x.month.isSome → x.weekday.isSome → x.week.isSome) :
    Gen.tzstr_delta (stdOff * M) (dstOff * M) x (b2i isend) = TzStr.delta x isend stdOff dstOff :=
  tzstr_delta_eq x isend stdOff dstOff hwk

/-- `tzrange.transitions`; `hz`: a zone with DST has both rules (otherwise the implementation raises TypeError on
    `datetime + None`, the model answers None) -/
theorem gen_eq_model_transitions (z : Zone) (year : Int) (hz : z.hasdst = true → z.start.isSome ∧ z.«end».isSome) :
    Gen.tzrange_transitions z year = TzStr.transitions z year :=
  tzrange_transitions_eq z year hz

/-- `tzstr.__init__`: the GMT/UTC sign flip, the base-class constructor called with `start=False, end=False`, `_delta`
    for both rules, the falsy-start-delta corner and `hasdst`; `parser._parsetz` is the model's parser.  No residual
    hypothesis: `parse_weekday_has_week` shows the parser's rules with a weekday have a week. -/
theorem gen_eq_model_tzstr_init (s : String) (posix : Bool) :
    (Gen.tzstr_init s posix).map zoneOf = TzStr.tzstr s posix :=
  tzstr_init_eq s posix (fun res h => parse_W s res h)

/-- the parser invariant used above: every rule record `TzStr.parse` returns with a weekday has a week -/
theorem parse_weekday_has_week (s : String) (res : Res) (h : TzStr.parse s = .ok (some res)) :
    (res.start.weekday.isSome → res.start.week.isSome) ∧ (res.«end».weekday.isSome → res.«end».week.isSome) :=
  parseTokens_W _ _ h

/-- `tzrange.__eq__` -/
theorem gen_eq_model_zone_eq (a b : Zone) : Gen.tzrange_eq a b = .ok (zoneEq a b) := tzrange_eq_eq a b

end C08

/-! ### tzlocal (the zone record is the yearly rule the C library follows: `TZ.RangeZone`) -/

namespace C08
open TZ

theorem gen_eq_model_tzlocal_naive_is_dst (z : RangeZone) (w f : Int) (fold att : Bool) (h0 : 0 ≤ f) (h1 : f < M) :
    Gen.tzlocal_naiveIsDst z (D w f fold att) = .ok (b2i (localNaiveIsdst z w)) :=
  local_naive_eq z w f fold att h0 h1

theorem gen_eq_model_tzlocal_isdst (z : RangeZone) (w f : Int) (fold att fn : Bool) (h0 : 0 ≤ f) (h1 : f < M) :
    Gen.tzlocal_isdst z (D w f fold att) fn = .ok (b2i (localIsdst z ⟨w, fold⟩)) :=
  local_isdst_eq z w f fold att fn h0 h1

theorem gen_eq_model_tzlocal_utcoffset (z : RangeZone) (w f : Int) (fold att : Bool) (h0 : 0 ≤ f) (h1 : f < M) :
    Gen.tzlocal_utcoffset z (D w f fold att) = .ok (tdSeconds ((localZone z).utcoffset ⟨w, fold⟩)) ∧
    Gen.tzlocal_dst z (D w f fold att) = .ok (tdSeconds ((localZone z).dst ⟨w, fold⟩)) :=
  ⟨local_utcoffset_eq z w f fold att h0 h1, local_dst_eq z w f fold att h0 h1⟩

/-- `tzlocal.tzname`: `time.tzname[isdst]` (the model carries no names for tzlocal) -/
theorem gen_eq_model_tzlocal_tzname (z : RangeZone) (w f : Int) (fold att : Bool) (h0 : 0 ≤ f) (h1 : f < M) :
    Gen.tzlocal_tzname z (D w f fold att) = .ok (if localIsdst z ⟨w, fold⟩ then z.dstAbbr else z.stdAbbr) :=
  local_tzname_eq z w f fold att h0 h1

end C08

namespace C05
open TZ

theorem gen_eq_model_tzlocal_is_ambiguous (z : RangeZone) (w f : Int) (fold att : Bool) (h0 : 0 ≤ f) (h1 : f < M) :
    Gen.tzlocal_isAmbiguous z (D w f fold att) = .ok (localIsAmbiguous z w) ∧
    Gen.tzlocal_isAmbiguous z (D w f fold att) = .ok ((localZone z).isAmbiguous w) :=
  ⟨local_isAmbiguous_eq z w f fold att h0 h1, local_isAmbiguous_eq z w f fold att h0 h1⟩

theorem gen_eq_model_tzlocal_isdst (z : RangeZone) (w f : Int) (fold att fn : Bool) (h0 : 0 ≤ f) (h1 : f < M) :
    Gen.tzlocal_isdst z (D w f fold att) fn = .ok (b2i (localIsdst z ⟨w, fold⟩)) :=
  local_isdst_eq z w f fold att fn h0 h1

end C05

namespace C04
open TZ

/-- `@_validate_fromutc_inputs`: ValueError unless the datetime is attached to the zone, otherwise the wrapped method -/
theorem gen_eq_model_validate_fromutc_inputs (g : Dt → R Dt) (d : Dt) :
    Gen.validateFromutcInputs g d = if d.attached then g d else .error .ValueError :=
  validate_eq g d

/-- the PUBLIC `fromutc` of the three zone families = decorator ∘ translated body: equal to the model on attached
    datetimes, ValueError on a datetime of another zone (or naive) -/
theorem gen_eq_model_fromutc_decorated (zr : RangeZone) (zg : GenericZone) (t f : Int) (h0 : 0 ≤ f) (h1 : f < M) :
    Gen.validateFromutcInputs (Gen.tzrange_fromutc zr) (D t f false true) =
      ((zr.fromutc t).map fun w => D w.wall f w.fold true) ∧
    Gen.validateFromutcInputs (Gen.tzinfo_fromutc zg) (D t f false true) =
      .ok (D (zg.fromutc t).wall f (zg.fromutc t).fold true) ∧
    (∀ g fold, Gen.validateFromutcInputs g (D t f fold false) = .error .ValueError) := by
  refine ⟨?_, ?_, fun g fold => validate_detached g t f fold⟩
  · rw [validate_attached]; exact range_fromutc_eq zr t f h0 h1
  · rw [validate_attached]; exact generic_fromutc_eq zg t f true h0 h1

theorem gen_eq_model_tzfile_fromutc_decorated (r : TZ.Raw) (hwf : Spec.wf r = true) (hne : r.trans ≠ []) (t f : Int)
    (h0 : 0 ≤ f) (h1 : f < M) :
    Gen.validateFromutcInputs (Gen.tzfile_fromutc (build r)) (D t f false true) =
      (TZ.fromutc (build r) t).map fun w => D w.wall f w.fold true := by
  rw [validate_attached]; exact C04.gen_eq_model_fromutc r hwf hne t f h0 h1

/-- the offsets the generic `_tzinfo.fromutc` (C04.gen_eq_model_tzinfo_fromutc) reads for a tzlocal -/
theorem gen_eq_model_tzlocal_utcoffset (z : RangeZone) (w f : Int) (fold att : Bool) (h0 : 0 ≤ f) (h1 : f < M) :
    Gen.tzlocal_utcoffset z (D w f fold att) = .ok (tdSeconds ((localZone z).utcoffset ⟨w, fold⟩)) ∧
    Gen.tzlocal_dst z (D w f fold att) = .ok (tdSeconds ((localZone z).dst ⟨w, fold⟩)) :=
  ⟨local_utcoffset_eq z w f fold att h0 h1, local_dst_eq z w f fold att h0 h1⟩

end C04
