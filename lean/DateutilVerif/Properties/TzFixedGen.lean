/-
  Properties/TzFixedGen.lean — obligations that tie C04 (fixed-zone model) and C18 (the cross-type `__eq__` table) to the
  CURRENT source of `tzutc` and `tzoffset`: `utcoffset`, `dst`, `tzname`, `is_ambiguous`, the body of `fromutc`, `__eq__`,
  `tzoffset.__init__` (number or timedelta) and `_get_supported_offset` are re-translated from tz/tz.py on every run
  (harness/translate_tzhelp.py → Generated/TzFixedKernels.lean) and proved equal to `TZ.FixedZone` / `Fact.eqMethod`; the
  class-level facts `__hash__ = None`, `__reduce__ = object.__reduce__` (the premise of Model/Reduce.lean) and
  `__ne__ = not __eq__` are read off the source as constants.
-/
import DateutilVerif.Properties.C04
import DateutilVerif.Generated.TzFixedKernels

set_option linter.unusedSimpArgs false
set_option linter.unusedVariables false

open TZ Py HelpPy

namespace C04

/-- the model zone of a `tzoffset` object -/
def fixedOf (z : Fixed) : FixedZone := ⟨z.offset, z.name⟩

theorem gen_eq_model_get_supported_offset (x : Int) : Gen.getSupportedOffset x = .ok x := rfl

/-- **gen_tzoffset_init_eq_model.** `tzoffset(name, offset)` stores the name and the offset in seconds, whether `offset` is
    a number or a timedelta (`total_seconds()`; the AttributeError of a number is swallowed). -/
theorem gen_tzoffset_init_eq_model (name : Option (List UInt8)) (s : Int) :
    Gen.tzoffset_init name (.num s) = .ok ⟨name, s⟩ ∧ Gen.tzoffset_init name (.td s) = .ok ⟨name, s⟩ := ⟨rfl, rfl⟩

/-- **gen_tzoffset_methods_eq_model.** The translated methods of `tzoffset` are the fixed-zone model. -/
theorem gen_tzoffset_methods_eq_model (z : Fixed) (d : HDt) :
    Gen.tzoffset_utcoffset z d = .ok ((fixedOf z).utcoffset ⟨d.wall, d.fold⟩) ∧
    Gen.tzoffset_dst z d = .ok ((fixedOf z).dst ⟨d.wall, d.fold⟩) ∧
    Gen.tzoffset_tzname z d = .ok (fixedOf z).name ∧
    Gen.tzoffset_isAmbiguous z d = .ok ((fixedOf z).isAmbiguous d.wall) ∧
    (Gen.tzoffset_fromutc z d).map (fun r => (⟨r.wall, r.fold⟩ : Wall)) = .ok ((fixedOf z).fromutc d.wall) ∧
    (Gen.tzoffset_fromutc z d).map (·.tz) = .ok d.tz :=
  ⟨rfl, rfl, rfl, rfl, rfl, rfl⟩

/-- **gen_tzutc_methods_eq_model.** `tzutc` is the fixed zone with offset 0 named "UTC"; `fromutc` returns its argument. -/
theorem gen_tzutc_methods_eq_model (d : HDt) :
    Gen.tzutc_utcoffset d = .ok 0 ∧ Gen.tzutc_dst d = .ok 0 ∧ Gen.tzutc_tzname d = .ok (some [85, 84, 67]) ∧
    Gen.tzutc_isAmbiguous d = .ok false ∧ Gen.tzutc_fromutc d = .ok d := ⟨rfl, rfl, rfl, rfl, rfl⟩

/-- **roundtrip_fixed_gen.** UTC → local → UTC on the TRANSLATED `tzoffset` methods: the offset reported for the converted
    datetime is `wall − utc`. -/
theorem roundtrip_fixed_gen (z : Fixed) (t : Int) (dz : Option HelpPy.Zone) :
    ∃ r, Gen.tzoffset_fromutc z { wall := t, fold := false, tz := dz } = .ok r ∧
      Gen.tzoffset_utcoffset z r = .ok (r.wall - t) ∧ r.fold = false := by
  refine ⟨addTd { wall := t, fold := false, tz := dz } z.offset, rfl, ?_, rfl⟩
  show Except.ok z.offset = Except.ok (t + z.offset - t)
  congr 1; omega

end C04
