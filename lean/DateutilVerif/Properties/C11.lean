/-
  Properties/C11.lean — cached recurrences behave like uncached ones under any interleaving.

  The machine (`Cache.step`, Model/Cache.lean) runs any number of threads over one cached rule
  whose underlying generator yields an arbitrary finite list `src`; a *schedule* is an arbitrary
  list of thread ids (no pre-emption bound, no fairness assumption in the safety part).  Every
  thread is a consumer (`Queries.Query`): plain iteration, `islice`, or one of the query methods
  with its fast path and its early exit.

  * `inv_step`      the invariant is preserved by every statement of every thread;
  * `safety`        in every reachable state every iterator has received a prefix of `src`, in
                    order, and no exception has escaped (no IndexError at `cache[i]`, no
                    TypeError at `i < self._len`);
  * `no_deadlock`   in every reachable state, if some thread is unfinished then some thread is
                    enabled (the holder of the lock is always inside the critical section and
                    can move);
  * `progress`      every executed statement decreases a natural-number measure, hence every
                    execution of enabled threads is finite (`exec_bound`);
  * `all_complete`  a state in which no thread can move (which every such execution reaches)
                    has every thread finished, plain iterators with `yielded = src`, and
  * `finished_answer` every finished thread — under any schedule, fast path or generator path,
                    early exit or exhaustion — holds the answer Python list semantics gives on
                    `src` (this is C12's cache/history independence in its strongest form).

  HOW THE UNDERLYING GENERATOR ENDS is a parameter of the machine (`Shared.endErr`): after yielding `src` it either
  raises StopIteration (publishing `_len`) or raises some other exception E.  Line 138 has the three outcomes
  (`Cache.step138`: next value / StopIteration / E).  Since the repair of D-C11-genraise in /repo (`_restartable`:
  a generator that died of E is replaced by a fresh one at the same position; an error met while reading ahead is
  reported when the failing position itself is requested) every theorem below holds for BOTH endings — the former
  hypothesis `SInv.noraise` is gone: `safety` (no exception of the caching code's own: no IndexError at `cache[i]`,
  no TypeError at `i < self._len`), `no_deadlock`, `progress`, and `finished_answer` with the answer
  `specE q src e` = list semantics when the generator ends normally, and for a raising generator exactly what the
  UNCACHED object gives (`specE_eq_uncached`: all of `src` value by value, then E, unless the consumer stopped
  before) — under any interleaving, and call after call on the same object (`genraise_history`, which replaces the
  negation theorem `genraise_cached_differs` of the unrepaired code).  Granularity on the raising path: the
  handler statements (they touch only locals and the lock) are one step with the raise.

  On the tree before fix a459cd4 (no `finally: release()`), the same model has a reachable
  deadlock; the harness keeps replaying that schedule on the implementation (c11.py sample).
-/
import DateutilVerif.Proofs.CacheGlobal
import DateutilVerif.Model.CacheNested
import DateutilVerif.Proofs.CacheNestedStep
import DateutilVerif.Proofs.CacheNestedInit
import DateutilVerif.Proofs.CacheNestedProgress
import DateutilVerif.Generated.RRBaseCache
import DateutilVerif.Generated.RSetMerge

namespace C11
open Cache Queries

/-- states reachable from a fresh cached rule over `src` — its generator ending by StopIteration (`e = none`) or by
    raising `e` — with one thread per query in `qs` -/
inductive ReachableE (src : List Int) (e : Option Py.PyErr) (qs : List Query) : State → Prop
  | init : ReachableE src e qs (init src qs e)
  | step {s s' : State} {t : Tid} : ReachableE src e qs s → step s t = some s' → ReachableE src e qs s'

/-- … over a generator that ends normally -/
abbrev Reachable (src : List Int) (qs : List Query) : State → Prop := ReachableE src none qs

/-- **inv_step.** -/
theorem inv_step {s s' : State} {t : Tid} (hi : Inv s) (h : step s t = some s') : Inv s' :=
  inv_step' hi h

theorem reachable_inv {src e qs s} (h : ReachableE src e qs s) : Inv s ∧ s.sh.src = src ∧ s.sh.endErr = e := by
  induction h with
  | init => exact ⟨inv_init src qs e, rfl, rfl⟩
  | step _ hs ih => exact ⟨inv_step ih.1 hs, (measure_step ih.1 hs).2.trans ih.2.1, (RSet.step_endErr ih.1 hs).trans ih.2.2⟩

/-- any schedule (list of thread ids; disabled threads skip their turn) stays inside `Reachable` -/
theorem reachable_run {src e qs} (sched : List Tid) {s} (h : ReachableE src e qs s) :
    ReachableE src e qs (run s sched) := by
  induction sched generalizing s with
  | nil => exact h
  | cons t ts ih =>
    unfold run
    cases hs : step s t with
    | none => exact ih h
    | some s' => exact ih (ReachableE.step h hs)

/-- **safety.** Every iterator's received values are a prefix of `src` (never longer, never
    reordered), and the caching code raised nothing of its own (no IndexError at `cache[i]`, no TypeError at
    `i < self._len`; the generator's own exception E, if it raises, is the consumer's RESULT: `finished_answer`)
    — any number of iterators, any schedule, either ending of the generator. -/
theorem safety {src e qs s} (h : ReachableE src e qs s) (t : Tid) (it : Iter) (hit : s.its[t]? = some it) :
    it.yielded <+: src ∧ it.crash = none := by
  obtain ⟨hi, hsrc, _⟩ := reachable_inv h
  obtain ⟨hc, hl⟩ := hi.linv t it hit
  refine ⟨?_, hc⟩
  rw [← hsrc]
  cases hpc : it.pc <;> rw [hpc] at hl <;> simp only [Y] at hl
  all_goals first
    | (rw [hl.1]; exact List.nil_prefix)
    | (rw [hl.1.1]; exact List.take_prefix _ _)
    | (rw [← hl.1]; exact List.prefix_append _ _)
    | exact hl.1

/-- **no_deadlock.** If some thread is unfinished, some thread is enabled. -/
theorem no_deadlock {src e qs s} (h : ReachableE src e qs s)
    (hun : ∃ (t : Tid) (it : Iter), s.its[t]? = some it ∧ it.pc ≠ .done) : ∃ t, (step s t).isSome := by
  obtain ⟨hi, _, _⟩ := reachable_inv h
  have enabled : ∀ (t : Tid) (it : Iter), s.its[t]? = some it → it.pc ≠ .done → (it.pc = .l132 → s.sh.lock = none) →
      (step s t).isSome := by
    intro t it hit hnd hfree
    unfold step
    rw [hit]
    simp only []
    cases hst : stepIter s.sh t it with
    | some p => simp
    | none =>
      rcases stepIter_none hst with hd | ⟨h132, hl⟩
      · exact absurd hd hnd
      · exact absurd (hfree h132) hl
  cases hlock : s.sh.lock with
  | none =>
    obtain ⟨t, it, hit, hnd⟩ := hun
    exact ⟨t, enabled t it hit hnd (fun _ => hlock)⟩
  | some o =>
    obtain ⟨ito, hito⟩ := hi.owner o hlock
    have hcrit := (hi.lockinv o ito hito).mpr hlock
    refine ⟨o, enabled o ito hito ?_ ?_⟩
    · intro hd; rw [hd] at hcrit; simp [PC.inCrit] at hcrit
    · intro h132; rw [h132] at hcrit; simp [PC.inCrit] at hcrit

/-- **progress.** Every executed statement decreases the measure. -/
theorem progress {src e qs s s'} {t : Tid} (h : ReachableE src e qs s) (hs : step s t = some s') :
    measure s' < measure s :=
  (measure_step (reachable_inv h).1 hs).1

/-- hence every execution that only schedules enabled threads is finite: its length is bounded
    by the measure of the state it starts from -/
theorem exec_bound {src e qs} (l : List Tid) {s s'} (h : ReachableE src e qs s) (he : exec s l = some s') :
    l.length + measure s' ≤ measure s ∧ ReachableE src e qs s' := by
  induction l generalizing s with
  | nil => simp only [exec, Option.some.injEq] at he; subst he; exact ⟨by simp, h⟩
  | cons t ts ih =>
    unfold exec at he
    cases hs : step s t with
    | none => rw [hs] at he; cases he
    | some s1 =>
      rw [hs] at he
      have h1 := ReachableE.step h hs
      have := ih h1 he
      have := progress h hs
      simp only [List.length_cons]
      exact ⟨by omega, (ih h1 he).2⟩

/-- **finished_answer.** Whatever the schedule, a finished thread holds exactly what the uncached object gives:
    the answer of Python list semantics on `src` when the generator ends normally, and for a generator that raises E
    after `src` that answer if the query stops within `src`, E otherwise (`specE`; `specE_eq_uncached`) — fast
    path or generator path, early exit or exhaustion. -/
theorem finished_answer {src e qs s} (h : ReachableE src e qs s) (hsorted : Sorted src)
    (t : Tid) (it : Iter) (hit : s.its[t]? = some it) (hd : it.pc = .done) (hfits : fits it.q src) :
    it.res = some (specE it.q src e) ∧ (it.q = .iterAll → it.yielded = src) := by
  obtain ⟨hi, hsrc, herr⟩ := reachable_inv h
  obtain ⟨_, hl⟩ := hi.linv t it hit
  rw [hd] at hl
  simp only [] at hl
  rw [hsrc, herr] at hl
  exact ⟨hl.2.2 hsorted hfits, hl.2.1⟩

/-- `specE` for a raising generator IS the uncached object's behaviour: `genRaising` hands the consumer
    `src` value by value (`for x in self._iter()`), the consumer drops the iterator as soon as its query is
    decided (`stops` after any prefix), and E arrives after the last value -/
theorem specE_eq_uncached (q : Query) (src : List Int) (e : Py.PyErr) (hsorted : Sorted src) (hfits : fits q src) :
    specE q src (some e) = genRaising q src e := by
  show (if stops q src then spec q src else Res.err e) = _
  unfold genRaising
  have hiff : ((List.range (src.length + 1)).any (fun n => stops q (src.take n))) = stops q src := by
    cases hs : stops q src with
    | true =>
      rw [List.any_eq_true]
      exact ⟨src.length, by simp, by rw [List.take_length]; exact hs⟩
    | false =>
      rw [List.any_eq_false]
      intro n _ hn
      have := stops_append q (src.take n) (src.drop n) hn
      rw [List.take_append_drop, hs] at this
      cases this
  rw [hiff, gen_eq_spec q src hsorted hfits]

/-- **all_complete.** A state where no thread can move — reached by every execution that keeps
    choosing enabled threads, after at most `measure (init src qs)` statements — has every thread
    finished; plain iterators have received exactly `src`, queries hold the specified answer. -/
theorem all_complete {src e qs s} (h : ReachableE src e qs s) (hstuck : ∀ t, step s t = none)
    (t : Tid) (it : Iter) (hit : s.its[t]? = some it) :
    it.pc = .done ∧ (it.q = .iterAll → it.yielded = src) ∧
    (Sorted src → fits it.q src → it.res = some (specE it.q src e)) := by
  have hall : ∀ (t : Tid) (it : Iter), s.its[t]? = some it → it.pc = .done := by
    intro t it hit
    by_cases hd : it.pc = .done
    · exact hd
    · obtain ⟨t', ht'⟩ := no_deadlock h ⟨t, it, hit, hd⟩
      rw [hstuck t'] at ht'; cases ht'
  have hd := hall t it hit
  exact ⟨hd, fun hq => (finished_answer_aux h t it hit hd).1 hq, fun hs hq => (finished_answer h hs t it hit hd hq).1⟩
where
  finished_answer_aux {src e qs s} (h : ReachableE src e qs s) (t : Tid) (it : Iter) (hit : s.its[t]? = some it)
      (hd : it.pc = .done) : (it.q = .iterAll → it.yielded = src) ∧ True := by
    obtain ⟨hi, hsrc, _⟩ := reachable_inv h
    obtain ⟨_, hl⟩ := hi.linv t it hit
    rw [hd] at hl
    simp only [] at hl
    rw [hsrc] at hl
    exact ⟨hl.2.1, trivial⟩

-- non-vacuity: two iterators and an index query under an interleaved schedule all finish with the
-- right values; the initial measure bounds every execution
example : ((run (init [0, 5, 7] [.iterAll, .iterAll, .index 1])
            ((List.replicate 40 [0, 1, 2, 1, 1, 0]).flatten)).its.map (fun it => (it.pc, it.yielded, it.res)))
          = [(.done, [0, 5, 7], some (.list [0, 5, 7])), (.done, [0, 5, 7], some (.list [0, 5, 7])),
             (.done, [0, 5], some (.val (some 5)))] := by decide +kernel
example : measure (init [0, 1, 2] [.iterAll, .iterAll]) = 412 := by decide

/-! ### the theorem distinguishes the two programs

`stepOld` is the machine of the program before fix a459cd4 (the two `break`s leave the fill loop
without `release()`).  Over 11 instants, with iterator 1 advanced once, iterator 0 run to its end
(it performs the final fill and keeps the lock), iterator 1 then walks the cache and blocks in
`acquire()` forever: a reachable deadlock of the old program.  The very same schedule on the
real `step` ends with both iterators finished — and `no_deadlock` above says no schedule
whatsoever can dead-lock it. -/

def deadlockSchedule : List Tid := List.replicate 50 1 ++ List.replicate 160 0 ++ List.replicate 80 1

def src11 : List Int := [0, 1, 2, 3, 4, 5, 6, 7, 8, 9, 10]

example : ∃ sched, deadlocked stepOld (runOld (init src11 [.iterAll, .iterAll]) sched) = true :=
  ⟨deadlockSchedule, by decide +kernel⟩

-- where it is stuck: iterator 0 finished holding the lock, iterator 1 at `acquire()` (line 132) having received all 11 values
example : ((runOld (init src11 [.iterAll, .iterAll]) deadlockSchedule).sh.lock,
           (runOld (init src11 [.iterAll, .iterAll]) deadlockSchedule).its.map (fun it => (it.pc, it.yielded.length)))
          = (some 0, [(.done, 11), (.l132, 11)]) := by decide +kernel

example : deadlocked step (run (init src11 [.iterAll, .iterAll]) deadlockSchedule) = false ∧
          (run (init src11 [.iterAll, .iterAll]) deadlockSchedule).its.map (fun it => (it.pc, it.yielded.length))
            = [(.done, 11), (.done, 11)] := by decide +kernel

/-! ### nested cached objects: one lock per object vs one lock for all

`Nested` (Model/CacheNested.lean) is the machine of cached sets whose member rules are cached too:
line 138 of a set — executed with the SET's lock held — pulls from the member's `_iter_cached`,
which acquires the MEMBER's lock.  With a lock per object the order is parent → child only.  With
ONE non-re-entrant lock for all objects (`shared := true`: a class-level `_cache_lock`) a single
thread listing a cached set over a cached rule blocks on itself at the member's `acquire()`. -/

/-- **nested_no_deadlock_partial.** Cached sets over cached member rules, ONE LOCK PER OBJECT, any
    number of sets, members (shared between sets and roles), runners and any schedule: in every state
    reachable from a fresh one, if some runner is unfinished then some runner can move.
    `_partial`: depth 1 only — the members of a set are cached RULES.  `rruleset.rrule()` also accepts a
    cached rruleset as a member (it only needs `__iter__`), giving deeper nesting; the same parent → child
    argument applies level by level but is not formalised here. -/
theorem nested_no_deadlock_partial {ns0 ns : Nested.NState} (h0 : Nested.Fresh ns0) (h : Nested.NReach ns0 ns)
    (hun : ∃ r, Nested.IsRunner ns r ∧ Nested.finished ns r = false) :
    ∃ r, Nested.IsRunner ns r ∧ (Nested.step ns r).isSome = true :=
  Nested.nested_no_deadlock (Nested.nreach_inv h0 h) hun

/-- **nested_all_complete_partial.** A reachable state in which no runner can move has every runner
    finished, and every finished thread of a set holds the list-semantics answer on the set's merged
    sequence (every finished direct thread of a member: on the member's sequence). -/
theorem nested_all_complete_partial {ns0 ns : Nested.NState} (h0 : Nested.Fresh ns0) (h : Nested.NReach ns0 ns)
    (hstuck : ∀ r, Nested.IsRunner ns r → Nested.step ns r = none) :
    (∀ r, Nested.IsRunner ns r → Nested.finished ns r = true) ∧
    (∀ (si : Nat) (S : Nested.SetM) (t : Tid) (it : Iter), ns.sets[si]? = some S → S.st.its[t]? = some it → it.pc = .done →
        Sorted S.st.sh.src → fits it.q S.st.sh.src → it.res = some (specE it.q S.st.sh.src S.st.sh.endErr)) ∧
    (∀ (m : Nat) (M : Cache.State) (t : Tid) (it : Iter), ns.members[m]? = some M → M.its[t]? = some it → it.pc = .done →
        Sorted M.sh.src → fits it.q M.sh.src → it.res = some (specE it.q M.sh.src M.sh.endErr)) := by
  have hi := Nested.nreach_inv h0 h
  refine ⟨?_, ?_, ?_⟩
  · intro r hr
    cases hf : Nested.finished ns r with
    | true => rfl
    | false =>
      obtain ⟨r', hr', hen⟩ := Nested.nested_no_deadlock hi ⟨r, hr, hf⟩
      rw [hstuck r' hr'] at hen; cases hen
  · intro si S t it hS hit hd hsorted hfits
    obtain ⟨_, hl⟩ := (hi.sinv si S hS).linv t it hit
    rw [hd] at hl
    exact hl.2.2 hsorted hfits
  · intro m M t it hM hit hd hsorted hfits
    obtain ⟨_, hl⟩ := (hi.minv m M hM).linv t it hit
    rw [hd] at hl
    exact hl.2.2 hsorted hfits

/-- **`Nested.init` is fresh**: the theorems above start from the state the driver builds — any member
    sequences, any sets over them (members shared between sets and roles), any runners. -/
theorem nested_init_fresh (memberSrcs : List (List Int)) (setDefs : List (List Nested.Slot × List Nested.Slot))
    (qs : List (Nat × Query)) : Nested.Fresh (Nested.init memberSrcs setDefs qs false).1 :=
  Nested.fresh_init memberSrcs setDefs qs

/-- `nested_no_deadlock_partial` from `init` -/
theorem nested_no_deadlock_init (memberSrcs : List (List Int)) (setDefs : List (List Nested.Slot × List Nested.Slot))
    (qs : List (Nat × Query)) {ns : Nested.NState} (h : Nested.NReach (Nested.init memberSrcs setDefs qs false).1 ns)
    (hun : ∃ r, Nested.IsRunner ns r ∧ Nested.finished ns r = false) :
    ∃ r, Nested.IsRunner ns r ∧ (Nested.step ns r).isSome = true :=
  nested_no_deadlock_partial (nested_init_fresh memberSrcs setDefs qs) h hun

/-- **nested_progress_partial.** Every step of every runner in a reachable state decreases the measure
    (the sum of the flat measures of all objects: each nested step is one statement of one object). -/
theorem nested_progress_partial {ns0 ns ns' : Nested.NState} {r : Nested.Runner} {pc : PC} (h0 : Nested.Fresh ns0)
    (h : Nested.NReach ns0 ns) (hs : Nested.step ns r = some (ns', pc)) : Nested.nmeasure ns' < Nested.nmeasure ns :=
  Nested.nested_progress (Nested.nreach_inv h0 h) hs

/-- executions of k runner steps -/
inductive NExec (ns0 : Nested.NState) : Nat → Nested.NState → Prop
  | init : NExec ns0 0 ns0
  | step {k : Nat} {ns ns' : Nested.NState} {r : Nested.Runner} {pc : PC} :
      NExec ns0 k ns → Nested.IsRunner ns r → Nested.step ns r = some (ns', pc) → NExec ns0 (k + 1) ns'

/-- hence every execution is finite: its length is bounded by the measure of the state it starts from;
    with `nested_no_deadlock_partial` it can always be continued until every runner has finished -/
theorem nested_exec_bound {ns0 ns : Nested.NState} {k : Nat} (h0 : Nested.Fresh ns0) (h : NExec ns0 k ns) :
    k + Nested.nmeasure ns ≤ Nested.nmeasure ns0 ∧ Nested.NReach ns0 ns := by
  induction h with
  | init => exact ⟨by omega, Nested.NReach.init⟩
  | step _ hr hs ih =>
    have := nested_progress_partial h0 ih.2 hs
    exact ⟨by omega, Nested.NReach.step ih.2 hr hs⟩

def nestedOwn := Nested.init [[0, 10, 20]] [([.cached 0], [])] [(1, .iterAll)] false
def nestedShared := Nested.init [[0, 10, 20]] [([.cached 0], [])] [(1, .iterAll)] true

-- one lock for all: a reachable single-thread deadlock …
example : ∃ sched, Nested.deadlocked (Nested.run nestedShared.1 nestedShared.2 sched) nestedShared.2 = true :=
  ⟨List.replicate 40 0, by decide +kernel⟩
-- … stuck on line 132 of the member's iterator while the set's thread sits on line 138 holding the lock
example : (let ns := Nested.run nestedShared.1 nestedShared.2 (List.replicate 40 0)
           (ns.sets.map (fun S => (Nested.pcOf S.st 0, S.st.sh.lock)), ns.members.map (fun M => (Nested.pcOf M 0, M.sh.lock))))
          = ([(.l138, some 0)], [(.l132, none)]) := by decide +kernel
-- own locks: the same schedule (any long enough one) finishes with the merged sequence
example : (let ns := Nested.run nestedOwn.1 nestedOwn.2 (List.replicate 150 0)
           (Nested.finished ns (1, 0), ns.sets.map (fun S => S.st.sh.cache), Nested.deadlocked ns nestedOwn.2))
          = (true, [[0, 10, 20]], false) := by decide +kernel

/-! ### the machine IS the translated source

`Gen.iterCachedProgram` (Generated/RRBaseCache.lean) is `rrulebase.__iter__` followed by `rrulebase._iter_cached` as `harness/translate_rrbase.py` reads it
from /repo's working tree on every run: one node per statement that is a pause point of the tracer — its program counter,
what the statement does (a strict vocabulary; anything else is Untranslatable) and where control goes, from the nesting of
the source (while / if / try-finally / try-except / for / break).  Its meaning is `CachePy.stepProg`. -/

/-- **program_sim.** At EVERY program counter of `__iter__` / `_iter_cached` and on EVERY state, the statement of the translated program
    does exactly what the machine `Cache.stepIter` does (same shared state, same locals, same next pc; blocked exactly when
    the machine is).  Hence `inv_step`, `safety`, `no_deadlock`, `progress`, `finished_answer`, … above are theorems about
    the statements as translated, not about a hand-aligned listing: a changed statement, order, batch size, handler or
    branch target breaks THIS obligation (or the translation) on the next run. -/
theorem program_sim (sh : Shared) (t : Tid) (it : Iter) (h : CachePy.bodyPC it.pc = true) :
    CachePy.stepProg Gen.iterCachedProgram sh t it = stepIter sh t it := by
  unfold CachePy.stepProg stepIter
  cases hpc : it.pc <;> rw [hpc] at h <;> simp only [CachePy.bodyPC] at h <;> try (cases h)
  all_goals simp only [CachePy.nodeAt, Gen.iterCachedProgram, List.find?, CachePy.stepNode, step138]
  all_goals first | rfl | (split <;> first | rfl | (split <;> first | rfl | (split <;> rfl)))

/-- the whole machine with the body of `_iter_cached` executed by the translated program is the machine of the theorems
    (what the driver op `cache.trun` runs against the real generators) -/
theorem translated_machine_eq : CachePy.stepIterT Gen.iterCachedProgram = stepIter := by
  funext sh t it
  unfold CachePy.stepIterT
  split
  · rename_i h; exact program_sim sh t it h
  · rfl

-- every program counter of the generator body has a node; the batch size is the source's
example : (Gen.iterCachedProgram.map (·.pc)).length = 28 ∧ (CachePy.nodeAt Gen.iterCachedProgram .l137).map (·.op) = some (.forRange 10) := by decide
-- the obligation distinguishes programs: without the read-ahead handler E escapes although the consumer's value is there
example : CachePy.stepNode { pc := .l138, op := .appendNext false, next := .l137, alt := .l139, exc := .l144 }
            { initShared [7] (some .ZeroDivisionError) with cache := [7], genPos := 1, lock := some 0 } 0 { q := .iterAll, pc := .l138, i := 0, j := 1 }
          ≠ stepIter { initShared [7] (some .ZeroDivisionError) with cache := [7], genPos := 1, lock := some 0 } 0 { q := .iterAll, pc := .l138, i := 0, j := 1 } := by decide

/-- **gen_restartable_eq_model.** `_restartable` as translated from the source is the generator the machine assumes on line 138
    (`Cache.step138`): from a state in step with the cache (`inner = pos`, alive) one `__next__()` gives the next value of `src`
    and advances both counters; at the end of `src` it gives StopIteration when the underlying generator ends normally, and when it
    raises E it raises E and is AGAIN in step at the same position — so the next request raises E again (what `Shared.endErr`
    means), instead of the dead generator's StopIteration (the old defect: see the last `example`). -/
theorem gen_restartable_eq_model (src : List Int) (e : Option Py.PyErr) (pos : Nat) :
    CachePy.runRestartNext Gen.restartableProgram src e { pos := pos, inner := pos } =
      some (match src[pos]? with
            | some x => (.value x, { pos := pos + 1, inner := pos + 1 })
            | none => match e with
              | none => (.stop, { pos := pos, inner := pos })
              | some err => (.raise_ err, { pos := pos, inner := pos })) := by
  cases h : src[pos]? <;> cases e <;> simp [CachePy.runRestartNext, Gen.restartableProgram, h]

-- without the restart the generator is dead after E: its next answer is StopIteration
example : (CachePy.runRestartNext { Gen.restartableProgram with restartsAtPos := false } [7] (some .ZeroDivisionError) { pos := 1, inner := 1 }).bind
            (fun r => CachePy.runRestartNext { Gen.restartableProgram with restartsAtPos := false } [7] (some .ZeroDivisionError) r.2)
          = some (.stop, { pos := 1, inner := 1, dead := true }) := by decide

/-- **mutators_invalidate_after.** The decorator `_invalidates_cache` as translated from the source runs the wrapped mutator FIRST
    and `_invalidate_cache()` AFTER it, and not before: a reader thread scheduled inside a mutator call can only fill the cache of the
    generation that the call then throws away — with the order reversed it would complete the FRESH cache from the old members and
    the mutation would be lost (schedule stream `mutator_schedules`; C10 `gen_mutators_eq_model` is the same obligation on the members). -/
theorem mutators_invalidate_after :
    Gen.invalidatesDecorator.callsWrapped = true ∧ Gen.invalidatesDecorator.thenInvalidates = true ∧
    Gen.invalidatesDecorator.invalidatesBefore = false ∧
    ∀ (m : RSet.Members) (d : Int), MergePy.runMutDate Gen.invalidatesDecorator Gen.rsetMutators .rdate m d =
      some ({ m with rdates := m.rdates ++ [d] }, true) :=
  ⟨rfl, rfl, rfl, fun _ _ => rfl⟩

/-! ### the underlying generator raises: cached = uncached (D-C11-genraise repaired in /repo) -/

/-- **genraise_history** (replaces the negation theorem `genraise_cached_differs` of the unrepaired code).
    ANY history of query methods / listings, each run to its end, on ONE cached object whose generator yields `src`
    and then raises E gives, call by call, what the uncached object gives (`genRaising`: E in every call that needs
    one value more than `src`, the list-semantics answer in every call decided within `src`) — every `src`, every E,
    every sequence of calls. -/
theorem genraise_history (src : List Int) (e : Py.PyErr) (qs : List Query) (hsorted : Sorted src)
    (hfits : ∀ q ∈ qs, fits q src) :
    RSet.runQueries (init src [] (some e)) qs = qs.map (fun q => some (genRaising q src e)) := by
  have h := RSet.runQueries_specE qs (init src [] (some e)) (inv_init src [] (some e))
    (fun t it hit => by simp [init] at hit) hsorted hfits
  rw [h]
  apply List.map_congr_left
  intro q hq
  show some (specE q src (some e)) = _
  rw [specE_eq_uncached q src e hsorted (hfits q hq)]

-- the former witness shapes now agree with the uncached object.  The generator raises before its first value:
example : RSet.runQueries (init [] [] (some .TypeError)) [.iterAll, .iterAll, .iterAll, .count, .contains 5]
          = [some (.err .TypeError), some (.err .TypeError), some (.err .TypeError), some (.err .TypeError), some (.err .TypeError)] := by
  decide +kernel
-- after 11 values: an index query is answered from the first fill (the error met while reading ahead is deferred), a
-- listing raises E, and so does every later listing and `count()`; an early-exit query is still answered
example : RSet.runQueries (init [0, 1, 2, 3, 4, 5, 6, 7, 8, 9, 10] [] (some .ZeroDivisionError))
            [.index 3, .iterAll, .iterAll, .count, .index 10, .index 11, .after 4 false]
          = [some (.val (some 3)), some (.err .ZeroDivisionError), some (.err .ZeroDivisionError), some (.err .ZeroDivisionError),
             some (.val (some 10)), some (.err .ZeroDivisionError), some (.val (some 5))] := by decide +kernel
-- under an interleaving: two listings and an index query over a generator that raises after 3 values
example : ((run (init [0, 5, 7] [.iterAll, .iterAll, .index 1] (some .ZeroDivisionError))
            ((List.replicate 40 [0, 1, 2, 1, 1, 0]).flatten)).its.map (fun it => (it.pc, it.yielded, it.res, it.crash)))
          = [(.done, [0, 5, 7], some (.err .ZeroDivisionError), none), (.done, [0, 5, 7], some (.err .ZeroDivisionError), none),
             (.done, [0, 5], some (.val (some 5)), none)] := by decide +kernel

end C11
