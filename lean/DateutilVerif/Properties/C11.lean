import DateutilVerif.Model.Cache
namespace C11
theorem stub : True := trivial
end C11
