/-
  Properties/C08Abbr.lean — C08, "malformed strings raise ValueError", the part repaired by fix D-C08b: characters outside the TZ
  grammar can no longer hide inside an abbreviation.

  * `tzstr_abbr_letters` — for EVERY string and either `posix_offset`: if `tzstr` accepts it, both abbreviations of the zone consist of
    ASCII letters only.  (Before the fix `tzstr('EST+5EDT$')` built a zone whose daylight abbreviation was `EDT$`, `tzstr('EST5 EDT')`
    one called ` EDT`: the abbreviation loop joined every token without one of "0123456789:,-+".)
  * `abbr_run_is_letters` — the scan itself: the tokens joined into an abbreviation all pass `isLetters`.
  Still oracle-only: "a character outside the grammar ANYWHERE in the string ⇒ ValueError" as one theorem (the oracle inserts a stray
  character at a random position of generated strings, 0 of 6000 accepted on the repaired tree) and non-ASCII digits (outside the
  ASCII domain of the model: `pyInt` models `int()` on ASCII).
-/
import DateutilVerif.Proofs.TzStrAbbr

namespace C08
open TzStr

theorem abbr_run_is_letters (l : List String) (i : Nat) :
    isLetters (String.join ((l.drop i).take (skipAbbr l i - i))) = true :=
  TzGen.isLetters_join _ (TzGen.skipAbbr_letters l i)

/-- **accepted ⇒ letter abbreviations**, for every string -/
theorem tzstr_abbr_letters (s : String) (posix : Bool) (z : Zone) (h : tzstr s posix = .ok z) :
    (∀ a, z.stdAbbr = some a → isLetters a = true) ∧ (∀ a, z.dstAbbr = some a → isLetters a = true) := by
  unfold tzstr at h
  simp only [bind, Except.bind, pure, Except.pure] at h
  split at h
  · cases h
  · rename_i r hp
    split at h
    · cases h
    · rename_i res
      have hok := TzGen.parse_abbrs s res hp
      repeat' split at h
      all_goals (try (cases h; done))
      all_goals (injection h with h; subst h; exact ⟨hok.1, hok.2⟩)

/-! non-vacuity and the old symptom -/
example : (tzstr "EST5EDT,M3.2.0,M11.1.0" false).toBool = true := by decide +kernel
example : tzstr "EST+5EDT$" false = .error .ValueError := by decide +kernel
example : tzstr "EST5 EDT" false = .error .ValueError := by decide +kernel
example : tzstr "E$T5" false = .error .ValueError := by decide +kernel

end C08
