/-
  Properties/C18Init.lean — the metaclass constructors of tz/_factories.py, translated from source (harness/translate_rfc.py, third
  group → Generated/TzRfcKernels.lean), are the initial shared state of the factory machine the C18 theorems start from.

  * `factory_init_is_initState` — `_TzOffsetFactory.__init__` and `_TzStrFactory.__init__` build exactly `(Fact.initState 8 scripts).g`:
    empty weak map, empty strong cache, capacity 8, lock free — for any scripts;
  * `singleton_init_empty` — `_TzSingleton.__init__` leaves the singleton slot empty (the slot of `tzutc` is then filled by the module
    body's `UTC = tzutc()` at import time: `Fact.initSingleton`).
-/
import DateutilVerif.Generated.TzRfcKernels

namespace C18

theorem factory_init_is_initState (scripts : List (List Fact.Op)) :
    Gen.tzOffsetFactory_init = (Fact.initState 8 scripts).g ∧ Gen.tzStrFactory_init = (Fact.initState 8 scripts).g :=
  ⟨rfl, rfl⟩

theorem factory_init_fields :
    Gen.tzOffsetFactory_init.cap = 8 ∧ Gen.tzOffsetFactory_init.strong = [] ∧ (∀ k, Gen.tzOffsetFactory_init.weak k = none) ∧
    Gen.tzOffsetFactory_init.lock = none ∧ Gen.tzStrFactory_init.cap = 8 ∧ Gen.tzStrFactory_init.strong = [] ∧
    (∀ k, Gen.tzStrFactory_init.weak k = none) ∧ Gen.tzStrFactory_init.lock = none :=
  ⟨rfl, rfl, fun _ => rfl, rfl, rfl, rfl, fun _ => rfl, rfl⟩

theorem singleton_init_empty : Gen.tzSingleton_init.single = none ∧ Gen.tzSingleton_init.inited = [] := ⟨rfl, rfl⟩

end C18
