/-
  Properties/TzifGen.lean — obligations that tie C06 to the CURRENT source of the READER: `tzfile._read_tzfile`
  (src/dateutil/tz/tz.py) is re-translated from /repo on every run (harness/translate_tzif.py → Generated/TzifKernels.lean:
  `Gen.readTzfile_decode`, `Gen.readTzfile_build`, `Gen.readTzfile` and one definition per `if` / `for` statement) and is
  proved EQUAL to the hand model (`TZ.decode`, `TZ.build`, Model/TZif.lean) here, for ALL byte streams, including every
  error kind (magic, struct.error, undecodable abbreviation block, type index out of range) and the aliasing of the
  `_ttinfo` objects that the dstoffset loop mutates.  `decode_encode` and `lookup_exact` are then restated about the
  translated reader.  A behaviour-changing edit of `_read_tzfile` breaks the translation (named construct) or one of
  these obligations.
-/
import DateutilVerif.Properties.C06
import DateutilVerif.Proofs.TzifGenBuild

open TZ Spec Py TzifPy

namespace C06

/-- **gen_eq_model_read_tzfile_decode.** First part of the translated reader (header, transition / type / abbreviation
    tables, leap-record skip, isstd / isgmt, the `_ttinfo` objects, replacement of type indices by objects) = `decode`,
    on every stream; on success it hands over the model's tables: the heap of objects in type order, `trans_list_utc`,
    `trans_idx` as references, `ttinfo_list` = all references in order, `timecnt` = number of transitions. -/
theorem gen_eq_model_read_tzfile_decode (data : List UInt8) :
    Gen.readTzfile_decode data = (decode data).map TzifGen.decodeView :=
  TzifGen.decode_eq data

/-- **gen_eq_model_read_tzfile_build.** Second part of the translated reader (ttinfo_std / ttinfo_dst by the backward scan
    with its `else` clause, ttinfo_before, the dstoffset loop mutating the shared objects, trans_list, the two wall-clock
    lists), started on a decoded table with valid type indices: the object it returns, READ THROUGH ITS REFERENCES, is the
    model's `build r`, and every object's `delta` equals `timedelta(seconds=offset)`. -/
theorem gen_eq_model_read_tzfile_build (r : Raw) (hok : Raw.ok r = true) (s0 d0 b0 : Option Ref) :
    (Gen.readTzfile_build s0 d0 b0 none (r.types.map TzifGen.ofT) (r.trans.length : Int) (r.trans.map (·.1))
      (r.trans.map (·.2)) (List.range' 0 r.types.length)).map (fun o => (o.view, o.deltaOk)) = .ok (build r, true) :=
  TzifGen.build_eq r hok s0 d0 b0

/-- **gen_eq_model_read_tzfile.** The translated `_read_tzfile` = `decode` then `build`, for every byte stream:
    the same error kind, or the same zone object (and consistent `delta`s). -/
theorem gen_eq_model_read_tzfile (data : List UInt8) :
    (Gen.readTzfile data).map (fun o => (o.view, o.deltaOk)) = (decode data).map (fun r => (build r, true)) := by
  unfold Gen.readTzfile
  rw [gen_eq_model_read_tzfile_decode]
  cases hd : decode data with
  | error e => simp [Except.map, bind, Except.bind]
  | ok r =>
      have hok := TzifGen.decode_ok data r hd
      have hb := gen_eq_model_read_tzfile_build r hok none none none
      simp only [Except.map, TzifGen.decodeView, bind, Except.bind] at hb ⊢
      exact hb

/-- on success the translated reader returns an object whose view is the model's zone -/
theorem read_tzfile_ok (data : List UInt8) (r : Raw) (h : decode data = .ok r) :
    ∃ o, Gen.readTzfile data = .ok o ∧ o.view = build r ∧ o.deltaOk = true := by
  have := gen_eq_model_read_tzfile data
  rw [h] at this
  cases hg : Gen.readTzfile data with
  | error e => rw [hg] at this; simp [Except.map] at this
  | ok o =>
      rw [hg] at this
      simp only [Except.map, Except.ok.injEq, Prod.mk.injEq] at this
      exact ⟨o, rfl, this.1, this.2⟩

/-- errors of the translated reader are exactly the model's (kind included) -/
theorem read_tzfile_error (data : List UInt8) (e : PyErr) :
    Gen.readTzfile data = .error e ↔ decode data = .error e := by
  have := gen_eq_model_read_tzfile data
  cases hg : Gen.readTzfile data <;> cases hd : decode data <;> rw [hg, hd] at this <;> simp [Except.map] at this ⊢
  rw [this]

/-- **decode_encode_gen.** `decode_encode` about the TRANSLATED reader: reading the canonical version-1 stream of a raw
    table within the format's ranges gives (the zone built from) that table back. -/
theorem decode_encode_gen (r : Raw) (h : RawWF r) :
    ∃ o, Gen.readTzfile (encode r) = .ok o ∧ o.view = build r ∧ o.deltaOk = true :=
  read_tzfile_ok (encode r) r (decode_encode r h)

/-- **lookup_exact_read_gen.** `lookup_exact` about the zone the TRANSLATED reader makes of the stream: before the last
    transition it reports exactly the offset and abbreviation of the data's type in force. -/
theorem lookup_exact_read_gen (data : List UInt8) (r : Raw) (hd : decode data = .ok r) (hwf : Spec.wf r = true) (t u : Int)
    (hlast : lastTime r = some u) (h2 : t < u) :
    ∃ o w ty, Gen.readTzfile data = .ok o ∧ fromutc o.view t = .ok w ∧ typeAt r t = some ty ∧ w.wall = t + ty.off ∧
      utcoffset o.view w = .ok ty.off ∧ tzname o.view w = .ok (some ty.abbr) := by
  obtain ⟨o, ho, hv, _⟩ := read_tzfile_ok data r hd
  obtain ⟨w, ty, h1, h3, h4, h5, h6⟩ := lookup_exact r hwf t u hlast h2
  exact ⟨o, w, ty, ho, by rw [hv]; exact h1, h3, h4, by rw [hv]; exact h5, by rw [hv]; exact h6⟩

/-! non-vacuity: the stream of `exR` (two types, three transitions) is read by the translated reader; a truncated stream
    and a stream with a wrong magic give the model's error kinds -/
example : (Gen.readTzfile (encode exR)).map (·.view) = .ok (build exR) := by decide +kernel
example : (Gen.readTzfile (encode exR)).map (fun o => o.trans_idx) = .ok [1, 0, 1] := by decide +kernel
example : (Gen.readTzfile ((encode exR).take 50)).map (·.view) = .error .StructError := by decide +kernel
example : (Gen.readTzfile [1, 2, 3, 4]).map (·.view) = .error .ValueError := by decide +kernel
example : Raw.ok exR = true := by decide

end C06
