/-
  Properties/C17Malformed.lean — C17, fourth sentence: "malformed definitions … raise ValueError".

  `tzical._parse_rfc` is TRANSLATED from /repo's tz/tz.py on every run (harness/translate_rfc.py →
  Generated/TzRfcKernels.lean: the unfolding `while` loop, the body of the line loop, the whole function) and proved equal
  to the hand model (`Model/ICal.lean`: `unfold`, `stepLineW` = `stepCore` after the split into NAME;parms:value,
  `parseRfcW`).  The recurrence library is a PARAMETER (`lib : RRuleLib`): what `rrulestr(...)` of a component's lines raises, or that it returns
  (nothing of the returned rule set is read by `_parse_rfc`).
  "Which texts rrulestr rejects" is C13 (`errors_are_ValueError`), which is the hypothesis `LibVE`.

  * `gen_eq_model_parse_rfc_line`, `gen_unfold_terminates`, `gen_eq_model_parse_rfc` — the translation equals the model
    for every library, state, line / every text; the unfolding loop never exhausts its fuel `len(lines)`.
  * `parse_rfc_errors_ValueError` — whatever the text, the translated function raises nothing but ValueError.
  * the malformed classes, each for EVERY parser state in which the line is met: `malformed_zone_end` (END:VTIMEZONE
    without TZID / without a component / with a component still open), `malformed_component_end` (END:<component>
    without DTSTART / TZOFFSETFROM / TZOFFSETTO), `malformed_mismatched_end`, `malformed_unknown_component` (also a nested
    VTIMEZONE), `malformed_unknown_property_in_component`, `malformed_unknown_property_in_zone`,
    `malformed_property_parameter`, `malformed_bad_rrule` (rrulestr rejects the lines — since fix D-C01-interval also a rule
    whose INTERVAL is below 1, which used to load and hang every lookup), `malformed_no_colon`;
  * state does not leak: `zone_state_does_not_leak` (BEGIN:VTIMEZONE clears TZID and the component list, so
    `malformed_zone_end` applies to each zone on its own), `component_state_does_not_leak` (BEGIN:STANDARD|DAYLIGHT clears
    DTSTART-seen / both offsets / the recurrence lines / TZNAME);
  * `component_without_dtstart` — document level: a component made of any number of RRULE / RDATE / EXRULE / EXDATE /
    TZOFFSET* / TZNAME / COMMENT lines but no DTSTART is rejected at the latest at its END line, from any state.
  NOT proved: the converse direction as one grammar — "every text of the well-formed grammar is accepted with exactly its
  component list" — is tied by the correspondence (`ical.parse`, `tzgen.ical.rfc`) on generated and mutated definitions.
-/
import DateutilVerif.Proofs.ICalMalformed

namespace C17
open ICal ICalRfc Py

theorem gen_eq_model_parse_rfc_line (lib : RRuleLib) (st : PState) (line : List Char) :
    Gen.tzical_parseRfc_line lib st line = stepLineW lib st line := gen_line_eq_model lib st line

/-- the translated unfolding loop, given `len(lines)` iterations of fuel, ends normally with the model's `unfold` -/
theorem gen_unfold_terminates (lines : List (List Char)) :
    ∃ k, RfcPy.whileFuel lines.length Gen.tzical_parseRfc_unfoldCond Gen.tzical_parseRfc_unfold (lines, 0) =
      .ok (unfold lines, k) := unfold_loop_eq lines

/-- the translated `_parse_rfc` leaves in `self._vtz` exactly what the model computes, and raises what it raises -/
theorem gen_eq_model_parse_rfc (lib : RRuleLib) (s : List Char) :
    (Gen.tzical_parseRfc lib s).map (·.vtz) = parseRfcW lib s := gen_parse_rfc_eq lib s

/-- **nothing but ValueError**: for every text, if the translated `_parse_rfc` raises, it raises ValueError
    (given that `rrulestr` raises nothing else: C13) -/
theorem parse_rfc_errors_ValueError (lib : RRuleLib) (hl : LibVE lib) (s : List Char) (e : PyErr)
    (h : Gen.tzical_parseRfc lib s = .error e) : e = .ValueError := by
  have := gen_eq_model_parse_rfc lib s
  rw [h] at this
  exact parseRfcW_err lib hl s e this.symm

/-- a non-empty line without a colon -/
theorem malformed_no_colon (lib : RRuleLib) (st : PState) (line : List Char) (hl : line ≠ [])
    (h : splitColon1 line = none) : stepLineW lib st line = .error .ValueError := by
  unfold stepLineW; cases line with
  | nil => exact absurd rfl hl
  | cons a t => simp [h]

/-- END:VTIMEZONE while a component is open, or no TZID was given in THIS zone, or it has no component -/
theorem malformed_zone_end (lib : RRuleLib) (st : PState) (line : List Char) (parms : List (List Char))
    (hin : st.invtz = true) (h : truthy st.comptype = true ∨ truthy st.tzid = false ∨ st.comps = []) :
    stepCore lib st line (lit "END") parms (lit "VTIMEZONE") = .error .ValueError := by
  have e1 : (lit "END" == lit "BEGIN") = false := by decide
  simp only [stepCore, hin, if_true, e1, Bool.false_eq_true, if_false, beq_self_eq_true, closeZone]
  rcases h with h | h | h
  · simp [h]
  · by_cases hc : truthy st.comptype = true <;> simp [hc, h]
  · by_cases hc : truthy st.comptype = true <;> by_cases ht : truthy st.tzid = true <;> simp [hc, ht, h]

/-- END:<component> of the open component without DTSTART, TZOFFSETFROM or TZOFFSETTO -/
theorem malformed_component_end (lib : RRuleLib) (st : PState) (line value : List Char) (parms : List (List Char))
    (hin : st.invtz = true) (hv : value ≠ lit "VTIMEZONE") (hc : st.comptype = some value)
    (h : st.founddtstart = false ∨ st.tzoffsetfrom = none ∨ st.tzoffsetto = none) :
    stepCore lib st line (lit "END") parms value = .error .ValueError := by
  have e1 : (lit "END" == lit "BEGIN") = false := by decide
  have e2 : (value == lit "VTIMEZONE") = false := by simpa using hv
  simp only [stepCore, hin, if_true, e1, Bool.false_eq_true, if_false, beq_self_eq_true, e2, hc, closeComp]
  rcases h with h | h | h
  · simp [h]
  · cases hf : st.founddtstart <;> simp [h]
  · cases hf : st.founddtstart <;> cases hfr : st.tzoffsetfrom <;> simp [h]

/-- END:<x> where x is neither VTIMEZONE nor the open component -/
theorem malformed_mismatched_end (lib : RRuleLib) (st : PState) (line value : List Char) (parms : List (List Char))
    (hin : st.invtz = true) (hv : value ≠ lit "VTIMEZONE") (hc : st.comptype ≠ some value) :
    stepCore lib st line (lit "END") parms value = .error .ValueError := by
  have e1 : (lit "END" == lit "BEGIN") = false := by decide
  have e2 : (value == lit "VTIMEZONE") = false := by simpa using hv
  have e3 : (some value == st.comptype) = false := by
    simp only [beq_eq_false_iff_ne, ne_eq]; exact fun h => hc h.symm
  simp [stepCore, hin, e1, e2, e3]

/-- BEGIN:<x> inside a VTIMEZONE with x other than STANDARD / DAYLIGHT (a nested VTIMEZONE included) -/
theorem malformed_unknown_component (lib : RRuleLib) (st : PState) (line value : List Char) (parms : List (List Char))
    (hin : st.invtz = true) (h1 : value ≠ lit "STANDARD") (h2 : value ≠ lit "DAYLIGHT") :
    stepCore lib st line (lit "BEGIN") parms value = .error .ValueError := by
  simp [stepCore, hin, beginComp, h1, h2]

/-- a property the component grammar does not know -/
theorem malformed_unknown_property_in_component (lib : RRuleLib) (st : PState) (line name value : List Char)
    (parms : List (List Char)) (hin : st.invtz = true) (hc : truthy st.comptype = true)
    (hn : name ∉ [lit "BEGIN", lit "END", lit "DTSTART", lit "RRULE", lit "RDATE", lit "EXRULE", lit "EXDATE",
                  lit "TZOFFSETFROM", lit "TZOFFSETTO", lit "TZNAME", lit "COMMENT"]) :
    stepCore lib st line name parms value = .error .ValueError := by
  simp only [List.mem_cons, List.not_mem_nil, or_false, not_or] at hn
  obtain ⟨a, b, c, d, e, f, g, h, i, j, k⟩ := hn
  simp [stepCore, hin, hc, compProp, a, b, c, d, e, f, g, h, i, j, k]

/-- a property the zone grammar does not know (outside any component) -/
theorem malformed_unknown_property_in_zone (lib : RRuleLib) (st : PState) (line name value : List Char)
    (parms : List (List Char)) (hin : st.invtz = true) (hc : truthy st.comptype = false)
    (hn : name ∉ [lit "BEGIN", lit "END", lit "TZID", lit "TZURL", lit "LAST-MODIFIED", lit "COMMENT"]) :
    stepCore lib st line name parms value = .error .ValueError := by
  simp only [List.mem_cons, List.not_mem_nil, or_false, not_or] at hn
  obtain ⟨a, b, c, d, e, f⟩ := hn
  simp [stepCore, hin, hc, zoneProp, a, b, c, d, e, f]

/-- TZID / TZOFFSETFROM / TZOFFSETTO / TZNAME with a parameter -/
theorem malformed_property_parameter (lib : RRuleLib) (st : PState) (line value : List Char) (parms : List (List Char))
    (hin : st.invtz = true) (hp : parms ≠ []) :
    (truthy st.comptype = false → stepCore lib st line (lit "TZID") parms value = .error .ValueError) ∧
    (truthy st.comptype = true → ∀ name ∈ [lit "TZOFFSETFROM", lit "TZOFFSETTO", lit "TZNAME"],
      stepCore lib st line name parms value = .error .ValueError) := by
  have hpe : parms.isEmpty = false := by cases parms <;> simp_all
  constructor
  · intro hc
    have e1 : (lit "TZID" == lit "BEGIN") = false := by decide
    have e2 : (lit "TZID" == lit "END") = false := by decide
    simp [stepCore, hin, hc, zoneProp, e1, e2, hpe]
  · intro hc name hn
    simp only [List.mem_cons, List.not_mem_nil, or_false] at hn
    rcases hn with rfl | rfl | rfl
    all_goals
      simp [stepCore, hin, hc, compProp, hpe, lit_BEGIN, lit_END, lit_DTSTART, lit_RRULE, lit_RDATE, lit_EXRULE, lit_EXDATE,
        lit_TZOFFSETFROM, lit_TZOFFSETTO, lit_TZNAME]

/-- the component's recurrence lines are rejected by `rrulestr`: whatever it raises is what `_parse_rfc` raises, and nothing is
    registered.  (`RRULE:FREQ=DAILY;INTERVAL=0` used to be ACCEPTED by `rrulestr`, the zone loaded and every later lookup spun
    forever — review 3b F4; since fix D-C01-interval `rrule.__init__` raises ValueError for an interval below 1, so such a line
    falls under this theorem; the oracle loads every such definition under an alarm.) -/
theorem malformed_bad_rrule (lib : RRuleLib) (st : PState) (line value : List Char) (parms : List (List Char))
    (hin : st.invtz = true) (hv : value ≠ lit "VTIMEZONE") (hc : st.comptype = some value)
    (hd : st.founddtstart = true) (f t : Int) (hf : st.tzoffsetfrom = some f) (ht : st.tzoffsetto = some t)
    (hr : st.rrulelines ≠ []) (e : PyErr) (he : lib st.rrulelines = .error e) :
    stepCore lib st line (lit "END") parms value = .error e := by
  have e1 : (lit "END" == lit "BEGIN") = false := by decide
  have e2 : (value == lit "VTIMEZONE") = false := by simpa using hv
  have hre : st.rrulelines.isEmpty = false := by cases h : st.rrulelines <;> simp_all
  simp [stepCore, hin, e1, e2, hc, closeComp, hd, hf, ht, compRules, hre, he]

/-- per-zone state does not leak: BEGIN:VTIMEZONE forgets the TZID and the components of whatever came before, so the
    mandatory-field checks of `malformed_zone_end` apply to every zone of a multi-zone text on its own -/
theorem zone_state_does_not_leak (lib : RRuleLib) (st : PState) (line : List Char) (parms : List (List Char))
    (hin : st.invtz = false) :
    ∃ st', stepCore lib st line (lit "BEGIN") parms (lit "VTIMEZONE") = .ok st' ∧ st'.tzid = none ∧ st'.comps = [] ∧
      st'.invtz = true ∧ st'.vtz = st.vtz :=
  ⟨{ st with tzid := none, comps := [], invtz := true }, by simp [stepCore, hin], rfl, rfl, rfl, rfl⟩

/-- per-component state does not leak: BEGIN:STANDARD / BEGIN:DAYLIGHT forgets DTSTART-seen, both offsets, the recurrence
    lines and the TZNAME of the component before -/
theorem component_state_does_not_leak (lib : RRuleLib) (st : PState) (line value : List Char) (parms : List (List Char))
    (hin : st.invtz = true) (hv : value = lit "STANDARD" ∨ value = lit "DAYLIGHT") :
    ∃ st', stepCore lib st line (lit "BEGIN") parms value = .ok st' ∧ st'.comptype = some value ∧
      st'.founddtstart = false ∧ st'.tzoffsetfrom = none ∧ st'.tzoffsetto = none ∧ st'.rrulelines = [] ∧
      st'.tzname = none ∧ st'.tzid = st.tzid ∧ st'.comps = st.comps :=
  ⟨{ st with comptype := some value, founddtstart := false, tzoffsetfrom := none, tzoffsetto := none, rrulelines := [],
              tzname := none },
    by rcases hv with rfl | rfl <;> simp [stepCore, hin, beginComp], rfl, rfl, rfl, rfl, rfl, rfl, rfl, rfl⟩

/-- **a component with recurrence / offset / name lines but no DTSTART is rejected** (document level): from ANY parser state
    inside a VTIMEZONE, `BEGIN:STANDARD|DAYLIGHT`, then any number of RRULE / RDATE / EXRULE / EXDATE / TZOFFSETFROM / TZOFFSETTO /
    TZNAME / COMMENT lines in any order with any values, then `END:<the same>` raises (lines given after the split into
    NAME / parameters / value, `stepP` = `stepCore`; by `parse_rfc_errors_ValueError` what is raised is ValueError) -/
theorem component_without_dtstart (lib : RRuleLib) (st : PState) (kind : List Char)
    (hk : kind = lit "STANDARD" ∨ kind = lit "DAYLIGHT") (hin : st.invtz = true)
    (l0 l1 : List Char) (pm0 pm1 : List (List Char)) (ps : List PLine) (hps : ∀ p ∈ ps, OtherCompProp p.2.1) :
    ∃ e, ((l0, lit "BEGIN", pm0, kind) :: (ps ++ [(l1, lit "END", pm1, kind)])).foldlM (stepP lib) st = .error e :=
  ICalRfc.component_without_dtstart lib st kind hk hin l0 l1 pm0 pm1 ps hps

example : OtherCompProp (lit "RRULE") := Or.inl rfl

/-! non-vacuity: whole texts through the TRANSLATED function -/
def okLib : RRuleLib := fun _ => .ok [1]
def rejectLib : RRuleLib := fun _ => .error .ValueError
def goodText : List Char := lit
  "BEGIN:VTIMEZONE\r\nTZID:X\r\nBEGIN:STANDARD\r\nDTSTART:19701025T030000\r\nRRULE:FREQ=YEARLY;BYMONTH=10;BYDAY=-1SU\r\nTZOFFSETFROM:+0200\r\nTZOFFSETTO:+0100\r\nEND:STANDARD\r\nEND:VTIMEZONE\r\n"
example : (Gen.tzical_parseRfc okLib goodText).map (fun st => st.vtz.map (fun v => (v.tzid, v.comps.length))) =
    .ok [(lit "X", 1)] := by decide +kernel
/-- the same text when `rrulestr` rejects the component's lines -/
example : (Gen.tzical_parseRfc rejectLib goodText).map (·.vtz) = .error .ValueError := by decide +kernel
example : LibVE okLib := by intro l e h; cases h
example : (Gen.tzical_parseRfc okLib (lit "BEGIN:VTIMEZONE\nBEGIN:STANDARD\nRRULE:FREQ=YEARLY\nTZOFFSETFROM:+0200\nTZOFFSETTO:+0100\nEND:STANDARD\nTZID:X\nEND:VTIMEZONE\n")).map (·.vtz)
    = .error .ValueError := by decide +kernel

end C17
