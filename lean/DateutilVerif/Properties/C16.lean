/-
  Properties/C16.lean — relativedelta is a well-behaved value: normalised, comparable, hashable.

  `Gen.fix` is the translation of /repo's `relativedelta._fix` made on this run; the normalisation
  theorems are about that translation, for ALL integer field values (any size, any sign).
  The operators (`RDM.add/sub/neg/abs/mulInt/addTimedelta/mk/eq/hashKey/bool/applyTo`) are the
  hand model of Model/RelativeDelta.lean, tied to the code by the correspondence run.
  Not covered by any theorem (executable-only, harness oracle): float-valued fields, `*` `/` by a
  float, `normalized()`, and the ValueError for non-integer years/months.
-/
import DateutilVerif.Proofs.RDAlgebra
import DateutilVerif.Proofs.RDGenEq
import DateutilVerif.Model.RDHistory
import DateutilVerif.Proofs.RDScale

namespace C16
open RDM RDP

/-- **fix_bounds.** After `_fix`, whatever the input: |µs| ≤ 999999, |s| ≤ 59, |min| ≤ 59, |h| ≤ 23,
    |months| ≤ 11 and `_has_time` says exactly whether a time field is set. -/
theorem fix_bounds (d : RD) : Normalised (Gen.fix d) := by
  unfold Normalised
  rw [fix_us, fix_s, fix_m, fix_h, fix_mo]
  exact ⟨(carry_facts _ _ _ (by simp) (by decide)).1, (carry_facts _ _ _ (by simp) (by decide)).1,
         (carry_facts _ _ _ (by simp) (by decide)).1, (carry_facts _ _ _ (by simp) (by decide)).1,
         (carry_facts _ _ _ (by simp) (by decide)).1, fix_hasTime d⟩

/-- **fix_preserves_total.** The carries preserve the duration in µs and the month count, and touch
    no other field. -/
theorem fix_preserves_total (d : RD) :
    usTotal (Gen.fix d) = usTotal d ∧ monthTotal (Gen.fix d) = monthTotal d ∧
    (Gen.fix d).leapdays = d.leapdays ∧ (Gen.fix d).year = d.year ∧ (Gen.fix d).month = d.month ∧
    (Gen.fix d).day = d.day ∧ (Gen.fix d).weekday = d.weekday ∧ (Gen.fix d).hour = d.hour ∧
    (Gen.fix d).minute = d.minute ∧ (Gen.fix d).second = d.second ∧
    (Gen.fix d).microsecond = d.microsecond := by
  refine ⟨?_, ?_, fix_leapdays d, fix_year d, fix_month d, fix_day d, fix_weekday d, fix_hour d,
          fix_minute d, fix_second d, fix_microsecond d⟩
  · unfold usTotal
    rw [fix_us, fix_s, fix_m, fix_h, fix_d]
    have h1 := (carry_facts d.microseconds 999999 1000000 (by simp) (by decide)).2.1
    have h2 := (carry_facts (d.seconds + (cU d).2) 59 60 (by simp) (by decide)).2.1
    have h3 := (carry_facts (d.minutes + (cS d).2) 59 60 (by simp) (by decide)).2.1
    have h4 := (carry_facts (d.hours + (cM d).2) 23 24 (by simp) (by decide)).2.1
    show (((( d.days + (cH d).2) * 24 + (cH d).1) * 60 + (cM d).1) * 60 + (cS d).1) * 1000000 + (cU d).1 = _
    unfold cH cM cS at *
    generalize (carry (d.hours + _) 23 24) = a at *
    generalize (carry (d.minutes + _) 59 60) = b at *
    generalize (carry (d.seconds + _) 59 60) = c at *
    unfold cU at *
    generalize (carry d.microseconds 999999 1000000) = e at *
    omega
  · unfold monthTotal
    rw [fix_y, fix_mo]
    have h := (carry_facts d.months 11 12 (by simp) (by decide)).2.1
    unfold cMo; omega

/-- **fix_sign_preserving.** Carries never flip a sign: if every relative field is ≥ 0 (resp. ≤ 0) so is
    every field of the result; and the lowest field of each chain (µs, months) keeps its own sign
    whatever the others are. -/
theorem fix_sign_preserving (d : RD) :
    ((0 ≤ d.microseconds ∧ 0 ≤ d.seconds ∧ 0 ≤ d.minutes ∧ 0 ≤ d.hours ∧ 0 ≤ d.days) →
       0 ≤ (Gen.fix d).microseconds ∧ 0 ≤ (Gen.fix d).seconds ∧ 0 ≤ (Gen.fix d).minutes ∧
       0 ≤ (Gen.fix d).hours ∧ 0 ≤ (Gen.fix d).days) ∧
    ((d.microseconds ≤ 0 ∧ d.seconds ≤ 0 ∧ d.minutes ≤ 0 ∧ d.hours ≤ 0 ∧ d.days ≤ 0) →
       (Gen.fix d).microseconds ≤ 0 ∧ (Gen.fix d).seconds ≤ 0 ∧ (Gen.fix d).minutes ≤ 0 ∧
       (Gen.fix d).hours ≤ 0 ∧ (Gen.fix d).days ≤ 0) ∧
    (0 ≤ d.microseconds → 0 ≤ (Gen.fix d).microseconds) ∧
    (d.microseconds ≤ 0 → (Gen.fix d).microseconds ≤ 0) ∧
    (0 ≤ d.months → 0 ≤ (Gen.fix d).months ∧ d.years ≤ (Gen.fix d).years) ∧
    (d.months ≤ 0 → (Gen.fix d).months ≤ 0 ∧ (Gen.fix d).years ≤ d.years) := by
  rw [fix_us, fix_s, fix_m, fix_h, fix_d, fix_mo, fix_y]
  have f1 := carry_facts d.microseconds 999999 1000000 (by simp) (by decide)
  have f2 := carry_facts (d.seconds + (cU d).2) 59 60 (by simp) (by decide)
  have f3 := carry_facts (d.minutes + (cS d).2) 59 60 (by simp) (by decide)
  have f4 := carry_facts (d.hours + (cM d).2) 23 24 (by simp) (by decide)
  have f5 := carry_facts d.months 11 12 (by simp) (by decide)
  refine ⟨?_, ?_, ?_, ?_, ?_, ?_⟩
  · rintro ⟨h1, h2, h3, h4, h5⟩
    have g1 := f1.2.2.1 h1
    have g2 := f2.2.2.1 (by unfold cU; omega)
    have g3 := f3.2.2.1 (by unfold cS; omega)
    have g4 := f4.2.2.1 (by unfold cM; omega)
    unfold cH cM cS cU at *
    omega
  · rintro ⟨h1, h2, h3, h4, h5⟩
    have g1 := f1.2.2.2 h1
    have g2 := f2.2.2.2 (by unfold cU; omega)
    have g3 := f3.2.2.2 (by unfold cS; omega)
    have g4 := f4.2.2.2 (by unfold cM; omega)
    unfold cH cM cS cU at *
    omega
  · intro h; exact (f1.2.2.1 h).1
  · intro h; exact (f1.2.2.2 h).1
  · intro h; have := f5.2.2.1 h; unfold cMo; omega
  · intro h; have := f5.2.2.2 h; unfold cMo; omega

/-- a normalised value is a fixed point of `_fix` … -/
theorem fix_of_normalised (d : RD) (h : Normalised d) : Gen.fix d = d := RDP.fix_of_normalised d h

/-- **fix_idempotent.** … hence `_fix` is idempotent. -/
theorem fix_idempotent (d : RD) : Gen.fix (Gen.fix d) = Gen.fix d :=
  RDP.fix_of_normalised _ (fix_bounds d)

/-- **every_op_normalised.** Every constructor and operator ends in `_fix`, so every value is normalised. -/
theorem every_op_normalised (a b : RD) (k : Int) (kw : Kw) (td1 td2 td3 : Int) :
    Normalised (add a b) ∧ Normalised (sub a b) ∧ Normalised (neg a) ∧ Normalised (RDM.abs a) ∧
    Normalised (mulInt a k) ∧ Normalised (addTimedelta a td1 td2 td3) ∧
    (∀ r, mk kw = .ok r → Normalised r) := by
  refine ⟨fix_bounds _, fix_bounds _, fix_bounds _, fix_bounds _, fix_bounds _, fix_bounds _, ?_⟩
  intro r h
  unfold mk at h
  simp only [bind, Except.bind, pure, Except.pure] at h
  repeat' split at h
  all_goals first | contradiction | (injection h with h; rw [← h]; exact fix_bounds _)

/-- **mk_fields_id.** Constructing a relativedelta from a value's own fields reproduces it. -/
theorem mk_fields_id (d : RD) (h : Normalised d) : mk (fieldsOf d) = .ok d := by
  have e : Gen.fix { d with days := d.days + 0 * 7, hasTime := 0 } = d := by
    rw [fix_of_bounded]
    · apply rd_ext <;> try rfl
      · show d.days + 0 * 7 = d.days
        omega
      · show hasTimeOf _ = d.hasTime
        rw [h.2.2.2.2.2]; rfl
    · have hb : Bounded d := bounded_of_normalised h
      exact hb
  unfold mk fieldsOf
  cases hw : d.weekday <;>
  · simp only [hw, Option.map, weekdayOfArg, Except.map, bind, Except.bind, pure, Except.pure, orInt,
      ne_eq, not_true_eq_false, ↓reduceIte, false_and, and_false]
    rw [← hw]
    exact congrArg Except.ok e

/-- **eq_equivalence.** `==` is reflexive, symmetric and transitive. -/
theorem eq_refl (a : RD) : RDM.eq a a = true := by
  unfold RDM.eq wdEq
  cases a.weekday with
  | none => simp
  | some w => obtain ⟨w, n⟩ := w; simp

theorem wdEq_symm (a b : Option (Int × Option Int)) (h : wdEq a b = true) : wdEq b a = true := by
  unfold wdEq at *
  cases a with
  | none => cases b <;> simp_all
  | some x =>
    cases b with
    | none => simp_all
    | some y =>
      obtain ⟨w1, n1⟩ := x; obtain ⟨w2, n2⟩ := y
      simp only [ne_eq, ite_not, Bool.if_false_right, Bool.and_true, Bool.if_true_left] at *
      grind

theorem eq_symm (a b : RD) (h : RDM.eq a b = true) : RDM.eq b a = true := by
  unfold RDM.eq at *
  simp only [Bool.and_eq_true, beq_iff_eq] at *
  obtain ⟨hw, h1, h2⟩ := h
  refine ⟨wdEq_symm _ _ hw, ?_⟩
  grind

theorem wdEq_trans (a b c : Option (Int × Option Int)) (h1 : wdEq a b = true) (h2 : wdEq b c = true) :
    wdEq a c = true := by
  unfold wdEq at *
  cases a with
  | none => cases b <;> cases c <;> simp_all
  | some x =>
    cases b with
    | none => simp_all
    | some y =>
      cases c with
      | none => simp_all
      | some z =>
        obtain ⟨w1, n1⟩ := x; obtain ⟨w2, n2⟩ := y; obtain ⟨w3, n3⟩ := z
        simp only [ne_eq, ite_not, Bool.if_false_right, Bool.and_true, Bool.if_true_left] at *
        grind

theorem eq_trans (a b c : RD) (h1 : RDM.eq a b = true) (h2 : RDM.eq b c = true) : RDM.eq a c = true := by
  unfold RDM.eq at *
  simp only [Bool.and_eq_true, beq_iff_eq] at *
  refine ⟨wdEq_trans _ _ _ h1.1 h2.1, ?_⟩
  grind

/-- **eq_hash.** Equal values hash the same tuple (weekday `n` absent, 0 and 1 are identified
    by `==` and by the hashed tuple alike). -/
theorem eq_hash (a b : RD) (h : RDM.eq a b = true) : hashKey a = hashKey b := by
  unfold RDM.eq at h
  simp only [Bool.and_eq_true, beq_iff_eq] at h
  obtain ⟨hw, h⟩ := h
  unfold hashKey
  have e : a.weekday.map (fun w => (w.1, orInt w.2 1)) = b.weekday.map (fun w => (w.1, orInt w.2 1)) := by
    unfold wdEq at hw
    cases ha : a.weekday with
    | none => cases hb : b.weekday <;> simp_all
    | some x =>
      cases hb : b.weekday with
      | none => simp_all
      | some y =>
        obtain ⟨w1, n1⟩ := x; obtain ⟨w2, n2⟩ := y
        rw [ha, hb] at hw
        simp only [Option.map]
        by_cases hww : w1 = w2
        · subst hww
          by_cases hn : n1 = n2
          · subst hn; rfl
          · simp only [ne_eq, not_true_eq_false, ↓reduceIte, hn, not_false_eq_true, true_and,
              Bool.and_eq_true, ite_not] at hw
            split at hw
            · rename_i ht
              rw [nTrivial_orInt n1 ht.1, nTrivial_orInt n2 ht.2]
            · contradiction
        · simp [hww] at hw
  rw [e]
  grind

/-- **neg_neg.** `-(-d)` is `d` itself (not merely `==`) for every normalised value. -/
theorem neg_neg (d : RD) (h : Normalised d) : neg (neg d) = d := by
  have h' : Normalised (neg d) := fix_bounds _
  rw [neg_of_normalised (neg d) h', neg_of_normalised d h]
  apply rd_ext <;> first | rfl | exact Int.neg_neg _

/-- **add_neg_no_relative.** `d + (-d)` has no relative part (years … microseconds all 0). -/
theorem add_neg_no_relative (d : RD) (h : Normalised d) :
    (add d (neg d)).years = 0 ∧ (add d (neg d)).months = 0 ∧ (add d (neg d)).days = 0 ∧
    (add d (neg d)).hours = 0 ∧ (add d (neg d)).minutes = 0 ∧ (add d (neg d)).seconds = 0 ∧
    (add d (neg d)).microseconds = 0 := by
  rw [neg_of_normalised d h]
  unfold add
  rw [fix_of_bounded]
  · simp only []
    omega
  · unfold Bounded; simp only []; omega

/-- **bool_iff_no_field.** `bool(d)` is False exactly when no field is set. -/
theorem bool_iff_no_field (d : RD) :
    RDM.bool d = false ↔
      (d.years = 0 ∧ d.months = 0 ∧ d.days = 0 ∧ d.hours = 0 ∧ d.minutes = 0 ∧ d.seconds = 0 ∧
       d.microseconds = 0 ∧ d.leapdays = 0 ∧ d.year = none ∧ d.month = none ∧ d.day = none ∧
       d.weekday = none ∧ d.hour = none ∧ d.minute = none ∧ d.second = none ∧ d.microsecond = none) := by
  unfold RDM.bool
  simp only [Bool.not_eq_false', Bool.and_eq_true, beq_iff_eq, Option.isNone_iff_eq_none]
  constructor
  · intro h; simp only [and_assoc] at h; exact h
  · intro h; simp only [and_assoc]; exact h

theorem applyWeekday_of_wdEq (a b : Option (Int × Option Int)) (h : wdEq a b = true) (ret : DT) :
    applyWeekday a ret = applyWeekday b ret := by
  unfold wdEq at h
  cases a with
  | none => cases b <;> simp_all
  | some x =>
    cases b with
    | none => simp_all
    | some y =>
      obtain ⟨w1, n1⟩ := x; obtain ⟨w2, n2⟩ := y
      by_cases hww : w1 = w2
      · subst hww
        by_cases hn : n1 = n2
        · subst hn; rfl
        · simp only [ne_eq, not_true_eq_false, ↓reduceIte, hn, not_false_eq_true, true_and,
            Bool.and_eq_true, ite_not] at h
          split at h
          · rename_i ht
            unfold applyWeekday jumpDays
            simp only [nTrivial_orInt n1 ht.1, nTrivial_orInt n2 ht.2]
          · contradiction
      · simp [hww] at h

/-- **eq_applyTo.** Two equal (`==`) normalised deltas added to any date / datetime give the same result
    (same value or same exception). -/
theorem eq_applyTo (a b : RD) (ha : Normalised a) (hb : Normalised b) (h : RDM.eq a b = true)
    (x : Temporal) : applyTo a x = applyTo b x := by
  unfold RDM.eq at h
  simp only [Bool.and_eq_true, beq_iff_eq] at h
  obtain ⟨hw, h⟩ := h
  have ht : a.hasTime = b.hasTime := by
    rw [ha.2.2.2.2.2, hb.2.2.2.2.2]; unfold hasTimeOf; grind
  have e : b = { a with weekday := b.weekday } := by
    apply rd_ext <;> first | rfl | grind
  rw [e]
  have hw' : ∀ ret, applyWeekday a.weekday ret = applyWeekday b.weekday ret :=
    applyWeekday_of_wdEq _ _ hw
  unfold applyTo applyTail
  simp only [hw']
  rfl

/-- **mulInt_total.** Multiplying by an integer multiplies the duration and the month count
    (the implementation's `int(field * float(k))` is this exact product while |field·k| < 2^53;
    beyond that, and for non-integer scalars, only the harness oracle applies — `mul_float` is
    executable-only). -/
theorem mulInt_total (d : RD) (k : Int) :
    usTotal (mulInt d k) = usTotal d * k ∧ monthTotal (mulInt d k) = monthTotal d * k := by
  unfold mulInt
  obtain ⟨h1, h2, _⟩ := fix_preserves_total
    { d with years := d.years * k, months := d.months * k, days := d.days * k, hours := d.hours * k,
             minutes := d.minutes * k, seconds := d.seconds * k,
             microseconds := d.microseconds * k, hasTime := 0 }
  rw [h1, h2]
  unfold usTotal monthTotal
  simp only []
  constructor <;> grind

/-! ## `_gen` twins: the operators RE-TRANSLATED from /repo on this run (Generated/RDOps.lean)

`Gen.neg / abs / addRd / subRd / addTd / mulInt / bool / eq / hashKey` are translated from `__neg__`, `__abs__`,
`__add__` (relativedelta and timedelta operands), `__sub__`, `__mul__` (integer scalar), `__bool__`, `__eq__`,
`__hash__`; each calls the translated keyword constructor `Gen.initKw`, which ends in the translated `_fix`. -/

/-- **gen_ops_eq_model.** Every translated operator equals the hand model (and never raises). -/
theorem gen_ops_eq_model (a b : RD) (k d s u : Int) :
    Gen.neg a = .ok (neg a) ∧ Gen.abs a = .ok (RDM.abs a) ∧ Gen.addRd a b = .ok (add a b) ∧
    Gen.subRd a b = .ok (sub a b) ∧ Gen.addTd a d s u = .ok (addTimedelta a d s u) ∧
    Gen.mulInt a k = .ok (mulInt a k) ∧ Gen.bool a = .ok (RDM.bool a) ∧ Gen.eq a b = .ok (RDM.eq a b) ∧
    Gen.hashKey a = .ok (hashList a) :=
  ⟨RDG.neg_eq a, RDG.abs_eq a, RDG.addRd_eq a b, RDG.subRd_eq a b, RDG.addTd_rd_eq a d s u, RDG.mulInt_eq a k,
   RDG.bool_eq a, RDG.eq_eq a b, RDG.hashKey_eq a⟩

/-- **every_op_normalised_gen.** -/
theorem every_op_normalised_gen (a b r : RD) (k d s u : Int)
    (h : Gen.neg a = .ok r ∨ Gen.abs a = .ok r ∨ Gen.addRd a b = .ok r ∨ Gen.subRd a b = .ok r ∨
         Gen.addTd a d s u = .ok r ∨ Gen.mulInt a k = .ok r) : Normalised r := by
  rw [RDG.neg_eq, RDG.abs_eq, RDG.addRd_eq, RDG.subRd_eq, RDG.addTd_rd_eq, RDG.mulInt_eq] at h
  rcases h with h | h | h | h | h | h <;> (injection h with h; rw [← h]; exact fix_bounds _)

/-- **eq_equivalence_gen / eq_hash_gen.** The translated `__eq__` is an equivalence and implies equality of the
    translated `__hash__` tuples. -/
theorem eq_equivalence_gen (a b c : RD) :
    Gen.eq a a = .ok true ∧ (Gen.eq a b = .ok true → Gen.eq b a = .ok true) ∧
    (Gen.eq a b = .ok true → Gen.eq b c = .ok true → Gen.eq a c = .ok true) := by
  simp only [RDG.eq_eq, Except.ok.injEq]
  exact ⟨eq_refl a, eq_symm a b, eq_trans a b c⟩

/-- the translated `__hash__` tuple is compared ELEMENT BY ELEMENT in source order (`hashList`) -/
theorem eq_hash_gen (a b : RD) (h : Gen.eq a b = .ok true) : Gen.hashKey a = Gen.hashKey b := by
  rw [RDG.eq_eq] at h; injection h with h
  rw [RDG.hashKey_eq, RDG.hashKey_eq, (RDG.hashList_eq_iff a b).2 (eq_hash a b h)]

theorem neg_neg_gen (d : RD) (h : Normalised d) : (Gen.neg d).bind Gen.neg = .ok d := by
  rw [RDG.neg_eq]
  show Gen.neg (neg d) = .ok d
  rw [RDG.neg_eq, neg_neg d h]

theorem bool_iff_no_field_gen (d : RD) :
    Gen.bool d = .ok false ↔
      (d.years = 0 ∧ d.months = 0 ∧ d.days = 0 ∧ d.hours = 0 ∧ d.minutes = 0 ∧ d.seconds = 0 ∧
       d.microseconds = 0 ∧ d.leapdays = 0 ∧ d.year = none ∧ d.month = none ∧ d.day = none ∧
       d.weekday = none ∧ d.hour = none ∧ d.minute = none ∧ d.second = none ∧ d.microsecond = none) := by
  rw [RDG.bool_eq, Except.ok.injEq]; exact bool_iff_no_field d

theorem eq_applyTo_gen (a b : RD) (ha : Normalised a) (hb : Normalised b) (h : Gen.eq a b = .ok true)
    (x : Temporal) : Gen.addDt a x = Gen.addDt b x := by
  rw [RDG.eq_eq] at h; injection h with h
  rw [RDG.addDt_eq, RDG.addDt_eq]; exact eq_applyTo a b ha hb h x

theorem mulInt_total_gen (d r : RD) (k : Int) (h : Gen.mulInt d k = .ok r) :
    usTotal r = usTotal d * k ∧ monthTotal r = monthTotal d * k := by
  rw [RDG.mulInt_eq] at h; injection h with h; rw [← h]; exact mulInt_total d k

/-- **constructor_gen.** The translated keyword constructor is `mk` (C03.gen_initKw_eq_mk); hence whatever it
    returns is normalised, and constructing from a value's own fields reproduces the value. -/
theorem constructor_gen (kw : Kw) (d : RD) :
    Gen.initKw kw = mk kw ∧ (∀ r, Gen.initKw kw = .ok r → Normalised r) ∧
    (Normalised d → Gen.initKw (fieldsOf d) = .ok d) := by
  refine ⟨RDG.initKw_eq kw, ?_, ?_⟩
  · intro r h; rw [RDG.initKw_eq] at h
    exact (every_op_normalised d d 0 kw 0 0 0).2.2.2.2.2.2 r h
  · intro h; rw [RDG.initKw_eq]; exact mk_fields_id d h

/-! ## the history of ONE object (a relativedelta is mutable: `weeks` setter, attribute assignment)

The property quantifies over values "however constructed or combined".  An object that was used (added to a date, hashed,
compared …), then mutated, then used again must answer like the value its CURRENT fields denote: nothing that a use
computed may survive into the next use.  `RDH.run` (Model/RDHistory.lean) is the life of one object over the methods
re-translated from /repo on this run; that a use leaves the record alone is read off the source on every run (AST audit
`rdlib.write_audit`: no method writes an attribute outside `__init__` / `_fix` / `_set_months` / the `weeks` setter). -/

open RDH in
/-- the record after a history is the record after its mutations alone: uses leave no trace in the state -/
theorem history_state (d : RD) (h : List Step) : (run d h).1 = stateAfter d (muts h) := by
  induction h generalizing d with
  | nil => rfl
  | cons s rest ih =>
    cases s with
    | use u => simp only [run, step, muts]; exact ih d
    | set m => simp only [run, step, muts, stateAfter, List.foldl]; exact ih (applyMut d m)

open RDH in
theorem history_append (d : RD) (h1 h2 : List Step) :
    run d (h1 ++ h2) = ((run (run d h1).1 h2).1, (run d h1).2 ++ (run (run d h1).1 h2).2) := by
  induction h1 generalizing d with
  | nil => simp [run]
  | cons s rest ih =>
    simp only [List.cons_append, run]
    rw [ih]
    simp only [List.append_assoc]

open RDH in
/-- **use_after_set_eq_fresh.** After ANY history `h` (uses and mutations in any order, any length) from any record, the
    next use of the object returns exactly what the same use returns on a fresh record holding the current field
    values (`stateAfter d0 (muts h)`: the start record with the history's mutations applied, and nothing else) — the
    earlier uses, their arguments and their results have no influence; the record itself is unchanged by the use. -/
theorem use_after_set_eq_fresh (d0 : RD) (h : List Step) (u : Use) :
    (run d0 (h ++ [.use u])).2 = (run d0 h).2 ++ [observe (stateAfter d0 (muts h)) u] ∧
    (run d0 (h ++ [.use u])).1 = stateAfter d0 (muts h) := by
  rw [history_append]
  simp only [run, step, List.append_nil]
  rw [history_state]
  exact ⟨rfl, rfl⟩

open RDH in
/-- **same_mutations_same_answer.** Two lives of an object that differ only in HOW it was used in between (which uses,
    how many, on what arguments) give the same answer to the next use. -/
theorem same_mutations_same_answer (d0 : RD) (h1 h2 : List Step) (u : Use) (hm : muts h1 = muts h2) :
    (run d0 (h1 ++ [.use u])).2.getLast? = (run d0 (h2 ++ [.use u])).2.getLast? ∧
    (run d0 (h1 ++ [.use u])).1 = (run d0 (h2 ++ [.use u])).1 := by
  rw [(use_after_set_eq_fresh d0 h1 u).1, (use_after_set_eq_fresh d0 h2 u).1,
      (use_after_set_eq_fresh d0 h1 u).2, (use_after_set_eq_fresh d0 h2 u).2, hm]
  simp

open RDH in
/-- every observation through the translated methods is the hand model's function of the record -/
theorem observe_eq_model (d : RD) (u : Use) :
    observe d u = (match u with
      | .addDt x => .temporal (applyTo d x)
      | .raddDt x => .temporal (radd d x)
      | .rsubDt x => .temporal (rsub d x)
      | .hash => .hash (.ok (hashList d))
      | .bool => .bool (.ok (RDM.bool d))
      | .eq o => .bool (.ok (RDM.eq d o))
      | .eqRev o => .bool (.ok (RDM.eq o d))
      | .neg => .rd (.ok (neg d))
      | .abs => .rd (.ok (RDM.abs d))
      | .addRd o => .rd (.ok (add d o))
      | .raddRd o => .rd (.ok (add o d))
      | .subRd o => .rd (.ok (sub d o))
      | .mulInt k => .rd (.ok (mulInt d k))
      | .addTd dd s us => .rd (.ok (addTimedelta d dd s us))
      | .weeks => .int (weeksOf d)
      | .normalized => .rd (.ok (normalizedInt d))
      | .mulDy f => .rd (.ok (mulDyadic d f.m f.k))
      | .divPow2 p => .rd (.ok (divPow2 d p.neg p.k))) := by
  cases u <;> simp only [observe, RDG.addDt_eq, RDG.raddDt_eq, RDG.rsubDt_eq, RDG.hashKey_eq, RDG.bool_eq, RDG.eq_eq,
    RDG.neg_eq, RDG.abs_eq, RDG.addRd_eq, RDG.subRd_eq, RDG.mulInt_eq, RDG.addTd_rd_eq, RDG.normalized_eq, RDG.mulDy_eq,
    RDG.divPow2_eq]

open RDH in
/-- **reachable_state_is_constructed.** When the current record is in normal form (what the constructor and the operators
    return, `every_op_normalised`), the fresh record of `use_after_set_eq_fresh` IS the object the translated
    constructor builds from the current field values: `relativedelta(**fields)`. -/
theorem reachable_state_is_constructed (d0 : RD) (h : List Step) (hn : Normalised (stateAfter d0 (muts h))) :
    Gen.initKw (fieldsOf (stateAfter d0 (muts h))) = .ok (run d0 h).1 := by
  rw [history_state]; exact (constructor_gen {} _).2.2 hn

open RDH in
/-- **setWeeks_normalised.** The public `weeks` setter keeps a value a value: only `days` (unbounded in the normal form,
    not a source of `_has_time`) changes, by a multiple of 7 plus the old remainder. -/
theorem setWeeks_normalised (d : RD) (v : Int) (h : Normalised d) :
    Normalised (setWeeks d v) ∧ (setWeeks d v).days = d.days - weeksOf d * 7 + v * 7 ∧
    { setWeeks d v with days := d.days } = d := by
  refine ⟨?_, rfl, rfl⟩
  unfold Normalised setWeeks hasTimeOf at *
  exact h

open RDH in
/-- **weeks_setWeeks.** Reading `weeks` back after setting it returns the value set whenever the remainder of the old
    days and the new weeks do not pull in opposite directions (e.g. `days=-3; weeks=2` gives days = 11, weeks = 1:
    the code as it is; outside this hypothesis the getter is still `tdiv days 7` of the new days). -/
theorem weeks_setWeeks (d : RD) (v : Int)
    (h : (0 ≤ d.days ∧ 0 ≤ v) ∨ (d.days ≤ 0 ∧ v ≤ 0) ∨ d.days % 7 = 0) : weeksOf (setWeeks d v) = v := by
  unfold setWeeks weeksOf
  simp only []
  split <;> split <;> omega

/-! ## exact scaling (`*` / `/` by dyadic factors) and `normalized()` on integer-valued fields

`Gen.mulDy / divPow2 / normalized` are translated from `__mul__` (the float factor `m / 2^k`: `int(field * f)` is the
quotient `field·m / 2^k` truncated toward zero — exact float arithmetic while |field·m| < 2^53), `__div__` (`1 / float(other)`
is exact for a power of two) and `normalized()` (on integers `round` / `int` are the identity and every remainder is 0).
Fractional FIELDS, other float factors (`/ 3`, `* 0.1`) and `normalized()` of fractional fields are NOT covered here: they
stay with the executable oracle. -/

/-- **gen_scale_eq_model.** The translated `__mul__` (dyadic factor), `__div__` (power of two) and `normalized()` equal the
    hand model and never raise. -/
theorem gen_scale_eq_model (d : RD) (f : RDPy.Dy) (p : RDPy.Pow2) :
    Gen.mulDy d f = .ok (mulDyadic d f.m f.k) ∧ Gen.divPow2 d p = .ok (divPow2 d p.neg p.k) ∧
    Gen.normalized d = .ok (normalizedInt d) :=
  ⟨RDG.mulDy_eq d f, RDG.divPow2_eq d p, RDG.normalized_eq d⟩

/-- **normalized_spec.** `normalized()` of ANY integer-valued record (normal form or not, e.g. after `d.hours = 100`): the
    result is in normal form with integer fields, keeps the duration in µs and the month count, touches no absolute field /
    weekday / leapdays — and is the identity on values (records in normal form). -/
theorem normalized_spec (d : RD) :
    Normalised (normalizedInt d) ∧ usTotal (normalizedInt d) = usTotal d ∧ monthTotal (normalizedInt d) = monthTotal d ∧
    (normalizedInt d).leapdays = d.leapdays ∧ (normalizedInt d).year = d.year ∧ (normalizedInt d).month = d.month ∧
    (normalizedInt d).day = d.day ∧ (normalizedInt d).weekday = d.weekday ∧ (normalizedInt d).hour = d.hour ∧
    (normalizedInt d).minute = d.minute ∧ (normalizedInt d).second = d.second ∧
    (normalizedInt d).microsecond = d.microsecond ∧ (Normalised d → normalizedInt d = d) := by
  obtain ⟨t1, t2, t3⟩ := fix_preserves_total { d with hasTime := 0 }
  refine ⟨fix_bounds _, t1, t2, t3.1, t3.2.1, t3.2.2.1, t3.2.2.2.1, t3.2.2.2.2.1, t3.2.2.2.2.2.1, t3.2.2.2.2.2.2.1,
    t3.2.2.2.2.2.2.2.1, t3.2.2.2.2.2.2.2.2, ?_⟩
  intro h
  unfold normalizedInt
  have hb : Bounded { d with hasTime := 0 } := (bounded_of_normalised h : Bounded d)
  rw [fix_of_bounded _ hb]
  apply rd_ext <;> try rfl
  show hasTimeOf _ = d.hasTime
  rw [h.2.2.2.2.2]; rfl

theorem normalized_spec_gen (d r : RD) (h : Gen.normalized d = .ok r) :
    Normalised r ∧ usTotal r = usTotal d ∧ monthTotal r = monthTotal d ∧ (Normalised d → r = d) := by
  rw [RDG.normalized_eq] at h; injection h with h; rw [← h]
  have := normalized_spec d
  exact ⟨this.1, this.2.1, this.2.2.1, this.2.2.2.2.2.2.2.2.2.2.2.2⟩

/-- **mulDyadic_int.** For an integer factor (`k = 0`) the dyadic model is `mulInt`: `d * 3`, `d * 3.0`. -/
theorem mulDyadic_int (d : RD) (m : Int) : mulDyadic d m 0 = mulInt d m := by
  unfold mulDyadic mulInt scaleField
  simp only [Int.pow_zero, RDG.tquot_one]

/-- **mulDyadic_spec.** `d * (m / 2^k)` for every integer record, every `m`, every `k`: the result is in normal form
    (integer fields); absolute fields, weekday and leapdays are untouched; and the totals are within ONE unit per field of the
    exact rational product (each field loses less than one of its own units to the truncation toward zero):
    |µs-total · 2^k − µs-total(d) · m| < 2^k · (1 day + 1 h + 1 min + 1 s + 1 µs),  |months · 2^k − months(d) · m| < 2^k · 13. -/
theorem mulDyadic_spec (d : RD) (m : Int) (k : Nat) :
    Normalised (mulDyadic d m k) ∧
    (mulDyadic d m k).leapdays = d.leapdays ∧ (mulDyadic d m k).year = d.year ∧ (mulDyadic d m k).month = d.month ∧
    (mulDyadic d m k).day = d.day ∧ (mulDyadic d m k).weekday = d.weekday ∧ (mulDyadic d m k).hour = d.hour ∧
    (mulDyadic d m k).minute = d.minute ∧ (mulDyadic d m k).second = d.second ∧
    (mulDyadic d m k).microsecond = d.microsecond ∧
    (usTotal (mulDyadic d m k) * 2 ^ k - usTotal d * m < 2 ^ k * 90061000001 ∧
     usTotal d * m - usTotal (mulDyadic d m k) * 2 ^ k < 2 ^ k * 90061000001) ∧
    (monthTotal (mulDyadic d m k) * 2 ^ k - monthTotal d * m < 2 ^ k * 13 ∧
     monthTotal d * m - monthTotal (mulDyadic d m k) * 2 ^ k < 2 ^ k * 13) := by
  have hP : (0 : Int) < 2 ^ k := Int.pow_pos (by decide)
  unfold mulDyadic
  obtain ⟨t1, t2, t3⟩ := fix_preserves_total
    { d with years := scaleField d.years m k, months := scaleField d.months m k, days := scaleField d.days m k,
             hours := scaleField d.hours m k, minutes := scaleField d.minutes m k,
             seconds := scaleField d.seconds m k, microseconds := scaleField d.microseconds m k, hasTime := 0 }
  refine ⟨fix_bounds _, t3.1, t3.2.1, t3.2.2.1, t3.2.2.2.1, t3.2.2.2.2.1, t3.2.2.2.2.2.1, t3.2.2.2.2.2.2.1,
    t3.2.2.2.2.2.2.2.1, t3.2.2.2.2.2.2.2.2, ?_, ?_⟩
  · rw [t1]
    unfold usTotal scaleField
    simp only []
    have a1 := RDG.tquot_spec (d.days * m) (2 ^ k) hP
    have a2 := RDG.tquot_spec (d.hours * m) (2 ^ k) hP
    have a3 := RDG.tquot_spec (d.minutes * m) (2 ^ k) hP
    have a4 := RDG.tquot_spec (d.seconds * m) (2 ^ k) hP
    have a5 := RDG.tquot_spec (d.microseconds * m) (2 ^ k) hP
    generalize RDPy.tquot (d.days * m) (2 ^ k) = q1 at *
    generalize RDPy.tquot (d.hours * m) (2 ^ k) = q2 at *
    generalize RDPy.tquot (d.minutes * m) (2 ^ k) = q3 at *
    generalize RDPy.tquot (d.seconds * m) (2 ^ k) = q4 at *
    generalize RDPy.tquot (d.microseconds * m) (2 ^ k) = q5 at *
    have e : ((((q1 * 24 + q2) * 60 + q3) * 60 + q4) * 1000000 + q5) * 2 ^ k =
        (((q1 * 2 ^ k * 24 + q2 * 2 ^ k) * 60 + q3 * 2 ^ k) * 60 + q4 * 2 ^ k) * 1000000 + q5 * 2 ^ k := by grind
    have e' : ((((d.days * 24 + d.hours) * 60 + d.minutes) * 60 + d.seconds) * 1000000 + d.microseconds) * m =
        (((d.days * m * 24 + d.hours * m) * 60 + d.minutes * m) * 60 + d.seconds * m) * 1000000 + d.microseconds * m := by
      grind
    rw [e, e']
    generalize q1 * 2 ^ k = p1 at *
    generalize q2 * 2 ^ k = p2 at *
    generalize q3 * 2 ^ k = p3 at *
    generalize q4 * 2 ^ k = p4 at *
    generalize q5 * 2 ^ k = p5 at *
    generalize d.days * m = x1 at *
    generalize d.hours * m = x2 at *
    generalize d.minutes * m = x3 at *
    generalize d.seconds * m = x4 at *
    generalize d.microseconds * m = x5 at *
    generalize (2 : Int) ^ k = P at *
    omega
  · rw [t2]
    unfold monthTotal scaleField
    simp only []
    have a1 := RDG.tquot_spec (d.years * m) (2 ^ k) hP
    have a2 := RDG.tquot_spec (d.months * m) (2 ^ k) hP
    generalize RDPy.tquot (d.years * m) (2 ^ k) = q1 at *
    generalize RDPy.tquot (d.months * m) (2 ^ k) = q2 at *
    have e : (q1 * 12 + q2) * 2 ^ k = q1 * 2 ^ k * 12 + q2 * 2 ^ k := by grind
    have e' : (d.years * 12 + d.months) * m = d.years * m * 12 + d.months * m := by grind
    rw [e, e']
    generalize q1 * 2 ^ k = p1 at *
    generalize q2 * 2 ^ k = p2 at *
    generalize d.years * m = x1 at *
    generalize d.months * m = x2 at *
    generalize (2 : Int) ^ k = P at *
    omega

/-- **mulDyadic_exact.** When every scaled field is an integer (`2^k ∣ field·m`: e.g. halving even fields, `* 1.5` of
    even fields, `/ 4` of multiples of 4) nothing is lost: the totals are exactly `m / 2^k` times the old ones. -/
theorem mulDyadic_exact (d : RD) (m : Int) (k : Nat)
    (h : d.years * m % 2 ^ k = 0 ∧ d.months * m % 2 ^ k = 0 ∧ d.days * m % 2 ^ k = 0 ∧ d.hours * m % 2 ^ k = 0 ∧
         d.minutes * m % 2 ^ k = 0 ∧ d.seconds * m % 2 ^ k = 0 ∧ d.microseconds * m % 2 ^ k = 0) :
    usTotal (mulDyadic d m k) * 2 ^ k = usTotal d * m ∧ monthTotal (mulDyadic d m k) * 2 ^ k = monthTotal d * m := by
  have hP : (0 : Int) < 2 ^ k := Int.pow_pos (by decide)
  unfold mulDyadic
  obtain ⟨t1, t2, _⟩ := fix_preserves_total
    { d with years := scaleField d.years m k, months := scaleField d.months m k, days := scaleField d.days m k,
             hours := scaleField d.hours m k, minutes := scaleField d.minutes m k,
             seconds := scaleField d.seconds m k, microseconds := scaleField d.microseconds m k, hasTime := 0 }
  rw [t1, t2]
  unfold usTotal monthTotal scaleField
  simp only []
  have b1 := RDG.tquot_exact _ _ hP h.1
  have b2 := RDG.tquot_exact _ _ hP h.2.1
  have b3 := RDG.tquot_exact _ _ hP h.2.2.1
  have b4 := RDG.tquot_exact _ _ hP h.2.2.2.1
  have b5 := RDG.tquot_exact _ _ hP h.2.2.2.2.1
  have b6 := RDG.tquot_exact _ _ hP h.2.2.2.2.2.1
  have b7 := RDG.tquot_exact _ _ hP h.2.2.2.2.2.2
  constructor <;> grind

/-- `mulDyadic_spec` about the translated `__mul__` / `__div__` -/
theorem mulDyadic_spec_gen (d r : RD) (f : RDPy.Dy) (p : RDPy.Pow2)
    (h : Gen.mulDy d f = .ok r ∨ (Gen.divPow2 d p = .ok r ∧ f = RDPy.recipPow2 p)) :
    Normalised r ∧
    (usTotal r * 2 ^ f.k - usTotal d * f.m < 2 ^ f.k * 90061000001 ∧
     usTotal d * f.m - usTotal r * 2 ^ f.k < 2 ^ f.k * 90061000001) ∧
    (monthTotal r * 2 ^ f.k - monthTotal d * f.m < 2 ^ f.k * 13 ∧
     monthTotal d * f.m - monthTotal r * 2 ^ f.k < 2 ^ f.k * 13) := by
  have hr : r = mulDyadic d f.m f.k := by
    rcases h with h | ⟨h, hf⟩
    · rw [RDG.mulDy_eq] at h; injection h with h; exact h.symm
    · rw [RDG.divPow2_eq] at h; injection h with h; rw [← h, hf]; rfl
  rw [hr]
  have := mulDyadic_spec d f.m f.k
  exact ⟨this.1, this.2.2.2.2.2.2.2.2.2.2.1, this.2.2.2.2.2.2.2.2.2.2.2⟩

-- non-vacuity / sanity
example : Gen.fix { seconds := -3661, microseconds := 2500000 } =
    { hours := -1, minutes := 0, seconds := -59, microseconds := 500000, hasTime := 1 } := by decide
example : Normalised (Gen.fix { seconds := 10 ^ 30, months := -25 }) := fix_bounds _
example : mk { weekday := some (.int 0) } = .ok { weekday := some (0, none) } := by decide
example : RDM.eq { weekday := some (0, none) } { weekday := some (0, some 1) } = true := by decide
example : hashKey { weekday := some (0, none) } = hashKey ({ weekday := some (0, some 1) } : RD) := by decide
example : RDM.eq { weekday := some (0, some 2) } { weekday := some (0, none) } = false := by decide
example : mk { yearday := some 367 } = .error .ValueError := by decide
example : mk { yearday := some 60 } = .ok { leapdays := -1, month := some 3, day := some 1 } := by decide
example : Normalised (neg { days := 3, hours := -5, hasTime := 1 }) := (every_op_normalised _ {} 0 {} 0 0 0).2.2.1

example : (RDH.run { days := 10 } [.use (.addDt ⟨.date, { y := 2000, m := 1, d := 1 }⟩), .set (.weeks 3), .use .hash,
    .set (.hours 5), .use (.addDt ⟨.date, { y := 2000, m := 1, d := 1 }⟩)]).1 = { days := 24, hours := 5 } := by decide +kernel
example : (RDH.run { days := 10 } [.use (.addDt ⟨.date, { y := 2000, m := 1, d := 1 }⟩), .set (.weeks 3),
    .use (.addDt ⟨.date, { y := 2000, m := 1, d := 1 }⟩)]).2 =
    [.temporal (.ok ⟨.date, { y := 2000, m := 1, d := 11 }⟩), .temporal (.ok ⟨.date, { y := 2000, m := 1, d := 25 }⟩)] := by
  decide +kernel
example : mulDyadic { days := 3, hours := 5, years := 1, months := 2 } 1 1 = { days := 1, hours := 2, months := 1, hasTime := 1 } := by
  decide +kernel     -- relativedelta(years=1, months=2, days=3, hours=5) * 0.5 (every field truncated toward zero)
example : divPow2 { days := -7, minutes := 90 } true 1 = { days := 3, minutes := -45, hasTime := 1 } := by decide +kernel
example : normalizedInt { hours := 100, minutes := -61, hasTime := 0 } = { days := 4, hours := 3, minutes := -1, hasTime := 1 } := by
  decide +kernel
end C16
