/-
  Properties/C16.lean — relativedelta is a well-behaved value: normalised, comparable, hashable.

  `Gen.fix` is the translation of /repo's `relativedelta._fix` made on this run; the normalisation
  theorems are about that translation, for ALL integer field values (any size, any sign).
  The operators (`RDM.add/sub/neg/abs/mulInt/addTimedelta/mk/eq/hashKey/bool/applyTo`) are the
  hand model of Model/RelativeDelta.lean, tied to the code by the correspondence run.
  Not covered by any theorem (executable-only, harness oracle): float-valued fields, `*` `/` by a
  float, `normalized()`, and the ValueError for non-integer years/months.
-/
import DateutilVerif.Proofs.RDAlgebra
import DateutilVerif.Proofs.RDGenEq
import DateutilVerif.Model.RDHistory

namespace C16
open RDM RDP

/-- **fix_bounds.** After `_fix`, whatever the input: |µs| ≤ 999999, |s| ≤ 59, |min| ≤ 59, |h| ≤ 23,
    |months| ≤ 11 and `_has_time` says exactly whether a time field is set. -/
theorem fix_bounds (d : RD) : Normalised (Gen.fix d) := by
  unfold Normalised
  rw [fix_us, fix_s, fix_m, fix_h, fix_mo]
  exact ⟨(carry_facts _ _ _ (by simp) (by decide)).1, (carry_facts _ _ _ (by simp) (by decide)).1,
         (carry_facts _ _ _ (by simp) (by decide)).1, (carry_facts _ _ _ (by simp) (by decide)).1,
         (carry_facts _ _ _ (by simp) (by decide)).1, fix_hasTime d⟩

/-- **fix_preserves_total.** The carries preserve the duration in µs and the month count, and touch
    no other field. -/
theorem fix_preserves_total (d : RD) :
    usTotal (Gen.fix d) = usTotal d ∧ monthTotal (Gen.fix d) = monthTotal d ∧
    (Gen.fix d).leapdays = d.leapdays ∧ (Gen.fix d).year = d.year ∧ (Gen.fix d).month = d.month ∧
    (Gen.fix d).day = d.day ∧ (Gen.fix d).weekday = d.weekday ∧ (Gen.fix d).hour = d.hour ∧
    (Gen.fix d).minute = d.minute ∧ (Gen.fix d).second = d.second ∧
    (Gen.fix d).microsecond = d.microsecond := by
  refine ⟨?_, ?_, fix_leapdays d, fix_year d, fix_month d, fix_day d, fix_weekday d, fix_hour d,
          fix_minute d, fix_second d, fix_microsecond d⟩
  · unfold usTotal
    rw [fix_us, fix_s, fix_m, fix_h, fix_d]
    have h1 := (carry_facts d.microseconds 999999 1000000 (by simp) (by decide)).2.1
    have h2 := (carry_facts (d.seconds + (cU d).2) 59 60 (by simp) (by decide)).2.1
    have h3 := (carry_facts (d.minutes + (cS d).2) 59 60 (by simp) (by decide)).2.1
    have h4 := (carry_facts (d.hours + (cM d).2) 23 24 (by simp) (by decide)).2.1
    show (((( d.days + (cH d).2) * 24 + (cH d).1) * 60 + (cM d).1) * 60 + (cS d).1) * 1000000 + (cU d).1 = _
    unfold cH cM cS at *
    generalize (carry (d.hours + _) 23 24) = a at *
    generalize (carry (d.minutes + _) 59 60) = b at *
    generalize (carry (d.seconds + _) 59 60) = c at *
    unfold cU at *
    generalize (carry d.microseconds 999999 1000000) = e at *
    omega
  · unfold monthTotal
    rw [fix_y, fix_mo]
    have h := (carry_facts d.months 11 12 (by simp) (by decide)).2.1
    unfold cMo; omega

/-- **fix_sign_preserving.** Carries never flip a sign: if every relative field is ≥ 0 (resp. ≤ 0) so is
    every field of the result; and the lowest field of each chain (µs, months) keeps its own sign
    whatever the others are. -/
theorem fix_sign_preserving (d : RD) :
    ((0 ≤ d.microseconds ∧ 0 ≤ d.seconds ∧ 0 ≤ d.minutes ∧ 0 ≤ d.hours ∧ 0 ≤ d.days) →
       0 ≤ (Gen.fix d).microseconds ∧ 0 ≤ (Gen.fix d).seconds ∧ 0 ≤ (Gen.fix d).minutes ∧
       0 ≤ (Gen.fix d).hours ∧ 0 ≤ (Gen.fix d).days) ∧
    ((d.microseconds ≤ 0 ∧ d.seconds ≤ 0 ∧ d.minutes ≤ 0 ∧ d.hours ≤ 0 ∧ d.days ≤ 0) →
       (Gen.fix d).microseconds ≤ 0 ∧ (Gen.fix d).seconds ≤ 0 ∧ (Gen.fix d).minutes ≤ 0 ∧
       (Gen.fix d).hours ≤ 0 ∧ (Gen.fix d).days ≤ 0) ∧
    (0 ≤ d.microseconds → 0 ≤ (Gen.fix d).microseconds) ∧
    (d.microseconds ≤ 0 → (Gen.fix d).microseconds ≤ 0) ∧
    (0 ≤ d.months → 0 ≤ (Gen.fix d).months ∧ d.years ≤ (Gen.fix d).years) ∧
    (d.months ≤ 0 → (Gen.fix d).months ≤ 0 ∧ (Gen.fix d).years ≤ d.years) := by
  rw [fix_us, fix_s, fix_m, fix_h, fix_d, fix_mo, fix_y]
  have f1 := carry_facts d.microseconds 999999 1000000 (by simp) (by decide)
  have f2 := carry_facts (d.seconds + (cU d).2) 59 60 (by simp) (by decide)
  have f3 := carry_facts (d.minutes + (cS d).2) 59 60 (by simp) (by decide)
  have f4 := carry_facts (d.hours + (cM d).2) 23 24 (by simp) (by decide)
  have f5 := carry_facts d.months 11 12 (by simp) (by decide)
  refine ⟨?_, ?_, ?_, ?_, ?_, ?_⟩
  · rintro ⟨h1, h2, h3, h4, h5⟩
    have g1 := f1.2.2.1 h1
    have g2 := f2.2.2.1 (by unfold cU; omega)
    have g3 := f3.2.2.1 (by unfold cS; omega)
    have g4 := f4.2.2.1 (by unfold cM; omega)
    unfold cH cM cS cU at *
    omega
  · rintro ⟨h1, h2, h3, h4, h5⟩
    have g1 := f1.2.2.2 h1
    have g2 := f2.2.2.2 (by unfold cU; omega)
    have g3 := f3.2.2.2 (by unfold cS; omega)
    have g4 := f4.2.2.2 (by unfold cM; omega)
    unfold cH cM cS cU at *
    omega
  · intro h; exact (f1.2.2.1 h).1
  · intro h; exact (f1.2.2.2 h).1
  · intro h; have := f5.2.2.1 h; unfold cMo; omega
  · intro h; have := f5.2.2.2 h; unfold cMo; omega

/-- a normalised value is a fixed point of `_fix` … -/
theorem fix_of_normalised (d : RD) (h : Normalised d) : Gen.fix d = d := RDP.fix_of_normalised d h

/-- **fix_idempotent.** … hence `_fix` is idempotent. -/
theorem fix_idempotent (d : RD) : Gen.fix (Gen.fix d) = Gen.fix d :=
  RDP.fix_of_normalised _ (fix_bounds d)

/-- **every_op_normalised.** Every constructor and operator ends in `_fix`, so every value is normalised. -/
theorem every_op_normalised (a b : RD) (k : Int) (kw : Kw) (td1 td2 td3 : Int) :
    Normalised (add a b) ∧ Normalised (sub a b) ∧ Normalised (neg a) ∧ Normalised (RDM.abs a) ∧
    Normalised (mulInt a k) ∧ Normalised (addTimedelta a td1 td2 td3) ∧
    (∀ r, mk kw = .ok r → Normalised r) := by
  refine ⟨fix_bounds _, fix_bounds _, fix_bounds _, fix_bounds _, fix_bounds _, fix_bounds _, ?_⟩
  intro r h
  unfold mk at h
  simp only [bind, Except.bind, pure, Except.pure] at h
  repeat' split at h
  all_goals first | contradiction | (injection h with h; rw [← h]; exact fix_bounds _)

/-- **mk_fields_id.** Constructing a relativedelta from a value's own fields reproduces it. -/
theorem mk_fields_id (d : RD) (h : Normalised d) : mk (fieldsOf d) = .ok d := by
  have e : Gen.fix { d with days := d.days + 0 * 7, hasTime := 0 } = d := by
    rw [fix_of_bounded]
    · apply rd_ext <;> try rfl
      · show d.days + 0 * 7 = d.days
        omega
      · show hasTimeOf _ = d.hasTime
        rw [h.2.2.2.2.2]; rfl
    · have hb : Bounded d := bounded_of_normalised h
      exact hb
  unfold mk fieldsOf
  cases hw : d.weekday <;>
  · simp only [hw, Option.map, weekdayOfArg, Except.map, bind, Except.bind, pure, Except.pure, orInt,
      ne_eq, not_true_eq_false, ↓reduceIte, false_and, and_false]
    rw [← hw]
    exact congrArg Except.ok e

/-- **eq_equivalence.** `==` is reflexive, symmetric and transitive. -/
theorem eq_refl (a : RD) : RDM.eq a a = true := by
  unfold RDM.eq wdEq
  cases a.weekday with
  | none => simp
  | some w => obtain ⟨w, n⟩ := w; simp

theorem wdEq_symm (a b : Option (Int × Option Int)) (h : wdEq a b = true) : wdEq b a = true := by
  unfold wdEq at *
  cases a with
  | none => cases b <;> simp_all
  | some x =>
    cases b with
    | none => simp_all
    | some y =>
      obtain ⟨w1, n1⟩ := x; obtain ⟨w2, n2⟩ := y
      simp only [ne_eq, ite_not, Bool.if_false_right, Bool.and_true, Bool.if_true_left] at *
      grind

theorem eq_symm (a b : RD) (h : RDM.eq a b = true) : RDM.eq b a = true := by
  unfold RDM.eq at *
  simp only [Bool.and_eq_true, beq_iff_eq] at *
  obtain ⟨hw, h1, h2⟩ := h
  refine ⟨wdEq_symm _ _ hw, ?_⟩
  grind

theorem wdEq_trans (a b c : Option (Int × Option Int)) (h1 : wdEq a b = true) (h2 : wdEq b c = true) :
    wdEq a c = true := by
  unfold wdEq at *
  cases a with
  | none => cases b <;> cases c <;> simp_all
  | some x =>
    cases b with
    | none => simp_all
    | some y =>
      cases c with
      | none => simp_all
      | some z =>
        obtain ⟨w1, n1⟩ := x; obtain ⟨w2, n2⟩ := y; obtain ⟨w3, n3⟩ := z
        simp only [ne_eq, ite_not, Bool.if_false_right, Bool.and_true, Bool.if_true_left] at *
        grind

theorem eq_trans (a b c : RD) (h1 : RDM.eq a b = true) (h2 : RDM.eq b c = true) : RDM.eq a c = true := by
  unfold RDM.eq at *
  simp only [Bool.and_eq_true, beq_iff_eq] at *
  refine ⟨wdEq_trans _ _ _ h1.1 h2.1, ?_⟩
  grind

/-- **eq_hash.** Equal values hash the same tuple (weekday `n` absent, 0 and 1 are identified
    by `==` and by the hashed tuple alike). -/
theorem eq_hash (a b : RD) (h : RDM.eq a b = true) : hashKey a = hashKey b := by
  unfold RDM.eq at h
  simp only [Bool.and_eq_true, beq_iff_eq] at h
  obtain ⟨hw, h⟩ := h
  unfold hashKey
  have e : a.weekday.map (fun w => (w.1, orInt w.2 1)) = b.weekday.map (fun w => (w.1, orInt w.2 1)) := by
    unfold wdEq at hw
    cases ha : a.weekday with
    | none => cases hb : b.weekday <;> simp_all
    | some x =>
      cases hb : b.weekday with
      | none => simp_all
      | some y =>
        obtain ⟨w1, n1⟩ := x; obtain ⟨w2, n2⟩ := y
        rw [ha, hb] at hw
        simp only [Option.map]
        by_cases hww : w1 = w2
        · subst hww
          by_cases hn : n1 = n2
          · subst hn; rfl
          · simp only [ne_eq, not_true_eq_false, ↓reduceIte, hn, not_false_eq_true, true_and,
              Bool.and_eq_true, ite_not] at hw
            split at hw
            · rename_i ht
              rw [nTrivial_orInt n1 ht.1, nTrivial_orInt n2 ht.2]
            · contradiction
        · simp [hww] at hw
  rw [e]
  grind

/-- **neg_neg.** `-(-d)` is `d` itself (not merely `==`) for every normalised value. -/
theorem neg_neg (d : RD) (h : Normalised d) : neg (neg d) = d := by
  have h' : Normalised (neg d) := fix_bounds _
  rw [neg_of_normalised (neg d) h', neg_of_normalised d h]
  apply rd_ext <;> first | rfl | exact Int.neg_neg _

/-- **add_neg_no_relative.** `d + (-d)` has no relative part (years … microseconds all 0). -/
theorem add_neg_no_relative (d : RD) (h : Normalised d) :
    (add d (neg d)).years = 0 ∧ (add d (neg d)).months = 0 ∧ (add d (neg d)).days = 0 ∧
    (add d (neg d)).hours = 0 ∧ (add d (neg d)).minutes = 0 ∧ (add d (neg d)).seconds = 0 ∧
    (add d (neg d)).microseconds = 0 := by
  rw [neg_of_normalised d h]
  unfold add
  rw [fix_of_bounded]
  · simp only []
    omega
  · unfold Bounded; simp only []; omega

/-- **bool_iff_no_field.** `bool(d)` is False exactly when no field is set. -/
theorem bool_iff_no_field (d : RD) :
    RDM.bool d = false ↔
      (d.years = 0 ∧ d.months = 0 ∧ d.days = 0 ∧ d.hours = 0 ∧ d.minutes = 0 ∧ d.seconds = 0 ∧
       d.microseconds = 0 ∧ d.leapdays = 0 ∧ d.year = none ∧ d.month = none ∧ d.day = none ∧
       d.weekday = none ∧ d.hour = none ∧ d.minute = none ∧ d.second = none ∧ d.microsecond = none) := by
  unfold RDM.bool
  simp only [Bool.not_eq_false', Bool.and_eq_true, beq_iff_eq, Option.isNone_iff_eq_none]
  constructor
  · intro h; simp only [and_assoc] at h; exact h
  · intro h; simp only [and_assoc]; exact h

theorem applyWeekday_of_wdEq (a b : Option (Int × Option Int)) (h : wdEq a b = true) (ret : DT) :
    applyWeekday a ret = applyWeekday b ret := by
  unfold wdEq at h
  cases a with
  | none => cases b <;> simp_all
  | some x =>
    cases b with
    | none => simp_all
    | some y =>
      obtain ⟨w1, n1⟩ := x; obtain ⟨w2, n2⟩ := y
      by_cases hww : w1 = w2
      · subst hww
        by_cases hn : n1 = n2
        · subst hn; rfl
        · simp only [ne_eq, not_true_eq_false, ↓reduceIte, hn, not_false_eq_true, true_and,
            Bool.and_eq_true, ite_not] at h
          split at h
          · rename_i ht
            unfold applyWeekday jumpDays
            simp only [nTrivial_orInt n1 ht.1, nTrivial_orInt n2 ht.2]
          · contradiction
      · simp [hww] at h

/-- **eq_applyTo.** Two equal (`==`) normalised deltas added to any date / datetime give the same result
    (same value or same exception). -/
theorem eq_applyTo (a b : RD) (ha : Normalised a) (hb : Normalised b) (h : RDM.eq a b = true)
    (x : Temporal) : applyTo a x = applyTo b x := by
  unfold RDM.eq at h
  simp only [Bool.and_eq_true, beq_iff_eq] at h
  obtain ⟨hw, h⟩ := h
  have ht : a.hasTime = b.hasTime := by
    rw [ha.2.2.2.2.2, hb.2.2.2.2.2]; unfold hasTimeOf; grind
  have e : b = { a with weekday := b.weekday } := by
    apply rd_ext <;> first | rfl | grind
  rw [e]
  have hw' : ∀ ret, applyWeekday a.weekday ret = applyWeekday b.weekday ret :=
    applyWeekday_of_wdEq _ _ hw
  unfold applyTo applyTail
  simp only [hw']
  rfl

/-- **mulInt_total.** Multiplying by an integer multiplies the duration and the month count
    (the implementation's `int(field * float(k))` is this exact product while |field·k| < 2^53;
    beyond that, and for non-integer scalars, only the harness oracle applies — `mul_float` is
    executable-only). -/
theorem mulInt_total (d : RD) (k : Int) :
    usTotal (mulInt d k) = usTotal d * k ∧ monthTotal (mulInt d k) = monthTotal d * k := by
  unfold mulInt
  obtain ⟨h1, h2, _⟩ := fix_preserves_total
    { d with years := d.years * k, months := d.months * k, days := d.days * k, hours := d.hours * k,
             minutes := d.minutes * k, seconds := d.seconds * k,
             microseconds := d.microseconds * k, hasTime := 0 }
  rw [h1, h2]
  unfold usTotal monthTotal
  simp only []
  constructor <;> grind

/-! ## `_gen` twins: the operators RE-TRANSLATED from /repo on this run (Generated/RDOps.lean)

`Gen.neg / abs / addRd / subRd / addTd / mulInt / bool / eq / hashKey` are translated from `__neg__`, `__abs__`,
`__add__` (relativedelta and timedelta operands), `__sub__`, `__mul__` (integer scalar), `__bool__`, `__eq__`,
`__hash__`; each calls the translated keyword constructor `Gen.initKw`, which ends in the translated `_fix`. -/

/-- **gen_ops_eq_model.** Every translated operator equals the hand model (and never raises). -/
theorem gen_ops_eq_model (a b : RD) (k d s u : Int) :
    Gen.neg a = .ok (neg a) ∧ Gen.abs a = .ok (RDM.abs a) ∧ Gen.addRd a b = .ok (add a b) ∧
    Gen.subRd a b = .ok (sub a b) ∧ Gen.addTd a d s u = .ok (addTimedelta a d s u) ∧
    Gen.mulInt a k = .ok (mulInt a k) ∧ Gen.bool a = .ok (RDM.bool a) ∧ Gen.eq a b = .ok (RDM.eq a b) ∧
    Gen.hashKey a = .ok (hashList a) :=
  ⟨RDG.neg_eq a, RDG.abs_eq a, RDG.addRd_eq a b, RDG.subRd_eq a b, RDG.addTd_rd_eq a d s u, RDG.mulInt_eq a k,
   RDG.bool_eq a, RDG.eq_eq a b, RDG.hashKey_eq a⟩

/-- **every_op_normalised_gen.** -/
theorem every_op_normalised_gen (a b r : RD) (k d s u : Int)
    (h : Gen.neg a = .ok r ∨ Gen.abs a = .ok r ∨ Gen.addRd a b = .ok r ∨ Gen.subRd a b = .ok r ∨
         Gen.addTd a d s u = .ok r ∨ Gen.mulInt a k = .ok r) : Normalised r := by
  rw [RDG.neg_eq, RDG.abs_eq, RDG.addRd_eq, RDG.subRd_eq, RDG.addTd_rd_eq, RDG.mulInt_eq] at h
  rcases h with h | h | h | h | h | h <;> (injection h with h; rw [← h]; exact fix_bounds _)

/-- **eq_equivalence_gen / eq_hash_gen.** The translated `__eq__` is an equivalence and implies equality of the
    translated `__hash__` tuples. -/
theorem eq_equivalence_gen (a b c : RD) :
    Gen.eq a a = .ok true ∧ (Gen.eq a b = .ok true → Gen.eq b a = .ok true) ∧
    (Gen.eq a b = .ok true → Gen.eq b c = .ok true → Gen.eq a c = .ok true) := by
  simp only [RDG.eq_eq, Except.ok.injEq]
  exact ⟨eq_refl a, eq_symm a b, eq_trans a b c⟩

/-- the translated `__hash__` tuple is compared ELEMENT BY ELEMENT in source order (`hashList`) -/
theorem eq_hash_gen (a b : RD) (h : Gen.eq a b = .ok true) : Gen.hashKey a = Gen.hashKey b := by
  rw [RDG.eq_eq] at h; injection h with h
  rw [RDG.hashKey_eq, RDG.hashKey_eq, (RDG.hashList_eq_iff a b).2 (eq_hash a b h)]

theorem neg_neg_gen (d : RD) (h : Normalised d) : (Gen.neg d).bind Gen.neg = .ok d := by
  rw [RDG.neg_eq]
  show Gen.neg (neg d) = .ok d
  rw [RDG.neg_eq, neg_neg d h]

theorem bool_iff_no_field_gen (d : RD) :
    Gen.bool d = .ok false ↔
      (d.years = 0 ∧ d.months = 0 ∧ d.days = 0 ∧ d.hours = 0 ∧ d.minutes = 0 ∧ d.seconds = 0 ∧
       d.microseconds = 0 ∧ d.leapdays = 0 ∧ d.year = none ∧ d.month = none ∧ d.day = none ∧
       d.weekday = none ∧ d.hour = none ∧ d.minute = none ∧ d.second = none ∧ d.microsecond = none) := by
  rw [RDG.bool_eq, Except.ok.injEq]; exact bool_iff_no_field d

theorem eq_applyTo_gen (a b : RD) (ha : Normalised a) (hb : Normalised b) (h : Gen.eq a b = .ok true)
    (x : Temporal) : Gen.addDt a x = Gen.addDt b x := by
  rw [RDG.eq_eq] at h; injection h with h
  rw [RDG.addDt_eq, RDG.addDt_eq]; exact eq_applyTo a b ha hb h x

theorem mulInt_total_gen (d r : RD) (k : Int) (h : Gen.mulInt d k = .ok r) :
    usTotal r = usTotal d * k ∧ monthTotal r = monthTotal d * k := by
  rw [RDG.mulInt_eq] at h; injection h with h; rw [← h]; exact mulInt_total d k

/-- **constructor_gen.** The translated keyword constructor is `mk` (C03.gen_initKw_eq_mk); hence whatever it
    returns is normalised, and constructing from a value's own fields reproduces the value. -/
theorem constructor_gen (kw : Kw) (d : RD) :
    Gen.initKw kw = mk kw ∧ (∀ r, Gen.initKw kw = .ok r → Normalised r) ∧
    (Normalised d → Gen.initKw (fieldsOf d) = .ok d) := by
  refine ⟨RDG.initKw_eq kw, ?_, ?_⟩
  · intro r h; rw [RDG.initKw_eq] at h
    exact (every_op_normalised d d 0 kw 0 0 0).2.2.2.2.2.2 r h
  · intro h; rw [RDG.initKw_eq]; exact mk_fields_id d h

/-! ## the history of ONE object (a relativedelta is mutable: `weeks` setter, attribute assignment)

The property quantifies over values "however constructed or combined".  An object that was used (added to a date, hashed,
compared …), then mutated, then used again must answer like the value its CURRENT fields denote: nothing that a use
computed may survive into the next use.  `RDH.run` (Model/RDHistory.lean) is the life of one object over the methods
re-translated from /repo on this run; that a use leaves the record alone is read off the source on every run (AST audit
`rdlib.write_audit`: no method writes an attribute outside `__init__` / `_fix` / `_set_months` / the `weeks` setter). -/

open RDH in
/-- the record after a history is the record after its mutations alone: uses leave no trace in the state -/
theorem history_state (d : RD) (h : List Step) : (run d h).1 = stateAfter d (muts h) := by
  induction h generalizing d with
  | nil => rfl
  | cons s rest ih =>
    cases s with
    | use u => simp only [run, step, muts]; exact ih d
    | set m => simp only [run, step, muts, stateAfter, List.foldl]; exact ih (applyMut d m)

open RDH in
theorem history_append (d : RD) (h1 h2 : List Step) :
    run d (h1 ++ h2) = ((run (run d h1).1 h2).1, (run d h1).2 ++ (run (run d h1).1 h2).2) := by
  induction h1 generalizing d with
  | nil => simp [run]
  | cons s rest ih =>
    simp only [List.cons_append, run]
    rw [ih]
    simp only [List.append_assoc]

open RDH in
/-- **use_after_set_eq_fresh.** After ANY history `h` (uses and mutations in any order, any length) from any record, the
    next use of the object returns exactly what the same use returns on a fresh record holding the current field
    values (`stateAfter d0 (muts h)`: the start record with the history's mutations applied, and nothing else) — the
    earlier uses, their arguments and their results have no influence; the record itself is unchanged by the use. -/
theorem use_after_set_eq_fresh (d0 : RD) (h : List Step) (u : Use) :
    (run d0 (h ++ [.use u])).2 = (run d0 h).2 ++ [observe (stateAfter d0 (muts h)) u] ∧
    (run d0 (h ++ [.use u])).1 = stateAfter d0 (muts h) := by
  rw [history_append]
  simp only [run, step, List.append_nil]
  rw [history_state]
  exact ⟨rfl, rfl⟩

open RDH in
/-- **same_mutations_same_answer.** Two lives of an object that differ only in HOW it was used in between (which uses,
    how many, on what arguments) give the same answer to the next use. -/
theorem same_mutations_same_answer (d0 : RD) (h1 h2 : List Step) (u : Use) (hm : muts h1 = muts h2) :
    (run d0 (h1 ++ [.use u])).2.getLast? = (run d0 (h2 ++ [.use u])).2.getLast? ∧
    (run d0 (h1 ++ [.use u])).1 = (run d0 (h2 ++ [.use u])).1 := by
  rw [(use_after_set_eq_fresh d0 h1 u).1, (use_after_set_eq_fresh d0 h2 u).1,
      (use_after_set_eq_fresh d0 h1 u).2, (use_after_set_eq_fresh d0 h2 u).2, hm]
  simp

open RDH in
/-- every observation through the translated methods is the hand model's function of the record -/
theorem observe_eq_model (d : RD) (u : Use) :
    observe d u = (match u with
      | .addDt x => .temporal (applyTo d x)
      | .raddDt x => .temporal (radd d x)
      | .rsubDt x => .temporal (rsub d x)
      | .hash => .hash (.ok (hashList d))
      | .bool => .bool (.ok (RDM.bool d))
      | .eq o => .bool (.ok (RDM.eq d o))
      | .eqRev o => .bool (.ok (RDM.eq o d))
      | .neg => .rd (.ok (neg d))
      | .abs => .rd (.ok (RDM.abs d))
      | .addRd o => .rd (.ok (add d o))
      | .raddRd o => .rd (.ok (add o d))
      | .subRd o => .rd (.ok (sub d o))
      | .mulInt k => .rd (.ok (mulInt d k))
      | .addTd dd s us => .rd (.ok (addTimedelta d dd s us))
      | .weeks => .int (weeksOf d)) := by
  cases u <;> simp only [observe, RDG.addDt_eq, RDG.raddDt_eq, RDG.rsubDt_eq, RDG.hashKey_eq, RDG.bool_eq, RDG.eq_eq,
    RDG.neg_eq, RDG.abs_eq, RDG.addRd_eq, RDG.subRd_eq, RDG.mulInt_eq, RDG.addTd_rd_eq]

open RDH in
/-- **reachable_state_is_constructed.** When the current record is in normal form (what the constructor and the operators
    return, `every_op_normalised`), the fresh record of `use_after_set_eq_fresh` IS the object the translated
    constructor builds from the current field values: `relativedelta(**fields)`. -/
theorem reachable_state_is_constructed (d0 : RD) (h : List Step) (hn : Normalised (stateAfter d0 (muts h))) :
    Gen.initKw (fieldsOf (stateAfter d0 (muts h))) = .ok (run d0 h).1 := by
  rw [history_state]; exact (constructor_gen {} _).2.2 hn

open RDH in
/-- **setWeeks_normalised.** The public `weeks` setter keeps a value a value: only `days` (unbounded in the normal form,
    not a source of `_has_time`) changes, by a multiple of 7 plus the old remainder. -/
theorem setWeeks_normalised (d : RD) (v : Int) (h : Normalised d) :
    Normalised (setWeeks d v) ∧ (setWeeks d v).days = d.days - weeksOf d * 7 + v * 7 ∧
    { setWeeks d v with days := d.days } = d := by
  refine ⟨?_, rfl, rfl⟩
  unfold Normalised setWeeks hasTimeOf at *
  exact h

open RDH in
/-- **weeks_setWeeks.** Reading `weeks` back after setting it returns the value set whenever the remainder of the old
    days and the new weeks do not pull in opposite directions (e.g. `days=-3; weeks=2` gives days = 11, weeks = 1:
    the code as it is; outside this hypothesis the getter is still `tdiv days 7` of the new days). -/
theorem weeks_setWeeks (d : RD) (v : Int)
    (h : (0 ≤ d.days ∧ 0 ≤ v) ∨ (d.days ≤ 0 ∧ v ≤ 0) ∨ d.days % 7 = 0) : weeksOf (setWeeks d v) = v := by
  unfold setWeeks weeksOf
  simp only []
  split <;> split <;> omega

-- non-vacuity / sanity
example : Gen.fix { seconds := -3661, microseconds := 2500000 } =
    { hours := -1, minutes := 0, seconds := -59, microseconds := 500000, hasTime := 1 } := by decide
example : Normalised (Gen.fix { seconds := 10 ^ 30, months := -25 }) := fix_bounds _
example : mk { weekday := some (.int 0) } = .ok { weekday := some (0, none) } := by decide
example : RDM.eq { weekday := some (0, none) } { weekday := some (0, some 1) } = true := by decide
example : hashKey { weekday := some (0, none) } = hashKey ({ weekday := some (0, some 1) } : RD) := by decide
example : RDM.eq { weekday := some (0, some 2) } { weekday := some (0, none) } = false := by decide
example : mk { yearday := some 367 } = .error .ValueError := by decide
example : mk { yearday := some 60 } = .ok { leapdays := -1, month := some 3, day := some 1 } := by decide
example : Normalised (neg { days := 3, hours := -5, hasTime := 1 }) := (every_op_normalised _ {} 0 {} 0 0 0).2.2.1

example : (RDH.run { days := 10 } [.use (.addDt ⟨.date, { y := 2000, m := 1, d := 1 }⟩), .set (.weeks 3), .use .hash,
    .set (.hours 5), .use (.addDt ⟨.date, { y := 2000, m := 1, d := 1 }⟩)]).1 = { days := 24, hours := 5 } := by decide +kernel
example : (RDH.run { days := 10 } [.use (.addDt ⟨.date, { y := 2000, m := 1, d := 1 }⟩), .set (.weeks 3),
    .use (.addDt ⟨.date, { y := 2000, m := 1, d := 1 }⟩)]).2 =
    [.temporal (.ok ⟨.date, { y := 2000, m := 1, d := 11 }⟩), .temporal (.ok ⟨.date, { y := 2000, m := 1, d := 25 }⟩)] := by
  decide +kernel
end C16
