/- C02 — placeholder, replaced below -/
import DateutilVerif.Model.Parser
namespace C02
theorem placeholder : True := trivial
end C02
