import DateutilVerif.Model.Parser
import DateutilVerif.Proofs.ParserIsoTok
import DateutilVerif.Proofs.RenderIsoFinal
import DateutilVerif.Proofs.RenderCompact
import DateutilVerif.Proofs.RenderMonFinal
import DateutilVerif.Proofs.RenderClockFinal
import DateutilVerif.Proofs.RenderNum
import DateutilVerif.Proofs.RenderGenA
import DateutilVerif.Proofs.RenderGenB
import DateutilVerif.Proofs.RenderGenC
import DateutilVerif.Proofs.RenderGenD
import DateutilVerif.Proofs.RenderGenE
import DateutilVerif.Proofs.RenderGenG
import DateutilVerif.Proofs.RenderCompactFrac
import DateutilVerif.Proofs.RenderHmsFrac
import DateutilVerif.Proofs.RenderCtimeOff
namespace C02
open PM Py PT

/-- **two-digit years**: with `_century = _year // 100 * 100`, a year `0 ≤ y < 100` without a century is
    mapped (by the translated `parserinfo.convertyear`) to THE year `y'` with `y' ≡ y (mod 100)` and
    `-50 ≤ y' - now < 50`; uniqueness included. -/
theorem convertyear_window (now y : Int) (h0 : 0 ≤ y) (h1 : y < 100) :
    ∃ y', Gen.convertyear ⟨now / 100 * 100, now⟩ y false = .ok y' ∧
      -50 ≤ y' - now ∧ y' - now < 50 ∧ y' % 100 = y ∧
      ∀ z : Int, z % 100 = y → -50 ≤ z - now → z - now < 50 → z = y' := by
  unfold Gen.convertyear
  have hq : now / 100 * 100 = now - now % 100 := by omega
  have hr : 0 ≤ now % 100 ∧ now % 100 < 100 := by omega
  generalize now % 100 = r at hq hr
  simp only [hq]
  have hge : ¬ ¬ (y ≥ 0) := by omega
  simp only [hge, if_false]
  split
  · split
    · refine ⟨_, rfl, by omega, by omega, by omega, ?_⟩
      intro z hz h2 h3; omega
    · split
      · refine ⟨_, rfl, by omega, by omega, by omega, ?_⟩
        intro z hz h2 h3; omega
      · refine ⟨_, rfl, by omega, by omega, by omega, ?_⟩
        intro z hz h2 h3; omega
  · rename_i hc; exact absurd ⟨h1, by simp⟩ hc

/-- a year with a century (or ≥ 100) is left alone -/
theorem convertyear_century (pi : Gen.PInfoYear) (y : Int) (h0 : 0 ≤ y) (cs : Bool) (h : cs = true ∨ 100 ≤ y) :
    Gen.convertyear pi y cs = .ok y := by
  unfold Gen.convertyear
  have hge : ¬ ¬ (y ≥ 0) := by omega
  simp only [hge, if_false]
  split
  · rename_i hc
    rcases h with h | h
    · simp [h] at hc
    · omega
  · rfl

/-- the 12-hour clock: for every hour of the day, the 12-hour spelling (`12 AM` = 0, `12 PM` = 12,
    `h PM` = h + 12) is mapped back by the translated `_adjust_ampm` -/
theorem adjustAmpm_table (h : Int) (h0 : 0 ≤ h) (h1 : h < 24) :
    Gen.adjustAmpm (if h % 12 = 0 then 12 else h % 12) (if h < 12 then 0 else 1) = h := by
  unfold Gen.adjustAmpm
  dsimp only
  repeat' split
  all_goals omega

/-! ### `parse(render(dt)) = trunc(dt)`: the all-numeric ISO-like family -/

/-- the lexer on `YYYY-MM-DD<sep>HH:MM:SS` (sep = `T` or a space), for any classification that agrees with
    ASCII on the characters involved -/
theorem lex_render_iso (cls : Char → CClass) (hcls : AsciiLike cls) (y m d h mi se : Nat) (sep : Char)
    (hsep : sep = 'T' ∨ sep = ' ') :
    lex cls (pad4 y ++ ['-'] ++ pad2 m ++ ['-'] ++ pad2 d ++ [sep] ++ pad2 h ++ [':'] ++ pad2 mi ++ [':'] ++ pad2 se) =
      isoTokens (pad4 y) (pad2 m) (pad2 d) [sep] (pad2 h) (pad2 mi) (pad2 se) := by
  have dr : ∀ (l : List Char), (∀ c ∈ l, ∃ k, c = digitChar k) → DigRun cls l := digRun_of cls hcls
  have h4 : DigRun cls (pad4 y) := dr _ (by
    intro c hc; simp only [pad4, List.mem_cons, List.mem_nil_iff, or_false] at hc
    rcases hc with rfl | rfl | rfl | rfl <;> exact ⟨_, rfl⟩)
  have h2 : ∀ n, DigRun cls (pad2 n) := fun n => dr _ (by
    intro c hc; simp only [pad2, List.mem_cons, List.mem_nil_iff, or_false] at hc
    rcases hc with rfl | rfl <;> exact ⟨_, rfl⟩)
  have hs : (cls sep = .alpha ∨ cls sep = .space) ∧ sep ≠ '\x00' ∧ sep ≠ '.' ∧ sep ≠ ',' := by
    rcases hsep with rfl | rfl
    · exact ⟨Or.inl hcls.tee, by decide, by decide, by decide⟩
    · exact ⟨Or.inr hcls.space, by decide, by decide, by decide⟩
  have hS : (if cls sep = .alpha then [sep] else [' ']) = [sep] := by
    rcases hsep with rfl | rfl
    · simp [hcls.tee]
    · simp [hcls.space]
  have := lex_iso_shape cls (digitChar (y / 1000)) (digitChar (m / 10)) (digitChar (d / 10)) (digitChar (h / 10))
    (digitChar (mi / 10)) (digitChar (se / 10)) [digitChar (y / 100), digitChar (y / 10), digitChar y] [digitChar m]
    [digitChar d] [digitChar h] [digitChar mi] [digitChar se] sep h4 (h2 m) (h2 d) (h2 h) (h2 mi) (h2 se)
    hcls.dash hcls.colon hs (digitChar_ne_dot _)
  rw [hS] at this
  simpa [pad4, pad2, isoTokens] using this

/-- **parse inverts the ISO-like rendering** `YYYY-MM-DD[T ]HH:MM:SS`, for EVERY valid datetime (years 1..9999),
    any classification agreeing with ASCII on digits, `-`, `:`, `T` and space, the stock parserinfo with any
    `yearfirst` and any `_year`, non-fuzzy options without `dayfirst` (under `dayfirst` an ISO date is read
    year-day-month by design), any default, any process zone names (no offset is rendered here, so they play no
    role) and any `tzinfos` that is not asked about a missing name: the result is that datetime truncated to the
    second, naive. -/
theorem parse_render_iso (cls : Char → CClass) (hcls : AsciiLike cls) (yf : Bool) (year century : Int) (o : Opts)
    (hfz : o.fuzzy = false) (hfwt : o.fuzzyWithTokens = false) (hdf : o.dayfirst.getD false = false)
    (tznames : List Token) (tzi : TzInfos) (htzi : tzi.applies none = false) (dflt : DT)
    (t : DT) (ht : t.Valid) (sep : Char) (hsep : sep = 'T' ∨ sep = ' ') :
    parse cls (Info.default false yf year century) o tznames tzi dflt (renderIso sep t) =
      .ok { dt := { t with us := 0 }, tz := .naive, tokens := none } := by
  obtain ⟨⟨hy1, hy2, hm1, hm2, hd1, hd2⟩, hh1, hh2, hmi1, hmi2, hs1, hs2, _, _⟩ := ht
  have hdim := (Cal.daysInMonth_bounds t.y t.m).2
  have ey : ((t.y.toNat : Nat) : Int) = t.y := Int.toNat_of_nonneg (by omega)
  have em : ((t.m.toNat : Nat) : Int) = t.m := Int.toNat_of_nonneg (by omega)
  have ed : ((t.d.toNat : Nat) : Int) = t.d := Int.toNat_of_nonneg (by omega)
  have eh : ((t.hh.toNat : Nat) : Int) = t.hh := Int.toNat_of_nonneg (by omega)
  have emi : ((t.mm.toNat : Nat) : Int) = t.mm := Int.toNat_of_nonneg (by omega)
  have es : ((t.ss.toNat : Nat) : Int) = t.ss := Int.toNat_of_nonneg (by omega)
  unfold parse renderIso
  rw [lex_render_iso cls hcls _ _ _ _ _ _ sep hsep]
  have hS : SepTok cls (Info.default false yf year century) [sep] := by
    rcases hsep with rfl | rfl
    · exact sepTok_T cls hcls _ _ _ _
    · exact sepTok_space cls hcls _ _ _ _
  have hv : (DT.mk (t.y.toNat : Nat) (t.m.toNat : Nat) (t.d.toNat : Nat) (t.hh.toNat : Nat) (t.mm.toNat : Nat)
      (t.ss.toNat : Nat) 0).Valid := by
    rw [ey, em, ed, eh, emi, es]
    exact ⟨⟨hy1, hy2, hm1, hm2, hd1, hd2⟩, hh1, hh2, hmi1, hmi2, hs1, hs2, by simp, by simp⟩
  rw [parseResult_iso cls _ (punctOk_default _ _ _ _) o tznames tzi dflt _ _ _ _ _ _ _ t.y.toNat t.m.toNat t.d.toNat
        t.hh.toNat t.mm.toNat t.ss.toNat
        (numTok_pad4 cls hcls _ _ _ _ _ (by omega)) (numTok_pad2 cls hcls _ _ _ _ _ (by omega))
        (numTok_pad2 cls hcls _ _ _ _ _ (by omega)) hS (numTok_pad2 cls hcls _ _ _ _ _ (by omega))
        (numTok_pad2 cls hcls _ _ _ _ _ (by omega)) (numTok_pad2 cls hcls _ _ _ _ _ (by omega))
        (by simp [pad4]) (by simp [pad2]) (by simp [pad2]) (by simp [pad2]) hfz hfwt hdf htzi hv]
  rw [ey, em, ed, eh, emi, es]

/-- non-vacuity: Python's classification restricted to ASCII meets `AsciiLike`; the last second of the calendar is a
    valid input; and the model really computes the round trip on it -/
example : AsciiLike asciiCls := asciiCls_asciiLike
example : (DT.mk 9999 12 31 23 59 59 0).Valid := by decide
example : parse asciiCls (Info.default false false 2024 2000) {} [] .absent ⟨2003, 9, 25, 0, 0, 0, 0⟩
    (renderIso 'T' ⟨31, 5, 28, 23, 52, 59, 7⟩) = .ok ⟨⟨31, 5, 28, 23, 52, 59, 0⟩, .naive, none⟩ := by decide +kernel

/-! ### the template families with a theorem for ALL valid datetimes

  Common setting: any classification agreeing with Python's on ASCII (`AsciiOK`, checked against Python each
  run), the stock parserinfo (tables dumped from /repo each run) with any `yearfirst` / `_year`, strict options
  without `dayfirst`, `tzinfos` silent on a missing name and on `UTC` (`PlainOpts`), any valid default.
  Fields a rendering does not name come from the default (C15), so `expect` says exactly which fields are read
  from the text; with the oracle's midnight default this is `trunc`. -/

/-! #### what the zone conclusion `offDescr tznames off` of every offset theorem says

  `offDescr` is `.naive` (nothing rendered), `.fixed none n` (`tzoffset(None, n)`, a non-zero offset `n` seconds), and for
  a ZERO offset (`Z`, ` UTC`, `+00`, `+0000`, `+00:00`, `-00:00`): `tz.UTC`, or — when `"UTC" ∈ time.tzname` — the
  process-zone row `.localZone "UTC" (some 0)`, which `localFinal` resolves with what `tzlocal()` reports for the wall time:
  `tzlocal()` when that zone IS at offset zero there, `tz.UTC` otherwise (a POSIX TZ string may call any zone `UTC`:
  `TZ=UTC+3`).  Since the repair of D-C02-local-zone-named-utc (= D-C15-local-zone-named-utc) the result is therefore
  at the rendered offset in EVERY case: `offDescr_carries_offset`, with no proviso about `time.tzname`. -/

/-- the UTC offset (seconds) of a result's zone at its wall time; for the process-zone row: after `localFinal`, for ANY names
    `n0 n1` and offsets `o0 o1` that `tzlocal()` may report at fold 0 / fold 1 -/
def descrOffset (info : Info) (n0 n1 : Option Token) (o0 o1 : Int) : TzDescr → Option Int
  | .utc => some 0
  | .fixed _ n => some n
  | .localZone name off => some ((localFinal info n0 n1 o0 o1 name off).offset o0 o1)
  | _ => none

/-- **aware with the rendered offset**: a non-zero offset gives `tzoffset(None, n)`; a zero offset gives a zone that is at
    offset zero — `tz.UTC`, or the process zone when it is called `UTC` AND is at offset zero for that wall time —
    whatever `time.tzname` is and whatever `tzlocal()` reports (no hypothesis on `tznames`, `n0 n1 o0 o1`, `info`) -/
theorem offDescr_carries_offset (tznames : List Token) (off : Off) (n : Int) (hn : off.seconds = some n)
    (info : Info) (n0 n1 : Option Token) (o0 o1 : Int) :
    descrOffset info n0 n1 o0 o1 (offDescr tznames off) = some n := by
  unfold offDescr utcOrLocal
  rw [hn]
  by_cases h0 : n = 0
  · subst h0
    by_cases hc : ['U', 'T', 'C'] ∈ tznames
    · simp only [List.contains_eq_mem, hc, decide_true, if_true, descrOffset]
      congr 1
      unfold localFinal
      simp only [true_and]
      generalize assignFold n0 n1 (some ['U', 'T', 'C']) = f
      by_cases hc' : (if f = 1 then n1 else n0) ≠ some ['U', 'T', 'C'] ∧ info.UTCZONE.contains ['U', 'T', 'C'] = true
      · rw [if_pos hc']; rfl
      · rw [if_neg hc']
        by_cases h : (if f = 1 then o1 else o0) ≠ 0
        · rw [if_pos h]; rfl
        · rw [if_neg h]; simp only [LocalFinal.offset]; exact Decidable.of_not_not h
    · simp [hc, descrOffset]
  · simp [h0, descrOffset]

/-- … and which object it is: `tz.UTC` unless the process zone is called `UTC`; then `tzlocal()` exactly when it is at
    offset zero at the wall time (at the fold `_assign_tzname` picks) and still calls itself `UTC` there, else `tz.UTC` -/
theorem offDescr_zero_object (tznames : List Token) (off : Off) (hn : off.seconds = some 0) :
    offDescr tznames off = .utc ∨ offDescr tznames off = .localZone ['U', 'T', 'C'] (some 0) := by
  unfold offDescr utcOrLocal
  rw [hn]
  by_cases hc : ['U', 'T', 'C'] ∈ tznames <;> simp [hc]

/-- the process-zone row is exactly: zero offset rendered ∧ the process zone is called `UTC` (and it carries offset `some 0`) -/
theorem offDescr_local_iff (tznames : List Token) (off : Off) (name : Token) (o : Option Int) :
    offDescr tznames off = .localZone name o ↔
      off.seconds = some 0 ∧ tznames.contains ['U', 'T', 'C'] = true ∧ name = ['U', 'T', 'C'] ∧ o = some 0 := by
  unfold offDescr utcOrLocal
  cases hs : off.seconds with
  | none => simp
  | some n =>
    by_cases h0 : n = 0
    · by_cases hc : ['U', 'T', 'C'] ∈ tznames
      · simp [h0, hc, eq_comm]
      · simp [h0, hc]
    · simp [h0]

/-- a zone merely CALLED `UTC` (three hours west: `TZ=UTC+3`) and one that is UTC: the first gives `tz.UTC`, the second `tzlocal()` -/
example : localFinal (Info.default false false 2024 2000) (some "UTC".toList) (some "UTC".toList) (-10800) (-10800) "UTC".toList (some 0) = .utc
    ∧ localFinal (Info.default false false 2024 2000) (some "UTC".toList) (some "UTC".toList) 0 0 "UTC".toList (some 0) = .localFold 0 := by
  decide

/-- **families 1 and 2**: `YYYY-MM-DD[T| ]HH:MM[:SS[(.|,)f{1..6}]]` followed by nothing, `Z`, ` Z`, ` UTC`, `±HH`,
    `±HHMM`, `±HH:MM` (optionally after a space), offsets −23:59..+23:59: that datetime, cut to the digits shown,
    naive / the fixed offset / for a zero offset `tz.UTC` — or, when the process zone is itself called `UTC`, the
    process-zone row carrying offset zero (`tzlocal()` if that zone is at offset zero there, else `tz.UTC`): always a zone at
    the rendered offset (`offDescr_carries_offset`). -/
theorem parse_render_iso_offsets (cls : Char → CClass) [AsciiOK cls] (yf : Bool) (year century : Int) (o : Opts)
    (tznames : List Token) (tzi : TzInfos) (ho : PlainOpts o tzi) (dflt : DT) (hdv : dflt.Valid) (t : DT) (ht : t.Valid)
    (sep : Char) (hsep : sep = 'T' ∨ sep = ' ') (f : TimeFmt) (hf : timeFmtDom f) (off : Off) (hoff : off.Dom) :
    parse cls (Info.default false yf year century) o tznames tzi dflt (renderIsoX sep f t off) =
      .ok { dt := f.expect t dflt, tz := if o.ignoretz then .naive else offDescr tznames off, tokens := none } :=
  parse_isoX cls yf year century o tznames tzi ho dflt hdv t ht sep hsep f hf off hoff

/-- **family 3**: `YYYYMMDDTHHMMSS`, `YYYYMMDDHHMMSS`, `YYYYMMDDTHHMM`, `YYYYMMDD` -/
theorem parse_render_compact (cls : Char → CClass) [AsciiOK cls] (yf : Bool) (year century : Int) (o : Opts)
    (tznames : List Token) (tzi : TzInfos) (ho : PlainOpts o tzi) (dflt : DT) (hdv : dflt.Valid) (t : DT) (ht : t.Valid)
    (f : CompactFmt) :
    parse cls (Info.default false yf year century) o tznames tzi dflt (renderCompact f t) =
      .ok { dt := f.expect t dflt, tz := .naive, tokens := none } :=
  parse_compact cls yf year century o tznames tzi ho dflt hdv t ht f

/-- **family 3b**: a compact time with a fraction, `HHMMSS(.|,)f{1..6}`, after `YYYYMMDDT`, `YYYY-MM-DDT` or `YYYY-MM-DD `,
    followed by any offset spelling: one lexer token (a comma is a decimal mark after ANY run of two or more digits — seed
    C02F made it one only after exactly two), read by its shape as hour, minute, second and fraction -/
theorem parse_render_compact_fraction (cls : Char → CClass) [AsciiOK cls] (yf : Bool) (year century : Int) (o : Opts)
    (tznames : List Token) (tzi : TzInfos) (ho : PlainOpts o tzi) (dflt : DT) (hdv : dflt.Valid) (t : DT) (ht : t.Valid)
    (hd : CFHead) (comma : Bool) (k : Nat) (hk1 : 1 ≤ k) (hk6 : k ≤ 6) (off : Off) (hoff : off.Dom) :
    parse cls (Info.default false yf year century) o tznames tzi dflt (renderCFrac hd comma k t off) =
      .ok { dt := (TimeFmt.frac comma k).expect t dflt, tz := if o.ignoretz then .naive else offDescr tznames off,
            tokens := none } :=
  parse_cfrac cls yf year century o tznames tzi ho dflt hdv t ht hd comma k hk1 hk6 off hoff

/-- **family 6b**: the unit notation with a fraction on the seconds, `YYYY-MM-DD HHhMMmSS(.|,)f…s`, with 1, 2, 4 or 6 fraction
    digits, followed by nothing or by any offset spelling after a space (the `s` must be separated from an offset): one lexer
    token `SS.f…` (a comma after the two second digits is a decimal mark), which — its length being none of 6, 8, 12, 14 — reaches
    `_find_hms_idx`, the `s` behind it `_assign_hms`, and that `_parsems`: the datetime cut to the digits shown.
    (3 and 5 digits: the token is 6 / 8 characters long and is read as HHMMSS / YYYYMMDD — known finding
    D-C02-hms-fraction-token-length; the full-strength statement `1 ≤ k ≤ 6` is FALSE on /repo and on the model, see the example.) -/
theorem parse_render_hms_fraction (cls : Char → CClass) [AsciiOK cls] (yf : Bool) (year century : Int) (o : Opts)
    (tznames : List Token) (tzi : TzInfos) (ho : PlainOpts o tzi) (dflt : DT) (hdv : dflt.Valid) (t : DT) (ht : t.Valid)
    (comma : Bool) (k : Nat) (hk : k = 1 ∨ k = 2 ∨ k = 4 ∨ k = 6) (off : Off) (hoff : off.Dom) (hsp : off.Spaced) :
    parse cls (Info.default false yf year century) o tznames tzi dflt (renderHmsFrac comma k t off) =
      .ok { dt := (TimeFmt.frac comma k).expect t dflt, tz := if o.ignoretz then .naive else offDescr tznames off,
            tokens := none } :=
  parse_hmsFrac cls yf year century o tznames tzi ho dflt hdv t ht comma k hk off hoff hsp

/-- non-vacuity: `2003-09-25 10h49m41,5027s +03:30` is 10:49:41.502700 at +03:30; and with THREE fraction digits the model (like
    /repo) rejects the text — the excluded lengths are exactly the known finding -/
example : parse asciiCls (Info.default false false 2024 2000) {} [] .absent ⟨2001, 1, 1, 0, 0, 0, 0⟩
    (renderHmsFrac true 4 ⟨2003, 9, 25, 10, 49, 41, 502789⟩ (.hhcmm true false 3 30)) =
      .ok ⟨⟨2003, 9, 25, 10, 49, 41, 502700⟩, .fixed none 12600, none⟩ := by decide +kernel
example : parse asciiCls (Info.default false false 2024 2000) {} [] .absent ⟨2001, 1, 1, 0, 0, 0, 0⟩
    (renderHmsFrac false 3 ⟨2003, 9, 25, 10, 49, 41, 502789⟩ .naive) = .error .ParserError := by decide +kernel

/-- **family 4**: ctime `Www Mmm dd HH:MM:SS YYYY`, RFC 2822 `Www, DD Mmm YYYY HH:MM:SS<offset>`, `Month D, YYYY`,
    `D Mon YYYY` (year ≥ 100: D-C02 is exactly the excluded class) and `DD-Mon-YYYY` (every year); the weekday word
    may be any of the seven (the parser ignores it when a day is given) -/
theorem parse_render_monthname (cls : Char → CClass) [AsciiOK cls] (yf : Bool) (year century : Int) (o : Opts)
    (tznames : List Token) (tzi : TzInfos) (ho : PlainOpts o tzi) (dflt : DT) (hdv : dflt.Valid) (t : DT) (ht : t.Valid)
    (f : MonFmt) (hf : f.Dom t) (off : Off) (hoff : off.Dom) :
    parse cls (Info.default false yf year century) o tznames tzi dflt (renderMon f t off) =
      .ok { dt := f.expect t dflt,
            tz := match f with
              | .rfc2822 _ => if o.ignoretz then .naive else offDescr tznames off
              | _ => .naive,
            tokens := none } :=
  parse_mon cls yf year century o tznames tzi ho dflt hdv t ht f hf off hoff

/-- **family 4b**: ctime followed by an offset, `Www Mmm dd HH:MM:SS YYYY <offset>` (year ≥ 100; nothing, or any offset spelling after a
    space): the year's number swallows the space (a jump token) and the offset arm reads the rest — that datetime, aware with the
    rendered offset -/
theorem parse_render_ctime_offsets (cls : Char → CClass) [AsciiOK cls] (yf : Bool) (year century : Int) (o : Opts)
    (tznames : List Token) (tzi : TzInfos) (ho : PlainOpts o tzi) (dflt : DT) (hdv : dflt.Valid) (t : DT) (ht : t.Valid)
    (w : Nat) (hw : w < 7) (hy : 100 ≤ t.y) (off : Off) (hoff : off.Dom) (hsp : off.Spaced) :
    parse cls (Info.default false yf year century) o tznames tzi dflt (renderCtimeOff w t off) =
      .ok { dt := { t with us := 0 }, tz := if o.ignoretz then .naive else offDescr tznames off, tokens := none } :=
  parse_ctimeOff cls yf year century o tznames tzi ho dflt hdv t ht w hw hy off hoff hsp

example : parse asciiCls (Info.default false false 2024 2000) {} [] .absent ⟨2001, 1, 1, 0, 0, 0, 0⟩
    (renderCtimeOff 3 ⟨2003, 9, 5, 10, 49, 41, 7⟩ (.hhmm true true 3 30)) =
      .ok ⟨⟨2003, 9, 5, 10, 49, 41, 0⟩, .fixed none (-12600), none⟩ := by decide +kernel

/-- **family 5**: `YYYY-MM-DD H:MM AM|PM`, every hour of the day (12 AM = 0, 12 PM = 12) through the
    source-translated `_adjust_ampm` -/
theorem parse_render_ampm (cls : Char → CClass) [AsciiOK cls] (yf : Bool) (year century : Int) (o : Opts)
    (tznames : List Token) (tzi : TzInfos) (ho : PlainOpts o tzi) (dflt : DT) (hdv : dflt.Valid) (t : DT) (ht : t.Valid) :
    parse cls (Info.default false yf year century) o tznames tzi dflt (renderAmpm t) =
      .ok { dt := { t with ss := dflt.ss, us := dflt.us }, tz := .naive, tokens := none } :=
  parse_ampm cls yf year century o tznames tzi ho dflt hdv t ht

/-- **family 6**: `YYYY-MM-DD HHhMMmSSs` -/
theorem parse_render_hms_letters (cls : Char → CClass) [AsciiOK cls] (yf : Bool) (year century : Int) (o : Opts)
    (tznames : List Token) (tzi : TzInfos) (ho : PlainOpts o tzi) (dflt : DT) (t : DT) (ht : t.Valid) :
    parse cls (Info.default false yf year century) o tznames tzi dflt (renderHmsLetters t) =
      .ok { dt := { t with us := 0 }, tz := .naive, tokens := none } :=
  parse_hmsLetters cls yf year century o tznames tzi ho dflt t ht

/-- `convertyear` gives back a year of the 100-year window around `_year` from its last two digits -/
theorem convertyear_window_inv (now y : Int) (h1 : now - 50 ≤ y) (h2 : y < now + 50) :
    Gen.convertyear ⟨now / 100 * 100, now⟩ (y % 100) false = .ok y := by
  obtain ⟨y', hy', _, _, _, huniq⟩ := convertyear_window now (y % 100) (by omega) (by omega)
  rw [hy', huniq y rfl (by omega) (by omega)]

/-- **family 7**: all-numeric dates with `/` — `MM/DD/YYYY` (no flags), `DD/MM/YYYY` under `dayfirst`, `YYYY/MM/DD`
    (any `yearfirst`), and the two-digit-year forms `MM/DD/YY`, `DD/MM/YY` (dayfirst), `YY/MM/DD` (yearfirst) for
    every year within −50..+49 of `parserinfo._year` (with `_century = _year // 100 * 100`, as `parserinfo.__init__`
    sets it): the date comes back exactly, the time of day from the default. -/
theorem parse_render_numeric (cls : Char → CClass) [AsciiOK cls] (yfi : Bool) (year : Int) (o : Opts)
    (tznames : List Token) (tzi : TzInfos) (hfz : o.fuzzy = false) (hfwt : o.fuzzyWithTokens = false)
    (htz : tzi.applies none = false) (dflt : DT) (hdv : dflt.Valid) (t : DT) (ht : t.Valid) (f : NumFmt)
    (hflags : numFlagsOk f (o.dayfirst.getD false) (o.yearfirst.getD yfi))
    (hwin : f.twoDigit = true → year - 50 ≤ t.y ∧ t.y < year + 50) :
    parse cls (Info.default false yfi year (year / 100 * 100)) o tznames tzi dflt (renderNum f t) =
      .ok { dt := { t with hh := dflt.hh, mm := dflt.mm, ss := dflt.ss, us := dflt.us }, tz := .naive, tokens := none } := by
  obtain ⟨⟨hy1, hy2, hm1, hm2, hd1, hd2⟩, hh1, hh2, hmi1, hmi2, hs1, hs2, hu1, hu2⟩ := ht
  obtain ⟨_, dh1, dh2, dm1, dm2, hds1, hds2, hdu1, hdu2⟩ := hdv
  have hdim := (Cal.daysInMonth_bounds t.y t.m).2
  have ey : ((t.y.toNat : Nat) : Int) = t.y := Int.toNat_of_nonneg (by omega)
  have em : ((t.m.toNat : Nat) : Int) = t.m := Int.toNat_of_nonneg (by omega)
  have ed : ((t.d.toNat : Nat) : Int) = t.d := Int.toNat_of_nonneg (by omega)
  have edh : ((dflt.hh.toNat : Nat) : Int) = dflt.hh := Int.toNat_of_nonneg (by omega)
  have edm : ((dflt.mm.toNat : Nat) : Int) = dflt.mm := Int.toNat_of_nonneg (by omega)
  have eds : ((dflt.ss.toNat : Nat) : Int) = dflt.ss := Int.toNat_of_nonneg (by omega)
  have edu : ((dflt.us.toNat : Nat) : Int) = dflt.us := Int.toNat_of_nonneg (by omega)
  unfold parse
  rw [lex_renderNum cls f t]
  have hv : (DT.mk (t.y.toNat : Nat) (t.m.toNat : Nat) (t.d.toNat : Nat) (dflt.hh.toNat : Nat) (dflt.mm.toNat : Nat)
      (dflt.ss.toNat : Nat) (dflt.us.toNat : Nat)).Valid := by
    rw [ey, em, ed, edh, edm, eds, edu]
    exact ⟨⟨hy1, hy2, hm1, hm2, hd1, hd2⟩, dh1, dh2, dm1, dm2, hds1, hds2, hdu1, hdu2⟩
  have hyy : f.twoDigit = true →
      Gen.convertyear ⟨year / 100 * 100, year⟩ ((t.y.toNat % 100 : Nat) : Int) false = .ok ((t.y.toNat : Nat) : Int) := by
    intro h2
    obtain ⟨w1, w2⟩ := hwin h2
    have : ((t.y.toNat % 100 : Nat) : Int) = t.y % 100 := by omega
    rw [this, ey]
    exact convertyear_window_inv year t.y w1 w2
  have := tok_num cls yfi year (year / 100 * 100) o tznames tzi hfz hfwt htz dflt f _ _ _ _ _ _ _ hflags hv hyy
    ⟨edh.symm, edm.symm, eds.symm, edu.symm⟩
  rw [ey, em, ed, edh, edm, eds, edu] at this
  exact this

/-- non-vacuity: Python's ASCII classification and the default options meet the hypotheses; a fractional rendering
    with a half-hour negative offset really comes back -/
example : AsciiOK asciiCls := inferInstance
example : PlainOpts {} .absent := ⟨rfl, rfl, rfl, rfl, rfl⟩
example : timeFmtDom (.frac true 3) ∧ (Off.hhcmm true true 3 30).Dom := by simp [timeFmtDom, Off.Dom]
example : parse asciiCls (Info.default false false 2024 2000) {} [] .absent ⟨2001, 1, 1, 0, 0, 0, 0⟩
    (renderIsoX 'T' (.frac true 3) ⟨2003, 9, 25, 10, 49, 41, 502999⟩ (.hhcmm true true 3 30)) =
    .ok ⟨⟨2003, 9, 25, 10, 49, 41, 502000⟩, .fixed none (-12600), none⟩ := by decide +kernel

/-
  parse_render_partial — what is left is exactly the ids of the oracle's template table that are not in `PT.provedTemplates`
  (printed each run as histograms.partial_templates; at the time of writing: dotted dates `DD.MM.YYYY` / `YYYY.MM.DD`, the
  `Month D, YYYY h:mm:ss AM` long form, `HHMMSS.ffffff` after a compact date, offsets after ctime): no symbolic theorem; for
  them the round trip rests on the per-run oracle sweep of the implementation and on the correspondence of the executable
  model (the same `PM.parse`) with the implementation on those renderings.
  D-C02: for the month-name templates the full-strength statement is false for years < 100; the model shows it:
-/
example : parse asciiCls (Info.default false false 2024 2000) {} [] .absent ⟨2001, 1, 1, 0, 0, 0, 0⟩
    "Wed May 28 23:52:59 0031".toList = .ok ⟨⟨2031, 5, 28, 23, 52, 59, 0⟩, .naive, none⟩ := by decide +kernel

/-- D-C02-local-zone-named-utc (repaired): with `time.tzname = ("UTC", "UTC")` (e.g. `TZ=UTC+3`) a rendered `+00:00` reaches the
    process-zone row WITH its offset, and `localFinal` returns `tz.UTC` because that zone is 3 hours away from UTC -/
example : parse asciiCls (Info.default false false 2024 2000) {} ["UTC".toList, "UTC".toList] .absent ⟨2001, 1, 1, 0, 0, 0, 0⟩
    "2003-09-25T10:49:41+00:00".toList = .ok ⟨⟨2003, 9, 25, 10, 49, 41, 0⟩, .localZone "UTC".toList (some 0), none⟩ := by decide +kernel

-- BEGIN GENERATED INDEX (tools_local/gen_templates.py)
/-- the theorem a template id stands for (`False` for an id without one) -/
def TemplateThm (id : String) : Prop :=
  if id = "us_slash" then
    (∀ (cls : Char → CClass) [AsciiOK cls] (yf : Bool) (year century : Int) (o : Opts) (tznames : List Token) (tzi : TzInfos) (ho : StrictOpts o tzi) (hdf : o.dayfirst.getD false = false) (hyf : o.yearfirst.getD yf = false) (t dflt : DT) (ht : t.Valid) (hdv : dflt.Valid) (off : Off) (hoff : off.Dom),
      parse cls (Info.default false yf year century) o tznames tzi dflt (str_us_slash t off.render) = .ok { dt := { t with us := 0 }, tz := offZone o tznames off, tokens := none })
  else if id = "eu_slash" then
    (∀ (cls : Char → CClass) [AsciiOK cls] (yf : Bool) (year century : Int) (o : Opts) (tznames : List Token) (tzi : TzInfos) (ho : StrictOpts o tzi) (hdf : o.dayfirst.getD false = true) (hyf : o.yearfirst.getD yf = false) (t dflt : DT) (ht : t.Valid) (hdv : dflt.Valid) (off : Off) (hoff : off.Dom),
      parse cls (Info.default false yf year century) o tznames tzi dflt (str_eu_slash t off.render) = .ok { dt := { t with us := 0 }, tz := offZone o tznames off, tokens := none })
  else if id = "yf_slash" then
    (∀ (cls : Char → CClass) [AsciiOK cls] (yf : Bool) (year century : Int) (o : Opts) (tznames : List Token) (tzi : TzInfos) (ho : StrictOpts o tzi) (hdf : o.dayfirst.getD false = false) (t dflt : DT) (ht : t.Valid) (hdv : dflt.Valid) (off : Off) (hoff : off.Dom),
      parse cls (Info.default false yf year century) o tznames tzi dflt (str_yf_slash t off.render) = .ok { dt := { t with us := 0 }, tz := offZone o tznames off, tokens := none })
  else if id = "us_dash_date" then
    (∀ (cls : Char → CClass) [AsciiOK cls] (yf : Bool) (year century : Int) (o : Opts) (tznames : List Token) (tzi : TzInfos) (ho : StrictOpts o tzi) (hdf : o.dayfirst.getD false = false) (hyf : o.yearfirst.getD yf = false) (t dflt : DT) (ht : t.Valid) (hdv : dflt.Valid),
      parse cls (Info.default false yf year century) o tznames tzi dflt (str_us_dash_date t []) = .ok { dt := { t with hh := dflt.hh, mm := dflt.mm, ss := dflt.ss, us := dflt.us }, tz := .naive, tokens := none })
  else if id = "iso_date" then
    (∀ (cls : Char → CClass) [AsciiOK cls] (yf : Bool) (year century : Int) (o : Opts) (tznames : List Token) (tzi : TzInfos) (ho : StrictOpts o tzi) (hdf : o.dayfirst.getD false = false) (t dflt : DT) (ht : t.Valid) (hdv : dflt.Valid),
      parse cls (Info.default false yf year century) o tznames tzi dflt (str_iso_date t []) = .ok { dt := { t with hh := dflt.hh, mm := dflt.mm, ss := dflt.ss, us := dflt.us }, tz := .naive, tokens := none })
  else if id = "eu_yy" then
    (∀ (cls : Char → CClass) [AsciiOK cls] (yf : Bool) (year century : Int) (o : Opts) (tznames : List Token) (tzi : TzInfos) (ho : StrictOpts o tzi) (hdf : o.dayfirst.getD false = true) (hyf : o.yearfirst.getD yf = false) (t dflt : DT) (ht : t.Valid) (hdv : dflt.Valid) (hwin : Gen.convertyear ⟨century, year⟩ (t.y % 100) false = .ok t.y) (off : Off) (hoff : off.Dom),
      parse cls (Info.default false yf year century) o tznames tzi dflt (str_eu_yy t off.render) = .ok { dt := { t with ss := dflt.ss, us := dflt.us }, tz := offZone o tznames off, tokens := none })
  else if id = "yymmdd" then
    (∀ (cls : Char → CClass) [AsciiOK cls] (yf : Bool) (year century : Int) (o : Opts) (tznames : List Token) (tzi : TzInfos) (ho : StrictOpts o tzi) (hdf : o.dayfirst.getD false = false) (hyf : o.yearfirst.getD yf = true) (t dflt : DT) (ht : t.Valid) (hdv : dflt.Valid) (hwin : Gen.convertyear ⟨century, year⟩ (t.y % 100) false = .ok t.y),
      parse cls (Info.default false yf year century) o tznames tzi dflt (str_yymmdd t []) = .ok { dt := { t with hh := dflt.hh, mm := dflt.mm, ss := dflt.ss, us := dflt.us }, tz := .naive, tokens := none })
  else if id = "hms_letters" then
    (∀ (cls : Char → CClass) [AsciiOK cls] (yf : Bool) (year century : Int) (o : Opts) (tznames : List Token) (tzi : TzInfos) (ho : StrictOpts o tzi) (hdf : o.dayfirst.getD false = false) (t dflt : DT) (ht : t.Valid) (hdv : dflt.Valid) (off : Off) (hoff : off.Dom) (hsp : off.Spaced),
      parse cls (Info.default false yf year century) o tznames tzi dflt (str_hms_letters t off.render) = .ok { dt := { t with us := 0 }, tz := offZone o tznames off, tokens := none })
  else if id = "hm_letters" then
    (∀ (cls : Char → CClass) [AsciiOK cls] (yf : Bool) (year century : Int) (o : Opts) (tznames : List Token) (tzi : TzInfos) (ho : StrictOpts o tzi) (hdf : o.dayfirst.getD false = false) (t dflt : DT) (ht : t.Valid) (hdv : dflt.Valid) (off : Off) (hoff : off.Dom) (hsp : off.Spaced),
      parse cls (Info.default false yf year century) o tznames tzi dflt (str_hm_letters t off.render) = .ok { dt := { t with ss := dflt.ss, us := dflt.us }, tz := offZone o tznames off, tokens := none })
  else if id = "ampm_short" then
    (∀ (cls : Char → CClass) [AsciiOK cls] (yf : Bool) (year century : Int) (o : Opts) (tznames : List Token) (tzi : TzInfos) (ho : StrictOpts o tzi) (hdf : o.dayfirst.getD false = false) (t dflt : DT) (ht : t.Valid) (hdv : dflt.Valid) (off : Off) (hoff : off.Dom) (hsp : off.Spaced),
      parse cls (Info.default false yf year century) o tznames tzi dflt (str_ampm_short t off.render) = .ok { dt := { t with ss := dflt.ss, us := dflt.us }, tz := offZone o tznames off, tokens := none })
  else if id = "ampm_hour" then
    (∀ (cls : Char → CClass) [AsciiOK cls] (yf : Bool) (year century : Int) (o : Opts) (tznames : List Token) (tzi : TzInfos) (ho : StrictOpts o tzi) (hdf : o.dayfirst.getD false = false) (t dflt : DT) (ht : t.Valid) (hdv : dflt.Valid) (off : Off) (hoff : off.Dom) (hsp : off.Spaced),
      parse cls (Info.default false yf year century) o tznames tzi dflt (str_ampm_hour t off.render) = .ok { dt := { t with mm := dflt.mm, ss := dflt.ss, us := dflt.us }, tz := offZone o tznames off, tokens := none })
  else if id = "ampm_hour_tight" then
    (∀ (cls : Char → CClass) [AsciiOK cls] (yf : Bool) (year century : Int) (o : Opts) (tznames : List Token) (tzi : TzInfos) (ho : StrictOpts o tzi) (hdf : o.dayfirst.getD false = false) (t dflt : DT) (ht : t.Valid) (hdv : dflt.Valid) (off : Off) (hoff : off.Dom) (hsp : off.Spaced),
      parse cls (Info.default false yf year century) o tznames tzi dflt (str_ampm_hour_tight t off.render) = .ok { dt := { t with mm := dflt.mm, ss := dflt.ss, us := dflt.us }, tz := offZone o tznames off, tokens := none })
  else if id = "ampm_hms_sp" then
    (∀ (cls : Char → CClass) [AsciiOK cls] (yf : Bool) (year century : Int) (o : Opts) (tznames : List Token) (tzi : TzInfos) (ho : StrictOpts o tzi) (hdf : o.dayfirst.getD false = false) (t dflt : DT) (ht : t.Valid) (hdv : dflt.Valid) (off : Off) (hoff : off.Dom) (hsp : off.Spaced),
      parse cls (Info.default false yf year century) o tznames tzi dflt (str_ampm_hms_sp t off.render) = .ok { dt := { t with us := 0 }, tz := offZone o tznames off, tokens := none })
  else if id = "dd-Mon-Y_hm" then
    (∀ (cls : Char → CClass) [AsciiOK cls] (yf : Bool) (year century : Int) (o : Opts) (tznames : List Token) (tzi : TzInfos) (ho : StrictOpts o tzi)  (t dflt : DT) (ht : t.Valid) (hdv : dflt.Valid) (off : Off) (hoff : off.Dom),
      parse cls (Info.default false yf year century) o tznames tzi dflt (str_dd_Mon_Y_hm t off.render) = .ok { dt := { t with ss := dflt.ss, us := dflt.us }, tz := offZone o tznames off, tokens := none })
  else if id = "dd-Mon-yy" then
    (∀ (cls : Char → CClass) [AsciiOK cls] (yf : Bool) (year century : Int) (o : Opts) (tznames : List Token) (tzi : TzInfos) (ho : StrictOpts o tzi) (hyf : o.yearfirst.getD yf = false) (t dflt : DT) (ht : t.Valid) (hdv : dflt.Valid) (hwin : Gen.convertyear ⟨century, year⟩ (t.y % 100) false = .ok t.y),
      parse cls (Info.default false yf year century) o tznames tzi dflt (str_dd_Mon_yy t []) = .ok { dt := { t with hh := dflt.hh, mm := dflt.mm, ss := dflt.ss, us := dflt.us }, tz := .naive, tokens := none })
  else if id = "d_Month_Y_hm" then
    (∀ (cls : Char → CClass) [AsciiOK cls] (yf : Bool) (year century : Int) (o : Opts) (tznames : List Token) (tzi : TzInfos) (ho : StrictOpts o tzi) (hyf : o.yearfirst.getD yf = false) (t dflt : DT) (ht : t.Valid) (hdv : dflt.Valid) (hy : 100 ≤ t.y) (off : Off) (hoff : off.Dom),
      parse cls (Info.default false yf year century) o tznames tzi dflt (str_d_Month_Y_hm t off.render) = .ok { dt := { t with ss := dflt.ss, us := dflt.us }, tz := offZone o tznames off, tokens := none })
  else if id = "Mon_d_Y_hms" then
    (∀ (cls : Char → CClass) [AsciiOK cls] (yf : Bool) (year century : Int) (o : Opts) (tznames : List Token) (tzi : TzInfos) (ho : StrictOpts o tzi)  (t dflt : DT) (ht : t.Valid) (hdv : dflt.Valid) (hy : 100 ≤ t.y) (off : Off) (hoff : off.Dom),
      parse cls (Info.default false yf year century) o tznames tzi dflt (str_Mon_d_Y_hms t off.render) = .ok { dt := { t with us := 0 }, tz := offZone o tznames off, tokens := none })
  else if id = "compact_T_s" then
    (∀ (cls : Char → CClass) [AsciiOK cls] (yf : Bool) (year century : Int) (o : Opts) (tznames : List Token) (tzi : TzInfos) (ho : StrictOpts o tzi) (hdf : o.dayfirst.getD false = false) (t dflt : DT) (ht : t.Valid) (hdv : dflt.Valid) (off : Off) (hoff : off.Dom),
      parse cls (Info.default false yf year century) o tznames tzi dflt (str_compact_T_s t off.render) = .ok { dt := { t with us := 0 }, tz := offZone o tznames off, tokens := none })
  else if id = "compact_nosep_s" then
    (∀ (cls : Char → CClass) [AsciiOK cls] (yf : Bool) (year century : Int) (o : Opts) (tznames : List Token) (tzi : TzInfos) (ho : StrictOpts o tzi) (hdf : o.dayfirst.getD false = false) (t dflt : DT) (ht : t.Valid) (hdv : dflt.Valid) (off : Off) (hoff : off.Dom),
      parse cls (Info.default false yf year century) o tznames tzi dflt (str_compact_nosep_s t off.render) = .ok { dt := { t with us := dflt.us }, tz := offZone o tznames off, tokens := none })
  else if id = "compact_T_min" then
    (∀ (cls : Char → CClass) [AsciiOK cls] (yf : Bool) (year century : Int) (o : Opts) (tznames : List Token) (tzi : TzInfos) (ho : StrictOpts o tzi) (hdf : o.dayfirst.getD false = false) (t dflt : DT) (ht : t.Valid) (hdv : dflt.Valid) (off : Off) (hoff : off.Dom),
      parse cls (Info.default false yf year century) o tznames tzi dflt (str_compact_T_min t off.render) = .ok { dt := { t with ss := dflt.ss, us := dflt.us }, tz := offZone o tznames off, tokens := none })
  else if id = "compact_nosep_min" then
    (∀ (cls : Char → CClass) [AsciiOK cls] (yf : Bool) (year century : Int) (o : Opts) (tznames : List Token) (tzi : TzInfos) (ho : StrictOpts o tzi) (hdf : o.dayfirst.getD false = false) (t dflt : DT) (ht : t.Valid) (hdv : dflt.Valid) (off : Off) (hoff : off.Dom),
      parse cls (Info.default false yf year century) o tznames tzi dflt (str_compact_nosep_min t off.render) = .ok { dt := { t with ss := dflt.ss, us := dflt.us }, tz := offZone o tznames off, tokens := none })
  else if id = "compact_date" then
    (∀ (cls : Char → CClass) [AsciiOK cls] (yf : Bool) (year century : Int) (o : Opts) (tznames : List Token) (tzi : TzInfos) (ho : StrictOpts o tzi) (hdf : o.dayfirst.getD false = false) (t dflt : DT) (ht : t.Valid) (hdv : dflt.Valid),
      parse cls (Info.default false yf year century) o tznames tzi dflt (str_compact_date t []) = .ok { dt := { t with hh := dflt.hh, mm := dflt.mm, ss := dflt.ss, us := dflt.us }, tz := .naive, tokens := none })
  else if id = "eu_dot" then
    (∀ (cls : Char → CClass) [AsciiOK cls] (yf : Bool) (year century : Int) (o : Opts) (tznames : List Token) (tzi : TzInfos) (ho : StrictOpts o tzi) (hdf : o.dayfirst.getD false = true) (hyf : o.yearfirst.getD yf = false) (t dflt : DT) (ht : t.Valid) (hdv : dflt.Valid) (off : Off) (hoff : off.Dom),
      parse cls (Info.default false yf year century) o tznames tzi dflt (str_eu_dot t off.render) = .ok { dt := { t with ss := dflt.ss, us := dflt.us }, tz := offZone o tznames off, tokens := none })
  else if id = "yf_dot_date" then
    (∀ (cls : Char → CClass) [AsciiOK cls] (yf : Bool) (year century : Int) (o : Opts) (tznames : List Token) (tzi : TzInfos) (ho : StrictOpts o tzi) (hdf : o.dayfirst.getD false = false) (t dflt : DT) (ht : t.Valid) (hdv : dflt.Valid),
      parse cls (Info.default false yf year century) o tznames tzi dflt (str_yf_dot_date t []) = .ok { dt := { t with hh := dflt.hh, mm := dflt.mm, ss := dflt.ss, us := dflt.us }, tz := .naive, tokens := none })
  else if id = "long_ampm" then
    (∀ (cls : Char → CClass) [AsciiOK cls] (yf : Bool) (year century : Int) (o : Opts) (tznames : List Token) (tzi : TzInfos) (ho : StrictOpts o tzi)  (t dflt : DT) (ht : t.Valid) (hdv : dflt.Valid) (hy : 100 ≤ t.y) (off : Off) (hoff : off.Dom) (hsp : off.Spaced),
      parse cls (Info.default false yf year century) o tznames tzi dflt (str_long_ampm t off.render) = .ok { dt := { t with us := 0 }, tz := offZone o tznames off, tokens := none })
  else if id = "iso_T_s" then
    (∀ (cls : Char → CClass) [AsciiOK cls] (yf : Bool) (year century : Int) (o : Opts) (tznames : List Token) (tzi : TzInfos) (ho : PlainOpts o tzi) (t dflt : DT) (ht : t.Valid) (hdv : dflt.Valid) (off : Off) (hoff : off.Dom),
      parse cls (Info.default false yf year century) o tznames tzi dflt (renderIsoX 'T' .hms t off) =
        .ok { dt := TimeFmt.expect .hms t dflt, tz := if o.ignoretz then .naive else offDescr tznames off, tokens := none })
  else if id = "iso_sp_s" then
    (∀ (cls : Char → CClass) [AsciiOK cls] (yf : Bool) (year century : Int) (o : Opts) (tznames : List Token) (tzi : TzInfos) (ho : PlainOpts o tzi) (t dflt : DT) (ht : t.Valid) (hdv : dflt.Valid) (off : Off) (hoff : off.Dom),
      parse cls (Info.default false yf year century) o tznames tzi dflt (renderIsoX ' ' .hms t off) =
        .ok { dt := TimeFmt.expect .hms t dflt, tz := if o.ignoretz then .naive else offDescr tznames off, tokens := none })
  else if id = "iso_T_us" then
    (∀ (cls : Char → CClass) [AsciiOK cls] (yf : Bool) (year century : Int) (o : Opts) (tznames : List Token) (tzi : TzInfos) (ho : PlainOpts o tzi) (t dflt : DT) (ht : t.Valid) (hdv : dflt.Valid) (off : Off) (hoff : off.Dom),
      parse cls (Info.default false yf year century) o tznames tzi dflt (renderIsoX 'T' (.frac false 6) t off) =
        .ok { dt := TimeFmt.expect (.frac false 6) t dflt, tz := if o.ignoretz then .naive else offDescr tznames off, tokens := none })
  else if id = "iso_sp_us" then
    (∀ (cls : Char → CClass) [AsciiOK cls] (yf : Bool) (year century : Int) (o : Opts) (tznames : List Token) (tzi : TzInfos) (ho : PlainOpts o tzi) (t dflt : DT) (ht : t.Valid) (hdv : dflt.Valid) (off : Off) (hoff : off.Dom),
      parse cls (Info.default false yf year century) o tznames tzi dflt (renderIsoX ' ' (.frac false 6) t off) =
        .ok { dt := TimeFmt.expect (.frac false 6) t dflt, tz := if o.ignoretz then .naive else offDescr tznames off, tokens := none })
  else if id = "iso_T_comma_f3" then
    (∀ (cls : Char → CClass) [AsciiOK cls] (yf : Bool) (year century : Int) (o : Opts) (tznames : List Token) (tzi : TzInfos) (ho : PlainOpts o tzi) (t dflt : DT) (ht : t.Valid) (hdv : dflt.Valid) (off : Off) (hoff : off.Dom),
      parse cls (Info.default false yf year century) o tznames tzi dflt (renderIsoX 'T' (.frac true 3) t off) =
        .ok { dt := TimeFmt.expect (.frac true 3) t dflt, tz := if o.ignoretz then .naive else offDescr tznames off, tokens := none })
  else if id = "iso_sp_comma_f6" then
    (∀ (cls : Char → CClass) [AsciiOK cls] (yf : Bool) (year century : Int) (o : Opts) (tznames : List Token) (tzi : TzInfos) (ho : PlainOpts o tzi) (t dflt : DT) (ht : t.Valid) (hdv : dflt.Valid) (off : Off) (hoff : off.Dom),
      parse cls (Info.default false yf year century) o tznames tzi dflt (renderIsoX ' ' (.frac true 6) t off) =
        .ok { dt := TimeFmt.expect (.frac true 6) t dflt, tz := if o.ignoretz then .naive else offDescr tznames off, tokens := none })
  else if id = "iso_T_min" then
    (∀ (cls : Char → CClass) [AsciiOK cls] (yf : Bool) (year century : Int) (o : Opts) (tznames : List Token) (tzi : TzInfos) (ho : PlainOpts o tzi) (t dflt : DT) (ht : t.Valid) (hdv : dflt.Valid) (off : Off) (hoff : off.Dom),
      parse cls (Info.default false yf year century) o tznames tzi dflt (renderIsoX 'T' .hm t off) =
        .ok { dt := TimeFmt.expect .hm t dflt, tz := if o.ignoretz then .naive else offDescr tznames off, tokens := none })
  else if id = "iso_sp_min" then
    (∀ (cls : Char → CClass) [AsciiOK cls] (yf : Bool) (year century : Int) (o : Opts) (tznames : List Token) (tzi : TzInfos) (ho : PlainOpts o tzi) (t dflt : DT) (ht : t.Valid) (hdv : dflt.Valid) (off : Off) (hoff : off.Dom),
      parse cls (Info.default false yf year century) o tznames tzi dflt (renderIsoX ' ' .hm t off) =
        .ok { dt := TimeFmt.expect .hm t dflt, tz := if o.ignoretz then .naive else offDescr tznames off, tokens := none })
  else if id = "iso_T_dot_f1" then
    (∀ (cls : Char → CClass) [AsciiOK cls] (yf : Bool) (year century : Int) (o : Opts) (tznames : List Token) (tzi : TzInfos) (ho : PlainOpts o tzi) (t dflt : DT) (ht : t.Valid) (hdv : dflt.Valid) (off : Off) (hoff : off.Dom),
      parse cls (Info.default false yf year century) o tznames tzi dflt (renderIsoX 'T' (.frac false 1) t off) =
        .ok { dt := TimeFmt.expect (.frac false 1) t dflt, tz := if o.ignoretz then .naive else offDescr tznames off, tokens := none })
  else if id = "iso_T_dot_f2" then
    (∀ (cls : Char → CClass) [AsciiOK cls] (yf : Bool) (year century : Int) (o : Opts) (tznames : List Token) (tzi : TzInfos) (ho : PlainOpts o tzi) (t dflt : DT) (ht : t.Valid) (hdv : dflt.Valid) (off : Off) (hoff : off.Dom),
      parse cls (Info.default false yf year century) o tznames tzi dflt (renderIsoX 'T' (.frac false 2) t off) =
        .ok { dt := TimeFmt.expect (.frac false 2) t dflt, tz := if o.ignoretz then .naive else offDescr tznames off, tokens := none })
  else if id = "iso_T_dot_f3" then
    (∀ (cls : Char → CClass) [AsciiOK cls] (yf : Bool) (year century : Int) (o : Opts) (tznames : List Token) (tzi : TzInfos) (ho : PlainOpts o tzi) (t dflt : DT) (ht : t.Valid) (hdv : dflt.Valid) (off : Off) (hoff : off.Dom),
      parse cls (Info.default false yf year century) o tznames tzi dflt (renderIsoX 'T' (.frac false 3) t off) =
        .ok { dt := TimeFmt.expect (.frac false 3) t dflt, tz := if o.ignoretz then .naive else offDescr tznames off, tokens := none })
  else if id = "iso_T_dot_f4" then
    (∀ (cls : Char → CClass) [AsciiOK cls] (yf : Bool) (year century : Int) (o : Opts) (tznames : List Token) (tzi : TzInfos) (ho : PlainOpts o tzi) (t dflt : DT) (ht : t.Valid) (hdv : dflt.Valid) (off : Off) (hoff : off.Dom),
      parse cls (Info.default false yf year century) o tznames tzi dflt (renderIsoX 'T' (.frac false 4) t off) =
        .ok { dt := TimeFmt.expect (.frac false 4) t dflt, tz := if o.ignoretz then .naive else offDescr tznames off, tokens := none })
  else if id = "iso_T_dot_f5" then
    (∀ (cls : Char → CClass) [AsciiOK cls] (yf : Bool) (year century : Int) (o : Opts) (tznames : List Token) (tzi : TzInfos) (ho : PlainOpts o tzi) (t dflt : DT) (ht : t.Valid) (hdv : dflt.Valid) (off : Off) (hoff : off.Dom),
      parse cls (Info.default false yf year century) o tznames tzi dflt (renderIsoX 'T' (.frac false 5) t off) =
        .ok { dt := TimeFmt.expect (.frac false 5) t dflt, tz := if o.ignoretz then .naive else offDescr tznames off, tokens := none })
  else if id = "iso_T_comma_f1" then
    (∀ (cls : Char → CClass) [AsciiOK cls] (yf : Bool) (year century : Int) (o : Opts) (tznames : List Token) (tzi : TzInfos) (ho : PlainOpts o tzi) (t dflt : DT) (ht : t.Valid) (hdv : dflt.Valid) (off : Off) (hoff : off.Dom),
      parse cls (Info.default false yf year century) o tznames tzi dflt (renderIsoX 'T' (.frac true 1) t off) =
        .ok { dt := TimeFmt.expect (.frac true 1) t dflt, tz := if o.ignoretz then .naive else offDescr tznames off, tokens := none })
  else if id = "iso_T_comma_f2" then
    (∀ (cls : Char → CClass) [AsciiOK cls] (yf : Bool) (year century : Int) (o : Opts) (tznames : List Token) (tzi : TzInfos) (ho : PlainOpts o tzi) (t dflt : DT) (ht : t.Valid) (hdv : dflt.Valid) (off : Off) (hoff : off.Dom),
      parse cls (Info.default false yf year century) o tznames tzi dflt (renderIsoX 'T' (.frac true 2) t off) =
        .ok { dt := TimeFmt.expect (.frac true 2) t dflt, tz := if o.ignoretz then .naive else offDescr tznames off, tokens := none })
  else if id = "iso_T_comma_f4" then
    (∀ (cls : Char → CClass) [AsciiOK cls] (yf : Bool) (year century : Int) (o : Opts) (tznames : List Token) (tzi : TzInfos) (ho : PlainOpts o tzi) (t dflt : DT) (ht : t.Valid) (hdv : dflt.Valid) (off : Off) (hoff : off.Dom),
      parse cls (Info.default false yf year century) o tznames tzi dflt (renderIsoX 'T' (.frac true 4) t off) =
        .ok { dt := TimeFmt.expect (.frac true 4) t dflt, tz := if o.ignoretz then .naive else offDescr tznames off, tokens := none })
  else if id = "iso_T_comma_f5" then
    (∀ (cls : Char → CClass) [AsciiOK cls] (yf : Bool) (year century : Int) (o : Opts) (tznames : List Token) (tzi : TzInfos) (ho : PlainOpts o tzi) (t dflt : DT) (ht : t.Valid) (hdv : dflt.Valid) (off : Off) (hoff : off.Dom),
      parse cls (Info.default false yf year century) o tznames tzi dflt (renderIsoX 'T' (.frac true 5) t off) =
        .ok { dt := TimeFmt.expect (.frac true 5) t dflt, tz := if o.ignoretz then .naive else offDescr tznames off, tokens := none })
  else if id = "iso_sp_dot_f1" then
    (∀ (cls : Char → CClass) [AsciiOK cls] (yf : Bool) (year century : Int) (o : Opts) (tznames : List Token) (tzi : TzInfos) (ho : PlainOpts o tzi) (t dflt : DT) (ht : t.Valid) (hdv : dflt.Valid) (off : Off) (hoff : off.Dom),
      parse cls (Info.default false yf year century) o tznames tzi dflt (renderIsoX ' ' (.frac false 1) t off) =
        .ok { dt := TimeFmt.expect (.frac false 1) t dflt, tz := if o.ignoretz then .naive else offDescr tznames off, tokens := none })
  else if id = "iso_sp_dot_f2" then
    (∀ (cls : Char → CClass) [AsciiOK cls] (yf : Bool) (year century : Int) (o : Opts) (tznames : List Token) (tzi : TzInfos) (ho : PlainOpts o tzi) (t dflt : DT) (ht : t.Valid) (hdv : dflt.Valid) (off : Off) (hoff : off.Dom),
      parse cls (Info.default false yf year century) o tznames tzi dflt (renderIsoX ' ' (.frac false 2) t off) =
        .ok { dt := TimeFmt.expect (.frac false 2) t dflt, tz := if o.ignoretz then .naive else offDescr tznames off, tokens := none })
  else if id = "iso_sp_dot_f4" then
    (∀ (cls : Char → CClass) [AsciiOK cls] (yf : Bool) (year century : Int) (o : Opts) (tznames : List Token) (tzi : TzInfos) (ho : PlainOpts o tzi) (t dflt : DT) (ht : t.Valid) (hdv : dflt.Valid) (off : Off) (hoff : off.Dom),
      parse cls (Info.default false yf year century) o tznames tzi dflt (renderIsoX ' ' (.frac false 4) t off) =
        .ok { dt := TimeFmt.expect (.frac false 4) t dflt, tz := if o.ignoretz then .naive else offDescr tznames off, tokens := none })
  else if id = "iso_sp_dot_f5" then
    (∀ (cls : Char → CClass) [AsciiOK cls] (yf : Bool) (year century : Int) (o : Opts) (tznames : List Token) (tzi : TzInfos) (ho : PlainOpts o tzi) (t dflt : DT) (ht : t.Valid) (hdv : dflt.Valid) (off : Off) (hoff : off.Dom),
      parse cls (Info.default false yf year century) o tznames tzi dflt (renderIsoX ' ' (.frac false 5) t off) =
        .ok { dt := TimeFmt.expect (.frac false 5) t dflt, tz := if o.ignoretz then .naive else offDescr tznames off, tokens := none })
  else if id = "compact_T_dot_f1" then
    (∀ (cls : Char → CClass) [AsciiOK cls] (yf : Bool) (year century : Int) (o : Opts) (tznames : List Token) (tzi : TzInfos) (ho : PlainOpts o tzi) (t dflt : DT) (ht : t.Valid) (hdv : dflt.Valid) (off : Off) (hoff : off.Dom),
      parse cls (Info.default false yf year century) o tznames tzi dflt (renderCFrac .compactT false 1 t off) =
        .ok { dt := TimeFmt.expect (.frac false 1) t dflt, tz := if o.ignoretz then .naive else offDescr tznames off, tokens := none })
  else if id = "iso_T_ctime_dot_f1" then
    (∀ (cls : Char → CClass) [AsciiOK cls] (yf : Bool) (year century : Int) (o : Opts) (tznames : List Token) (tzi : TzInfos) (ho : PlainOpts o tzi) (t dflt : DT) (ht : t.Valid) (hdv : dflt.Valid) (off : Off) (hoff : off.Dom),
      parse cls (Info.default false yf year century) o tznames tzi dflt (renderCFrac .isoT false 1 t off) =
        .ok { dt := TimeFmt.expect (.frac false 1) t dflt, tz := if o.ignoretz then .naive else offDescr tznames off, tokens := none })
  else if id = "iso_sp_ctime_dot_f1" then
    (∀ (cls : Char → CClass) [AsciiOK cls] (yf : Bool) (year century : Int) (o : Opts) (tznames : List Token) (tzi : TzInfos) (ho : PlainOpts o tzi) (t dflt : DT) (ht : t.Valid) (hdv : dflt.Valid) (off : Off) (hoff : off.Dom),
      parse cls (Info.default false yf year century) o tznames tzi dflt (renderCFrac .isoSp false 1 t off) =
        .ok { dt := TimeFmt.expect (.frac false 1) t dflt, tz := if o.ignoretz then .naive else offDescr tznames off, tokens := none })
  else if id = "compact_T_dot_f2" then
    (∀ (cls : Char → CClass) [AsciiOK cls] (yf : Bool) (year century : Int) (o : Opts) (tznames : List Token) (tzi : TzInfos) (ho : PlainOpts o tzi) (t dflt : DT) (ht : t.Valid) (hdv : dflt.Valid) (off : Off) (hoff : off.Dom),
      parse cls (Info.default false yf year century) o tznames tzi dflt (renderCFrac .compactT false 2 t off) =
        .ok { dt := TimeFmt.expect (.frac false 2) t dflt, tz := if o.ignoretz then .naive else offDescr tznames off, tokens := none })
  else if id = "iso_T_ctime_dot_f2" then
    (∀ (cls : Char → CClass) [AsciiOK cls] (yf : Bool) (year century : Int) (o : Opts) (tznames : List Token) (tzi : TzInfos) (ho : PlainOpts o tzi) (t dflt : DT) (ht : t.Valid) (hdv : dflt.Valid) (off : Off) (hoff : off.Dom),
      parse cls (Info.default false yf year century) o tznames tzi dflt (renderCFrac .isoT false 2 t off) =
        .ok { dt := TimeFmt.expect (.frac false 2) t dflt, tz := if o.ignoretz then .naive else offDescr tznames off, tokens := none })
  else if id = "compact_T_dot_f3" then
    (∀ (cls : Char → CClass) [AsciiOK cls] (yf : Bool) (year century : Int) (o : Opts) (tznames : List Token) (tzi : TzInfos) (ho : PlainOpts o tzi) (t dflt : DT) (ht : t.Valid) (hdv : dflt.Valid) (off : Off) (hoff : off.Dom),
      parse cls (Info.default false yf year century) o tznames tzi dflt (renderCFrac .compactT false 3 t off) =
        .ok { dt := TimeFmt.expect (.frac false 3) t dflt, tz := if o.ignoretz then .naive else offDescr tznames off, tokens := none })
  else if id = "iso_T_ctime_dot_f3" then
    (∀ (cls : Char → CClass) [AsciiOK cls] (yf : Bool) (year century : Int) (o : Opts) (tznames : List Token) (tzi : TzInfos) (ho : PlainOpts o tzi) (t dflt : DT) (ht : t.Valid) (hdv : dflt.Valid) (off : Off) (hoff : off.Dom),
      parse cls (Info.default false yf year century) o tznames tzi dflt (renderCFrac .isoT false 3 t off) =
        .ok { dt := TimeFmt.expect (.frac false 3) t dflt, tz := if o.ignoretz then .naive else offDescr tznames off, tokens := none })
  else if id = "iso_sp_ctime_dot_f3" then
    (∀ (cls : Char → CClass) [AsciiOK cls] (yf : Bool) (year century : Int) (o : Opts) (tznames : List Token) (tzi : TzInfos) (ho : PlainOpts o tzi) (t dflt : DT) (ht : t.Valid) (hdv : dflt.Valid) (off : Off) (hoff : off.Dom),
      parse cls (Info.default false yf year century) o tznames tzi dflt (renderCFrac .isoSp false 3 t off) =
        .ok { dt := TimeFmt.expect (.frac false 3) t dflt, tz := if o.ignoretz then .naive else offDescr tznames off, tokens := none })
  else if id = "compact_T_dot_f4" then
    (∀ (cls : Char → CClass) [AsciiOK cls] (yf : Bool) (year century : Int) (o : Opts) (tznames : List Token) (tzi : TzInfos) (ho : PlainOpts o tzi) (t dflt : DT) (ht : t.Valid) (hdv : dflt.Valid) (off : Off) (hoff : off.Dom),
      parse cls (Info.default false yf year century) o tznames tzi dflt (renderCFrac .compactT false 4 t off) =
        .ok { dt := TimeFmt.expect (.frac false 4) t dflt, tz := if o.ignoretz then .naive else offDescr tznames off, tokens := none })
  else if id = "iso_T_ctime_dot_f4" then
    (∀ (cls : Char → CClass) [AsciiOK cls] (yf : Bool) (year century : Int) (o : Opts) (tznames : List Token) (tzi : TzInfos) (ho : PlainOpts o tzi) (t dflt : DT) (ht : t.Valid) (hdv : dflt.Valid) (off : Off) (hoff : off.Dom),
      parse cls (Info.default false yf year century) o tznames tzi dflt (renderCFrac .isoT false 4 t off) =
        .ok { dt := TimeFmt.expect (.frac false 4) t dflt, tz := if o.ignoretz then .naive else offDescr tznames off, tokens := none })
  else if id = "compact_T_dot_f5" then
    (∀ (cls : Char → CClass) [AsciiOK cls] (yf : Bool) (year century : Int) (o : Opts) (tznames : List Token) (tzi : TzInfos) (ho : PlainOpts o tzi) (t dflt : DT) (ht : t.Valid) (hdv : dflt.Valid) (off : Off) (hoff : off.Dom),
      parse cls (Info.default false yf year century) o tznames tzi dflt (renderCFrac .compactT false 5 t off) =
        .ok { dt := TimeFmt.expect (.frac false 5) t dflt, tz := if o.ignoretz then .naive else offDescr tznames off, tokens := none })
  else if id = "iso_T_ctime_dot_f5" then
    (∀ (cls : Char → CClass) [AsciiOK cls] (yf : Bool) (year century : Int) (o : Opts) (tznames : List Token) (tzi : TzInfos) (ho : PlainOpts o tzi) (t dflt : DT) (ht : t.Valid) (hdv : dflt.Valid) (off : Off) (hoff : off.Dom),
      parse cls (Info.default false yf year century) o tznames tzi dflt (renderCFrac .isoT false 5 t off) =
        .ok { dt := TimeFmt.expect (.frac false 5) t dflt, tz := if o.ignoretz then .naive else offDescr tznames off, tokens := none })
  else if id = "iso_T_ctime_dot_f6" then
    (∀ (cls : Char → CClass) [AsciiOK cls] (yf : Bool) (year century : Int) (o : Opts) (tznames : List Token) (tzi : TzInfos) (ho : PlainOpts o tzi) (t dflt : DT) (ht : t.Valid) (hdv : dflt.Valid) (off : Off) (hoff : off.Dom),
      parse cls (Info.default false yf year century) o tznames tzi dflt (renderCFrac .isoT false 6 t off) =
        .ok { dt := TimeFmt.expect (.frac false 6) t dflt, tz := if o.ignoretz then .naive else offDescr tznames off, tokens := none })
  else if id = "iso_sp_ctime_dot_f6" then
    (∀ (cls : Char → CClass) [AsciiOK cls] (yf : Bool) (year century : Int) (o : Opts) (tznames : List Token) (tzi : TzInfos) (ho : PlainOpts o tzi) (t dflt : DT) (ht : t.Valid) (hdv : dflt.Valid) (off : Off) (hoff : off.Dom),
      parse cls (Info.default false yf year century) o tznames tzi dflt (renderCFrac .isoSp false 6 t off) =
        .ok { dt := TimeFmt.expect (.frac false 6) t dflt, tz := if o.ignoretz then .naive else offDescr tznames off, tokens := none })
  else if id = "compact_T_comma_f1" then
    (∀ (cls : Char → CClass) [AsciiOK cls] (yf : Bool) (year century : Int) (o : Opts) (tznames : List Token) (tzi : TzInfos) (ho : PlainOpts o tzi) (t dflt : DT) (ht : t.Valid) (hdv : dflt.Valid) (off : Off) (hoff : off.Dom),
      parse cls (Info.default false yf year century) o tznames tzi dflt (renderCFrac .compactT true 1 t off) =
        .ok { dt := TimeFmt.expect (.frac true 1) t dflt, tz := if o.ignoretz then .naive else offDescr tznames off, tokens := none })
  else if id = "iso_T_ctime_comma_f1" then
    (∀ (cls : Char → CClass) [AsciiOK cls] (yf : Bool) (year century : Int) (o : Opts) (tznames : List Token) (tzi : TzInfos) (ho : PlainOpts o tzi) (t dflt : DT) (ht : t.Valid) (hdv : dflt.Valid) (off : Off) (hoff : off.Dom),
      parse cls (Info.default false yf year century) o tznames tzi dflt (renderCFrac .isoT true 1 t off) =
        .ok { dt := TimeFmt.expect (.frac true 1) t dflt, tz := if o.ignoretz then .naive else offDescr tznames off, tokens := none })
  else if id = "iso_sp_ctime_comma_f1" then
    (∀ (cls : Char → CClass) [AsciiOK cls] (yf : Bool) (year century : Int) (o : Opts) (tznames : List Token) (tzi : TzInfos) (ho : PlainOpts o tzi) (t dflt : DT) (ht : t.Valid) (hdv : dflt.Valid) (off : Off) (hoff : off.Dom),
      parse cls (Info.default false yf year century) o tznames tzi dflt (renderCFrac .isoSp true 1 t off) =
        .ok { dt := TimeFmt.expect (.frac true 1) t dflt, tz := if o.ignoretz then .naive else offDescr tznames off, tokens := none })
  else if id = "compact_T_comma_f2" then
    (∀ (cls : Char → CClass) [AsciiOK cls] (yf : Bool) (year century : Int) (o : Opts) (tznames : List Token) (tzi : TzInfos) (ho : PlainOpts o tzi) (t dflt : DT) (ht : t.Valid) (hdv : dflt.Valid) (off : Off) (hoff : off.Dom),
      parse cls (Info.default false yf year century) o tznames tzi dflt (renderCFrac .compactT true 2 t off) =
        .ok { dt := TimeFmt.expect (.frac true 2) t dflt, tz := if o.ignoretz then .naive else offDescr tznames off, tokens := none })
  else if id = "iso_T_ctime_comma_f2" then
    (∀ (cls : Char → CClass) [AsciiOK cls] (yf : Bool) (year century : Int) (o : Opts) (tznames : List Token) (tzi : TzInfos) (ho : PlainOpts o tzi) (t dflt : DT) (ht : t.Valid) (hdv : dflt.Valid) (off : Off) (hoff : off.Dom),
      parse cls (Info.default false yf year century) o tznames tzi dflt (renderCFrac .isoT true 2 t off) =
        .ok { dt := TimeFmt.expect (.frac true 2) t dflt, tz := if o.ignoretz then .naive else offDescr tznames off, tokens := none })
  else if id = "compact_T_comma_f3" then
    (∀ (cls : Char → CClass) [AsciiOK cls] (yf : Bool) (year century : Int) (o : Opts) (tznames : List Token) (tzi : TzInfos) (ho : PlainOpts o tzi) (t dflt : DT) (ht : t.Valid) (hdv : dflt.Valid) (off : Off) (hoff : off.Dom),
      parse cls (Info.default false yf year century) o tznames tzi dflt (renderCFrac .compactT true 3 t off) =
        .ok { dt := TimeFmt.expect (.frac true 3) t dflt, tz := if o.ignoretz then .naive else offDescr tznames off, tokens := none })
  else if id = "iso_T_ctime_comma_f3" then
    (∀ (cls : Char → CClass) [AsciiOK cls] (yf : Bool) (year century : Int) (o : Opts) (tznames : List Token) (tzi : TzInfos) (ho : PlainOpts o tzi) (t dflt : DT) (ht : t.Valid) (hdv : dflt.Valid) (off : Off) (hoff : off.Dom),
      parse cls (Info.default false yf year century) o tznames tzi dflt (renderCFrac .isoT true 3 t off) =
        .ok { dt := TimeFmt.expect (.frac true 3) t dflt, tz := if o.ignoretz then .naive else offDescr tznames off, tokens := none })
  else if id = "iso_sp_ctime_comma_f3" then
    (∀ (cls : Char → CClass) [AsciiOK cls] (yf : Bool) (year century : Int) (o : Opts) (tznames : List Token) (tzi : TzInfos) (ho : PlainOpts o tzi) (t dflt : DT) (ht : t.Valid) (hdv : dflt.Valid) (off : Off) (hoff : off.Dom),
      parse cls (Info.default false yf year century) o tznames tzi dflt (renderCFrac .isoSp true 3 t off) =
        .ok { dt := TimeFmt.expect (.frac true 3) t dflt, tz := if o.ignoretz then .naive else offDescr tznames off, tokens := none })
  else if id = "compact_T_comma_f4" then
    (∀ (cls : Char → CClass) [AsciiOK cls] (yf : Bool) (year century : Int) (o : Opts) (tznames : List Token) (tzi : TzInfos) (ho : PlainOpts o tzi) (t dflt : DT) (ht : t.Valid) (hdv : dflt.Valid) (off : Off) (hoff : off.Dom),
      parse cls (Info.default false yf year century) o tznames tzi dflt (renderCFrac .compactT true 4 t off) =
        .ok { dt := TimeFmt.expect (.frac true 4) t dflt, tz := if o.ignoretz then .naive else offDescr tznames off, tokens := none })
  else if id = "iso_T_ctime_comma_f4" then
    (∀ (cls : Char → CClass) [AsciiOK cls] (yf : Bool) (year century : Int) (o : Opts) (tznames : List Token) (tzi : TzInfos) (ho : PlainOpts o tzi) (t dflt : DT) (ht : t.Valid) (hdv : dflt.Valid) (off : Off) (hoff : off.Dom),
      parse cls (Info.default false yf year century) o tznames tzi dflt (renderCFrac .isoT true 4 t off) =
        .ok { dt := TimeFmt.expect (.frac true 4) t dflt, tz := if o.ignoretz then .naive else offDescr tznames off, tokens := none })
  else if id = "compact_T_comma_f5" then
    (∀ (cls : Char → CClass) [AsciiOK cls] (yf : Bool) (year century : Int) (o : Opts) (tznames : List Token) (tzi : TzInfos) (ho : PlainOpts o tzi) (t dflt : DT) (ht : t.Valid) (hdv : dflt.Valid) (off : Off) (hoff : off.Dom),
      parse cls (Info.default false yf year century) o tznames tzi dflt (renderCFrac .compactT true 5 t off) =
        .ok { dt := TimeFmt.expect (.frac true 5) t dflt, tz := if o.ignoretz then .naive else offDescr tznames off, tokens := none })
  else if id = "iso_T_ctime_comma_f5" then
    (∀ (cls : Char → CClass) [AsciiOK cls] (yf : Bool) (year century : Int) (o : Opts) (tznames : List Token) (tzi : TzInfos) (ho : PlainOpts o tzi) (t dflt : DT) (ht : t.Valid) (hdv : dflt.Valid) (off : Off) (hoff : off.Dom),
      parse cls (Info.default false yf year century) o tznames tzi dflt (renderCFrac .isoT true 5 t off) =
        .ok { dt := TimeFmt.expect (.frac true 5) t dflt, tz := if o.ignoretz then .naive else offDescr tznames off, tokens := none })
  else if id = "compact_T_comma_f6" then
    (∀ (cls : Char → CClass) [AsciiOK cls] (yf : Bool) (year century : Int) (o : Opts) (tznames : List Token) (tzi : TzInfos) (ho : PlainOpts o tzi) (t dflt : DT) (ht : t.Valid) (hdv : dflt.Valid) (off : Off) (hoff : off.Dom),
      parse cls (Info.default false yf year century) o tznames tzi dflt (renderCFrac .compactT true 6 t off) =
        .ok { dt := TimeFmt.expect (.frac true 6) t dflt, tz := if o.ignoretz then .naive else offDescr tznames off, tokens := none })
  else if id = "iso_T_ctime_comma_f6" then
    (∀ (cls : Char → CClass) [AsciiOK cls] (yf : Bool) (year century : Int) (o : Opts) (tznames : List Token) (tzi : TzInfos) (ho : PlainOpts o tzi) (t dflt : DT) (ht : t.Valid) (hdv : dflt.Valid) (off : Off) (hoff : off.Dom),
      parse cls (Info.default false yf year century) o tznames tzi dflt (renderCFrac .isoT true 6 t off) =
        .ok { dt := TimeFmt.expect (.frac true 6) t dflt, tz := if o.ignoretz then .naive else offDescr tznames off, tokens := none })
  else if id = "iso_sp_ctime_comma_f6" then
    (∀ (cls : Char → CClass) [AsciiOK cls] (yf : Bool) (year century : Int) (o : Opts) (tznames : List Token) (tzi : TzInfos) (ho : PlainOpts o tzi) (t dflt : DT) (ht : t.Valid) (hdv : dflt.Valid) (off : Off) (hoff : off.Dom),
      parse cls (Info.default false yf year century) o tznames tzi dflt (renderCFrac .isoSp true 6 t off) =
        .ok { dt := TimeFmt.expect (.frac true 6) t dflt, tz := if o.ignoretz then .naive else offDescr tznames off, tokens := none })
  else if id = "compact_T_us" then
    (∀ (cls : Char → CClass) [AsciiOK cls] (yf : Bool) (year century : Int) (o : Opts) (tznames : List Token) (tzi : TzInfos) (ho : PlainOpts o tzi) (t dflt : DT) (ht : t.Valid) (hdv : dflt.Valid) (off : Off) (hoff : off.Dom),
      parse cls (Info.default false yf year century) o tznames tzi dflt (renderCFrac .compactT false 6 t off) =
        .ok { dt := TimeFmt.expect (.frac false 6) t dflt, tz := if o.ignoretz then .naive else offDescr tznames off, tokens := none })
  else if id = "hms_letters_dot_f1" then
    (∀ (cls : Char → CClass) [AsciiOK cls] (yf : Bool) (year century : Int) (o : Opts) (tznames : List Token) (tzi : TzInfos) (ho : PlainOpts o tzi) (t dflt : DT) (ht : t.Valid) (hdv : dflt.Valid) (off : Off) (hoff : off.Dom) (hsp : off.Spaced),
      parse cls (Info.default false yf year century) o tznames tzi dflt (renderHmsFrac false 1 t off) =
        .ok { dt := TimeFmt.expect (.frac false 1) t dflt, tz := if o.ignoretz then .naive else offDescr tznames off, tokens := none })
  else if id = "hms_letters_dot_f2" then
    (∀ (cls : Char → CClass) [AsciiOK cls] (yf : Bool) (year century : Int) (o : Opts) (tznames : List Token) (tzi : TzInfos) (ho : PlainOpts o tzi) (t dflt : DT) (ht : t.Valid) (hdv : dflt.Valid) (off : Off) (hoff : off.Dom) (hsp : off.Spaced),
      parse cls (Info.default false yf year century) o tznames tzi dflt (renderHmsFrac false 2 t off) =
        .ok { dt := TimeFmt.expect (.frac false 2) t dflt, tz := if o.ignoretz then .naive else offDescr tznames off, tokens := none })
  else if id = "hms_letters_dot_f4" then
    (∀ (cls : Char → CClass) [AsciiOK cls] (yf : Bool) (year century : Int) (o : Opts) (tznames : List Token) (tzi : TzInfos) (ho : PlainOpts o tzi) (t dflt : DT) (ht : t.Valid) (hdv : dflt.Valid) (off : Off) (hoff : off.Dom) (hsp : off.Spaced),
      parse cls (Info.default false yf year century) o tznames tzi dflt (renderHmsFrac false 4 t off) =
        .ok { dt := TimeFmt.expect (.frac false 4) t dflt, tz := if o.ignoretz then .naive else offDescr tznames off, tokens := none })
  else if id = "hms_letters_dot_f6" then
    (∀ (cls : Char → CClass) [AsciiOK cls] (yf : Bool) (year century : Int) (o : Opts) (tznames : List Token) (tzi : TzInfos) (ho : PlainOpts o tzi) (t dflt : DT) (ht : t.Valid) (hdv : dflt.Valid) (off : Off) (hoff : off.Dom) (hsp : off.Spaced),
      parse cls (Info.default false yf year century) o tznames tzi dflt (renderHmsFrac false 6 t off) =
        .ok { dt := TimeFmt.expect (.frac false 6) t dflt, tz := if o.ignoretz then .naive else offDescr tznames off, tokens := none })
  else if id = "hms_letters_comma_f1" then
    (∀ (cls : Char → CClass) [AsciiOK cls] (yf : Bool) (year century : Int) (o : Opts) (tznames : List Token) (tzi : TzInfos) (ho : PlainOpts o tzi) (t dflt : DT) (ht : t.Valid) (hdv : dflt.Valid) (off : Off) (hoff : off.Dom) (hsp : off.Spaced),
      parse cls (Info.default false yf year century) o tznames tzi dflt (renderHmsFrac true 1 t off) =
        .ok { dt := TimeFmt.expect (.frac true 1) t dflt, tz := if o.ignoretz then .naive else offDescr tznames off, tokens := none })
  else if id = "hms_letters_comma_f2" then
    (∀ (cls : Char → CClass) [AsciiOK cls] (yf : Bool) (year century : Int) (o : Opts) (tznames : List Token) (tzi : TzInfos) (ho : PlainOpts o tzi) (t dflt : DT) (ht : t.Valid) (hdv : dflt.Valid) (off : Off) (hoff : off.Dom) (hsp : off.Spaced),
      parse cls (Info.default false yf year century) o tznames tzi dflt (renderHmsFrac true 2 t off) =
        .ok { dt := TimeFmt.expect (.frac true 2) t dflt, tz := if o.ignoretz then .naive else offDescr tznames off, tokens := none })
  else if id = "hms_letters_comma_f4" then
    (∀ (cls : Char → CClass) [AsciiOK cls] (yf : Bool) (year century : Int) (o : Opts) (tznames : List Token) (tzi : TzInfos) (ho : PlainOpts o tzi) (t dflt : DT) (ht : t.Valid) (hdv : dflt.Valid) (off : Off) (hoff : off.Dom) (hsp : off.Spaced),
      parse cls (Info.default false yf year century) o tznames tzi dflt (renderHmsFrac true 4 t off) =
        .ok { dt := TimeFmt.expect (.frac true 4) t dflt, tz := if o.ignoretz then .naive else offDescr tznames off, tokens := none })
  else if id = "hms_letters_comma_f6" then
    (∀ (cls : Char → CClass) [AsciiOK cls] (yf : Bool) (year century : Int) (o : Opts) (tznames : List Token) (tzi : TzInfos) (ho : PlainOpts o tzi) (t dflt : DT) (ht : t.Valid) (hdv : dflt.Valid) (off : Off) (hoff : off.Dom) (hsp : off.Spaced),
      parse cls (Info.default false yf year century) o tznames tzi dflt (renderHmsFrac true 6 t off) =
        .ok { dt := TimeFmt.expect (.frac true 6) t dflt, tz := if o.ignoretz then .naive else offDescr tznames off, tokens := none })
  else if id = "ctime" then
    (∀ (cls : Char → CClass) [AsciiOK cls] (yf : Bool) (year century : Int) (o : Opts) (tznames : List Token) (tzi : TzInfos) (ho : PlainOpts o tzi) (t dflt : DT) (ht : t.Valid) (hdv : dflt.Valid) (hy : 100 ≤ t.y) (off : Off) (hoff : off.Dom) (hsp : off.Spaced),
      parse cls (Info.default false yf year century) o tznames tzi dflt (renderCtimeOff t.weekday.toNat t off) =
        .ok { dt := { t with us := 0 }, tz := if o.ignoretz then .naive else offDescr tznames off, tokens := none })
  else if id = "rfc2822" then
    (∀ (cls : Char → CClass) [AsciiOK cls] (yf : Bool) (year century : Int) (o : Opts) (tznames : List Token) (tzi : TzInfos) (ho : PlainOpts o tzi) (t dflt : DT) (ht : t.Valid) (hdv : dflt.Valid) (hy : 100 ≤ t.y) (off : Off) (hoff : off.Dom),
      parse cls (Info.default false yf year century) o tznames tzi dflt (renderMon (.rfc2822 t.weekday.toNat) t off) =
        .ok { dt := MonFmt.expect (.rfc2822 t.weekday.toNat) t dflt, tz := (if o.ignoretz then .naive else offDescr tznames off), tokens := none })
  else if id = "d_Mon_Y" then
    (∀ (cls : Char → CClass) [AsciiOK cls] (yf : Bool) (year century : Int) (o : Opts) (tznames : List Token) (tzi : TzInfos) (ho : PlainOpts o tzi) (t dflt : DT) (ht : t.Valid) (hdv : dflt.Valid) (hy : 100 ≤ t.y),
      parse cls (Info.default false yf year century) o tznames tzi dflt (renderMon .dMonY t .naive) =
        .ok { dt := MonFmt.expect .dMonY t dflt, tz := .naive, tokens := none })
  else if id = "us_slash_date" then
    (∀ (cls : Char → CClass) [AsciiOK cls] (yfi : Bool) (year : Int) (o : Opts) (tznames : List Token) (tzi : TzInfos) (hfz : o.fuzzy = false)
      (hfwt : o.fuzzyWithTokens = false) (htz : tzi.applies none = false) (t dflt : DT) (ht : t.Valid) (hdv : dflt.Valid)
      (hflags : numFlagsOk .us (o.dayfirst.getD false) (o.yearfirst.getD yfi)) (hwin : NumFmt.twoDigit .us = true → year - 50 ≤ t.y ∧ t.y < year + 50),
      parse cls (Info.default false yfi year (year / 100 * 100)) o tznames tzi dflt (renderNum .us t) =
        .ok { dt := { t with hh := dflt.hh, mm := dflt.mm, ss := dflt.ss, us := dflt.us }, tz := .naive, tokens := none })
  else if id = "eu_slash_date" then
    (∀ (cls : Char → CClass) [AsciiOK cls] (yfi : Bool) (year : Int) (o : Opts) (tznames : List Token) (tzi : TzInfos) (hfz : o.fuzzy = false)
      (hfwt : o.fuzzyWithTokens = false) (htz : tzi.applies none = false) (t dflt : DT) (ht : t.Valid) (hdv : dflt.Valid)
      (hflags : numFlagsOk .eu (o.dayfirst.getD false) (o.yearfirst.getD yfi)) (hwin : NumFmt.twoDigit .eu = true → year - 50 ≤ t.y ∧ t.y < year + 50),
      parse cls (Info.default false yfi year (year / 100 * 100)) o tznames tzi dflt (renderNum .eu t) =
        .ok { dt := { t with hh := dflt.hh, mm := dflt.mm, ss := dflt.ss, us := dflt.us }, tz := .naive, tokens := none })
  else if id = "yf_slash_date" then
    (∀ (cls : Char → CClass) [AsciiOK cls] (yfi : Bool) (year : Int) (o : Opts) (tznames : List Token) (tzi : TzInfos) (hfz : o.fuzzy = false)
      (hfwt : o.fuzzyWithTokens = false) (htz : tzi.applies none = false) (t dflt : DT) (ht : t.Valid) (hdv : dflt.Valid)
      (hflags : numFlagsOk .yf (o.dayfirst.getD false) (o.yearfirst.getD yfi)) (hwin : NumFmt.twoDigit .yf = true → year - 50 ≤ t.y ∧ t.y < year + 50),
      parse cls (Info.default false yfi year (year / 100 * 100)) o tznames tzi dflt (renderNum .yf t) =
        .ok { dt := { t with hh := dflt.hh, mm := dflt.mm, ss := dflt.ss, us := dflt.us }, tz := .naive, tokens := none })
  else if id = "us_yy" then
    (∀ (cls : Char → CClass) [AsciiOK cls] (yfi : Bool) (year : Int) (o : Opts) (tznames : List Token) (tzi : TzInfos) (hfz : o.fuzzy = false)
      (hfwt : o.fuzzyWithTokens = false) (htz : tzi.applies none = false) (t dflt : DT) (ht : t.Valid) (hdv : dflt.Valid)
      (hflags : numFlagsOk .us2 (o.dayfirst.getD false) (o.yearfirst.getD yfi)) (hwin : NumFmt.twoDigit .us2 = true → year - 50 ≤ t.y ∧ t.y < year + 50),
      parse cls (Info.default false yfi year (year / 100 * 100)) o tznames tzi dflt (renderNum .us2 t) =
        .ok { dt := { t with hh := dflt.hh, mm := dflt.mm, ss := dflt.ss, us := dflt.us }, tz := .naive, tokens := none })
  else if id = "eu_yy_date" then
    (∀ (cls : Char → CClass) [AsciiOK cls] (yfi : Bool) (year : Int) (o : Opts) (tznames : List Token) (tzi : TzInfos) (hfz : o.fuzzy = false)
      (hfwt : o.fuzzyWithTokens = false) (htz : tzi.applies none = false) (t dflt : DT) (ht : t.Valid) (hdv : dflt.Valid)
      (hflags : numFlagsOk .eu2 (o.dayfirst.getD false) (o.yearfirst.getD yfi)) (hwin : NumFmt.twoDigit .eu2 = true → year - 50 ≤ t.y ∧ t.y < year + 50),
      parse cls (Info.default false yfi year (year / 100 * 100)) o tznames tzi dflt (renderNum .eu2 t) =
        .ok { dt := { t with hh := dflt.hh, mm := dflt.mm, ss := dflt.ss, us := dflt.us }, tz := .naive, tokens := none })
  else if id = "yf_yy" then
    (∀ (cls : Char → CClass) [AsciiOK cls] (yfi : Bool) (year : Int) (o : Opts) (tznames : List Token) (tzi : TzInfos) (hfz : o.fuzzy = false)
      (hfwt : o.fuzzyWithTokens = false) (htz : tzi.applies none = false) (t dflt : DT) (ht : t.Valid) (hdv : dflt.Valid)
      (hflags : numFlagsOk .yf2 (o.dayfirst.getD false) (o.yearfirst.getD yfi)) (hwin : NumFmt.twoDigit .yf2 = true → year - 50 ≤ t.y ∧ t.y < year + 50),
      parse cls (Info.default false yfi year (year / 100 * 100)) o tznames tzi dflt (renderNum .yf2 t) =
        .ok { dt := { t with hh := dflt.hh, mm := dflt.mm, ss := dflt.ss, us := dflt.us }, tz := .naive, tokens := none })
  else False

set_option maxHeartbeats 4000000 in
/-- **every id in `PT.provedTemplates` (the list the evidence prints through the `parser.proved` op) has its theorem**:
    an id listed without a proof makes this fail to build, so the evidence cannot claim more than is proved. -/
theorem proved_templates_have_theorems : ∀ p ∈ provedTemplates, TemplateThm p.1 := by
  intro p hp
  simp only [provedTemplates, List.mem_cons, List.mem_nil_iff, or_false] at hp
  rcases hp with rfl | rfl | rfl | rfl | rfl | rfl | rfl | rfl | rfl | rfl | rfl | rfl | rfl | rfl | rfl | rfl | rfl | rfl | rfl | rfl | rfl | rfl | rfl | rfl | rfl | rfl | rfl | rfl | rfl | rfl | rfl | rfl | rfl | rfl | rfl | rfl | rfl | rfl | rfl | rfl | rfl | rfl | rfl | rfl | rfl | rfl | rfl | rfl | rfl | rfl | rfl | rfl | rfl | rfl | rfl | rfl | rfl | rfl | rfl | rfl | rfl | rfl | rfl | rfl | rfl | rfl | rfl | rfl | rfl | rfl | rfl | rfl | rfl | rfl | rfl | rfl | rfl | rfl | rfl | rfl | rfl | rfl | rfl | rfl | rfl | rfl | rfl | rfl | rfl | rfl | rfl | rfl | rfl
  · show TemplateThm "us_slash"
    simp only [TemplateThm]
    exact fun cls _ yf year century o tznames tzi ho hdf hyf t dflt ht hdv off hoff => tpl_us_slash cls yf year century o tznames tzi ho hdf hyf t dflt ht hdv off hoff
  · show TemplateThm "eu_slash"
    simp only [TemplateThm]
    exact fun cls _ yf year century o tznames tzi ho hdf hyf t dflt ht hdv off hoff => tpl_eu_slash cls yf year century o tznames tzi ho hdf hyf t dflt ht hdv off hoff
  · show TemplateThm "yf_slash"
    simp only [TemplateThm]
    exact fun cls _ yf year century o tznames tzi ho hdf t dflt ht hdv off hoff => tpl_yf_slash cls yf year century o tznames tzi ho hdf t dflt ht hdv off hoff
  · show TemplateThm "us_dash_date"
    simp only [TemplateThm]
    exact fun cls _ yf year century o tznames tzi ho hdf hyf t dflt ht hdv => tpl_us_dash_date cls yf year century o tznames tzi ho hdf hyf t dflt ht hdv
  · show TemplateThm "iso_date"
    simp only [TemplateThm]
    exact fun cls _ yf year century o tznames tzi ho hdf t dflt ht hdv => tpl_iso_date cls yf year century o tznames tzi ho hdf t dflt ht hdv
  · show TemplateThm "eu_yy"
    simp only [TemplateThm]
    exact fun cls _ yf year century o tznames tzi ho hdf hyf t dflt ht hdv hwin off hoff => tpl_eu_yy cls yf year century o tznames tzi ho hdf hyf t dflt ht hdv hwin off hoff
  · show TemplateThm "yymmdd"
    simp only [TemplateThm]
    exact fun cls _ yf year century o tznames tzi ho hdf hyf t dflt ht hdv hwin => tpl_yymmdd cls yf year century o tznames tzi ho hdf hyf t dflt ht hdv hwin
  · show TemplateThm "hms_letters"
    simp only [TemplateThm]
    exact fun cls _ yf year century o tznames tzi ho hdf t dflt ht hdv off hoff hsp => tpl_hms_letters cls yf year century o tznames tzi ho hdf t dflt ht hdv off hoff hsp
  · show TemplateThm "hm_letters"
    simp only [TemplateThm]
    exact fun cls _ yf year century o tznames tzi ho hdf t dflt ht hdv off hoff hsp => tpl_hm_letters cls yf year century o tznames tzi ho hdf t dflt ht hdv off hoff hsp
  · show TemplateThm "ampm_short"
    simp only [TemplateThm]
    exact fun cls _ yf year century o tznames tzi ho hdf t dflt ht hdv off hoff hsp => tpl_ampm_short cls yf year century o tznames tzi ho hdf t dflt ht hdv off hoff hsp
  · show TemplateThm "ampm_hour"
    simp only [TemplateThm]
    exact fun cls _ yf year century o tznames tzi ho hdf t dflt ht hdv off hoff hsp => tpl_ampm_hour cls yf year century o tznames tzi ho hdf t dflt ht hdv off hoff hsp
  · show TemplateThm "ampm_hour_tight"
    simp only [TemplateThm]
    exact fun cls _ yf year century o tznames tzi ho hdf t dflt ht hdv off hoff hsp => tpl_ampm_hour_tight cls yf year century o tznames tzi ho hdf t dflt ht hdv off hoff hsp
  · show TemplateThm "ampm_hms_sp"
    simp only [TemplateThm]
    exact fun cls _ yf year century o tznames tzi ho hdf t dflt ht hdv off hoff hsp => tpl_ampm_hms_sp cls yf year century o tznames tzi ho hdf t dflt ht hdv off hoff hsp
  · show TemplateThm "dd-Mon-Y_hm"
    simp only [TemplateThm]
    exact fun cls _ yf year century o tznames tzi ho  t dflt ht hdv off hoff => tpl_dd_Mon_Y_hm cls yf year century o tznames tzi ho  t dflt ht hdv off hoff
  · show TemplateThm "dd-Mon-yy"
    simp only [TemplateThm]
    exact fun cls _ yf year century o tznames tzi ho hyf t dflt ht hdv hwin => tpl_dd_Mon_yy cls yf year century o tznames tzi ho hyf t dflt ht hdv hwin
  · show TemplateThm "d_Month_Y_hm"
    simp only [TemplateThm]
    exact fun cls _ yf year century o tznames tzi ho hyf t dflt ht hdv hy off hoff => tpl_d_Month_Y_hm cls yf year century o tznames tzi ho hyf t dflt ht hdv hy off hoff
  · show TemplateThm "Mon_d_Y_hms"
    simp only [TemplateThm]
    exact fun cls _ yf year century o tznames tzi ho  t dflt ht hdv hy off hoff => tpl_Mon_d_Y_hms cls yf year century o tznames tzi ho  t dflt ht hdv hy off hoff
  · show TemplateThm "compact_T_s"
    simp only [TemplateThm]
    exact fun cls _ yf year century o tznames tzi ho hdf t dflt ht hdv off hoff => tpl_compact_T_s cls yf year century o tznames tzi ho hdf t dflt ht hdv off hoff
  · show TemplateThm "compact_nosep_s"
    simp only [TemplateThm]
    exact fun cls _ yf year century o tznames tzi ho hdf t dflt ht hdv off hoff => tpl_compact_nosep_s cls yf year century o tznames tzi ho hdf t dflt ht hdv off hoff
  · show TemplateThm "compact_T_min"
    simp only [TemplateThm]
    exact fun cls _ yf year century o tznames tzi ho hdf t dflt ht hdv off hoff => tpl_compact_T_min cls yf year century o tznames tzi ho hdf t dflt ht hdv off hoff
  · show TemplateThm "compact_nosep_min"
    simp only [TemplateThm]
    exact fun cls _ yf year century o tznames tzi ho hdf t dflt ht hdv off hoff => tpl_compact_nosep_min cls yf year century o tznames tzi ho hdf t dflt ht hdv off hoff
  · show TemplateThm "compact_date"
    simp only [TemplateThm]
    exact fun cls _ yf year century o tznames tzi ho hdf t dflt ht hdv => tpl_compact_date cls yf year century o tznames tzi ho hdf t dflt ht hdv
  · show TemplateThm "eu_dot"
    simp only [TemplateThm]
    exact fun cls _ yf year century o tznames tzi ho hdf hyf t dflt ht hdv off hoff => tpl_eu_dot cls yf year century o tznames tzi ho hdf hyf t dflt ht hdv off hoff
  · show TemplateThm "yf_dot_date"
    simp only [TemplateThm]
    exact fun cls _ yf year century o tznames tzi ho hdf t dflt ht hdv => tpl_yf_dot_date cls yf year century o tznames tzi ho hdf t dflt ht hdv
  · show TemplateThm "long_ampm"
    simp only [TemplateThm]
    exact fun cls _ yf year century o tznames tzi ho  t dflt ht hdv hy off hoff hsp => tpl_long_ampm cls yf year century o tznames tzi ho  t dflt ht hdv hy off hoff hsp
  · show TemplateThm "iso_T_s"
    simp only [TemplateThm]
    exact fun cls _ yf year century o tznames tzi ho t dflt ht hdv off hoff =>
      parse_isoX cls yf year century o tznames tzi ho dflt hdv t ht 'T' (by decide) .hms (by simp [timeFmtDom]) off hoff
  · show TemplateThm "iso_sp_s"
    simp only [TemplateThm]
    exact fun cls _ yf year century o tznames tzi ho t dflt ht hdv off hoff =>
      parse_isoX cls yf year century o tznames tzi ho dflt hdv t ht ' ' (by decide) .hms (by simp [timeFmtDom]) off hoff
  · show TemplateThm "iso_T_us"
    simp only [TemplateThm]
    exact fun cls _ yf year century o tznames tzi ho t dflt ht hdv off hoff =>
      parse_isoX cls yf year century o tznames tzi ho dflt hdv t ht 'T' (by decide) (.frac false 6) (by simp [timeFmtDom]) off hoff
  · show TemplateThm "iso_sp_us"
    simp only [TemplateThm]
    exact fun cls _ yf year century o tznames tzi ho t dflt ht hdv off hoff =>
      parse_isoX cls yf year century o tznames tzi ho dflt hdv t ht ' ' (by decide) (.frac false 6) (by simp [timeFmtDom]) off hoff
  · show TemplateThm "iso_T_comma_f3"
    simp only [TemplateThm]
    exact fun cls _ yf year century o tznames tzi ho t dflt ht hdv off hoff =>
      parse_isoX cls yf year century o tznames tzi ho dflt hdv t ht 'T' (by decide) (.frac true 3) (by simp [timeFmtDom]) off hoff
  · show TemplateThm "iso_sp_comma_f6"
    simp only [TemplateThm]
    exact fun cls _ yf year century o tznames tzi ho t dflt ht hdv off hoff =>
      parse_isoX cls yf year century o tznames tzi ho dflt hdv t ht ' ' (by decide) (.frac true 6) (by simp [timeFmtDom]) off hoff
  · show TemplateThm "iso_T_min"
    simp only [TemplateThm]
    exact fun cls _ yf year century o tznames tzi ho t dflt ht hdv off hoff =>
      parse_isoX cls yf year century o tznames tzi ho dflt hdv t ht 'T' (by decide) .hm (by simp [timeFmtDom]) off hoff
  · show TemplateThm "iso_sp_min"
    simp only [TemplateThm]
    exact fun cls _ yf year century o tznames tzi ho t dflt ht hdv off hoff =>
      parse_isoX cls yf year century o tznames tzi ho dflt hdv t ht ' ' (by decide) .hm (by simp [timeFmtDom]) off hoff
  · show TemplateThm "iso_T_dot_f1"
    simp only [TemplateThm]
    exact fun cls _ yf year century o tznames tzi ho t dflt ht hdv off hoff =>
      parse_isoX cls yf year century o tznames tzi ho dflt hdv t ht 'T' (by decide) (.frac false 1) (by simp [timeFmtDom]) off hoff
  · show TemplateThm "iso_T_dot_f2"
    simp only [TemplateThm]
    exact fun cls _ yf year century o tznames tzi ho t dflt ht hdv off hoff =>
      parse_isoX cls yf year century o tznames tzi ho dflt hdv t ht 'T' (by decide) (.frac false 2) (by simp [timeFmtDom]) off hoff
  · show TemplateThm "iso_T_dot_f3"
    simp only [TemplateThm]
    exact fun cls _ yf year century o tznames tzi ho t dflt ht hdv off hoff =>
      parse_isoX cls yf year century o tznames tzi ho dflt hdv t ht 'T' (by decide) (.frac false 3) (by simp [timeFmtDom]) off hoff
  · show TemplateThm "iso_T_dot_f4"
    simp only [TemplateThm]
    exact fun cls _ yf year century o tznames tzi ho t dflt ht hdv off hoff =>
      parse_isoX cls yf year century o tznames tzi ho dflt hdv t ht 'T' (by decide) (.frac false 4) (by simp [timeFmtDom]) off hoff
  · show TemplateThm "iso_T_dot_f5"
    simp only [TemplateThm]
    exact fun cls _ yf year century o tznames tzi ho t dflt ht hdv off hoff =>
      parse_isoX cls yf year century o tznames tzi ho dflt hdv t ht 'T' (by decide) (.frac false 5) (by simp [timeFmtDom]) off hoff
  · show TemplateThm "iso_T_comma_f1"
    simp only [TemplateThm]
    exact fun cls _ yf year century o tznames tzi ho t dflt ht hdv off hoff =>
      parse_isoX cls yf year century o tznames tzi ho dflt hdv t ht 'T' (by decide) (.frac true 1) (by simp [timeFmtDom]) off hoff
  · show TemplateThm "iso_T_comma_f2"
    simp only [TemplateThm]
    exact fun cls _ yf year century o tznames tzi ho t dflt ht hdv off hoff =>
      parse_isoX cls yf year century o tznames tzi ho dflt hdv t ht 'T' (by decide) (.frac true 2) (by simp [timeFmtDom]) off hoff
  · show TemplateThm "iso_T_comma_f4"
    simp only [TemplateThm]
    exact fun cls _ yf year century o tznames tzi ho t dflt ht hdv off hoff =>
      parse_isoX cls yf year century o tznames tzi ho dflt hdv t ht 'T' (by decide) (.frac true 4) (by simp [timeFmtDom]) off hoff
  · show TemplateThm "iso_T_comma_f5"
    simp only [TemplateThm]
    exact fun cls _ yf year century o tznames tzi ho t dflt ht hdv off hoff =>
      parse_isoX cls yf year century o tznames tzi ho dflt hdv t ht 'T' (by decide) (.frac true 5) (by simp [timeFmtDom]) off hoff
  · show TemplateThm "iso_sp_dot_f1"
    simp only [TemplateThm]
    exact fun cls _ yf year century o tznames tzi ho t dflt ht hdv off hoff =>
      parse_isoX cls yf year century o tznames tzi ho dflt hdv t ht ' ' (by decide) (.frac false 1) (by simp [timeFmtDom]) off hoff
  · show TemplateThm "iso_sp_dot_f2"
    simp only [TemplateThm]
    exact fun cls _ yf year century o tznames tzi ho t dflt ht hdv off hoff =>
      parse_isoX cls yf year century o tznames tzi ho dflt hdv t ht ' ' (by decide) (.frac false 2) (by simp [timeFmtDom]) off hoff
  · show TemplateThm "iso_sp_dot_f4"
    simp only [TemplateThm]
    exact fun cls _ yf year century o tznames tzi ho t dflt ht hdv off hoff =>
      parse_isoX cls yf year century o tznames tzi ho dflt hdv t ht ' ' (by decide) (.frac false 4) (by simp [timeFmtDom]) off hoff
  · show TemplateThm "iso_sp_dot_f5"
    simp only [TemplateThm]
    exact fun cls _ yf year century o tznames tzi ho t dflt ht hdv off hoff =>
      parse_isoX cls yf year century o tznames tzi ho dflt hdv t ht ' ' (by decide) (.frac false 5) (by simp [timeFmtDom]) off hoff
  · show TemplateThm "compact_T_dot_f1"
    simp only [TemplateThm]
    exact fun cls _ yf year century o tznames tzi ho t dflt ht hdv off hoff =>
      parse_cfrac cls yf year century o tznames tzi ho dflt hdv t ht .compactT false 1 (by decide) (by decide) off hoff
  · show TemplateThm "iso_T_ctime_dot_f1"
    simp only [TemplateThm]
    exact fun cls _ yf year century o tznames tzi ho t dflt ht hdv off hoff =>
      parse_cfrac cls yf year century o tznames tzi ho dflt hdv t ht .isoT false 1 (by decide) (by decide) off hoff
  · show TemplateThm "iso_sp_ctime_dot_f1"
    simp only [TemplateThm]
    exact fun cls _ yf year century o tznames tzi ho t dflt ht hdv off hoff =>
      parse_cfrac cls yf year century o tznames tzi ho dflt hdv t ht .isoSp false 1 (by decide) (by decide) off hoff
  · show TemplateThm "compact_T_dot_f2"
    simp only [TemplateThm]
    exact fun cls _ yf year century o tznames tzi ho t dflt ht hdv off hoff =>
      parse_cfrac cls yf year century o tznames tzi ho dflt hdv t ht .compactT false 2 (by decide) (by decide) off hoff
  · show TemplateThm "iso_T_ctime_dot_f2"
    simp only [TemplateThm]
    exact fun cls _ yf year century o tznames tzi ho t dflt ht hdv off hoff =>
      parse_cfrac cls yf year century o tznames tzi ho dflt hdv t ht .isoT false 2 (by decide) (by decide) off hoff
  · show TemplateThm "compact_T_dot_f3"
    simp only [TemplateThm]
    exact fun cls _ yf year century o tznames tzi ho t dflt ht hdv off hoff =>
      parse_cfrac cls yf year century o tznames tzi ho dflt hdv t ht .compactT false 3 (by decide) (by decide) off hoff
  · show TemplateThm "iso_T_ctime_dot_f3"
    simp only [TemplateThm]
    exact fun cls _ yf year century o tznames tzi ho t dflt ht hdv off hoff =>
      parse_cfrac cls yf year century o tznames tzi ho dflt hdv t ht .isoT false 3 (by decide) (by decide) off hoff
  · show TemplateThm "iso_sp_ctime_dot_f3"
    simp only [TemplateThm]
    exact fun cls _ yf year century o tznames tzi ho t dflt ht hdv off hoff =>
      parse_cfrac cls yf year century o tznames tzi ho dflt hdv t ht .isoSp false 3 (by decide) (by decide) off hoff
  · show TemplateThm "compact_T_dot_f4"
    simp only [TemplateThm]
    exact fun cls _ yf year century o tznames tzi ho t dflt ht hdv off hoff =>
      parse_cfrac cls yf year century o tznames tzi ho dflt hdv t ht .compactT false 4 (by decide) (by decide) off hoff
  · show TemplateThm "iso_T_ctime_dot_f4"
    simp only [TemplateThm]
    exact fun cls _ yf year century o tznames tzi ho t dflt ht hdv off hoff =>
      parse_cfrac cls yf year century o tznames tzi ho dflt hdv t ht .isoT false 4 (by decide) (by decide) off hoff
  · show TemplateThm "compact_T_dot_f5"
    simp only [TemplateThm]
    exact fun cls _ yf year century o tznames tzi ho t dflt ht hdv off hoff =>
      parse_cfrac cls yf year century o tznames tzi ho dflt hdv t ht .compactT false 5 (by decide) (by decide) off hoff
  · show TemplateThm "iso_T_ctime_dot_f5"
    simp only [TemplateThm]
    exact fun cls _ yf year century o tznames tzi ho t dflt ht hdv off hoff =>
      parse_cfrac cls yf year century o tznames tzi ho dflt hdv t ht .isoT false 5 (by decide) (by decide) off hoff
  · show TemplateThm "iso_T_ctime_dot_f6"
    simp only [TemplateThm]
    exact fun cls _ yf year century o tznames tzi ho t dflt ht hdv off hoff =>
      parse_cfrac cls yf year century o tznames tzi ho dflt hdv t ht .isoT false 6 (by decide) (by decide) off hoff
  · show TemplateThm "iso_sp_ctime_dot_f6"
    simp only [TemplateThm]
    exact fun cls _ yf year century o tznames tzi ho t dflt ht hdv off hoff =>
      parse_cfrac cls yf year century o tznames tzi ho dflt hdv t ht .isoSp false 6 (by decide) (by decide) off hoff
  · show TemplateThm "compact_T_comma_f1"
    simp only [TemplateThm]
    exact fun cls _ yf year century o tznames tzi ho t dflt ht hdv off hoff =>
      parse_cfrac cls yf year century o tznames tzi ho dflt hdv t ht .compactT true 1 (by decide) (by decide) off hoff
  · show TemplateThm "iso_T_ctime_comma_f1"
    simp only [TemplateThm]
    exact fun cls _ yf year century o tznames tzi ho t dflt ht hdv off hoff =>
      parse_cfrac cls yf year century o tznames tzi ho dflt hdv t ht .isoT true 1 (by decide) (by decide) off hoff
  · show TemplateThm "iso_sp_ctime_comma_f1"
    simp only [TemplateThm]
    exact fun cls _ yf year century o tznames tzi ho t dflt ht hdv off hoff =>
      parse_cfrac cls yf year century o tznames tzi ho dflt hdv t ht .isoSp true 1 (by decide) (by decide) off hoff
  · show TemplateThm "compact_T_comma_f2"
    simp only [TemplateThm]
    exact fun cls _ yf year century o tznames tzi ho t dflt ht hdv off hoff =>
      parse_cfrac cls yf year century o tznames tzi ho dflt hdv t ht .compactT true 2 (by decide) (by decide) off hoff
  · show TemplateThm "iso_T_ctime_comma_f2"
    simp only [TemplateThm]
    exact fun cls _ yf year century o tznames tzi ho t dflt ht hdv off hoff =>
      parse_cfrac cls yf year century o tznames tzi ho dflt hdv t ht .isoT true 2 (by decide) (by decide) off hoff
  · show TemplateThm "compact_T_comma_f3"
    simp only [TemplateThm]
    exact fun cls _ yf year century o tznames tzi ho t dflt ht hdv off hoff =>
      parse_cfrac cls yf year century o tznames tzi ho dflt hdv t ht .compactT true 3 (by decide) (by decide) off hoff
  · show TemplateThm "iso_T_ctime_comma_f3"
    simp only [TemplateThm]
    exact fun cls _ yf year century o tznames tzi ho t dflt ht hdv off hoff =>
      parse_cfrac cls yf year century o tznames tzi ho dflt hdv t ht .isoT true 3 (by decide) (by decide) off hoff
  · show TemplateThm "iso_sp_ctime_comma_f3"
    simp only [TemplateThm]
    exact fun cls _ yf year century o tznames tzi ho t dflt ht hdv off hoff =>
      parse_cfrac cls yf year century o tznames tzi ho dflt hdv t ht .isoSp true 3 (by decide) (by decide) off hoff
  · show TemplateThm "compact_T_comma_f4"
    simp only [TemplateThm]
    exact fun cls _ yf year century o tznames tzi ho t dflt ht hdv off hoff =>
      parse_cfrac cls yf year century o tznames tzi ho dflt hdv t ht .compactT true 4 (by decide) (by decide) off hoff
  · show TemplateThm "iso_T_ctime_comma_f4"
    simp only [TemplateThm]
    exact fun cls _ yf year century o tznames tzi ho t dflt ht hdv off hoff =>
      parse_cfrac cls yf year century o tznames tzi ho dflt hdv t ht .isoT true 4 (by decide) (by decide) off hoff
  · show TemplateThm "compact_T_comma_f5"
    simp only [TemplateThm]
    exact fun cls _ yf year century o tznames tzi ho t dflt ht hdv off hoff =>
      parse_cfrac cls yf year century o tznames tzi ho dflt hdv t ht .compactT true 5 (by decide) (by decide) off hoff
  · show TemplateThm "iso_T_ctime_comma_f5"
    simp only [TemplateThm]
    exact fun cls _ yf year century o tznames tzi ho t dflt ht hdv off hoff =>
      parse_cfrac cls yf year century o tznames tzi ho dflt hdv t ht .isoT true 5 (by decide) (by decide) off hoff
  · show TemplateThm "compact_T_comma_f6"
    simp only [TemplateThm]
    exact fun cls _ yf year century o tznames tzi ho t dflt ht hdv off hoff =>
      parse_cfrac cls yf year century o tznames tzi ho dflt hdv t ht .compactT true 6 (by decide) (by decide) off hoff
  · show TemplateThm "iso_T_ctime_comma_f6"
    simp only [TemplateThm]
    exact fun cls _ yf year century o tznames tzi ho t dflt ht hdv off hoff =>
      parse_cfrac cls yf year century o tznames tzi ho dflt hdv t ht .isoT true 6 (by decide) (by decide) off hoff
  · show TemplateThm "iso_sp_ctime_comma_f6"
    simp only [TemplateThm]
    exact fun cls _ yf year century o tznames tzi ho t dflt ht hdv off hoff =>
      parse_cfrac cls yf year century o tznames tzi ho dflt hdv t ht .isoSp true 6 (by decide) (by decide) off hoff
  · show TemplateThm "compact_T_us"
    simp only [TemplateThm]
    exact fun cls _ yf year century o tznames tzi ho t dflt ht hdv off hoff =>
      parse_cfrac cls yf year century o tznames tzi ho dflt hdv t ht .compactT false 6 (by decide) (by decide) off hoff
  · show TemplateThm "hms_letters_dot_f1"
    simp only [TemplateThm]
    exact fun cls _ yf year century o tznames tzi ho t dflt ht hdv off hoff hsp =>
      parse_hmsFrac cls yf year century o tznames tzi ho dflt hdv t ht false 1 (by decide) off hoff hsp
  · show TemplateThm "hms_letters_dot_f2"
    simp only [TemplateThm]
    exact fun cls _ yf year century o tznames tzi ho t dflt ht hdv off hoff hsp =>
      parse_hmsFrac cls yf year century o tznames tzi ho dflt hdv t ht false 2 (by decide) off hoff hsp
  · show TemplateThm "hms_letters_dot_f4"
    simp only [TemplateThm]
    exact fun cls _ yf year century o tznames tzi ho t dflt ht hdv off hoff hsp =>
      parse_hmsFrac cls yf year century o tznames tzi ho dflt hdv t ht false 4 (by decide) off hoff hsp
  · show TemplateThm "hms_letters_dot_f6"
    simp only [TemplateThm]
    exact fun cls _ yf year century o tznames tzi ho t dflt ht hdv off hoff hsp =>
      parse_hmsFrac cls yf year century o tznames tzi ho dflt hdv t ht false 6 (by decide) off hoff hsp
  · show TemplateThm "hms_letters_comma_f1"
    simp only [TemplateThm]
    exact fun cls _ yf year century o tznames tzi ho t dflt ht hdv off hoff hsp =>
      parse_hmsFrac cls yf year century o tznames tzi ho dflt hdv t ht true 1 (by decide) off hoff hsp
  · show TemplateThm "hms_letters_comma_f2"
    simp only [TemplateThm]
    exact fun cls _ yf year century o tznames tzi ho t dflt ht hdv off hoff hsp =>
      parse_hmsFrac cls yf year century o tznames tzi ho dflt hdv t ht true 2 (by decide) off hoff hsp
  · show TemplateThm "hms_letters_comma_f4"
    simp only [TemplateThm]
    exact fun cls _ yf year century o tznames tzi ho t dflt ht hdv off hoff hsp =>
      parse_hmsFrac cls yf year century o tznames tzi ho dflt hdv t ht true 4 (by decide) off hoff hsp
  · show TemplateThm "hms_letters_comma_f6"
    simp only [TemplateThm]
    exact fun cls _ yf year century o tznames tzi ho t dflt ht hdv off hoff hsp =>
      parse_hmsFrac cls yf year century o tznames tzi ho dflt hdv t ht true 6 (by decide) off hoff hsp
  · show TemplateThm "ctime"
    simp only [TemplateThm]
    exact fun cls _ yf year century o tznames tzi ho t dflt ht hdv hy off hoff hsp =>
      parse_ctimeOff cls yf year century o tznames tzi ho dflt hdv t ht t.weekday.toNat (weekday_lt7 t) hy off hoff hsp
  · show TemplateThm "rfc2822"
    simp only [TemplateThm]
    exact fun cls _ yf year century o tznames tzi ho t dflt ht hdv hy off hoff =>
      parse_mon cls yf year century o tznames tzi ho dflt hdv t ht (.rfc2822 t.weekday.toNat) (by first | exact hy | exact ⟨weekday_lt7 t, hy⟩) off hoff
  · show TemplateThm "d_Mon_Y"
    simp only [TemplateThm]
    exact fun cls _ yf year century o tznames tzi ho t dflt ht hdv hy =>
      parse_mon cls yf year century o tznames tzi ho dflt hdv t ht .dMonY (by first | exact hy | exact ⟨weekday_lt7 t, hy⟩) .naive trivial
  · show TemplateThm "us_slash_date"
    simp only [TemplateThm]
    exact fun cls _ yfi year o tznames tzi hfz hfwt htz t dflt ht hdv hflags hwin =>
      parse_render_numeric cls yfi year o tznames tzi hfz hfwt htz dflt hdv t ht .us hflags hwin
  · show TemplateThm "eu_slash_date"
    simp only [TemplateThm]
    exact fun cls _ yfi year o tznames tzi hfz hfwt htz t dflt ht hdv hflags hwin =>
      parse_render_numeric cls yfi year o tznames tzi hfz hfwt htz dflt hdv t ht .eu hflags hwin
  · show TemplateThm "yf_slash_date"
    simp only [TemplateThm]
    exact fun cls _ yfi year o tznames tzi hfz hfwt htz t dflt ht hdv hflags hwin =>
      parse_render_numeric cls yfi year o tznames tzi hfz hfwt htz dflt hdv t ht .yf hflags hwin
  · show TemplateThm "us_yy"
    simp only [TemplateThm]
    exact fun cls _ yfi year o tznames tzi hfz hfwt htz t dflt ht hdv hflags hwin =>
      parse_render_numeric cls yfi year o tznames tzi hfz hfwt htz dflt hdv t ht .us2 hflags hwin
  · show TemplateThm "eu_yy_date"
    simp only [TemplateThm]
    exact fun cls _ yfi year o tznames tzi hfz hfwt htz t dflt ht hdv hflags hwin =>
      parse_render_numeric cls yfi year o tznames tzi hfz hfwt htz dflt hdv t ht .eu2 hflags hwin
  · show TemplateThm "yf_yy"
    simp only [TemplateThm]
    exact fun cls _ yfi year o tznames tzi hfz hfwt htz t dflt ht hdv hflags hwin =>
      parse_render_numeric cls yfi year o tznames tzi hfz hfwt htz dflt hdv t ht .yf2 hflags hwin
-- END GENERATED INDEX

end C02
