import DateutilVerif.Model.Parser
namespace C02
open PM Py

/-- **two-digit years**: with `_century = _year // 100 * 100`, a year `0 ≤ y < 100` without a century is
    mapped (by the translated `parserinfo.convertyear`) to THE year `y'` with `y' ≡ y (mod 100)` and
    `-50 ≤ y' - now < 50`; uniqueness included. -/
theorem convertyear_window (now y : Int) (h0 : 0 ≤ y) (h1 : y < 100) :
    ∃ y', Gen.convertyear ⟨now / 100 * 100, now⟩ y false = .ok y' ∧
      -50 ≤ y' - now ∧ y' - now < 50 ∧ y' % 100 = y ∧
      ∀ z : Int, z % 100 = y → -50 ≤ z - now → z - now < 50 → z = y' := by
  unfold Gen.convertyear
  have hq : now / 100 * 100 = now - now % 100 := by omega
  have hr : 0 ≤ now % 100 ∧ now % 100 < 100 := by omega
  generalize now % 100 = r at hq hr
  simp only [hq]
  have hge : ¬ ¬ (y ≥ 0) := by omega
  simp only [hge, if_false]
  split
  · split
    · refine ⟨_, rfl, by omega, by omega, by omega, ?_⟩
      intro z hz h2 h3; omega
    · split
      · refine ⟨_, rfl, by omega, by omega, by omega, ?_⟩
        intro z hz h2 h3; omega
      · refine ⟨_, rfl, by omega, by omega, by omega, ?_⟩
        intro z hz h2 h3; omega
  · rename_i hc; exact absurd ⟨h1, by simp⟩ hc

/-- a year with a century (or ≥ 100) is left alone -/
theorem convertyear_century (pi : Gen.PInfoYear) (y : Int) (h0 : 0 ≤ y) (cs : Bool) (h : cs = true ∨ 100 ≤ y) :
    Gen.convertyear pi y cs = .ok y := by
  unfold Gen.convertyear
  have hge : ¬ ¬ (y ≥ 0) := by omega
  simp only [hge, if_false]
  split
  · rename_i hc
    rcases h with h | h
    · simp [h] at hc
    · omega
  · rfl

/-- the 12-hour clock: for every hour of the day, the 12-hour spelling (`12 AM` = 0, `12 PM` = 12,
    `h PM` = h + 12) is mapped back by the translated `_adjust_ampm` -/
theorem adjustAmpm_table (h : Int) (h0 : 0 ≤ h) (h1 : h < 24) :
    Gen.adjustAmpm (if h % 12 = 0 then 12 else h % 12) (if h < 12 then 0 else 1) = h := by
  unfold Gen.adjustAmpm
  dsimp only
  repeat' split
  all_goals omega

end C02
