/- Proofs/TzStrNoRuleDefs.lean — rule-less TZ strings `AAA<sign><h>BBB<sign><h>` for the whole-table evaluations (C08NoRule). -/
import DateutilVerif.Model.TzStr
namespace C08
open TzStr

/-- the parse result of `s` is rule-less with these abbreviations and offsets -/
def noRuleRes (s : String) (sa da : String) (so : Int) (d : Option Int) : Bool :=
  match parse s with
  | .ok (some r) => r.stdabbr == some sa && r.dstabbr == some da && r.stdoffset == some so && r.dstoffset == d &&
      r.start == {} && r.«end» == {} && !r.anyUnused
  | _ => false

/-- the rule-less string `AAA<sa><a>BBB<sb><b>` (hours only) -/
def nrString (sa : String) (a : Nat) (sb : String) (b : Nat) : String := "AAA" ++ sa ++ toString a ++ "BBB" ++ sb ++ toString b

/-- POSIX sign convention: an unsigned or `+` offset is WEST of Greenwich -/
def nrVal (s : String) (h : Nat) : Int := if s == "-" then (h : Int) * 3600 else -((h : Int) * 3600)

end C08
