/-
  Proofs/RRuleAmbient.lean — the process-wide first weekday (`calendar.setfirstweekday`) as an input of the
  constructor: it is read exactly when `wkst` is not supplied.
-/
import DateutilVerif.Proofs.RRuleSupported

namespace RRule

/-- an explicit `wkst` makes the rule independent of the ambient first weekday -/
theorem constructW_explicit (k : Int) (a : Args) (w : Int) (h : a.wkst = some w) : constructW k a = construct a := by
  unfold constructW resolveW
  cases a with
  | mk freq dtstart tz interval wkst count untilDT bysetpos bymonth bymonthday byyearday byeaster byweekno byweekday byhour byminute bysecond =>
    dsimp only at h
    subst h
    rfl

/-- without `wkst` the ambient first weekday is the week start -/
theorem constructW_none (k : Int) (a : Args) (h : a.wkst = none) :
    constructW k a = construct { a with wkst := some k } := by
  unfold constructW resolveW
  rw [h]; rfl

/-- `construct` is the constructor under the interpreter's default first weekday (Monday) -/
theorem constructW_zero (a : Args) : constructW 0 a = construct a := by
  unfold constructW resolveW
  cases a with
  | mk freq dtstart tz interval wkst count untilDT bysetpos bymonth bymonthday byyearday byeaster byweekno byweekday byhour byminute bysecond =>
    cases wkst <;> rfl

theorem resolveW_wkst (k : Int) (a : Args) : Spec.RRule.wkst (resolveW k a) = a.wkst.getD k := rfl

/-- exactness under any ambient first weekday: the supported families, read on the resolved arguments -/
theorem iter_eq_spec_supported_ambient (k : Int) (a : Args) (r : Rule) (h : constructW k a = .ok r) (f : Family)
    (hs : SupportedBy (resolveW k a) f) (n : Nat) (hr : inRange (resolveW k a) f n) :
    ∃ m, n ≤ m ∧ m ≤ f.periodsPerTurn * n ∧ (iter r n).1 = Spec.RRule.occ (resolveW k a) m :=
  iter_eq_spec_supported (resolveW k a) r h f hs n hr

end RRule
