/-
  Proofs/ParserFuzzy.lean — the strict scan is simulated by the fuzzy scan as long as no AM/PM
  word is met while an AM/PM flag is already set (for C15 `fuzzy_extends_strict_partial`).
-/
import DateutilVerif.Model.Parser

namespace PM
open Py

/-- at index `i` the scan does not meet a second AM/PM marker -/
def NoSecondMarker (info : Info) (st : PState) (i : Nat) : Prop :=
  st.res.ampm = none ∨ (st.l[i]?).bind info.ampmOf = none

instance (info : Info) (st : PState) (i : Nat) : Decidable (NoSecondMarker info st i) := by
  unfold NoSecondMarker; exact inferInstance

theorem dayOrFail_fuzzy (ymd : Ymd) (res : Res) (v : Dec) (r : Nat × Ymd × Res)
    (h : dayOrFail false ymd res v = .ok r) : dayOrFail true ymd res v = .ok r := by
  unfold dayOrFail at *
  cases hc : ymd.couldBeDay v with
  | error e => simp [hc, bind, Except.bind] at h
  | ok cbd =>
    simp only [hc, bind, Except.bind] at h ⊢
    cases cbd with
    | true => simpa using h
    | false => simp [throw, throwThe, MonadExceptOf.throw] at h

theorem numAmpmOrDay_fuzzy (info : Info) (tokens : List Token) (idx : Nat) (v : Dec) (ymd : Ymd) (res : Res)
    (r : Nat × Ymd × Res) (h : numAmpmOrDay info false tokens idx v ymd res = .ok r) :
    numAmpmOrDay info true tokens idx v ymd res = .ok r := by
  unfold numAmpmOrDay at *
  split
  · rename_i ap hap
    simp only [hap] at h
    split
    · rename_i hlt; simpa [hlt] using h
    · rename_i hlt
      simp only [hlt] at h
      exact dayOrFail_fuzzy _ _ _ _ (by simpa using h)
  · rename_i hap
    simp only [hap] at h
    exact dayOrFail_fuzzy _ _ _ _ h

theorem parseNumericToken_fuzzy (cls : Char → CClass) (info : Info) (tokens : List Token) (idx : Nat) (ymd : Ymd)
    (res : Res) (r : Nat × Ymd × Res) (h : parseNumericToken cls info false tokens idx ymd res = .ok r) :
    parseNumericToken cls info true tokens idx ymd res = .ok r := by
  unfold parseNumericToken at *
  cases ht : tokAt tokens idx with
  | error e => simp [ht, bind, Except.bind] at h
  | ok s =>
    simp only [ht, bind, Except.bind] at h ⊢
    cases hd : toDecimal cls s with
    | error e => simp [hd] at h
    | ok value =>
      simp only [hd] at h ⊢
      split at h
      · rename_i hc; rw [if_pos hc]; exact h
      · rename_i hc; rw [if_neg hc]
        split at h
        · rename_i hc; rw [if_pos hc]; exact h
        · rename_i hc; rw [if_neg hc]
          split at h
          · rename_i hc; rw [if_pos hc]; exact h
          · rename_i hc; rw [if_neg hc]
            cases hfi : findHmsIdx info idx tokens true with
            | some p =>
              obtain ⟨a, b⟩ := p
              simp only [hfi] at h ⊢
              exact h
            | none =>
              simp only [hfi] at h ⊢
              split at h
              · rename_i hc; rw [if_pos hc]; exact h
              · rename_i hc; rw [if_neg hc]
                split at h
                · rename_i hc; rw [if_pos hc]; exact h
                · rename_i hc; rw [if_neg hc]
                  split at h
                  · rename_i hc; rw [if_pos hc]; exact h
                  · rename_i hc; rw [if_neg hc]
                    exact numAmpmOrDay_fuzzy _ _ _ _ _ _ _ h

theorem stepAmpm_fuzzy (i : Nat) (st : PState) (ap : Nat) (r : Nat × PState) (hno : st.res.ampm = none)
    (h : stepAmpm false i st ap = .ok r) : stepAmpm true i st ap = .ok r := by
  unfold stepAmpm ampmValid at *
  rw [hno] at h ⊢
  cases hh : st.res.hour with
  | none => simp [hh, bind, Except.bind] at h
  | some hr =>
    simp only [hh] at h ⊢
    by_cases h12 : hr ≤ 12
    · simpa [h12, bind, Except.bind] using h
    · simp [h12, bind, Except.bind] at h

/-- one iteration: what the strict scan accepts, the fuzzy scan does identically -/
theorem parseStep_fuzzy (cls : Char → CClass) (info : Info) (lenL i : Nat) (st : PState) (r : Nat × PState)
    (hno : NoSecondMarker info st i) (h : parseStep cls info false lenL i st = .ok r) :
    parseStep cls info true lenL i st = .ok r := by
  unfold parseStep at *
  cases ht : tokAt st.l i with
  | error e => simp [ht, bind, Except.bind] at h
  | ok li =>
    have hli : st.l[i]? = some li := by
      unfold tokAt at ht
      split at ht
      · rename_i t hh; injection ht with ht; subst ht; exact hh
      · cases ht
    simp only [ht, bind, Except.bind] at h ⊢
    split
    · rename_i hf
      simp only [hf, if_true] at h
      cases hn : parseNumericToken cls info false st.l i st.ymd st.res with
      | error e => simp [hn] at h
      | ok x =>
        rw [parseNumericToken_fuzzy _ _ _ _ _ _ _ hn]
        simpa [hn] using h
    · rename_i hf
      simp only [hf] at h
      split
      · rename_i wd hw; simpa [hw] using h
      · rename_i hw
        simp only [hw] at h
        split
        · rename_i mv hm; simpa [hm] using h
        · rename_i hm
          simp only [hm] at h
          split
          · rename_i ap hap
            simp only [hap] at h
            have : st.res.ampm = none := by
              rcases hno with hno | hno
              · exact hno
              · simp [hli, hap] at hno
            exact stepAmpm_fuzzy _ _ _ _ this h
          · rename_i hap
            simp only [hap] at h
            split
            · rename_i hc; simpa [hc] using h
            · rename_i hc
              simp only [hc] at h
              split
              · rename_i hc2; simpa [hc2] using h
              · rename_i hc2
                simp only [hc2, if_false] at h
                by_cases hj : info.isJump li = true
                · simpa [hj] using h
                · simp [hj, throw, throwThe, MonadExceptOf.throw] at h

/-- along the strict scan no second AM/PM marker is met (executable) -/
def singleMarkerRun (cls : Char → CClass) (info : Info) (lenL : Nat) : Nat → Nat → Nat → PState → Bool
  | 0, _, _, _ => true
  | fuel + 1, i, skip + 1, st => singleMarkerRun cls info lenL fuel (i + 1) skip st
  | fuel + 1, i, 0, st =>
    decide (NoSecondMarker info st i) &&
    match parseStep cls info false lenL i st with
    | .ok (adv, st') => singleMarkerRun cls info lenL fuel (i + 1) adv st'
    | .error _ => true

def SingleMarkerRun (cls : Char → CClass) (info : Info) (lenL fuel i skip : Nat) (st : PState) : Prop :=
  singleMarkerRun cls info lenL fuel i skip st = true

instance (cls : Char → CClass) (info : Info) (lenL fuel i skip : Nat) (st : PState) :
    Decidable (SingleMarkerRun cls info lenL fuel i skip st) := by unfold SingleMarkerRun; exact inferInstance

theorem parseLoop_fuzzy (cls : Char → CClass) (info : Info) (lenL : Nat) :
    ∀ (fuel i skip : Nat) (st st' : PState), SingleMarkerRun cls info lenL fuel i skip st →
      parseLoop cls info false lenL fuel i skip st = .ok st' → parseLoop cls info true lenL fuel i skip st = .ok st' := by
  intro fuel
  induction fuel with
  | zero => intro i skip st st' _ h; exact h
  | succ n ih =>
    intro i skip st st' hrun h
    unfold SingleMarkerRun at hrun ih
    cases skip with
    | succ k =>
      unfold parseLoop at h ⊢
      unfold singleMarkerRun at hrun
      exact ih _ _ _ _ hrun h
    | zero =>
      unfold parseLoop at h ⊢
      unfold singleMarkerRun at hrun
      simp only [Bool.and_eq_true, decide_eq_true_eq] at hrun
      cases hs : parseStep cls info false lenL i st with
      | error e => simp [hs] at h
      | ok r =>
        rw [parseStep_fuzzy cls info lenL i st r hrun.1 hs]
        simp only [hs] at h hrun
        exact ih _ _ _ _ hrun.2 h

end PM
