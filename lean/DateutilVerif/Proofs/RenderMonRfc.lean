/-
  Proofs/RenderMonRfc.lean — token scan of `Www, DD Mmm YYYY HH:MM:SS<offset>` (year ≥ 100), every offset spelling.
-/
import DateutilVerif.Proofs.RenderMon

namespace PM
open Py PT

set_option maxHeartbeats 8000000 in
theorem tok_mon_rfc (cls : Char → CClass) [AsciiOK cls] (yf : Bool) (year century : Int) (o : Opts) (tznames : List Token)
    (tzi : TzInfos) (ho : PlainOpts o tzi) (dflt : DT) (W Mo : Token) (w y m d h mi s us : Nat)
    (hW : WdWord cls (Info.default false yf year century) W w)
    (hMo : MonWord cls (Info.default false yf year century) Mo m)
    (hv : (DT.mk y m d h mi s us).Valid) (hy : 100 ≤ y) (hus : us = 0) (off : Off) (hoff : off.Dom) :
    parseResult cls (Info.default false yf year century) o tznames tzi dflt
      (monTokens (.rfc2822 w) W Mo y d h mi s ++ offTokens off) =
      .ok { dt := DT.mk y m d h mi s us, tz := if o.ignoretz then .naive else offDescr tznames off, tokens := none } := by
  obtain ⟨⟨hy1, hy2, hm1, hm2, hd1, hd2⟩, hh1, hh2, hmi1, hmi2, hs1, hs2, hu1, hu2⟩ := hv
  dsimp only at *
  have hdim := (Cal.daysInMonth_bounds (y : Int) (m : Int)).2
  obtain ⟨hfz, hfwt, hdf, htz1, htz2⟩ := ho
  have hvalid : (DT.mk (y : Int) m d h mi s us).valid = true := by
    unfold DT.valid
    exact decide_eq_true ⟨⟨hy1, hy2, hm1, hm2, hd1, hd2⟩, hh1, hh2, hmi1, hmi2, hs1, hs2, hu1, hu2⟩
  mon_prep
  obtain ⟨mf, mw, mm, mh, ma, mj, mdg⟩ := hMo
  obtain ⟨wf, ww⟩ := hW
  subst hus
  have hvalid0 : (DT.mk (y : Int) m d h mi s 0).valid = true := by simpa using hvalid
  by_cases hy100 : y = 100 <;>
  rcases off with _ | sp | _ | ⟨sp, neg, oh⟩ | ⟨sp, neg, oh, om⟩ | ⟨sp, neg, oh, om⟩
  all_goals (try subst hy100)
  all_goals (try (have hgt : 100 < y := by omega))
  all_goals (try (have hvalid100 : (DT.mk 100 (m : Int) d h mi s 0).valid = true := by simpa using hvalid))
  all_goals (try cases sp) <;> (try cases neg)
  all_goals (try simp only [Off.Dom] at hoff)
  all_goals (try (have boh : oh < 100 := by omega))
  all_goals (try (have bom : om < 100 := by omega))
  all_goals (try (have hok := offsetOk_hm oh om (by omega) (by omega)))
  all_goals (try (have hok := offsetOk_hm oh 0 (by omega) (by omega)))
  all_goals (try (by_cases hz1 : oh = 0)) <;> (try (by_cases hz2 : om = 0))
  all_goals (try subst hz1) <;> (try subst hz2)
  all_goals
    psimpa [monTokens, y4, offTokens, offDescr, Off.seconds, spT, sgn, utcOrLocal, off_zero_iff, off_zero_iff', off_zero_iff'']
  all_goals (try (by_cases hig : o.ignoretz = true <;> by_cases hu : ['U', 'T', 'C'] ∈ tznames <;> simp [hig, hu]))

end PM
