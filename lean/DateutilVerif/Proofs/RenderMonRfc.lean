/-
  Proofs/RenderMonRfc.lean — token scan of `Www, DD Mmm YYYY HH:MM:SS<offset>` (year ≥ 100), every offset spelling,
  through the schema (scan over the core with an arbitrary suffix behind it + `suffix_run` + `finish_tz`).
-/
import DateutilVerif.Proofs.RenderMon
import DateutilVerif.Proofs.RenderSchema

namespace PM
open Py PT

def rfcYmd (y m d : Nat) : Ymd :=
  { vals := [d, m, y], century := decide (100 < y), mIdx := some 1, yIdx := if 100 < y then some 2 else none }
def rfcRes (w h mi s : Nat) : Res :=
  { weekday := some w, hour := some h, minute := some mi, second := some s, microsecond := some 0 }

set_option maxHeartbeats 4000000 in
theorem run_rfc (cls : Char → CClass) [AsciiOK cls] (yf : Bool) (year century : Int) (W Mo : Token) (w y m d h mi s us : Nat)
    (hW : WdWord cls (Info.default false yf year century) W w) (hMo : MonWord cls (Info.default false yf year century) Mo m)
    (hv : (DT.mk y m d h mi s us).Valid) (hy : 100 ≤ y) (suf : List Token) (hs : Suf1 (Info.default false yf year century) suf) :
    parseLoop cls (Info.default false yf year century) false (suf.length + 14) (suf.length + 14) 0 0
      { l := monTokens (.rfc2822 w) W Mo y d h mi s ++ suf } =
    parseLoop cls (Info.default false yf year century) false (suf.length + 14) suf.length 14 0
      { l := monTokens (.rfc2822 w) W Mo y d h mi s ++ suf, ymd := rfcYmd y m d, skipped := [1, 2, 6], res := rfcRes w h mi s } := by
  obtain ⟨⟨hy1, hy2, hm1, hm2, hd1, hd2⟩, hh1, hh2, hmi1, hmi2, hs1, hs2, hu1, hu2⟩ := hv
  dsimp only at *
  have hdim := (Cal.daysInMonth_bounds (y : Int) (m : Int)).2
  mon_prep
  obtain ⟨mf, mw, mm, mh, ma, mj, mdg⟩ := hMo
  obtain ⟨wf, ww⟩ := hW
  by_cases hgt : 100 < y
  all_goals generalize suf.length = k
  all_goals (rcases hs with rfl | ⟨a, rest, rfl, a1, a2, a3⟩ <;> psimpa [monTokens, y4, rfcYmd, rfcRes])

set_option maxHeartbeats 4000000 in
theorem fin_rfc (yf : Bool) (year century : Int) (o : Opts) (tznames : List Token) (tzi : TzInfos) (ho : PlainOpts o tzi) (dflt : DT)
    (w y m d h mi s : Nat) (hv : (DT.mk y m d h mi s 0).Valid) (hy : 100 ≤ y) :
    finishOf (Info.default false yf year century) o tznames tzi dflt (rfcYmd y m d) (rfcRes w h mi s) =
      .ok { dt := DT.mk y m d h mi s 0, tz := .naive, tokens := none } := by
  obtain ⟨⟨hy1, hy2, hm1, hm2, hd1, hd2⟩, hh1, hh2, hmi1, hmi2, hs1, hs2, hu1, hu2⟩ := hv
  dsimp only at *
  have hdim := (Cal.daysInMonth_bounds (y : Int) (m : Int)).2
  obtain ⟨hfz, hfwt, hdf, htz1, htz2⟩ := ho
  have us : Nat := 0
  have hvalid : (DT.mk (y : Int) m d h mi s 0).valid = true := by
    unfold DT.valid
    exact decide_eq_true ⟨⟨hy1, hy2, hm1, hm2, hd1, hd2⟩, hh1, hh2, hmi1, hmi2, hs1, hs2, by simp, by simp⟩
  have by' : y < 10000 := by omega
  have n1 : ¬ (2147483647 : Int) < y := by omega
  have n2 : ¬ (2147483647 : Int) < m := by omega
  have n3 : ¬ (2147483647 : Int) < d := by omega
  have n4 : ¬ (2147483647 : Int) < h := by omega
  have n5 : ¬ (2147483647 : Int) < mi := by omega
  have n6 : ¬ (2147483647 : Int) < s := by omega
  have d31 : ¬ 31 < d := by omega
  have d0 : ¬ d = 0 := by omega
  have y31 : ¬ y ≤ 31 := by omega
  have hyI : (100 : Int) ≤ (y : Int) := by omega
  by_cases hgt : 100 < y
  all_goals psimpa [finishOf, afterValidate, rfcYmd, rfcRes]

theorem tok_mon_rfc (cls : Char → CClass) [AsciiOK cls] (yf : Bool) (year century : Int) (o : Opts) (tznames : List Token)
    (tzi : TzInfos) (ho : PlainOpts o tzi) (dflt : DT) (W Mo : Token) (w y m d h mi s us : Nat)
    (hW : WdWord cls (Info.default false yf year century) W w)
    (hMo : MonWord cls (Info.default false yf year century) Mo m)
    (hv : (DT.mk y m d h mi s us).Valid) (hy : 100 ≤ y) (hus : us = 0) (off : Off) (hoff : off.Dom) :
    parseResult cls (Info.default false yf year century) o tznames tzi dflt
      (monTokens (.rfc2822 w) W Mo y d h mi s ++ offTokens off) =
      .ok { dt := DT.mk y m d h mi s us, tz := if o.ignoretz then .naive else offDescr tznames off, tokens := none } := by
  subst hus
  have hs : StrictOpts o tzi := ⟨ho.fz, ho.fwt, ho.tz1, ho.tz2⟩
  have := tok_theorem cls false yf year century o tznames tzi hs dflt (monTokens (.rfc2822 w) W Mo y d h mi s) 14 rfl
    (rfcRes w h mi s) (rfcYmd y m d) [1, 2, 6] (DT.mk y m d h mi s 0) off hoff
    (run_rfc cls yf year century W Mo w y m d h mi s 0 hW hMo hv hy (offTokens off) (suf1_off false yf year century off))
    rfl rfl (Or.inl rfl) (fin_rfc yf year century o tznames tzi ho dflt w y m d h mi s hv hy)
  simpa [offZone] using this

end PM
