/-
  Proofs/RRuleModDistance.lean — exactness of `rrule.__mod_distance`: starting from `value`, the loop
  visits `(value + t·interval) mod base` for `t = 1, 2, …` and returns at the LEAST `t` whose value is
  in the BY list, together with the carry `(value + t·interval) div base`; it falls off the loop
  (Python `None`, then `TypeError` at the unpacking) iff none of the first `base` values is listed.
  For a list that passed `__construct_byset` (members congruent to the start modulo gcd(interval, base))
  and a current value on the orbit of the start, a listed member in `0..base−1` is always found.
-/
import DateutilVerif.Proofs.RRuleMonoSub

namespace RRule

theorem shift_emod (X base q : Int) : (X - base * q) % base = X % base := by
  have : X - base * q = X + base * (-q) := by rw [Int.mul_neg]; omega
  rw [this, Int.add_mul_emod_self_left]

theorem shift_ediv (X base q : Int) (hb : 0 < base) : (X - base * q) / base = X / base - q := by
  have : X - base * q = X + base * (-q) := by rw [Int.mul_neg]; omega
  rw [this, Int.add_mul_ediv_left _ _ (by omega)]; omega

/-- **`__mod_distance`, exactly** -/
theorem modDistance_exact (interval : Int) (byxxx : List Int) (base : Int) (hb : 0 < base) :
    ∀ (n : Nat) (acc v : Int),
    (∃ s : Nat, 1 ≤ s ∧ s ≤ n ∧ byxxx.contains ((v + s * interval) % base) = true ∧
      (∀ t : Nat, 1 ≤ t → t < s → byxxx.contains ((v + t * interval) % base) = false) ∧
      modDistance interval byxxx base n acc v =
        some (acc + (v + s * interval) / base, (v + s * interval) % base)) ∨
    ((∀ t : Nat, 1 ≤ t → t ≤ n → byxxx.contains ((v + t * interval) % base) = false) ∧
      modDistance interval byxxx base n acc v = none) := by
  intro n
  induction n with
  | zero => intro acc v; right; exact ⟨by intro t h1 h2; omega, rfl⟩
  | succ n ih =>
    intro acc v
    unfold modDistance
    simp only [Py.divmod, Py.fdiv_pos _ hb, Py.fmod_pos _ hb]
    by_cases hc : byxxx.contains ((v + interval) % base) = true
    · left
      refine ⟨1, by omega, by omega, by simpa using hc, by intro t h1 h2; omega, ?_⟩
      rw [if_pos hc]; simp
    · rw [if_neg hc]
      have hcf : byxxx.contains ((v + interval) % base) = false := by
        cases hq : byxxx.contains ((v + interval) % base) with
        | false => rfl
        | true => exact absurd hq hc
      -- the recursive call starts from (v + interval) % base = v + interval − base·q
      have hdecomp : (v + interval) % base = v + interval - base * ((v + interval) / base) := by
        have := Int.emod_add_mul_ediv (v + interval) base; omega
      have key : ∀ s : Nat, (v + interval) % base + (s : Int) * interval =
          (v + ((s + 1 : Nat) : Int) * interval) - base * ((v + interval) / base) := by
        intro s; rw [hdecomp]; push_cast; rw [Int.add_mul]; omega
      rcases ih (acc + (v + interval) / base) ((v + interval) % base) with ⟨s, h1, h2, h3, h4, h5⟩ | ⟨h1, h2⟩
      · left
        refine ⟨s + 1, by omega, by omega, ?_, ?_, ?_⟩
        · rw [key, shift_emod] at h3; exact h3
        · intro t ht1 ht2
          by_cases ht : t = 1
          · subst ht; simpa using hcf
          · have := h4 (t - 1) (by omega) (by omega)
            rw [key, shift_emod] at this
            have e : t - 1 + 1 = t := by omega
            rw [e] at this; exact this
        · rw [h5, key, shift_emod, shift_ediv _ _ _ hb]
          congr 2; omega
      · right
        refine ⟨?_, h2⟩
        intro t ht1 ht2
        by_cases ht : t = 1
        · subst ht; simpa using hcf
        · have := h1 (t - 1) (by omega) (by omega)
          rw [key, shift_emod] at this
          have e : t - 1 + 1 = t := by omega
          rw [e] at this; exact this

/-! ### a member that passed `__construct_byset` is reached within `base` steps (base 24) -/

theorem reach24_fin : ∀ i d : Fin 24, (((d : Nat) : Int) % ((Int.gcd ((i : Nat) : Int) 24 : Nat) : Int) = 0) →
    ∃ s : Fin 24, ((((s : Nat) : Int) + 1) * ((i : Nat) : Int)) % 24 = ((d : Nat) : Int) := by
  decide +kernel

/-- from any `W` on the orbit, a target `x ∈ 0..23` with `x ≡ W (mod gcd(interval, 24))` is reached in
    `1..24` steps of `interval` -/
theorem reach24 (interval W x : Int) (hx : 0 ≤ x ∧ x ≤ 23)
    (hg : (x - W) % ((Int.gcd interval 24 : Nat) : Int) = 0) :
    ∃ s : Nat, 1 ≤ s ∧ s ≤ 24 ∧ (W + (s : Int) * interval) % 24 = x := by
  have hgcd : Int.gcd interval 24 = Int.gcd (interval % 24) 24 := by
    have e : interval = interval % 24 + 24 * (interval / 24) := (Int.emod_add_mul_ediv interval 24).symm
    conv => lhs; rw [e]
    exact Int.gcd_add_mul_left_left 24 (interval % 24) (interval / 24)
  have hdvd24 : ((Int.gcd interval 24 : Nat) : Int) ∣ 24 := Int.gcd_dvd_right interval 24
  have hd : ((x - W) % 24) % ((Int.gcd interval 24 : Nat) : Int) = 0 := by
    rw [Int.emod_emod_of_dvd _ hdvd24]; exact hg
  have hi : 0 ≤ interval % 24 ∧ interval % 24 < 24 := by omega
  have hdr : 0 ≤ (x - W) % 24 ∧ (x - W) % 24 < 24 := by omega
  have := reach24_fin ⟨(interval % 24).toNat, by omega⟩ ⟨((x - W) % 24).toNat, by omega⟩
  have c1 : (((interval % 24).toNat : Nat) : Int) = interval % 24 := by omega
  have c2 : ((((x - W) % 24).toNat : Nat) : Int) = (x - W) % 24 := by omega
  simp only [c1, c2] at this
  rw [hgcd] at hd
  obtain ⟨s, hs⟩ := this hd
  refine ⟨(s : Nat) + 1, by omega, by have := s.isLt; omega, ?_⟩
  have e1 : ((((s : Nat) : Int) + 1) * interval) % 24 = ((((s : Nat) : Int) + 1) * (interval % 24)) % 24 := by
    rw [Int.mul_emod, Int.mul_emod (((s : Nat) : Int) + 1) (interval % 24), Int.emod_emod_of_dvd _ (Int.dvd_refl 24)]
  have e2 : (((s : Nat) + 1 : Nat) : Int) * interval = (((s : Nat) : Int) + 1) * interval := by push_cast; rfl
  rw [e2]
  generalize (((s : Nat) : Int) + 1) * interval = P at e1 ⊢
  omega

/-! ### the same for base 60 (BYMINUTE under MINUTELY, BYSECOND under SECONDLY) -/

theorem reach60_fin : ∀ i d : Fin 60, (((d : Nat) : Int) % ((Int.gcd ((i : Nat) : Int) 60 : Nat) : Int) = 0) →
    ∃ s : Fin 60, ((((s : Nat) : Int) + 1) * ((i : Nat) : Int)) % 60 = ((d : Nat) : Int) := by
  decide +kernel

theorem reach60 (interval W x : Int) (hx : 0 ≤ x ∧ x ≤ 59)
    (hg : (x - W) % ((Int.gcd interval 60 : Nat) : Int) = 0) :
    ∃ s : Nat, 1 ≤ s ∧ s ≤ 60 ∧ (W + (s : Int) * interval) % 60 = x := by
  have hgcd : Int.gcd interval 60 = Int.gcd (interval % 60) 60 := by
    have e : interval = interval % 60 + 60 * (interval / 60) := (Int.emod_add_mul_ediv interval 60).symm
    conv => lhs; rw [e]
    exact Int.gcd_add_mul_left_left 60 (interval % 60) (interval / 60)
  have hdvd : ((Int.gcd interval 60 : Nat) : Int) ∣ 60 := Int.gcd_dvd_right interval 60
  have hd : ((x - W) % 60) % ((Int.gcd interval 60 : Nat) : Int) = 0 := by
    rw [Int.emod_emod_of_dvd _ hdvd]; exact hg
  have hi : 0 ≤ interval % 60 ∧ interval % 60 < 60 := by omega
  have hdr : 0 ≤ (x - W) % 60 ∧ (x - W) % 60 < 60 := by omega
  have := reach60_fin ⟨(interval % 60).toNat, by omega⟩ ⟨((x - W) % 60).toNat, by omega⟩
  have c1 : (((interval % 60).toNat : Nat) : Int) = interval % 60 := by omega
  have c2 : ((((x - W) % 60).toNat : Nat) : Int) = (x - W) % 60 := by omega
  simp only [c1, c2] at this
  rw [hgcd] at hd
  obtain ⟨s, hs⟩ := this hd
  refine ⟨(s : Nat) + 1, by omega, by have := s.isLt; omega, ?_⟩
  have e1 : ((((s : Nat) : Int) + 1) * interval) % 60 = ((((s : Nat) : Int) + 1) * (interval % 60)) % 60 := by
    rw [Int.mul_emod, Int.mul_emod (((s : Nat) : Int) + 1) (interval % 60), Int.emod_emod_of_dvd _ (Int.dvd_refl 60)]
  have e2 : (((s : Nat) + 1 : Nat) : Int) * interval = (((s : Nat) : Int) + 1) * interval := by push_cast; rfl
  rw [e2]
  generalize (((s : Nat) : Int) + 1) * interval = P at e1 ⊢
  omega

end RRule
