/-
  Proofs/RenderClock.lean — `YYYY-MM-DD H:MM AM|PM` (family 5) and `YYYY-MM-DD HHhMMmSSs` (family 6) of C02.
-/
import DateutilVerif.Proofs.RenderMon

namespace PM
open Py PT

section
variable (df yf : Bool) (year century : Int)
local notation "I" => Info.default df yf year century
theorem am_facts : (I).weekdayOf ['A', 'M'] = none ∧ (I).monthOf ['A', 'M'] = none ∧ (I).ampmOf ['A', 'M'] = some 0 := by
  refine ⟨?_, ?_, ?_⟩ <;> tbl
theorem pm_facts : (I).weekdayOf ['P', 'M'] = none ∧ (I).monthOf ['P', 'M'] = none ∧ (I).ampmOf ['P', 'M'] = some 1 := by
  refine ⟨?_, ?_, ?_⟩ <;> tbl
@[simp] theorem hms_h : (I).hmsOf ['h'] = some 0 := by tbl
@[simp] theorem hms_m : (I).hmsOf ['m'] = some 1 := by tbl
@[simp] theorem hms_s : (I).hmsOf ['s'] = some 2 := by tbl
end

/-- `_adjust_ampm` inverts the 12-hour spelling (from the translated kernel, all 24 hours) -/
theorem adjustAmpm_h12 (h : Nat) (hh : h < 24) : adjustAmpm (h12 h) (if h < 12 then 0 else 1) = h := by
  unfold adjustAmpm Gen.adjustAmpm h12
  dsimp only
  by_cases h12' : h < 12 <;> by_cases hz : h % 12 = 0 <;> simp [h12', hz] <;> omega

def ampmTokens (y m d hh12 mi : Nat) (AP : Token) : List Token :=
  isoDateTokens y m d [' '] ++ [dayTok hh12, [':'], dtok [mi / 10, mi], [' '], AP]

set_option maxHeartbeats 4000000 in
theorem tok_ampm (cls : Char → CClass) [AsciiOK cls] (yf : Bool) (year century : Int) (o : Opts) (tznames : List Token)
    (tzi : TzInfos) (ho : PlainOpts o tzi) (dflt : DT) (y m d h mi s us hh12 ap : Nat) (AP : Token)
    (hAP : floatOk cls AP = false ∧ (Info.default false yf year century).weekdayOf AP = none ∧
           (Info.default false yf year century).monthOf AP = none ∧ (Info.default false yf year century).ampmOf AP = some ap)
    (h12a : 1 ≤ hh12) (h12b : hh12 ≤ 12) (hadj : adjustAmpm hh12 ap = h)
    (hv : (DT.mk y m d h mi s us).Valid) (hexp : dflt.ss = s ∧ dflt.us = us) :
    parseResult cls (Info.default false yf year century) o tznames tzi dflt (ampmTokens y m d hh12 mi AP) =
      .ok { dt := DT.mk y m d h mi s us, tz := .naive, tokens := none } := by
  obtain ⟨⟨hy1, hy2, hm1, hm2, hd1, hd2⟩, hh1, hh2, hmi1, hmi2, hs1, hs2, hu1, hu2⟩ := hv
  dsimp only at *
  have hdim := (Cal.daysInMonth_bounds (y : Int) (m : Int)).2
  obtain ⟨hfz, hfwt, hdf, htz1, htz2⟩ := ho
  obtain ⟨e3, e4⟩ := hexp
  obtain ⟨af, aw, am, aa⟩ := hAP
  have hvalid : (DT.mk (y : Int) m d h mi s us).valid = true := by
    unfold DT.valid
    exact decide_eq_true ⟨⟨hy1, hy2, hm1, hm2, hd1, hd2⟩, hh1, hh2, hmi1, hmi2, hs1, hs2, hu1, hu2⟩
  mon_prep
  have b12 : hh12 < 100 := by omega
  have le12 : ¬ 12 < hh12 := by omega
  have hadj' : (Gen.adjustAmpm (hh12 : Int) (ap : Int)).toNat = h := hadj
  by_cases h10 : hh12 < 10
  all_goals psimpa [ampmTokens, isoDateTokens, dayTok]

def hmsLetterTokens (y m d h mi s : Nat) : List Token :=
  isoDateTokens y m d [' '] ++ [dtok [h / 10, h], ['h'], dtok [mi / 10, mi], ['m'], dtok [s / 10, s], ['s']]

set_option maxHeartbeats 4000000 in
theorem tok_hmsLetters (cls : Char → CClass) [AsciiOK cls] (yf : Bool) (year century : Int) (o : Opts) (tznames : List Token)
    (tzi : TzInfos) (ho : PlainOpts o tzi) (dflt : DT) (y m d h mi s us : Nat)
    (hv : (DT.mk y m d h mi s us).Valid) (hus : us = 0) :
    parseResult cls (Info.default false yf year century) o tznames tzi dflt (hmsLetterTokens y m d h mi s) =
      .ok { dt := DT.mk y m d h mi s us, tz := .naive, tokens := none } := by
  obtain ⟨⟨hy1, hy2, hm1, hm2, hd1, hd2⟩, hh1, hh2, hmi1, hmi2, hs1, hs2, hu1, hu2⟩ := hv
  dsimp only at *
  have hdim := (Cal.daysInMonth_bounds (y : Int) (m : Int)).2
  obtain ⟨hfz, hfwt, hdf, htz1, htz2⟩ := ho
  have hvalid : (DT.mk (y : Int) m d h mi s us).valid = true := by
    unfold DT.valid
    exact decide_eq_true ⟨⟨hy1, hy2, hm1, hm2, hd1, hd2⟩, hh1, hh2, hmi1, hmi2, hs1, hs2, hu1, hu2⟩
  mon_prep
  subst hus
  have hvalid0 : (DT.mk (y : Int) m d h mi s 0).valid = true := by simpa using hvalid
  psimpa [hmsLetterTokens, isoDateTokens]

end PM
