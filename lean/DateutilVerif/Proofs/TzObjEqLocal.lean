/- Proofs/TzObjEqLocal.lean — `tzlocal._naive_is_dst/is_ambiguous/_isdst/utcoffset/dst/tzname` TRANSLATED from tz/tz.py
   (Generated/TzObjKernels.lean) equal the tzlocal model of Model/Zones.lean (`localNaiveIsdst`, `localIsAmbiguous`,
   `localIsdst`, `localZone`); `time.localtime(u).tm_isdst` and `time.timezone` are the named primitives
   `ObjPy.localtimeIsdst` / `ObjPy.timeTimezone`. -/
import DateutilVerif.Generated.TzObjKernels
import DateutilVerif.Proofs.TzGenEqGeneric
set_option linter.unusedSimpArgs false
namespace TzGen
open TZ Py DtPy ObjPy

theorem local_naive_eq (z : RangeZone) (w f : Int) (fold att : Bool) (h0 : 0 ≤ f) (h1 : f < M) :
    Gen.tzlocal_naiveIsDst z (D w f fold att) = .ok (b2i (localNaiveIsdst z w)) := by
  unfold Gen.tzlocal_naiveIsDst
  rw [ts_eq]
  have : ((D w f fold att).us + tsOfInt (timeTimezone z)) / M + z.stdOff = w := by
    unfold D tsOfInt timeTimezone M at *; simp only; omega
  simp only [Except.bind, localtimeIsdst, this]

theorem subSaved (z : RangeZone) (w f : Int) (fold att : Bool) :
    DtPy.addTd (D w f fold att) (-(tdSeconds z.saving)) = D (w - z.saving) f false att := by
  simp only [DtPy.addTd, tdSeconds, D]; congr 1; rw [Int.sub_mul]; omega

theorem b2i_ne (a b : Bool) : (b2i a ≠ b2i b) ↔ a ≠ b := by cases a <;> cases b <;> simp [b2i]
theorem b2i_ne0 (a : Bool) : (b2i a ≠ 0) ↔ a = true := by cases a <;> simp [b2i]

theorem local_isAmbiguous_eq (z : RangeZone) (w f : Int) (fold att : Bool) (h0 : 0 ≤ f) (h1 : f < M) :
    Gen.tzlocal_isAmbiguous z (D w f fold att) = .ok (localIsAmbiguous z w) := by
  unfold Gen.tzlocal_isAmbiguous localIsAmbiguous
  rw [local_naive_eq z w f fold att h0 h1]
  simp only [Except.bind, subSaved, local_naive_eq z (w - z.saving) f false att h0 h1, b2i_ne, b2i_ne0]
  cases localNaiveIsdst z w <;> cases localNaiveIsdst z (w - z.saving) <;> simp

theorem local_isdst_eq (z : RangeZone) (w f : Int) (fold att fn : Bool) (h0 : 0 ≤ f) (h1 : f < M) :
    Gen.tzlocal_isdst z (D w f fold att) fn = .ok (b2i (localIsdst z ⟨w, fold⟩)) := by
  unfold Gen.tzlocal_isdst localIsdst
  rw [local_naive_eq z w f fold att h0 h1, local_isAmbiguous_eq z w f fold att h0 h1]
  cases z.hasdst <;> cases localIsAmbiguous z w <;> cases fold <;> simp [Except.bind, foldOf, D, b2i]

theorem local_utcoffset_eq (z : RangeZone) (w f : Int) (fold att : Bool) (h0 : 0 ≤ f) (h1 : f < M) :
    Gen.tzlocal_utcoffset z (D w f fold att) = .ok (tdSeconds ((localZone z).utcoffset ⟨w, fold⟩)) := by
  unfold Gen.tzlocal_utcoffset localZone
  rw [local_isdst_eq z w f fold att true h0 h1]
  cases h : localIsdst z ⟨w, fold⟩ <;> simp [Except.bind, b2i, h]

theorem local_dst_eq (z : RangeZone) (w f : Int) (fold att : Bool) (h0 : 0 ≤ f) (h1 : f < M) :
    Gen.tzlocal_dst z (D w f fold att) = .ok (tdSeconds ((localZone z).dst ⟨w, fold⟩)) := by
  unfold Gen.tzlocal_dst localZone
  rw [local_isdst_eq z w f fold att true h0 h1]
  cases h : localIsdst z ⟨w, fold⟩ <;> simp [Except.bind, b2i, tdSeconds, RangeZone.saving, Int.sub_mul, h]

theorem local_tzname_eq (z : RangeZone) (w f : Int) (fold att : Bool) (h0 : 0 ≤ f) (h1 : f < M) :
    Gen.tzlocal_tzname z (D w f fold att) = .ok (if localIsdst z ⟨w, fold⟩ then z.dstAbbr else z.stdAbbr) := by
  unfold Gen.tzlocal_tzname
  rw [local_isdst_eq z w f fold att true h0 h1]
  cases h : localIsdst z ⟨w, fold⟩ <;> simp [Except.bind, b2i, DtPy.lgetR, h]

/-! ### the `@_validate_fromutc_inputs` decorator -/

/-- the decorator's inner function: ValueError unless `dt.tzinfo is self`, then the wrapped method (the
    `isinstance(dt, datetime)` test is statically true for a datetime) -/
theorem validate_eq (g : Dt → R Dt) (d : Dt) :
    Gen.validateFromutcInputs g d = if d.attached then g d else .error .ValueError := by
  unfold Gen.validateFromutcInputs
  cases d.attached <;> simp

theorem validate_attached (g : Dt → R Dt) (s f : Int) (fold : Bool) :
    Gen.validateFromutcInputs g (D s f fold true) = g (D s f fold true) := by
  rw [validate_eq]; rfl

theorem validate_detached (g : Dt → R Dt) (s f : Int) (fold : Bool) :
    Gen.validateFromutcInputs g (D s f fold false) = .error .ValueError := by
  rw [validate_eq]; rfl
end TzGen
