/-
  Proofs/TzStrBounds.lean — the residual hypotheses of `tzstr_render_partial` discharged: values of
  short digit tokens, representable offsets (`tdCheck`), and the `ydayidx` scan for `Jn` / `n` rules
  (whole table 1..366 by kernel evaluation).
-/
import DateutilVerif.Proofs.TzStrRender

namespace TzStr

theorem digit_toNat (c : Char) (h : '0' ≤ c ∧ c ≤ '9') : 48 ≤ c.toNat ∧ c.toNat ≤ 57 := by
  have a := h.1; have b := h.2
  simp only [Char.le_def, UInt32.le_iff_toNat_le] at a b
  have e0 : ('0' : Char).val.toNat = 48 := by decide
  have e9 : ('9' : Char).val.toNat = 57 := by decide
  rw [e0] at a; rw [e9] at b
  exact ⟨a, b⟩

theorem pyInt_le_99 (t : String) (v : Int) (hlen : t.length ≤ 2) (h : pyInt t = some v) : 0 ≤ v ∧ v ≤ 99 := by
  unfold pyInt at h
  by_cases hd : isDigits t = true
  · rw [if_pos hd] at h
    unfold isDigits at hd
    simp only [Bool.and_eq_true, Bool.not_eq_true', List.all_eq_true, decide_eq_true_eq] at hd
    have hl : t.toList.length ≤ 2 := by rw [String.length_toList]; exact hlen
    have e48 : '0'.toNat = 48 := by decide
    cases hc : t.toList with
    | nil => rw [hc] at h; simp at h; omega
    | cons c1 r1 =>
        have d1 := digit_toNat c1 (hd.2 c1 (by rw [hc]; simp))
        cases r1 with
        | nil => rw [hc] at h; simp [e48] at h; omega
        | cons c2 r2 =>
            have d2 := digit_toNat c2 (hd.2 c2 (by rw [hc]; simp))
            cases r2 with
            | nil => rw [hc] at h; simp [e48] at h; omega
            | cons c3 r3 => rw [hc] at hl; simp at hl
  · simp [hd] at h

def ydayOk (n : Int) : Bool := match ydayToMonthDay n with | .ok _ => true | .error _ => false

theorem ydayTable : ∀ k : Fin 366, ydayOk (1 + (k.val : Int)) = true := by decide +kernel

theorem yday_ok (n : Int) (h1 : 1 ≤ n) (h2 : n ≤ 366) : ∃ md, ydayToMonthDay n = .ok md := by
  have := ydayTable ⟨(n - 1).toNat, by omega⟩
  have e : 1 + (((n - 1).toNat : Nat) : Int) = n := by omega
  simp only [e] at this
  unfold ydayOk at this
  cases h : ydayToMonthDay n with
  | ok md => exact ⟨md, rfl⟩
  | error e => rw [h] at this; cases this

theorem delta_ok (r : RuleSp) (h : r.Ok) (hn : ∀ n, r = .N n → 0 ≤ n.val) (t : Option Int) (isend : Bool) (s d : Int) :
    ∃ x, delta (r.attr t) isend s d = .ok x ∧ x.truthy = true := by
  cases r with
  | M m w dd => exact ⟨_, rfl, by simp [Delta.truthy]⟩
  | J n =>
      obtain ⟨_, h1, h2⟩ := h
      obtain ⟨md, hmd⟩ := yday_ok n.val h1 h2
      have hne : (n.val == 0) = false := by apply beq_eq_false_iff_ne.mpr; omega
      refine ⟨{ month := some md.1, day := some md.2, seconds := t.getD 7200 - (if isend then d - s else 0) }, ?_, by simp [Delta.truthy]⟩
      simp [delta, RuleSp.attr, hne, hmd, bind, Except.bind, pure, Except.pure]
  | N n =>
      have h0 := hn n rfl
      obtain ⟨md, hmd⟩ := yday_ok (n.val + 1) (by omega) (by have := h.2; omega)
      have hne : (n.val + 1 == 0) = false := by apply beq_eq_false_iff_ne.mpr; omega
      refine ⟨{ month := some md.1, day := some md.2, leapdays := (if 59 < n.val + 1 ∧ n.val + 1 < 366 then -1 else 0),
                seconds := t.getD 7200 - (if isend then d - s else 0) }, ?_, by simp [Delta.truthy]⟩
      simp [delta, RuleSp.attr, hne, hmd, bind, Except.bind, pure, Except.pure]

theorem pyInt_nonneg (t : String) (v : Int) (h : pyInt t = some v) : 0 ≤ v := by
  unfold pyInt at h
  split at h
  · have key : ∀ (l : List Char) (acc : Int), 0 ≤ acc →
        0 ≤ l.foldl (fun (a : Int) c => a * 10 + ((c.toNat - '0'.toNat : Nat) : Int)) acc := by
      intro l
      induction l with
      | nil => intro acc h; exact h
      | cons c cs ih =>
          intro acc h
          have := Int.natCast_nonneg (c.toNat - '0'.toNat)
          exact ih _ (by show (0 : Int) ≤ acc * 10 + ((c.toNat - '0'.toNat : Nat) : Int); omega)
    cases h; exact key _ 0 (Int.le_refl 0)
  · cases h

theorem offsp_bound (o : OffSp) (h : o.Ok) : 0 ≤ o.val ∧ o.val ≤ 362340 := by
  cases o with
  | h n => have := pyInt_le_99 n.tok n.val h.2 h.1; simp only [OffSp.val]; omega
  | hhmm t a b =>
      obtain ⟨_, hlen, ha, hb⟩ := h
      have la : (strTake t 2).length ≤ 2 := by
        unfold strTake; rw [← String.length_toList, String.toList_ofList, List.length_take]; omega
      have lb : (strDrop t 2).length ≤ 2 := by
        unfold strDrop; rw [← String.length_toList, String.toList_ofList, List.length_drop, String.length_toList]; omega
      have := pyInt_le_99 _ a la ha
      have := pyInt_le_99 _ b lb hb
      simp only [OffSp.val]; omega
  | colon a b =>
      obtain ⟨ha, hb, _, la, lb⟩ := h
      have := pyInt_le_99 a.tok a.val la ha
      have := pyInt_le_99 b.tok b.val lb hb
      simp only [OffSp.val]; omega

theorem off_bound (o : Off) (h : o.sp.Ok) : -362340 ≤ o.val ∧ o.val ≤ 362340 := by
  have := offsp_bound o.sp h
  unfold Off.val
  split <;> omega

theorem tdCheck_small (x : Int) (h : -400000 ≤ x ∧ x ≤ 400000) : tdCheck x = .ok () := by
  unfold tdCheck tdLimit
  rw [if_neg (by omega)]

/-- **tzstr_render.** For every well-formed spelling, `tzstr` of the rendered string succeeds with
    the zone of `specOf`; no residual hypotheses. -/
theorem tzstr_render_full (sp : Spelling) (posix : Bool) (wf : WellFormed sp) :
    ∃ z sd ed, tzstr (render sp) posix = .ok z ∧ z.hasdst = true ∧ z.stdOff = (specOf sp posix).stdOff ∧
      z.dstOff = (specOf sp posix).dstOff ∧ z.start = some sd ∧ z.«end» = some ed ∧
      delta (C08.attrOf (specOf sp posix).startRule (some (specOf sp posix).startTime)) false
        (specOf sp posix).stdOff (specOf sp posix).dstOff = .ok sd ∧
      delta (C08.attrOf (specOf sp posix).endRule (some (specOf sp posix).endTime)) true
        (specOf sp posix).stdOff (specOf sp posix).dstOff = .ok ed ∧
      z.stdAbbr = some sp.std ∧ z.dstAbbr = some sp.dst := by
  have b1 := off_bound sp.stdOff wf.stdOff
  have hs : -362340 ≤ sp.stdVal posix ∧ sp.stdVal posix ≤ 362340 := by
    unfold Spelling.stdVal; split <;> omega
  have hd : -400000 ≤ sp.dstVal posix ∧ sp.dstVal posix ≤ 400000 := by
    unfold Spelling.dstVal
    cases hdo : sp.dstOff with
    | none => simp only; omega
    | some o =>
        have hok : o.sp.Ok := by have := wf.dstOff; rw [hdo] at this; exact this
        have := off_bound o hok
        simp only; omega
  have nn : ∀ (r : RuleSp), r.Ok → ∀ n, r = .N n → 0 ≤ n.val := by
    intro r hr n e; subst e; exact pyInt_nonneg n.tok n.val hr.1
  obtain ⟨sd, hsd, htr⟩ := delta_ok sp.startRule wf.startRule (nn _ wf.startRule) (sp.startTime.map TimeSp.val) false
    (sp.stdVal posix) (sp.dstVal posix)
  obtain ⟨ed, hed, _⟩ := delta_ok sp.endRule wf.endRule (nn _ wf.endRule) (sp.endTime.map TimeSp.val) true
    (sp.stdVal posix) (sp.dstVal posix)
  obtain ⟨z, h⟩ := tzstr_render_partial sp posix wf (tdCheck_small _ (by omega)) (tdCheck_small _ hd) sd ed hsd htr hed
  exact ⟨z, sd, ed, h⟩

end TzStr
