/-
  Proofs/GenericICal.lean — `ICal.Generic` (Model/ICal.lean) is `TZ.GenericZone` (Model/Zones.lean);
  a two-component VTIMEZONE inside a cycle satisfies the hypotheses of `GenericZone.roundtrip`, so
  tzical's `fromutc` round-trips there (C04 for tzical at the model level).
-/
import DateutilVerif.Proofs.GenericZone
import DateutilVerif.Proofs.ICal

namespace ICal
open TZ

/-- the same zone in the vocabulary of Model/Zones.lean -/
def Generic.toZone (g : Generic) : GenericZone :=
  { utcoffset := fun w => g.utcoffset w.wall w.fold, dst := fun w => g.dst w.wall w.fold }

theorem Generic.fromutc_eq (g : Generic) (t : Int) :
    g.fromutc t = ((g.toZone.fromutc t).wall, (g.toZone.fromutc t).fold) := by
  unfold Generic.fromutc GenericZone.fromutc GenericZone.fromutcWall GenericZone.foldStatus
    GenericZone.isAmbiguous Generic.isAmbiguous Generic.toZone
  rfl

theorem two_comp_idx (a b : ZComp) (w : Int) (fold : Bool) :
    findCompIdx [a, b] w fold = 0 ∨ findCompIdx [a, b] w fold = 1 := by
  rw [select_two]
  cases findCompdt a w fold <;> cases findCompdt b w fold <;> simp
  · cases a.isdst <;> cases b.isdst <;> simp
  · rename_i da db; by_cases h : da < db <;> simp [h] <;> omega

/-- STANDARD first, DAYLIGHT second: `utcoffset − dst` is the standard offset at every reading -/
theorem two_comp_std (a b : ZComp) (ha : a.isdst = false) (hb : b.isdst = true)
    (hab : b.tzoffsetfrom = a.tzoffsetto) (w : Int) (fold : Bool) :
    utcoffset [a, b] w fold - dst [a, b] w fold = a.tzoffsetto := by
  unfold utcoffset dst
  rcases two_comp_idx a b w fold with h | h <;> rw [h] <;> simp [ZComp.diff, ha, hb] <;> omega

/-- **tzical round trip inside a cycle** (hypotheses of `two_comp_cycle`, for every wall time of the
    cycle): `fromutc` reports `utcoffset = wall − utc` and converts back. -/
theorem roundtrip_two_comp (S D : List Int) (stdOff dstOff on off nextOn t : Int)
    (hsav : stdOff < dstOff) (h1 : on < off) (h2 : off + (dstOff - stdOff) ≤ nextOn)
    (H1 : ∀ x, on ≤ x → x < nextOn → lastLE D x = some on)
    (H2 : ∀ x, on ≤ x → x < off + (dstOff - stdOff) → ∀ p, lastLE S x = some p → p < on)
    (H3 : ∀ x, off + (dstOff - stdOff) ≤ x → x < nextOn + (dstOff - stdOff) → lastLE S x = some (off + (dstOff - stdOff)))
    (hx1 : on ≤ t + stdOff) (hx2 : t + stdOff < nextOn) :
    let g := (generic [{ tzoffsetfrom := dstOff, tzoffsetto := stdOff, isdst := false, onsets := S : ZComp },
                       { tzoffsetfrom := stdOff, tzoffsetto := dstOff, isdst := true, onsets := D : ZComp }])
    g.utcoffset (g.fromutc t).1 (g.fromutc t).2 = (g.fromutc t).1 - t ∧
    (g.fromutc t).1 = (if t + stdOff < off then t + dstOff else t + stdOff) := by
  intro g
  have hsem : GenericZone.CycleSem g.toZone stdOff (dstOff - stdOff) off on nextOn := by
    intro w fold hw1 hw2
    obtain ⟨_, e1, e2⟩ := two_comp_cycle S D stdOff dstOff on off nextOn w fold hsav h1 h2 hw1 hw2 H1 H2 H3
    have ec : GenericZone.cycleIsDst off (dstOff - stdOff) w fold = cycleIsDst off (dstOff - stdOff) w fold := rfl
    refine ⟨?_, ?_⟩
    · show utcoffset _ w fold = _
      rw [e1, ec]; split <;> omega
    · show dst _ w fold = _
      rw [e2, ec]
  have hamb := fun w a c => GenericZone.isAmbiguous_of_sem g.toZone stdOff (dstOff - stdOff) off on nextOn
    (by omega) rfl hsem w a c
  have h0 : g.toZone.utcoffset ⟨t, false⟩ - g.toZone.dst ⟨t, false⟩ = stdOff :=
    two_comp_std _ _ rfl rfl rfl t false
  obtain ⟨r1, _, r3, _⟩ := GenericZone.roundtrip g.toZone stdOff (dstOff - stdOff) off on nextOn t (by omega)
    hsem hamb h0 hx1 hx2 (by omega)
  rw [Generic.fromutc_eq]
  refine ⟨r1, ?_⟩
  show (g.toZone.fromutc t).wall = _
  rw [r3]; split <;> omega

end ICal
