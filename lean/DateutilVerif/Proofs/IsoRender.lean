/- Proofs/IsoRender.lean — `_calculate_weekdate`, `_parse_isodate` on every date form, and the inverse law.  -/
import DateutilVerif.Proofs.IsoWeek
import DateutilVerif.Proofs.IsoRenderDate
import DateutilVerif.Proofs.IsoRenderTime
import DateutilVerif.Proofs.Time
set_option linter.unusedSimpArgs false
namespace Iso
open Cal IsoSpec

theorem fromOrdinal_valid (o : Int) (h1 : 1 ≤ o) (h2 : o ≤ maxOrdinal) :
    ValidDate (fromOrdinal o).1 (fromOrdinal o).2.1 (fromOrdinal o).2.2 := by
  have ⟨e, v, hy⟩ := toOrdinal_fromOrdinal o h1
  refine ⟨hy, ?_, v⟩
  by_cases c : (fromOrdinal o).1 ≤ 9999
  · exact c
  · have := toOrdinal_lt_of_lex 9999 12 31 _ _ _ (by decide) v (Or.inl (by omega))
    have e2 : toOrdinal 9999 12 31 = maxOrdinal := by decide
    omega

theorem calculateWeekdate_ok (y w d : Int) (hy : 1 ≤ y ∧ y ≤ 9999) (hw : 1 ≤ w ∧ w ≤ 53)
    (hd : 1 ≤ d ∧ d ≤ 7) (hr : isoWeek1Monday y + (w - 1) * 7 + (d - 1) ≤ maxOrdinal)
    (hs : w ≤ isoWeeksInYear y) :
    calculateWeekdate y w d = .ok (fromOrdinal (isoWeek1Monday y + (w - 1) * 7 + (d - 1))) := by
  have hp := w1_pos y hy.1
  have hj := jan4_week1 y
  have hv : validDate y 1 4 = true := by
    simp [validDate, ValidDate, ValidYMD, daysInMonth]; omega
  have hw1 : isoWeek1Monday y ≤ maxOrdinal := by omega
  obtain ⟨o, ho⟩ : ∃ o, o = isoWeek1Monday y + (w - 1) * 7 + (d - 1) := ⟨_, rfl⟩
  rw [← ho] at hr ⊢
  have ho1 : 1 ≤ o := by omega
  have h53 : w = 53 → (isoCalendar (fromOrdinal o).1 (fromOrdinal o).2.1 (fromOrdinal o).2.2).2.1 = 53 := by
    intro hw53
    have ⟨e, v, _⟩ := toOrdinal_fromOrdinal o ho1
    have hlt : o < isoWeek1Monday (y + 1) := by
      unfold isoWeeksInYear at hs; omega
    rw [isoCalendar_of_week y _ _ _ v (by rw [e]; omega) (by rw [e]; exact hlt), e]
    dsimp only; omega
  unfold calculateWeekdate
  rw [if_neg (by omega), if_neg (by omega)]
  simp only [mkDateOrd, hv, if_true, bind, Except.bind, hj, ordChecked]
  rw [if_neg (by omega)]
  simp only [overflowToValue]
  rw [show isoWeek1Monday y + ((w - 1) * 7 + (d - 1)) = o by omega]
  rw [if_neg (by omega)]
  simp only []
  rw [if_neg (by intro ⟨a, b⟩; exact b (h53 a))]


theorem parseIsodate_render (df : DateForm) (x : Fields) (t : Bytes)
    (hwf : dateWF true df x = true) (hr1 : 1 ≤ dateOrdinal df x) (hr2 : dateOrdinal df x ≤ maxOrdinal)
    (ht : df = .ordBas → TailOK t) (hc : df.complete = true ∨ t = []) :
    parseIsodate (renderDate df x ++ t) = .ok (fromOrdinal (dateOrdinal df x), t) := by
  cases df with
  | calExt =>
    simp only [dateWF, decide_eq_true_eq] at hwf
    obtain ⟨hy1, hy2, hv⟩ := hwf
    have hb := daysInMonth_bounds x.year x.a
    obtain ⟨m1, m12, d1, dd⟩ := hv
    simp only [parseIsodate, common_calExt x t (by omega) (by omega) (by omega), dateOrdinal]
    rw [fromOrdinal_toOrdinal _ _ _ (by omega) ⟨m1, m12, d1, dd⟩]
  | calBas =>
    simp only [dateWF, decide_eq_true_eq] at hwf
    obtain ⟨hy1, hy2, hv⟩ := hwf
    have hb := daysInMonth_bounds x.year x.a
    obtain ⟨m1, m12, d1, dd⟩ := hv
    simp only [parseIsodate, common_calBas x t (by omega) (by omega) (by omega), dateOrdinal]
    rw [fromOrdinal_toOrdinal _ _ _ (by omega) ⟨m1, m12, d1, dd⟩]
  | year =>
    simp [DateForm.complete] at hc; subst hc
    simp [dateWF] at hwf
    simp only [parseIsodate, List.append_nil, common_year x (by omega), dateOrdinal]
    rw [fromOrdinal_toOrdinal _ _ _ (by omega) (by simp [ValidYMD, daysInMonth])]
  | yearMonth =>
    simp [DateForm.complete] at hc; subst hc
    simp [dateWF] at hwf
    have hb := daysInMonth_bounds x.year x.a
    simp only [parseIsodate, List.append_nil, common_yearMonth x (by omega) (by omega), dateOrdinal]
    rw [fromOrdinal_toOrdinal _ _ _ (by omega) ⟨by omega, by omega, by omega, by omega⟩]
  | weekExtD =>
    simp [dateWF] at hwf
    simp only [dateOrdinal] at hr1 hr2 ⊢
    simp only [parseIsodate, common_weekExtD x t (by omega), uncommon_weekExtD x t (by omega) (by omega) (by omega)]
    rw [calculateWeekdate_ok _ _ _ (by omega) (by omega) (by omega) hr2 hwf.2]; rfl
  | weekBasD =>
    simp [dateWF] at hwf
    simp only [dateOrdinal] at hr1 hr2 ⊢
    simp only [parseIsodate, common_weekBasD x t (by omega), uncommon_weekBasD x t (by omega) (by omega) (by omega)]
    rw [calculateWeekdate_ok _ _ _ (by omega) (by omega) (by omega) hr2 hwf.2]; rfl
  | weekExt =>
    simp [DateForm.complete] at hc; subst hc
    simp [dateWF] at hwf
    simp only [dateOrdinal] at hr1 hr2 ⊢
    simp only [parseIsodate, List.append_nil, common_weekExt x (by omega), uncommon_weekExt x (by omega) (by omega)]
    rw [calculateWeekdate_ok _ _ _ (by omega) (by omega) (by omega) (by omega) hwf.2]
    simp [Except.bind]
  | weekBas =>
    simp [DateForm.complete] at hc; subst hc
    simp [dateWF] at hwf
    simp only [dateOrdinal] at hr1 hr2 ⊢
    simp only [parseIsodate, List.append_nil, common_weekBas x (by omega), uncommon_weekBas x (by omega) (by omega)]
    rw [calculateWeekdate_ok _ _ _ (by omega) (by omega) (by omega) (by omega) hwf.2]
    simp [Except.bind]
  | ordExt =>
    simp [dateWF] at hwf
    simp only [dateOrdinal] at hr1 hr2 ⊢
    have hdy : daysInYear x.year = 365 + (if isLeap x.year then 1 else 0) := by
      unfold daysInYear; split <;> simp
    have hv : validDate x.year 1 1 = true := by
      simp [validDate, ValidDate, ValidYMD, daysInMonth]; omega
    simp only [parseIsodate, common_ordExt x t (by omega), uncommon_ordExt x t (by omega) (by omega), ordinalResult]
    rw [if_neg (by omega)]
    simp only [mkDateOrd, hv, if_true, Except.bind, ordChecked]
    rw [if_neg (by omega)]
  | ordBas =>
    simp [dateWF] at hwf
    simp only [dateOrdinal] at hr1 hr2 ⊢
    have hdy : daysInYear x.year = 365 + (if isLeap x.year then 1 else 0) := by
      unfold daysInYear; split <;> simp
    have hv : validDate x.year 1 1 = true := by
      simp [validDate, ValidDate, ValidYMD, daysInMonth]; omega
    simp only [parseIsodate, common_ordBas x t (ht rfl) (by omega), uncommon_ordBas x t (by omega) (by omega), ordinalResult]
    rw [if_neg (by omega)]
    simp only [mkDateOrd, hv, if_true, Except.bind, ordChecked]
    rw [if_neg (by omega)]

theorem foldl_digits_lt (l : List Nat) (hd : ∀ d ∈ l, d ≤ 9) (acc : Nat) :
    l.foldl (fun acc d => acc * 10 + d) acc < (acc + 1) * 10 ^ l.length := by
  induction l generalizing acc with
  | nil => simp
  | cons d l ih =>
    have h9 : d ≤ 9 := hd d (by simp)
    have := ih (fun e he => hd e (by simp [he])) (acc * 10 + d)
    simp only [List.foldl_cons, List.length_cons]
    calc _ < (acc * 10 + d + 1) * 10 ^ l.length := this
      _ ≤ ((acc + 1) * 10) * 10 ^ l.length := Nat.mul_le_mul_right _ (by omega)
      _ = (acc + 1) * 10 ^ (l.length + 1) := by rw [Nat.pow_succ, Nat.mul_assoc, Nat.mul_comm 10]

theorem fracMicros_lt (ds : List Nat) (hd : ∀ d ∈ ds, d ≤ 9) : fracMicros ds < 1000000 := by
  unfold fracMicros
  have h1 := foldl_digits_lt (ds.take 6) (fun d h => hd d (List.mem_of_mem_take h)) 0
  have hl : (ds.take 6).length ≤ 6 := by simp [List.length_take]; omega
  generalize (ds.take 6).foldl (fun acc d => acc * 10 + d) 0 = v at *
  generalize (ds.take 6).length = k at *
  have : v * 10 ^ (6 - k) < 10 ^ k * 10 ^ (6 - k) := by
    apply Nat.mul_lt_mul_of_pos_right (by simpa using h1) (Nat.pow_pos (by decide))
  rw [← Nat.pow_add, show k + (6 - k) = 6 by omega] at this
  simpa using this

theorem dateOrdinal_pos (df : DateForm) (x : Fields) (h : dateWF true df x = true) : 1 ≤ dateOrdinal df x := by
  cases df <;> simp only [dateWF, decide_eq_true_eq, Bool.and_eq_true] at h <;> simp only [dateOrdinal]
  · exact toOrdinal_pos _ _ _ h.1 h.2.2
  · exact toOrdinal_pos _ _ _ h.1 h.2.2
  · exact toOrdinal_pos _ _ _ (by omega) (by simp [ValidYMD, daysInMonth])
  · have hb := daysInMonth_bounds x.year x.a
    exact toOrdinal_pos _ _ _ (by omega) ⟨by omega, by omega, by omega, by omega⟩
  · have := w1_pos x.year (by omega); omega
  · have := w1_pos x.year (by omega); omega
  · have := w1_pos x.year (by omega); omega
  · have := w1_pos x.year (by omega); omega
  · have := toOrdinal_pos x.year 1 1 (by omega) (by simp [ValidYMD, daysInMonth]); omega
  · have := toOrdinal_pos x.year 1 1 (by omega) (by simp [ValidYMD, daysInMonth]); omega

/-- midnight + one day -/
theorem addDays_midnight (y m d : Int) (hv : ValidDate y m d) (hr : toOrdinal y m d + 1 ≤ maxOrdinal) :
    DT.addDays { y, m, d, hh := 0, mm := 0, ss := 0, us := 0 } 1 =
      .ok { y := (fromOrdinal (toOrdinal y m d + 1)).1, m := (fromOrdinal (toOrdinal y m d + 1)).2.1,
            d := (fromOrdinal (toOrdinal y m d + 1)).2.2, hh := 0, mm := 0, ss := 0, us := 0 } := by
  have hp := toOrdinal_pos y m d hv.1 hv.2.2
  have hx : ({ y, m, d, hh := 0, mm := 0, ss := 0, us := 0 } : DT).toMicros + 1 * DT.usPerDay
      = (toOrdinal y m d + 1) * DT.usPerDay := by
    simp only [DT.toMicros, DT.ordinal, DT.timeMicros, DT.usPerDay]; omega
  unfold DT.addDays DT.addMicros
  dsimp only
  rw [hx]
  unfold maxOrdinal at hr
  split
  · rename_i h; exfalso
    simp only [DT.minMicros, DT.maxMicros, DT.usPerDay, maxOrdinal] at h; omega
  · unfold DT.ofMicros
    have q : (toOrdinal y m d + 1) * DT.usPerDay / DT.usPerDay = toOrdinal y m d + 1 := by unfold DT.usPerDay; omega
    have r : (toOrdinal y m d + 1) * DT.usPerDay % DT.usPerDay = 0 := by unfold DT.usPerDay; omega
    simp only [q, r]
    rfl


theorem mkDatetime_ok (y m d hh mm ss us : Int) (tz : Option Off) (hv : ValidDate y m d)
    (h : 0 ≤ hh ∧ hh ≤ 23 ∧ 0 ≤ mm ∧ mm ≤ 59 ∧ 0 ≤ ss ∧ ss ≤ 59 ∧ 0 ≤ us ∧ us ≤ 999999) :
    mkDatetime y m d hh mm ss us tz = .ok ⟨{ y, m, d, hh, mm, ss, us }, tz⟩ := by
  unfold mkDatetime
  have : ({ y, m, d, hh, mm, ss, us } : DT).valid = true := by
    simp only [DT.valid, decide_eq_true_eq]; exact ⟨hv, h⟩
  simp [this]

theorem isoparse_render_core (f : IsoForm) (x : Fields) (cfg : Option Nat)
    (hw : WFields f x) (hsep : f.time ≠ .none → f.date = .ordBas → isDigit f.sep = false)
    (hcfg : cfg = none ∨ cfg = some f.sep) :
    isoparse cfg (render f x) = .ok (denote f x) := by
  unfold WFields WFieldsB at hw
  simp only [Bool.and_eq_true, decide_eq_true_eq] at hw
  obtain ⟨⟨⟨⟨hok, hdw⟩, htw⟩, how⟩, hr1, hr2⟩ := hw
  have hdp := dateOrdinal_pos f.date x hdw
  obtain ⟨df, tf, of, sep⟩ := f
  dsimp only at *
  by_cases htn : tf = .none
  · subst htn
    have hof : of = .naive := by
      simp [IsoForm.ok] at hok; exact hok
    subst hof
    simp only [denoteOrdinal, timeShown] at hr1 hr2
    simp at hr1 hr2
    have hp := parseIsodate_render df x [] hdw hdp hr2 (fun _ => Or.inl rfl) (Or.inr rfl)
    rw [List.append_nil] at hp
    have hv := fromOrdinal_valid _ hdp hr2
    simp only [isoparse, render, hp, bind, Except.bind]
    simp only [ne_eq, not_true_eq_false, if_false]
    rw [mkDatetime_ok _ _ _ _ _ _ _ _ hv (by omega)]
    simp [denote, denoteOrdinal, timeShown, offDenote, TimeForm.hasM, TimeForm.hasS, TimeForm.hasFrac]
  · have hcomp : df.complete = true := by
      simp [IsoForm.ok, htn] at hok; exact hok
    have hsd := hsep htn
    have hot := offTail_render of x how
    have hpt := parseIsotime_render tf x _ _ htn htw hot
    have hrd : dateOrdinal df x ≤ maxOrdinal := by
      simp only [denoteOrdinal] at hr2; split at hr2 <;> omega
    have hp := parseIsodate_render df x (sep :: (renderTime tf x ++ renderOff of x)) hdw hdp hrd
      (fun hd => Or.inr ⟨sep, _, rfl, hsd hd⟩) (Or.inl hcomp)
    have hv := fromOrdinal_valid _ hdp hrd
    have hrend : render ⟨df, tf, of, sep⟩ x =
        renderDate df x ++ (sep :: (renderTime tf x ++ renderOff of x)) := by
      cases tf <;> first | exact absurd rfl htn | simp [render]
    have hsepok : cfg = none ∨ List.take 1 (sep :: (renderTime tf x ++ renderOff of x)) = cfg.toList := by
      rcases hcfg with h | h
      · exact Or.inl h
      · right; subst h; simp
    simp only [isoparse, hrend, hp, bind, Except.bind]
    rw [if_pos (by simp), if_pos hsepok]
    simp only [List.drop_succ_cons, List.drop_zero, hpt]
    have htw' := htw
    simp only [timeWF, Bool.and_eq_true, Bool.or_eq_true, decide_eq_true_eq] at htw'
    obtain ⟨hrange, hfr⟩ := htw'
    have hus : (timeShown tf x).2.2.2 < 1000000 := by
      simp only [timeShown]
      split
      · rename_i hf
        simp [hf] at hfr
        exact fracMicros_lt _ (fun d hd => by simpa using hfr.2 d hd)
      · omega
    simp only [denote, denoteOrdinal] at hr1 hr2 ⊢
    generalize timeShown tf x = ts at *
    obtain ⟨h, mi, s, us⟩ := ts
    simp only [] at hrange hus hr1 hr2 hpt ⊢
    by_cases h24 : h = 24
    · have hz : mi = 0 ∧ s = 0 ∧ us = 0 := by rcases hrange with g | g <;> omega
      obtain ⟨rfl, rfl, rfl⟩ := hz; subst h24
      have hr2' : toOrdinal (fromOrdinal (dateOrdinal df x)).1 (fromOrdinal (dateOrdinal df x)).2.1
          (fromOrdinal (dateOrdinal df x)).2.2 + 1 ≤ maxOrdinal := by
        rw [(toOrdinal_fromOrdinal _ hdp).1]
        simpa using hr2
      rw [if_pos (by simp)]
      simp only [Int.natCast_zero]
      rw [mkDatetime_ok _ _ _ _ _ _ _ _ hv (by omega)]
      simp only [addDays_midnight _ _ _ hv hr2', overflowToValue, (toOrdinal_fromOrdinal _ hdp).1]
      simp
    · have hlt : h ≤ 23 ∧ mi ≤ 59 ∧ s ≤ 59 := by
        rcases hrange with g | g
        · exact g
        · exact absurd g.1 h24
      rw [if_neg (by omega)]
      rw [mkDatetime_ok _ _ _ _ _ _ _ _ hv (by omega)]
      simp [h24]

end Iso
