/-
  Proofs/ScanPy.lean — the loops of the query methods as translated from rrule.py (Generated/RRBaseQueries.lean,
  meaning: Model/ScanPy.lean) run exactly like the loops of Model/Queries.lean: one lemma per method, by induction over
  the values the iterator yields with the loop-carried locals generalised (C12 `gen_*_eq_model`).
-/
import DateutilVerif.Generated.RRBaseQueries

namespace ScanPy
open Queries
theorem before_aux (dt : Int) (inc : Bool) (xs : List Int) (s : St) :
    runLoop Gen.rrbase_before { dt := dt, inc := inc } (bodyOf Gen.rrbase_before { dt := dt, inc := inc }) xs s =
      (none, { s with last := beforeLoop dt inc xs s.last }) := by
  cases inc <;> simp only [bodyOf, Gen.rrbase_before, Bool.false_eq_true, ↓reduceIte]
  all_goals (
    induction xs generalizing s with
    | nil => simp [runLoop, beforeLoop]
    | cons i xs ih =>
      by_cases h1 : dt < i <;> by_cases h2 : dt ≤ i <;>
        simp [runLoop, runL, runS, evalCond, evalCmp, Env.par, beforeLoop, h1, h2, ih] <;> omega)

theorem after_aux (dt : Int) (inc : Bool) (xs : List Int) (s : St) :
    runLoop Gen.rrbase_after { dt := dt, inc := inc } (bodyOf Gen.rrbase_after { dt := dt, inc := inc }) xs s =
      ((afterLoop dt inc xs).map (fun v => Res.val (some v)), s) := by
  cases inc <;> simp only [bodyOf, Gen.rrbase_after, Bool.false_eq_true, ↓reduceIte]
  all_goals (
    induction xs generalizing s with
    | nil => simp [runLoop, afterLoop]
    | cons i xs ih =>
      by_cases h1 : dt < i <;> by_cases h2 : dt ≤ i <;>
        simp [runLoop, runL, runS, evalCond, evalCmp, Env.par, afterLoop, h1, h2, ih] <;> omega)

theorem between_aux (a b : Int) (inc : Bool) (xs : List Int) (s : St) :
    (runLoop Gen.rrbase_between { after := a, before := b, inc := inc } (bodyOf Gen.rrbase_between { after := a, before := b, inc := inc }) xs s).1 = none ∧
    (runLoop Gen.rrbase_between { after := a, before := b, inc := inc } (bodyOf Gen.rrbase_between { after := a, before := b, inc := inc }) xs s).2.acc =
      s.acc ++ betweenLoop a b inc xs s.started := by
  cases inc <;> simp only [bodyOf, Gen.rrbase_between, Bool.false_eq_true, ↓reduceIte]
  all_goals (
    induction xs generalizing s with
    | nil => simp [runLoop, betweenLoop]
    | cons i xs ih =>
      cases hst : s.started <;>
      by_cases h1 : b < i <;> by_cases h2 : b ≤ i <;> by_cases h3 : a < i <;> by_cases h4 : a ≤ i <;>
        simp [runLoop, runL, runS, evalCond, evalCmp, Env.par, betweenLoop, h1, h2, h3, h4, hst, ih] <;> omega)

theorem xafter_aux (dt : Int) (count : Option Int) (inc : Bool) (xs : List Int) (s : St) :
    (runLoop Gen.rrbase_xafter { dt := dt, count := count, inc := inc } (bodyOf Gen.rrbase_xafter { dt := dt, count := count, inc := inc }) xs s).1 = none ∧
    (runLoop Gen.rrbase_xafter { dt := dt, count := count, inc := inc } (bodyOf Gen.rrbase_xafter { dt := dt, count := count, inc := inc }) xs s).2.acc =
      s.acc ++ xafterLoop dt count inc xs s.n := by
  simp only [bodyOf, Gen.rrbase_xafter]
  induction xs generalizing s with
  | nil => simp [runLoop, xafterLoop]
  | cons i xs ih =>
    cases inc <;> cases count <;>
    by_cases h1 : dt < i <;> by_cases h2 : dt ≤ i <;>
      simp [runLoop, runL, runS, evalCond, evalCmp, Env.par, xafterLoop, h1, h2, ih] <;> (try omega)
    all_goals (
      rename_i c
      by_cases h3 : c < s.n + 1 <;> simp [h3, ih])

theorem contains_aux (item : Int) (xs : List Int) (s : St) :
    runLoop Gen.rrbase_contains { item := item } (bodyOf Gen.rrbase_contains { item := item }) xs s =
      (if containsLoop item xs then some (.bool true) else if xs.any (fun i => decide (i > item)) then some (.bool false) else none, s) := by
  simp only [bodyOf, Gen.rrbase_contains]
  induction xs generalizing s with
  | nil => simp [runLoop, containsLoop]
  | cons i xs ih =>
    by_cases h1 : i = item <;> by_cases h2 : item < i <;>
      simp [runLoop, runL, runS, evalCond, evalCmp, Env.par, containsLoop, h1, h2, ih] <;> (try omega)

end ScanPy
