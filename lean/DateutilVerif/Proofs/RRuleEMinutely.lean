/-
  Proofs/RRuleEMinutely.lean — Proofs/RRuleMinutely.lean with BYEASTER (complement of D-C01d: offsets −80..250,
  visited days inside 1583..4099, no BYWEEKNO) instead of "no BYEASTER": the same refinement over the BY-filter
  abstraction of Proofs/RRuleEFilter.lean.  The lemmas of Proofs/RRuleMinutely.lean that do not mention the
  argument class are used from there.
-/
import DateutilVerif.Proofs.RRuleEFilter
import DateutilVerif.Proofs.RRuleMinutely
import DateutilVerif.Proofs.RRuleEHourly

namespace RRule
open Cal

structure MinutelyEArgs (a : Args) : Prop where
  freq : a.freq = 5
  interval : 1 ≤ a.interval
  valid : a.dtstart.Valid
  byweekno : a.byweekno = none
  easter : ∃ el, a.byeaster = some el ∧ el ≠ [] ∧ ∀ o ∈ el, -80 ≤ o ∧ o ≤ 250
  monthday_nz : ∀ x ∈ a.bymonthday.getD [], x ≠ 0
  byhour : a.byhour = none
  byminute : a.byminute = none
  seconds_ok : ∀ x ∈ a.bysecond.getD [], 0 ≤ x ∧ x ≤ 59

variable {a : Args} {r : Rule}

theorem mae_dw (ma : MinutelyEArgs a) : DWArgs (asDailyE a) :=
  ⟨Or.inr rfl, ma.interval, ma.valid, ma.byweekno, rfl, ma.monthday_nz⟩

abbrev minutelyERuleOf (a : Args) (bs : Option (List Int)) : Rule :=
  { freq := a.freq, interval := a.interval, wkst := a.wkst.getD 0,
    dtstart := { a.dtstart with us := 0 }, tz := a.tz, count := a.count, untilDT := a.untilDT,
    bysetpos := a.bysetpos, bymonth := a.bymonth.map sortedSet, bymonthday := bymonthdayOf a,
    bynmonthday := bynmonthdayOf a, byyearday := a.byyearday.map sortedSet,
    byeaster := a.byeaster.map (sortBy ltInt), byweekno := none,
    byweekday := byweekdayOf a, bynweekday := bynweekdayOf a,
    byhour := none, byminute := none, bysecond := bs, timeset := none }

theorem mlye_rule (ma : MinutelyEArgs a) (h : construct a = .ok r) :
    ∃ bs, r = minutelyERuleOf a bs ∧
      normUnit a.freq 6 a.interval a.dtstart.ss a.bysecond 60 = .ok bs := by
  obtain ⟨sp, bh, bm, bs, ts, h1, h2, h3, h4, h5, rfl⟩ := construct_ok a r h
  have hsp := (normBysetpos_ok a sp h1).1
  subst hsp
  have hbh : bh = none := by
    unfold normUnit at h2
    rw [ma.byhour] at h2
    dsimp only at h2
    rw [if_neg (by rw [ma.freq]; omega)] at h2
    injection h2 with h2; exact h2.symm
  have hbm : bm = none := by
    unfold normUnit at h3
    rw [ma.byminute] at h3
    dsimp only at h3
    rw [if_neg (by rw [ma.freq]; omega)] at h3
    injection h3 with h3; exact h3.symm
  have hts : ts = none := by
    unfold timesetOf at h5
    rw [if_pos (by rw [ma.freq]; omega)] at h5
    injection h5 with h5; exact h5.symm
  subst hbh hbm hts
  have hne0 : (a.freq == 0) = false := by simp [ma.freq]
  exact ⟨bs, by simp [minutelyERuleOf, hne0, ma.byweekno, bymonthOf], h4⟩

theorem mlye_cuts (ma : MinutelyEArgs a) (h : construct a = .ok r) : CutsAgree a r := by
  obtain ⟨bs, hr, _⟩ := mlye_rule ma h
  rw [hr]; exact ⟨rfl, rfl, rfl⟩

theorem mlye_erule (ma : MinutelyEArgs a) (h : construct a = .ok r) : ERule r := by
  have hd := construct_nth_demoted a r h (by rw [ma.freq]; omega)
  obtain ⟨bs, hr, _⟩ := mlye_rule ma h
  rw [hr] at hd ⊢
  refine erule_of a _ ma.easter rfl rfl ?_
  dsimp only at hd ⊢
  rcases hd with hd | hd <;> rw [hd] <;> rfl

/-- **bridge**: the model's filter predicate is the specification's `dateOk` -/
theorem mlye_bridge (ma : MinutelyEArgs a) (h : construct a = .ok r) (ord : Int) (ho : 1 ≤ ord) :
    (simpleOk r ord && eclause r ord) = Spec.RRule.dateOk a ord := by
  obtain ⟨bs, hr, _⟩ := mlye_rule ma h
  rw [hr]
  exact eOk_eq_dateOk a _ (by rw [ma.freq]; omega) (mae_dw ma) ma.easter rfl rfl rfl rfl rfl rfl ord ho

/-- the minute's time set is the specification's -/
theorem mtimeset_spec_e (ma : MinutelyEArgs a) (h : construct a = .ok r) (hour minute : Int)
    (h0 : 0 ≤ hour) (h1 : hour ≤ 23) (m0 : 0 ≤ minute) (m1 : minute ≤ 59) :
    mtimeset r hour minute = .ok (Spec.RRule.timesOf a (some hour) (some minute) none) ∧
    TsOk (Spec.RRule.timesOf a (some hour) (some minute) none) := by
  obtain ⟨bs, hr, h4⟩ := mlye_rule ma h
  have n4 := normUnit_nodup _ _ _ _ _ _ _ h4
  have m4 := normUnit_mem _ _ _ _ _ _ _ (by rw [ma.freq]; omega) h4
  have hv := ma.valid
  unfold DT.Valid at hv
  have hvs : ∀ x ∈ bs.getD [], 0 ≤ x ∧ x ≤ 59 := by
    intro x hx
    have := (m4 x).mp hx
    cases hb : a.bysecond with
    | none => rw [hb] at this; simp at this; omega
    | some l => rw [hb] at this; exact ma.seconds_ok x (by rw [hb]; exact this)
  have hvalid : ∀ t ∈ productHMS [hour] [minute] (bs.getD []), ValidHMS t := by
    intro t ht
    rw [mem_productHMS] at ht
    obtain ⟨a1, a2, a3⟩ := ht
    simp at a1 a2
    have := hvs _ a3
    unfold ValidHMS; omega
  have hspec : Spec.RRule.timesOf a (some hour) (some minute) none =
      productHMS [hour] [minute] (specUnit a.bysecond a.dtstart.ss 60) := by
    unfold Spec.RRule.timesOf Spec.RRule.restrict Spec.RRule.hours Spec.RRule.minutes Spec.RRule.seconds
      productHMS specUnit
    rw [ma.byhour, ma.byminute]
    dsimp only
    rw [if_neg (show ¬ a.freq < 4 by rw [ma.freq]; omega), filter_eq_hour hour h0 h1,
        if_neg (show ¬ a.freq < 5 by rw [ma.freq]; omega), filter_eq_minute minute m0 m1,
        if_pos (by rw [ma.freq]; omega : a.freq < 6)]
    cases a.bysecond <;> rfl
  have hsorted := productHMS_sorted [hour] [minute] _ (by simp) (by simp)
    (specUnit_sorted a.bysecond a.dtstart.ss 60)
  have hsu : ∀ (arg : Option (List Int)) (start bound x : Int), 0 ≤ x → x < bound →
      (x ∈ specUnit arg start bound ↔ x ∈ (match arg with | some l => l | none => [start])) := by
    intro arg start bound x h0 h1
    unfold specUnit
    cases arg with
    | none => rfl
    | some l =>
      simp only [List.mem_filter, mem_intRange, List.contains_iff_mem]
      constructor
      · exact fun h => h.2
      · exact fun h => ⟨⟨h0, h1⟩, h⟩
  have hsu' : ∀ (arg : Option (List Int)) (start bound x : Int), x ∈ specUnit arg start bound →
      x ∈ (match arg with | some l => l | none => [start]) := by
    intro arg start bound x hx
    unfold specUnit at hx
    cases arg with
    | none => exact hx
    | some l =>
      simp only [List.mem_filter, List.contains_iff_mem] at hx
      exact hx.2
  have heq : sortBy ltHMS (productHMS [hour] [minute] (bs.getD [])) =
      productHMS [hour] [minute] (specUnit a.bysecond a.dtstart.ss 60) := by
    apply sorted_ext strictHMS
    · exact sortBy_pairwise strictHMS _ (fun _ _ => trivial) (productHMS_nodup _ _ _ (by simp) (by simp) n4)
    · exact hsorted
    · intro t
      rw [mem_sortBy, mem_productHMS, mem_productHMS]
      constructor
      · rintro ⟨a1, a2, a3⟩
        have v3 := hvs _ a3
        exact ⟨a1, a2, (hsu _ _ 60 _ v3.1 (by omega)).mpr ((m4 _).mp a3)⟩
      · rintro ⟨a1, a2, a3⟩
        exact ⟨a1, a2, (m4 _).mpr (hsu' _ _ _ _ a3)⟩
  constructor
  · unfold mtimeset buildTimeset
    rw [hr]
    dsimp only
    rw [checkTimes_of_valid _ hvalid]
    dsimp only
    rw [heq, hspec]
  · rw [hspec, ← heq]
    refine ⟨sortBy_pairwise strictHMS _ (fun _ _ => trivial) (productHMS_nodup _ _ _ (by simp) (by simp) n4), ?_⟩
    intro t ht
    rw [mem_sortBy] at ht
    exact hvalid t ht

/-- "the model state at the start of period `k`" for a MINUTELY rule -/
structure MinutelyEGood (a : Args) (r : Rule) (k : Nat) (st : State) : Prop where
  facts : YearFacts r st.cur.year st.info
  inv : EInv r st.info
  valid : ValidYMD st.cur.year st.cur.month st.cur.day
  hour : 0 ≤ st.cur.hour ∧ st.cur.hour ≤ 23
  minute : 0 ≤ st.cur.minute ∧ st.cur.minute ≤ 59
  idx : (curOrd st.cur * 24 + st.cur.hour) * 60 + st.cur.minute =
    (Spec.RRule.startOrd a * 24 + a.dtstart.hh) * 60 + a.dtstart.mm + k * a.interval
  timeset : st.timeset = Spec.RRule.timesOf a (some st.cur.hour) (some st.cur.minute) none

theorem mlye_span (ma : MinutelyEArgs a) (ord hour minute : Int) (k : Nat) (h0 : 0 ≤ hour) (h1 : hour ≤ 23)
    (m0 : 0 ≤ minute) (m1 : minute ≤ 59)
    (hu : (ord * 24 + hour) * 60 + minute =
      (Spec.RRule.startOrd a * 24 + a.dtstart.hh) * 60 + a.dtstart.mm + k * a.interval) :
    Spec.RRule.periodSpan a (k * a.interval) = (ord, ord + 1, some hour, some minute, none) := by
  unfold Spec.RRule.periodSpan
  rw [if_neg (by simp [ma.freq]), if_neg (by simp [ma.freq]), if_neg (by simp [ma.freq]),
      if_neg (by simp [ma.freq]), if_neg (by simp [ma.freq]), if_pos (by simp [ma.freq])]
  dsimp only
  rw [← hu]
  have e1 : ((ord * 24 + hour) * 60 + minute) / 1440 = ord := by omega
  have e2 : ((ord * 24 + hour) * 60 + minute) / 60 % 24 = hour := by omega
  have e3 : ((ord * 24 + hour) * 60 + minute) % 60 = minute := by omega
  rw [e1, e2, e3]

theorem mlye_results (ma : MinutelyEArgs a) (h : construct a = .ok r) (k : Nat) (st : State)
    (hg : MinutelyEGood a r k st) (hle : curOrd st.cur ≤ maxOrdinal) :
    ∃ fl, periodResults r st = .ok (Spec.RRule.sel a (k : Int), none, fl) ∧
      (fl = true → Spec.RRule.dateOk a (curOrd st.cur) = false) ∧
      ∀ x ∈ Spec.RRule.sel a (k : Int), 0 ≤ x.ord ∧ x.ord ≤ maxOrdinal := by
  have hw := mlye_erule ma h
  obtain ⟨bs, hr, _⟩ := mlye_rule ma h
  have hfreq : r.freq = 5 := by rw [hr]; exact ma.freq
  have hsp := construct_bysetpos a r h
  have htsok : TsOk st.timeset := by
    rw [hg.timeset]; exact (mtimeset_spec_e ma h _ _ hg.hour.1 hg.hour.2 hg.minute.1 hg.minute.2).2
  have hpos : 1 ≤ curOrd st.cur := toOrdinal_pos _ _ _ hg.facts.year_lo hg.valid
  obtain ⟨fl, hres, hflag⟩ := periodResults_day_e hw st hg.facts hg.inv hg.valid (by omega)
    (by rw [hsp.1]; exact hsp.2) htsok hle
  have hbridge : (intRange (curOrd st.cur) (curOrd st.cur + 1)).filter (fun o => simpleOk r o && eclause r o) =
      (intRange (curOrd st.cur) (curOrd st.cur + 1)).filter (Spec.RRule.dateOk a) := by
    apply List.filter_congr
    intro o ho
    exact mlye_bridge ma h o (by have := (mem_intRange _ _ _).mp ho; omega)
  have hspan := mlye_span ma (curOrd st.cur) st.cur.hour st.cur.minute k hg.hour.1 hg.hour.2 hg.minute.1 hg.minute.2 hg.idx
  have hsel := sel_span_gen a k _ _ _ _ _ hspan
  refine ⟨fl, ?_, ?_, ?_⟩
  · rw [hres, hg.timeset, hsel, hbridge, hsp.1]
  · intro hf
    rw [← mlye_bridge ma h _ hpos]
    exact hflag hf
  · intro x hx
    rw [hsel] at hx
    have := sel_bounds _ _ _ _ x (applySetpos_subset _ _ x hx)
    omega

/-- one `advance`: from minute-of-day `M + X` (after the optional jump `X = s·interval` inside the day) to
    the minute `interval` later -/
theorem mlye_advance_core (ma : MinutelyEArgs a) (h : construct a = .ok r) (k : Nat) (st : State) (fl : Bool)
    (c : Option Int) (hg : MinutelyEGood a r k st) (s : Nat) (X : Int) (hX : X = s * a.interval)
    (hX0 : 0 ≤ X) (hXle : X ≤ 1439 - (st.cur.hour * 60 + st.cur.minute))
    (hmin0 : (if fl = true then st.cur.minute +
        Py.fdiv (1439 - (st.cur.hour * 60 + st.cur.minute)) r.interval * r.interval else st.cur.minute) =
      st.cur.minute + X)
    (hle : curOrd st.cur * 1440 + 1439 + a.interval < (emaxOrd + 1) * 1440) :
    ∃ st', advance r { st with count := c } fl = .ok st' ∧ MinutelyEGood a r (k + s + 1) st' := by
  have hw := mlye_erule ma h
  obtain ⟨bs, hr, _⟩ := mlye_rule ma h
  have hfreq : r.freq = 5 := by rw [hr]; exact ma.freq
  have hint : r.interval = a.interval := by rw [hr]
  have hbh : r.byhour = none := by rw [hr]
  have hbm : r.byminute = none := by rw [hr]
  have hi := ma.interval
  obtain ⟨hm1, hm12, hd1, hd2⟩ := hg.valid
  have hh := hg.hour
  have hmm := hg.minute
  have hidx := hg.idx
  have ek : ((k + s + 1 : Nat) : Int) * a.interval = k * a.interval + X + a.interval := by
    rw [hX]; push_cast; rw [Int.add_mul, Int.add_mul]; omega
  obtain ⟨nh, hnh⟩ : ∃ nh, nh = (st.cur.minute + X + a.interval) / 60 := ⟨_, rfl⟩
  obtain ⟨mi', hmi'⟩ : ∃ mi', mi' = (st.cur.minute + X + a.interval) % 60 := ⟨_, rfl⟩
  obtain ⟨nd, hnd⟩ : ∃ nd, nd = (st.cur.hour + nh) / 24 := ⟨_, rfl⟩
  obtain ⟨hr', hhr'⟩ : ∃ hr', hr' = (st.cur.hour + nh) % 24 := ⟨_, rfl⟩
  have hdm : nh * 60 + mi' = st.cur.minute + X + a.interval ∧ 0 ≤ mi' ∧ mi' ≤ 59 ∧ 0 ≤ nh ∧
      nd * 24 + hr' = st.cur.hour + nh ∧ 0 ≤ hr' ∧ hr' ≤ 23 ∧ 0 ≤ nd := by omega
  obtain ⟨hts, _⟩ := mtimeset_spec_e ma h hr' mi' hdm.2.2.2.2.2.1 hdm.2.2.2.2.2.2.1 hdm.2.1 hdm.2.2.1
  have htn : truthy (none : Option (List Int)) = false := rfl
  obtain ⟨reps, hreps⟩ := reps_pos r.interval 1440 (by omega)
  unfold advance
  dsimp only
  rw [if_neg (by simp [hfreq]), if_neg (by simp [hfreq]), if_neg (by simp [hfreq]), if_neg (by simp [hfreq]),
      if_neg (by simp [hfreq]), if_pos (by simp [hfreq]), hmin0, hreps]
  unfold minutelyLoop
  rw [hbh, hbm, htn]
  simp only [Bool.false_eq_true, ↓reduceIte, Py.divmod, Py.fdiv_pos _ (by decide : (0 : Int) < 24),
    Py.fmod_pos _ (by decide : (0 : Int) < 24), Py.fdiv_pos _ (by decide : (0 : Int) < 60),
    Py.fmod_pos _ (by decide : (0 : Int) < 60), hint, Bool.not_false, Bool.true_or]
  rw [← hnh, ← hmi', ← hnd, ← hhr']
  unfold gettimeset
  rw [if_neg (by simp [hfreq]), if_pos (by simp [hfreq]), hts]
  dsimp only
  by_cases hz : nd = 0
  · subst hz
    simp only [ne_eq, not_true_eq_false, ↓reduceIte]
    rw [fixDay_false]
    refine ⟨_, rfl, ⟨hg.facts, hg.inv, hg.valid, ⟨hdm.2.2.2.2.2.1, hdm.2.2.2.2.2.2.1⟩, ⟨hdm.2.1, hdm.2.2.1⟩, ?_, rfl⟩⟩
    dsimp only
    have : curOrd { st.cur with hour := hr', minute := mi' } = curOrd st.cur := rfl
    rw [this, ek]; omega
  · simp only [ne_eq, hz, not_false_eq_true, ↓reduceIte]
    have hcur : curOrd { st.cur with day := st.cur.day + nd, hour := hr', minute := mi' } = curOrd st.cur + nd := by
      unfold curOrd toOrdinal; dsimp only; omega
    obtain ⟨st', hfix, hnw'⟩ := fixDay_ok_e hw
      { cur := { st.cur with day := st.cur.day + nd, hour := hr', minute := mi' }, info := st.info,
        timeset := Spec.RRule.timesOf a (some hr') (some mi') none, count := c }
      true hg.facts hm1 hm12 (by dsimp only; omega) (by dsimp only; rw [hcur]; omega) hg.inv
    have sp := fixDay_spec r _ st' hfix hm1 hm12 (by dsimp only; omega) hg.facts
    obtain ⟨e, v, f', eh, em, _, _, ts⟩ := sp
    refine ⟨st', hfix, ⟨f', hnw', v, by rw [eh]; exact ⟨hdm.2.2.2.2.2.1, hdm.2.2.2.2.2.2.1⟩,
      by rw [em]; exact ⟨hdm.2.1, hdm.2.2.1⟩, ?_, by rw [ts, eh, em]⟩⟩
    rw [e, eh, em]
    dsimp only
    rw [hcur, ek]; omega

theorem mlye_skip (ma : MinutelyEArgs a) (k : Nat) (st : State) (hg : MinutelyEGood a r k st)
    (hno : Spec.RRule.dateOk a (curOrd st.cur) = false) (j : Nat) (hkj : k < j)
    (hj : ((j : Int) - k) * a.interval ≤ 1439 - (st.cur.hour * 60 + st.cur.minute)) :
    Spec.RRule.sel a (j : Int) = [] := by
  have hi := ma.interval
  have hh := hg.hour
  have hmm := hg.minute
  have hpos : (0 : Int) ≤ ((j : Int) - k) * a.interval := Int.mul_nonneg (by omega) (by omega)
  generalize hM : st.cur.hour * 60 + st.cur.minute + ((j : Int) - k) * a.interval = M at *
  have hu : (curOrd st.cur * 24 + M / 60) * 60 + M % 60 =
      (Spec.RRule.startOrd a * 24 + a.dtstart.hh) * 60 + a.dtstart.mm + j * a.interval := by
    have := hg.idx
    have e : (j : Int) * a.interval = k * a.interval + ((j : Int) - k) * a.interval := by
      rw [← Int.add_mul]; congr 1; omega
    rw [e]; omega
  have hspan := mlye_span ma (curOrd st.cur) (M / 60) (M % 60) j (by omega) (by omega) (by omega) (by omega) hu
  rw [sel_span_gen a j _ _ _ _ _ hspan, intRange_one]
  simp only [List.filter_cons, hno, Bool.false_eq_true, ↓reduceIte, List.filter_nil, List.flatMap_nil]
  exact applySetpos_nil _

theorem mlye_next (ma : MinutelyEArgs a) (h : construct a = .ok r) (k : Nat) (st : State) (fl : Bool)
    (c : Option Int) (hg : MinutelyEGood a r k st)
    (hfl : fl = true → Spec.RRule.dateOk a (curOrd st.cur) = false)
    (hle : curOrd st.cur * 1440 + 1439 + a.interval < (emaxOrd + 1) * 1440) :
    ∃ st' k', advance r { st with count := c } fl = .ok st' ∧ k < k' ∧ k' ≤ k + 1440 ∧ MinutelyEGood a r k' st' ∧
      ∀ j : Nat, k < j → j < k' → Spec.RRule.sel a (j : Int) = [] := by
  obtain ⟨bs, hr, _⟩ := mlye_rule ma h
  have hint : r.interval = a.interval := by rw [hr]
  have hi := ma.interval
  have hh := hg.hour
  have hmm := hg.minute
  cases fl with
  | false =>
    obtain ⟨st', hadv, hg'⟩ := mlye_advance_core ma h k st false c hg 0 0 (by simp) (by omega) (by omega)
      (by simp) hle
    exact ⟨st', k + 0 + 1, hadv, by omega, by omega, hg', by intro j h1 h2; omega⟩
  | true =>
    generalize hR : 1439 - (st.cur.hour * 60 + st.cur.minute) = R at *
    have hR0 : 0 ≤ R := by omega
    have hq0 : 0 ≤ R / a.interval := Int.ediv_nonneg hR0 (by omega)
    have hqX : R / a.interval * a.interval ≤ R := Int.ediv_mul_le _ (by omega)
    have hq1 : R / a.interval * 1 ≤ R / a.interval * a.interval := Int.mul_le_mul_of_nonneg_left hi hq0
    have hcast : ((R / a.interval).toNat : Int) = R / a.interval := Int.toNat_of_nonneg hq0
    obtain ⟨st', hadv, hg'⟩ := mlye_advance_core ma h k st true c hg (R / a.interval).toNat
      (R / a.interval * a.interval) (by rw [hcast]) (Int.mul_nonneg hq0 (by omega)) (by rw [hR]; exact hqX)
      (by simp only [↓reduceIte]; rw [hR, Py.fdiv_pos _ (by omega), hint]) hle
    refine ⟨st', k + (R / a.interval).toNat + 1, hadv, by omega, by omega, hg', ?_⟩
    intro j h1 h2
    apply mlye_skip ma k st hg (hfl rfl) j h1
    have hjq : (j : Int) - k ≤ R / a.interval := by omega
    have := Int.mul_le_mul_of_nonneg_right hjq (show (0 : Int) ≤ a.interval by omega)
    omega

theorem mlye_init (ma : MinutelyEArgs a) (h : construct a = .ok r) (hlo : 1583 ≤ a.dtstart.y)
    (hhi : Spec.RRule.startOrd a ≤ emaxOrd) :
    ∃ st0, init r = .ok st0 ∧ MinutelyEGood a r 0 st0 ∧ st0.count = r.count := by
  have hw := mlye_erule ma h
  have hv := ma.valid
  unfold DT.Valid ValidDate at hv
  obtain ⟨info, hre, hnw⟩ := rebuild_e hw a.dtstart.y a.dtstart.m hlo (start_year_hi a ma.valid hhi)
  obtain ⟨bs, hr, _⟩ := mlye_rule ma h
  have hd : r.dtstart = { a.dtstart with us := 0 } := by rw [hr]
  have hf : r.freq = 5 := by rw [hr]; exact ma.freq
  have hbh : r.byhour = none := by rw [hr]
  have hbm : r.byminute = none := by rw [hr]
  obtain ⟨hts, _⟩ := mtimeset_spec_e ma h a.dtstart.hh a.dtstart.mm hv.2.1 hv.2.2.1 hv.2.2.2.1 hv.2.2.2.2.1
  refine ⟨{ cur := { year := a.dtstart.y, month := a.dtstart.m, day := a.dtstart.d, hour := a.dtstart.hh,
                     minute := a.dtstart.mm, second := a.dtstart.ss, weekday := r.dtstart.weekday },
            info := info, timeset := Spec.RRule.timesOf a (some a.dtstart.hh) (some a.dtstart.mm) none,
            count := r.count }, ?_, ?_, rfl⟩
  · unfold init gettimeset
    have htn : truthy (none : Option (List Int)) = false := rfl
    simp only [hd, bind, Except.bind, hre, hf, hbh, hbm, htn, hts, pure, Except.pure]
    rfl
  · refine ⟨rebuild_facts r _ _ info hre, hnw, hv.1.2.2, ⟨hv.2.1, hv.2.2.1⟩, ⟨hv.2.2.2.1, hv.2.2.2.2.1⟩, ?_, rfl⟩
    unfold curOrd Spec.RRule.startOrd DT.ordinal; simp

/-- **`iter_eq_spec_minutely_easter`**: `iter_eq_spec_minutely` with BYEASTER instead of "no BYEASTER" — offsets
    −80..250 (the complement of D-C01d), no BYWEEKNO, a start in a year ≥ 1583 and every visited day not after 31
    December 4099 (where C19 ties `easter.easter` to Meeus/Jones/Butcher); everything else as there, `n ≤ m ≤
    1440·n`. -/
theorem iter_eq_spec_minutely_easter (ma : MinutelyEArgs a) (h : construct a = .ok r) (n : Nat)
    (hlo : 1583 ≤ a.dtstart.y)
    (hle : (Spec.RRule.startOrd a * 24 + a.dtstart.hh) * 60 + a.dtstart.mm + (1440 * n + 1) * a.interval + 1439 <
      (Cal.toOrdinal 4099 12 31 + 1) * 1440) :
    ∃ m, n ≤ m ∧ m ≤ 1440 * n ∧ (iter r n).1 = Spec.RRule.occ a m := by
  have hi := ma.interval
  have hmx := emaxOrd_le
  have hE : Cal.toOrdinal 4099 12 31 = emaxOrd := rfl
  rw [hE] at hle
  have hnn : (0 : Int) ≤ ((1440 * n + 1 : Int)) * a.interval := Int.mul_nonneg (by omega) (by omega)
  have hbound : ∀ k : Nat, k < 1440 * n → ∀ st, MinutelyEGood a r k st →
      curOrd st.cur * 1440 + 1439 + a.interval < (emaxOrd + 1) * 1440 := by
    intro k hk st hg
    have := hg.idx
    have hh := hg.hour
    have hmm := hg.minute
    have hmono : (k : Int) * a.interval ≤ (1440 * (n : Int)) * a.interval :=
      Int.mul_le_mul_of_nonneg_right (by omega) (by omega)
    have e' : ((1440 : Int) * n + 1) * a.interval = (1440 * (n : Int)) * a.interval + a.interval := by
      rw [Int.add_mul]; omega
    rw [e'] at hle
    omega
  have sim : SkipSim a r (1440 * n) 1440 (MinutelyEGood a r) := {
    agree := mlye_cuts ma h
    step := by
      intro k st hk hg
      have hb := hbound k hk st hg
      obtain ⟨fl, hres, hflag, hbnd⟩ := mlye_results ma h k st hg (by omega)
      refine ⟨fl, [], Spec.RRule.sel a (k : Int), hres, rfl, by simp, hbnd, ?_⟩
      intro c
      exact mlye_next ma h k st fl c hg hflag hb }
  have hv := ma.valid
  unfold DT.Valid at hv
  obtain ⟨st0, hinit, hg0, hc0⟩ := mlye_init ma h hlo (by omega)
  exact iter_refines_skip sim (by omega) st0 hinit hg0 hc0 n (by omega)

-- non-vacuity: the hypotheses are satisfiable
example : MinutelyEArgs { freq := 5, dtstart := ⟨2024, 1, 1, 10, 0, 0, 0⟩, byeaster := some [0, 1] } :=
  { freq := rfl, interval := (by decide), valid := (by decide), byweekno := rfl,
    easter := ⟨[0, 1], rfl, by simp, by intro o ho; simp at ho; omega⟩,
    monthday_nz := (by intro x hx; simp at hx), byhour := rfl, byminute := rfl, seconds_ok := (by intro x hx; simp at hx) }

end RRule
