/-
  Proofs/RRuleStrByDay.lean — `_handle_BYWEEKDAY`: the spellings `+nWD`, `nWD`, `WD(+n)`, `WD(n)`, `WD`
  of one BYDAY item, for every weekday and every n (C13).
-/
import DateutilVerif.Proofs.RRuleStrText

namespace RRuleStr
open ICal (isSpace upper splitOnChar pyInt rstrip strip isDigit splitLines)

variable {po : ParseOpts}

/-- a weekday name of `_weekday_map` with its number -/
def IsWD (w : List Char) (k : Int) : Prop := (w, k) ∈ weekdayMap

theorem isWD_wdName (k : Int) (h0 : 0 ≤ k) (h6 : k ≤ 6) : IsWD (wdName k) k := by
  have : k = 0 ∨ k = 1 ∨ k = 2 ∨ k = 3 ∨ k = 4 ∨ k = 5 ∨ k = 6 := by omega
  rcases this with rfl | rfl | rfl | rfl | rfl | rfl | rfl <;> (unfold IsWD; decide)

/-- what the proofs need of a weekday name: two upper-case letters, found in the map -/
theorem isWD_facts {w : List Char} {k : Int} (h : IsWD w k) :
    lookup weekdayMap w = some k ∧ (∃ c r, w = c :: r ∧ isSignDigit c = false) ∧ '(' ∉ w ∧ (∀ c ∈ w, isAtom c = true) ∧ 0 ≤ k ∧ k ≤ 6 := by
  simp only [IsWD, weekdayMap, List.mem_cons, Prod.mk.injEq, List.not_mem_nil, or_false] at h
  rcases h with ⟨rfl, rfl⟩ | ⟨rfl, rfl⟩ | ⟨rfl, rfl⟩ | ⟨rfl, rfl⟩ | ⟨rfl, rfl⟩ | ⟨rfl, rfl⟩ | ⟨rfl, rfl⟩ <;>
    exact ⟨by decide, ⟨_, _, rfl, by decide⟩, by decide, by decide, by decide, by decide⟩

theorem isSignDigit_not_paren {s : List Char} (h : ∀ c ∈ s, isSignDigit c = true) : '(' ∉ s := by
  intro hc; have := h _ hc; revert this; decide

/-- the prefix spelling: digits and signs, then the weekday name -/
theorem parseWDay_prefix {pre w : List Char} {k n : Int} (hw : IsWD w k) (hne : pre ≠ [])
    (hpre : ∀ c ∈ pre, isSignDigit c = true) (hn : pyInt pre = some n) (hn0 : n ≠ 0) :
    parseWDay (pre ++ w) = .ok (k, some n) := by
  obtain ⟨hl, ⟨c, r, rfl, hc⟩, hp, _, _, _⟩ := isWD_facts hw
  have hcont : (pre ++ c :: r).contains '(' = false := by
    rw [Bool.eq_false_iff, Ne, contains_iff, List.mem_append]
    rintro (h | h)
    · exact isSignDigit_not_paren hpre h
    · exact hp h
  have hemp : (pre ++ c :: r).isEmpty = false := by cases pre <;> rfl
  have htw : (pre ++ c :: r).takeWhile isSignDigit = pre := by
    rw [List.takeWhile_append_of_pos hpre, List.takeWhile_cons_of_neg (by simp [hc])]; simp
  have hlen : (pre.length == (pre ++ c :: r).length) = false := by simp
  have hpe : pre.isEmpty = false := by cases pre with | nil => exact absurd rfl hne | cons => rfl
  unfold parseWDay
  simp only [hcont, Bool.false_eq_true, if_false, hemp, htw, hlen, List.take_left' rfl, List.drop_left' rfl, hl, hpe, hn]
  simp [hn0]

/-- the bare spelling -/
theorem parseWDay_bare {w : List Char} {k : Int} (hw : IsWD w k) : parseWDay w = .ok (k, none) := by
  simp only [IsWD, weekdayMap, List.mem_cons, Prod.mk.injEq, List.not_mem_nil, or_false] at hw
  rcases hw with ⟨rfl, rfl⟩ | ⟨rfl, rfl⟩ | ⟨rfl, rfl⟩ | ⟨rfl, rfl⟩ | ⟨rfl, rfl⟩ | ⟨rfl, rfl⟩ | ⟨rfl, rfl⟩ <;> decide

/-- the `repr` spelling `WD(n)`; the real code drops the last character whatever it is (`splt[1][:-1]`) -/
theorem parseWDay_paren {inner w : List Char} {k n : Int} (last : Char) (hw : IsWD w k)
    (hin : '(' ∉ inner) (hlast : last ≠ '(') (hn : pyInt inner = some n) (hn0 : n ≠ 0) :
    parseWDay (w ++ '(' :: (inner ++ [last])) = .ok (k, some n) := by
  obtain ⟨hl, _, hp, _, _, _⟩ := isWD_facts hw
  have hcont : (w ++ '(' :: (inner ++ [last])).contains '(' = true := by simp
  have hsplit : splitOnChar '(' (w ++ '(' :: (inner ++ [last])) = [w, inner ++ [last]] :=
    splitOnChar_two '(' w _ hp (by
      rw [List.mem_append]; rintro (h | h)
      · exact hin h
      · simp at h; exact hlast h.symm)
  unfold parseWDay
  simp only [hcont, if_true, hsplit, List.headD_cons, List.getD_cons_succ, List.getD_cons_zero, List.dropLast_concat, hn, hl]
  simp [hn0]

theorem showIntSigned_signDigit (i : Int) : ∀ c ∈ showIntSigned i, isSignDigit c = true := by
  intro c hc; rcases showIntSigned_atom i c hc with h | rfl | rfl
  · simp [isSignDigit, h]
  · decide
  · decide

theorem showInt_signDigit (i : Int) : ∀ c ∈ showInt i, isSignDigit c = true := by
  intro c hc; rcases showInt_atom i c hc with h | rfl
  · simp [isSignDigit, h]
  · decide

theorem showIntSigned_ne_nil (i : Int) : showIntSigned i ≠ [] := by
  unfold showIntSigned; split <;> simp

/-- n = 0 is rejected in both spellings (`rrule.weekday(wd, 0)` raises ValueError) -/
theorem parseWDay_zero_prefix {pre w : List Char} {k : Int} (hw : IsWD w k) (hne : pre ≠ [])
    (hpre : ∀ c ∈ pre, isSignDigit c = true) (hn : pyInt pre = some 0) :
    parseWDay (pre ++ w) = .error .ValueError := by
  obtain ⟨hl, ⟨c, r, rfl, hc⟩, hp, _, _, _⟩ := isWD_facts hw
  have hcont : (pre ++ c :: r).contains '(' = false := by
    rw [Bool.eq_false_iff, Ne, contains_iff, List.mem_append]
    rintro (h | h)
    · exact isSignDigit_not_paren hpre h
    · exact hp h
  have hemp : (pre ++ c :: r).isEmpty = false := by cases pre <;> rfl
  have htw : (pre ++ c :: r).takeWhile isSignDigit = pre := by
    rw [List.takeWhile_append_of_pos hpre, List.takeWhile_cons_of_neg (by simp [hc])]; simp
  have hlen : (pre.length == (pre ++ c :: r).length) = false := by simp
  have hpe : pre.isEmpty = false := by cases pre with | nil => exact absurd rfl hne | cons => rfl
  unfold parseWDay
  simp only [hcont, Bool.false_eq_true, if_false, hemp, htw, hlen, List.take_left' rfl, List.drop_left' rfl, hl, hpe, hn]
  simp

theorem parseWDay_zero_paren {inner w : List Char} {k : Int} (last : Char) (hw : IsWD w k)
    (hin : '(' ∉ inner) (hlast : last ≠ '(') (hn : pyInt inner = some 0) :
    parseWDay (w ++ '(' :: (inner ++ [last])) = .error .ValueError := by
  obtain ⟨hl, _, hp, _, _, _⟩ := isWD_facts hw
  have hcont : (w ++ '(' :: (inner ++ [last])).contains '(' = true := by simp
  have hsplit : splitOnChar '(' (w ++ '(' :: (inner ++ [last])) = [w, inner ++ [last]] :=
    splitOnChar_two '(' w _ hp (by
      rw [List.mem_append]; rintro (h | h)
      · exact hin h
      · simp at h; exact hlast h.symm)
  unfold parseWDay
  simp only [hcont, if_true, hsplit, List.headD_cons, List.getD_cons_succ, List.getD_cons_zero, List.dropLast_concat, hn, hl]
  simp

/-- an item made of letters only that is not a weekday name is rejected (KeyError inside, ValueError outside) -/
theorem parseWDay_unknown_name {w : List Char} (hne : w ≠ []) (hp : '(' ∉ w) (hsd : ∀ c ∈ w, isSignDigit c = false)
    (hl : lookup weekdayMap w = none) : parseWDay w = .error .KeyError := by
  have hcont : w.contains '(' = false := by rw [Bool.eq_false_iff, Ne, contains_iff]; exact hp
  have hemp : w.isEmpty = false := by cases w with | nil => exact absurd rfl hne | cons => rfl
  have htw : w.takeWhile isSignDigit = [] := by
    cases w with
    | nil => rfl
    | cons c r => exact List.takeWhile_cons_of_neg (by simp [hsd c (by simp)])
  have hlen : (0 == w.length) = false := by
    cases w with | nil => exact absurd rfl hne | cons => simp
  unfold parseWDay
  simp only [hcont, Bool.false_eq_true, if_false, hemp, htw, List.length_nil, hlen, List.take_zero, List.drop_zero, hl]
  simp

/-- `_handle_BYDAY = _handle_BYWEEKDAY` -/
theorem handleU_byday_eq_byweekday (value : List Char) : handleU po (lit "BYDAY") value = handleU po (lit "BYWEEKDAY") value := by
  simp [handleU, lit]

end RRuleStr
