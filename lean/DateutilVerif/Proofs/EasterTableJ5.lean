/- Proofs/EasterTableJ5.lean — `decide +kernel` over every year 8326..9999 (no sampling). -/
import DateutilVerif.Proofs.EasterDefs

namespace C19
theorem tableJ5 : ∀ k : Fin 1674, julianOK (8326 + (k.val : Int)) = true := by decide +kernel
end C19
