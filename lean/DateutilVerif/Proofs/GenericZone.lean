/-
  Proofs/GenericZone.lean — the `_tzinfo._fromutc / _fold_status / is_ambiguous` machinery
  round-trips for any zone whose `utcoffset/dst` follow the two-offset interval semantics of a
  cycle: standard offset `stdOff` everywhere, daylight time (offset `stdOff + saving`) for wall
  times below `off` and, for fold=0, on the repeated interval `[off, off + saving)`.
-/
import DateutilVerif.Model.Zones

namespace TZ
namespace GenericZone

/-- interval semantics inside one cycle (the same function as `ICal.cycleIsDst`) -/
def cycleIsDst (off saving w : Int) (fold : Bool) : Bool :=
  decide (w < off) || (decide (w < off + saving) && !fold)

/-- `g` follows the cycle semantics on the wall window `[lo, hi)` -/
def CycleSem (g : GenericZone) (stdOff saving off lo hi : Int) : Prop :=
  ∀ w fold, lo ≤ w → w < hi →
    g.utcoffset ⟨w, fold⟩ = (if cycleIsDst off saving w fold then stdOff + saving else stdOff) ∧
    g.dst ⟨w, fold⟩ = (if cycleIsDst off saving w fold then saving else 0)

/-- with the generic `is_ambiguous` (tzical), ambiguity is the repeated interval -/
theorem isAmbiguous_of_sem (g : GenericZone) (stdOff saving off lo hi : Int) (hs : 0 < saving)
    (hno : g.ambiguousOverride = none) (hsem : CycleSem g stdOff saving off lo hi)
    (w : Int) (h1 : lo ≤ w) (h2 : w < hi) :
    g.isAmbiguous w = (decide (off ≤ w) && decide (w < off + saving)) := by
  unfold isAmbiguous
  rw [hno]
  simp only [(hsem w false h1 h2).1, (hsem w true h1 h2).1, cycleIsDst]
  rw [Bool.eq_iff_iff]
  by_cases a : w < off <;> by_cases c : w < off + saving <;> simp [a, c] <;> omega

/-- **GenericZone round trip.**  `t` is a UTC instant whose standard-time reading `x = t + stdOff`
    lies in the window — and, when it is below `off` (daylight time), also `x + saving`; at the UTC
    reading itself only `utcoffset − dst = stdOff` is needed (what `_fromutc` computes first).  With
    `off + saving ≤ hi` the second condition is automatic, so consecutive windows `[on, nextOn)` tile
    the timeline, including the last `saving` seconds of standard time before each onset.  Then `fromutc t` reports `utcoffset = wall − t`,
    converts back to `t`, adds the daylight offset exactly when `x < off`, and sets fold=1 exactly
    on the standard side of the repeated interval. -/
theorem roundtrip (g : GenericZone) (stdOff saving off lo hi t : Int) (hs : 0 < saving)
    (hsem : CycleSem g stdOff saving off lo hi)
    (hamb : ∀ w, lo ≤ w → w < hi → g.isAmbiguous w = (decide (off ≤ w) && decide (w < off + saving)))
    (h0 : g.utcoffset ⟨t, false⟩ - g.dst ⟨t, false⟩ = stdOff)
    (hx1 : lo ≤ t + stdOff) (hx2 : t + stdOff < hi) (hx3 : t + stdOff < off → t + stdOff + saving < hi) :
    g.utcoffset (g.fromutc t) = (g.fromutc t).wall - t ∧ g.toUtc (g.fromutc t) = t ∧
    (g.fromutc t).wall = (if t + stdOff < off then t + stdOff + saving else t + stdOff) ∧
    (g.fromutc t).fold = (decide (off ≤ t + stdOff) && decide (t + stdOff < off + saving)) := by
  have hd2 : g.dst ⟨t + stdOff, true⟩ = if t + stdOff < off then saving else 0 := by
    rw [(hsem (t + stdOff) true hx1 (by omega)).2]
    simp [cycleIsDst]
  have hwall : g.fromutcWall t = if t + stdOff < off then t + stdOff + saving else t + stdOff := by
    unfold fromutcWall
    simp only [h0, hd2]
    split <;> omega
  have hfold : g.foldStatus t (g.fromutcWall t) =
      (decide (off ≤ t + stdOff) && decide (t + stdOff < off + saving)) := by
    unfold foldStatus
    rw [h0, hwall]
    by_cases hlt : t + stdOff < off
    · simp only [hlt, if_true]
      rw [hamb _ (by omega) (by omega)]
      have : ¬ (t + stdOff + saving - t = stdOff) := by omega
      simp only [this, decide_false]
      have : decide (off ≤ t + stdOff) = false := by simp; omega
      simp [this]
    · simp only [hlt, if_false]
      rw [hamb _ hx1 (by omega)]
      have : (t + stdOff - t = stdOff) := by omega
      simp only [this, decide_true]
      simp
  have hfrom : g.fromutc t = ⟨g.fromutcWall t, g.foldStatus t (g.fromutcWall t)⟩ := rfl
  have hoff : g.utcoffset (g.fromutc t) = (g.fromutc t).wall - t := by
    rw [hfrom, hfold, hwall]
    by_cases hlt : t + stdOff < off
    · simp only [hlt, if_true]
      rw [(hsem _ _ (by omega) (by omega)).1]
      have : decide (off ≤ t + stdOff) = false := by simp; omega
      simp only [this, Bool.false_and, cycleIsDst, Bool.not_false, Bool.and_true]
      have : decide (t + stdOff + saving < off + saving) = true := by simp; omega
      simp only [this, Bool.or_true, if_true]; omega
    · simp only [hlt, if_false]
      rw [(hsem _ _ hx1 (by omega)).1]
      have h1 : decide (off ≤ t + stdOff) = true := by simp; omega
      have h2 : decide (t + stdOff < off) = false := by simp; omega
      simp only [h1, Bool.true_and, cycleIsDst, h2, Bool.false_or]
      by_cases c : t + stdOff < off + saving <;> simp [c] <;> omega
  refine ⟨hoff, ?_, ?_, ?_⟩
  · unfold toUtc; rw [hoff]; omega
  · rw [hfrom]; exact hwall
  · rw [hfrom]; exact hfold

end GenericZone
end TZ
