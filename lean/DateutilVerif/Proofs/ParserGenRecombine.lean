/-
  Proofs/ParserGenRecombine.lean — `parser._recombine_skipped` re-translated from /repo's parser/_parser.py
  (Generated/ParserOps.lean: `Gen.P.recombineSkipped`, its `for i, idx in enumerate(sorted(skipped_idxs))` loop a recursion
  over the sorted list) = `PM.recombineSkipped` (Model/Parser.lean), for every token list and every list of indices
  (any order, repeats, out of range).
-/
import DateutilVerif.Proofs.ParserGenNum

namespace PGen
open PM Py
set_option linter.unusedSimpArgs false

theorem getIdx_last (r : List Token) (last : Token) : PPy.toksAt (r ++ [last]) (-1) = .ok last := by
  unfold PPy.toksAt Py.getIdx
  have h1 : ((-1 : Int) < 0) := by omega
  simp only [h1, if_true, List.length_append, List.length_singleton]
  have h2 : ¬ ((-1 : Int) + ((r.length + 1 : Nat) : Int) < 0 ∨ (-1 : Int) + ((r.length + 1 : Nat) : Int) ≥ ((r.length + 1 : Nat) : Int)) := by
    omega
  simp only [h2, if_false]
  have h3 : ((-1 : Int) + ((r.length + 1 : Nat) : Int)).toNat = r.length := by omega
  rw [h3]
  simp

theorem toksAt_nil_last : PPy.toksAt ([] : List Token) (-1) = .error .IndexError := by
  unfold PPy.toksAt Py.getIdx; simp

theorem getIdx_nat (l : List Nat) (k : Nat) (h : k < l.length) : Py.getIdx l ((k : Nat) : Int) = .ok l[k] := by
  unfold Py.getIdx
  have h1 : ¬ ((k : Int) < 0) := by omega
  have h2 : ¬ ((k : Int) < 0 ∨ (k : Int) ≥ (l.length : Int)) := by omega
  simp only [h1, if_false, h2]
  simp [List.getElem?_eq_getElem h, h]

theorem tokAt_err (l : List Token) (k : Nat) (e : PyErr) (h : PM.tokAt l k = .error e) : e = .IndexError := by
  unfold PM.tokAt at h
  split at h
  · cases h
  · injection h with h; exact h.symm

theorem recombine_loop_eq (info : Info) (tokens : List Token) (skipped : List Nat) :
    ∀ (items : List Nat) (i : Nat) (acc : List Token), i + items.length ≤ skipped.length →
      Gen.P.recombineSkipped_loop info skipped tokens items i acc = PM.recombineSkipped.go tokens skipped items i acc := by
  intro items
  induction items with
  | nil => intro i acc _; rfl
  | cons idx rest ih =>
    intro i acc hlen
    simp only [List.length_cons] at hlen
    rw [Gen.P.recombineSkipped_loop, PM.recombineSkipped.go]
    have hrec := fun acc' => ih (i + 1) acc' (by omega)
    -- the token at `idx`
    have htok : PPy.toksAt tokens (idx : Int) = PM.tokAt tokens idx := by
      by_cases h : idx < tokens.length
      · rw [toksAt_nat tokens idx h, tokAt_lt tokens idx h]
      · rw [toksAt_ge tokens idx (Nat.le_of_not_lt h), tokAt_ge tokens idx (Nat.le_of_not_lt h)]
    by_cases hi : i > 0
    · have hk : i - 1 < skipped.length := by omega
      have e1 : (i : Int) - (1 : Int) = ((i - 1 : Nat) : Int) := by omega
      have hcond : (((idx : Int) - (1 : Int)) = ((skipped[i - 1] : Nat) : Int)) ↔
          ((skipped[i - 1]?).map (· + 1) = some idx) := by
        rw [List.getElem?_eq_getElem hk]
        simp only [Option.map_some, Option.some.injEq]
        omega
      simp only [hi, if_true, e1, getIdx_nat skipped (i - 1) hk, bind_ok, true_and, bind_eq, htok]
      by_cases hc : (((idx : Int) - (1 : Int)) = ((skipped[i - 1] : Nat) : Int))
      · have hc' := hcond.mp hc
        simp only [hc, hc', decide_true, if_true]
        cases hr : acc.reverse with
        | nil =>
          have : acc = [] := by simpa using hr
          subst this
          simp only [toksAt_nil_last, bind_err]
          cases ht : PM.tokAt tokens idx with
          | error e => have := tokAt_err _ _ _ ht; subst this; rfl
          | ok t => rfl
        | cons last revInit =>
          have hacc : acc = revInit.reverse ++ [last] := by
            have := congrArg List.reverse hr
            simpa using this
          rw [hacc, getIdx_last]
          simp only [bind_ok]
          cases ht : PM.tokAt tokens idx with
          | error e => rfl
          | ok t =>
            simp only [bind_ok, PPy.toksSetLast, List.reverse_append, List.reverse_cons, List.reverse_nil, List.nil_append,
              List.reverse_reverse, List.singleton_append, hrec]
      · have hc' : ¬ ((skipped[i - 1]?).map (· + 1) = some idx) := fun h => hc (hcond.mpr h)
        simp only [hc, hc', decide_false, if_false, Bool.false_eq_true]
        cases ht : PM.tokAt tokens idx with
        | error e => rfl
        | ok t => simp only [bind_ok, hrec]
    · simp only [hi, if_false, bind_ok, false_and, Bool.false_eq_true, bind_eq, htok]
      cases ht : PM.tokAt tokens idx with
      | error e => rfl
      | ok t => simp only [bind_ok, hrec]

/-- `parser._recombine_skipped` as written now = `PM.recombineSkipped` -/
theorem recombineSkipped_eq (info : Info) (tokens : List Token) (skipped : List Nat) :
    Gen.P.recombineSkipped info tokens skipped = PM.recombineSkipped tokens skipped := by
  unfold Gen.P.recombineSkipped PM.recombineSkipped PPy.sortedNat
  simp only [bind_ok_id]
  exact recombine_loop_eq info tokens skipped _ 0 [] (by simp [List.length_mergeSort])

end PGen
