/-
  Proofs/RRuleConstructSet.lean — the constructed rule depends only on the SET of members of each BY list
  (`set(bymonth)`, `set(byhour)` … in `rrule.__init__`): permuting a list or repeating members changes nothing, on the
  success side and on every error side (`__construct_byset` finding nothing reachable, `datetime.time` failures in the
  time set, BYSETPOS validation, INTERVAL < 1).  BYSETPOS is kept as given (`tuple(bysetpos)`) and BYEASTER is
  `tuple(sorted(byeaster))` with duplicates kept, so those two are compared as equal / as permutations.
-/
import DateutilVerif.Proofs.RRuleOrig

namespace RRule

/-- both absent, or both given with the same members -/
def sameMembers {α} (o o' : Option (List α)) : Prop :=
  (o = none ∧ o' = none) ∨ ∃ l l', o = some l ∧ o' = some l' ∧ ∀ x, x ∈ l ↔ x ∈ l'

/-- two argument sets that differ only in the order and multiplicity of the members of their BY lists -/
structure SetEquiv (a a' : Args) : Prop where
  freq : a.freq = a'.freq
  dtstart : a.dtstart = a'.dtstart
  tz : a.tz = a'.tz
  interval : a.interval = a'.interval
  wkst : a.wkst = a'.wkst
  count : a.count = a'.count
  untilDT : a.untilDT = a'.untilDT
  bysetpos : a.bysetpos = a'.bysetpos
  byeaster : (a.byeaster = none ∧ a'.byeaster = none) ∨
    ∃ l l', a.byeaster = some l ∧ a'.byeaster = some l' ∧ l.Perm l'
  bymonth : sameMembers a.bymonth a'.bymonth
  bymonthday : sameMembers a.bymonthday a'.bymonthday
  byyearday : sameMembers a.byyearday a'.byyearday
  byweekno : sameMembers a.byweekno a'.byweekno
  byweekday : sameMembers a.byweekday a'.byweekday
  byhour : sameMembers a.byhour a'.byhour
  byminute : sameMembers a.byminute a'.byminute
  bysecond : sameMembers a.bysecond a'.bysecond

/-! ### sorted, de-duplicated lists are functions of the member set -/

theorem sortBy_dedup_ext {α} [BEq α] [LawfulBEq α] {lt : α → α → Bool} (so : StrictOn lt (fun _ => True))
    (l l' : List α) (h : ∀ x, x ∈ l ↔ x ∈ l') : sortBy lt (dedup [] l) = sortBy lt (dedup [] l') := by
  apply sorted_ext so
  · exact sortBy_pairwise so _ (fun _ _ => trivial) (dedup_nodup l [] List.nodup_nil)
  · exact sortBy_pairwise so _ (fun _ _ => trivial) (dedup_nodup l' [] List.nodup_nil)
  · intro x; rw [mem_sortBy, mem_sortBy, mem_dedup, mem_dedup]; exact h x

theorem isEmpty_dedup_ext {α} [BEq α] [LawfulBEq α] (l l' : List α) (h : ∀ x, x ∈ l ↔ x ∈ l') :
    (dedup [] l).isEmpty = (dedup [] l').isEmpty :=
  isEmpty_of_mem_iff _ _ (by intro x; rw [mem_dedup, mem_dedup]; exact h x)

/-- `sorted(x for x in set(l) if p(x))` -/
theorem sortBy_filter_dedup_ext (p : Int → Bool) (l l' : List Int) (h : ∀ x, x ∈ l ↔ x ∈ l') :
    sortBy ltInt ((dedup [] l).filter p) = sortBy ltInt ((dedup [] l').filter p) := by
  apply sorted_ext strictInt
  · exact sortBy_pairwise strictInt _ (fun _ _ => trivial) ((dedup_nodup l [] List.nodup_nil).filter _)
  · exact sortBy_pairwise strictInt _ (fun _ _ => trivial) ((dedup_nodup l' [] List.nodup_nil).filter _)
  · intro x; rw [mem_sortBy, mem_sortBy, List.mem_filter, List.mem_filter, mem_dedup, mem_dedup, h x]

theorem sameMembers_refl {α} (o : Option (List α)) : sameMembers o o := by
  cases o with
  | none => exact Or.inl ⟨rfl, rfl⟩
  | some l => exact Or.inr ⟨l, l, rfl, rfl, fun _ => Iff.rfl⟩

theorem sameMembers_isNone {α} {o o' : Option (List α)} (h : sameMembers o o') : o.isNone = o'.isNone := by
  rcases h with ⟨h1, h2⟩ | ⟨l, l', h1, h2, _⟩ <;> rw [h1, h2] <;> rfl

theorem sameMembers_sortedSet {o o' : Option (List Int)} (h : sameMembers o o') :
    o.map sortedSet = o'.map sortedSet := by
  rcases h with ⟨h1, h2⟩ | ⟨l, l', h1, h2, hm⟩
  · rw [h1, h2]
  · rw [h1, h2]
    show some (sortedSet l) = some (sortedSet l')
    unfold sortedSet
    rw [sortBy_dedup_ext strictInt l l' hm]

/-! ### `sorted` of a permutation -/

theorem insertBy_perm {α} (lt : α → α → Bool) (x : α) : ∀ l : List α, (insertBy lt x l).Perm (x :: l) := by
  intro l
  induction l with
  | nil => exact List.Perm.refl _
  | cons y ys ih =>
    unfold insertBy
    split
    · exact (List.Perm.cons y ih).trans (List.Perm.swap x y ys)
    · exact List.Perm.refl _

theorem sortBy_perm {α} (lt : α → α → Bool) : ∀ l : List α, (sortBy lt l).Perm l := by
  intro l
  induction l with
  | nil => exact List.Perm.refl _
  | cons x xs ih =>
    have : sortBy lt (x :: xs) = insertBy lt x (sortBy lt xs) := rfl
    rw [this]
    exact (insertBy_perm lt x _).trans (List.Perm.cons x ih)

theorem insertBy_le (x : Int) : ∀ l : List Int, l.Pairwise (· ≤ ·) → (insertBy ltInt x l).Pairwise (· ≤ ·) := by
  intro l
  induction l with
  | nil => intro _; simp [insertBy]
  | cons y ys ih =>
    intro hs
    rw [List.pairwise_cons] at hs
    unfold insertBy
    split
    · rename_i hyx
      have hyx' : y < x := by simpa [ltInt] using hyx
      rw [List.pairwise_cons]
      refine ⟨?_, ih hs.2⟩
      intro z hz
      rcases (mem_insertBy ltInt x z ys).mp hz with rfl | hz
      · omega
      · exact hs.1 z hz
    · rename_i hyx
      have hyx' : x ≤ y := by
        have : ¬ y < x := by simpa [ltInt] using hyx
        omega
      rw [List.pairwise_cons]
      refine ⟨?_, List.pairwise_cons.mpr hs⟩
      intro z hz
      rcases List.mem_cons.mp hz with rfl | hz
      · exact hyx'
      · have := hs.1 z hz; omega

theorem sortBy_le (l : List Int) : (sortBy ltInt l).Pairwise (· ≤ ·) := by
  induction l with
  | nil => simp [sortBy]
  | cons x xs ih =>
    have : sortBy ltInt (x :: xs) = insertBy ltInt x (sortBy ltInt xs) := rfl
    rw [this]
    exact insertBy_le x _ ih

/-- `sorted(l)` (duplicates kept) of two permutations of each other -/
theorem sortBy_perm_eq (l l' : List Int) (h : l.Perm l') : sortBy ltInt l = sortBy ltInt l' := by
  apply List.Perm.eq_of_pairwise (le := (· ≤ ·))
  · intro a b _ _ h1 h2; omega
  · exact sortBy_le l
  · exact sortBy_le l'
  · exact ((sortBy_perm ltInt l).trans h).trans (sortBy_perm ltInt l').symm

/-! ### the parts of `construct` -/

theorem normUnit_congr (freq lvl interval start base : Int) {o o' : Option (List Int)} (h : sameMembers o o') :
    normUnit freq lvl interval start o base = normUnit freq lvl interval start o' base := by
  rcases h with ⟨h1, h2⟩ | ⟨l, l', h1, h2, hm⟩
  · rw [h1, h2]
  · rw [h1, h2]
    unfold normUnit
    dsimp only
    have hs : sortedSet l = sortedSet l' := by unfold sortedSet; rw [sortBy_dedup_ext strictInt l l' hm]
    rw [hs]
    split
    · unfold constructByset
      dsimp only
      have hf : ∀ x, x ∈ l.filter (fun num => ((Int.gcd interval base : Nat) : Int) == 1 ||
            Py.fmod (num - start) ((Int.gcd interval base : Nat) : Int) == 0) ↔
          x ∈ l'.filter (fun num => ((Int.gcd interval base : Nat) : Int) == 1 ||
            Py.fmod (num - start) ((Int.gcd interval base : Nat) : Int) == 0) := by
        intro x; rw [List.mem_filter, List.mem_filter, hm x]
      rw [isEmpty_dedup_ext _ _ hf]
      by_cases c : (dedup [] (l'.filter (fun num => ((Int.gcd interval base : Nat) : Int) == 1 ||
            Py.fmod (num - start) ((Int.gcd interval base : Nat) : Int) == 0))).isEmpty = true
      · rw [if_pos c, if_pos c]
      · rw [if_neg c, if_neg c]
        dsimp only
        rw [sortBy_dedup_ext strictInt _ _ hf]
    · rfl

theorem noDayParts_congr {a a' : Args} (h : SetEquiv a a') : noDayParts a = noDayParts a' := by
  unfold noDayParts
  have he : a.byeaster.isNone = a'.byeaster.isNone := by
    rcases h.byeaster with ⟨h1, h2⟩ | ⟨l, l', h1, h2, _⟩ <;> rw [h1, h2] <;> rfl
  rw [sameMembers_isNone h.byweekno, sameMembers_isNone h.byyearday, sameMembers_isNone h.bymonthday,
    sameMembers_isNone h.byweekday, he]

theorem bymonthOf_congr {a a' : Args} (h : SetEquiv a a') : bymonthOf a = bymonthOf a' := by
  unfold bymonthOf
  rw [noDayParts_congr h, h.freq, sameMembers_isNone h.bymonth, h.dtstart]
  split
  · rfl
  · exact sameMembers_sortedSet h.bymonth

theorem monthdayArg_congr {a a' : Args} (h : SetEquiv a a') : sameMembers (monthdayArg a) (monthdayArg a') := by
  unfold monthdayArg
  rw [noDayParts_congr h, h.freq, h.dtstart]
  split
  · exact sameMembers_refl _
  · exact h.bymonthday

theorem bymonthdayOf_congr {a a' : Args} (h : SetEquiv a a') : bymonthdayOf a = bymonthdayOf a' := by
  unfold bymonthdayOf
  rcases monthdayArg_congr h with ⟨h1, h2⟩ | ⟨l, l', h1, h2, hm⟩
  · rw [h1, h2]
  · rw [h1, h2]
    exact sortBy_filter_dedup_ext _ l l' hm

theorem bynmonthdayOf_congr {a a' : Args} (h : SetEquiv a a') : bynmonthdayOf a = bynmonthdayOf a' := by
  unfold bynmonthdayOf
  rcases monthdayArg_congr h with ⟨h1, h2⟩ | ⟨l, l', h1, h2, hm⟩
  · rw [h1, h2]
  · rw [h1, h2]
    exact sortBy_filter_dedup_ext _ l l' hm

theorem weekdayArg_congr {a a' : Args} (h : SetEquiv a a') : sameMembers (weekdayArg a) (weekdayArg a') := by
  unfold weekdayArg
  rw [noDayParts_congr h, h.freq, h.dtstart]
  split
  · exact sameMembers_refl _
  · exact h.byweekday

/-- the plain weekdays before `set()`: same members -/
theorem plain_mem {a a' : Args} (h : SetEquiv a a') (l l' : List (Int × Int)) (hm : ∀ x, x ∈ l ↔ x ∈ l') :
    ∀ x, x ∈ (l.filter (fun w => w.2 == 0 || a.freq > 1)).map (·.1) ↔
      x ∈ (l'.filter (fun w => w.2 == 0 || a'.freq > 1)).map (·.1) := by
  intro x
  rw [h.freq]
  simp only [List.mem_map, List.mem_filter]
  constructor
  · rintro ⟨w, ⟨hw, hp⟩, rfl⟩; exact ⟨w, ⟨(hm w).mp hw, hp⟩, rfl⟩
  · rintro ⟨w, ⟨hw, hp⟩, rfl⟩; exact ⟨w, ⟨(hm w).mpr hw, hp⟩, rfl⟩

theorem nth_mem {a a' : Args} (h : SetEquiv a a') (l l' : List (Int × Int)) (hm : ∀ x, x ∈ l ↔ x ∈ l') :
    ∀ x, x ∈ l.filter (fun w => !(w.2 == 0 || a.freq > 1)) ↔
      x ∈ l'.filter (fun w => !(w.2 == 0 || a'.freq > 1)) := by
  intro x
  rw [h.freq, List.mem_filter, List.mem_filter, hm x]

theorem byweekdayOf_congr {a a' : Args} (h : SetEquiv a a') : byweekdayOf a = byweekdayOf a' := by
  unfold byweekdayOf
  rcases weekdayArg_congr h with ⟨h1, h2⟩ | ⟨l, l', h1, h2, hm⟩
  · rw [h1, h2]
  · rw [h1, h2]
    dsimp only
    unfold plainWeekdays
    rw [isEmpty_dedup_ext _ _ (plain_mem h l l' hm), sortBy_dedup_ext strictInt _ _ (plain_mem h l l' hm)]

theorem bynweekdayOf_congr {a a' : Args} (h : SetEquiv a a') : bynweekdayOf a = bynweekdayOf a' := by
  unfold bynweekdayOf
  rcases weekdayArg_congr h with ⟨h1, h2⟩ | ⟨l, l', h1, h2, hm⟩
  · rw [h1, h2]
  · rw [h1, h2]
    dsimp only
    unfold plainWeekdays nthWeekdays
    rw [isEmpty_dedup_ext _ _ (plain_mem h l l' hm), isEmpty_dedup_ext _ _ (nth_mem h l l' hm),
      sortBy_dedup_ext strictPair _ _ (nth_mem h l l' hm)]

theorem byeaster_congr {a a' : Args} (h : SetEquiv a a') :
    a.byeaster.map (sortBy ltInt) = a'.byeaster.map (sortBy ltInt) := by
  rcases h.byeaster with ⟨h1, h2⟩ | ⟨l, l', h1, h2, hp⟩
  · rw [h1, h2]
  · rw [h1, h2]
    show some (sortBy ltInt l) = some (sortBy ltInt l')
    rw [sortBy_perm_eq l l' hp]

theorem timesetOf_congr {a a' : Args} (h : SetEquiv a a') (bh bm bs : Option (List Int)) :
    timesetOf a bh bm bs = timesetOf a' bh bm bs := by
  unfold timesetOf
  rw [h.freq]

theorem normBysetpos_congr {a a' : Args} (h : SetEquiv a a') : normBysetpos a = normBysetpos a' := by
  unfold normBysetpos
  rw [h.bysetpos]

/-- **`set()` semantics of the constructor**: two argument sets whose BY lists have the same members (BYSETPOS equal,
    BYEASTER a permutation) construct the same rule, or fail with the same exception -/
theorem construct_perm_dup_invariant (a a' : Args) (h : SetEquiv a a') : construct a = construct a' := by
  unfold construct constructBody
  have e1 := normBysetpos_congr h
  have e2 : normUnit a.freq 4 a.interval a.dtstart.hh a.byhour 24 =
      normUnit a'.freq 4 a'.interval a'.dtstart.hh a'.byhour 24 := by
    rw [normUnit_congr _ _ _ _ _ h.byhour, h.freq, h.interval, h.dtstart]
  have e3 : normUnit a.freq 5 a.interval a.dtstart.mm a.byminute 60 =
      normUnit a'.freq 5 a'.interval a'.dtstart.mm a'.byminute 60 := by
    rw [normUnit_congr _ _ _ _ _ h.byminute, h.freq, h.interval, h.dtstart]
  have e4 : normUnit a.freq 6 a.interval a.dtstart.ss a.bysecond 60 =
      normUnit a'.freq 6 a'.interval a'.dtstart.ss a'.bysecond 60 := by
    rw [normUnit_congr _ _ _ _ _ h.bysecond, h.freq, h.interval, h.dtstart]
  have e5 : ∀ bh bm bs, timesetOf a bh bm bs = timesetOf a' bh bm bs := timesetOf_congr h
  simp only [e5]
  rw [e1, e2, e3, e4, bymonthOf_congr h, bymonthdayOf_congr h, bynmonthdayOf_congr h, byweekdayOf_congr h,
    bynweekdayOf_congr h, byeaster_congr h, sameMembers_sortedSet h.byyearday, sameMembers_sortedSet h.byweekno,
    h.freq, h.interval, h.wkst, h.dtstart, h.tz, h.count, h.untilDT]

-- a permuted BYHOUR with a repeated member and a repeated BYSECOND: same rule (here evaluated, not just proved)
example : SetEquiv { freq := 3, dtstart := ⟨2024, 1, 1, 9, 0, 0, 0⟩, byhour := some [20, 8, 20], bysecond := some [5, 5] }
                   { freq := 3, dtstart := ⟨2024, 1, 1, 9, 0, 0, 0⟩, byhour := some [8, 20], bysecond := some [5] } :=
  ⟨rfl, rfl, rfl, rfl, rfl, rfl, rfl, rfl, Or.inl ⟨rfl, rfl⟩, Or.inl ⟨rfl, rfl⟩, Or.inl ⟨rfl, rfl⟩, Or.inl ⟨rfl, rfl⟩,
   Or.inl ⟨rfl, rfl⟩, Or.inl ⟨rfl, rfl⟩,
   Or.inr ⟨_, _, rfl, rfl, by intro x; simp only [List.mem_cons, List.mem_nil_iff, or_false]; omega⟩, Or.inl ⟨rfl, rfl⟩,
   Or.inr ⟨_, _, rfl, rfl, by intro x; simp only [List.mem_cons, List.mem_nil_iff, or_false]; omega⟩⟩

end RRule
