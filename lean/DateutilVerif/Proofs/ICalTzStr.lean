/-
  Proofs/ICalTzStr.lean — a VTIMEZONE whose two components carry yearly `BYMONTH;BYDAY=nWD` rules
  answers, at every wall time of a cycle and either fold, like the tzstr zone of the same rules.
-/
import DateutilVerif.Proofs.OnsetsCycle
import DateutilVerif.Properties.C08

namespace Onsets
open ICal

/-- the POSIX spec with the same two rules -/
def specOf (rs re : YRule) (stdOff dstOff : Int) : Posix.Spec :=
  { stdOff := stdOff, dstOff := dstOff, startRule := .M rs.m rs.w rs.d, startTime := rs.tod,
    endRule := .M re.m re.w re.d, endTime := re.tod }

/-- the VTIMEZONE's components: STANDARD (end rule) first, DAYLIGHT (start rule) second, with the
    first `N` years of onsets -/
def compsOf (rs re : YRule) (stdOff dstOff y0 : Int) (N : Nat) : List ZComp :=
  [{ tzoffsetfrom := dstOff, tzoffsetto := stdOff, isdst := false, onsets := re.onsets y0 N },
   { tzoffsetfrom := stdOff, tzoffsetto := dstOff, isdst := true, onsets := rs.onsets y0 N }]

/-- the iCalendar side: inside the cycle of year `y0 + j` the zone follows the interval semantics -/
theorem ical_cycle (rs re : YRule) (stdOff dstOff y0 : Int) (N j : Nat) (w : Int) (fold : Bool)
    (hvs : rs.Valid) (hve : re.Valid) (hy0 : 1 ≤ y0) (hj : j + 1 < N) (hsav : stdOff < dstOff)
    (hts : 0 ≤ rs.tod) (hte : re.tod < 86400)
    (hord : rs.onset y0 j + (dstOff - stdOff) < re.onset y0 j)
    (hord' : rs.onset y0 (j + 1) + (dstOff - stdOff) ≤ re.onset y0 (j + 1))
    (hw1 : rs.onset y0 j ≤ w) (hw2 : w < rs.onset y0 (j + 1)) :
    utcoffset (compsOf rs re stdOff dstOff y0 N) w fold =
      (if cycleIsDst (re.onset y0 j - (dstOff - stdOff)) (dstOff - stdOff) w fold then dstOff else stdOff) ∧
    dst (compsOf rs re stdOff dstOff y0 N) w fold =
      (if cycleIsDst (re.onset y0 j - (dstOff - stdOff)) (dstOff - stdOff) w fold then dstOff - stdOff else 0) := by
  obtain ⟨c1, c2, H1, H2, H3⟩ := cycle_hyps rs re y0 N j (dstOff - stdOff) hvs hve hy0 hj (by omega) hts hte hord hord'
  have := two_comp_cycle (re.onsets y0 N) (rs.onsets y0 N) stdOff dstOff (rs.onset y0 j)
    (re.onset y0 j - (dstOff - stdOff)) (rs.onset y0 (j + 1)) w fold hsav c1 c2 hw1 hw2 H1 H2 H3
  exact ⟨this.2.1, this.2.2⟩

/-- `tzrangebase`'s closed form (shifted by `k`) inside the cycle, in the year of `on` -/
theorem closed_same_year (on off sav w k dstO stdO : Int) (fold : Bool) (h1 : on < off) (hw : on ≤ w) :
    (if TZ.RangeZone.naiveIsdst (w - k) (on - k, off - k) then dstO
     else if (decide (off - k ≤ w - k) && decide (w - k < off - k + sav)) then (if fold then stdO else dstO)
     else stdO) = (if cycleIsDst off sav w fold then dstO else stdO) := by
  unfold TZ.RangeZone.naiveIsdst cycleIsDst
  have h1' : on - k < off - k := by omega
  have d1 : on - k ≤ w - k := by omega
  simp only [h1', if_true, d1, decide_true, Bool.true_and]
  by_cases a : w < off
  · have a' : w - k < off - k := by omega
    simp [a, a']
  · have a' : ¬ w - k < off - k := by omega
    have a2 : off - k ≤ w - k := by omega
    by_cases c : w < off + sav
    · have c' : w - k < off - k + sav := by omega
      cases fold <;> simp [a, a', a2, c, c']
    · have c' : ¬ w - k < off - k + sav := by omega
      simp [a, a', a2, c, c']

/-- … and in the following year before that year's start: standard time -/
theorem closed_next_year (nOn nOff off sav w k dstO stdO : Int) (fold : Bool) (hn : nOn < nOff)
    (hw1 : off + sav ≤ w) (hw2 : w < nOn) (hsav : 0 < sav) :
    (if TZ.RangeZone.naiveIsdst (w - k) (nOn - k, nOff - k) then dstO
     else if (decide (nOff - k ≤ w - k) && decide (w - k < nOff - k + sav)) then (if fold then stdO else dstO)
     else stdO) = (if cycleIsDst off sav w fold then dstO else stdO) := by
  unfold TZ.RangeZone.naiveIsdst cycleIsDst
  have h1' : nOn - k < nOff - k := by omega
  have d1 : ¬ nOn - k ≤ w - k := by omega
  have d2 : ¬ nOff - k ≤ w - k := by omega
  have a : ¬ w < off := by omega
  have c : ¬ w < off + sav := by omega
  simp [h1', d1, d2, a, c]

/-- the tzstr side: the same interval semantics, from the pair of the wall-clock year -/
theorem tzstr_cycle (rs re : YRule) (stdOff dstOff y0 : Int) (N j : Nat) (w : Int) (fold : Bool)
    (z : TzStr.Zone) (hz : C08.IsZoneOf (specOf rs re stdOff dstOff) z)
    (hvs : rs.Valid) (hve : re.Valid) (hy0 : 2 ≤ y0) (hyN : y0 + j + 1 ≤ 9998) (hsav : stdOff < dstOff)
    (hts : 0 ≤ rs.tod) (hts2 : rs.tod < 86400)
    (hte0 : 0 ≤ re.tod - (dstOff - stdOff)) (hte : re.tod - (dstOff - stdOff) < 86400) (hte2 : re.tod < 86400)
    (hord : rs.onset y0 j + (dstOff - stdOff) < re.onset y0 j)
    (hord' : rs.onset y0 (j + 1) + (dstOff - stdOff) < re.onset y0 (j + 1))
    (hw1 : rs.onset y0 j ≤ w) (hw2 : w < rs.onset y0 (j + 1)) :
    (TZ.ofTzStr z).utcoffset ⟨w - TZ.epochShift, fold⟩ =
      .ok (if cycleIsDst (re.onset y0 j - (dstOff - stdOff)) (dstOff - stdOff) w fold then dstOff else stdOff) := by
  have hvr1 : C08.ValidRule (specOf rs re stdOff dstOff).startRule := by
    obtain ⟨a, b, c⟩ := hvs; exact ⟨a.1, a.2, b.1, b.2, c.1, c.2⟩
  have hvr2 : C08.ValidRule (specOf rs re stdOff dstOff).endRule := by
    obtain ⟨a, b, c⟩ := hve; exact ⟨a.1, a.2, b.1, b.2, c.1, c.2⟩
  have hir : C08.InRangeTimes (specOf rs re stdOff dstOff) := ⟨⟨hts, hts2⟩, ⟨hte0, hte⟩⟩
  have hstd : (TZ.ofTzStr z).stdOff = stdOff := hz.2.1
  have hdst : (TZ.ofTzStr z).dstOff = dstOff := hz.2.2.1
  have hsv : (TZ.ofTzStr z).saving = dstOff - stdOff := by unfold TZ.RangeZone.saving; rw [hstd, hdst]
  have pair : ∀ k : Nat, 2 ≤ y0 + k → y0 + k ≤ 9998 →
      (TZ.ofTzStr z).transitions (y0 + k) =
        some (rs.onset y0 k - TZ.epochShift, re.onset y0 k - (dstOff - stdOff) - TZ.epochShift) := by
    intro k h1 h2
    rw [C08.range_transitions _ z hz (y0 + k) h1 h2 hvr1 hvr2 hir]
    have e1 : Posix.startUtc (specOf rs re stdOff dstOff) (y0 + k) + (specOf rs re stdOff dstOff).stdOff
        = rs.onset y0 k := by
      simp only [Posix.startUtc, specOf, YRule.onset, Onsets.onset, YRule.tod]; omega
    have e2 : Posix.endUtc (specOf rs re stdOff dstOff) (y0 + k) + (specOf rs re stdOff dstOff).stdOff
        = re.onset y0 k - (dstOff - stdOff) := by
      simp only [Posix.endUtc, specOf, YRule.onset, Onsets.onset, YRule.tod]; omega
    rw [e1, e2]
  obtain ⟨a1, _, _⟩ := rule_in_year (y0 + j) rs.m rs.w rs.d (by omega) hvs.1 hvs.2.1 hvs.2.2
  obtain ⟨_, b2, _⟩ := rule_in_year (y0 + j) re.m re.w re.d (by omega) hve.1 hve.2.1 hve.2.2
  obtain ⟨_, c2, _⟩ := rule_in_year (y0 + (j + 1 : Nat)) rs.m rs.w rs.d (by omega) hvs.1 hvs.2.1 hvs.2.2
  have ecast : y0 + ((j + 1 : Nat) : Int) = y0 + j + 1 := by omega
  rw [ecast] at c2
  have hon : rs.onset y0 j = Posix.ruleOrdinal (y0 + j) (.M rs.m rs.w rs.d) * 86400 + rs.tod := rfl
  have hoff : re.onset y0 j = Posix.ruleOrdinal (y0 + j) (.M re.m re.w re.d) * 86400 + re.tod := rfl
  have hnext : rs.onset y0 (j + 1) = Posix.ruleOrdinal (y0 + j + 1) (.M rs.m rs.w rs.d) * 86400 + rs.tod := by
    show Posix.ruleOrdinal (y0 + ((j + 1 : Nat) : Int)) _ * 86400 + _ = _; rw [ecast]; rfl
  have hys := TZ.ys_ge (y0 + j) (by omega)
  have hm1 := TZ.ystart_mono (y0 + j + 1) (y0 + j + 1 + 1) (by omega)
  have hge : 86400 ≤ w - TZ.epochShift + TZ.epochShift := by unfold TZ.ys at hys; omega
  have hsvp : 0 < dstOff - stdOff := by omega
  by_cases hyr : w < TZ.ys (y0 + j + 1)
  · have hy : TZ.yearOf (w - TZ.epochShift) = y0 + j := by
      rw [TZ.yearOf_iff _ _ hge]; unfold TZ.ys at *; exact ⟨by omega, by omega⟩
    have htr : (TZ.ofTzStr z).transitions (TZ.yearOf ((⟨w - TZ.epochShift, fold⟩ : TZ.Wall).wall)) =
        some (rs.onset y0 j - TZ.epochShift, re.onset y0 j - (dstOff - stdOff) - TZ.epochShift) := by
      show (TZ.ofTzStr z).transitions (TZ.yearOf (w - TZ.epochShift)) = _
      rw [hy]; exact pair j (by omega) (by omega)
    rw [TZ.RangeZone.utcoffset_eq (TZ.ofTzStr z) ⟨w - TZ.epochShift, fold⟩ _ _ hz.1 htr, hstd, hdst, hsv]
    congr 1
    exact closed_same_year _ _ _ w TZ.epochShift dstOff stdOff fold (by omega) hw1
  · have hy : TZ.yearOf (w - TZ.epochShift) = y0 + j + 1 := by
      rw [TZ.yearOf_iff _ _ hge]; unfold TZ.ys at *; exact ⟨by omega, by omega⟩
    have hp := pair (j + 1) (by omega) (by omega)
    rw [ecast] at hp
    have htr : (TZ.ofTzStr z).transitions (TZ.yearOf ((⟨w - TZ.epochShift, fold⟩ : TZ.Wall).wall)) =
        some (rs.onset y0 (j + 1) - TZ.epochShift, re.onset y0 (j + 1) - (dstOff - stdOff) - TZ.epochShift) := by
      show (TZ.ofTzStr z).transitions (TZ.yearOf (w - TZ.epochShift)) = _
      rw [hy]; exact hp
    rw [TZ.RangeZone.utcoffset_eq (TZ.ofTzStr z) ⟨w - TZ.epochShift, fold⟩ _ _ hz.1 htr, hstd, hdst, hsv]
    congr 1
    apply closed_next_year _ _ _ _ w TZ.epochShift dstOff stdOff fold (by omega) _ hw2 hsvp
    unfold TZ.ys at hyr; omega

end Onsets
