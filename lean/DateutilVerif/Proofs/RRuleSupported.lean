/-
  Proofs/RRuleSupported.lean — the summary statement: for every argument set covered by `Supported`
  (Spec/RRuleSupported.lean), the model's sequence is the specification's recurrence set.
-/
import DateutilVerif.Spec.RRuleSupported
import DateutilVerif.Proofs.RRuleDaily
import DateutilVerif.Proofs.RRuleYM
import DateutilVerif.Proofs.RRuleWeekly
import DateutilVerif.Proofs.RRuleNthMonthly
import DateutilVerif.Proofs.RRuleNthYearly
import DateutilVerif.Proofs.RRuleNthYM
import DateutilVerif.Proofs.RRuleEasterYearly
import DateutilVerif.Proofs.RRuleWeeknoYearly
import DateutilVerif.Proofs.RRuleHourlyBy
import DateutilVerif.Proofs.RRuleSecondly
import DateutilVerif.Proofs.RRuleMinutelyBy
import DateutilVerif.Proofs.RRuleDailyW
import DateutilVerif.Proofs.RRuleMonthlyW
import DateutilVerif.Proofs.RRuleMinutelyBH
import DateutilVerif.Proofs.RRuleSecondlyBS
import DateutilVerif.Proofs.RRuleMinutelyBHM
import DateutilVerif.Proofs.RRuleWeeklyW
import DateutilVerif.Proofs.RRuleMonthlyE
import DateutilVerif.Proofs.RRuleNthWYearly
import DateutilVerif.Proofs.RRuleNthWYM
import DateutilVerif.Proofs.RRuleNthEYearly
import DateutilVerif.Proofs.RRuleNthEYM
import DateutilVerif.Proofs.RRuleWeeknoEYearly
import DateutilVerif.Proofs.RRuleWeeklyE
import DateutilVerif.Proofs.RRuleEDaily
import DateutilVerif.Proofs.RRuleEHourly
import DateutilVerif.Proofs.RRuleEHourlyBy
import DateutilVerif.Proofs.RRuleEMinutely
import DateutilVerif.Proofs.RRuleEMinutelyBy
import DateutilVerif.Proofs.RRuleEMinutelyBH
import DateutilVerif.Proofs.RRuleEMinutelyBHM
import DateutilVerif.Proofs.RRuleESecondly
import DateutilVerif.Proofs.RRuleESecondlyBHM
import DateutilVerif.Proofs.RRuleESecondlyBS

namespace RRule
open Cal

variable {a : Args} {r : Rule}

theorem someWith_elim {α} {o : Option (List α)} {P : List α → Prop} (h : someWith o P) :
    ∃ l, o = some l ∧ l ≠ [] ∧ P l := by
  unfold someWith at h
  split at h
  · rename_i l; exact ⟨l, rfl, h.1, h.2⟩
  · exact absurd h id

theorem untilOk_elim (h : untilOk a) : ∀ u, a.untilDT = some u → Spec.RRule.startMicros a ≤ u.toMicros := by
  intro u hu; unfold untilOk at h; rw [hu] at h; exact h

theorem wArgOk_elim (h : wArgOk a) : WArg a := by
  rcases h with h | ⟨h1, h2, h3⟩
  · exact Or.inl h
  · obtain ⟨wl, hwl, hne, hok⟩ := someWith_elim h1
    exact Or.inr ⟨wl, hwl, hne, ⟨hok.1, hok.2⟩, h2, h3⟩

theorem optNonempty_elim {o : Option (List Int)} (h : optNonempty o) : o = none ∨ ∃ l, o = some l ∧ l ≠ [] := by
  rcases h with h | h
  · exact Or.inl h
  · obtain ⟨l, hl, hne, _⟩ := someWith_elim h
    exact Or.inr ⟨l, hl, hne⟩

theorem ne_none_elim {α} {o : Option α} (h : o ≠ none) : ∃ l, o = some l := by
  cases o with
  | none => exact absurd rfl h
  | some l => exact ⟨l, rfl⟩

theorem family_sound (f : Family) (h : family a = some f) : SupportedBy a f := by
  unfold family at h
  have := List.find?_some h
  exact of_decide_eq_true this

/-- **`iter_eq_spec` for every supported argument set**: if `a` lies in one of the proved families
    (`SupportedBy a f`, a decidable condition on the arguments alone) and the first `n` turns stay inside
    datetime's range (`inRange`), then what the model has yielded after `n` turns of the generator's loop is
    exactly the specification's recurrence set of the first `m` periods, where `m = n` for the calendar
    frequencies and `n ≤ m ≤ periodsPerTurn·n` for the sub-daily ones (turns that pass over empty periods). -/
theorem iter_eq_spec_supported (a : Args) (r : Rule) (h : construct a = .ok r) (f : Family)
    (hs : SupportedBy a f) (n : Nat) (hr : inRange a f n) :
    ∃ m, n ≤ m ∧ m ≤ f.periodsPerTurn * n ∧ (iter r n).1 = Spec.RRule.occ a m := by
  cases f with
  | daily =>
    obtain ⟨hf, ⟨hi, hv, hz⟩, h1, h2⟩ := hs
    exact ⟨n, by omega, by simp [Family.periodsPerTurn],
      iter_eq_spec_daily_w ⟨hf, hi, hv, wArgOk_elim h1, h2, hz⟩ h n hr⟩
  | weekly =>
    obtain ⟨hf, ⟨hi, hv, hz⟩, h1, h2, h3, h4, h5⟩ := hs
    exact ⟨n, by omega, by simp [Family.periodsPerTurn],
      iter_eq_spec_weekly ⟨⟨Or.inl hf, hi, hv, h1, h2, hz⟩, hf, h3, h4, untilOk_elim h5⟩ h n hr⟩
  | yearlyMonthly =>
    obtain ⟨hf, ⟨hi, hv, hz⟩, h1, h2, h3⟩ := hs
    exact ⟨n, by omega, by simp [Family.periodsPerTurn], iter_eq_spec_ym ⟨hf, hi, hv, h1, h2, hz, h3⟩ h n hr.1 hr.2⟩
  | monthlyNth =>
    obtain ⟨hf, ⟨hi, hv, hz⟩, h1, h2, h3⟩ := hs
    exact ⟨n, by omega, by simp [Family.periodsPerTurn],
      iter_eq_spec_monthly_nth ⟨hf, hi, hv, h1, h2, hz, someWith_elim h3⟩ h n hr⟩
  | yearlyNth =>
    obtain ⟨hf, ⟨hi, hv, hz⟩, h1, h2, h3, h4⟩ := hs
    exact ⟨n, by omega, by simp [Family.periodsPerTurn],
      iter_eq_spec_yearly_nth ⟨hf, hi, hv, h1, h2, hz, h3, someWith_elim h4⟩ h n hr⟩
  | yearlyBymonthNth =>
    obtain ⟨hf, ⟨hi, hv, hz⟩, h1, h2, h3, h4⟩ := hs
    exact ⟨n, by omega, by simp [Family.periodsPerTurn],
      iter_eq_spec_yearly_bymonth_nth ⟨hf, hi, hv, h1, h2, hz, someWith_elim h3, someWith_elim h4⟩ h n hr⟩
  | yearlyEaster =>
    obtain ⟨hf, ⟨hi, hv, hz⟩, h1, h2, h3⟩ := hs
    exact ⟨n, by omega, by simp [Family.periodsPerTurn],
      iter_eq_spec_yearly_easter ⟨hf, hi, hv, h1, hz, h2, someWith_elim h3⟩ h n hr.1 hr.2⟩
  | yearlyWeekno =>
    obtain ⟨hf, ⟨hi, hv, hz⟩, h1, h2, h3, h4⟩ := hs
    obtain ⟨wl, hwl, hne, hok⟩ := someWith_elim h4
    exact ⟨n, by omega, by simp [Family.periodsPerTurn],
      iter_eq_spec_yearly_weekno ⟨hf, hi, hv, h3, hz, h1, h2, ⟨wl, hwl, hne, ⟨hok.1, hok.2⟩⟩⟩ h n hr⟩
  | monthlyWeekno =>
    obtain ⟨hf, ⟨hi, hv, hz⟩, h1, h2, h3, h4⟩ := hs
    obtain ⟨wl, hwl, hne, hok⟩ := someWith_elim h4
    exact ⟨n, by omega, by simp [Family.periodsPerTurn],
      iter_eq_spec_monthly_weekno ⟨hf, hi, hv, h3, hz, h1, h2, ⟨wl, hwl, hne, ⟨hok.1, hok.2⟩⟩⟩ h n hr⟩
  | weeklyWeekno =>
    obtain ⟨hf, ⟨hi, hv, hz⟩, h1, h2, h3, h4, h5⟩ := hs
    obtain ⟨wl, hwl, hne, hok⟩ := someWith_elim h2
    exact ⟨n, by omega, by simp [Family.periodsPerTurn],
      iter_eq_spec_weekly_weekno ⟨hf, hi, hv, h1, hz, ⟨wl, hwl, hne, ⟨hok.1, hok.2⟩⟩, h3, h4, untilOk_elim h5⟩ h n hr⟩
  | hourly =>
    obtain ⟨hf, ⟨hi, hv, hz⟩, h1, h2, h3, h4, h5⟩ := hs
    exact iter_eq_spec_hourly ⟨hf, hi, hv, wArgOk_elim h1, h2, hz, h3, h4, h5⟩ h n hr
  | hourlyByhour =>
    obtain ⟨hf, ⟨hi, hv, hz⟩, h1, h2, h3, h4, h5⟩ := hs
    obtain ⟨l, hl, _, hlr⟩ := someWith_elim h3
    exact iter_eq_spec_hourly_byhour ⟨hf, hi, hv, wArgOk_elim h1, h2, hz, ⟨l, hl, hlr⟩, h4, h5⟩ h n hr
  | minutely =>
    obtain ⟨hf, ⟨hi, hv, hz⟩, h1, h2, h3, h4, h5⟩ := hs
    exact iter_eq_spec_minutely ⟨hf, hi, hv, wArgOk_elim h1, h2, hz, h3, h4, h5⟩ h n hr
  | minutelyByminute =>
    obtain ⟨hf, ⟨hi, hv, hz⟩, h1, h2, h3, h4, h5⟩ := hs
    obtain ⟨l, hl, _, hlr⟩ := someWith_elim h4
    exact iter_eq_spec_minutely_byminute ⟨hf, hi, hv, wArgOk_elim h1, h2, hz, h3, ⟨l, hl, hlr⟩, h5⟩ h n hr
  | minutelyByhour =>
    obtain ⟨hf, ⟨hi, hv, hz⟩, h1, h2, h3, h4, h5, h6⟩ := hs
    obtain ⟨l, hl, hne, _⟩ := someWith_elim h3
    exact iter_eq_spec_minutely_byhour ⟨hf, hi, hv, wArgOk_elim h1, h2, hz, ⟨l, hl, hne⟩, h4, h5, h6⟩ h n hr
  | minutelyByhm =>
    obtain ⟨hf, ⟨hi, hv, hz⟩, h1, h2, h3, h4, h5, h6⟩ := hs
    have hm4 : ∃ l, a.byminute = some l := by
      cases hb : a.byminute with
      | none => exact absurd hb h4
      | some l => exact ⟨l, rfl⟩
    exact iter_eq_spec_minutely_bhm ⟨hf, hi, hv, wArgOk_elim h1, h2, hz, optNonempty_elim h3, hm4, h5, h6⟩ h n hr
  | secondly =>
    obtain ⟨hf, ⟨hi, hv, hz⟩, h1, h2, h3, h4, h5⟩ := hs
    exact iter_eq_spec_secondly ⟨hf, hi, hv, wArgOk_elim h1, h2, hz, h3, h4, h5⟩ h n hr
  | secondlyByhm =>
    obtain ⟨hf, ⟨hi, hv, hz⟩, h1, h2, h3, h4, h5, h6⟩ := hs
    exact iter_eq_spec_secondly_bhm ⟨hf, hi, hv, wArgOk_elim h1, h2, hz, optNonempty_elim h3, optNonempty_elim h4, h5, h6⟩ h n hr
  | secondlyBysecond =>
    obtain ⟨hf, ⟨hi, hv, hz⟩, h1, h2, h3, h4, h5, h6⟩ := hs
    have hs5 : ∃ l, a.bysecond = some l := by
      cases hb : a.bysecond with
      | none => exact absurd hb h5
      | some l => exact ⟨l, rfl⟩
    exact iter_eq_spec_secondly_bysecond ⟨hf, hi, hv, wArgOk_elim h1, h2, hz, optNonempty_elim h3, optNonempty_elim h4, hs5, h6⟩ h n hr

  | dailyE =>
    obtain ⟨hf, ⟨⟨hi, hv, hz⟩, hw, he⟩⟩ := hs
    exact ⟨n, by omega, by simp [Family.periodsPerTurn],
      iter_eq_spec_daily_easter ⟨hf, hi, hv, hw, hz, someWith_elim he⟩ h n hr.1 hr.2⟩
  | hourlyE =>
    obtain ⟨hf, ⟨⟨hi, hv, hz⟩, hw, he⟩, h3, h4, h5⟩ := hs
    exact iter_eq_spec_hourly_easter ⟨hf, hi, hv, hw, someWith_elim he, hz, h3, h4, h5⟩ h n hr.1 hr.2
  | hourlyByhourE =>
    obtain ⟨hf, ⟨⟨hi, hv, hz⟩, hw, he⟩, h3, h4, h5⟩ := hs
    obtain ⟨l, hl, _, hlr⟩ := someWith_elim h3
    exact iter_eq_spec_hourly_byhour_easter ⟨hf, hi, hv, hw, someWith_elim he, hz, ⟨l, hl, hlr⟩, h4, h5⟩ h n hr.1 hr.2
  | minutelyE =>
    obtain ⟨hf, ⟨⟨hi, hv, hz⟩, hw, he⟩, h3, h4, h5⟩ := hs
    exact iter_eq_spec_minutely_easter ⟨hf, hi, hv, hw, someWith_elim he, hz, h3, h4, h5⟩ h n hr.1 hr.2
  | minutelyByminuteE =>
    obtain ⟨hf, ⟨⟨hi, hv, hz⟩, hw, he⟩, h3, h4, h5⟩ := hs
    obtain ⟨l, hl, _, hlr⟩ := someWith_elim h4
    exact iter_eq_spec_minutely_byminute_easter ⟨hf, hi, hv, hw, someWith_elim he, hz, h3, ⟨l, hl, hlr⟩, h5⟩ h n hr.1 hr.2
  | minutelyByhourE =>
    obtain ⟨hf, ⟨⟨hi, hv, hz⟩, hw, he⟩, h3, h4, h5, h6⟩ := hs
    obtain ⟨l, hl, hne, _⟩ := someWith_elim h3
    exact iter_eq_spec_minutely_byhour_easter ⟨hf, hi, hv, hw, someWith_elim he, hz, ⟨l, hl, hne⟩, h4, h5, h6⟩ h n hr.1 hr.2
  | minutelyByhmE =>
    obtain ⟨hf, ⟨⟨hi, hv, hz⟩, hw, he⟩, h3, h4, h5, h6⟩ := hs
    exact iter_eq_spec_minutely_bhm_easter
      ⟨hf, hi, hv, hw, someWith_elim he, hz, optNonempty_elim h3, ne_none_elim h4, h5, h6⟩ h n hr.1 hr.2
  | secondlyE =>
    obtain ⟨hf, ⟨⟨hi, hv, hz⟩, hw, he⟩, h3, h4, h5⟩ := hs
    exact iter_eq_spec_secondly_easter ⟨hf, hi, hv, hw, someWith_elim he, hz, h3, h4, h5⟩ h n hr.1 hr.2
  | secondlyByhmE =>
    obtain ⟨hf, ⟨⟨hi, hv, hz⟩, hw, he⟩, h3, h4, h5, h6⟩ := hs
    exact iter_eq_spec_secondly_bhm_easter
      ⟨hf, hi, hv, hw, someWith_elim he, hz, optNonempty_elim h3, optNonempty_elim h4, h5, h6⟩ h n hr.1 hr.2
  | secondlyBysecondE =>
    obtain ⟨hf, ⟨⟨hi, hv, hz⟩, hw, he⟩, h3, h4, h5, h6⟩ := hs
    exact iter_eq_spec_secondly_bysecond_easter
      ⟨hf, hi, hv, hw, someWith_elim he, hz, optNonempty_elim h3, optNonempty_elim h4, ne_none_elim h5, h6⟩ h n hr.1 hr.2
  | monthlyEaster =>
    obtain ⟨hf, ⟨⟨hi, hv, hz⟩, hw, he⟩, hp⟩ := hs
    exact ⟨n, by omega, by simp [Family.periodsPerTurn],
      iter_eq_spec_monthly_easter ⟨hf, hi, hv, hw, hz, hp, someWith_elim he⟩ h n hr.1 hr.2⟩
  | weeklyEaster =>
    obtain ⟨hf, ⟨hi, hv, hz⟩, hw, he, h3, h4, h5⟩ := hs
    exact ⟨n, by omega, by simp [Family.periodsPerTurn],
      iter_eq_spec_weekly_easter ⟨hf, hi, hv, hw, hz, someWith_elim he, h3, h4, untilOk_elim h5⟩ h n hr.1 hr.2⟩
  | monthlyNthWeekno =>
    obtain ⟨hf, ⟨hi, hv, hz⟩, he, hn, hw, hwn⟩ := hs
    obtain ⟨wl, hwl, hne, hok⟩ := someWith_elim hwn
    exact ⟨n, by omega, by simp [Family.periodsPerTurn],
      iter_eq_spec_monthly_nth_weekno ⟨hf, hi, hv, hw, he, hz, someWith_elim hn, ⟨wl, hwl, hne, ⟨hok.1, hok.2⟩⟩⟩ h n hr⟩
  | yearlyNthWeekno =>
    obtain ⟨hf, ⟨hi, hv, hz⟩, he, hm, hn, hw, hwn⟩ := hs
    obtain ⟨wl, hwl, hne, hok⟩ := someWith_elim hwn
    exact ⟨n, by omega, by simp [Family.periodsPerTurn],
      iter_eq_spec_yearly_nth_weekno ⟨hf, hi, hv, hw, he, hz, hm, someWith_elim hn, ⟨wl, hwl, hne, ⟨hok.1, hok.2⟩⟩⟩ h n hr⟩
  | yearlyBymonthNthWeekno =>
    obtain ⟨hf, ⟨hi, hv, hz⟩, he, hm, hn, hw, hwn⟩ := hs
    obtain ⟨wl, hwl, hne, hok⟩ := someWith_elim hwn
    exact ⟨n, by omega, by simp [Family.periodsPerTurn],
      iter_eq_spec_yearly_bymonth_nth_weekno
        ⟨hf, hi, hv, hw, he, hz, someWith_elim hm, someWith_elim hn, ⟨wl, hwl, hne, ⟨hok.1, hok.2⟩⟩⟩ h n hr⟩
  | monthlyNthEaster =>
    obtain ⟨hf, ⟨⟨hi, hv, hz⟩, hw, he⟩, hn⟩ := hs
    exact ⟨n, by omega, by simp [Family.periodsPerTurn],
      iter_eq_spec_monthly_nth_easter ⟨hf, hi, hv, hw, hz, someWith_elim hn, someWith_elim he⟩ h n hr.1 hr.2⟩
  | yearlyNthEaster =>
    obtain ⟨hf, ⟨⟨hi, hv, hz⟩, hw, he⟩, hm, hn⟩ := hs
    exact ⟨n, by omega, by simp [Family.periodsPerTurn],
      iter_eq_spec_yearly_nth_easter ⟨hf, hi, hv, hw, hz, hm, someWith_elim hn, someWith_elim he⟩ h n hr.1 hr.2⟩
  | yearlyBymonthNthEaster =>
    obtain ⟨hf, ⟨⟨hi, hv, hz⟩, hw, he⟩, hm, hn⟩ := hs
    exact ⟨n, by omega, by simp [Family.periodsPerTurn],
      iter_eq_spec_yearly_bymonth_nth_easter
        ⟨hf, hi, hv, hw, hz, someWith_elim hm, someWith_elim hn, someWith_elim he⟩ h n hr.1 hr.2⟩
  | yearlyWeeknoEaster =>
    obtain ⟨hf, ⟨hi, hv, hz⟩, hp, hw, hwn, he⟩ := hs
    obtain ⟨wl, hwl, hne, hok⟩ := someWith_elim hwn
    exact ⟨n, by omega, by simp [Family.periodsPerTurn],
      iter_eq_spec_yearly_weekno_easter
        ⟨hf, hi, hv, hw, hz, hp, ⟨wl, hwl, hne, ⟨hok.1, hok.2⟩⟩, someWith_elim he⟩ h n hr.1 hr.2⟩

end RRule
