/-
  Proofs/ParserGenStrids.lean — `_ymd._resolve_from_stridxs` re-translated from /repo's parser/_parser.py
  (Generated/ParserOps.lean) = `PM.Ymd.resolveFromStridxs`, on every dict `resolve_ymd` can hand it (the labelled
  indices in the order y, m, d), whatever the indices and the members are.
-/
import DateutilVerif.Proofs.ParserGenYmd

namespace PGen
open PM Py
set_option linter.unusedSimpArgs false

theorem throw_eq {α : Type} (e : PyErr) : (throw e : R α) = Except.error e := rfl

macro "pg_simp" : tactic =>
  `(tactic| simp [PPy.dictCompM, PPy.dictGet, PPy.dictFind, PPy.dictSet, bind_ok, bind_err, bind_eq, pure_eq, map_eq,
                  bind_ite, throw_eq, Except.map])

/-- `_ymd._resolve_from_stridxs` as written now, on the dict `resolve_ymd` builds = `PM.Ymd.resolveFromStridxs` -/
theorem resolveFromStridxs_eq (self : Ymd) :
    Gen.P.ymd_resolveFromStridxs self self.strids = self.resolveFromStridxs := by
  unfold Gen.P.ymd_resolveFromStridxs PM.Ymd.resolveFromStridxs PM.completeStrids PM.Ymd.strids
  rcases self with ⟨vals, c, d, m, y⟩
  cases y with
  | none =>
    cases m with
    | none =>
      cases d with
      | none => pg_simp
      | some di =>
        pg_simp
        split
        · generalize PM.Ymd.at _ (di : Int) = r
          cases r <;> simp [bind_ok, bind_err]
        · rfl
    | some mi =>
      cases d with
      | none =>
        pg_simp
        split
        · generalize PM.Ymd.at _ (mi : Int) = r
          cases r <;> simp [bind_ok, bind_err]
        · rfl
      | some di =>
        by_cases h3 : vals.length = 3
        · match vals, h3 with
          | [a, b, c], _ =>
            rcases mi with _ | _ | _ | mi <;> rcases di with _ | _ | _ | di <;>
              simp [PPy.dictCompM, PPy.dictGet, PPy.dictFind, PPy.dictSet, bind_ok, bind_err, bind_eq, pure_eq, map_eq,
                    bind_ite, throw_eq, Except.map, PM.Ymd.at, Py.getIdx, List.range, List.range.loop]
        · simp [h3, PPy.dictCompM, PPy.dictGet, PPy.dictFind, PPy.dictSet, bind_ok, bind_err, bind_eq, pure_eq, map_eq,
                bind_ite, throw_eq, Except.map]
          split
          · generalize PM.Ymd.at _ (mi : Int) = r1
            generalize PM.Ymd.at _ (di : Int) = r2
            cases r1 <;> cases r2 <;> simp [bind_ok, bind_err]
          · rfl
  | some yi =>
    cases m with
    | none =>
      cases d with
      | none =>
        pg_simp
        split
        · generalize PM.Ymd.at _ (yi : Int) = r
          cases r <;> simp [bind_ok, bind_err]
        · rfl
      | some di =>
        by_cases h3 : vals.length = 3
        · match vals, h3 with
          | [a, b, c], _ =>
            rcases yi with _ | _ | _ | yi <;> rcases di with _ | _ | _ | di <;>
              simp [PPy.dictCompM, PPy.dictGet, PPy.dictFind, PPy.dictSet, bind_ok, bind_err, bind_eq, pure_eq, map_eq,
                    bind_ite, throw_eq, Except.map, PM.Ymd.at, Py.getIdx, List.range, List.range.loop]
        · simp [h3, PPy.dictCompM, PPy.dictGet, PPy.dictFind, PPy.dictSet, bind_ok, bind_err, bind_eq, pure_eq, map_eq,
                bind_ite, throw_eq, Except.map]
          split
          · generalize PM.Ymd.at _ (yi : Int) = r1
            generalize PM.Ymd.at _ (di : Int) = r2
            cases r1 <;> cases r2 <;> simp [bind_ok, bind_err]
          · rfl
    | some mi =>
      cases d with
      | none =>
        by_cases h3 : vals.length = 3
        · match vals, h3 with
          | [a, b, c], _ =>
            rcases yi with _ | _ | _ | yi <;> rcases mi with _ | _ | _ | mi <;>
              simp [PPy.dictCompM, PPy.dictGet, PPy.dictFind, PPy.dictSet, bind_ok, bind_err, bind_eq, pure_eq, map_eq,
                    bind_ite, throw_eq, Except.map, PM.Ymd.at, Py.getIdx, List.range, List.range.loop]
        · simp [h3, PPy.dictCompM, PPy.dictGet, PPy.dictFind, PPy.dictSet, bind_ok, bind_err, bind_eq, pure_eq, map_eq,
                bind_ite, throw_eq, Except.map]
          split
          · generalize PM.Ymd.at _ (yi : Int) = r1
            generalize PM.Ymd.at _ (mi : Int) = r2
            cases r1 <;> cases r2 <;> simp [bind_ok, bind_err]
          · rfl
      | some di =>
        pg_simp
        split
        · generalize PM.Ymd.at _ (yi : Int) = r1
          generalize PM.Ymd.at _ (mi : Int) = r2
          generalize PM.Ymd.at _ (di : Int) = r3
          cases r1 <;> cases r2 <;> cases r3 <;> simp [bind_ok, bind_err]
        · rfl

end PGen
