/-
  Proofs/RRuleMinutelyLoop.lean — the MINUTELY reachability loop (rrule.py 960-979) with BYHOUR and no BYMINUTE,
  beyond its first pass: started `W` minutes into hour `hour`, it visits the grid minutes
  `D t = hour·60 + W + t·interval` (t = 1, 2, …) and stops at the LEAST `t` whose hour is listed, provided one
  occurs within the fuel; and the orbit of `+interval` on the minutes of the day has period
  `1440 / gcd(interval, 1440)` — the loop's own bound — so a listed hour anywhere on the orbit is met in time.
-/
import DateutilVerif.Proofs.RRuleMinutelyBy

namespace RRule
open Cal

/-- the loop with BYHOUR `bh` and no BYMINUTE -/
theorem minutelyLoop_bh (r : Rule) (hi : 1 ≤ r.interval) (bh : List Int) (hbm : r.byminute = none) (hbh : r.byhour = some bh)
    (htr : truthy (some bh) = true) :
    ∀ (n : Nat) (W hour day : Int) (fx : Bool), 0 ≤ W → 0 ≤ hour → hour ≤ 23 →
    (∃ t : Nat, 1 ≤ t ∧ t ≤ n ∧ bh.contains ((hour * 60 + W + t * r.interval) / 60 % 24) = true) →
    ∃ t : Nat, 1 ≤ t ∧ t ≤ n ∧ bh.contains ((hour * 60 + W + t * r.interval) / 60 % 24) = true ∧
      (∀ t' : Nat, 1 ≤ t' → t' < t → bh.contains ((hour * 60 + W + t' * r.interval) / 60 % 24) = false) ∧
      minutelyLoop r n W hour day fx =
        .ok ((hour * 60 + W + t * r.interval) % 60, (hour * 60 + W + t * r.interval) / 60 % 24,
             day + (hour * 60 + W + t * r.interval) / 1440,
             fx || decide ((hour * 60 + W + t * r.interval) / 1440 ≠ 0)) := by
  intro n
  induction n with
  | zero => intro W hour day fx _ _ _ ⟨t, h1, h2, _⟩; omega
  | succ n ih =>
    intro W hour day fx hW h0 h23 ⟨ts, hts1, hts2, hts3⟩
    have htn : truthy (none : Option (List Int)) = false := rfl
    -- one pass
    obtain ⟨nh, hnh⟩ : ∃ nh, nh = (W + r.interval) / 60 := ⟨_, rfl⟩
    obtain ⟨m1, hm1⟩ : ∃ m1, m1 = (W + r.interval) % 60 := ⟨_, rfl⟩
    obtain ⟨c, hc⟩ : ∃ c, c = (hour + nh) / 24 := ⟨_, rfl⟩
    obtain ⟨h1, hh1⟩ : ∃ h1, h1 = (hour + nh) % 24 := ⟨_, rfl⟩
    have e1 : ((1 : Nat) : Int) * r.interval = r.interval := by simp
    have hD1 : (hour * 60 + W + ((1 : Nat) : Int) * r.interval) / 60 % 24 = h1 := by rw [e1]; omega
    unfold minutelyLoop
    rw [hbm, hbh, htn, htr]
    simp only [Bool.false_eq_true, ↓reduceIte, Py.divmod, Py.fdiv_pos _ (by decide : (0 : Int) < 24),
      Py.fmod_pos _ (by decide : (0 : Int) < 24), Py.fdiv_pos _ (by decide : (0 : Int) < 60),
      Py.fmod_pos _ (by decide : (0 : Int) < 60), Bool.not_true, Bool.false_or, memO]
    rw [← hnh, ← hm1, ← hc, ← hh1]
    by_cases hok : bh.contains h1 = true
    · rw [if_pos hok]
      refine ⟨1, by omega, by omega, by rw [hD1]; exact hok, by intro t' a b; omega, ?_⟩
      rw [e1]
      have a1 : (hour * 60 + W + r.interval) % 60 = m1 := by omega
      have a2 : (hour * 60 + W + r.interval) / 60 % 24 = h1 := by omega
      have a3 : (hour * 60 + W + r.interval) / 1440 = c := by omega
      rw [a1, a2, a3]
      by_cases hz : c = 0 <;> simp [hz]
    · rw [if_neg hok]
      have hokf : bh.contains h1 = false := by
        cases hq : bh.contains h1 with
        | false => rfl
        | true => exact absurd hq hok
      have hts' : ts ≠ 1 := by
        intro e; subst e; rw [hD1, hokf] at hts3; cases hts3
      have key : ∀ s : Nat, h1 * 60 + m1 + (s : Int) * r.interval =
          hour * 60 + W + ((s + 1 : Nat) : Int) * r.interval - 1440 * c := by
        intro s; push_cast; rw [Int.add_mul]; omega
      have hc0 : 0 ≤ c := by omega
      obtain ⟨t, ht1, ht2, ht3, ht4, ht5⟩ := ih m1 h1 (if c ≠ 0 then day + c else day) (if c ≠ 0 then true else fx)
        (by omega) (by omega) (by omega)
        ⟨ts - 1, by omega, by omega, by
          rw [key]
          have e : ts - 1 + 1 = ts := by omega
          rw [e]
          generalize hour * 60 + W + (ts : Int) * r.interval = V at hts3 ⊢
          have : (V - 1440 * c) / 60 % 24 = V / 60 % 24 := by omega
          rw [this]; exact hts3⟩
      refine ⟨t + 1, by omega, by omega, ?_, ?_, ?_⟩
      · rw [key] at ht3
        generalize hour * 60 + W + ((t + 1 : Nat) : Int) * r.interval = V at ht3 ⊢
        have : (V - 1440 * c) / 60 % 24 = V / 60 % 24 := by omega
        rw [this] at ht3; exact ht3
      · intro t' a b
        by_cases ht' : t' = 1
        · subst ht'; rw [hD1]; exact hokf
        · have := ht4 (t' - 1) (by omega) (by omega)
          rw [key] at this
          have e : t' - 1 + 1 = t' := by omega
          rw [e] at this
          generalize hour * 60 + W + (t' : Int) * r.interval = V at this ⊢
          have e2 : (V - 1440 * c) / 60 % 24 = V / 60 % 24 := by omega
          rw [e2] at this; exact this
      · rw [ht5, key]
        generalize hV : hour * 60 + W + ((t + 1 : Nat) : Int) * r.interval = V
        have b1 : (V - 1440 * c) % 60 = V % 60 := by omega
        have b2 : (V - 1440 * c) / 60 % 24 = V / 60 % 24 := by omega
        have b3 : (V - 1440 * c) / 1440 = V / 1440 - c := by omega
        rw [b1, b2, b3]
        have hti : (0 : Int) ≤ (t : Int) * r.interval := Int.mul_nonneg (by omega) (by omega)
        have hVn : 0 ≤ V - 1440 * c := by rw [← hV, ← key]; omega
        have hq0 : 0 ≤ V / 1440 - c := by omega
        by_cases hz : c = 0
        · subst hz; simp
        · have hq : V / 1440 ≠ 0 := by omega
          simp [hz, hq]
          omega

/-- the orbit of `+interval` on the minutes of the day has period `base / gcd(interval, base)` in the step index -/
theorem orbit_window (interval base : Int) (hb : 0 < base) (k j : Nat) :
    ∃ t : Nat, 1 ≤ t ∧ (t : Int) ≤ base / ((Int.gcd interval base : Nat) : Int) ∧
      ∃ z : Int, ((k + t : Nat) : Int) * interval = (j : Int) * interval + base * z := by
  obtain ⟨g, hg⟩ : ∃ g : Int, g = ((Int.gcd interval base : Nat) : Int) := ⟨_, rfl⟩
  rw [← hg]
  have hgpos : 0 < g := by
    rw [hg]
    have : 0 < Int.gcd interval base := Int.gcd_pos_of_ne_zero_right _ (by omega)
    omega
  have d1 : g ∣ interval := by rw [hg]; exact Int.gcd_dvd_left interval base
  have d2 : g ∣ base := by rw [hg]; exact Int.gcd_dvd_right interval base
  obtain ⟨P, hP⟩ : ∃ P, P = base / g := ⟨_, rfl⟩
  rw [← hP]
  have hPg : g * P = base := by rw [hP]; exact Int.mul_ediv_cancel' d2
  have hig : g * (interval / g) = interval := Int.mul_ediv_cancel' d1
  have hPpos : 1 ≤ P := by
    by_cases h : P < 1
    · exfalso
      have : g * P ≤ g * 0 := Int.mul_le_mul_of_nonneg_left (by omega) (by omega)
      rw [hPg, Int.mul_zero] at this; omega
    · omega
  have hPi : P * interval = base * (interval / g) := by
    calc P * interval = P * (g * (interval / g)) := by rw [hig]
      _ = (g * P) * (interval / g) := by rw [← Int.mul_assoc, Int.mul_comm P g]
      _ = base * (interval / g) := by rw [hPg]
  -- t = ((j − k − 1) mod P) + 1
  obtain ⟨q, hq⟩ : ∃ q, q = ((j : Int) - k - 1) / P := ⟨_, rfl⟩
  obtain ⟨rr, hrr⟩ : ∃ rr, rr = ((j : Int) - k - 1) % P := ⟨_, rfl⟩
  have hdecomp : rr + P * q = (j : Int) - k - 1 := by rw [hrr, hq]; exact Int.emod_add_mul_ediv _ _
  have hr0 : 0 ≤ rr := by rw [hrr]; exact Int.emod_nonneg _ (by omega)
  have hr1 : rr < P := by rw [hrr]; exact Int.emod_lt_of_pos _ (by omega)
  refine ⟨(rr + 1).toNat, by omega, by omega, -(q * (interval / g)), ?_⟩
  have ecast : (((k + (rr + 1).toNat : Nat)) : Int) = (j : Int) - P * q := by omega
  rw [ecast, Int.sub_mul, Int.mul_assoc, Int.mul_comm q interval, ← Int.mul_assoc, hPi, Int.mul_neg]
  rw [Int.mul_assoc, Int.mul_comm (interval / g) q]
  omega

end RRule
