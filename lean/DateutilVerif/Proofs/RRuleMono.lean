/-
  Proofs/RRuleMono.lean — strict monotonicity of the yielded sequence.
  Part 1 (this file): the candidates of one period are drawn from `dayset × timeset`, and are
  strictly increasing; the generic "window" argument over periods.
-/
import DateutilVerif.Proofs.RRuleSorted
import DateutilVerif.Proofs.RRuleDayset
import DateutilVerif.Proofs.RRuleEmit

namespace RRule
open Cal

def secsLt (x y : Inst) : Prop := x.secs < y.secs

/-- an instant with a valid wall time -/
def InstOk (x : Inst) : Prop := ValidHMS (x.h, x.m, x.s)

theorem getIdx_mem {α} (l : List α) (i : Int) (x : α) (h : Py.getIdx l i = .ok x) : x ∈ l := by
  unfold Py.getIdx at h
  dsimp only at h
  generalize (if i < 0 then i + (l.length : Int) else i) = j at h
  split at h
  · cases h
  · split at h
    · rename_i y hy
      injection h with h; subst h
      exact List.mem_of_getElem? hy
    · cases h

/-! ### the surviving days are a sublist of the day set -/

theorem filterDays_sublist (r : Rule) (info : Info) : ∀ (ds days : List Int) (fl : Bool),
    filterDays r info ds = .ok (days, fl) → days.Sublist ds := by
  intro ds
  induction ds with
  | nil => intro days fl h; simp [filterDays] at h; rw [h.1]; exact List.Sublist.refl _
  | cons i is ih =>
    intro days fl h
    unfold filterDays at h
    split at h
    · cases h
    · split at h
      · cases h
      · rename_i l fl' hl
        split at h
        · injection h with h; injection h with h1 h2; subst h1
          exact (ih l fl' hl).cons i
        · injection h with h; injection h with h1 h2; subst h1
          exact (ih l fl' hl).cons_cons i

/-! ### non-BYSETPOS branch -/

def mkInst (o : Int) (t : HMS) : Inst := { ord := o, h := t.1, m := t.2.1, s := t.2.2 }

theorem expandDays_mem (yo : Int) (ts : List HMS) : ∀ (days : List Int) (x : Inst),
    x ∈ (expandDays yo ts days).1 → ∃ i ∈ days, ∃ t ∈ ts, x = mkInst (yo + i) t := by
  intro days
  induction days with
  | nil => intro x hx; simp [expandDays] at hx
  | cons i is ih =>
    intro x hx
    unfold expandDays at hx
    unfold checkOrd at hx
    split at hx
    · rename_i e he; split at he <;> cases he
      simp at hx
    · rename_i o ho
      split at ho
      · injection ho with ho; subst ho
        dsimp only at hx
        rcases List.mem_append.mp hx with h | h
        · simp only [List.mem_map] at h
          obtain ⟨t, ht, rfl⟩ := h
          exact ⟨i, List.mem_cons_self .., t, ht, rfl⟩
        · obtain ⟨j, hj, t, ht, e⟩ := ih x h
          exact ⟨j, List.mem_cons_of_mem _ hj, t, ht, e⟩
      · cases ho

theorem mkInst_lt_same (o : Int) (a b : HMS) (ha : ValidHMS a) (hb : ValidHMS b) (h : ltHMS a b = true) :
    secsLt (mkInst o a) (mkInst o b) := by
  have := (ltHMS_iff a b ha hb).mp h
  unfold secsLt Inst.secs mkInst tod at *; dsimp only; omega

theorem mkInst_lt_days (o o' : Int) (a b : HMS) (ha : ValidHMS a) (hb : ValidHMS b) (h : o < o') :
    secsLt (mkInst o a) (mkInst o' b) := by
  unfold ValidHMS at ha hb
  unfold secsLt Inst.secs mkInst; dsimp only; omega

theorem expandDays_sorted (yo : Int) (ts : List HMS) (hts : TsOk ts) : ∀ (days : List Int),
    days.Pairwise (· < ·) → (expandDays yo ts days).1.Pairwise secsLt := by
  intro days
  induction days with
  | nil => intro _; simp [expandDays]
  | cons i is ih =>
    intro hd
    rw [List.pairwise_cons] at hd
    unfold expandDays
    split
    · simp
    · rename_i o ho
      have ho' : o = yo + i := by
        unfold checkOrd at ho; split at ho
        · injection ho with ho; exact ho.symm
        · cases ho
      subst ho'
      dsimp only
      rw [List.pairwise_append]
      refine ⟨?_, ih hd.2, ?_⟩
      · rw [List.pairwise_map]
        exact List.Pairwise.imp_of_mem (by
          intro a b ha hb hab
          exact mkInst_lt_same _ a b (hts.2 a ha) (hts.2 b hb) hab) hts.1
      · intro x hx y hy
        simp only [List.mem_map] at hx
        obtain ⟨t, ht, rfl⟩ := hx
        obtain ⟨j, hj, u, hu, rfl⟩ := expandDays_mem yo ts is y hy
        exact mkInst_lt_days _ _ t u (hts.2 t ht) (hts.2 u hu) (by have := hd.1 j hj; omega)

/-! ### BYSETPOS branch -/

theorem strictInst : StrictOn ltInst InstOk := by
  refine ⟨?_, ?_, ?_⟩
  · intro a b c; simp only [ltInst, decide_eq_true_eq]; omega
  · intro a; simp [ltInst]
  · rintro ⟨oa, ha, ma, sa⟩ ⟨ob, hb, mb, sb⟩ va vb hne h
    unfold InstOk ValidHMS at va vb
    unfold ltInst at h ⊢
    rw [decide_eq_false_iff_not] at h
    rw [decide_eq_true_eq]
    unfold Inst.secs at h ⊢
    dsimp only at h ⊢ va vb
    have : ¬ (oa = ob ∧ ha = hb ∧ ma = mb ∧ sa = sb) := by
      intro ⟨e1, e2, e3, e4⟩; exact hne (by rw [e1, e2, e3, e4])
    omega

theorem selectPos_mem (yo : Int) (days : List Int) (ts : List HMS) (pos : Int) (x : Inst)
    (h : selectPos yo days ts pos = .ok (some x)) : ∃ i ∈ days, ∃ t ∈ ts, x = mkInst (yo + i) t := by
  unfold selectPos at h
  dsimp only at h
  split at h
  · rename_i i t hi ht
    unfold checkOrd at h
    split at h
    · rename_i o ho
      split at ho
      · injection ho with ho; subst ho
        injection h with h; injection h with h; subst h
        exact ⟨i, getIdx_mem _ _ _ hi, t, getIdx_mem _ _ _ ht, rfl⟩
      · cases ho
    · cases h
  · injection h with h; cases h

theorem buildPoslist_spec (yo : Int) (days : List Int) (ts : List HMS) (hts : TsOk ts) (sp : List Int)
    (l : List Inst) (h : buildPoslist yo days ts sp = .ok l) :
    l.Pairwise secsLt ∧ ∀ x ∈ l, ∃ i ∈ days, ∃ t ∈ ts, x = mkInst (yo + i) t := by
  unfold buildPoslist at h
  -- invariant of the accumulation loop
  have hloop : ∀ (sp : List Int) (acc res : List Inst),
      (acc.Nodup ∧ ∀ x ∈ acc, ∃ i ∈ days, ∃ t ∈ ts, x = mkInst (yo + i) t) →
      poslistLoop yo days ts sp acc = .ok res →
      (res.Nodup ∧ ∀ x ∈ res, ∃ i ∈ days, ∃ t ∈ ts, x = mkInst (yo + i) t) := by
    intro sp
    induction sp with
    | nil => intro acc res hacc h; simp [poslistLoop] at h; subst h; exact hacc
    | cons p ps ih =>
      intro acc res hacc h
      unfold poslistLoop at h
      split at h
      · cases h
      · rename_i y hx
        apply ih _ res _ h
        split
        · exact hacc
        · rename_i hc
          refine ⟨?_, ?_⟩
          · rw [List.nodup_append]
            refine ⟨hacc.1, by simp, ?_⟩
            intro a ha b hb
            simp at hb; subst hb
            intro heq; subst heq
            exact hc (List.contains_iff_mem.mpr ha)
          · intro z hz
            rcases List.mem_append.mp hz with hz | hz
            · exact hacc.2 z hz
            · simp at hz; subst hz; exact selectPos_mem yo days ts p _ hx
      · exact ih acc res hacc h
  split at h
  · rename_i l0 hl0
    injection h with h; subst h
    obtain ⟨hnd, hmem⟩ := hloop sp [] l0 ⟨List.nodup_nil, by simp⟩ hl0
    have hok : ∀ y ∈ l0, InstOk y := by
      intro y hy
      obtain ⟨i, _, t, ht, rfl⟩ := hmem y hy
      exact hts.2 t ht
    refine ⟨?_, ?_⟩
    · exact (sortBy_pairwise strictInst l0 hok hnd).imp (by
        intro a b hab; simpa [ltInst, secsLt] using hab)
    · intro x hx; exact hmem x ((mem_sortBy ltInst x l0).mp hx)
  · cases h

/-! ### one period -/

/-- the candidates of a period are strictly increasing and drawn from `dayset × timeset` -/
theorem periodResults_spec (r : Rule) (st : State) (ds : List Int) (cands : List Inst)
    (pend : Option Py.PyErr) (fl : Bool)
    (hds : dayset r st.info st.cur = .ok ds) (hinc : ds.Pairwise (· < ·)) (hts : TsOk st.timeset)
    (h : periodResults r st = .ok (cands, pend, fl)) :
    cands.Pairwise secsLt ∧
    ∀ x ∈ cands, ∃ i ∈ ds, ∃ t ∈ st.timeset, x = mkInst (st.info.yearordinal + i) t := by
  unfold periodResults at h
  rw [hds] at h
  dsimp only at h
  split at h
  · cases h
  · rename_i days filtered hfd
    have hsub := filterDays_sublist r st.info ds days filtered hfd
    have hdays : days.Pairwise (· < ·) := hinc.sublist hsub
    split at h
    · split at h
      · cases h
      · rename_i l hl
        injection h with h; injection h with h1 _; subst h1
        obtain ⟨hs, hm⟩ := buildPoslist_spec _ days st.timeset hts _ l hl
        refine ⟨hs, ?_⟩
        intro x hx
        obtain ⟨i, hi, t, ht, e⟩ := hm x hx
        exact ⟨i, hsub.subset hi, t, ht, e⟩
    · injection h with h; injection h with h1 _; subst h1
      refine ⟨expandDays_sorted _ _ hts days hdays, ?_⟩
      intro x hx
      obtain ⟨i, hi, t, ht, e⟩ := expandDays_mem _ _ days x hx
      exact ⟨i, hsub.subset hi, t, ht, e⟩

/-- what `step` yields is a sublist of the period's candidates -/
theorem step_sublist (r : Rule) (st : State) :
    (step r st).1 = [] ∨ ∃ cands pend fl, periodResults r st = .ok (cands, pend, fl) ∧ (step r st).1.Sublist cands := by
  unfold step
  split
  · left; rfl
  · rename_i cands pend fl hres
    right
    refine ⟨cands, pend, fl, hres, ?_⟩
    dsimp only
    have := emit_sublist r cands st.count
    split
    · exact this
    · split <;> exact this

/-! ### the window argument over periods -/

theorem run_pairwise (r : Rule) (I : State → Prop) (lo : State → Int)
    (hlo : ∀ st, I st → ∀ x ∈ (step r st).1, lo st ≤ x.secs)
    (hsorted : ∀ st, I st → (step r st).1.Pairwise secsLt)
    (hnext : ∀ st st', I st → (step r st).2 = .ok st' →
      I st' ∧ lo st ≤ lo st' ∧ ∀ x ∈ (step r st).1, x.secs < lo st') :
    ∀ (n : Nat) (st : State), I st →
      (run r n st).1.Pairwise secsLt ∧ ∀ x ∈ (run r n st).1, lo st ≤ x.secs := by
  intro n
  induction n with
  | zero => intro st _; simp [run]
  | succ n ih =>
    intro st hI
    unfold run
    have h1 := hlo st hI
    have h2 := hsorted st hI
    have h3 := hnext st
    generalize step r st = sr at h1 h2 h3
    obtain ⟨out, res⟩ := sr
    cases res with
    | error s => exact ⟨h2, h1⟩
    | ok st' =>
      dsimp only
      obtain ⟨hI', hle, hup⟩ := h3 st' hI rfl
      obtain ⟨ihs, ihl⟩ := ih st' hI'
      refine ⟨?_, ?_⟩
      · rw [List.pairwise_append]
        refine ⟨h2, ihs, ?_⟩
        intro x hx y hy
        have := hup x hx
        have := ihl y hy
        unfold secsLt; omega
      · intro x hx
        rcases List.mem_append.mp hx with hx | hx
        · exact h1 x hx
        · have := ihl x hx; omega

end RRule
