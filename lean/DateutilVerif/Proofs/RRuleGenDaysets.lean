/-
  Proofs/RRuleGenDaysets.lean — the re-translated `_iterinfo.ydayset / mdayset / wdayset / ddayset`
  (Generated/RRuleKernels.lean) against the hand model's `dayset`.

  The methods return `(dset, start, end)` where `dset` is `[None]*n` with `dset[k] = k` written for the days of the
  period; `rrule._iter` reads exactly `dset[start:end]`.  The model's `dayset` is the list `range(start, end)`.
  `DaysetAgrees x m` says: `x` raises what `m` raises, or `x = (dset, start, end)`, `m = range(start, end)` and
  `dset[k] == k` for every `start ≤ k < end`.
-/
import DateutilVerif.Proofs.RRuleGenLoops
import DateutilVerif.Proofs.RRuleTables

namespace RRuleGen
open RRule RrPy

def DaysetOK (dset : List (Option Int)) (s e : Int) : Prop :=
  ∀ k, s ≤ k → k < e → Py.getIdx dset k = .ok (some k)

def DaysetAgrees (x : Py.R (List (Option Int) × Int × Int)) (m : Py.R (List Int)) : Prop :=
  match x with
  | .error e => m = .error e
  | .ok (dset, s, e) => m = .ok (intRange s e) ∧ DaysetOK dset s e

theorem mem_intRange (a b k : Int) : k ∈ intRange a b ↔ a ≤ k ∧ k < b := by
  simp only [intRange, List.mem_map, List.mem_range]
  constructor
  · rintro ⟨n, hn, rfl⟩; omega
  · intro h; exact ⟨(k - a).toNat, by omega, by omega⟩

theorem getIdx_nonneg {α} (l : List α) (i : Int) (h0 : 0 ≤ i) (h1 : i < l.length) :
    Py.getIdx l i = .ok (l[i.toNat]'(by omega)) := by
  have h2 : ¬ (i < 0 ∨ i ≥ (l.length : Int)) := by omega
  have h3 : ¬ i < 0 := by omega
  have h4 : i.toNat < l.length := by omega
  simp [Py.getIdx, h3, h2, List.getElem?_eq_getElem h4]
  exact h1

theorem setItem_nonneg {α} (l : List α) (i : Int) (v : α) (h0 : 0 ≤ i) :
    RrPy.setItem l i v = if i ≥ (l.length : Int) then .error .IndexError else .ok (l.set i.toNat v) := by
  unfold RrPy.setItem
  have : ¬ i < 0 := by omega
  simp only [this, if_false]
  by_cases h : i ≥ (l.length : Int)
  · simp [h]
  · have h2 : ¬ (i < 0 ∨ i ≥ (l.length : Int)) := by omega
    simp [h, h2]

theorem getIdx_set_self {α} (l : List α) (i : Int) (v : α) (h0 : 0 ≤ i) (h1 : i < l.length) :
    Py.getIdx (l.set i.toNat v) i = .ok v := by
  rw [getIdx_nonneg _ _ h0 (by simpa using h1)]
  simp

theorem getIdx_set_ne {α} (l : List α) (i k : Int) (v : α) (h0 : 0 ≤ i) (hk : 0 ≤ k) (hne : k ≠ i) :
    Py.getIdx (l.set i.toNat v) k = Py.getIdx l k := by
  unfold Py.getIdx
  have : ¬ k < 0 := by omega
  simp only [this, if_false, List.length_set]
  have hn : i.toNat ≠ k.toNat := by omega
  rw [List.getElem?_set_ne hn]

/-! ### `ddayset` -/

theorem ddayset_core (yl i : Int) (hi : 0 ≤ i) :
    DaysetAgrees ((RrPy.setItem (List.replicate yl.toNat (none : Option Int)) i (some i)).bind fun dset => .ok (dset, i, i + 1))
      (if i < 0 ∨ i ≥ yl then .error .IndexError else .ok [i]) := by
  rw [setItem_nonneg _ _ _ hi, List.length_replicate]
  by_cases hge : i ≥ ((yl.toNat : Nat) : Int)
  · have : i < 0 ∨ i ≥ yl := by omega
    simp only [hge, if_true, this, error_bind, DaysetAgrees]
  · have : ¬ (i < 0 ∨ i ≥ yl) := by omega
    simp only [hge, if_false, ok_bind, this, DaysetAgrees]
    refine ⟨?_, ?_⟩
    · have e1 : (i + 1 - i).toNat = 1 := by omega
      simp [intRange, e1]
    · intro k hk1 hk2
      have : k = i := by omega
      subst this
      exact getIdx_set_self _ _ _ hi (by simp; omega)

theorem gen_ddayset_agrees (r : Rule) (self : RrPy.II) (c : Cursor) (hf : r.freq ≠ 0 ∧ r.freq ≠ 1 ∧ r.freq ≠ 2)
    (hi : Cal.validDate c.year c.month c.day = true → 0 ≤ Cal.toOrdinal c.year c.month c.day - self.yearordinal) :
    DaysetAgrees (Gen.ddayset r self c.year c.month c.day) (dayset r self.toInfo c) := by
  obtain ⟨h0, h1, h2⟩ := hf
  unfold Gen.ddayset dayset
  simp only [h0, h1, h2, beq_iff_eq, if_false, RrPy.mkDate, RrPy.toordinal, RrPy.repeatL, bind, pure, Except.pure, RrPy.II.toInfo]
  by_cases hv : Cal.validDate c.year c.month c.day = true
  · simp only [hv, if_true, not_true_eq_false, if_false, ok_bind]
    exact ddayset_core _ _ (hi hv)
  · have hv' : Cal.validDate c.year c.month c.day = false := by simpa using hv
    simp [hv', DaysetAgrees]

/-! ### `ydayset` -/

theorem getIdx_intRange (a b k : Int) (h0 : a ≤ k) (h1 : k < b) : Py.getIdx (intRange a b) (k - a) = .ok k := by
  have hl : (intRange a b).length = (b - a).toNat := by simp [intRange]
  rw [getIdx_nonneg _ _ (by omega) (by rw [hl]; omega)]
  simp [intRange]
  omega

/-- `_iterinfo.ydayset`: `(list(range(yearlen)), 0, yearlen)` -/
theorem gen_ydayset_agrees (r : Rule) (self : RrPy.II) (c : Cursor) (hf : r.freq = 0) :
    Gen.ydayset r self c.year c.month c.day = .ok (intRange 0 self.yearlen, 0, self.yearlen) ∧
    dayset r self.toInfo c = .ok (intRange 0 self.yearlen) ∧
    ∀ k, 0 ≤ k → k < self.yearlen → Py.getIdx (intRange 0 self.yearlen) k = .ok k := by
  refine ⟨rfl, ?_, ?_⟩
  · simp [dayset, hf, RrPy.II.toInfo]
  · intro k h0 h1
    have := getIdx_intRange 0 self.yearlen k h0 h1
    simpa using this

/-! ### `wdayset` -/

theorem wdayset_loop (r : Rule) (info : Info) (s : Int) (l : List Int) (dset : List (Option Int)) (i : Int)
    (hs : s ≤ i) (hs0 : 0 ≤ s) (hlen : (dset.length : Int) = info.yearlen + 7) (hok : DaysetOK dset s i) :
    match Gen.wdayset_loop1 r info.wdaymask l dset i with
    | .error e => wdaysetEnd info r.wkst l.length i = .error e
    | .ok (dset', e) => wdaysetEnd info r.wkst l.length i = .ok e ∧ DaysetOK dset' s e := by
  induction l generalizing dset i with
  | nil => exact ⟨rfl, hok⟩
  | cons j rest ih =>
    have hi : 0 ≤ i := by omega
    simp only [Gen.wdayset_loop1, List.length_cons, wdaysetEnd, setItem_nonneg _ _ _ hi, bind, pure, Except.pure]
    by_cases hge : i ≥ (dset.length : Int)
    · have : i < 0 ∨ i ≥ info.yearlen + 7 := by omega
      simp [hge, this]
    · have : ¬ (i < 0 ∨ i ≥ info.yearlen + 7) := by omega
      simp only [hge, this, if_false, ok_bind]
      have hok' : DaysetOK (dset.set i.toNat (some i)) s (i + 1) := by
        intro k hk1 hk2
        by_cases hki : k = i
        · subst hki; exact getIdx_set_self _ _ _ hi (by omega)
        · rw [getIdx_set_ne _ _ _ _ hi (by omega) hki]; exact hok k hk1 (by omega)
      cases hw : Py.getIdx info.wdaymask (i + 1) with
      | error e => simp
      | ok w =>
        simp only [ok_bind]
        by_cases hwk : w = r.wkst
        · simp only [hwk, if_true, beq_self_eq_true]
          exact ⟨by first | rfl | trivial, hok'⟩
        · have hwk' : (w == r.wkst) = false := by simpa using hwk
          simp only [hwk, if_false, hwk', Bool.false_eq_true]
          exact ih (dset.set i.toNat (some i)) (i + 1) (by omega) (by simpa using hlen) hok'

/-- `_iterinfo.wdayset(year, month, day)` against the model's WEEKLY day set (the slots are those of a rebuilt
    `_iterinfo`: `yearlen ≥ -7`; the date does not precede January 1st of the rebuilt year — for an earlier date Python's
    negative index wraps around where the model raises IndexError; `_iter` rebuilds for the cursor's year first) -/
theorem gen_wdayset_agrees (r : Rule) (self : RrPy.II) (c : Cursor) (hf : r.freq = 2) (hyl : 0 ≤ self.yearlen + 7)
    (hi : Cal.validDate c.year c.month c.day = true → 0 ≤ Cal.toOrdinal c.year c.month c.day - self.yearordinal) :
    DaysetAgrees (Gen.wdayset r self c.year c.month c.day) (dayset r self.toInfo c) := by
  have n20 : ¬ ((2 : Int) = 0) := by decide
  have n21 : ¬ ((2 : Int) = 1) := by decide
  unfold Gen.wdayset dayset
  simp only [hf, n20, n21, beq_iff_eq, if_false, if_true, RrPy.mkDate, RrPy.toordinal, RrPy.repeatL, bind, pure, Except.pure]
  by_cases hv : Cal.validDate c.year c.month c.day = true
  · have hi' := hi hv
    simp only [hv, if_true, not_true_eq_false, if_false, ok_bind]
    have key := wdayset_loop r self.toInfo (Cal.toOrdinal c.year c.month c.day - self.yearordinal) (intRange 0 7)
      (List.replicate (self.yearlen + 7).toNat (none : Option Int)) (Cal.toOrdinal c.year c.month c.day - self.yearordinal)
      (Int.le_refl _) hi' (by simp [RrPy.II.toInfo]; omega) (by intro k h1 h2; omega)
    have e7 : (intRange 0 7).length = 7 := by simp [intRange]
    rw [e7] at key
    simp only [RrPy.II.toInfo] at key ⊢
    cases hL : Gen.wdayset_loop1 r self.wdaymask (intRange 0 7) (List.replicate (self.yearlen + 7).toNat none)
        (Cal.toOrdinal c.year c.month c.day - self.yearordinal) with
    | error e => rw [hL] at key; simp only [error_bind, DaysetAgrees]; simp only at key; rw [key]
    | ok p =>
      obtain ⟨dset', e⟩ := p
      rw [hL] at key
      simp only at key
      simp only [ok_bind, DaysetAgrees, key.1]
      exact ⟨by first | rfl | trivial, key.2⟩
  · have hv' : Cal.validDate c.year c.month c.day = false := by simpa using hv
    simp [hv', DaysetAgrees]

/-! ### `mdayset` -/

theorem mdayset_loop (l : List Int) (dset : List (Option Int)) (hl : ∀ j ∈ l, 0 ≤ j ∧ j < (dset.length : Int)) :
    ∃ dset', Gen.mdayset_loop1 l dset = .ok dset' ∧ dset'.length = dset.length ∧
      (∀ k, k ∈ l → Py.getIdx dset' k = .ok (some k)) ∧
      (∀ k, 0 ≤ k → k ∉ l → Py.getIdx dset' k = Py.getIdx dset k) := by
  induction l generalizing dset with
  | nil => exact ⟨dset, rfl, rfl, ⟨fun k hk => (by simp at hk), fun k _ _ => rfl⟩⟩
  | cons j rest ih =>
    have hj := hl j (by simp)
    have hge : ¬ j ≥ (dset.length : Int) := by omega
    obtain ⟨d', h1, h2, h3, h4⟩ := ih (dset.set j.toNat (some j)) (by
      intro x hx; have := hl x (by simp [hx]); simpa using this)
    refine ⟨d', ?_, by simpa using h2, ?_, ?_⟩
    · simp only [Gen.mdayset_loop1, setItem_nonneg _ _ _ hj.1, hge, if_false, bind, ok_bind, h1]
    · intro k hk
      by_cases hkr : k ∈ rest
      · exact h3 k hkr
      · have hkj : k = j := by simpa [hkr] using hk
        subst hkj
        rw [h4 k hj.1 hkr]
        exact getIdx_set_self _ _ _ hj.1 hj.2
    · intro k hk0 hk
      have hkj : k ≠ j := by intro h; exact hk (by simp [h])
      have hkr : k ∉ rest := by intro h; exact hk (by simp [h])
      rw [h4 k hk0 hkr, getIdx_set_ne _ _ _ _ hj.1 hk0 hkj]

/-- per table and month: the 2-slice is the two neighbouring entries, which lie inside the year -/
def mrOK (leap : Bool) (k : Nat) : Bool :=
  match Py.getIdx (Tables.mrangeOf leap) (k : Int), Py.getIdx (Tables.mrangeOf leap) ((k : Int) + 1) with
  | .ok a, .ok b =>
    Py.slice (Tables.mrangeOf leap) (some (k : Int)) (some ((k : Int) + 2)) none == .ok [a, b] &&
      decide (0 ≤ a ∧ a ≤ b ∧ b ≤ Tables.ylen leap)
  | _, _ => false

theorem mrOK_all : ∀ (leap : Bool) (k : Fin 12), mrOK leap k.val = true := by decide +kernel

/-- `_iterinfo.mdayset(year, month, day)` against the model's MONTHLY day set, on the slots a `rebuild` leaves
    (`mrange` / `yearlen` of a leap or common year) and a month 1..12 (for other months Python's 2-slice is short and
    the unpacking raises ValueError where the model indexes; `_iter` keeps the month in 1..12) -/
theorem gen_mdayset_agrees (r : Rule) (self : RrPy.II) (c : Cursor) (hf : r.freq = 1) (leap : Bool)
    (hyl : self.yearlen = Tables.ylen leap) (hmr : self.mrange = Tables.mrangeOf leap)
    (hm : 1 ≤ c.month ∧ c.month ≤ 12) :
    DaysetAgrees (Gen.mdayset r self c.year c.month c.day) (dayset r self.toInfo c) := by
  have n10 : ¬ ((1 : Int) = 0) := by decide
  have hk := mrOK_all leap ⟨(c.month - 1).toNat, by omega⟩
  have e1 : (((c.month - 1).toNat : Nat) : Int) = c.month - 1 := by omega
  unfold mrOK at hk
  simp only [e1] at hk
  have e2 : c.month - 1 + 1 = c.month := by omega
  have e3 : c.month - 1 + 2 = c.month + 1 := by omega
  rw [e2, e3] at hk
  unfold Gen.mdayset dayset
  simp only [hf, n10, beq_iff_eq, if_false, if_true, RrPy.repeatL, bind, pure, Except.pure, RrPy.II.toInfo, hmr, hyl]
  cases ha : Py.getIdx (Tables.mrangeOf leap) (c.month - 1) with
  | error e => rw [ha] at hk; simp at hk
  | ok a =>
    cases hb : Py.getIdx (Tables.mrangeOf leap) c.month with
    | error e => rw [ha, hb] at hk; simp at hk
    | ok b =>
      rw [ha, hb] at hk
      simp only [Bool.and_eq_true, beq_iff_eq, decide_eq_true_eq] at hk
      obtain ⟨hsl, h0a, hab, hby⟩ := hk
      simp only [hsl, ok_bind, RrPy.unpack2]
      obtain ⟨d', h1, h2, h3, h4⟩ := mdayset_loop (intRange a b) (List.replicate (Tables.ylen leap).toNat (none : Option Int)) (by
        intro j hj
        rw [mem_intRange] at hj
        have : 0 ≤ Tables.ylen leap := by cases leap <;> decide
        simp only [List.length_replicate]
        omega)
      simp only [h1, ok_bind, DaysetAgrees]
      exact ⟨trivial, fun k hk1 hk2 => h3 k ((mem_intRange a b k).mpr ⟨hk1, hk2⟩)⟩

end RRuleGen
