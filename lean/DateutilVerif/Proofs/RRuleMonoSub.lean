/-
  Proofs/RRuleMonoSub.lean — strict monotonicity, part 4: the sub-daily frequencies.
  `__mod_distance` and the MINUTELY / SECONDLY reachability loops move the cursor forward by a
  positive multiple of INTERVAL units; the time set of the new period carries the cursor's
  hour / minute / second; so consecutive periods occupy disjoint, increasing unit windows.
-/
import DateutilVerif.Proofs.RRuleMonoThm

namespace RRule
open Cal

/-- `__mod_distance`: the result is `j ≥ 1` steps of `interval` further, written in base `base` -/
theorem modDistance_spec (interval : Int) (byxxx : List Int) (base : Int) (hb : 0 < base) :
    ∀ (n : Nat) (acc v acc' v' : Int), modDistance interval byxxx base n acc v = some (acc', v') →
    ∃ j : Int, 1 ≤ j ∧ acc' * base + v' = acc * base + v + j * interval ∧ 0 ≤ v' ∧ v' < base := by
  intro n
  induction n with
  | zero => intro acc v acc' v' h; simp [modDistance] at h
  | succ n ih =>
    intro acc v acc' v' h
    unfold modDistance at h
    dsimp only at h
    have hd := divmod_spec (v + interval) base hb
    split at h
    · injection h with h; injection h with h1 h2
      subst h1; subst h2
      refine ⟨1, by omega, ?_, hd.2.1, hd.2.2⟩
      rw [Int.add_mul]; omega
    · obtain ⟨j, hj, e, r1, r2⟩ := ih _ _ _ _ h
      refine ⟨j + 1, by omega, ?_, r1, r2⟩
      rw [e, Int.add_mul, Int.add_mul]; omega

/-- one unit step (`__mod_distance` or the plain `divmod`) of the sub-daily advance -/
theorem unitStep_spec (interval : Int) (by_ : Option (List Int)) (base v : Int) (hb : 0 < base)
    (q v' : Int)
    (h : (if truthy by_ then modDistance interval (by_.getD []) base base.toNat 0 v
          else some (Py.divmod (v + interval) base)) = some (q, v')) :
    ∃ j : Int, 1 ≤ j ∧ q * base + v' = v + j * interval ∧ 0 ≤ v' ∧ v' < base := by
  split at h
  · obtain ⟨j, hj, e, r1, r2⟩ := modDistance_spec interval _ base hb _ _ _ _ _ h
    exact ⟨j, hj, by omega, r1, r2⟩
  · injection h with h
    have hd := divmod_spec (v + interval) base hb
    rw [h] at hd
    dsimp only at hd
    exact ⟨1, by omega, by omega, hd.2.1, hd.2.2⟩

/-- `fixDay` with either flag: the cursor's day number is kept and the cursor ends on a valid date -/
theorem fixDay_any (r : Rule) (st st' : State) (b : Bool) (h : fixDay r st b = .ok st')
    (hm1 : 1 ≤ st.cur.month) (hm12 : st.cur.month ≤ 12) (hd1 : 1 ≤ st.cur.day)
    (hb : b = false → ValidYMD st.cur.year st.cur.month st.cur.day)
    (f : YearFacts r st.cur.year st.info) :
    curOrd st'.cur = curOrd st.cur ∧ ValidYMD st'.cur.year st'.cur.month st'.cur.day ∧
    YearFacts r st'.cur.year st'.info ∧
    st'.cur.hour = st.cur.hour ∧ st'.cur.minute = st.cur.minute ∧ st'.cur.second = st.cur.second ∧
    st'.timeset = st.timeset := by
  cases b with
  | true =>
    have := fixDay_spec r st st' h hm1 hm12 hd1 f
    exact ⟨this.1, this.2.1, this.2.2.1, this.2.2.2.1, this.2.2.2.2.1, this.2.2.2.2.2.1, this.2.2.2.2.2.2.2⟩
  | false =>
    unfold fixDay at h
    simp at h
    subst h
    exact ⟨rfl, hb rfl, f, rfl, rfl, rfl, rfl⟩

/-- the invariant of the sub-daily frequencies -/
structure SubInv (r : Rule) (st : State) : Prop where
  facts : YearFacts r st.cur.year st.info
  valid : ValidYMD st.cur.year st.cur.month st.cur.day
  ts : TsOk st.timeset
  hour : 0 ≤ st.cur.hour ∧ st.cur.hour ≤ 23
  minute : 0 ≤ st.cur.minute ∧ st.cur.minute ≤ 59
  second : 0 ≤ st.cur.second ∧ st.cur.second ≤ 59
  tsh : ∀ t ∈ st.timeset, t.1 = st.cur.hour
  tsm : 5 ≤ r.freq → ∀ t ∈ st.timeset, t.2.1 = st.cur.minute
  tss : 6 ≤ r.freq → ∀ t ∈ st.timeset, t.2.2 = st.cur.second

/-- start (in seconds) of the hour / minute / second the cursor stands on -/
def loSub (r : Rule) (st : State) : Int :=
  curOrd st.cur * 86400 + st.cur.hour * 3600 +
    (if 5 ≤ r.freq then st.cur.minute * 60 else 0) + (if 6 ≤ r.freq then st.cur.second else 0)

def unitSecs (r : Rule) : Int := if r.freq = 4 then 3600 else if r.freq = 5 then 60 else 1

/-- the items of a sub-daily period lie in the cursor's unit window and are strictly increasing -/
theorem sub_items (r : Rule) (hf : 4 ≤ r.freq ∧ r.freq ≤ 6) (st : State) (inv : SubInv r st) :
    (∀ x ∈ (step r st).1, loSub r st ≤ x.secs ∧ x.secs < loSub r st + unitSecs r) ∧
    (step r st).1.Pairwise secsLt := by
  have hd := dayset_daily st.cur (by omega) inv.facts inv.valid
  have hone : [curOrd st.cur - st.info.yearordinal].Pairwise (· < ·) := by simp
  refine ⟨?_, ?_⟩
  · intro x hx
    rcases step_sublist r st with h | ⟨cands, pend, fl, hres, hsub⟩
    · rw [h] at hx; simp at hx
    · obtain ⟨_, hmem⟩ := periodResults_spec r st _ cands pend fl hd hone inv.ts hres
      obtain ⟨i, hi, t, ht, rfl⟩ := hmem x (hsub.subset hx)
      simp at hi; subst hi
      have hv := inv.ts.2 t ht
      unfold ValidHMS at hv
      have h1 := inv.tsh t ht
      have e : st.info.yearordinal + (curOrd st.cur - st.info.yearordinal) = curOrd st.cur := by omega
      rw [e]
      unfold loSub unitSecs Inst.secs mkInst
      dsimp only
      by_cases f4 : r.freq = 4
      · rw [if_neg (by omega), if_neg (by omega), if_pos f4]; omega
      · by_cases f5 : r.freq = 5
        · have h2 := inv.tsm (by omega) t ht
          rw [if_pos (by omega), if_neg (by omega), if_neg f4, if_pos f5]; omega
        · have h2 := inv.tsm (by omega) t ht
          have h3 := inv.tss (by omega) t ht
          rw [if_pos (by omega), if_pos (by omega), if_neg f4, if_neg f5]; omega
  · rcases step_sublist r st with h | ⟨cands, pend, fl, hres, hsub⟩
    · rw [h]; exact List.Pairwise.nil
    · obtain ⟨hs, _⟩ := periodResults_spec r st _ cands pend fl hd hone inv.ts hres
      exact hs.sublist hsub

/-- the time set of a sub-daily period carries the cursor's hour (and minute, and second) -/
theorem gettimeset_spec (r : Rule) (ok : RuleOk r) (hf : 4 ≤ r.freq ∧ r.freq ≤ 6) (h m s : Int)
    (ts : List HMS) (hts : gettimeset r h m s = .ok ts) :
    TsOk ts ∧ (∀ t ∈ ts, t.1 = h) ∧ (5 ≤ r.freq → ∀ t ∈ ts, t.2.1 = m) ∧ (6 ≤ r.freq → ∀ t ∈ ts, t.2.2 = s) := by
  unfold gettimeset at hts
  by_cases f4 : r.freq = 4
  · rw [if_pos (by simp [f4])] at hts
    unfold htimeset at hts
    obtain ⟨h1, h2⟩ := buildTimeset_ok _ _ _ ts (by simp) ok.byminute ok.bysecond hts
    exact ⟨h1, fun t ht => by have := (h2 t ht).1; simpa using this, by intro; omega, by intro; omega⟩
  · rw [if_neg (by simp [f4])] at hts
    by_cases f5 : r.freq = 5
    · rw [if_pos (by simp [f5])] at hts
      unfold mtimeset at hts
      obtain ⟨h1, h2⟩ := buildTimeset_ok _ _ _ ts (by simp) (by simp) ok.bysecond hts
      exact ⟨h1, fun t ht => by have := (h2 t ht).1; simpa using this,
             fun _ t ht => by have := (h2 t ht).2.1; simpa using this, by intro; omega⟩
    · rw [if_neg (by simp [f5])] at hts
      unfold stimeset at hts
      simp only [bind, Except.bind, pure, Except.pure] at hts
      unfold mkTime at hts
      split at hts
      · cases hts
      · rename_i t ht
        split at ht
        · rename_i hv
          injection ht with ht; subst ht
          injection hts with hts; subst hts
          refine ⟨⟨by simp, ?_⟩, ?_, ?_, ?_⟩
          · intro t ht; simp at ht; subst ht; exact hv
          · intro t ht; simp at ht; subst ht; rfl
          · intro _ t ht; simp at ht; subst ht; rfl
          · intro _ t ht; simp at ht; subst ht; rfl
        · cases ht

theorem fdiv_jump_nonneg (x interval : Int) (hx : 0 ≤ x) (hi : 1 ≤ interval) :
    0 ≤ Py.fdiv x interval * interval := by
  rw [Py.fdiv_pos x (by omega)]
  exact Int.mul_nonneg (Int.ediv_nonneg hx (by omega)) (by omega)

/-- **HOURLY**: the next period starts at least one hour later -/
theorem hourly_next (r : Rule) (ok : RuleOk r) (f4 : r.freq = 4) (st st' : State) (inv : SubInv r st)
    (c : Option Int) (fl : Bool) (h : advance r { st with count := c } fl = .ok st') :
    SubInv r st' ∧ loSub r st + 3600 ≤ loSub r st' := by
  have hi := ok.interval
  obtain ⟨hm1, hm12, hd1, hd2⟩ := inv.valid
  unfold advance at h
  dsimp only at h
  rw [if_neg (by simp [f4]), if_neg (by simp [f4]), if_neg (by simp [f4]), if_neg (by simp [f4]),
      if_pos (by simp [f4])] at h
  generalize hh0 : (if fl = true then st.cur.hour + Py.fdiv (23 - st.cur.hour) r.interval * r.interval
                    else st.cur.hour) = hour0 at h
  have hge : st.cur.hour ≤ hour0 := by
    rw [← hh0]; split
    · have := fdiv_jump_nonneg (23 - st.cur.hour) r.interval (by have := inv.hour; omega) hi; omega
    · omega
  split at h
  · cases h
  · rename_i ndays hour hstep
    have e24 : (24 : Int).toNat = 24 := rfl
    obtain ⟨j, hj, e, r1, r2⟩ := unitStep_spec r.interval r.byhour 24 hour0 (by omega) ndays hour (by rw [e24]; exact hstep)
    have hjpos : 1 ≤ j * r.interval := by
      have := Int.mul_le_mul hj hi (by omega) (by omega); omega
    have hnd : 0 ≤ ndays := by have := inv.hour; omega
    split at h
    · cases h
    · rename_i ts hts
      obtain ⟨t1, t2, t3, t4⟩ := gettimeset_spec r ok (by omega) _ _ _ ts hts
      have hfix := fixDay_any r _ st' _ h hm1 hm12 (by dsimp only; split <;> omega)
        (by intro hb; dsimp only
            have : ndays = 0 := by simpa using hb
            rw [if_neg (by omega)]; exact inv.valid) inv.facts
      obtain ⟨eo, v, f', eh, em, es, ets⟩ := hfix
      dsimp only at eh em es ets
      have eo' : curOrd st'.cur = curOrd st.cur + ndays := by
        rw [eo]
        have := curOrd_day st.cur (if ndays ≠ 0 then st.cur.day + ndays else st.cur.day)
        dsimp only at this ⊢
        unfold curOrd at this ⊢; dsimp only at this ⊢
        rw [this]; split <;> omega
      refine ⟨⟨f', v, by rw [ets]; exact t1, by rw [eh]; omega, by rw [em]; exact inv.minute,
               by rw [es]; exact inv.second, by rw [ets, eh]; exact t2,
               by intro h5; omega, by intro h6; omega⟩, ?_⟩
      unfold loSub
      rw [if_neg (by omega), if_neg (by omega), if_neg (by omega), if_neg (by omega), eo', eh]
      have := inv.hour
      omega

/-- the MINUTELY reachability loop moves forward by at least one minute and ends on a valid
    hour / minute; the fix-day flag is set whenever the day changed -/
theorem minutelyLoop_spec (r : Rule) (hi : 1 ≤ r.interval) : ∀ (n : Nat) (minute hour day : Int) (fx : Bool)
    (m' h' d' : Int) (fx' : Bool), 0 ≤ minute → 0 ≤ hour ∧ hour ≤ 23 →
    minutelyLoop r n minute hour day fx = .ok (m', h', d', fx') →
    (day * 24 + hour) * 60 + minute + 1 ≤ (d' * 24 + h') * 60 + m' ∧
    0 ≤ h' ∧ h' ≤ 23 ∧ 0 ≤ m' ∧ m' ≤ 59 ∧ day ≤ d' ∧ (d' ≠ day → fx' = true) ∧ (fx = true → fx' = true) := by
  intro n
  induction n with
  | zero => intro minute hour day fx m' h' d' fx' _ _ h; simp [minutelyLoop] at h
  | succ n ih =>
    intro minute hour day fx m' h' d' fx' hmin hhour h
    unfold minutelyLoop at h
    dsimp only at h
    split at h
    · cases h
    · rename_i nhours minute1 hstep
      have e60 : (60 : Int).toNat = 60 := rfl
      obtain ⟨j, hj, e, r1, r2⟩ := unitStep_spec r.interval r.byminute 60 minute (by omega) nhours minute1
        (by rw [e60]; exact hstep)
      have hjpos : 1 ≤ j * r.interval := by
        have := Int.mul_le_mul hj hi (by omega) (by omega); omega
      have hnh : 0 ≤ nhours := by omega
      have hd := divmod_spec (hour + nhours) 24 (by omega)
      generalize Py.divmod (hour + nhours) 24 = dh at h hd
      obtain ⟨q, hr⟩ := dh
      dsimp only at h hd
      have hq : 0 ≤ q := by omega
      have eday : (if q ≠ 0 then day + q else day) = day + q := by split <;> omega
      rw [eday] at h
      split at h
      · injection h with h
        injection h with h1 h; injection h with h2 h; injection h with h3 h4
        subst h1; subst h2; subst h3; subst h4
        refine ⟨by omega, by omega, by omega, r1, by omega, by omega, ?_, ?_⟩
        · intro hne; rw [if_pos (by omega)]
        · intro hfx; split <;> simp [hfx]
      · obtain ⟨a1, a2, a3, a4, a5, a6, a7, a8⟩ := ih _ _ _ _ _ _ _ _ r1 ⟨hd.2.1, by omega⟩ h
        refine ⟨by omega, a2, a3, a4, a5, by omega, ?_, ?_⟩
        · intro hne
          by_cases c : d' = day + q
          · apply a8; rw [if_pos (by omega)]
          · exact a7 c
        · intro hfx; apply a8; split <;> simp [hfx]

/-- **MINUTELY**: the next period starts at least one minute later -/
theorem minutely_next (r : Rule) (ok : RuleOk r) (f5 : r.freq = 5) (st st' : State) (inv : SubInv r st)
    (c : Option Int) (fl : Bool) (h : advance r { st with count := c } fl = .ok st') :
    SubInv r st' ∧ loSub r st + 60 ≤ loSub r st' := by
  have hi := ok.interval
  obtain ⟨hm1, hm12, hd1, hd2⟩ := inv.valid
  unfold advance at h
  dsimp only at h
  rw [if_neg (by simp [f5]), if_neg (by simp [f5]), if_neg (by simp [f5]), if_neg (by simp [f5]),
      if_neg (by simp [f5]), if_pos (by simp [f5])] at h
  generalize hm0 : (if fl = true then
      st.cur.minute + Py.fdiv (1439 - (st.cur.hour * 60 + st.cur.minute)) r.interval * r.interval
      else st.cur.minute) = minute0 at h
  have hge : st.cur.minute ≤ minute0 := by
    rw [← hm0]; split
    · have := fdiv_jump_nonneg (1439 - (st.cur.hour * 60 + st.cur.minute)) r.interval
        (by have := inv.hour; have := inv.minute; omega) hi
      omega
    · omega
  split at h
  · cases h
  · rename_i minute hour day fixday hloop
    obtain ⟨a1, a2, a3, a4, a5, a6, a7, _⟩ := minutelyLoop_spec r hi _ _ _ _ _ _ _ _ _
      (by have := inv.minute; omega) inv.hour hloop
    split at h
    · cases h
    · rename_i ts hts
      obtain ⟨t1, t2, t3, t4⟩ := gettimeset_spec r ok (by omega) _ _ _ ts hts
      have hfix := fixDay_any r _ st' _ h hm1 hm12 (by dsimp only; omega)
        (by intro hb; dsimp only
            have : day = st.cur.day := by
              by_cases c : day = st.cur.day
              · exact c
              · have := a7 c; rw [hb] at this; cases this
            rw [this]; exact inv.valid) inv.facts
      obtain ⟨eo, v, f', eh, em, es, ets⟩ := hfix
      dsimp only at eh em es ets
      have eo' : curOrd st'.cur = curOrd st.cur + (day - st.cur.day) := by
        rw [eo]; exact curOrd_day st.cur day
      refine ⟨⟨f', v, by rw [ets]; exact t1, by rw [eh]; omega, by rw [em]; omega,
               by rw [es]; exact inv.second, by rw [ets, eh]; exact t2,
               by intro _; rw [ets, em]; exact t3 (by omega), by intro h6; omega⟩, ?_⟩
      unfold loSub
      rw [if_pos (by omega), if_neg (by omega), if_pos (by omega), if_neg (by omega), eo', eh, em]
      omega

/-- the SECONDLY reachability loop moves forward by at least one second and ends on a valid
    hour / minute / second; the fix-day flag is set whenever the day changed -/
theorem secondlyLoop_spec (r : Rule) (hi : 1 ≤ r.interval) : ∀ (n : Nat) (second minute hour day : Int) (fx : Bool)
    (s' m' h' d' : Int) (fx' : Bool), 0 ≤ second → 0 ≤ minute ∧ minute ≤ 59 → 0 ≤ hour ∧ hour ≤ 23 →
    secondlyLoop r n second minute hour day fx = .ok (s', m', h', d', fx') →
    ((day * 24 + hour) * 60 + minute) * 60 + second + 1 ≤ ((d' * 24 + h') * 60 + m') * 60 + s' ∧
    0 ≤ h' ∧ h' ≤ 23 ∧ 0 ≤ m' ∧ m' ≤ 59 ∧ 0 ≤ s' ∧ s' ≤ 59 ∧ day ≤ d' ∧
    (d' ≠ day → fx' = true) ∧ (fx = true → fx' = true) := by
  intro n
  induction n with
  | zero => intro second minute hour day fx s' m' h' d' fx' _ _ _ h; simp [secondlyLoop] at h
  | succ n ih =>
    intro second minute hour day fx s' m' h' d' fx' hsec hmin hhour h
    unfold secondlyLoop at h
    dsimp only at h
    split at h
    · cases h
    · rename_i nminutes second1 hstep
      have e60 : (60 : Int).toNat = 60 := rfl
      obtain ⟨j, hj, e, r1, r2⟩ := unitStep_spec r.interval r.bysecond 60 second (by omega) nminutes second1
        (by rw [e60]; exact hstep)
      have hjpos : 1 ≤ j * r.interval := by
        have := Int.mul_le_mul hj hi (by omega) (by omega); omega
      have hnm : 0 ≤ nminutes := by omega
      have hdm := divmod_spec (minute + nminutes) 60 (by omega)
      generalize Py.divmod (minute + nminutes) 60 = dm at h hdm
      obtain ⟨q, mr⟩ := dm
      dsimp only at h hdm
      have hq : 0 ≤ q := by omega
      by_cases hq0 : q = 0
      · subst hq0
        simp only [ne_eq, not_true_eq_false, ↓reduceIte, false_and] at h
        split at h
        · injection h with h
          injection h with h1 h; injection h with h2 h; injection h with h3 h; injection h with h4 h5
          subst h1; subst h2; subst h3; subst h4; subst h5
          exact ⟨by omega, hhour.1, hhour.2, by omega, by omega, r1, by omega, by omega,
                 by intro hne; exact absurd rfl hne, fun hfx => hfx⟩
        · obtain ⟨a1, a2, a3, a4, a5, a6, a7, a8, a9, a10⟩ :=
            ih _ _ _ _ _ _ _ _ _ _ r1 ⟨hdm.2.1, by omega⟩ hhour h
          exact ⟨by omega, a2, a3, a4, a5, a6, a7, a8, a9, a10⟩
      · have hqne : q ≠ 0 := hq0
        simp only [ne_eq, hqne, not_false_eq_true, ↓reduceIte, true_and] at h
        have hdh := divmod_spec (hour + q) 24 (by omega)
        generalize Py.divmod (hour + q) 24 = dh at h hdh
        obtain ⟨p, hr⟩ := dh
        dsimp only at h hdh
        have hp : 0 ≤ p := by omega
        have eday : (if ¬ p = 0 then day + p else day) = day + p := by split <;> omega
        rw [eday] at h
        split at h
        · injection h with h
          injection h with h1 h; injection h with h2 h; injection h with h3 h; injection h with h4 h5
          subst h1; subst h2; subst h3; subst h4; subst h5
          refine ⟨by omega, by omega, by omega, by omega, by omega, r1, by omega, by omega, ?_, ?_⟩
          · intro hne; rw [if_pos (by omega)]
          · intro hfx; split <;> simp [hfx]
        · obtain ⟨a1, a2, a3, a4, a5, a6, a7, a8, a9, a10⟩ :=
            ih _ _ _ _ _ _ _ _ _ _ r1 ⟨hdm.2.1, by omega⟩ ⟨hdh.2.1, by omega⟩ h
          refine ⟨by omega, a2, a3, a4, a5, a6, a7, by omega, ?_, ?_⟩
          · intro hne
            by_cases c : d' = day + p
            · apply a10; rw [if_pos (by omega)]
            · exact a9 c
          · intro hfx; apply a10; split <;> simp [hfx]

/-- **SECONDLY**: the next period starts at least one second later -/
theorem secondly_next (r : Rule) (ok : RuleOk r) (f6 : r.freq = 6) (st st' : State) (inv : SubInv r st)
    (c : Option Int) (fl : Bool) (h : advance r { st with count := c } fl = .ok st') :
    SubInv r st' ∧ loSub r st + 1 ≤ loSub r st' := by
  have hi := ok.interval
  obtain ⟨hm1, hm12, hd1, hd2⟩ := inv.valid
  unfold advance at h
  dsimp only at h
  rw [if_neg (by simp [f6]), if_neg (by simp [f6]), if_neg (by simp [f6]), if_neg (by simp [f6]),
      if_neg (by simp [f6]), if_neg (by simp [f6]), if_pos (by simp [f6])] at h
  generalize hs0 : (if fl = true then
      st.cur.second + Py.fdiv (86399 - (st.cur.hour * 3600 + st.cur.minute * 60 + st.cur.second)) r.interval * r.interval
      else st.cur.second) = second0 at h
  have hge : st.cur.second ≤ second0 := by
    rw [← hs0]; split
    · have := fdiv_jump_nonneg (86399 - (st.cur.hour * 3600 + st.cur.minute * 60 + st.cur.second)) r.interval
        (by have := inv.hour; have := inv.minute; have := inv.second; omega) hi
      omega
    · omega
  split at h
  · cases h
  · rename_i second minute hour day fixday hloop
    obtain ⟨a1, a2, a3, a4, a5, a6, a7, a8, a9, _⟩ := secondlyLoop_spec r hi _ _ _ _ _ _ _ _ _ _ _
      (by have := inv.second; omega) inv.minute inv.hour hloop
    split at h
    · cases h
    · rename_i ts hts
      obtain ⟨t1, t2, t3, t4⟩ := gettimeset_spec r ok (by omega) _ _ _ ts hts
      have hfix := fixDay_any r _ st' _ h hm1 hm12 (by dsimp only; omega)
        (by intro hb; dsimp only
            have : day = st.cur.day := by
              by_cases c : day = st.cur.day
              · exact c
              · have := a9 c; rw [hb] at this; cases this
            rw [this]; exact inv.valid) inv.facts
      obtain ⟨eo, v, f', eh, em, es, ets⟩ := hfix
      dsimp only at eh em es ets
      have eo' : curOrd st'.cur = curOrd st.cur + (day - st.cur.day) := by
        rw [eo]; exact curOrd_day st.cur day
      refine ⟨⟨f', v, by rw [ets]; exact t1, by rw [eh]; omega, by rw [em]; omega,
               by rw [es]; omega, by rw [ets, eh]; exact t2,
               by intro _; rw [ets, em]; exact t3 (by omega),
               by intro _; rw [ets, es]; exact t4 (by omega)⟩, ?_⟩
      unfold loSub
      rw [if_pos (by omega), if_pos (by omega), if_pos (by omega), if_pos (by omega), eo', eh, em, es]
      omega

end RRule
