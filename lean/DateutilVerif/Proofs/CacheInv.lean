/-
  Proofs/CacheInv.lean — the invariant of the cached-iterator machine (Model/Cache.lean) and its
  preservation by every statement of every thread (C11).
-/
import DateutilVerif.Model.Cache
import DateutilVerif.Spec.Queries
import DateutilVerif.Proofs.QueryStops

namespace Cache
open Queries Py

/-- the generator has been run to its end and has published `_len` -/
def Exh (sh : Shared) : Prop := sh.len = some sh.src.length

/-- invariant of the shared state -/
structure SInv (sh : Shared) : Prop where
  cache_eq : sh.cache = sh.src.take sh.genPos
  pos_le : sh.genPos ≤ sh.src.length
  len_ok : ∀ n, sh.len = some n → n = sh.src.length ∧ sh.genPos = sh.src.length ∧ sh.endErr = none
  none_len : sh.genNone = true → sh.len ≠ none
  compl_none : sh.complete = true → sh.genNone = true

/-- "the consumer has received exactly the first k values, is still running and has not asked to stop" -/
def Y (sh : Shared) (it : Iter) (k : Nat) : Prop :=
  it.yielded = sh.src.take k ∧ it.res = none ∧ stops it.q it.yielded = false

/-- invariant of one thread, by program counter -/
def LInv (sh : Shared) (it : Iter) : Prop :=
  it.crash = none ∧
  match it.pc with
  | .start | .l106 | .l108 | .l111 => it.yielded = [] ∧ it.res = none
  | .l125 => it.yielded = [] ∧ it.res = none ∧ stops it.q [] = false
  | .entry => it.yielded = [] ∧ it.res = none ∧ hasEntryCheck it.q = true
  | .l107 => it.yielded = [] ∧ it.res = none ∧ sh.complete = true
  | .listIter => it.yielded ++ it.pending = sh.src ∧ it.res = none ∧ Exh sh
  | .l126 => it.yielded = [] ∧ it.i = 0 ∧ it.res = none ∧ stops it.q [] = false
  | .l127 | .l128 | .l129 => it.yielded = [] ∧ it.i = 0 ∧ it.res = none ∧ (it.hasGen = false → Exh sh) ∧ stops it.q [] = false
  | .l130 => Y sh it it.i ∧ it.i ≤ sh.cache.length ∧ (it.hasGen = false → Exh sh)
  | .l131 | .l132 | .l133 | .l134 | .l136 => Y sh it it.i ∧ it.i ≤ sh.cache.length ∧ it.hasGen = true
  | .l135 => Y sh it it.i ∧ Exh sh
  | .l137 => Y sh it it.i ∧ it.i + it.j ≤ sh.cache.length ∧ it.hasGen = true
  | .l138 => Y sh it it.i ∧ it.i + it.j ≤ sh.cache.length ∧ it.j < 10 ∧ it.hasGen = true
  | .l139 | .l140 | .l142 => Y sh it it.i ∧ Exh sh
  | .l141 => Y sh it it.i ∧ Exh sh ∧ sh.genNone = true
  | .l144 => Y sh it it.i ∧ (it.brk = true → Exh sh) ∧ (it.brk = false → it.i < sh.cache.length ∧ it.hasGen = true)
  | .l145 => Y sh it it.i ∧ it.i < sh.cache.length ∧ it.hasGen = true
  | .l146 => Y sh it (it.i + 1) ∧ it.i < sh.cache.length ∧ it.hasGen = true
  | .l147 => Y sh it it.i ∧ Exh sh
  | .l148 => Y sh it it.i ∧ Exh sh ∧ it.i < sh.src.length
  | .l149 => Y sh it (it.i + 1) ∧ Exh sh ∧ it.i < sh.src.length
  | .done => it.yielded <+: sh.src ∧ (it.q = .iterAll → it.yielded = sh.src) ∧
             (Sorted sh.src → fits it.q sh.src → it.res = some (specE it.q sh.src sh.endErr))

/-- how the shared state may change in one step: only forwards -/
structure Mono (sh sh' : Shared) : Prop where
  src_eq : sh'.src = sh.src
  err_eq : sh'.endErr = sh.endErr
  cache_le : sh.cache.length ≤ sh'.cache.length
  len_keep : Exh sh → Exh sh'
  compl_keep : sh.complete = true → sh'.complete = true
  none_keep : sh.genNone = true → sh'.genNone = true

theorem Mono.refl (sh : Shared) : Mono sh sh := ⟨rfl, rfl, Nat.le_refl _, id, id, id⟩

/-! ### facts about the shared invariant -/

theorem SInv.exh_cache {sh : Shared} (hs : SInv sh) (he : Exh sh) : sh.cache = sh.src := by
  have := (hs.len_ok _ he).2.1
  rw [hs.cache_eq, this, List.take_length]

theorem SInv.exh_of_none {sh : Shared} (hs : SInv sh) (h : sh.genNone = true) : Exh sh := by
  have := hs.none_len h
  cases hl : sh.len with
  | none => exact absurd hl this
  | some n => have := (hs.len_ok n hl).1; unfold Exh; rw [hl, this]

theorem SInv.exh_noerr {sh : Shared} (hs : SInv sh) (he : Exh sh) : sh.endErr = none :=
  (hs.len_ok _ he).2.2

theorem SInv.exh_of_complete {sh : Shared} (hs : SInv sh) (h : sh.complete = true) : Exh sh :=
  hs.exh_of_none (hs.compl_none h)

theorem SInv.cache_len_le {sh : Shared} (hs : SInv sh) : sh.cache.length ≤ sh.src.length := by
  rw [hs.cache_eq, List.length_take]; omega

theorem SInv.cache_get {sh : Shared} (hs : SInv sh) {i : Nat} {x : Int} (h : sh.cache[i]? = some x) :
    sh.src[i]? = some x := by
  rw [hs.cache_eq, List.getElem?_take] at h
  split at h
  · exact h
  · cases h

theorem take_snoc {l : List Int} {i : Nat} {x : Int} (h : l[i]? = some x) : l.take i ++ [x] = l.take (i + 1) := by
  rw [List.take_add_one, h]; rfl

/-! ### the consumer's answer -/

theorem answer_stop {sh : Shared} {q : Query} {ys zs : List Int} (hsrc : sh.src = ys ++ zs)
    (hst : stops q ys = true) (hsorted : Sorted sh.src) (hsm : fits q sh.src) : answer sh q ys = spec q sh.src := by
  have hq : q ≠ .count := by intro h; subst h; simp [stops] at hst
  have : answer sh q ys = gen q ys := by
    unfold answer; cases q <;> simp_all
  rw [this, hsrc, ← gen_stops q ys zs hst]
  exact gen_eq_spec' q _ (hsrc ▸ hsorted) (hsrc ▸ hsm)
where
  gen_eq_spec' (q : Query) (L : List Int) (hL : Sorted L) (hq : fits q L) : gen q L = spec q L := by
    cases q with
    | iterAll => rfl
    | take k => simp only [gen, spec, islice_take L k hq, Res.ofRL]
    | index i =>
      simp only [gen, spec]
      by_cases h : i ≥ 0
      · rw [if_pos h, nthNext_getIdx L i h]
      · rw [if_neg h]
    | slice a b c => exact gen_slice_eq L a b c hq
    | contains x => simp only [gen, spec, containsLoop_eq x L hL]
    | count => rfl
    | before t inc => simp only [gen, spec, beforeLoop_eq t inc L none hL, lastBefore, Option.or_none]
    | after t inc => simp only [gen, spec, afterLoop_eq]
    | xafter t n inc =>
      cases n with
      | none => simp only [gen, spec, xafterLoop_none, takeAfter]
      | some c => simp only [gen, spec, xafterLoop_some t c inc L 0 (by omega), takeAfter, Int.sub_zero]
    | between a b inc => simp only [gen, spec, betweenLoop_eq a b inc L false hL (by simp), sublistBetween]

theorem gen_eq_spec (q : Query) (L : List Int) (hL : Sorted L) (hq : fits q L) : gen q L = spec q L :=
  answer_stop.gen_eq_spec' q L hL hq

theorem stops_append (q : Query) (ys zs : List Int) (h : stops q ys = true) : stops q (ys ++ zs) = true := by
  cases q with
  | iterAll => simp [stops] at h
  | count => simp [stops] at h
  | take k => simp only [stops, decide_eq_true_eq, List.length_append] at h ⊢; omega
  | index i => simp only [stops, Bool.and_eq_true, decide_eq_true_eq, List.length_append] at h ⊢; omega
  | slice a b c =>
    simp only [stops, Bool.and_eq_true] at h ⊢
    refine ⟨h.1, ?_⟩
    have h2 := h.2
    split at h2
    · simp only [decide_eq_true_eq, List.length_append] at h2 ⊢; omega
    · cases h2
  | contains x => simp only [stops, List.any_append, Bool.or_eq_true] at h ⊢; exact Or.inl h
  | before t inc => simp only [stops, List.any_append, Bool.or_eq_true] at h ⊢; exact Or.inl h
  | after t inc => simp only [stops, List.any_append, Bool.or_eq_true] at h ⊢; exact Or.inl h
  | between a b inc => simp only [stops, List.any_append, Bool.or_eq_true] at h ⊢; exact Or.inl h
  | xafter t n inc =>
    cases n with
    | none => simp [stops] at h
    | some c => simp only [stops, decide_eq_true_eq, List.filter_append, List.length_append] at h ⊢; omega

theorem specE_of_stops {q : Query} {src : List Int} (e : Option PyErr) (h : stops q src = true) : specE q src e = spec q src := by
  cases e with
  | none => rfl
  | some e => simp only [specE, h, ↓reduceIte]

theorem answer_all {sh : Shared} {q : Query} (he : Exh sh) (hsorted : Sorted sh.src) (hq : fits q sh.src) :
    answer sh q sh.src = spec q sh.src := by
  unfold answer
  cases q with
  | count => simp only [spec]; rw [show sh.len = some sh.src.length from he]
  | _ => exact gen_eq_spec _ _ hsorted hq

theorem fast_eq_spec (q : Query) (L : List Int) (hL : Sorted L) (hq : fits q L) : fast q L = spec q L := by
  cases q with
  | contains x => simp [fast, spec, List.elem_eq_mem]
  | index i => rfl
  | slice a b c => rfl
  | count => rfl
  | iterAll => rfl
  | take k => exact gen_eq_spec (.take k) L hL hq
  | before t inc => exact gen_eq_spec (.before t inc) L hL trivial
  | after t inc => exact gen_eq_spec (.after t inc) L hL trivial
  | xafter t n inc => exact gen_eq_spec (.xafter t n inc) L hL trivial
  | between a b inc => exact gen_eq_spec (.between a b inc) L hL trivial

end Cache
