/- Proofs/TzifGenBuild.lean — the second part of the TRANSLATED `tzfile._read_tzfile` (`Gen.readTzfile_build`:
   ttinfo_std/dst/before, the dstoffset loop over the shared `_ttinfo` objects, trans_list, the wall-clock lists)
   against `TZ.build` of the hand model. -/
import DateutilVerif.Proofs.TzifGenEq

set_option linter.unusedSimpArgs false
set_option linter.unusedVariables false

namespace TzifGen
open Py TZ TzifPy

theorem ofT_default : ofT default = (default : TT) := rfl

theorem hget_map (ts : List TType) (r : Ref) : hget (ts.map ofT) r = ofT (ts.getD r default) := by
  unfold hget
  simp only [List.getD_eq_getElem?_getD, List.getElem?_map]
  cases ts[r]? <;> simp [ofT_default]

/-! ### `for` statement 4: the first standard type -/

theorem loop4_brk (heap : Heap) (L : List Ref) : ∀ (rs : List Ref) (b : Option Ref),
    forEach (Gen.readTzfile_loop4_body heap L) rs (true, b) = .ok (true, b)
  | [], b => rfl
  | r :: rs, b => by
      simp only [forEach, Gen.readTzfile_loop4_body, ↓reduceIte, pure, Except.pure, Except.bind]
      exact loop4_brk heap L rs b

theorem loop4_list (heap : Heap) (L : List Ref) : ∀ (rs : List Ref) (b0 : Option Ref),
    forEach (Gen.readTzfile_loop4_body heap L) rs (false, b0) =
      .ok (match rs.find? (fun r => (hget heap r).isdst == 0) with
           | some ρ => (true, some ρ)
           | none => (false, b0))
  | [], b0 => rfl
  | r :: rs, b0 => by
      by_cases h : (hget heap r).isdst = 0
      · simp [forEach, Gen.readTzfile_loop4_body, h, pure, Except.pure, Except.bind, loop4_brk]
      · simp [forEach, Gen.readTzfile_loop4_body, h, pure, Except.pure, Except.bind, loop4_list heap L rs b0]

/-! ### `for` statement 3: ttinfo_std / ttinfo_dst (scan from the last transition) -/

/-- `if out.ttinfo_dst and not out.ttinfo_std: out.ttinfo_std = out.ttinfo_dst` -/
def fixStd {α} : Option α → Option α → Option α
  | none, some d => some d
  | s, _ => s

theorem scanStdDst_find : ∀ (l : List TType) (std dst : Option TType),
    scanStdDst l std dst =
      (fixStd (std.or (l.find? (fun t => t.isdst == 0))) (dst.or (l.find? (fun t => t.isdst != 0))),
       dst.or (l.find? (fun t => t.isdst != 0)))
  | [], std, dst => by cases std <;> cases dst <;> simp [scanStdDst, fixStd]
  | t :: rest, std, dst => by
      by_cases h : t.isdst = 0 <;> cases std <;> cases dst <;>
        simp [scanStdDst, h, scanStdDst_find rest, fixStd, List.find?_cons]

theorem loop3_brk (heap : Heap) (tc : Int) (refs : List Ref) : ∀ (is : List Int) (s d : Option Ref),
    forEach (Gen.readTzfile_loop3_body heap tc refs) is (true, s, d) = .ok (true, s, d)
  | [], s, d => rfl
  | i :: is, s, d => by
      simp only [forEach, Gen.readTzfile_loop3_body, ↓reduceIte, pure, Except.pure, Except.bind]
      exact loop3_brk heap tc refs is s d

theorem loop3_list (heap : Heap) (tc : Int) (refs : List Ref) : ∀ (idxs : List Nat), (∀ i ∈ idxs, i < refs.length) →
    ∀ (std dst : Option Ref),
    ∃ brk, forEach (Gen.readTzfile_loop3_body heap tc refs) (idxs.map fun (i : Nat) => (i : Int)) (false, std, dst) =
      .ok (brk, std.or ((idxs.map (refs.getD · 0)).find? (fun r => (hget heap r).isdst == 0)),
                dst.or ((idxs.map (refs.getD · 0)).find? (fun r => (hget heap r).isdst != 0))) ∧
      (brk = true → (std.or ((idxs.map (refs.getD · 0)).find? (fun r => (hget heap r).isdst == 0))).isSome = true)
  | [], _, std, dst => ⟨false, by simp [forEach], by simp⟩
  | i :: idxs, hall, std, dst => by
      have hi : i < refs.length := hall i (by simp)
      have hrest : ∀ j ∈ idxs, j < refs.length := fun j hj => hall j (by simp [hj])
      have hg : lget refs (i : Int) = .ok (refs.getD i 0) := by
        rw [lget_nat, List.getElem?_eq_getElem hi]; simp [List.getD_eq_getElem?_getD, List.getElem?_eq_getElem hi]
      have ih := loop3_list heap tc refs idxs hrest
      simp only [List.map_cons]
      generalize hrs : idxs.map (refs.getD · 0) = rs at ih ⊢
      generalize hρ : refs.getD i 0 = ρ at hg ⊢
      by_cases h : (hget heap ρ).isdst = 0
      · have e1 : ((hget heap ρ).isdst != 0) = false := by simp [h]
        have e2 : ((hget heap ρ).isdst == 0) = true := by simp [h]
        rcases std with _ | s <;> rcases dst with _ | d
        · obtain ⟨b, hb1, hb2⟩ := ih (some ρ) none
          exact ⟨b, by simpa [forEach, Gen.readTzfile_loop3_body, hg, e1, e2, bind, Except.bind, pure, Except.pure] using hb1,
            by simp [e2]⟩
        · exact ⟨true, by simp [forEach, Gen.readTzfile_loop3_body, hg, e1, e2, bind, Except.bind, pure, Except.pure, loop3_brk],
            by simp [e2]⟩
        · obtain ⟨b, hb1, hb2⟩ := ih (some s) none
          exact ⟨b, by simpa [forEach, Gen.readTzfile_loop3_body, hg, e1, e2, bind, Except.bind, pure, Except.pure] using hb1,
            by simp⟩
        · exact ⟨true, by simp [forEach, Gen.readTzfile_loop3_body, hg, e1, e2, bind, Except.bind, pure, Except.pure, loop3_brk],
            by simp⟩
      · have e1 : ((hget heap ρ).isdst != 0) = true := by simp [h]
        have e2 : ((hget heap ρ).isdst == 0) = false := by simp [h]
        rcases std with _ | s <;> rcases dst with _ | d
        · obtain ⟨b, hb1, hb2⟩ := ih none (some ρ)
          exact ⟨b, by simpa [forEach, Gen.readTzfile_loop3_body, hg, e1, e2, bind, Except.bind, pure, Except.pure] using hb1,
            by simpa [e2] using hb2⟩
        · obtain ⟨b, hb1, hb2⟩ := ih none (some d)
          exact ⟨b, by simpa [forEach, Gen.readTzfile_loop3_body, hg, e1, e2, bind, Except.bind, pure, Except.pure] using hb1,
            by simpa [e2] using hb2⟩
        · exact ⟨true, by simp [forEach, Gen.readTzfile_loop3_body, hg, e1, e2, bind, Except.bind, pure, Except.pure, loop3_brk],
            by simp⟩
        · exact ⟨true, by simp [forEach, Gen.readTzfile_loop3_body, hg, e1, e2, bind, Except.bind, pure, Except.pure, loop3_brk],
            by simp⟩

/-! ### `for` statement 5: the dstoffset loop (mutates the shared objects) and trans_list -/

theorem hget_cons_succ (t : TT) (ts : Heap) (r : Ref) : hget (t :: ts) (r + 1) = hget ts r := by simp [hget]

theorem hget_hmod_isdst (x : Int) : ∀ (h : Heap) (r r' : Ref),
    (hget (hmod (fun o => { o with dstoffset := x }) h r) r').isdst = (hget h r').isdst
  | [], _, _ => rfl
  | _ :: _, 0, 0 => rfl
  | _ :: _, 0, _ + 1 => rfl
  | _ :: _, _ + 1, 0 => rfl
  | t :: ts, r + 1, r' + 1 => by simp only [hmod, hget_cons_succ]; exact hget_hmod_isdst x ts r r'

theorem mapIdx_id {α} : ∀ (l : List α), List.mapIdx (fun _ t => t) l = l
  | [] => rfl
  | a :: l => by simp [List.mapIdx_cons, mapIdx_id l]

theorem hmod_map (x : Int) : ∀ (ts : List TType) (ρ : Ref),
    hmod (fun o => { o with dstoffset := x }) (ts.map ofT) ρ =
      (ts.mapIdx (fun j t => if j = ρ then { t with dstoff := x } else t)).map ofT
  | [], _ => rfl
  | t :: ts, 0 => by simp [hmod, List.mapIdx_cons, ofT, mapIdx_id]
  | t :: ts, ρ + 1 => by simp [hmod, List.mapIdx_cons, hmod_map x ts ρ]

/-- the translated loop's four `last…` names as functions of the model's loop state -/
def genSt (st : LoopSt) : Option Int × Option Int × Option Int × Option Int :=
  (st.lastdstoffset, st.lastdst, if st.lastdst.isSome then some st.lastoffset else none, st.lastbaseoffset)

theorem loop5_body_eq (utc : List Int) (refs : List Ref) (i : Int) (ρ : Ref) (heap : Heap) (st : LoopSt) (acc : List Int)
    (u : Int) (hu : lget utc i = .ok u) (hinv : st.lastbaseoffset.isSome = st.lastdst.isSome) :
    Gen.readTzfile_loop5_body utc refs (i, ρ) (heap, (genSt st).1, (genSt st).2.1, (genSt st).2.2.1, (genSt st).2.2.2, acc) =
      .ok ((match (loopStep st (hget heap ρ).offset (hget heap ρ).isdst).1 with
            | some x => hmod (fun o => { o with dstoffset := x }) heap ρ
            | none => heap),
           (genSt (loopStep st (hget heap ρ).offset (hget heap ρ).isdst).2.2).1,
           (genSt (loopStep st (hget heap ρ).offset (hget heap ρ).isdst).2.2).2.1,
           (genSt (loopStep st (hget heap ρ).offset (hget heap ρ).isdst).2.2).2.2.1,
           (genSt (loopStep st (hget heap ρ).offset (hget heap ρ).isdst).2.2).2.2.2,
           acc ++ [u + (loopStep st (hget heap ρ).offset (hget heap ρ).isdst).2.1]) := by
  obtain ⟨ld, lo, ldo, lb⟩ := st
  unfold Gen.readTzfile_loop5_body
  simp only [genSt, hu, hget_hmod_isdst, bind, Except.bind, pure, Except.pure]
  generalize ho : (hget heap ρ).offset = o
  generalize hd : (hget heap ρ).isdst = d
  rcases ld with _ | ld <;> rcases lb with _ | lb <;> simp at hinv
  · simp [loopStep, genSt, needInt, optTruthy, hd]
  · by_cases hd0 : d = 0
    · subst hd0
      simp only [loopStep, genSt, needInt, optTruthy, hd, hget_hmod_isdst]
      by_cases hc : ¬ o = lb ∧ ¬ 0 = ld <;> simp [hc, hd]
    · simp only [loopStep, genSt, needInt, optTruthy, hd, hget_hmod_isdst]
      have hd1 : (d != 0) = true := by simp [hd0]
      simp only [hd1, Option.isSome_some, ↓reduceIte]
      by_cases hld : ld = 0
      · subst hld
        by_cases hz : o - lo = 0
        · rcases ldo with _ | x
          · simp [hz, hget_hmod_isdst, hd]
            by_cases hc : ¬ o = lb ∧ ¬ d = 0 <;> simp [hc]
          · by_cases hx : x = 0
            · subst hx
              simp [hz, hget_hmod_isdst, hd]
              by_cases hc : ¬ o = lb ∧ ¬ d = 0 <;> simp [hc]
            · simp [hz, hx, hget_hmod_isdst, hd]
              by_cases hc : ¬ o - x = lb ∧ ¬ d = 0 <;> simp [hc]
        · simp [hz, hget_hmod_isdst, hd]
          by_cases hc : ¬ o - (o - lo) = lb ∧ ¬ d = 0 <;> simp [hc]
      · rcases ldo with _ | x
        · simp [hld, hget_hmod_isdst, hd]
          by_cases hc : ¬ o = lb ∧ ¬ d = ld <;> simp [hc]
        · by_cases hx : x = 0
          · subst hx
            simp [hld, hget_hmod_isdst, hd]
            by_cases hc : ¬ o = lb ∧ ¬ d = ld <;> simp [hc]
          · simp [hld, hx, hget_hmod_isdst, hd]
            by_cases hc : ¬ o - x = lb ∧ ¬ d = ld <;> simp [hc]

theorem getD_mapIdx_dstoff (ts : List TType) (ρ k : Nat) (x : Int) :
    ((ts.mapIdx (fun j t => if j = ρ then { t with dstoff := x } else t)).getD k default).off = (ts.getD k default).off ∧
    ((ts.mapIdx (fun j t => if j = ρ then { t with dstoff := x } else t)).getD k default).isdst = (ts.getD k default).isdst := by
  simp only [List.getD_eq_getElem?_getD, List.getElem?_mapIdx]
  cases ts[k]? with
  | none => simp
  | some t => by_cases h : k = ρ <;> simp [h]

theorem loopStep_inv (st : LoopSt) (o d : Int) :
    (loopStep st o d).2.2.lastbaseoffset.isSome = (loopStep st o d).2.2.lastdst.isSome := by
  simp [loopStep]

theorem enumFrom_cons {α} (i : Nat) (x : α) (xs : List α) :
    enumFrom i (x :: xs) = ((i : Int), x) :: enumFrom (i + 1) xs := rfl

theorem loop5_from (utc : List Int) (refs : List Ref) (off isd : Ref → Int) :
    ∀ (rest : List Ref) (i : Nat) (ts : List TType) (st : LoopSt) (acc : List Int),
    (∀ ρ, (ts.getD ρ default).off = off ρ ∧ (ts.getD ρ default).isdst = isd ρ) →
    st.lastbaseoffset.isSome = st.lastdst.isSome →
    i + rest.length = utc.length →
    ∃ a b c d, forEach (Gen.readTzfile_loop5_body utc refs) (enumFrom i rest)
        (ts.map ofT, (genSt st).1, (genSt st).2.1, (genSt st).2.2.1, (genSt st).2.2.2, acc) =
      .ok ((applyAssign ts (rest.zip ((dstLoop st (rest.map fun ρ => (off ρ, isd ρ))).map (·.1)))).map ofT, a, b, c, d,
           acc ++ List.zipWith (· + ·) (utc.drop i) ((dstLoop st (rest.map fun ρ => (off ρ, isd ρ))).map (·.2)))
  | [], i, ts, st, acc, _, _, hlen => by
      exact ⟨(genSt st).1, (genSt st).2.1, (genSt st).2.2.1, (genSt st).2.2.2, by simp [enumFrom, forEach, dstLoop, applyAssign]⟩
  | ρ :: rest, i, ts, st, acc, hts, hinv, hlen => by
      have hi : i < utc.length := by simp at hlen; omega
      have hu : lget utc (i : Int) = .ok utc[i] := by rw [lget_nat, List.getElem?_eq_getElem hi]
      have hdrop : utc.drop i = utc[i] :: utc.drop (i + 1) := List.drop_eq_getElem_cons hi
      have ho : (hget (ts.map ofT) ρ).offset = off ρ := by rw [hget_map]; exact (hts ρ).1
      have hd : (hget (ts.map ofT) ρ).isdst = isd ρ := by rw [hget_map]; exact (hts ρ).2
      simp only [enumFrom_cons, forEach]
      rw [loop5_body_eq utc refs i ρ (ts.map ofT) st acc utc[i] hu hinv, ho, hd]
      simp only [Except.bind, List.map_cons, dstLoop, List.zip_cons_cons, hdrop, List.zipWith_cons_cons]
      rcases hass : (loopStep st (off ρ) (isd ρ)).1 with _ | x
      · obtain ⟨a, b, c, d, h⟩ := loop5_from utc refs off isd rest (i + 1) ts _ (acc ++ [utc[i] + (loopStep st (off ρ) (isd ρ)).2.1])
          hts (loopStep_inv st _ _) (by simp at hlen ⊢; omega)
        refine ⟨a, b, c, d, ?_⟩
        simp only [hass, applyAssign] at h ⊢
        rw [h]; simp
      · have hts' : ∀ k, ((ts.mapIdx (fun j t => if j = ρ then { t with dstoff := x } else t)).getD k default).off = off k ∧
            ((ts.mapIdx (fun j t => if j = ρ then { t with dstoff := x } else t)).getD k default).isdst = isd k := by
          intro k
          have := getD_mapIdx_dstoff ts ρ k x
          rw [this.1, this.2]; exact hts k
        obtain ⟨a, b, c, d, h⟩ := loop5_from utc refs off isd rest (i + 1) _ _ (acc ++ [utc[i] + (loopStep st (off ρ) (isd ρ)).2.1])
          hts' (loopStep_inv st _ _) (by simp at hlen ⊢; omega)
        refine ⟨a, b, c, d, ?_⟩
        simp only [hass, applyAssign, hmod_map] at h ⊢
        rw [h]; simp

end TzifGen
