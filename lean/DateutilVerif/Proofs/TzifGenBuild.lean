/- Proofs/TzifGenBuild.lean — the second part of the TRANSLATED `tzfile._read_tzfile` (`Gen.readTzfile_build`:
   ttinfo_std/dst/before, the dstoffset loop over the shared `_ttinfo` objects, trans_list, the wall-clock lists)
   against `TZ.build` of the hand model. -/
import DateutilVerif.Proofs.TzifGenEq

set_option linter.unusedSimpArgs false
set_option linter.unusedVariables false

namespace TzifGen
open Py TZ TzifPy

theorem ofT_default : ofT default = (default : TT) := rfl

theorem hget_map (ts : List TType) (r : Ref) : hget (ts.map ofT) r = ofT (ts.getD r default) := by
  unfold hget
  simp only [List.getD_eq_getElem?_getD, List.getElem?_map]
  cases ts[r]? <;> simp [ofT_default]

/-! ### `for` statement 4: the first standard type -/

theorem loop4_brk (heap : Heap) (L : List Ref) : ∀ (rs : List Ref) (b : Option Ref),
    forEach (Gen.readTzfile_loop4_body heap L) rs (true, b) = .ok (true, b)
  | [], b => rfl
  | r :: rs, b => by
      simp only [forEach, Gen.readTzfile_loop4_body, ↓reduceIte, pure, Except.pure, Except.bind]
      exact loop4_brk heap L rs b

theorem loop4_list (heap : Heap) (L : List Ref) : ∀ (rs : List Ref) (b0 : Option Ref),
    forEach (Gen.readTzfile_loop4_body heap L) rs (false, b0) =
      .ok (match rs.find? (fun r => (hget heap r).isdst == 0) with
           | some ρ => (true, some ρ)
           | none => (false, b0))
  | [], b0 => rfl
  | r :: rs, b0 => by
      by_cases h : (hget heap r).isdst = 0
      · simp [forEach, Gen.readTzfile_loop4_body, h, pure, Except.pure, Except.bind, loop4_brk]
      · simp [forEach, Gen.readTzfile_loop4_body, h, pure, Except.pure, Except.bind, loop4_list heap L rs b0]

/-! ### `for` statement 3: ttinfo_std / ttinfo_dst (scan from the last transition) -/

/-- `if out.ttinfo_dst and not out.ttinfo_std: out.ttinfo_std = out.ttinfo_dst` -/
def fixStd {α} : Option α → Option α → Option α
  | none, some d => some d
  | s, _ => s

theorem scanStdDst_find : ∀ (l : List TType) (std dst : Option TType),
    scanStdDst l std dst =
      (fixStd (std.or (l.find? (fun t => t.isdst == 0))) (dst.or (l.find? (fun t => t.isdst != 0))),
       dst.or (l.find? (fun t => t.isdst != 0)))
  | [], std, dst => by cases std <;> cases dst <;> simp [scanStdDst, fixStd]
  | t :: rest, std, dst => by
      by_cases h : t.isdst = 0 <;> cases std <;> cases dst <;>
        simp [scanStdDst, h, scanStdDst_find rest, fixStd, List.find?_cons]

theorem loop3_brk (heap : Heap) (tc : Int) (refs : List Ref) : ∀ (is : List Int) (s d : Option Ref),
    forEach (Gen.readTzfile_loop3_body heap tc refs) is (true, s, d) = .ok (true, s, d)
  | [], s, d => rfl
  | i :: is, s, d => by
      simp only [forEach, Gen.readTzfile_loop3_body, ↓reduceIte, pure, Except.pure, Except.bind]
      exact loop3_brk heap tc refs is s d

theorem loop3_list (heap : Heap) (tc : Int) (refs : List Ref) : ∀ (idxs : List Nat), (∀ i ∈ idxs, i < refs.length) →
    ∀ (std dst : Option Ref),
    ∃ brk, forEach (Gen.readTzfile_loop3_body heap tc refs) (idxs.map fun (i : Nat) => (i : Int)) (false, std, dst) =
      .ok (brk, std.or ((idxs.map (refs.getD · 0)).find? (fun r => (hget heap r).isdst == 0)),
                dst.or ((idxs.map (refs.getD · 0)).find? (fun r => (hget heap r).isdst != 0))) ∧
      (brk = true → (std.or ((idxs.map (refs.getD · 0)).find? (fun r => (hget heap r).isdst == 0))).isSome = true)
  | [], _, std, dst => ⟨false, by simp [forEach], by simp⟩
  | i :: idxs, hall, std, dst => by
      have hi : i < refs.length := hall i (by simp)
      have hrest : ∀ j ∈ idxs, j < refs.length := fun j hj => hall j (by simp [hj])
      have hg : lget refs (i : Int) = .ok (refs.getD i 0) := by
        rw [lget_nat, List.getElem?_eq_getElem hi]; simp [List.getD_eq_getElem?_getD, List.getElem?_eq_getElem hi]
      have ih := loop3_list heap tc refs idxs hrest
      simp only [List.map_cons]
      generalize hrs : idxs.map (refs.getD · 0) = rs at ih ⊢
      generalize hρ : refs.getD i 0 = ρ at hg ⊢
      by_cases h : (hget heap ρ).isdst = 0
      · have e1 : ((hget heap ρ).isdst != 0) = false := by simp [h]
        have e2 : ((hget heap ρ).isdst == 0) = true := by simp [h]
        rcases std with _ | s <;> rcases dst with _ | d
        · obtain ⟨b, hb1, hb2⟩ := ih (some ρ) none
          exact ⟨b, by simpa [forEach, Gen.readTzfile_loop3_body, hg, e1, e2, bind, Except.bind, pure, Except.pure] using hb1,
            by simp [e2]⟩
        · exact ⟨true, by simp [forEach, Gen.readTzfile_loop3_body, hg, e1, e2, bind, Except.bind, pure, Except.pure, loop3_brk],
            by simp [e2]⟩
        · obtain ⟨b, hb1, hb2⟩ := ih (some s) none
          exact ⟨b, by simpa [forEach, Gen.readTzfile_loop3_body, hg, e1, e2, bind, Except.bind, pure, Except.pure] using hb1,
            by simp⟩
        · exact ⟨true, by simp [forEach, Gen.readTzfile_loop3_body, hg, e1, e2, bind, Except.bind, pure, Except.pure, loop3_brk],
            by simp⟩
      · have e1 : ((hget heap ρ).isdst != 0) = true := by simp [h]
        have e2 : ((hget heap ρ).isdst == 0) = false := by simp [h]
        rcases std with _ | s <;> rcases dst with _ | d
        · obtain ⟨b, hb1, hb2⟩ := ih none (some ρ)
          exact ⟨b, by simpa [forEach, Gen.readTzfile_loop3_body, hg, e1, e2, bind, Except.bind, pure, Except.pure] using hb1,
            by simpa [e2] using hb2⟩
        · obtain ⟨b, hb1, hb2⟩ := ih none (some d)
          exact ⟨b, by simpa [forEach, Gen.readTzfile_loop3_body, hg, e1, e2, bind, Except.bind, pure, Except.pure] using hb1,
            by simpa [e2] using hb2⟩
        · exact ⟨true, by simp [forEach, Gen.readTzfile_loop3_body, hg, e1, e2, bind, Except.bind, pure, Except.pure, loop3_brk],
            by simp⟩
        · exact ⟨true, by simp [forEach, Gen.readTzfile_loop3_body, hg, e1, e2, bind, Except.bind, pure, Except.pure, loop3_brk],
            by simp⟩

/-! ### `for` statement 5: the dstoffset loop (mutates the shared objects) and trans_list -/

theorem hget_cons_succ (t : TT) (ts : Heap) (r : Ref) : hget (t :: ts) (r + 1) = hget ts r := by simp [hget]

theorem hget_hmod_isdst (x : Int) : ∀ (h : Heap) (r r' : Ref),
    (hget (hmod (fun o => { o with dstoffset := x }) h r) r').isdst = (hget h r').isdst
  | [], _, _ => rfl
  | _ :: _, 0, 0 => rfl
  | _ :: _, 0, _ + 1 => rfl
  | _ :: _, _ + 1, 0 => rfl
  | t :: ts, r + 1, r' + 1 => by simp only [hmod, hget_cons_succ]; exact hget_hmod_isdst x ts r r'

theorem mapIdx_id {α} : ∀ (l : List α), List.mapIdx (fun _ t => t) l = l
  | [] => rfl
  | a :: l => by simp [List.mapIdx_cons, mapIdx_id l]

theorem hmod_map (x : Int) : ∀ (ts : List TType) (ρ : Ref),
    hmod (fun o => { o with dstoffset := x }) (ts.map ofT) ρ =
      (ts.mapIdx (fun j t => if j = ρ then { t with dstoff := x } else t)).map ofT
  | [], _ => rfl
  | t :: ts, 0 => by simp [hmod, List.mapIdx_cons, ofT, mapIdx_id]
  | t :: ts, ρ + 1 => by simp [hmod, List.mapIdx_cons, hmod_map x ts ρ]

/-- the translated loop's four `last…` names as functions of the model's loop state -/
def genSt (st : LoopSt) : Option Int × Option Int × Option Int × Option Int :=
  (st.lastdstoffset, st.lastdst, if st.lastdst.isSome then some st.lastoffset else none, st.lastbaseoffset)

theorem loop5_body_eq (utc : List Int) (refs : List Ref) (i : Int) (ρ : Ref) (heap : Heap) (st : LoopSt) (acc : List Int)
    (u : Int) (hu : lget utc i = .ok u) (hinv : st.lastbaseoffset.isSome = st.lastdst.isSome) :
    Gen.readTzfile_loop5_body utc refs (i, ρ) (heap, (genSt st).1, (genSt st).2.1, (genSt st).2.2.1, (genSt st).2.2.2, acc) =
      .ok ((match (loopStep st (hget heap ρ).offset (hget heap ρ).isdst).1 with
            | some x => hmod (fun o => { o with dstoffset := x }) heap ρ
            | none => heap),
           (genSt (loopStep st (hget heap ρ).offset (hget heap ρ).isdst).2.2).1,
           (genSt (loopStep st (hget heap ρ).offset (hget heap ρ).isdst).2.2).2.1,
           (genSt (loopStep st (hget heap ρ).offset (hget heap ρ).isdst).2.2).2.2.1,
           (genSt (loopStep st (hget heap ρ).offset (hget heap ρ).isdst).2.2).2.2.2,
           acc ++ [u + (loopStep st (hget heap ρ).offset (hget heap ρ).isdst).2.1]) := by
  obtain ⟨ld, lo, ldo, lb⟩ := st
  unfold Gen.readTzfile_loop5_body
  simp only [genSt, hu, hget_hmod_isdst, bind, Except.bind, pure, Except.pure]
  generalize ho : (hget heap ρ).offset = o
  generalize hd : (hget heap ρ).isdst = d
  rcases ld with _ | ld <;> rcases lb with _ | lb <;> simp at hinv
  · simp [loopStep, genSt, needInt, optTruthy, hd]
  · by_cases hd0 : d = 0
    · subst hd0
      simp only [loopStep, genSt, needInt, optTruthy, hd, hget_hmod_isdst]
      by_cases hc : ¬ o = lb ∧ ¬ 0 = ld <;> simp [hc, hd]
    · simp only [loopStep, genSt, needInt, optTruthy, hd, hget_hmod_isdst]
      have hd1 : (d != 0) = true := by simp [hd0]
      simp only [hd1, Option.isSome_some, ↓reduceIte]
      by_cases hld : ld = 0
      · subst hld
        by_cases hz : o - lo = 0
        · rcases ldo with _ | x
          · simp [hz, hget_hmod_isdst, hd]
            by_cases hc : ¬ o = lb ∧ ¬ d = 0 <;> simp [hc]
          · by_cases hx : x = 0
            · subst hx
              simp [hz, hget_hmod_isdst, hd]
              by_cases hc : ¬ o = lb ∧ ¬ d = 0 <;> simp [hc]
            · simp [hz, hx, hget_hmod_isdst, hd]
              by_cases hc : ¬ o - x = lb ∧ ¬ d = 0 <;> simp [hc]
        · simp [hz, hget_hmod_isdst, hd]
          by_cases hc : ¬ o - (o - lo) = lb ∧ ¬ d = 0 <;> simp [hc]
      · rcases ldo with _ | x
        · simp [hld, hget_hmod_isdst, hd]
          by_cases hc : ¬ o = lb ∧ ¬ d = ld <;> simp [hc]
        · by_cases hx : x = 0
          · subst hx
            simp [hld, hget_hmod_isdst, hd]
            by_cases hc : ¬ o = lb ∧ ¬ d = ld <;> simp [hc]
          · simp [hld, hx, hget_hmod_isdst, hd]
            by_cases hc : ¬ o - x = lb ∧ ¬ d = ld <;> simp [hc]

theorem getD_mapIdx_dstoff (ts : List TType) (ρ k : Nat) (x : Int) :
    ((ts.mapIdx (fun j t => if j = ρ then { t with dstoff := x } else t)).getD k default).off = (ts.getD k default).off ∧
    ((ts.mapIdx (fun j t => if j = ρ then { t with dstoff := x } else t)).getD k default).isdst = (ts.getD k default).isdst := by
  simp only [List.getD_eq_getElem?_getD, List.getElem?_mapIdx]
  cases ts[k]? with
  | none => simp
  | some t => by_cases h : k = ρ <;> simp [h]

theorem loopStep_inv (st : LoopSt) (o d : Int) :
    (loopStep st o d).2.2.lastbaseoffset.isSome = (loopStep st o d).2.2.lastdst.isSome := by
  simp [loopStep]

theorem enumFrom_cons {α} (i : Nat) (x : α) (xs : List α) :
    enumFrom i (x :: xs) = ((i : Int), x) :: enumFrom (i + 1) xs := rfl

theorem loop5_from (utc : List Int) (refs : List Ref) (off isd : Ref → Int) :
    ∀ (rest : List Ref) (i : Nat) (ts : List TType) (st : LoopSt) (acc : List Int),
    (∀ ρ, (ts.getD ρ default).off = off ρ ∧ (ts.getD ρ default).isdst = isd ρ) →
    st.lastbaseoffset.isSome = st.lastdst.isSome →
    i + rest.length = utc.length →
    ∃ a b c d, forEach (Gen.readTzfile_loop5_body utc refs) (enumFrom i rest)
        (ts.map ofT, (genSt st).1, (genSt st).2.1, (genSt st).2.2.1, (genSt st).2.2.2, acc) =
      .ok ((applyAssign ts (rest.zip ((dstLoop st (rest.map fun ρ => (off ρ, isd ρ))).map (·.1)))).map ofT, a, b, c, d,
           acc ++ List.zipWith (· + ·) (utc.drop i) ((dstLoop st (rest.map fun ρ => (off ρ, isd ρ))).map (·.2)))
  | [], i, ts, st, acc, _, _, hlen => by
      exact ⟨(genSt st).1, (genSt st).2.1, (genSt st).2.2.1, (genSt st).2.2.2, by simp [enumFrom, forEach, dstLoop, applyAssign]⟩
  | ρ :: rest, i, ts, st, acc, hts, hinv, hlen => by
      have hi : i < utc.length := by simp at hlen; omega
      have hu : lget utc (i : Int) = .ok utc[i] := by rw [lget_nat, List.getElem?_eq_getElem hi]
      have hdrop : utc.drop i = utc[i] :: utc.drop (i + 1) := List.drop_eq_getElem_cons hi
      have ho : (hget (ts.map ofT) ρ).offset = off ρ := by rw [hget_map]; exact (hts ρ).1
      have hd : (hget (ts.map ofT) ρ).isdst = isd ρ := by rw [hget_map]; exact (hts ρ).2
      simp only [enumFrom_cons, forEach]
      rw [loop5_body_eq utc refs i ρ (ts.map ofT) st acc utc[i] hu hinv, ho, hd]
      simp only [Except.bind, List.map_cons, dstLoop, List.zip_cons_cons, hdrop, List.zipWith_cons_cons]
      rcases hass : (loopStep st (off ρ) (isd ρ)).1 with _ | x
      · obtain ⟨a, b, c, d, h⟩ := loop5_from utc refs off isd rest (i + 1) ts _ (acc ++ [utc[i] + (loopStep st (off ρ) (isd ρ)).2.1])
          hts (loopStep_inv st _ _) (by simp at hlen ⊢; omega)
        refine ⟨a, b, c, d, ?_⟩
        simp only [hass, applyAssign] at h ⊢
        rw [h]; simp
      · have hts' : ∀ k, ((ts.mapIdx (fun j t => if j = ρ then { t with dstoff := x } else t)).getD k default).off = off k ∧
            ((ts.mapIdx (fun j t => if j = ρ then { t with dstoff := x } else t)).getD k default).isdst = isd k := by
          intro k
          have := getD_mapIdx_dstoff ts ρ k x
          rw [this.1, this.2]; exact hts k
        obtain ⟨a, b, c, d, h⟩ := loop5_from utc refs off isd rest (i + 1) _ _ (acc ++ [utc[i] + (loopStep st (off ρ) (isd ρ)).2.1])
          hts' (loopStep_inv st _ _) (by simp at hlen ⊢; omega)
        refine ⟨a, b, c, d, ?_⟩
        simp only [hass, applyAssign, hmod_map] at h ⊢
        rw [h]; simp

/-! ### `for` statement 6: the two wall-clock lists -/

theorem loop6_from (before : Option Ref) (heap : Heap) (utc : List Int) (refs : List Ref) :
    ∀ (rest : List Ref) (i : Nat) (prev : Int) (w : List Int × List Int),
    refs.drop i = rest → i + rest.length = utc.length →
    (i = 0 → rest ≠ [] → ∃ b, before = some b ∧ (hget heap b).offset = prev) →
    (0 < i → ∃ ρ', refs[i - 1]? = some ρ' ∧ (hget heap ρ').offset = prev) →
    forEach (Gen.readTzfile_loop6_body before heap utc refs) (enumFrom i rest) w =
      .ok (w.1 ++ (wallLists prev (utc.drop i) (rest.map fun ρ => (hget heap ρ).offset)).1,
           w.2 ++ (wallLists prev (utc.drop i) (rest.map fun ρ => (hget heap ρ).offset)).2)
  | [], i, prev, w, _, hlen, _, _ => by
      have : utc.drop i = [] := List.drop_eq_nil_of_le (by simp at hlen; omega)
      simp [enumFrom, forEach, this, wallLists]
  | ρ :: rest, i, prev, w, hdrop, hlen, h0, hpos => by
      have hi : i < utc.length := by simp at hlen; omega
      have hu : lget utc (i : Int) = .ok utc[i] := by rw [lget_nat, List.getElem?_eq_getElem hi]
      have hud : utc.drop i = utc[i] :: utc.drop (i + 1) := List.drop_eq_getElem_cons hi
      have hir : i < refs.length := by
        apply Nat.lt_of_not_le
        intro hc
        have : refs.drop i = [] := List.drop_eq_nil_of_le hc
        rw [this] at hdrop; cases hdrop
      have hrd : refs.drop i = refs[i] :: refs.drop (i + 1) := List.drop_eq_getElem_cons hir
      rw [hrd] at hdrop
      have hρ : refs[i] = ρ := (List.cons.inj hdrop).1
      have hrest : refs.drop (i + 1) = rest := (List.cons.inj hdrop).2
      have hbefore : (if (decide ((i : Int) > 0)) = true then do
            let t ← lget refs ((i : Int) - 1)
            pure (hget heap t).offset
          else do
            let t ← need before
            pure (hget heap t).offset : R Int) = .ok prev := by
        by_cases hz : i = 0
        · subst hz
          obtain ⟨b, hb1, hb2⟩ := h0 rfl (by simp)
          have hdec : decide (((0 : Nat) : Int) > 0) = false := by simp
          simp only [hdec, Bool.false_eq_true, ↓reduceIte, hb1, need, hb2, bind, Except.bind, pure, Except.pure]
        · have hp : 0 < i := Nat.pos_of_ne_zero hz
          obtain ⟨ρ', h1, h2⟩ := hpos hp
          have hc : ((i : Int) - 1) = ((i - 1 : Nat) : Int) := by omega
          have hdec : decide ((i : Int) > 0) = true := by simp; omega
          simp only [hdec, ↓reduceIte, hc, lget_nat, h1, h2, bind, Except.bind, pure, Except.pure]
      simp only [bind, Except.bind, pure, Except.pure] at hbefore
      simp only [enumFrom_cons, forEach, Gen.readTzfile_loop6_body, bind, Except.bind, pure, Except.pure, hbefore, hu]
      rw [loop6_from before heap utc refs rest (i + 1) ((hget heap ρ).offset) _ hrest (by simp at hlen ⊢; omega)
        (by intro h; omega) (by intro _; exact ⟨ρ, by simp [List.getElem?_eq_getElem hir, hρ], rfl⟩)]
      rw [hud]
      simp only [List.map_cons, wallLists, List.append_assoc, List.cons_append, List.nil_append]

/-! ### assembling -/

theorem applyAssign_getD : ∀ (as : List (Nat × Option Int)) (ts : List TType) (k : Nat),
    ((applyAssign ts as).getD k default).off = (ts.getD k default).off ∧
    ((applyAssign ts as).getD k default).isdst = (ts.getD k default).isdst
  | [], ts, k => ⟨rfl, rfl⟩
  | (i, some d) :: rest, ts, k => by
      have h := applyAssign_getD rest (ts.mapIdx (fun j t => if j = i then { t with dstoff := d } else t)) k
      have h2 := getD_mapIdx_dstoff ts i k d
      simp only [applyAssign]
      exact ⟨h.1.trans h2.1, h.2.trans h2.2⟩
  | (_, none) :: rest, ts, k => by simp only [applyAssign]; exact applyAssign_getD rest ts k

theorem applyAssign_length : ∀ (as : List (Nat × Option Int)) (ts : List TType), (applyAssign ts as).length = ts.length
  | [], ts => rfl
  | (i, some d) :: rest, ts => by simp [applyAssign, applyAssign_length rest]
  | (_, none) :: rest, ts => by simp [applyAssign, applyAssign_length rest]

theorem range_map_getD {α} (l : List α) (d : α) : (List.range' 0 l.length).map (l.getD · d) = l := by
  apply List.ext_getElem
  · simp
  · intro i h1 h2
    simp [List.getD_eq_getElem?_getD, List.getElem?_eq_getElem h2]

theorem fixStd_map {α β} (g : α → β) (s d : Option α) : (fixStd s d).map g = fixStd (s.map g) (d.map g) := by
  cases s <;> cases d <;> rfl

theorem rangeDown_eq (len : Nat) : rangeDown ((len : Int) - 1) = (List.range len).reverse.map fun (i : Nat) => (i : Int) := by
  simp [rangeDown, rangeUp, List.map_reverse]

theorem loop3_eq (heap : Heap) (refs : List Ref) :
    Gen.readTzfile_loop3 heap (refs.length : Int) refs none none =
      .ok (fixStd (refs.reverse.find? (fun r => (hget heap r).isdst == 0)) (refs.reverse.find? (fun r => (hget heap r).isdst != 0)),
           refs.reverse.find? (fun r => (hget heap r).isdst != 0)) := by
  unfold Gen.readTzfile_loop3
  rw [rangeDown_eq]
  obtain ⟨brk, h1, h2⟩ := loop3_list heap (refs.length : Int) refs (List.range refs.length).reverse
    (by intro i hi; simpa using hi) none none
  have hrs : (List.range refs.length).reverse.map (refs.getD · 0) = refs.reverse := by
    rw [List.map_reverse, List.range_eq_range', range_map_getD]
  rw [hrs] at h1 h2
  simp only [Option.none_or] at h1 h2
  rw [h1]
  simp only [bind, Except.bind, pure, Except.pure]
  cases brk with
  | true =>
      have := h2 rfl
      cases hs : refs.reverse.find? (fun r => (hget heap r).isdst == 0) with
      | none => rw [hs] at this; simp at this
      | some s => cases refs.reverse.find? (fun r => (hget heap r).isdst != 0) <;> simp [fixStd]
  | false =>
      cases refs.reverse.find? (fun r => (hget heap r).isdst == 0) <;>
        cases refs.reverse.find? (fun r => (hget heap r).isdst != 0) <;> simp [fixStd]

theorem loop4_eq (heap : Heap) (n : Nat) (hn : 0 < n) :
    Gen.readTzfile_loop4 heap (List.range' 0 n) none =
      .ok (some (((List.range' 0 n).find? (fun r => (hget heap r).isdst == 0)).getD 0)) := by
  unfold Gen.readTzfile_loop4
  rw [loop4_list]
  have h0 : lget (List.range' 0 n) 0 = .ok 0 := by
    have := lget_nat (List.range' 0 n) 0
    have hc : ((0 : Nat) : Int) = 0 := rfl
    rw [hc] at this
    rw [this]; simp [List.getElem?_range', hn]
  cases (List.range' 0 n).find? (fun r => (hget heap r).isdst == 0) <;>
    simp [bind, Except.bind, pure, Except.pure, h0]

theorem if6_eq (heap : Heap) (utc : List Int) (refs : List Ref) (n : Nat) :
    Gen.readTzfile_if6 none none none none heap (refs.length : Int) utc refs (List.range' 0 n) =
      .ok (if n = 0 then (none, none, none, none)
           else if utc = [] then (some 0, some 0, none, none)
           else (fixStd (refs.reverse.find? (fun r => (hget heap r).isdst == 0)) (refs.reverse.find? (fun r => (hget heap r).isdst != 0)),
                 none, some (((List.range' 0 n).find? (fun r => (hget heap r).isdst == 0)).getD 0),
                 refs.reverse.find? (fun r => (hget heap r).isdst != 0))) := by
  unfold Gen.readTzfile_if6
  by_cases hn : n = 0
  · subst hn; simp [pure, Except.pure]
  · have hpos : 0 < n := Nat.pos_of_ne_zero hn
    have hne : (List.range' 0 n).isEmpty = false := by
      cases n with
      | zero => exact absurd rfl hn
      | succ k => simp [List.range'_succ]
    have h0 : lget (List.range' 0 n) 0 = .ok 0 := by
      have := lget_nat (List.range' 0 n) 0
      have hc : ((0 : Nat) : Int) = 0 := rfl
      rw [hc] at this
      rw [this]; simp [List.getElem?_range', hpos]
    by_cases hu : utc = []
    · subst hu
      simp [hn, hne, h0, bind, Except.bind, pure, Except.pure]
    · have hue : utc.isEmpty = false := by cases utc <;> simp_all
      simp [hn, hne, hu, hue, loop3_eq, loop4_eq heap n hpos, bind, Except.bind, pure, Except.pure]

theorem loop5_eq (utc : List Int) (refs : List Ref) (ts : List TType) (hlen : refs.length = utc.length) :
    ∃ a b c d, Gen.readTzfile_loop5 utc refs (ts.map ofT) none none none none [] =
      .ok ((applyAssign ts (refs.zip ((dstLoop {} (refs.map fun ρ => ((ts.getD ρ default).off, (ts.getD ρ default).isdst))).map (·.1)))).map ofT,
           a, b, c, d,
           List.zipWith (· + ·) utc ((dstLoop {} (refs.map fun ρ => ((ts.getD ρ default).off, (ts.getD ρ default).isdst))).map (·.2))) := by
  obtain ⟨a, b, c, d, h⟩ := loop5_from utc refs (fun ρ => (ts.getD ρ default).off) (fun ρ => (ts.getD ρ default).isdst)
    refs 0 ts {} [] (fun _ => ⟨rfl, rfl⟩) rfl (by simpa using hlen)
  refine ⟨a, b, c, d, ?_⟩
  unfold Gen.readTzfile_loop5
  have hg : genSt {} = (none, none, none, none) := rfl
  simp only [hg] at h
  simp only [enum, h, bind, Except.bind, pure, Except.pure, List.nil_append, List.drop_zero]

theorem loop6_eq (before : Option Ref) (heap : Heap) (utc : List Int) (refs : List Ref) (prev : Int)
    (hlen : refs.length = utc.length)
    (hb : refs ≠ [] → ∃ b, before = some b ∧ (hget heap b).offset = prev) :
    Gen.readTzfile_loop6 before heap utc refs ([], []) =
      .ok (wallLists prev utc (refs.map fun ρ => (hget heap ρ).offset)) := by
  unfold Gen.readTzfile_loop6
  have := loop6_from before heap utc refs refs 0 prev ([], []) rfl (by simpa using hlen) (fun _ h => hb h)
    (fun h => absurd h (Nat.lt_irrefl 0))
  simp only [enum, this, bind, Except.bind, pure, Except.pure, List.nil_append, List.drop_zero]

theorem deltaOk_map (ts : List TType) : (ts.map ofT).all (fun t => t.delta == t.offset) = true := by
  simp [List.all_map, ofT]

/-- the second part of the translated reader, started on what the first part hands over, builds the model's zone -/
theorem build_eq (r : Raw) (hok : Raw.ok r = true) (s0 d0 b0 : Option Ref) :
    (Gen.readTzfile_build s0 d0 b0 none (r.types.map ofT) (r.trans.length : Int) (r.trans.map (·.1)) (r.trans.map (·.2))
      (List.range' 0 r.types.length)).map (fun o => (o.view, o.deltaOk)) = .ok (build r, true) := by
  by_cases htr : r.trans = []
  · obtain ⟨trans, types⟩ := r
    simp only at htr; subst htr
    cases types with
    | nil =>
        have hif := if6_eq ([] : Heap) [] [] 0
        simp at hif
        simp [Gen.readTzfile_build, hif, Gen.readTzfile_loop5, Gen.readTzfile_loop6, enum, enumFrom, forEach, bind,
          Except.bind, pure, Except.pure, Except.map, Out.view, Out.deltaOk, build, finalTypes, assemble, applyAssign,
          dstLoop]
    | cons t0 ts =>
        have hif := if6_eq ((t0 :: ts).map ofT) [] [] (t0 :: ts).length
        simp only [Gen.readTzfile_build, List.map_nil, List.length_nil] at hif ⊢
        simp only [hif, bind, Except.bind]
        simp [Gen.readTzfile_loop5, Gen.readTzfile_loop6, enum, enumFrom, forEach, bind,
          Except.bind, pure, Except.pure, Except.map, Out.view, Out.deltaOk, build, finalTypes, assemble, applyAssign,
          dstLoop, hget_map, range_map_getD, deltaOk_map]
        have e : ofT t0 :: List.map ofT ts = (t0 :: ts).map ofT := rfl
        refine ⟨⟨?_, ?_⟩, by simp [ofT], by intro x _; simp [ofT]⟩
        · rw [e]; simp only [hget_map, toModel_ofT]; exact range_map_getD (t0 :: ts) default
        · rw [e, hget_map]; simp
  · -- at least one transition
    have hseq : r.trans.map (fun p => let t := r.types.getD p.2 default; (t.off, t.isdst)) =
        (r.trans.map (·.2)).map (fun ρ => ((r.types.getD ρ default).off, (r.types.getD ρ default).isdst)) := by
      simp [List.map_map, Function.comp_def]
    have hFTdef : finalTypes r = applyAssign r.types ((r.trans.map (·.2)).zip
        ((dstLoop {} ((r.trans.map (·.2)).map (fun ρ => ((r.types.getD ρ default).off, (r.types.getD ρ default).isdst)))).map (·.1))) := by
      unfold finalTypes; rw [hseq]
    have hbuild : build r = assemble (r.trans.map (·.1)) ((r.trans.map (·.2)).map (fun ρ => (finalTypes r).getD ρ default))
        (finalTypes r) := by
      unfold build; simp [List.map_map, Function.comp_def]
    have hall : ∀ ρ ∈ r.trans.map (·.2), ρ < r.types.length := by
      intro ρ hρ
      simp only [List.mem_map] at hρ
      obtain ⟨p, hp, rfl⟩ := hρ
      simp only [Raw.ok, List.all_eq_true, decide_eq_true_eq] at hok
      exact hok p hp
    have hlen : (r.trans.map (·.2)).length = (r.trans.map (·.1)).length := by simp
    have hlen2 : (r.trans.length : Int) = ((r.trans.map (·.2)).length : Int) := by simp
    have hrne : r.trans.map (·.2) ≠ [] := by simpa using htr
    have hune : r.trans.map (·.1) ≠ [] := by simpa using htr
    rw [hbuild, hlen2]
    generalize r.trans.map (·.2) = refs at *
    generalize r.trans.map (·.1) = utc at *
    have hFTg := fun k => applyAssign_getD (refs.zip
        ((dstLoop {} (refs.map (fun ρ => ((r.types.getD ρ default).off, (r.types.getD ρ default).isdst)))).map (·.1))) r.types k
    have hFTl := applyAssign_length (refs.zip
        ((dstLoop {} (refs.map (fun ρ => ((r.types.getD ρ default).off, (r.types.getD ρ default).isdst)))).map (·.1))) r.types
    rw [← hFTdef] at hFTg hFTl
    obtain ⟨a, b, c, d, h5⟩ := loop5_eq utc refs r.types hlen
    rw [← hFTdef] at h5
    have hseq2 : refs.map (fun ρ => ((r.types.getD ρ default).off, (r.types.getD ρ default).isdst)) =
        (refs.map (fun ρ => (finalTypes r).getD ρ default)).map (fun t => (t.off, t.isdst)) := by
      simp only [List.map_map, Function.comp_def, (hFTg _).1, (hFTg _).2]
    rw [hseq2] at h5
    generalize hFT : finalTypes r = FT at *
    have hnpos : 0 < r.types.length := by
      cases refs with
      | nil => exact absurd rfl hrne
      | cons ρ _ => exact Nat.lt_of_le_of_lt (Nat.zero_le _) (hall ρ (by simp))
    have hn0 : r.types.length ≠ 0 := Nat.ne_of_gt hnpos
    -- the zone read through its references
    have hg : ∀ ρ, (hget (FT.map ofT) ρ).toModel = FT.getD ρ default := by intro ρ; rw [hget_map, toModel_ofT]
    have hisd : ∀ ρ, (hget (r.types.map ofT) ρ).isdst = (FT.getD ρ default).isdst := by
      intro ρ; rw [hget_map]; exact (hFTg ρ).2.symm
    have hFTr : (List.range' 0 r.types.length).map (fun ρ => FT.getD ρ default) = FT := by
      rw [← hFTl]; exact range_map_getD FT default
    have hif := if6_eq (r.types.map ofT) utc refs r.types.length
    simp only [hn0, hune, ↓reduceIte, hisd] at hif
    unfold Gen.readTzfile_build
    simp only [hif, h5, bind, Except.bind]
    -- the object chosen as ttinfo_before
    generalize hρb : ((List.range' 0 r.types.length).find? (fun r => (FT.getD r default).isdst == 0)).getD 0 = ρb
    rw [loop6_eq (some ρb) (FT.map ofT) utc refs ((hget (FT.map ofT) ρb).offset) hlen (fun _ => ⟨ρb, rfl, rfl⟩)]
    simp only [pure, Except.pure, Except.map, Out.view, Out.deltaOk, deltaOk_map, hg, Except.ok.injEq, Prod.mk.injEq, and_true]
    -- model side
    have hFTne : FT ≠ [] := by intro h; rw [h] at hFTl; simp at hFTl; omega
    obtain ⟨t0, FT', hFTc⟩ : ∃ t0 FT', FT = t0 :: FT' := by
      cases FT with
      | nil => exact absurd rfl hFTne
      | cons t0 FT' => exact ⟨t0, FT', rfl⟩
    have hue : utc.isEmpty = false := by cases utc <;> simp_all
    have hbefore : (match FT.find? (fun t => t.isdst == 0) with | some t => some t | none => FT.head?) =
        some (FT.getD ρb default) := by
      rw [← hρb]
      have hfm : FT.find? (fun t => t.isdst == 0) =
          ((List.range' 0 r.types.length).find? (fun ρ => (FT.getD ρ default).isdst == 0)).map (fun ρ => FT.getD ρ default) := by
        conv => lhs; rw [← hFTr]
        rw [List.find?_map]; rfl
      rw [hfm]
      cases hf : (List.range' 0 r.types.length).find? (fun ρ => (FT.getD ρ default).isdst == 0) with
      | some ρ => simp
      | none => rw [hFTc]; simp
    have hsd : scanStdDst (refs.map (fun ρ => FT.getD ρ default)).reverse none none =
        ((fixStd (refs.reverse.find? (fun r => (FT.getD r default).isdst == 0))
            (refs.reverse.find? (fun r => (FT.getD r default).isdst != 0))).map (fun ρ => FT.getD ρ default),
         (refs.reverse.find? (fun r => (FT.getD r default).isdst != 0)).map (fun ρ => FT.getD ρ default)) := by
      rw [scanStdDst_find, ← List.map_reverse, List.find?_map, List.find?_map]
      simp only [Option.none_or, fixStd_map]; rfl
    have hoff : ∀ ρ, (hget (FT.map ofT) ρ).offset = (FT.getD ρ default).off := by intro ρ; rw [hget_map]; rfl
    subst hFTc
    unfold assemble
    simp only [hsd, hue, List.isEmpty_cons, Bool.or_self, Bool.false_eq_true, ↓reduceIte, hbefore, hoff, hFTr, Option.map_some,
      List.map_map, Function.comp_def]
    generalize hfd : List.find? (fun t => t.isdst == 0) (t0 :: FT') = fd at hbefore ⊢
    cases fd with
    | some t => simp only [Option.some.injEq] at hbefore; simp only [hbefore]
    | none => simp only [List.head?_cons, Option.some.injEq] at hbefore; simp only [List.head?_cons]; rw [← hbefore]

end TzifGen
