/-
  Proofs/RRuleMonoCal.lean — strict monotonicity, part 2: the invariant and the period windows of
  the calendar frequencies (YEARLY, MONTHLY, WEEKLY, DAILY).
-/
import DateutilVerif.Proofs.RRuleMono

namespace RRule
open Cal

/-- rule-level facts (all follow from `construct`, see `construct_ruleOk`) -/
structure RuleOk (r : Rule) : Prop where
  interval : 1 ≤ r.interval
  wkst : 0 ≤ r.wkst ∧ r.wkst ≤ 6
  timeset : r.freq < 4 → TsOk (r.timeset.getD [])
  byminute : (r.byminute.getD []).Nodup
  bysecond : (r.bysecond.getD []).Nodup

theorem step_next (r : Rule) (st st' : State) (h : (step r st).2 = .ok st') :
    ∃ c fl, advance r { st with count := c } fl = .ok st' := by
  unfold step at h
  split at h
  · cases h
  · dsimp only at h
    split at h
    · cases h
    · split at h
      · cases h
      · exact ⟨_, _, h⟩

theorem year_start_mono (y y' : Int) (h : y ≤ y') : toOrdinal y 1 1 ≤ toOrdinal y' 1 1 := by
  by_cases c : y = y'
  · subst c; omega
  · have v : ∀ z : Int, ValidYMD z 1 1 := fun z =>
      ⟨by omega, by omega, by omega, by have := daysInMonth_bounds z 1; omega⟩
    have := toOrdinal_lt_of_lex y 1 1 y' 1 1 (v y) (v y') (Or.inl (by omega))
    omega

theorem month_start (y m : Int) : toOrdinal y m 1 = toOrdinal y 1 1 + daysBeforeMonth y m := by
  unfold toOrdinal; rw [daysBeforeMonth_1]; omega

theorem inst_window (o : Int) (t : HMS) (ht : ValidHMS t) :
    o * 86400 ≤ (mkInst o t).secs ∧ (mkInst o t).secs < (o + 1) * 86400 := by
  unfold ValidHMS at ht
  unfold Inst.secs mkInst; dsimp only; omega

/-- the invariant of the calendar frequencies -/
structure CalInv (r : Rule) (st : State) : Prop where
  facts : YearFacts r st.cur.year st.info
  month : 1 ≤ st.cur.month ∧ st.cur.month ≤ 12
  ts : TsOk st.timeset
  valid : 2 ≤ r.freq → ValidYMD st.cur.year st.cur.month st.cur.day
  wd : r.freq = 2 → st.cur.weekday = weekdayOfOrd (curOrd st.cur)

/-- first day (ordinal) of the period at the cursor -/
def loOrd (r : Rule) (st : State) : Int :=
  if r.freq = 0 then toOrdinal st.cur.year 1 1
  else if r.freq = 1 then toOrdinal st.cur.year st.cur.month 1
  else curOrd st.cur

/-- the items of the period lie in an ordinal window `[loOrd, hi)`, are strictly increasing, and the
    next cursor starts at or after `hi` -/
theorem cal_window (r : Rule) (ok : RuleOk r) (hf : 0 ≤ r.freq ∧ r.freq ≤ 3) (st : State) (inv : CalInv r st) :
    ∃ hi : Int, loOrd r st < hi ∧
      (∀ x ∈ (step r st).1, loOrd r st * 86400 ≤ x.secs ∧ x.secs < hi * 86400) ∧
      (step r st).1.Pairwise secsLt ∧
      (∀ st', (step r st).2 = .ok st' → CalInv r st' ∧ hi ≤ loOrd r st') := by
  have hyo := inv.facts.yearordinal
  have hyl := inv.facts.yearlen
  -- a uniform description of the day set: indices [i0, i1)
  have hds : ∃ i0 i1 : Int, dayset r st.info st.cur = .ok (intRange i0 i1) ∧
      st.info.yearordinal + i0 = loOrd r st ∧ i0 < i1 ∧
      (∀ st', (step r st).2 = .ok st' → CalInv r st' ∧ st.info.yearordinal + i1 ≤ loOrd r st') := by
    by_cases f0 : r.freq = 0
    · refine ⟨0, st.info.yearlen, dayset_yearly st.cur f0, by unfold loOrd; rw [if_pos f0, hyo]; omega, ?_, ?_⟩
      · rw [hyl]; unfold daysInYear; split <;> omega
      · intro st' h
        obtain ⟨c, fl, hadv⟩ := step_next r st st' h
        obtain ⟨e, f', ts⟩ := advance_yearly r { st with count := c } st' fl f0 hadv
        have ec : st'.cur = { st.cur with year := st.cur.year + r.interval } := e
        refine ⟨⟨by rw [ec]; exact f', by rw [ec]; exact inv.month, by rw [ts]; exact inv.ts,
                 by intro h2; omega, by intro h2; omega⟩, ?_⟩
        unfold loOrd
        rw [if_pos f0, ec, hyo, hyl, ← toOrdinal_next_year]
        exact year_start_mono _ _ (by have := ok.interval; dsimp only; omega)
    by_cases f1 : r.freq = 1
    · have hm := inv.month
      have hb := daysInMonth_bounds st.cur.year st.cur.month
      refine ⟨_, _, dayset_monthly st.cur f1 inv.facts hm.1 hm.2, ?_, by omega, ?_⟩
      · unfold loOrd; rw [if_neg f0, if_pos f1, hyo]; exact (month_start _ _).symm
      · intro st' h
        obtain ⟨c, fl, hadv⟩ := step_next r st st' h
        obtain ⟨e, m1, m12, hd, f', ts⟩ :=
          advance_monthly r { st with count := c } st' fl f1 ok.interval hm.1 hm.2 hadv
        have e : st'.cur.year * 12 + (st'.cur.month - 1) =
            st.cur.year * 12 + (st.cur.month - 1) + r.interval := e
        refine ⟨⟨f', ⟨m1, m12⟩, by rw [ts]; exact inv.ts, by intro h2; omega, by intro h2; omega⟩, ?_⟩
        unfold loOrd
        rw [if_neg f0, if_pos f1]
        have hlex := toOrdinal_lt_of_lex st.cur.year st.cur.month (daysInMonth st.cur.year st.cur.month)
          st'.cur.year st'.cur.month 1 ⟨hm.1, hm.2, by omega, by omega⟩
          ⟨m1, m12, by omega, by have := daysInMonth_bounds st'.cur.year st'.cur.month; omega⟩
          (by have := ok.interval; omega)
        rw [hyo]
        have e2 := month_start st.cur.year st.cur.month
        have : toOrdinal st.cur.year st.cur.month (daysInMonth st.cur.year st.cur.month) =
            toOrdinal st.cur.year st.cur.month 1 + daysInMonth st.cur.year st.cur.month - 1 := by
          unfold toOrdinal; omega
        omega
    by_cases f2 : r.freq = 2
    · have hv := inv.valid (by omega)
      obtain ⟨e, hd, h1, h2, h3, h4⟩ := dayset_weekly f2 inv.facts hv
      refine ⟨_, e, hd, by unfold loOrd; rw [if_neg f0, if_neg f1]; omega, h1, ?_⟩
      intro st' h
      obtain ⟨c, fl, hadv⟩ := step_next r st st' h
      have hwd := inv.wd f2
      have hrange := weekdayOfOrd_range (curOrd st.cur)
      obtain ⟨eo, v, wd', f', ts⟩ := advance_weekly r { st with count := c } st' fl f2 ok.interval hv ok.wkst
        (by show 0 ≤ st.cur.weekday ∧ st.cur.weekday ≤ 6; rw [hwd]; omega) inv.facts hadv
      have eo : curOrd st'.cur = curOrd st.cur - (st.cur.weekday - r.wkst) % 7 + 7 * r.interval := eo
      refine ⟨⟨f', ⟨v.1, v.2.1⟩, by rw [ts]; exact inv.ts, fun _ => v, ?_⟩, ?_⟩
      · intro _
        rw [wd', eo, hwd]
        have := weekdayOfOrd_add (curOrd st.cur)
          (-((weekdayOfOrd (curOrd st.cur) - r.wkst) % 7) + 7 * r.interval)
        have e3 : curOrd st.cur - (weekdayOfOrd (curOrd st.cur) - r.wkst) % 7 + 7 * r.interval =
            curOrd st.cur + (-((weekdayOfOrd (curOrd st.cur) - r.wkst) % 7) + 7 * r.interval) := by omega
        rw [e3, this]
        have := ok.wkst
        omega
      · unfold loOrd
        rw [if_neg f0, if_neg f1, eo, hwd]
        -- the day `cur + 7 − δ` is a week start, so the day set cannot reach beyond it
        have hδ : 0 ≤ (weekdayOfOrd (curOrd st.cur) - r.wkst) % 7 ∧
            (weekdayOfOrd (curOrd st.cur) - r.wkst) % 7 < 7 := by omega
        by_cases hgt : e ≤ curOrd st.cur - st.info.yearordinal + 7 - (weekdayOfOrd (curOrd st.cur) - r.wkst) % 7
        · have := ok.interval; omega
        · exfalso
          have := h3 (curOrd st.cur - st.info.yearordinal + 7 - (weekdayOfOrd (curOrd st.cur) - r.wkst) % 7)
            (by omega) (by omega)
          apply this
          have e4 : st.info.yearordinal + (curOrd st.cur - st.info.yearordinal + 7 -
              (weekdayOfOrd (curOrd st.cur) - r.wkst) % 7) =
              curOrd st.cur + (7 - (weekdayOfOrd (curOrd st.cur) - r.wkst) % 7) := by omega
          rw [e4, weekdayOfOrd_add]
          have := ok.wkst
          omega
    · have f3 : r.freq = 3 := by omega
      have hv := inv.valid (by omega)
      refine ⟨curOrd st.cur - st.info.yearordinal, curOrd st.cur - st.info.yearordinal + 1, ?_,
              by unfold loOrd; rw [if_neg f0, if_neg f1]; omega, by omega, ?_⟩
      · rw [dayset_daily st.cur (by omega) inv.facts hv, intRange_one]
      · intro st' h
        obtain ⟨c, fl, hadv⟩ := step_next r st st' h
        obtain ⟨eo, v, f', ts⟩ := advance_daily r { st with count := c } st' fl f3 ok.interval hv inv.facts hadv
        have eo : curOrd st'.cur = curOrd st.cur + r.interval := eo
        refine ⟨⟨f', ⟨v.1, v.2.1⟩, by rw [ts]; exact inv.ts, fun _ => v, by intro h2; omega⟩, ?_⟩
        unfold loOrd
        rw [if_neg f0, if_neg f1]
        have := ok.interval
        omega
  obtain ⟨i0, i1, hd, hlo, hlt, hnext⟩ := hds
  refine ⟨st.info.yearordinal + i1, by omega, ?_, ?_, hnext⟩
  · intro x hx
    rcases step_sublist r st with h | ⟨cands, pend, fl, hres, hsub⟩
    · rw [h] at hx; simp at hx
    · obtain ⟨_, hmem⟩ := periodResults_spec r st _ cands pend fl hd (intRange_pairwise _ _) inv.ts hres
      obtain ⟨i, hi, t, ht, rfl⟩ := hmem x (hsub.subset hx)
      have hir := (mem_intRange _ _ _).mp hi
      have hw := inst_window (st.info.yearordinal + i) t (inv.ts.2 t ht)
      have h1 : loOrd r st * 86400 ≤ (st.info.yearordinal + i) * 86400 := by
        rw [← hlo]; apply Int.mul_le_mul_of_nonneg_right <;> omega
      have h2 : (st.info.yearordinal + i + 1) * 86400 ≤ (st.info.yearordinal + i1) * 86400 := by
        apply Int.mul_le_mul_of_nonneg_right <;> omega
      omega
  · rcases step_sublist r st with h | ⟨cands, pend, fl, hres, hsub⟩
    · rw [h]; exact List.Pairwise.nil
    · obtain ⟨hs, _⟩ := periodResults_spec r st _ cands pend fl hd (intRange_pairwise _ _) inv.ts hres
      exact hs.sublist hsub

end RRule
