/-
  Proofs/ICalMalformed.lean — the malformed-definition classes of `tzical._parse_rfc` on the model (`ICal.stepCore` and its
  pieces `beginComp / closeZone / closeComp / compProp / zoneProp`) and the error kinds of the whole parser.
-/
import DateutilVerif.Proofs.ICalRfc

namespace ICalRfc
open ICal Py

/-! ### only ValueError -/

theorem bind_err_cases {α β} (r : R α) (f : α → R β) (e : PyErr) (h : (r >>= f) = .error e) :
    r = .error e ∨ ∃ a, r = .ok a ∧ f a = .error e := by
  cases r with
  | error e' => left; simpa [bind, Except.bind] using h
  | ok a => right; exact ⟨a, rfl, h⟩


def I (x : List Char) : R Int := match pyInt x with | some v => Except.ok v | none => Except.error PyErr.ValueError
theorem I_err (x e) (h : I x = .error e) : e = .ValueError := by unfold I at h; split at h <;> cases h; rfl

theorem offBody_err (p : Int × List Char) (e : PyErr)
    (h : (if (p.snd.length == 4) = true then do
            let h ← I (List.take 2 p.snd)
            let m ← I (List.drop 2 p.snd)
            Except.ok ((h * 3600 + m * 60) * p.fst)
          else
            if (p.snd.length == 6) = true then do
              let h ← I (List.take 2 p.snd)
              let m ← I (List.take 2 (List.drop 2 p.snd))
              let sec ← I (List.drop 4 p.snd)
              Except.ok ((h * 3600 + m * 60 + sec) * p.fst)
            else (Except.error PyErr.ValueError : R Int)) = .error e) : e = .ValueError := by
  split at h
  · rcases bind_err_cases _ _ _ h with h1 | ⟨a, _, h2⟩
    · exact I_err _ _ h1
    · rcases bind_err_cases _ _ _ h2 with h1 | ⟨b, _, h3⟩
      · exact I_err _ _ h1
      · cases h3
  · split at h
    · rcases bind_err_cases _ _ _ h with h1 | ⟨a, _, h2⟩
      · exact I_err _ _ h1
      · rcases bind_err_cases _ _ _ h2 with h1 | ⟨b, _, h3⟩
        · exact I_err _ _ h1
        · rcases bind_err_cases _ _ _ h3 with h1 | ⟨c, _, h4⟩
          · exact I_err _ _ h1
          · cases h4
    · cases h; rfl

theorem parseOffset_err (s : List Char) (e : PyErr) (h : parseOffset s = .error e) : e = .ValueError := by
  simp only [parseOffset] at h
  split at h
  · cases h; rfl
  · split at h
    · exact offBody_err _ _ h
    · exact offBody_err _ _ h

def LibVE (lib : RRuleLib) : Prop := ∀ l e, lib l = .error e → e = .ValueError

theorem compRules_err (lib : RRuleLib) (hl : LibVE lib) (l : List (List Char)) (e : PyErr)
    (h : compRules lib l = .error e) : e = .ValueError := by
  unfold compRules at h
  split at h
  · cases h
  · split at h
    · rename_i e' he; cases h; exact hl _ _ he
    · cases h


theorem beginComp_err (st : PState) (v : List Char) (e : PyErr) (h : beginComp st v = .error e) : e = .ValueError := by
  unfold beginComp at h; split at h <;> cases h; rfl

theorem closeZone_err (st : PState) (e : PyErr) (h : closeZone st = .error e) : e = .ValueError := by
  unfold closeZone at h
  repeat' split at h
  all_goals (cases h; try rfl)

theorem closeComp_err (lib : RRuleLib) (hl : LibVE lib) (st : PState) (v : List Char) (e : PyErr)
    (h : closeComp lib st v = .error e) : e = .ValueError := by
  unfold closeComp at h
  split at h
  · cases h; rfl
  · split at h
    · split at h
      · rename_i e' he; cases h; exact compRules_err lib hl _ _ he
      · cases h
    · cases h; rfl

theorem compProp_err (st : PState) (line name : List Char) (parms : List (List Char)) (v : List Char) (e : PyErr)
    (h : compProp st line name parms v = .error e) : e = .ValueError := by
  unfold compProp at h
  repeat' split at h
  all_goals (first
    | (cases h; done)
    | (cases h; rfl)
    | (rename_i he; cases h; exact parseOffset_err _ _ he))

theorem zoneProp_err (st : PState) (name : List Char) (parms : List (List Char)) (v : List Char) (e : PyErr)
    (h : zoneProp st name parms v = .error e) : e = .ValueError := by
  unfold zoneProp at h
  repeat' split at h
  all_goals (cases h; try rfl)

theorem stepCore_err (lib : RRuleLib) (hl : LibVE lib) (st : PState) (line name : List Char) (parms : List (List Char))
    (value : List Char) (e : PyErr) (h : stepCore lib st line name parms value = .error e) : e = .ValueError := by
  unfold stepCore at h
  repeat' split at h
  all_goals (first
    | exact beginComp_err _ _ _ h
    | exact closeZone_err _ _ h
    | exact closeComp_err lib hl _ _ _ h
    | exact compProp_err _ _ _ _ _ _ h
    | exact zoneProp_err _ _ _ _ _ h
    | (cases h; done)
    | (cases h; rfl))

theorem stepLineW_err (lib : RRuleLib) (hl : LibVE lib) (st : PState) (line : List Char) (e : PyErr)
    (h : stepLineW lib st line = .error e) : e = .ValueError := by
  unfold stepLineW at h
  split at h
  · cases h
  · split at h
    · cases h; rfl
    · exact stepCore_err lib hl _ _ _ _ _ _ h

theorem foldlM_err {σ α} (f : σ → α → R σ) (hf : ∀ s a e, f s a = .error e → e = .ValueError) :
    ∀ (l : List α) (s : σ) (e : PyErr), l.foldlM f s = .error e → e = .ValueError := by
  intro l
  induction l with
  | nil => intro s e h; cases h
  | cons a t ih =>
    intro s e h
    simp only [List.foldlM, bind, Except.bind] at h
    split at h
    · rename_i e' he; cases h; exact hf _ _ _ he
    · exact ih _ _ h

theorem parseRfcW_err (lib : RRuleLib) (hl : LibVE lib) (text : List Char) (e : PyErr)
    (h : parseRfcW lib text = .error e) : e = .ValueError := by
  unfold parseRfcW at h
  dsimp only at h
  split at h
  · cases h; rfl
  · split at h
    · cases h
    · rename_i e' he
      cases h
      exact foldlM_err _ (stepLineW_err lib hl) _ _ _ he

/-! ### a component's property lines other than DTSTART keep `founddtstart`, `comptype`, `invtz`, `tzid`, `comps` -/

/-- the names `compProp` accepts besides DTSTART -/
def OtherCompProp (name : List Char) : Prop :=
  name = lit "RRULE" ∨ name = lit "RDATE" ∨ name = lit "EXRULE" ∨ name = lit "EXDATE" ∨ name = lit "TZOFFSETFROM" ∨
  name = lit "TZOFFSETTO" ∨ name = lit "TZNAME" ∨ name = lit "COMMENT"

theorem compProp_keeps (st st' : PState) (line name : List Char) (parms : List (List Char)) (v : List Char)
    (hn : name ≠ lit "DTSTART") (h : compProp st line name parms v = .ok st') :
    st'.founddtstart = st.founddtstart ∧ st'.comptype = st.comptype ∧ st'.invtz = st.invtz ∧ st'.tzid = st.tzid ∧
      st'.comps = st.comps ∧ st'.vtz = st.vtz := by
  unfold compProp at h
  have hb : (name == lit "DTSTART") = false := by simpa using hn
  simp only [hb, Bool.false_eq_true, if_false] at h
  repeat' split at h
  all_goals (first | (cases h; done) | (cases h; simp))

/-! ### document level: a component without DTSTART -/

/-- a line after the split: (raw line, upper-cased NAME, parameters, value) -/
abbrev PLine := List Char × List Char × List (List Char) × List Char

def stepP (lib : RRuleLib) (st : PState) (p : PLine) : R PState := stepCore lib st p.1 p.2.1 p.2.2.1 p.2.2.2

/-- inside an open component `kind` in which no DTSTART has been seen -/
def OpenNoStart (kind : List Char) (st : PState) : Prop :=
  st.invtz = true ∧ st.comptype = some kind ∧ st.founddtstart = false

theorem kind_facts (kind : List Char) (hk : kind = lit "STANDARD" ∨ kind = lit "DAYLIGHT") :
    ICal.truthy (some kind) = true ∧ (kind == lit "VTIMEZONE") = false := by
  rcases hk with rfl | rfl <;> decide

theorem other_not_special (name : List Char) (h : OtherCompProp name) :
    (name == lit "BEGIN") = false ∧ (name == lit "END") = false ∧ name ≠ lit "DTSTART" := by
  rcases h with rfl | rfl | rfl | rfl | rfl | rfl | rfl | rfl <;> decide

theorem end_rejected (lib : RRuleLib) (kind : List Char) (hk : kind = lit "STANDARD" ∨ kind = lit "DAYLIGHT") (st : PState)
    (h : OpenNoStart kind st) (l1 : List Char) (pm1 : List (List Char)) :
    stepP lib st (l1, lit "END", pm1, kind) = .error .ValueError := by
  obtain ⟨h1, h2, h3⟩ := h
  have e1 : (lit "END" == lit "BEGIN") = false := by decide
  have e2 := (kind_facts kind hk).2
  simp [stepP, stepCore, h1, e1, e2, h2, closeComp, h3]

theorem other_step (lib : RRuleLib) (kind : List Char) (hk : kind = lit "STANDARD" ∨ kind = lit "DAYLIGHT") (st : PState)
    (h : OpenNoStart kind st) (p : PLine) (hp : OtherCompProp p.2.1) :
    (∃ e, stepP lib st p = .error e) ∨ ∃ st', stepP lib st p = .ok st' ∧ OpenNoStart kind st' := by
  obtain ⟨h1, h2, h3⟩ := h
  obtain ⟨n1, n2, n3⟩ := other_not_special _ hp
  have ht : ICal.truthy st.comptype = true := by rw [h2]; exact (kind_facts kind hk).1
  have e : stepP lib st p = compProp st p.1 p.2.1 p.2.2.1 p.2.2.2 := by
    simp [stepP, stepCore, h1, n1, n2, ht]
  rw [e]
  cases hc : compProp st p.1 p.2.1 p.2.2.1 p.2.2.2 with
  | error e => exact Or.inl ⟨e, rfl⟩
  | ok st' =>
    obtain ⟨k1, k2, k3, _, _, _⟩ := compProp_keeps st st' _ _ _ _ n3 hc
    exact Or.inr ⟨st', rfl, by rw [k3, h1], by rw [k2, h2], by rw [k1, h3]⟩

theorem body_rejected (lib : RRuleLib) (kind : List Char) (hk : kind = lit "STANDARD" ∨ kind = lit "DAYLIGHT")
    (l1 : List Char) (pm1 : List (List Char)) (ps : List PLine) :
    ∀ st, OpenNoStart kind st → (∀ p ∈ ps, OtherCompProp p.2.1) →
      ∃ e, (ps ++ [(l1, lit "END", pm1, kind)]).foldlM (stepP lib) st = .error e := by
  induction ps with
  | nil =>
    intro st h _
    refine ⟨.ValueError, ?_⟩
    simp [List.foldlM, end_rejected lib kind hk st h l1 pm1, bind, Except.bind]
  | cons p ps ih =>
    intro st h hps
    rcases other_step lib kind hk st h p (hps p (by simp)) with ⟨e, he⟩ | ⟨st', hs, h'⟩
    · exact ⟨e, by simp [List.foldlM, he, bind, Except.bind]⟩
    · obtain ⟨e, he⟩ := ih st' h' (fun q hq => hps q (by simp [hq]))
      exact ⟨e, by simpa [List.foldlM, hs, bind, Except.bind] using he⟩

/-- **a component with recurrence / offset / name lines but no DTSTART is rejected**, from any state inside a VTIMEZONE, whatever the
    lines are (any number, any order, any values), at the latest at its END line -/
theorem component_without_dtstart (lib : RRuleLib) (st : PState) (kind : List Char)
    (hk : kind = lit "STANDARD" ∨ kind = lit "DAYLIGHT") (hin : st.invtz = true)
    (l0 l1 : List Char) (pm0 pm1 : List (List Char)) (ps : List PLine) (hps : ∀ p ∈ ps, OtherCompProp p.2.1) :
    ∃ e, ((l0, lit "BEGIN", pm0, kind) :: (ps ++ [(l1, lit "END", pm1, kind)])).foldlM (stepP lib) st = .error e := by
  have hb : stepP lib st (l0, lit "BEGIN", pm0, kind) =
      .ok { st with comptype := some kind, founddtstart := false, tzoffsetfrom := none, tzoffsetto := none, rrulelines := [],
                    tzname := none } := by
    rcases hk with rfl | rfl <;> simp [stepP, stepCore, hin, beginComp]
  obtain ⟨e, he⟩ := body_rejected lib kind hk l1 pm1 ps
    { st with comptype := some kind, founddtstart := false, tzoffsetfrom := none, tzoffsetto := none, rrulelines := [], tzname := none }
    ⟨hin, rfl, rfl⟩ hps
  exact ⟨e, by simpa [List.foldlM, hb, bind, Except.bind] using he⟩


end ICalRfc
